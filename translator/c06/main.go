// Translator for C06: re-extracts from the fiber sources, on every check run, through which
// conversion every text-yielding accessor returns its value.
//
// It is a small flow-insensitive abstract interpreter over go/ast (no type checker, standard library
// only). Every expression is mapped to a set of provenance atoms:
//
//	owned   - literal, fresh allocation, string(b)/[]byte(s) conversion, utils.Copy*, strconv, ...
//	imm     - result of app.getString / app.getBytes (copy iff Config.Immutable) or of a function
//	          that returns a copy under `if ...config.Immutable {` and the raw value otherwise
//	alias   - storage recycled between requests: anything reached through a *fasthttp.* value, a
//	          buffer reused with append(x[:0], ...), pooled byte buffers, and sub-slices of those
//	arg     - flows from an argument of the accessor itself (owned by the caller)
//	unknown - anything the interpreter does not understand (counts as NOT proved)
//
// Function summaries (class of each result, and what a call writes through its pointer / map / slice
// parameters and its receiver) are computed on demand for all functions of package fiber and package
// binder; DefaultCtx fields get the join of everything assigned to them anywhere (including writes
// through &c.field passed to callees), iterated to a fixpoint.
//
// Output: lean/FiberModel/Generated/C06Facts.lean (table `C06.Facts.rows`).
package main

import (
	"flag"
	"fmt"
	"go/ast"
	"go/parser"
	"go/token"
	"os"
	"path/filepath"
	"sort"
	"strings"
)

// ---------------------------------------------------------------------------------------------
// provenance classes

type cls struct {
	bits   uint8
	params uint64
}

const (
	bO uint8 = 1 << iota // owned
	bI                   // copy iff Immutable
	bA                   // alias of recycled storage
	bU                   // unknown
	bR                   // a request/response object (not text; binder argument)
	bC                   // a CONTAINER (slice / map) that is emptied and refilled for every request: whoever
	//                      holds it sees the later contents, even when each element is a private copy.
	//                      Kept by identity and re-slicing, dropped by element access (index, range).
)

var (
	cO = cls{bits: bO}
	cI = cls{bits: bI}
	cA = cls{bits: bA}
	cU = cls{bits: bU}
	cR = cls{bits: bR}
	cC = cls{bits: bC}
)

// elem: class of an element taken out of a container of class a
func (a cls) elem() cls { return cls{bits: a.bits &^ bC, params: a.params} }

func (a cls) join(b cls) cls { return cls{a.bits | b.bits, a.params | b.params} }
func (a cls) empty() bool    { return a.bits == 0 && a.params == 0 }
func cP(i int) cls {
	if i < 0 || i > 63 {
		return cU
	}
	return cls{params: 1 << uint(i)}
}
func (a cls) ownedOnly() bool { return a.bits&^bO == 0 && a.params == 0 }

// subst replaces parameter atoms by the classes of the actual arguments.
func (a cls) subst(args []cls) cls {
	out := cls{bits: a.bits}
	for i := 0; i < 64; i++ {
		if a.params&(1<<uint(i)) != 0 {
			if i < len(args) {
				out = out.join(args[i])
			} else {
				out = out.join(cU)
			}
		}
	}
	return out
}

func (a cls) names() []string {
	var out []string
	if a.bits&bO != 0 {
		out = append(out, "owned")
	}
	if a.bits&bI != 0 {
		out = append(out, "imm")
	}
	if a.bits&(bA|bC) != 0 {
		out = append(out, "alias")
	}
	if a.bits&bR != 0 {
		out = append(out, "reqobj")
	}
	if a.params != 0 {
		out = append(out, "arg")
	}
	if a.bits&bU != 0 || len(out) == 0 {
		out = append(out, "unknown")
	}
	return out
}

// ---------------------------------------------------------------------------------------------
// program representation

type guard int

const (
	gAlways guard = iota
	gImmOnly
	gMutOnly
)

type retSite struct {
	g    guard
	vals []cls
}

type summary struct {
	rets []retSite
	out  map[int]cls // writes through parameter i (receiver = 0)
	// parameter i (a slice, or a pointer to one) is refilled in place: append(p[:0], ...), copy(p, ...), p[j] = v
	reuse map[int]bool
	done  bool
}

// class of result idx as seen by a caller (see package comment for `imm`).
func (s *summary) result(idx int) cls {
	var base, mut cls
	hasMut := false
	for _, r := range s.rets {
		if idx >= len(r.vals) {
			continue
		}
		if r.g == gMutOnly {
			mut = mut.join(r.vals[idx])
			hasMut = true
		} else {
			base = base.join(r.vals[idx])
		}
	}
	if hasMut && !mut.ownedOnly() {
		base = base.join(cI)
	} else if hasMut {
		base = base.join(mut)
	}
	return base
}

type fn struct {
	pkg    string // "fiber" | "binder"
	recv   string // receiver type name or ""
	name   string
	decl   *ast.FuncDecl
	params []string // receiver first (if any), then parameters in order; "_" for unnamed
	ptypes []string
	sum    *summary
	busy   bool
	// recycled storage this function (or a callee) writes IN PLACE: context fields re-used through
	// append(f[:0], ...), f = x[:0], clear / delete / copy / element assignment, and fasthttp objects
	// changed through a mutator (SetBodyRaw, SetPath, Del ...). Accumulated over all rounds (monotone).
	writes map[string]bool
}

type prog struct {
	fset    *token.FileSet
	funcs   map[string]*fn               // "pkg.Recv.Name" / "pkg.Name"
	structs map[string]map[string]string // "pkg.Type" -> field -> type string
	consts  map[string]bool              // "pkg.Name"
	aliases map[string]string            // named non-struct types: "pkg.Type" -> underlying type string
	fields  map[string]cls               // DefaultCtx field -> class (current fixpoint iterate)
	nfields map[string]cls               // next iterate
	imports map[string]bool
	cur     string
}

func typeStr(e ast.Expr) string {
	switch t := e.(type) {
	case nil:
		return ""
	case *ast.Ident:
		return t.Name
	case *ast.StarExpr:
		return typeStr(t.X)
	case *ast.SelectorExpr:
		return typeStr(t.X) + "." + t.Sel.Name
	case *ast.ArrayType:
		return "[]" + typeStr(t.Elt)
	case *ast.MapType:
		return "map[" + typeStr(t.Key) + "]" + typeStr(t.Value)
	case *ast.Ellipsis:
		return "[]" + typeStr(t.Elt)
	case *ast.FuncType:
		return "func"
	case *ast.InterfaceType:
		return "any"
	case *ast.IndexExpr:
		return typeStr(t.X)
	case *ast.IndexListExpr:
		return typeStr(t.X)
	}
	return "?"
}

func (p *prog) load(dir, pkg string) {
	ents, err := os.ReadDir(dir)
	if err != nil {
		die(err)
	}
	for _, e := range ents {
		n := e.Name()
		if e.IsDir() || !strings.HasSuffix(n, ".go") || strings.HasSuffix(n, "_test.go") {
			continue
		}
		f, err := parser.ParseFile(p.fset, filepath.Join(dir, n), nil, parser.SkipObjectResolution)
		if err != nil {
			die(err)
		}
		for _, im := range f.Imports {
			path := strings.Trim(im.Path.Value, `"`)
			name := filepath.Base(path)
			if name == "v2" || name == "v3" {
				name = filepath.Base(filepath.Dir(path))
			}
			if im.Name != nil {
				name = im.Name.Name
			}
			p.imports[name] = true
		}
		for _, d := range f.Decls {
			switch d := d.(type) {
			case *ast.FuncDecl:
				if d.Body == nil {
					continue
				}
				x := &fn{pkg: pkg, name: d.Name.Name, decl: d}
				if d.Recv != nil && len(d.Recv.List) == 1 {
					x.recv = typeStr(d.Recv.List[0].Type)
					nm := "_"
					if len(d.Recv.List[0].Names) == 1 {
						nm = d.Recv.List[0].Names[0].Name
					}
					x.params = append(x.params, nm)
					x.ptypes = append(x.ptypes, x.recv)
				}
				for _, f := range d.Type.Params.List {
					ts := typeStr(f.Type)
					if len(f.Names) == 0 {
						x.params = append(x.params, "_")
						x.ptypes = append(x.ptypes, ts)
					}
					for _, nm := range f.Names {
						x.params = append(x.params, nm.Name)
						x.ptypes = append(x.ptypes, ts)
					}
				}
				key := pkg + "." + d.Name.Name
				if x.recv != "" {
					key = pkg + "." + x.recv + "." + d.Name.Name
				}
				p.funcs[key] = x
			case *ast.GenDecl:
				for _, s := range d.Specs {
					switch s := s.(type) {
					case *ast.TypeSpec:
						if st, ok := s.Type.(*ast.StructType); ok {
							m := map[string]string{}
							for _, f := range st.Fields.List {
								for _, nm := range f.Names {
									m[nm.Name] = typeStr(f.Type)
								}
							}
							p.structs[pkg+"."+s.Name.Name] = m
						} else {
							p.aliases[pkg+"."+s.Name.Name] = typeStr(s.Type)
						}
					case *ast.ValueSpec:
						if d.Tok == token.CONST {
							for _, nm := range s.Names {
								p.consts[pkg+"."+nm.Name] = true
							}
						}
					}
				}
			}
		}
	}
}

func die(a ...any) {
	fmt.Fprintln(os.Stderr, append([]any{"translator-c06:"}, a...)...)
	os.Exit(1)
}

// ---------------------------------------------------------------------------------------------
// per-function analysis

type frame struct {
	p      *prog
	f      *fn
	env    map[string]cls    // local variables
	typ    map[string]string // identifier -> type string (params, receiver, simple locals)
	pidx   map[string]int
	sum    *summary
	named  []string // named results
	inLit  int
	change bool
	// local variables that are only ever bound to function literals
	litVars map[string]bool
	// the function defers something: named results may be rewritten after the return values are set
	defers bool
}

// externals: package-qualified functions outside fiber/binder.
var extOwned = map[string]bool{
	"utils.CopyString": true, "utils.CopyBytes": true, "utils.ToLower": true, "utils.ToUpper": true,
	"utils.StatusMessage": true, "utils.GetMIME": true, "utils.UUID": true, "utils.UUIDv4": true,
	"strings.Clone": true, "bytes.Clone": true,
	"fmt.Sprintf": true, "fmt.Sprint": true, "fmt.Errorf": true, "errors.New": true,
	"strconv.Itoa": true, "strconv.FormatInt": true, "strconv.FormatUint": true, "strconv.Quote": true,
	"strconv.ParseInt": true, "strconv.ParseUint": true, "strconv.ParseFloat": true, "strconv.ParseBool": true, "strconv.Atoi": true,
	"msgp.ReadStringBytes": true, "msgp.ReadUint8Bytes": true, "msgp.ReadBoolBytes": true,
	"http.ParseTime": true, "time.Now": true, "reflect.TypeOf": true,
	"fasthttp.AcquireCookie": true, "fasthttp.ParseUint": true, "fasthttp.ParseUfloat": true,
	"context.Background": true, "template.New": true,
	"schema.NewDecoder": true, "net.ParseIP": true, "net.JoinHostPort": true,
}

// externals returning (a sub-slice of / the same storage as) argument i. Functions that copy in
// general but hand back the argument itself for some inputs belong here too: utils.ToString(string),
// strings.Join of one element, strings.Repeat(s, 1), filepath.Abs/FromSlash/ToSlash of a clean path.
var extPass = map[string]int{
	"utils.ToString": 0, "strings.Join": 0, "strings.Repeat": 0, "filepath.Abs": 0, "filepath.FromSlash": 0, "filepath.ToSlash": 0,
	"utils.UnsafeString": 0, "utils.UnsafeBytes": 0, "utils.Trim": 0, "utils.TrimLeft": 0, "utils.TrimRight": 0,
	"utils.TrimSpace": 0, "utils.ToLowerBytes": 0, "utils.ToUpperBytes": 0, "utils.IfToLower": 0, "utils.IfToUpper": 0,
	"utils.ParseVendorSpecificContentType": 0,
	"strings.TrimSpace": 0, "strings.Trim": 0, "strings.TrimLeft": 0, "strings.TrimRight": 0, "strings.TrimPrefix": 0,
	"strings.TrimSuffix": 0, "strings.ToLower": 0, "strings.ToUpper": 0, "strings.Split": 0, "strings.SplitN": 0,
	"strings.Fields": 0, "strings.ReplaceAll": 0, "strings.Replace": 0, "strings.Cut": 0, "strings.Title": 0,
	"bytes.TrimSpace": 0, "bytes.Trim": 0, "bytes.TrimLeft": 0, "bytes.TrimRight": 0, "bytes.ToLower": 0, "bytes.Split": 0,
	"html.EscapeString": 0, "filepath.Base": 0, "filepath.Ext": 0, "filepath.Clean": 0,
	"reflect.ValueOf": 0, "msgp.UnsafeString": 0, "msgp.Require": 0,
	"fasthttp.AppendUnquotedArg": 0, "fasthttp.AppendQuotedArg": 0, "msgp.AppendString": 0, "msgp.AppendArrayHeader": 0,
	"msgp.AppendUint8": 0, "msgp.AppendBool": 0,
}

// externals that modify their (slice) argument in place
var extInPlace = map[string]bool{"utils.ToLowerBytes": true, "utils.ToUpperBytes": true, "sort.Strings": true, "sort.Slice": true,
	"slices.Sort": true, "slices.Reverse": true}

var basicTypes = map[string]bool{"string": true, "int": true, "int8": true, "int16": true, "int32": true, "int64": true,
	"uint": true, "uint8": true, "uint16": true, "uint32": true, "uint64": true, "float32": true, "float64": true,
	"bool": true, "byte": true, "rune": true, "any": true, "error": true, "uintptr": true}

// methods of fasthttp values that hand out another fasthttp object (everything else that is reached
// through a fasthttp value and is not in the allocation list below is recycled text storage)
var fastObject = map[string]bool{"URI": true, "QueryArgs": true, "PostArgs": true, "Request": true, "Response": true,
	"Header": true, "Conn": true, "RequestCtx": true}

func isFast(t string) bool { return strings.HasPrefix(t, "fasthttp.") }

func (fr *frame) lookupFunc(pkg, recv, name string) *fn {
	if recv != "" {
		if f, ok := fr.p.funcs[pkg+"."+recv+"."+name]; ok {
			return f
		}
		return nil
	}
	if f, ok := fr.p.funcs[pkg+"."+name]; ok {
		return f
	}
	return nil
}

// uniqueMethod: the only method of that name in the package (used when the receiver's static type
// is not known to this interpreter), nil if there is none or several.
func (p *prog) uniqueMethod(pkg, name string) *fn {
	var found *fn
	for _, g := range p.funcs {
		if g.pkg == pkg && g.recv != "" && g.name == name {
			if found != nil {
				return nil
			}
			found = g
		}
	}
	return found
}

// ctxLike: types whose methods resolve to DefaultCtx's implementations.
func ctxLike(t string) bool { return t == "DefaultCtx" || t == "Ctx" || t == "CustomCtx" }

// typeOf: best-effort static type name of an expression ("" = unknown).
func (fr *frame) typeOf(e ast.Expr) string {
	switch x := e.(type) {
	case *ast.Ident:
		if t, ok := fr.typ[x.Name]; ok {
			return t
		}
		return ""
	case *ast.ParenExpr:
		return fr.typeOf(x.X)
	case *ast.StarExpr:
		return fr.typeOf(x.X)
	case *ast.UnaryExpr:
		if x.Op == token.AND {
			return fr.typeOf(x.X)
		}
	case *ast.CompositeLit:
		return typeStr(x.Type)
	case *ast.SelectorExpr:
		if id, ok := x.X.(*ast.Ident); ok && fr.p.imports[id.Name] && fr.typ[id.Name] == "" && !fr.isLocal(id.Name) {
			return ""
		}
		bt := fr.typeOf(x.X)
		if bt == "" {
			return ""
		}
		if isFast(bt) {
			return "fasthttp.sub"
		}
		if ctxLike(bt) {
			bt = "DefaultCtx"
		}
		for _, pk := range []string{fr.f.pkg, "fiber", "binder"} {
			if fs, ok := fr.p.structs[pk+"."+strings.TrimPrefix(bt, pk+".")]; ok {
				if t, ok := fs[x.Sel.Name]; ok {
					return t
				}
			}
		}
		return ""
	case *ast.CallExpr:
		fun := x.Fun
		if ix, ok := fun.(*ast.IndexExpr); ok {
			fun = ix.X
		}
		if ix, ok := fun.(*ast.IndexListExpr); ok {
			fun = ix.X
		}
		switch f := fun.(type) {
		case *ast.SelectorExpr:
			bt := fr.typeOf(f.X)
			if isFast(bt) {
				if fastObject[f.Sel.Name] {
					return "fasthttp.sub"
				}
				return ""
			}
			if ctxLike(bt) {
				bt = "DefaultCtx"
			}
			if bt != "" {
				for _, pk := range []string{fr.f.pkg, "fiber", "binder"} {
					if g := fr.lookupFunc(pk, strings.TrimPrefix(bt, pk+"."), f.Sel.Name); g != nil {
						if g.decl.Type.Results != nil && len(g.decl.Type.Results.List) > 0 {
							return typeStr(g.decl.Type.Results.List[0].Type)
						}
					}
				}
			}
		case *ast.Ident:
			if g := fr.lookupFunc(fr.f.pkg, "", f.Name); g != nil && !fr.isLocal(f.Name) {
				if g.decl.Type.Results != nil && len(g.decl.Type.Results.List) > 0 {
					return typeStr(g.decl.Type.Results.List[0].Type)
				}
			}
		}
	case *ast.IndexExpr:
		t := fr.typeOf(x.X)
		if strings.HasPrefix(t, "[]") {
			return t[2:]
		}
		if a, ok := fr.p.aliases[fr.f.pkg+"."+t]; ok && strings.HasPrefix(a, "[]") {
			return a[2:]
		}
	case *ast.TypeAssertExpr:
		if x.Type != nil {
			return typeStr(x.Type)
		}
	}
	return ""
}

func (fr *frame) isLocal(name string) bool {
	if _, ok := fr.env[name]; ok {
		return true
	}
	_, ok := fr.pidx[name]
	return ok
}

func rootIdent(e ast.Expr) *ast.Ident {
	for {
		switch x := e.(type) {
		case *ast.Ident:
			return x
		case *ast.ParenExpr:
			e = x.X
		case *ast.StarExpr:
			e = x.X
		case *ast.UnaryExpr:
			e = x.X
		case *ast.SelectorExpr:
			e = x.X
		case *ast.IndexExpr:
			e = x.X
		case *ast.SliceExpr:
			e = x.X
		case *ast.CallExpr:
			switch f := x.Fun.(type) {
			case *ast.SelectorExpr:
				e = f.X
			default:
				return nil
			}
		case *ast.TypeAssertExpr:
			e = x.X
		default:
			return nil
		}
	}
}

// fastRooted: the value is reached through a *fasthttp.* object.
func (fr *frame) fastRooted(e ast.Expr) bool {
	for {
		if isFast(fr.typeOf(e)) {
			return true
		}
		switch x := e.(type) {
		case *ast.ParenExpr:
			e = x.X
		case *ast.StarExpr:
			e = x.X
		case *ast.UnaryExpr:
			e = x.X
		case *ast.SelectorExpr:
			e = x.X
		case *ast.IndexExpr:
			e = x.X
		case *ast.SliceExpr:
			e = x.X
		case *ast.CallExpr:
			if f, ok := x.Fun.(*ast.SelectorExpr); ok {
				e = f.X
			} else {
				return false
			}
		default:
			return false
		}
	}
}

// ctxField: e is `X.F` with X a DefaultCtx and F one of its fields.
func (fr *frame) ctxField(e ast.Expr) (string, bool) {
	for {
		switch x := e.(type) {
		case *ast.ParenExpr:
			e = x.X
			continue
		case *ast.StarExpr:
			e = x.X
			continue
		case *ast.UnaryExpr:
			if x.Op == token.AND {
				e = x.X
				continue
			}
		case *ast.IndexExpr:
			e = x.X
			continue
		case *ast.SliceExpr:
			e = x.X
			continue
		}
		break
	}
	// c.F, and anything nested inside a field (c.F.g.h, c.F[i].g): the class is kept per top-level field
	for {
		s, ok := e.(*ast.SelectorExpr)
		if !ok {
			return "", false
		}
		if ctxLike(fr.typeOf(s.X)) {
			if _, ok := fr.p.structs["fiber.DefaultCtx"][s.Sel.Name]; ok {
				return s.Sel.Name, true
			}
			return "", false
		}
		switch fr.typeOf(s.X) {
		case "App", "Config", "Route", "Group":
			return "", false // shared registration-time objects, not part of the pooled context
		}
		e = s.X
		for {
			switch x := e.(type) {
			case *ast.ParenExpr:
				e = x.X
				continue
			case *ast.StarExpr:
				e = x.X
				continue
			case *ast.IndexExpr:
				e = x.X
				continue
			case *ast.SliceExpr:
				e = x.X
				continue
			}
			break
		}
	}
}

func nonEmptyStringLit(e ast.Expr) bool {
	if b, ok := e.(*ast.BasicLit); ok && b.Kind == token.STRING {
		return len(b.Value) > 2
	}
	if b, ok := e.(*ast.BinaryExpr); ok && b.Op == token.ADD {
		return nonEmptyStringLit(b.X) || nonEmptyStringLit(b.Y)
	}
	return false
}

func (fr *frame) evalArgs(args []ast.Expr) []cls {
	out := make([]cls, len(args))
	for i, a := range args {
		out[i] = fr.eval(a)
	}
	return out
}

// callSummary evaluates a call to a known function: result class per index and side effects.
func (fr *frame) callKnown(g *fn, recvExpr ast.Expr, args []ast.Expr, idx int) cls {
	s := fr.p.summarize(g)
	for w := range g.writes {
		fr.wrote(w)
	}
	// actual classes aligned with g.params (receiver first)
	var actual []cls
	var actualExpr []ast.Expr
	if g.recv != "" {
		if recvExpr != nil {
			actual = append(actual, fr.eval(recvExpr))
		} else {
			actual = append(actual, cU)
		}
		actualExpr = append(actualExpr, recvExpr)
	}
	variadic := false
	if n := len(g.decl.Type.Params.List); n > 0 {
		_, variadic = g.decl.Type.Params.List[n-1].Type.(*ast.Ellipsis)
	}
	nfixed := len(g.params) - len(actual)
	if variadic {
		nfixed--
	}
	for i, a := range args {
		c := fr.eval(a)
		if i < nfixed || !variadic {
			actual = append(actual, c)
			actualExpr = append(actualExpr, a)
		} else if i == nfixed {
			actual = append(actual, c)
			actualExpr = append(actualExpr, a)
		} else {
			actual[len(actual)-1] = actual[len(actual)-1].join(c)
		}
	}
	if variadic && len(args) <= nfixed {
		actual = append(actual, cO) // no variadic arguments: empty slice
		actualExpr = append(actualExpr, nil)
	}
	if os.Getenv("C06_DEBUG_CALL") == g.name {
		pos := ""
		if len(args) > 0 {
			pos = fr.p.fset.Position(args[0].Pos()).String()
		}
		fmt.Fprintf(os.Stderr, "call %s from %s at %s: actual=", g.name, fr.p.cur, pos)
		for _, a := range actual {
			fmt.Fprintf(os.Stderr, "%v/%b ", a.names(), a.params)
		}
		fmt.Fprintf(os.Stderr, " out=%v\n", s.out)
	}
	// parameters the callee refills in place
	for pi := range s.reuse {
		if pi < len(actualExpr) && actualExpr[pi] != nil {
			fr.reused(actualExpr[pi])
		}
	}
	// side effects through parameters
	for pi, eff := range s.out {
		if pi < len(actualExpr) && actualExpr[pi] != nil {
			fr.writeThrough(actualExpr[pi], eff.subst(actual))
		}
	}
	return s.result(idx).subst(actual)
}

// writeThrough records that `target` (a pointer/map/slice-valued expression) receives data of class c.
func (fr *frame) writeThrough(target ast.Expr, c cls) {
	if c.empty() {
		return
	}
	if f, ok := fr.ctxField(target); ok {
		fr.p.addField(f, fr.argless(c))
		return
	}
	if f, ok := fr.sharedField(target); ok {
		fr.p.addField(f, sharedBits(c))
		return
	}
	id := rootIdent(target)
	if id == nil || !fr.isLocal(id.Name) {
		return
	}
	if i, ok := fr.pidx[id.Name]; ok {
		if old := fr.sum.out[i]; old.join(c) != old {
			fr.sum.out[i] = old.join(c)
			fr.change = true
		}
	}
	// data reaches everything the local value was derived from (aliases of parameters)
	if cur, ok := fr.env[id.Name]; ok {
		for i := 0; i < 64; i++ {
			if cur.params&(1<<uint(i)) != 0 {
				if old := fr.sum.out[i]; old.join(c) != old {
					fr.sum.out[i] = old.join(c)
					fr.change = true
				}
			}
		}
	}
	fr.set(id.Name, c)
}

// argless: a value stored into the pooled context that came from a caller's argument is the
// caller's own data (owned by the handler), not recycled storage.
func (fr *frame) argless(c cls) cls {
	if c.params != 0 {
		return cls{bits: c.bits | bO}
	}
	return c
}

// sharedField: e is `X.F` (possibly indexed / sliced) with X one of the shared registration-time
// objects (App, Config, Route, Group). Writes into them are recorded per "Type.F" like the fields of
// DefaultCtx, so request text parked in such an object is seen by whoever reads it back.
func (fr *frame) sharedField(e ast.Expr) (string, bool) {
	for {
		switch x := e.(type) {
		case *ast.ParenExpr:
			e = x.X
			continue
		case *ast.StarExpr:
			e = x.X
			continue
		case *ast.IndexExpr:
			e = x.X
			continue
		case *ast.SliceExpr:
			e = x.X
			continue
		}
		break
	}
	s, ok := e.(*ast.SelectorExpr)
	if !ok {
		return "", false
	}
	switch t := fr.typeOf(s.X); t {
	case "App", "Config", "Route", "Group":
		return t + "." + s.Sel.Name, true
	}
	return "", false
}

// sharedBits: of what is stored into a shared object only request storage (alias / copy-iff-Immutable)
// is kept; registration code legitimately stores data this interpreter does not follow (parsed route
// segments, handler lists ...), which comes from the application, never from request buffers.
func sharedBits(c cls) cls { return cls{bits: c.bits & (bA | bI)} }

// reused: the storage denoted by e is refilled in place. A context field is recorded directly; a
// parameter (or a local derived from parameters) is recorded in the summary, and resolved at the call
// sites (callKnown).
func (fr *frame) reused(e ast.Expr) bool {
	if fld, ok := fr.ctxField(e); ok {
		switch ft := fr.p.structs["fiber.DefaultCtx"][fld]; {
		case ft == "App" || ft == "Route" || ft == "Bind" || ft == "Redirect" || ft == "DefaultReq" || ft == "DefaultRes" || isFast(ft):
			return false // a pointer to another object, not a buffer of the context
		}
		fr.p.addField(fld, cA)
		fr.wrote(fld)
		return true
	}
	id := rootIdent(e)
	if id == nil {
		return false
	}
	mark := func(i int) {
		if !fr.sum.reuse[i] {
			fr.sum.reuse[i] = true
			fr.change = true
		}
	}
	if i, ok := fr.pidx[id.Name]; ok {
		mark(i)
	}
	if cur, ok := fr.env[id.Name]; ok {
		for i := 0; i < 64; i++ {
			if cur.params&(1<<uint(i)) != 0 {
				mark(i)
			}
		}
	}
	return false
}

// wrote records an in-place write of recycled storage by the function under analysis.
func (fr *frame) wrote(what string) {
	if fr.f == nil {
		return
	}
	if fr.f.writes == nil {
		fr.f.writes = map[string]bool{}
	}
	if !fr.f.writes[what] {
		fr.f.writes[what] = true
		fr.change = true
	}
}

// fasthttp methods that change the object they are called on
func fastMutator(name string) bool {
	for _, p := range []string{"Set", "Del", "Reset", "Add", "Append", "Write", "Swap", "Release", "Remove", "CopyTo", "Read", "Parse", "Disable", "Enable"} {
		if strings.HasPrefix(name, p) {
			return true
		}
	}
	return false
}

func (p *prog) addField(f string, c cls) {
	if d := os.Getenv("C06_DEBUG_FIELD"); d == f {
		fmt.Fprintf(os.Stderr, "field %s += %v (in %s)\n", f, c.names(), p.cur)
	}
	p.nfields[f] = p.nfields[f].join(c)
}

// notLit: name was bound to something that is not a function literal; remember it across the
// iterations of the per-function fixpoint (env persists, so does this marker).
func (fr *frame) notLit(name string) {
	if _, ok := fr.env["\x00notlit:"+name]; !ok {
		fr.env["\x00notlit:"+name] = cO
		fr.change = true
	}
}

func (fr *frame) set(name string, c cls) {
	if name == "_" {
		return
	}
	old, ok := fr.env[name]
	if !ok || old.join(c) != old {
		fr.env[name] = old.join(c)
		fr.change = true
	}
}

func (fr *frame) eval(e ast.Expr) cls {
	switch x := e.(type) {
	case nil:
		return cO
	case *ast.BasicLit:
		return cO
	case *ast.Ident:
		switch x.Name {
		case "nil", "true", "false", "iota":
			return cO
		}
		if c, ok := fr.env[x.Name]; ok {
			if i, isP := fr.pidx[x.Name]; isP {
				return c.join(cP(i))
			}
			return c
		}
		if i, ok := fr.pidx[x.Name]; ok {
			return cP(i)
		}
		if fr.p.consts[fr.f.pkg+"."+x.Name] {
			return cO
		}
		if g := fr.lookupFunc(fr.f.pkg, "", x.Name); g != nil {
			return fr.p.summarize(g).result(0) // function value: class of what it returns
		}
		return cU
	case *ast.ParenExpr:
		return fr.eval(x.X)
	case *ast.StarExpr:
		return fr.eval(x.X)
	case *ast.UnaryExpr:
		if x.Op == token.AND {
			return fr.eval(x.X)
		}
		if x.Op == token.ARROW {
			return fr.eval(x.X).join(cU) // received from a channel: whatever was sent, not tracked
		}
		fr.eval(x.X)
		return cO
	case *ast.BinaryExpr:
		a, b := fr.eval(x.X), fr.eval(x.Y)
		if x.Op == token.ADD {
			if nonEmptyStringLit(x.X) || nonEmptyStringLit(x.Y) {
				return cO // concatenation with a non-empty literal always allocates (or is the literal)
			}
			return a.join(b)
		}
		return cO
	case *ast.SliceExpr:
		return fr.eval(x.X)
	case *ast.IndexExpr:
		if id, ok := x.X.(*ast.Ident); ok && !fr.isLocal(id.Name) && fr.lookupFunc(fr.f.pkg, "", id.Name) != nil {
			return fr.eval(x.X) // generic instantiation
		}
		fr.eval(x.Index)
		return fr.eval(x.X).elem()
	case *ast.IndexListExpr:
		return fr.eval(x.X)
	case *ast.TypeAssertExpr:
		return fr.eval(x.X)
	case *ast.KeyValueExpr:
		return fr.eval(x.Key).join(fr.eval(x.Value))
	case *ast.CompositeLit:
		c := cO
		for _, el := range x.Elts {
			if kv, ok := el.(*ast.KeyValueExpr); ok {
				if _, isMap := x.Type.(*ast.MapType); isMap {
					c = c.join(fr.eval(kv.Key))
				}
				c = c.join(fr.eval(kv.Value))
			} else {
				c = c.join(fr.eval(el))
			}
		}
		return c
	case *ast.FuncLit:
		return fr.walkLit(x, cU)
	case *ast.SelectorExpr:
		return fr.evalSelector(x)
	case *ast.CallExpr:
		return fr.evalCall(x, 0)
	}
	return cU
}

func (fr *frame) evalSelector(x *ast.SelectorExpr) (res cls) {
	if os.Getenv("C06_DEBUG_SEL") == x.Sel.Name {
		defer func() {
			f, ok := fr.ctxField(x)
			fmt.Fprintf(os.Stderr, "sel %s in %s: typeOf(X)=%q ctxField=%q,%v -> %v\n", x.Sel.Name, fr.p.cur, fr.typeOf(x.X), f, ok, res.names())
		}()
	}
	if id, ok := x.X.(*ast.Ident); ok && fr.p.imports[id.Name] && !fr.isLocal(id.Name) {
		q := id.Name + "." + x.Sel.Name
		if _, isFn := extPass[q]; isFn || extOwned[q] || id.Name == "unsafe" || id.Name == "reflect" {
			return cU // a function of another package used as a value (not called here): not tracked
		}
		return cO // package-level constant / variable of another package (status codes, MIME names ...)
	}
	if f, ok := fr.ctxField(x); ok {
		ft := fr.p.structs["fiber.DefaultCtx"][f]
		if isFast(ft) {
			return cR
		}
		return fr.p.fields[f]
	}
	bt := fr.typeOf(x.X)
	if ctxLike(bt) {
		if g := fr.lookupFunc("fiber", "DefaultCtx", x.Sel.Name); g != nil {
			return fr.p.summarize(g).result(0) // method value
		}
	}
	if isFast(bt) || fr.fastRooted(x.X) {
		if isFast(fr.typeOf(x)) || fr.typeOf(x) == "fasthttp.sub" {
			return cR
		}
		return cA
	}
	switch bt {
	case "Route", "App", "Config", "Group":
		// registration-time data; plus whatever any function of the package stores there
		return cO.join(fr.p.fields[bt+"."+x.Sel.Name])
	}
	return fr.eval(x.X)
}

func (fr *frame) evalCall(x *ast.CallExpr, idx int) cls {
	fun := x.Fun
	if ix, ok := fun.(*ast.IndexExpr); ok {
		if _, isCall := ix.X.(*ast.CallExpr); !isCall {
			fun = ix.X
		}
	}
	if ix, ok := fun.(*ast.IndexListExpr); ok {
		fun = ix.X
	}
	// function literals among the arguments: walk their bodies (visitor callbacks)
	litParam := cU
	if s, ok := fun.(*ast.SelectorExpr); ok && fr.fastRooted(s.X) {
		litParam = cA
	}
	for _, a := range x.Args {
		if l, ok := a.(*ast.FuncLit); ok {
			fr.walkLit(l, litParam)
		}
	}
	switch f := fun.(type) {
	case *ast.ArrayType, *ast.MapType, *ast.InterfaceType, *ast.FuncType, *ast.ChanType:
		a := fr.evalArgs(x.Args)
		if at, ok := f.(*ast.ArrayType); ok && len(x.Args) == 1 && len(a) == 1 {
			// []byte(s) of a string copies; a slice-to-slice conversion ([]byte(b), []string(named)) does not
			_ = at
			if t := fr.typeOf(x.Args[0]); t != "string" && fr.p.aliases[fr.f.pkg+"."+t] != "string" {
				if _, lit := x.Args[0].(*ast.BasicLit); !lit {
					return a[0].join(cO) // operand not known to be a string: may be the identity conversion
				}
			}
		}
		return cO // conversion to a slice type copies ([]byte(s))
	case *ast.ParenExpr:
		c := cO // (*T)(p), (T)(v): a conversion, the operand's storage is kept
		for _, a := range fr.evalArgs(x.Args) {
			c = c.join(a)
		}
		return c
	case *ast.Ident:
		if !fr.isLocal(f.Name) {
			if f.Name == "any" || f.Name == "error" {
				c := cO
				for _, ar := range x.Args {
					c = c.join(fr.eval(ar))
				}
				return c // boxing into an interface keeps the storage
			}
			if basicTypes[f.Name] {
				a := fr.evalArgs(x.Args)
				if f.Name == "string" && len(x.Args) == 1 && len(a) == 1 {
					// string(s) of a value that already is a string (or a named string type) is the
					// identity: no copy. Only []byte / rune / integer operands allocate.
					t := fr.typeOf(x.Args[0])
					if t == "string" || fr.p.aliases[fr.f.pkg+"."+t] == "string" {
						return a[0]
					}
					if _, lit := x.Args[0].(*ast.BasicLit); t == "" && !lit && !a[0].ownedOnly() {
						return a[0].join(cO) // operand type not known: may be a (named) string
					}
				}
				return cO // string(b), int(x) ...
			}
			switch f.Name {
			case "append":
				if len(x.Args) == 0 {
					return cO
				}
				c := fr.eval(x.Args[0])
				if sl, ok := x.Args[0].(*ast.SliceExpr); ok && sl.Low == nil {
					if hb, ok := sl.High.(*ast.BasicLit); ok && hb.Value == "0" {
						if fr.reused(sl.X) {
							c = c.join(cA) // buffer of the pooled context reused across requests
						}
					}
				}
				for _, a := range x.Args[1:] {
					c = c.join(fr.eval(a))
				}
				return c
			case "clear", "delete":
				fr.evalArgs(x.Args)
				if len(x.Args) > 0 {
					if fld, ok := fr.ctxField(x.Args[0]); ok {
						fr.p.addField(fld, cC) // emptied in place and reused
						fr.wrote(fld)
					}
				}
				return cO
			case "copy":
				a := fr.evalArgs(x.Args)
				if len(x.Args) == 2 {
					fr.reused(x.Args[0])
					if fld, ok := fr.ctxField(x.Args[0]); ok {
						fr.p.addField(fld, fr.argless(a[1]))
					} else {
						fr.writeThrough(x.Args[0], a[1])
					}
				}
				return cO
			case "make", "new", "len", "cap", "min", "max", "panic", "recover", "print", "println":
				fr.evalArgs(x.Args)
				return cO
			}
			if _, isStruct := fr.p.structs[fr.f.pkg+"."+f.Name]; isStruct {
				fr.evalArgs(x.Args)
				return cO
			}
			if a, isNamed := fr.p.aliases[fr.f.pkg+"."+f.Name]; isNamed {
				_ = a
				c := cO
				for _, ar := range x.Args {
					c = c.join(fr.eval(ar))
				}
				return c // conversion to a named type keeps the storage
			}
			if g := fr.lookupFunc(fr.f.pkg, "", f.Name); g != nil {
				return fr.callKnown(g, nil, x.Args, idx)
			}
			fr.evalArgs(x.Args)
			return cU
		}
		// call of a local function value / function-typed parameter
		fr.evalArgs(x.Args)
		if fr.litVars[f.Name] {
			return fr.eval(f) // bound to function literals only: class of what they return
		}
		if _, isParam := fr.pidx[f.Name]; isParam {
			return fr.eval(f) // callback handed in by the caller: its results are the caller's
		}
		return fr.eval(f).join(cU) // some other function value: not understood
	case *ast.FuncLit:
		fr.evalArgs(x.Args)
		return fr.walkLit(f, cU) // func() { ... }() - also under defer / go
	case *ast.SelectorExpr:
		name := f.Sel.Name
		if os.Getenv("C06_DEBUG_EXT") == name {
			id, ok := f.X.(*ast.Ident)
			fmt.Fprintf(os.Stderr, "ext %s in %s: ident=%v imports=%v local=%v\n", name, fr.p.cur, ok, ok && fr.p.imports[id.Name], ok && fr.isLocal(id.Name))
		}
		if name == "getString" || name == "getBytes" {
			a := fr.evalArgs(x.Args)
			if len(a) == 1 && a[0].ownedOnly() {
				return cO
			}
			return cI
		}
		if id, ok := f.X.(*ast.Ident); ok && fr.p.imports[id.Name] && !fr.isLocal(id.Name) {
			q := id.Name + "." + name
			if id.Name == "binder" || (id.Name == "fiber" && fr.f.pkg != "fiber") {
				if g := fr.lookupFunc(id.Name, "", name); g != nil {
					return fr.callKnown(g, nil, x.Args, idx)
				}
			}
			args := fr.evalArgs(x.Args)
			if extInPlace[q] && len(x.Args) > 0 {
				// rewrites the bytes of its argument and returns it
				if !fr.reused(x.Args[0]) && !args[0].ownedOnly() {
					// not a context buffer and not known to be a private allocation (recycled storage, a
					// callback parameter, anything not understood): counts as a write to recycled storage
					fr.wrote("storage not known to be private, rewritten in place by " + q)
				}
			}
			if q == "bytebufferpool.Get" {
				return cA // pooled buffer: its bytes (bb.B, bb.Bytes()) are recycled storage; bb.String() copies
			}
			if extOwned[q] {
				return cO
			}
			if i, ok := extPass[q]; ok && i < len(args) {
				return args[i]
			}
			return cU
		}
		bt := fr.typeOf(f.X)
		if ctxLike(bt) {
			bt = "DefaultCtx"
		}
		if bt != "" && !isFast(bt) {
			for _, pk := range []string{fr.f.pkg, "fiber", "binder"} {
				if g := fr.lookupFunc(pk, strings.TrimPrefix(bt, pk+"."), name); g != nil {
					return fr.callKnown(g, f.X, x.Args, idx)
				}
			}
		}
		if bt == "" && !ast.IsExported(name) && !fr.fastRooted(f.X) {
			if g := fr.p.uniqueMethod(fr.f.pkg, name); g != nil {
				return fr.callKnown(g, f.X, x.Args, idx)
			}
		}
		args := fr.evalArgs(x.Args)
		if isFast(bt) || fr.fastRooted(f.X) {
			if fastMutator(name) {
				fr.wrote("fasthttp." + name)
			}
			switch name {
			case "String", "MultipartForm", "FormFile", "RemoteIP", "RemoteAddr", "LocalAddr", "StatusCode", "ID", "Len", "IsTLS", "Conn", "UserValue":
				return cO // allocate / not request text
			}
			if fastObject[name] {
				return cR
			}
			return cA
		}
		switch name {
		case "String", "Error", "Name", "MIMETypes":
			if idr := rootIdent(f.X); idr == nil || fr.typeOf(f.X) != "string" {
				return cO // Stringer / error text: freshly built
			}
		case "Bytes":
			return cA // pooled byte buffers (bytebufferpool)
		case "Decode":
			// schema.Decoder.Decode(out, data, files...): stores the strings of data into out
			if len(x.Args) >= 2 {
				fr.writeThrough(x.Args[0], args[1])
			}
			return cO
		case "JSONDecoder", "XMLDecoder", "CBORDecoder":
			if len(x.Args) >= 2 {
				fr.writeThrough(x.Args[1], args[0])
			}
			return cO
		case "Elem", "Interface", "Kind", "Type":
			return fr.eval(f.X) // reflect.Value plumbing keeps pointing at the same object
		case "Get", "Load":
			return fr.eval(f.X).join(cU)
		case "Put", "Store", "Reset", "Range", "Lock", "Unlock", "RLock", "RUnlock", "Close", "WriteString", "WriteByte", "Write":
			return cO
		}
		// method of a local value whose type we do not know
		c := fr.eval(f.X)
		if c.ownedOnly() {
			return cU
		}
		return c.join(cU)
	}
	fr.evalArgs(x.Args)
	return cU
}

// walkLit analyses the body of a function literal in the enclosing frame (closure semantics) and
// returns the class of what it returns.
func (fr *frame) walkLit(l *ast.FuncLit, param cls) cls {
	for _, f := range l.Type.Params.List {
		for _, nm := range f.Names {
			pc := param
			if ts := typeStr(f.Type); basicTypes[ts] && ts != "string" && ts != "any" && ts != "error" {
				pc = cO // numbers and booleans carry no text
			}
			fr.set(nm.Name, pc)
			if _, ok := fr.typ[nm.Name]; !ok {
				fr.typ[nm.Name] = typeStr(f.Type)
			}
		}
	}
	fr.inLit++
	var ret cls
	fr.walkBlock(l.Body.List, gAlways, &ret)
	fr.inLit--
	if ret.empty() {
		return cO
	}
	return ret
}

func isImmCond(e ast.Expr) (bool, bool) { // (is an Immutable test, negated)
	switch x := e.(type) {
	case *ast.ParenExpr:
		return isImmCond(x.X)
	case *ast.UnaryExpr:
		if x.Op == token.NOT {
			ok, neg := isImmCond(x.X)
			return ok, !neg
		}
	case *ast.SelectorExpr:
		if x.Sel.Name == "Immutable" {
			return true, false
		}
	}
	return false, false
}

func terminates(b *ast.BlockStmt) bool {
	if b == nil || len(b.List) == 0 {
		return false
	}
	_, ok := b.List[len(b.List)-1].(*ast.ReturnStmt)
	return ok
}

// walkBlock processes statements; litRet collects return classes when inside a function literal.
func (fr *frame) walkBlock(list []ast.Stmt, g guard, litRet *cls) {
	for _, s := range list {
		g = fr.walkStmt(s, g, litRet)
	}
}

func (fr *frame) walkStmt(s ast.Stmt, g guard, litRet *cls) guard {
	switch x := s.(type) {
	case *ast.ExprStmt:
		fr.eval(x.X)
	case *ast.AssignStmt:
		fr.assign(x)
	case *ast.DeclStmt:
		if gd, ok := x.Decl.(*ast.GenDecl); ok {
			for _, sp := range gd.Specs {
				if vs, ok := sp.(*ast.ValueSpec); ok {
					for i, nm := range vs.Names {
						c := cO // zero value
						if i < len(vs.Values) {
							c = fr.eval(vs.Values[i])
						} else if len(vs.Values) == 1 && len(vs.Names) > 1 {
							if call, ok := vs.Values[0].(*ast.CallExpr); ok {
								c = fr.evalCall(call, i)
							}
						}
						fr.set(nm.Name, c)
						if vs.Type != nil {
							fr.typ[nm.Name] = typeStr(vs.Type)
						}
					}
				}
			}
		}
	case *ast.ReturnStmt:
		if fr.inLit > 0 {
			for _, r := range x.Results {
				*litRet = litRet.join(fr.eval(r))
			}
			if len(x.Results) == 0 {
				*litRet = litRet.join(cO)
			}
			return g
		}
		var vals []cls
		if len(x.Results) == 0 {
			for _, n := range fr.named {
				vals = append(vals, fr.env[n])
			}
		} else if len(x.Results) == 1 && fr.nresults() > 1 {
			if call, ok := x.Results[0].(*ast.CallExpr); ok {
				for i := 0; i < fr.nresults(); i++ {
					vals = append(vals, fr.evalCall(call, i))
				}
			}
		} else {
			for _, r := range x.Results {
				vals = append(vals, fr.eval(r))
			}
		}
		if fr.defers || fr.env["\x00defers"].bits != 0 {
			for i, n := range fr.named {
				if i < len(vals) {
					vals[i] = vals[i].join(fr.env[n])
				}
			}
		}
		fr.sum.rets = append(fr.sum.rets, retSite{g, vals})
	case *ast.BlockStmt:
		fr.walkBlock(x.List, g, litRet)
	case *ast.IfStmt:
		if x.Init != nil {
			fr.walkStmt(x.Init, g, litRet)
		}
		fr.eval(x.Cond)
		isImm, neg := isImmCond(x.Cond)
		thenG, elseG := g, g
		if isImm && g == gAlways {
			if neg {
				thenG, elseG = gMutOnly, gImmOnly
			} else {
				thenG, elseG = gImmOnly, gMutOnly
			}
		}
		fr.walkBlock(x.Body.List, thenG, litRet)
		if x.Else != nil {
			fr.walkStmt(x.Else, elseG, litRet)
		} else if isImm && g == gAlways && terminates(x.Body) {
			return elseG // the rest of the enclosing block only runs in the other mode
		}
	case *ast.ForStmt:
		if x.Init != nil {
			fr.walkStmt(x.Init, g, litRet)
		}
		if x.Cond != nil {
			fr.eval(x.Cond)
		}
		if x.Post != nil {
			fr.walkStmt(x.Post, g, litRet)
		}
		fr.walkBlock(x.Body.List, g, litRet)
	case *ast.RangeStmt:
		c := fr.eval(x.X).elem()
		if id, ok := x.Key.(*ast.Ident); ok {
			kc := cO // slice / string index
			if t := fr.typeOf(x.X); strings.HasPrefix(t, "map[") || t == "" || t == "Map" {
				kc = c
			}
			fr.set(id.Name, kc)
		}
		if id, ok := x.Value.(*ast.Ident); ok {
			fr.set(id.Name, c)
			if t := fr.typeOf(x.X); strings.HasPrefix(t, "[]") {
				fr.typ[id.Name] = t[2:]
			}
		}
		fr.walkBlock(x.Body.List, g, litRet)
	case *ast.SwitchStmt:
		if x.Init != nil {
			fr.walkStmt(x.Init, g, litRet)
		}
		if x.Tag != nil {
			fr.eval(x.Tag)
		}
		for _, c := range x.Body.List {
			cc := c.(*ast.CaseClause)
			for _, e := range cc.List {
				fr.eval(e)
			}
			fr.walkBlock(cc.Body, g, litRet)
		}
	case *ast.TypeSwitchStmt:
		if x.Init != nil {
			fr.walkStmt(x.Init, g, litRet)
		}
		var bind string
		var src cls
		switch a := x.Assign.(type) {
		case *ast.AssignStmt:
			if id, ok := a.Lhs[0].(*ast.Ident); ok {
				bind = id.Name
			}
			src = fr.eval(a.Rhs[0])
		case *ast.ExprStmt:
			src = fr.eval(a.X)
		}
		if bind != "" {
			fr.set(bind, src)
		}
		for _, c := range x.Body.List {
			fr.walkBlock(c.(*ast.CaseClause).Body, g, litRet)
		}
	case *ast.DeferStmt:
		if _, ok := fr.env["\x00defers"]; !ok {
			fr.env["\x00defers"] = cO
			fr.change = true
		}
		fr.defers = true
		fr.eval(x.Call)
	case *ast.GoStmt:
		fr.eval(x.Call)
	case *ast.LabeledStmt:
		return fr.walkStmt(x.Stmt, g, litRet)
	case *ast.IncDecStmt, *ast.BranchStmt, *ast.EmptyStmt:
	case *ast.SendStmt:
		fr.writeThrough(x.Chan, fr.eval(x.Value).join(cU))
	case *ast.SelectStmt:
		for _, c := range x.Body.List {
			if cc, ok := c.(*ast.CommClause); ok {
				if cc.Comm != nil {
					fr.walkStmt(cc.Comm, g, litRet)
				}
				fr.walkBlock(cc.Body, g, litRet)
			}
		}
	}
	return g
}

func (fr *frame) nresults() int {
	n := 0
	if fr.f.decl.Type.Results == nil {
		return 0
	}
	for _, f := range fr.f.decl.Type.Results.List {
		if len(f.Names) == 0 {
			n++
		} else {
			n += len(f.Names)
		}
	}
	return n
}

func (fr *frame) assign(x *ast.AssignStmt) {
	var rhs []cls
	if len(x.Rhs) == 1 && len(x.Lhs) > 1 {
		switch r := x.Rhs[0].(type) {
		case *ast.CallExpr:
			for i := range x.Lhs {
				rhs = append(rhs, fr.evalCall(r, i))
			}
		default:
			c := fr.eval(x.Rhs[0]) // v, ok := m[k] / x.(T) / <-ch
			for range x.Lhs {
				rhs = append(rhs, c)
			}
		}
	} else {
		for _, r := range x.Rhs {
			rhs = append(rhs, fr.eval(r))
		}
	}
	for i, l := range x.Lhs {
		if i >= len(rhs) {
			break
		}
		c := rhs[i]
		if x.Tok == token.ADD_ASSIGN {
			if nonEmptyStringLit(x.Rhs[i]) {
				c = cO
			}
		}
		switch lv := l.(type) {
		case *ast.Ident:
			if fr.litVars == nil {
				fr.litVars = map[string]bool{}
			}
			if i < len(x.Rhs) && len(x.Rhs) == len(x.Lhs) {
				if _, isLit := x.Rhs[i].(*ast.FuncLit); isLit {
					if _, bad := fr.env["\x00notlit:"+lv.Name]; !bad {
						fr.litVars[lv.Name] = true
					}
				} else if fr.litVars[lv.Name] {
					delete(fr.litVars, lv.Name)
					fr.notLit(lv.Name)
				}
			} else {
				delete(fr.litVars, lv.Name)
				fr.notLit(lv.Name)
			}
			fr.set(lv.Name, c)
			if x.Tok == token.DEFINE && i < len(x.Rhs) {
				if t := fr.typeOf(x.Rhs[i]); t != "" {
					if _, ok := fr.typ[lv.Name]; !ok {
						fr.typ[lv.Name] = t
					}
				}
			}
		case *ast.IndexExpr:
			fr.reused(lv.X) // element assignment: the container is changed in place
			if cx := fr.eval(lv.X); cx.bits&bA != 0 {
				// v := Header.Peek(k); v[i] = ... : bytes of recycled storage rewritten through a local value.
				// (Not applied to copy(dst, src): a local destination carries the class of what was copied
				// INTO it, which says nothing about where it lives.)
				fr.wrote("recycled storage reached through a local value")
			}
			fr.writeThrough(lv.X, c.join(fr.eval(lv.Index)))
		default:
			if f, ok := fr.ctxField(l); ok {
				if sl, isSl := x.Rhs[min(i, len(x.Rhs)-1)].(*ast.SliceExpr); isSl && sl.Low == nil {
					if hb, ok := sl.High.(*ast.BasicLit); ok && hb.Value == "0" {
						c = c.join(cC) // field = x[:0]: the backing array is kept for the next request
						fr.wrote(f)
					}
				}
				fr.p.addField(f, fr.argless(c))
			} else if f, ok := fr.sharedField(l); ok {
				fr.p.addField(f, sharedBits(c))
			} else {
				fr.writeThrough(l, c)
			}
		}
	}
}

func (p *prog) summarize(g *fn) *summary {
	if g.sum != nil && g.sum.done {
		return g.sum
	}
	if g.busy {
		if g.sum == nil {
			g.sum = &summary{out: map[int]cls{}, reuse: map[int]bool{}}
		}
		return g.sum // recursion: current approximation
	}
	g.busy = true
	saved := p.cur
	p.cur = g.recv + "." + g.name
	defer func() { g.busy = false; p.cur = saved }()
	prev := g.sum
	var last *summary
	env := map[string]cls{}
	for iter := 0; iter < 6; iter++ {
		fr := &frame{p: p, f: g, env: env, typ: map[string]string{}, pidx: map[string]int{}, sum: &summary{out: map[int]cls{}, reuse: map[int]bool{}}}
		if prev != nil {
			for k, v := range prev.out {
				fr.sum.out[k] = v
			}
			for k := range prev.reuse {
				fr.sum.reuse[k] = true
			}
		}
		if last != nil {
			for k, v := range last.out {
				fr.sum.out[k] = v
			}
			for k := range last.reuse {
				fr.sum.reuse[k] = true
			}
		}
		for i, nm := range g.params {
			if nm != "_" {
				fr.pidx[nm] = i
				fr.typ[nm] = g.ptypes[i]
			}
		}
		if g.decl.Type.Results != nil {
			for _, f := range g.decl.Type.Results.List {
				for _, nm := range f.Names {
					fr.named = append(fr.named, nm.Name)
					if _, ok := env[nm.Name]; !ok {
						env[nm.Name] = cO
					}
				}
			}
		}
		g.sum = fr.sum
		if last != nil {
			g.sum = last
		}
		var dummy cls
		fr.walkBlock(g.decl.Body.List, gAlways, &dummy)
		last = fr.sum
		if !fr.change {
			break
		}
	}
	last.done = true
	g.sum = last
	if d := os.Getenv("C06_DEBUG"); d != "" && (d == g.name || d == "*") {
		fmt.Fprintf(os.Stderr, "== %s.%s.%s\n", g.pkg, g.recv, g.name)
		for _, r := range last.rets {
			fmt.Fprintf(os.Stderr, "   ret guard=%d", r.g)
			for _, v := range r.vals {
				fmt.Fprintf(os.Stderr, " %v/%b", v.names(), v.params)
			}
			fmt.Fprintln(os.Stderr)
		}
		for k, v := range last.out {
			fmt.Fprintf(os.Stderr, "   out[%d]=%v/%b\n", k, v.names(), v.params)
		}
		for k, v := range env {
			fmt.Fprintf(os.Stderr, "   env %s=%v/%b\n", k, v.names(), v.params)
		}
	}
	return last
}

// ---------------------------------------------------------------------------------------------
// table

func (p *prog) isText(t ast.Expr, pkg string, depth int) bool {
	if depth > 4 {
		return false
	}
	switch x := t.(type) {
	case *ast.Ident:
		if x.Name == "string" {
			return true
		}
		if st, ok := p.structDecl(pkg, x.Name); ok {
			for _, f := range st.Fields.List {
				exported := false
				for _, nm := range f.Names {
					if ast.IsExported(nm.Name) {
						exported = true
					}
				}
				if exported && p.isText(f.Type, pkg, depth+1) {
					return true
				}
			}
		}
		return false
	case *ast.StarExpr:
		return p.isText(x.X, pkg, depth+1)
	case *ast.SelectorExpr:
		// objects of other packages whose exported fields hold request text
		switch typeStr(x) {
		case "multipart.Form", "multipart.FileHeader":
			return true
		}
		return false
	case *ast.ArrayType:
		if id, ok := x.Elt.(*ast.Ident); ok && (id.Name == "byte" || id.Name == "uint8") {
			return x.Len == nil
		}
		return p.isText(x.Elt, pkg, depth+1)
	case *ast.MapType:
		return p.isText(x.Key, pkg, depth+1) || p.isText(x.Value, pkg, depth+1)
	}
	return false
}

var structDecls = map[string]*ast.StructType{}

func (p *prog) structDecl(pkg, name string) (*ast.StructType, bool) {
	st, ok := structDecls[pkg+"."+name]
	return st, ok
}

func (p *prog) collectStructDecls() {
	for _, f := range p.funcs {
		_ = f
	}
}

type row struct {
	kind, name string
	rets       []retSite
}

// recycled storage written in place by the accessor of a row (kind + "/" + name)
var rowWrites = map[string][]string{}

func main() {
	repo := flag.String("repo", "/repo", "fiber repository")
	out := flag.String("out", "lean/FiberModel/Generated/C06Facts.lean", "output file")
	flag.Parse()
	p := &prog{fset: token.NewFileSet(), funcs: map[string]*fn{}, structs: map[string]map[string]string{}, consts: map[string]bool{},
		aliases: map[string]string{}, fields: map[string]cls{}, nfields: map[string]cls{}, imports: map[string]bool{}}
	p.load(*repo, "fiber")
	p.load(filepath.Join(*repo, "binder"), "binder")
	// struct declarations (for text-type detection)
	for _, dir := range []struct{ d, pkg string }{{*repo, "fiber"}, {filepath.Join(*repo, "binder"), "binder"}} {
		ents, _ := os.ReadDir(dir.d)
		for _, e := range ents {
			n := e.Name()
			if e.IsDir() || !strings.HasSuffix(n, ".go") || strings.HasSuffix(n, "_test.go") {
				continue
			}
			f, err := parser.ParseFile(token.NewFileSet(), filepath.Join(dir.d, n), nil, parser.SkipObjectResolution)
			if err != nil {
				die(err)
			}
			ast.Inspect(f, func(nd ast.Node) bool {
				if ts, ok := nd.(*ast.TypeSpec); ok {
					if st, ok := ts.Type.(*ast.StructType); ok {
						structDecls[dir.pkg+"."+ts.Name.Name] = st
					}
				}
				return true
			})
		}
	}
	if _, ok := p.structs["fiber.DefaultCtx"]; !ok {
		die("type DefaultCtx not found")
	}
	// fixpoint over the classes of the pooled context's fields (zero values are owned)
	for f := range p.structs["fiber.DefaultCtx"] {
		p.fields[f] = cO
	}
	for round := 0; round < 8; round++ {
		for _, g := range p.funcs {
			g.sum = nil
		}
		p.nfields = map[string]cls{}
		for f := range p.structs["fiber.DefaultCtx"] {
			p.nfields[f] = cO
		}
		keys := make([]string, 0, len(p.funcs))
		for k := range p.funcs {
			keys = append(keys, k)
		}
		sort.Strings(keys)
		for _, k := range keys {
			p.summarize(p.funcs[k])
		}
		same := len(p.nfields) == len(p.fields)
		for k, v := range p.nfields {
			if p.fields[k] != v {
				same = false
			}
		}
		p.fields = p.nfields
		if os.Getenv("C06_DEBUG_ROUNDS") != "" {
			fmt.Fprintf(os.Stderr, "round %d: path=%v values=%v detectionPath=%v pathOriginal=%v\n", round, p.fields["path"].names(),
				p.fields["values"].names(), p.fields["detectionPath"].names(), p.fields["pathOriginal"].names())
		}
		if same {
			break
		}
	}
	var rows []row
	add := func(kind, name string, g *fn) {
		s := p.summarize(g)
		var rs []retSite
		for _, r := range s.rets {
			var v cls
			i := 0
			for _, f := range g.decl.Type.Results.List {
				n := len(f.Names)
				if n == 0 {
					n = 1
				}
				for j := 0; j < n; j++ {
					if i < len(r.vals) && (p.isText(f.Type, g.pkg, 0) || isTypeParam(g, f.Type)) {
						v = v.join(r.vals[i])
					}
					i++
				}
			}
			if g.recv != "" && v.params&1 != 0 {
				// state of the receiver object itself (a field of Redirect / DefaultReq / ... that is not
				// tracked like the fields of DefaultCtx): not the caller's data, and not understood
				v = cls{bits: v.bits | bU, params: v.params &^ 1}
			}
			rs = append(rs, retSite{r.g, []cls{v}})
		}
		var ws []string
		for w := range g.writes {
			ws = append(ws, w)
		}
		sort.Strings(ws)
		rowWrites[kind+"/"+name] = ws
		rows = append(rows, row{kind, name, rs})
	}
	keys := make([]string, 0, len(p.funcs))
	for k := range p.funcs {
		keys = append(keys, k)
	}
	sort.Strings(keys)
	for _, k := range keys {
		g := p.funcs[k]
		if g.pkg != "fiber" || !ast.IsExported(g.name) || g.decl.Type.Results == nil {
			continue
		}
		text := false
		for _, f := range g.decl.Type.Results.List {
			if p.isText(f.Type, "fiber", 0) || isTypeParam(g, f.Type) {
				text = true
			}
		}
		if !text {
			// predicates (Fresh, Is, XHR, Secure ...): nothing text-like is handed out, but the handler calls
			// them between obtaining a value and returning - their in-place writes count all the same
			pred := len(g.decl.Type.Results.List) > 0
			for _, f := range g.decl.Type.Results.List {
				if typeStr(f.Type) != "bool" {
					pred = false
				}
			}
			if pred {
				p.summarize(g)
				var ws []string
				for w := range g.writes {
					ws = append(ws, w)
				}
				sort.Strings(ws)
				name := map[string]string{"DefaultCtx": "", "DefaultReq": "Req.", "DefaultRes": "Res."}
				if pfx, ok := name[g.recv]; ok {
					rowWrites["ctx/"+pfx+g.name] = ws
					rows = append(rows, row{"ctx", pfx + g.name, nil})
				}
			}
			continue
		}
		switch {
		case g.recv == "DefaultCtx":
			add("ctx", g.name, g)
		case g.recv == "DefaultReq":
			add("ctx", "Req."+g.name, g)
		case g.recv == "DefaultRes":
			add("ctx", "Res."+g.name, g)
		case g.recv == "Redirect":
			add("redirect", "Redirect."+g.name, g)
		case g.recv == "" && takesCtx(g):
			add("generic", g.name, g)
		}
	}
	// binders: what is handed to formatBindData as key / value, and what bind.go passes to Bind
	for _, k := range keys {
		g := p.funcs[k]
		if g.pkg == "binder" && g.recv != "" {
			rows = append(rows, p.binderRows(g)...)
		}
		if g.pkg == "fiber" && g.recv == "Bind" && ast.IsExported(g.name) {
			rows = append(rows, p.bindCallRows(g)...)
		}
	}
	rows = append(rows, p.convRows()...)
	sort.SliceStable(rows, func(i, j int) bool {
		if rows[i].kind != rows[j].kind {
			return rows[i].kind < rows[j].kind
		}
		return rows[i].name < rows[j].name
	})
	var b strings.Builder
	b.WriteString("import FiberModel.C06.Types\n")
	b.WriteString("/-! GENERATED by translator/c06 from the fiber sources; do not edit. One row per text-yielding accessor:\n")
	b.WriteString("    every return site with its Immutable guard and the provenance atoms of the returned value. -/\n")
	b.WriteString("namespace C06.Facts\nopen C06\n\n")
	b.WriteString("def ctxFieldClasses : List (String × List Src) := [\n")
	fk := make([]string, 0)
	for k := range p.structs["fiber.DefaultCtx"] {
		fk = append(fk, k)
	}
	sort.Strings(fk)
	for i, k := range fk {
		c, ok := p.fields[k]
		names := c.names()
		if !ok {
			names = nil
		}
		fmt.Fprintf(&b, "  (%q, [%s])%s\n", k, srcList(names), comma(i, len(fk)))
	}
	b.WriteString("]\n\ndef rows : List Row := [\n")
	for i, r := range rows {
		var rs []string
		for _, s := range r.rets {
			gn := map[guard]string{gAlways: ".always", gImmOnly: ".immOnly", gMutOnly: ".mutOnly"}[s.g]
			rs = append(rs, fmt.Sprintf("⟨%s, [%s]⟩", gn, srcList(s.vals[0].names())))
		}
		rw := rowWrites[r.kind+"/"+r.name]
		ws := make([]string, len(rw))
		for j, w := range rw {
			ws[j] = fmt.Sprintf("%q", w)
		}
		fmt.Fprintf(&b, "  ⟨.%s, %q, [%s], [%s]⟩%s\n", r.kind, r.name, strings.Join(rs, ", "), strings.Join(ws, ", "), comma(i, len(rows)))
	}
	b.WriteString("]\n\nend C06.Facts\n")
	if err := os.MkdirAll(filepath.Dir(*out), 0o755); err != nil {
		die(err)
	}
	if err := os.WriteFile(*out, []byte(b.String()), 0o644); err != nil {
		die(err)
	}
}

func comma(i, n int) string {
	if i+1 < n {
		return ","
	}
	return ""
}

func srcList(names []string) string {
	out := make([]string, len(names))
	for i, n := range names {
		out[i] = "." + n
	}
	return strings.Join(out, ", ")
}

func isTypeParam(g *fn, t ast.Expr) bool {
	id, ok := t.(*ast.Ident)
	if !ok || g.decl.Type.TypeParams == nil {
		return false
	}
	for _, f := range g.decl.Type.TypeParams.List {
		c := typeStr(f.Type)
		for _, nm := range f.Names {
			if nm.Name == id.Name && c != "any" {
				return true // constrained type parameter (GenericType includes string and []byte)
			}
		}
	}
	return false
}

func takesCtx(g *fn) bool {
	for _, t := range g.ptypes {
		if t == "Ctx" {
			return true
		}
	}
	return false
}

// binderRows: classes of the key and value arguments of every formatBindData call (and of every
// call through a function-typed parameter) inside binder.<T>.Bind.
func (p *prog) binderRows(g *fn) []row {
	fr := p.frameFor(g)
	var key, val cls
	found := false
	ast.Inspect(g.decl.Body, func(n ast.Node) bool {
		call, ok := n.(*ast.CallExpr)
		if !ok {
			return true
		}
		if id, ok := call.Fun.(*ast.Ident); ok && id.Name == "formatBindData" && len(call.Args) >= 4 {
			key = key.join(fr.eval(call.Args[2]))
			val = val.join(fr.eval(call.Args[3]))
			found = true
		}
		return true
	})
	// what reaches the decoder: every argument of parse(name, out, data, files...) behind `out`,
	// i.e. the maps formatBindData / assignBindData / parseParamSquareBrackets have filled
	var data cls
	parsed := false
	ast.Inspect(g.decl.Body, func(n ast.Node) bool {
		call, ok := n.(*ast.CallExpr)
		if !ok {
			return true
		}
		if id, ok := call.Fun.(*ast.Ident); ok && id.Name == "parse" && len(call.Args) >= 3 {
			for _, a := range call.Args[2:] {
				data = data.join(fr.eval(a))
			}
			parsed = true
		}
		return true
	})
	if !found && !parsed {
		return nil
	}
	if !parsed {
		data = cU
	}
	rows := []row{{"binder", "binder." + g.recv + "." + g.name + ":data", []retSite{{gAlways, []cls{data}}}}}
	if found {
		rows = append(rows, row{"binder", "binder." + g.recv + "." + g.name + ":key", []retSite{{gAlways, []cls{key}}}},
			row{"binder", "binder." + g.recv + "." + g.name + ":value", []retSite{{gAlways, []cls{val}}}})
	}
	return rows
}

// bindCallRows: what the methods of fiber.Bind feed to the binders (`bind.Bind(src..., out)`).
func (p *prog) bindCallRows(g *fn) []row {
	fr := p.frameFor(g)
	var rows []row
	ast.Inspect(g.decl.Body, func(n ast.Node) bool {
		call, ok := n.(*ast.CallExpr)
		if !ok {
			return true
		}
		if s, ok := call.Fun.(*ast.SelectorExpr); ok && s.Sel.Name == "Bind" && len(call.Args) >= 2 {
			if id, ok := s.X.(*ast.Ident); ok && id.Name == "bind" {
				var c cls
				for _, a := range call.Args[:len(call.Args)-1] {
					c = c.join(fr.eval(a))
				}
				rows = append(rows, row{"bind", "Bind." + g.name + ":source", []retSite{{gAlways, []cls{c}}}})
			}
		}
		return true
	})
	if len(rows) > 0 {
		return rows
	}
	// no binder is fed here (Body, Custom): the destination may only be handed on to another
	// method of Bind (which has its own row), to a custom binder's Parse (application code) or to
	// the error / validation wrappers; anything else that receives it is not understood.
	dest := map[string]bool{}
	for i, t := range g.ptypes {
		if t == "any" && g.params[i] != "_" {
			dest[g.params[i]] = true
		}
	}
	if len(dest) == 0 {
		return nil
	}
	c := cO
	ast.Inspect(g.decl.Body, func(n ast.Node) bool {
		call, ok := n.(*ast.CallExpr)
		if !ok {
			return true
		}
		passes := false
		for _, a := range call.Args {
			if id, ok := a.(*ast.Ident); ok && dest[id.Name] {
				passes = true
			}
		}
		if !passes {
			return true
		}
		okCall := false
		if s, ok := call.Fun.(*ast.SelectorExpr); ok {
			if id, ok := s.X.(*ast.Ident); ok {
				if id.Name == g.params[0] && p.funcs["fiber.Bind."+s.Sel.Name] != nil {
					okCall = true // b.JSON(out) ...
				}
				if s.Sel.Name == "Parse" && len(call.Args) == 2 && id.Name != g.params[0] {
					okCall = true // customBinder.Parse(ctx, out): application code
				}
			}
		}
		if !okCall {
			c = c.join(cU)
		}
		return true
	})
	return []row{{"bind", "Bind." + g.name + ":dispatch", []retSite{{gAlways, []cls{c}}}}}
}

// frameFor re-creates the converged environment of g (for evaluating sub-expressions of its body).
func (p *prog) frameFor(g *fn) *frame {
	fr := &frame{p: p, f: g, env: map[string]cls{}, typ: map[string]string{}, pidx: map[string]int{}, sum: &summary{out: map[int]cls{}, reuse: map[int]bool{}}}
	for i, nm := range g.params {
		if nm != "_" {
			fr.pidx[nm] = i
			fr.typ[nm] = g.ptypes[i]
		}
	}
	for iter := 0; iter < 4; iter++ {
		fr.change = false
		fr.sum = &summary{out: map[int]cls{}, reuse: map[int]bool{}}
		var dummy cls
		fr.walkBlock(g.decl.Body.List, gAlways, &dummy)
		if !fr.change {
			break
		}
	}
	return fr
}

// convRows: the copying conversion itself. (1) getStringImmutable / getBytesImmutable return owned
// data; (2) some function of package fiber installs both of them into app.getString / app.getBytes
// under `if ...config.Immutable`; (3) the defaults are the zero-copy utils functions.
func (p *prog) convRows() []row {
	var rows []row
	for _, n := range []string{"getStringImmutable", "getBytesImmutable"} {
		g := p.funcs["fiber."+n]
		if g == nil {
			rows = append(rows, row{"conv", n, []retSite{{gAlways, []cls{cU}}}})
			continue
		}
		s := p.summarize(g)
		var rs []retSite
		for _, r := range s.rets {
			v := cU
			if len(r.vals) > 0 {
				v = r.vals[0].subst([]cls{cA}) // the argument is recycled storage
			}
			rs = append(rs, retSite{r.g, []cls{v}})
		}
		rows = append(rows, row{"conv", n, rs})
	}
	// (2) the installation. Required shape, everything else is reported as unknown:
	//   * function New of package fiber has, as a DIRECT statement of its body (not nested in another
	//     condition), `if <x>.Immutable { ... }` whose body assigns getStringImmutable to <y>.getString
	//     and getBytesImmutable to <y>.getBytes;
	//   * that statement comes after the last statement of New that assigns the configuration
	//     (`app.config = ...`), so the flag it tests is the caller's;
	//   * no other assignment to a selector `.getString` / `.getBytes`, and no assignment to a selector
	//     `.Immutable`, exists anywhere in package fiber (the composite literal in New that sets the
	//     zero-copy defaults is not an assignment).
	swapped := map[string]bool{}
	why := ""
	newFn := p.funcs["fiber.New"]
	swapIdx, cfgIdx := -1, -1
	if newFn == nil {
		why = "func New not found"
	} else {
		for idx, st := range newFn.decl.Body.List {
			ast.Inspect(st, func(n ast.Node) bool {
				if as, ok := n.(*ast.AssignStmt); ok {
					for _, l := range as.Lhs {
						if ls, ok := l.(*ast.SelectorExpr); ok && ls.Sel.Name == "config" {
							cfgIdx = idx
						}
					}
				}
				return true
			})
			ifs, ok := st.(*ast.IfStmt)
			if !ok || ifs.Init != nil || ifs.Else != nil {
				continue
			}
			if isImm, neg := isImmCond(ifs.Cond); !isImm || neg {
				continue
			}
			for _, bs := range ifs.Body.List {
				as, ok := bs.(*ast.AssignStmt)
				if !ok || len(as.Lhs) != len(as.Rhs) || as.Tok != token.ASSIGN {
					continue
				}
				for i, l := range as.Lhs {
					ls, ok1 := l.(*ast.SelectorExpr)
					ri, ok2 := as.Rhs[i].(*ast.Ident)
					if ok1 && ok2 && ((ls.Sel.Name == "getString" && ri.Name == "getStringImmutable") ||
						(ls.Sel.Name == "getBytes" && ri.Name == "getBytesImmutable")) {
						swapped[ls.Sel.Name] = true
						swapIdx = idx
					}
				}
			}
		}
		if swapIdx >= 0 && cfgIdx >= swapIdx {
			why = "Immutable is tested before the configuration is assigned"
		}
	}
	nAssign := map[string]int{}
	for _, g := range p.funcs {
		if g.pkg != "fiber" {
			continue
		}
		ast.Inspect(g.decl.Body, func(n ast.Node) bool {
			switch x := n.(type) {
			case *ast.AssignStmt:
				for _, l := range x.Lhs {
					if ls, ok := l.(*ast.SelectorExpr); ok {
						switch ls.Sel.Name {
						case "getString", "getBytes":
							nAssign[ls.Sel.Name]++
						case "Immutable":
							why = "the Immutable flag is assigned in " + g.name
						}
					}
				}
			case *ast.UnaryExpr:
				if x.Op == token.AND {
					if ls, ok := x.X.(*ast.SelectorExpr); ok && (ls.Sel.Name == "getString" || ls.Sel.Name == "getBytes" || ls.Sel.Name == "Immutable") {
						why = "address of " + ls.Sel.Name + " taken in " + g.name
					}
				}
			}
			return true
		})
	}
	for _, n := range []string{"getString", "getBytes"} {
		if swapped[n] && nAssign[n] == 1 && why == "" {
			rows = append(rows, row{"conv", "Immutable-installs:" + n, []retSite{{gImmOnly, []cls{cO}}}})
		} else {
			if os.Getenv("C06_DEBUG") != "" {
				fmt.Fprintf(os.Stderr, "conv %s: swapped=%v assignments=%d %s\n", n, swapped[n], nAssign[n], why)
			}
			rows = append(rows, row{"conv", "Immutable-installs:" + n, []retSite{{gAlways, []cls{cU}}}})
		}
	}
	return rows
}
