// Translator for C05: re-extracts from the fiber sources, on every check run, how the pooled
// objects are recycled:
//
//   - the field list of DefaultCtx and of Redirect;
//   - for every field, what `DefaultCtx.Reset` (including the DefaultCtx methods it calls, e.g.
//     configDependentPaths) and `DefaultCtx.release` / `Redirect.release` do to it:
//     zero (nil, "", 0, false, T{}), lit (another constant), reslice0 (x = x[:0]), cleared
//     (clear(x) / clear(x[:cap(x)]) before or together with the re-slice), fresh (computed from the
//     new request or the app), or nothing; an assignment that only happens under a condition is
//     reported as `cond` - except the idiom `if c.f != nil { ...; c.f = nil }`, which is a zeroing;
//   - the life-cycle calls: AcquireCtx -> Reset, ReleaseCtx -> release before pool.Put, the request
//     handlers defer ReleaseCtx, ReleaseRedirect -> release before Put, release() hands the attached
//     Redirect back;
//   - whether parseAndClearFlashMessages wipes the reused message slice (full capacity) before
//     UnmarshalMsg decodes into it, and whether it drops partial results on a decode error;
//   - pool discipline: App.pool is touched only by AcquireCtx (Get) / ReleaseCtx (Put), redirectPool
//     only by AcquireRedirect / ReleaseRedirect; serverErrorHandler defers ReleaseCtx;
//   - App.sendfiles (app-level cache behind c.SendFile): which fields of the SendFile struct
//     compareConfig compares, and that the entry built on a miss is keyed by the caller's configuration;
//   - the route-parameter slots (c.values, never reset): Route.match's catch-all branch writes slot 0 on
//     every path, getMatch writes slot paramsIterator before any use of params in the same iteration,
//     Params indexes c.values only with the loop variable of `range route.Params`.
//
// go/ast only. Output: lean/FiberModel/Generated/C05Facts.lean.
package main

import (
	"flag"
	"fmt"
	"go/ast"
	"go/parser"
	"go/token"
	"os"
	"path/filepath"
	"sort"
	"strings"
)

func die(a ...any) {
	fmt.Fprintln(os.Stderr, append([]any{"translator-c05:"}, a...)...)
	os.Exit(1)
}

type pkg struct {
	funcs   map[string]*ast.FuncDecl // "Recv.Name" / "Name"
	structs map[string]*ast.StructType
	fileOf  map[string]string // function -> file it is declared in
	vars    []pkgVar          // package-level variables
}

type pkgVar struct {
	name, typ, file string
}

func typeStr(e ast.Expr) string {
	switch t := e.(type) {
	case *ast.Ident:
		return t.Name
	case *ast.StarExpr:
		return "*" + typeStr(t.X)
	case *ast.SelectorExpr:
		return typeStr(t.X) + "." + t.Sel.Name
	case *ast.ArrayType:
		if t.Len != nil {
			return "[N]" + typeStr(t.Elt)
		}
		return "[]" + typeStr(t.Elt)
	case *ast.MapType:
		return "map[" + typeStr(t.Key) + "]" + typeStr(t.Value)
	}
	return "?"
}

func recvName(d *ast.FuncDecl) (typ, name string) {
	if d.Recv == nil || len(d.Recv.List) != 1 {
		return "", ""
	}
	t := d.Recv.List[0].Type
	if s, ok := t.(*ast.StarExpr); ok {
		t = s.X
	}
	if id, ok := t.(*ast.Ident); ok {
		typ = id.Name
	}
	if len(d.Recv.List[0].Names) == 1 {
		name = d.Recv.List[0].Names[0].Name
	}
	return
}

func load(dir string) *pkg {
	p := &pkg{funcs: map[string]*ast.FuncDecl{}, structs: map[string]*ast.StructType{}, fileOf: map[string]string{}}
	fset := token.NewFileSet()
	ents, err := os.ReadDir(dir)
	if err != nil {
		die(err)
	}
	for _, e := range ents {
		n := e.Name()
		if e.IsDir() || !strings.HasSuffix(n, ".go") || strings.HasSuffix(n, "_test.go") {
			continue
		}
		f, err := parser.ParseFile(fset, filepath.Join(dir, n), nil, parser.SkipObjectResolution)
		if err != nil {
			die(err)
		}
		for _, d := range f.Decls {
			switch d := d.(type) {
			case *ast.FuncDecl:
				if d.Body == nil {
					continue
				}
				if t, _ := recvName(d); t != "" {
					p.funcs[t+"."+d.Name.Name] = d
					p.fileOf[t+"."+d.Name.Name] = n
				} else {
					p.funcs[d.Name.Name] = d
					p.fileOf[d.Name.Name] = n
				}
			case *ast.GenDecl:
				for _, s := range d.Specs {
					if vs, ok := s.(*ast.ValueSpec); ok && d.Tok == token.VAR {
						for i, nm := range vs.Names {
							t := ""
							if vs.Type != nil {
								t = typeStr(vs.Type)
							} else if i < len(vs.Values) {
								t = valueType(vs.Values[i])
							}
							p.vars = append(p.vars, pkgVar{nm.Name, t, n})
						}
					}
					if ts, ok := s.(*ast.TypeSpec); ok {
						if st, ok := ts.Type.(*ast.StructType); ok {
							p.structs[ts.Name.Name] = st
						}
					}
				}
			}
		}
	}
	return p
}

// assignment kinds, ordered by strength for merging
const (
	kNone     = "none"
	kCond     = "cond"
	kZero     = "zero"
	kLit      = "lit"
	kReslice0 = "reslice0"
	kCleared  = "cleared"
	kFresh    = "fresh"
)

// fieldOf: `recv.F` (possibly sliced / indexed / address-taken) -> F
func fieldOf(e ast.Expr, recv string) (string, bool) {
	for {
		switch x := e.(type) {
		case *ast.ParenExpr:
			e = x.X
			continue
		case *ast.SliceExpr:
			e = x.X
			continue
		case *ast.IndexExpr:
			e = x.X
			continue
		case *ast.UnaryExpr:
			e = x.X
			continue
		case *ast.StarExpr:
			e = x.X
			continue
		}
		break
	}
	s, ok := e.(*ast.SelectorExpr)
	if !ok {
		return "", false
	}
	if id, ok := s.X.(*ast.Ident); ok && id.Name == recv {
		return s.Sel.Name, true
	}
	return "", false
}

func isZeroExpr(e ast.Expr) (zero, lit bool) {
	switch x := e.(type) {
	case *ast.Ident:
		if x.Name == "nil" || x.Name == "false" {
			return true, false
		}
		if x.Name == "true" {
			return false, true
		}
	case *ast.BasicLit:
		if x.Value == `""` || x.Value == "0" || x.Value == "``" {
			return true, false
		}
		return false, true
	case *ast.UnaryExpr:
		if _, ok := x.X.(*ast.BasicLit); ok {
			return false, true // -1
		}
	case *ast.CompositeLit:
		if len(x.Elts) == 0 {
			return true, false // sync.Map{}, T{}
		}
	}
	return false, false
}

// classify one assignment `recv.F = rhs`
func classify(f string, rhs ast.Expr, recv string) string {
	if z, l := isZeroExpr(rhs); z {
		return kZero
	} else if l {
		return kLit
	}
	if sl, ok := rhs.(*ast.SliceExpr); ok && sl.Low == nil {
		if hb, ok := sl.High.(*ast.BasicLit); ok && hb.Value == "0" {
			if g, ok := fieldOf(sl.X, recv); ok && g == f {
				return kReslice0
			}
		}
	}
	return kFresh
}

type effects map[string]string

func (e effects) set(f, k string) {
	rank := map[string]int{kNone: 0, kCond: 1, kZero: 3, kLit: 3, kReslice0: 2, kCleared: 4, kFresh: 3}
	old, ok := e[f]
	if !ok || rank[k] >= rank[old] {
		// clear + reslice0 = cleared
		if ok && old == kCleared && k == kReslice0 {
			return
		}
		e[f] = k
	}
}

// walk collects the effects of a method body on the receiver's fields. depth bounds the inlining of
// receiver-method calls.
func (p *pkg) walk(typ string, d *ast.FuncDecl, eff effects, cond bool, depth int) {
	_, recv := recvName(d)
	p.walkStmts(typ, recv, d.Body.List, eff, cond, depth)
}

func (p *pkg) walkStmts(typ, recv string, list []ast.Stmt, eff effects, cond bool, depth int) {
	for _, s := range list {
		switch x := s.(type) {
		case *ast.AssignStmt:
			for i, l := range x.Lhs {
				f, ok := fieldOf(l, recv)
				if !ok {
					continue
				}
				if _, isSel := l.(*ast.SelectorExpr); !isSel {
					continue // element writes (c.values[i] = ...) do not reset the field
				}
				k := kFresh
				if i < len(x.Rhs) && len(x.Lhs) == len(x.Rhs) {
					k = classify(f, x.Rhs[i], recv)
				}
				if cond {
					k = kCond
				}
				eff.set(f, k)
			}
		case *ast.ExprStmt:
			call, ok := x.X.(*ast.CallExpr)
			if !ok {
				continue
			}
			if id, ok := call.Fun.(*ast.Ident); ok && id.Name == "clear" && len(call.Args) == 1 {
				if f, ok := fieldOf(call.Args[0], recv); ok && !cond {
					eff.set(f, kCleared)
				}
				continue
			}
			// recv.F.Clear() (sync.Map, maps behind a type with a Clear method): the field is emptied
			if s, ok := call.Fun.(*ast.SelectorExpr); ok && s.Sel.Name == "Clear" && len(call.Args) == 0 {
				if f, ok := fieldOf(s.X, recv); ok {
					if _, isSel := s.X.(*ast.SelectorExpr); isSel && !cond {
						eff.set(f, kZero)
					}
					continue
				}
			}
			// a call of another method of the same receiver: inline its effects
			if s, ok := call.Fun.(*ast.SelectorExpr); ok && depth < 3 {
				if id, ok := s.X.(*ast.Ident); ok && id.Name == recv {
					if g, ok := p.funcs[typ+"."+s.Sel.Name]; ok {
						p.walk(typ, g, eff, cond, depth+1)
					}
				}
			}
		case *ast.IfStmt:
			// `if recv.F != nil { ...; recv.F = nil }` zeroes F whatever the branch
			if be, ok := x.Cond.(*ast.BinaryExpr); ok && be.Op == token.NEQ && x.Else == nil {
				if f, ok := fieldOf(be.X, recv); ok {
					if id, ok := be.Y.(*ast.Ident); ok && id.Name == "nil" {
						inner := effects{}
						p.walkStmts(typ, recv, x.Body.List, inner, false, depth)
						for g, k := range inner {
							if g == f && k == kZero {
								eff.set(f, kZero)
							} else {
								eff.set(g, kCond)
							}
						}
						continue
					}
				}
			}
			p.walkStmts(typ, recv, x.Body.List, eff, true, depth)
			if b, ok := x.Else.(*ast.BlockStmt); ok {
				p.walkStmts(typ, recv, b.List, eff, true, depth)
			}
		case *ast.BlockStmt:
			p.walkStmts(typ, recv, x.List, eff, cond, depth)
		case *ast.ForStmt:
			p.walkStmts(typ, recv, x.Body.List, eff, true, depth)
		case *ast.RangeStmt:
			p.walkStmts(typ, recv, x.Body.List, eff, true, depth)
		}
	}
}

// calls reports whether the body of fn contains a call whose selector / identifier is `name`
// (optionally required to appear before a call named `before`).
func calls(d *ast.FuncDecl, name, before string) bool {
	if d == nil {
		return false
	}
	found, blocked := false, false
	ast.Inspect(d.Body, func(n ast.Node) bool {
		call, ok := n.(*ast.CallExpr)
		if !ok {
			return true
		}
		var nm string
		switch f := call.Fun.(type) {
		case *ast.SelectorExpr:
			nm = f.Sel.Name
		case *ast.Ident:
			nm = f.Name
		}
		if nm == before && before != "" && !found {
			blocked = true
		}
		if nm == name && !blocked {
			found = true
		}
		return true
	})
	return found
}

func defers(d *ast.FuncDecl, name string) bool {
	if d == nil {
		return false
	}
	found := false
	ast.Inspect(d.Body, func(n ast.Node) bool {
		if df, ok := n.(*ast.DeferStmt); ok {
			if s, ok := df.Call.Fun.(*ast.SelectorExpr); ok && s.Sel.Name == name {
				found = true
			}
		}
		return true
	})
	return found
}

// flashFacts inspects parseAndClearFlashMessages.
func flashFacts(d *ast.FuncDecl) (wipes, dropsOnError bool) {
	if d == nil {
		return false, false
	}
	// names bound to the reused slice at full capacity: x := r.c.flashMessages[:cap(r.c.flashMessages)]
	full := map[string]bool{}
	seenUnmarshal := false
	var visit func(list []ast.Stmt, inErr bool)
	isFlash := func(e ast.Expr) bool {
		s, ok := e.(*ast.SelectorExpr)
		return ok && s.Sel.Name == "flashMessages"
	}
	visit = func(list []ast.Stmt, inErr bool) {
		for _, s := range list {
			switch x := s.(type) {
			case *ast.AssignStmt:
				for i, r := range x.Rhs {
					if sl, ok := r.(*ast.SliceExpr); ok && isFlash(sl.X) && sl.Low == nil {
						if c, ok := sl.High.(*ast.CallExpr); ok {
							if id, ok := c.Fun.(*ast.Ident); ok && id.Name == "cap" && i < len(x.Lhs) {
								if l, ok := x.Lhs[i].(*ast.Ident); ok {
									full[l.Name] = true
								}
							}
						}
					}
					ast.Inspect(r, func(n ast.Node) bool {
						if c, ok := n.(*ast.CallExpr); ok {
							if s, ok := c.Fun.(*ast.SelectorExpr); ok && s.Sel.Name == "UnmarshalMsg" {
								seenUnmarshal = true
							}
						}
						return true
					})
				}
			case *ast.ExprStmt:
				if c, ok := x.X.(*ast.CallExpr); ok {
					if id, ok := c.Fun.(*ast.Ident); ok && id.Name == "clear" && len(c.Args) == 1 {
						arg := c.Args[0]
						fullCap := false
						if id, ok := arg.(*ast.Ident); ok && full[id.Name] {
							fullCap = true
						}
						if sl, ok := arg.(*ast.SliceExpr); ok && isFlash(sl.X) {
							if cc, ok := sl.High.(*ast.CallExpr); ok {
								if id, ok := cc.Fun.(*ast.Ident); ok && id.Name == "cap" {
									fullCap = true
								}
							}
						}
						if fullCap && !seenUnmarshal && !inErr {
							wipes = true
						}
						if inErr && seenUnmarshal && (isFlash(arg) || fullCap) {
							dropsOnError = true
						}
					}
				}
			case *ast.IfStmt:
				if x.Init != nil {
					visit([]ast.Stmt{x.Init}, inErr)
				}
				errBranch := false
				ast.Inspect(x.Cond, func(n ast.Node) bool {
					if id, ok := n.(*ast.Ident); ok && id.Name == "err" {
						errBranch = true
					}
					return true
				})
				visit(x.Body.List, inErr || errBranch)
			}
		}
	}
	visit(d.Body.List, false)
	return
}

// poolOpsConfined: App.pool is only touched by AcquireCtx (Get) / ReleaseCtx (Put) and redirectPool only
// by AcquireRedirect (Get) / ReleaseRedirect (Put): no other code path can hand out or take back a
// pooled object without Reset / release.
func (p *pkg) poolOpsConfined() bool {
	allowed := map[string]string{
		"ctx.Get": "App.AcquireCtx", "ctx.Put": "App.ReleaseCtx",
		"red.Get": "AcquireRedirect", "red.Put": "ReleaseRedirect",
	}
	seen := map[string]bool{}
	ok := true
	for name, d := range p.funcs {
		ast.Inspect(d.Body, func(n ast.Node) bool {
			call, isCall := n.(*ast.CallExpr)
			if !isCall {
				return true
			}
			sel, isSel := call.Fun.(*ast.SelectorExpr)
			if !isSel || (sel.Sel.Name != "Get" && sel.Sel.Name != "Put") {
				return true
			}
			pool := ""
			switch x := sel.X.(type) {
			case *ast.SelectorExpr:
				if x.Sel.Name == "pool" {
					pool = "ctx"
				}
			case *ast.Ident:
				if x.Name == "redirectPool" {
					pool = "red"
				}
			}
			if pool == "" {
				return true
			}
			key := pool + "." + sel.Sel.Name
			if allowed[key] != name {
				ok = false
			}
			seen[key] = true
			return true
		})
	}
	return ok && len(seen) == 4
}

func isParamsIndex(e ast.Expr, idx string) bool {
	ix, ok := e.(*ast.IndexExpr)
	if !ok {
		return false
	}
	id, ok := ix.X.(*ast.Ident)
	if !ok || id.Name != "params" {
		return false
	}
	switch i := ix.Index.(type) {
	case *ast.BasicLit:
		return i.Value == idx
	case *ast.Ident:
		return i.Name == idx
	}
	return false
}

func mentions(n ast.Node, name string) bool {
	found := false
	ast.Inspect(n, func(x ast.Node) bool {
		if id, ok := x.(*ast.Ident); ok && id.Name == name {
			found = true
		}
		return true
	})
	return found
}

// assignsOnEveryPath: the statement list assigns params[idx] on every path before it returns.
func assignsOnEveryPath(list []ast.Stmt, idx string) bool {
	for _, s := range list {
		switch x := s.(type) {
		case *ast.AssignStmt:
			for _, l := range x.Lhs {
				if isParamsIndex(l, idx) {
					return true
				}
			}
		case *ast.IfStmt:
			if els, ok := x.Else.(*ast.BlockStmt); ok {
				if assignsOnEveryPath(x.Body.List, idx) && assignsOnEveryPath(els.List, idx) {
					return true
				}
			}
			if hasReturn(x) {
				return false
			}
		case *ast.ReturnStmt:
			return false
		}
	}
	return false
}

func hasReturn(n ast.Node) bool {
	found := false
	ast.Inspect(n, func(x ast.Node) bool {
		if _, ok := x.(*ast.ReturnStmt); ok {
			found = true
		}
		return true
	})
	return found
}

// starWritesSlot0: in Route.match the catch-all branch (`if r.star`) writes params[0] on every path.
func starWritesSlot0(d *ast.FuncDecl) bool {
	if d == nil {
		return false
	}
	res := false
	ast.Inspect(d.Body, func(n ast.Node) bool {
		ifs, ok := n.(*ast.IfStmt)
		if !ok {
			return true
		}
		if sel, ok := ifs.Cond.(*ast.SelectorExpr); ok && sel.Sel.Name == "star" {
			res = assignsOnEveryPath(ifs.Body.List, "0")
			return false
		}
		return true
	})
	return res
}

// getMatchWritesBeforeRead: in routeParser.getMatch every use of `params` sits in the parameter branch
// of the segment loop, at or after the unconditional `params[paramsIterator] = ...` of that iteration,
// and `paramsIterator` is only changed by the unconditional `paramsIterator++` that follows it.
func getMatchWritesBeforeRead(d *ast.FuncDecl) bool {
	if d == nil {
		return false
	}
	var loop *ast.RangeStmt
	for _, s := range d.Body.List {
		if r, ok := s.(*ast.RangeStmt); ok && loop == nil {
			loop = r
		}
	}
	if loop == nil {
		return false
	}
	// nothing outside the loop may touch params / paramsIterator (besides the declaration)
	for _, s := range d.Body.List {
		if s == ast.Stmt(loop) {
			continue
		}
		if _, isDecl := s.(*ast.DeclStmt); isDecl {
			continue
		}
		if mentions(s, "params") || mentions(s, "paramsIterator") {
			return false
		}
	}
	var paramBranch *ast.BlockStmt
	for _, s := range loop.Body.List {
		ifs, ok := s.(*ast.IfStmt)
		if ok && paramBranch == nil {
			if u, ok := ifs.Cond.(*ast.UnaryExpr); ok && u.Op == token.NOT {
				if sel, ok := u.X.(*ast.SelectorExpr); ok && sel.Sel.Name == "IsParam" {
					if mentions(ifs.Body, "params") || mentions(ifs.Body, "paramsIterator") {
						return false
					}
					if els, ok := ifs.Else.(*ast.BlockStmt); ok {
						paramBranch = els
					}
					continue
				}
			}
		}
		if mentions(s, "params") || mentions(s, "paramsIterator") {
			return false
		}
	}
	if paramBranch == nil {
		return false
	}
	written, advanced := false, false
	for _, s := range paramBranch.List {
		if !written {
			if as, ok := s.(*ast.AssignStmt); ok && len(as.Lhs) == 1 && isParamsIndex(as.Lhs[0], "paramsIterator") {
				if mentions(as.Rhs[0], "params") {
					return false
				}
				written = true
				continue
			}
			// before the write: no slot of params is read or written, paramsIterator is not changed
			// (bounds guards like `if paramsIterator >= len(params) { return false }` are fine), and
			// there is no way to go on to the next segment or to succeed
			bad := false
			ast.Inspect(s, func(n ast.Node) bool {
				switch x := n.(type) {
				case *ast.IndexExpr:
					if id, ok := x.X.(*ast.Ident); ok && id.Name == "params" {
						bad = true
					}
				case *ast.AssignStmt:
					for _, l := range x.Lhs {
						if mentions(l, "paramsIterator") || mentions(l, "params") {
							bad = true
						}
					}
				case *ast.IncDecStmt:
					bad = bad || mentions(x.X, "paramsIterator")
				case *ast.BranchStmt:
					bad = true
				case *ast.ReturnStmt:
					if len(x.Results) != 1 {
						bad = true
					} else if id, ok := x.Results[0].(*ast.Ident); !ok || id.Name != "false" {
						bad = true
					}
				}
				return true
			})
			if bad {
				return false
			}
			continue
		}
		if inc, ok := s.(*ast.IncDecStmt); ok && inc.Tok == token.INC {
			if id, ok := inc.X.(*ast.Ident); ok && id.Name == "paramsIterator" {
				if advanced {
					return false
				}
				advanced = true
				continue
			}
		}
		// after the write: paramsIterator must not change anywhere else, params must not be written again
		bad := false
		ast.Inspect(s, func(n ast.Node) bool {
			switch x := n.(type) {
			case *ast.AssignStmt:
				for _, l := range x.Lhs {
					if mentions(l, "paramsIterator") || mentions(l, "params") {
						bad = true
					}
				}
			case *ast.IncDecStmt:
				bad = bad || mentions(x.X, "paramsIterator")
			case *ast.BranchStmt:
				if !advanced {
					bad = true
				}
			}
			return true
		})
		if bad {
			return false
		}
	}
	return written && advanced
}

// paramsReadsRouteSlots: DefaultCtx.Params indexes c.values only with the loop variable of a
// `for i := range route.Params` loop.
func paramsReadsRouteSlots(d *ast.FuncDecl) bool {
	if d == nil {
		return false
	}
	_, recv := recvName(d)
	ok, reads := true, 0
	var walk func(n ast.Node, keys map[string]bool)
	walk = func(n ast.Node, keys map[string]bool) {
		ast.Inspect(n, func(x ast.Node) bool {
			switch v := x.(type) {
			case *ast.RangeStmt:
				inner := map[string]bool{}
				for k := range keys {
					inner[k] = true
				}
				if sel, isSel := v.X.(*ast.SelectorExpr); isSel && sel.Sel.Name == "Params" {
					if id, isId := v.Key.(*ast.Ident); isId {
						inner[id.Name] = true
					}
				}
				walk(v.Body, inner)
				return false
			case *ast.IndexExpr:
				if f, isF := fieldOf(v.X, recv); isF && f == "values" {
					reads++
					if id, isId := v.Index.(*ast.Ident); !isId || !keys[id.Name] {
						ok = false
					}
				}
			}
			return true
		})
	}
	walk(d.Body, map[string]bool{})
	return ok && reads > 0
}

// sendFileCompared: for every field of the SendFile struct, does sendFileStore.compareConfig compare it
// (an == or != whose two sides select that field, one from the stored configuration `<recv>.config`, the
// other from the parameter)? Works for the chain of `if a.X != b.X { return false }` as well as for one
// `return a.X == b.X && ...` expression.
func (p *pkg) sendFileCompared() (fields []string, compared map[string]bool) {
	compared = map[string]bool{}
	st, ok := p.structs["SendFile"]
	if !ok {
		die("type SendFile not found")
	}
	for _, f := range st.Fields.List {
		for _, n := range f.Names {
			fields = append(fields, n.Name)
		}
	}
	d := p.funcs["sendFileStore.compareConfig"]
	if d == nil || d.Type.Params == nil || len(d.Type.Params.List) != 1 || len(d.Type.Params.List[0].Names) != 1 {
		return fields, compared
	}
	_, recv := recvName(d)
	param := d.Type.Params.List[0].Names[0].Name
	side := func(e ast.Expr) (which, field string) {
		sel, ok := e.(*ast.SelectorExpr)
		if !ok {
			return "", ""
		}
		switch x := sel.X.(type) {
		case *ast.Ident:
			if x.Name == param {
				return "param", sel.Sel.Name
			}
		case *ast.SelectorExpr:
			if id, ok := x.X.(*ast.Ident); ok && id.Name == recv && x.Sel.Name == "config" {
				return "stored", sel.Sel.Name
			}
		}
		return "", ""
	}
	ast.Inspect(d.Body, func(n ast.Node) bool {
		be, ok := n.(*ast.BinaryExpr)
		if !ok || (be.Op != token.EQL && be.Op != token.NEQ) {
			return true
		}
		w1, f1 := side(be.X)
		w2, f2 := side(be.Y)
		if w1 != "" && w2 != "" && w1 != w2 && f1 == f2 {
			compared[f1] = true
		}
		return true
	})
	return fields, compared
}

// sendFileStoresOwnConfig: in DefaultCtx.SendFile the lookup goes through compareConfig with the caller's
// configuration and the entry built on a miss stores that same configuration as its key.
func sendFileStoresOwnConfig(d *ast.FuncDecl) bool {
	if d == nil {
		return false
	}
	arg, key := "", ""
	ast.Inspect(d.Body, func(n ast.Node) bool {
		switch x := n.(type) {
		case *ast.CallExpr:
			if sel, ok := x.Fun.(*ast.SelectorExpr); ok && sel.Sel.Name == "compareConfig" && len(x.Args) == 1 {
				if id, ok := x.Args[0].(*ast.Ident); ok {
					arg = id.Name
				}
			}
		case *ast.CompositeLit:
			if id, ok := x.Type.(*ast.Ident); ok && id.Name == "sendFileStore" {
				for _, e := range x.Elts {
					if kv, ok := e.(*ast.KeyValueExpr); ok {
						if k, ok := kv.Key.(*ast.Ident); ok && k.Name == "config" {
							if v, ok := kv.Value.(*ast.Ident); ok {
								key = v.Name
							}
						}
					}
				}
			}
		}
		return true
	})
	return arg != "" && arg == key
}


// ---------------------------------------------------------------------------------------------
// Shared mutable objects: everything through which one request could reach another besides the fields of
// the pooled objects themselves (those are the ctxFields / redirectFields tables). Listed: every field of
// `App` and every package-level variable of the anchored files (of any type: pools, maps, slices, scalars),
// with the functions OF THE WHOLE PACKAGE that write it (assign, index-assign, append, ++/--,
// Get/Put/Store/Delete/Clear/LoadOrStore/...); and every pool of another file or package that a function
// of the anchored files takes objects from (X.Get() / binder.GetFromThePool(&X)), with those functions.

var anchoredFiles = map[string]bool{"ctx.go": true, "app.go": true, "router.go": true, "redirect.go": true,
	"redirect_msgp.go": true, "bind.go": true, "ctx_interface.go": true}

func valueType(e ast.Expr) string {
	switch v := e.(type) {
	case *ast.CompositeLit:
		if v.Type != nil {
			return typeStr(v.Type)
		}
	case *ast.UnaryExpr:
		return "*" + valueType(v.X)
	case *ast.CallExpr:
		if id, ok := v.Fun.(*ast.Ident); ok && id.Name == "make" && len(v.Args) > 0 {
			return typeStr(v.Args[0])
		}
	}
	return "?"
}

func isContainerType(t string) bool {
	return strings.Contains(t, "sync.Pool") || strings.Contains(t, "sync.Map") || strings.HasPrefix(t, "map[") ||
		strings.HasPrefix(t, "[]") || strings.HasPrefix(t, "*map[") || strings.HasPrefix(t, "*[]")
}

type sharedObj struct {
	owner, name, typ string
	writers         map[string]bool
}

// rootOf strips index / slice / star / paren wrappers: app.treeStack[m][h] -> app.treeStack
func rootOf(e ast.Expr) ast.Expr {
	for {
		switch x := e.(type) {
		case *ast.IndexExpr:
			e = x.X
		case *ast.SliceExpr:
			e = x.X
		case *ast.StarExpr:
			e = x.X
		case *ast.ParenExpr:
			e = x.X
		default:
			return e
		}
	}
}

var mutatingMethods = map[string]bool{"Get": true, "Put": true, "Store": true, "Delete": true, "Clear": true,
	"LoadOrStore": true, "LoadAndDelete": true, "Swap": true, "CompareAndSwap": true, "CompareAndDelete": true}

func (p *pkg) sharedObjects() []*sharedObj {
	var objs []*sharedObj
	appField := map[string]*sharedObj{}
	if st, ok := p.structs["App"]; ok {
		for _, f := range st.Fields.List {
			for _, nm := range f.Names {
				// every field: a scalar written while serving is as much a channel as a map
				o := &sharedObj{"App", nm.Name, typeStr(f.Type), map[string]bool{}}
				appField[nm.Name] = o
				objs = append(objs, o)
			}
		}
	} else {
		die("type App not found")
	}
	pkgVar := map[string]*sharedObj{}
	for _, v := range p.vars {
		if anchoredFiles[v.file] {
			o := &sharedObj{"package", v.name, v.typ, map[string]bool{}}
			pkgVar[v.name] = o
			objs = append(objs, o)
		}
	}
	foreign := map[string]*sharedObj{}
	isApp := func(e ast.Expr, recv string) bool { // app.F / x.app.F / <receiver of an App method>.F
		switch x := e.(type) {
		case *ast.Ident:
			return x.Name == "app" || (recv != "" && x.Name == recv)
		case *ast.SelectorExpr:
			return x.Sel.Name == "app"
		case *ast.CallExpr: // c.App().F
			if s, ok := x.Fun.(*ast.SelectorExpr); ok {
				return s.Sel.Name == "App"
			}
		}
		return false
	}
	for name, d := range p.funcs {
		recv := ""
		if t, r := recvName(d); t == "App" {
			recv = r
		}
		target := func(e ast.Expr) *sharedObj {
			// app.mountFields.appList[k] = v writes (through) app.mountFields: walk down the selector chain
			for {
				switch x := rootOf(e).(type) {
				case *ast.SelectorExpr:
					if o, ok := appField[x.Sel.Name]; ok && isApp(x.X, recv) {
						return o
					}
					e = x.X
					continue
				case *ast.Ident:
					if o, ok := pkgVar[x.Name]; ok {
						return o
					}
				}
				return nil
			}
		}
		ast.Inspect(d.Body, func(n ast.Node) bool {
			switch x := n.(type) {
			case *ast.AssignStmt:
				for _, l := range x.Lhs {
					if o := target(l); o != nil {
						o.writers[name] = true
					}
				}
			case *ast.IncDecStmt:
				if o := target(x.X); o != nil {
					o.writers[name] = true
				}
			case *ast.CallExpr:
				if id, ok := x.Fun.(*ast.Ident); ok && (id.Name == "delete" || id.Name == "clear") && len(x.Args) > 0 {
					if o := target(x.Args[0]); o != nil {
						o.writers[name] = true
					}
				}
				sel, ok := x.Fun.(*ast.SelectorExpr)
				if !ok {
					// binder.GetFromThePool[T](&binder.XPool)
					if ix, ok := x.Fun.(*ast.IndexExpr); ok {
						sel, _ = ix.X.(*ast.SelectorExpr)
					}
					if sel == nil {
						return true
					}
				}
				if mutatingMethods[sel.Sel.Name] {
					recvX := sel.X
					if u, ok := recvX.(*ast.UnaryExpr); ok {
						recvX = u.X
					}
					if o := target(recvX); o != nil {
						o.writers[name] = true
						return true
					}
				}
				if !anchoredFiles[p.fileOf[name]] {
					return true
				}
				// pools of other files / packages used from the anchored files
				fname := ""
				switch {
				case sel.Sel.Name == "Get" || sel.Sel.Name == "Put":
					switch r := sel.X.(type) {
					case *ast.Ident:
						if strings.HasSuffix(strings.ToLower(r.Name), "pool") && pkgVar[r.Name] == nil {
							fname = r.Name
						}
					}
				case sel.Sel.Name == "GetFromThePool" || sel.Sel.Name == "PutToThePool":
					if len(x.Args) > 0 {
						a := x.Args[0]
						if u, ok := a.(*ast.UnaryExpr); ok {
							a = u.X
						}
						fname = typeStr(a)
					}
				}
				if fname != "" {
					o := foreign[fname]
					if o == nil {
						o = &sharedObj{"foreign", fname, "pool", map[string]bool{}}
						foreign[fname] = o
					}
					o.writers[name] = true
				}
			}
			return true
		})
	}
	var fnames []string
	for k := range foreign {
		fnames = append(fnames, k)
	}
	sort.Strings(fnames)
	for _, k := range fnames {
		objs = append(objs, foreign[k])
	}
	return objs
}

func main() {
	repo := flag.String("repo", "/repo", "fiber repository")
	out := flag.String("out", "lean/FiberModel/Generated/C05Facts.lean", "output file")
	flag.Parse()
	p := load(*repo)
	var b strings.Builder
	b.WriteString("import FiberModel.C05.Types\n")
	b.WriteString("/-! GENERATED by translator/c05 from the fiber sources; do not edit. -/\n")
	b.WriteString("namespace C05.Facts\nopen C05\n\n")
	table := func(name, typ, reset, release string) {
		st, ok := p.structs[typ]
		if !ok {
			die("type", typ, "not found")
		}
		re, rl := effects{}, effects{}
		if reset != "" {
			d, ok := p.funcs[typ+"."+reset]
			if !ok {
				die("method", typ+"."+reset, "not found")
			}
			p.walk(typ, d, re, false, 0)
		}
		d, ok := p.funcs[typ+"."+release]
		if !ok {
			die("method", typ+"."+release, "not found")
		}
		p.walk(typ, d, rl, false, 0)
		type fld struct{ n, t string }
		var fs []fld
		for _, f := range st.Fields.List {
			for _, nm := range f.Names {
				fs = append(fs, fld{nm.Name, typeStr(f.Type)})
			}
		}
		fmt.Fprintf(&b, "def %s : List FieldFact := [\n", name)
		for i, f := range fs {
			r1, ok1 := re[f.n]
			if !ok1 {
				r1 = kNone
			}
			r2, ok2 := rl[f.n]
			if !ok2 {
				r2 = kNone
			}
			sep := ","
			if i+1 == len(fs) {
				sep = ""
			}
			fmt.Fprintf(&b, "  ⟨%q, %q, .%s, .%s⟩%s\n", f.n, f.t, r1, r2, sep)
		}
		b.WriteString("]\n\n")
	}
	table("ctxFields", "DefaultCtx", "Reset", "release")
	table("redirectFields", "Redirect", "", "release")
	wipes, drops := flashFacts(p.funcs["Redirect.parseAndClearFlashMessages"])
	bools := []struct {
		n string
		v bool
	}{
		{"acquireResets", calls(p.funcs["App.AcquireCtx"], "Reset", "")},
		{"releaseBeforePut", calls(p.funcs["App.ReleaseCtx"], "release", "Put")},
		{"handlerDefersRelease", defers(p.funcs["App.defaultRequestHandler"], "ReleaseCtx") && defers(p.funcs["App.customRequestHandler"], "ReleaseCtx")},
		{"redirectReleaseBeforePut", calls(p.funcs["ReleaseRedirect"], "release", "Put")},
		{"ctxReleaseReturnsRedirect", calls(p.funcs["DefaultCtx.release"], "ReleaseRedirect", "")},
		{"flashDecodeWipes", wipes},
		{"flashDropsOnError", drops},
		{"errorHandlerDefersRelease", defers(p.funcs["App.serverErrorHandler"], "ReleaseCtx")},
		{"poolOpsConfined", p.poolOpsConfined()},
		{"starWritesSlot0", starWritesSlot0(p.funcs["Route.match"])},
		{"getMatchWritesBeforeRead", getMatchWritesBeforeRead(p.funcs["routeParser.getMatch"])},
		{"paramsReadsRouteSlots", paramsReadsRouteSlots(p.funcs["DefaultCtx.Params"])},
		{"sendFileStoresOwnConfig", sendFileStoresOwnConfig(p.funcs["DefaultCtx.SendFile"])},
	}
	sfFields, sfCmp := p.sendFileCompared()
	b.WriteString("/-- per field of the SendFile struct: does sendFileStore.compareConfig compare it -/\n")
	b.WriteString("def sendFileCompared : List (String × Bool) := [\n")
	for i, f := range sfFields {
		sep := ","
		if i+1 == len(sfFields) {
			sep = ""
		}
		fmt.Fprintf(&b, "  (%q, %v)%s\n", f, sfCmp[f], sep)
	}
	b.WriteString("]\n\n")
	b.WriteString("/-- shared mutable objects reachable from a handler (App fields and package-level variables of the\n    anchored files that are pools / maps / slices, pools of other files used from the anchored files) with the\n    functions of the package that write them -/\n")
	b.WriteString("def sharedObjects : List SharedObj := [\n")
	objs := p.sharedObjects()
	for i, o := range objs {
		var ws []string
		for w := range o.writers {
			ws = append(ws, fmt.Sprintf("%q", w))
		}
		sort.Strings(ws)
		sep := ","
		if i+1 == len(objs) {
			sep = ""
		}
		fmt.Fprintf(&b, "  ⟨%q, %q, %q, [%s]⟩%s\n", o.owner, o.name, o.typ, strings.Join(ws, ", "), sep)
	}
	b.WriteString("]\n\n")
	b.WriteString("def lifecycle : Lifecycle := {\n")
	for i, x := range bools {
		sep := ","
		if i+1 == len(bools) {
			sep = ""
		}
		fmt.Fprintf(&b, "  %s := %v%s\n", x.n, x.v, sep)
	}
	b.WriteString("}\n\nend C05.Facts\n")
	_ = sort.Strings
	if err := os.MkdirAll(filepath.Dir(*out), 0o755); err != nil {
		die(err)
	}
	if err := os.WriteFile(*out, []byte(b.String()), 0o644); err != nil {
		die(err)
	}
}
