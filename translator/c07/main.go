// translator/c07: regenerates lean/FiberModel/Generated/C07Facts.lean from /repo.
//
// Facts extracted (go/ast only, purely syntactic):
//
//  1. sinks: every call in ctx.go / redirect.go that writes into the fasthttp response header
//     (`…Response.Header.X(…)`, `…Response().Header.X(…)`) or into the fasthttp cookie that `Cookie`
//     serialises (`fcookie.SetKey/SetValue/SetPath/SetDomain`), with the enclosing function, the
//     fasthttp method, and how the *value* argument reaches it:
//     "set"       – fasthttp's own `Set` (replaces CR/LF itself)
//     "const"     – built from string literals / package constants only
//     "sanitized" – every non-constant part passes through sanitizeHeaderValue / quoteString /
//     utils.GetMIME (table lookup)
//     "parsed-request" – a cookie name taken from fasthttp's (validated) request header
//     "raw"       – anything else
//     "unknown"   – a header-writing method this translator has no rule for
//  2. the bytes sanitizeHeaderValue replaces and what it replaces them with.
//  4. indexSites: every function of helpers.go, ctx.go, path.go and binder/*.go (tests excluded)
//     that contains an index expression `x[i]` or a slice expression `x[i:j]`, with the source text
//     of each such expression in source order (instantiations of generic functions `f[T](…)` are not
//     index expressions and are left out). C07/Accounted.lean pins this table: each function is
//     either modelled with checked operations (expression list pinned verbatim) or on an explicit
//     exclusion list with its reason, so a NEW hand-written parser breaks a proof obligation.
//  3. the method table of app.methodInt's fast path and the error → status table of
//     app.serverErrorHandler (order of the switch cases matters, it is kept).
package main

import (
	"bytes"
	"flag"
	"fmt"
	"go/ast"
	"go/parser"
	"go/printer"
	"go/token"
	"os"
	"path/filepath"
	"sort"
	"strconv"
	"strings"
)

func die(f string, a ...any) { fmt.Fprintf(os.Stderr, "translator/c07: "+f+"\n", a...); os.Exit(1) }

func parse(path string) *ast.File {
	f, err := parser.ParseFile(token.NewFileSet(), path, nil, 0)
	if err != nil {
		die("%v", err)
	}
	return f
}

// constants of constants.go (name -> value) and, for ints, name -> number
func consts(repo string) (map[string]string, map[string]int) {
	strs, ints := map[string]string{}, map[string]int{}
	for _, fn := range []string{"constants.go", "app.go", "helpers.go", "redirect.go"} {
		f := parse(filepath.Join(repo, fn))
		for _, d := range f.Decls {
			gd, ok := d.(*ast.GenDecl)
			if !ok || gd.Tok != token.CONST {
				continue
			}
			iota := false
			for idx, sp := range gd.Specs {
				vs := sp.(*ast.ValueSpec)
				if len(vs.Values) == 1 {
					if id, ok := vs.Values[0].(*ast.Ident); ok && id.Name == "iota" {
						iota = true
					} else {
						iota = false
					}
				}
				if iota && len(vs.Names) == 1 && (len(vs.Values) == 0 || idx == 0 || len(vs.Values) == 1) {
					if len(vs.Values) == 0 || chain(vs.Values[0]) == "iota" {
						ints[vs.Names[0].Name] = idx
						continue
					}
				}
				for i, n := range vs.Names {
					if i < len(vs.Values) {
						if bl, ok := vs.Values[i].(*ast.BasicLit); ok {
							if bl.Kind == token.STRING {
								s, _ := strconv.Unquote(bl.Value)
								strs[n.Name] = s
							} else if bl.Kind == token.INT {
								v, _ := strconv.Atoi(bl.Value)
								ints[n.Name] = v
							}
						}
					}
				}
			}
		}
	}
	return strs, ints
}

// selector chain as text: c.fasthttp.Response.Header.Set -> "c.fasthttp.Response.Header.Set"
func chain(e ast.Expr) string {
	switch v := e.(type) {
	case *ast.Ident:
		return v.Name
	case *ast.SelectorExpr:
		return chain(v.X) + "." + v.Sel.Name
	case *ast.CallExpr:
		return chain(v.Fun) + "()"
	case *ast.StarExpr:
		return chain(v.X)
	case *ast.ParenExpr:
		return chain(v.X)
	}
	return "?"
}

var strConsts map[string]string

// classify the value expression: 0 const, 1 sanitized, 2 raw
func classify(e ast.Expr) int {
	switch v := e.(type) {
	case *ast.BasicLit:
		return 0
	case *ast.Ident:
		if _, ok := strConsts[v.Name]; ok {
			return 0
		}
		return 2
	case *ast.ParenExpr:
		return classify(v.X)
	case *ast.BinaryExpr:
		if v.Op == token.ADD {
			a, b := classify(v.X), classify(v.Y)
			if a > b {
				return a
			}
			return b
		}
		return 2
	case *ast.CallExpr:
		fn := chain(v.Fun)
		switch {
		case fn == "sanitizeHeaderValue" || strings.HasSuffix(fn, ".quoteString") || fn == "utils.GetMIME":
			return 1
		case fn == "utils.UnsafeBytes" || fn == "utils.UnsafeString" || fn == "string" || fn == "[]byte":
			if len(v.Args) == 1 {
				return classify(v.Args[0])
			}
		}
		return 2
	}
	return 2
}

var className = []string{"const", "sanitized", "raw"}

type sink struct{ fn, method, class string }

var requestCookieParams = map[*ast.Object]bool{}

// header-writing methods of fasthttp.ResponseHeader and the index of their value argument
var valueArg = map[string]int{
	"SetCanonical": 1, "SetBytesKV": 1, "SetBytesK": 1, "SetBytesV": 1, "Add": 1, "AddBytesK": 1,
	"AddBytesV": 1, "AddBytesKV": 1, "SetContentType": 0, "SetContentTypeBytes": 0,
	"DelClientCookie": 0, "DelClientCookieBytes": 0, "SetServer": 0, "SetServerBytes": 0,
	"SetContentEncoding": 0, "SetContentEncodingBytes": 0, "SetStatusMessage": 0, "SetProtocol": 0,
}

// methods that do not put caller bytes on the wire
var harmless = map[string]bool{
	"Peek": true, "PeekBytes": true, "PeekAll": true, "SetCookie": true, "Del": true, "DelBytes": true, "DelCookie": true,
	"VisitAll": true, "All": true, "Len": true, "ContentType": true, "StatusCode": true, "SetStatusCode": true,
	"SetContentLength": true, "ContentLength": true, "SetLastModified": true, "SetContentRange": true,
	"DelAllCookies": true, "Reset": true, "SetConnectionClose": true, "ConnectionClose": true, "Cookie": true,
	"SetNoDefaultContentType": true, "CopyTo": true, "String": true, "Header": true, "IsHTTP11": true,
	"ContentEncoding": true, "Server": true, "VisitAllCookie": true, "Cookies": true,
}

func collectSinks(f *ast.File, out *[]sink) {
	for _, d := range f.Decls {
		fd, ok := d.(*ast.FuncDecl)
		if !ok || fd.Body == nil {
			continue
		}
		name := fd.Name.Name
		if fd.Recv != nil && len(fd.Recv.List) == 1 {
			name = strings.TrimPrefix(chain(fd.Recv.List[0].Type), "Default") + "." + name
		}
		// parameters of the callback handed to `…Request.Header.VisitAllCookie(func(k, v []byte) {…})`
		ast.Inspect(fd.Body, func(n ast.Node) bool {
			if ce, ok := n.(*ast.CallExpr); ok {
				if sel, ok := ce.Fun.(*ast.SelectorExpr); ok && sel.Sel.Name == "VisitAllCookie" &&
					strings.HasSuffix(chain(sel.X), "Request.Header") && len(ce.Args) == 1 {
					if fl, ok := ce.Args[0].(*ast.FuncLit); ok {
						for _, p := range fl.Type.Params.List {
							for _, nm := range p.Names {
								requestCookieParams[nm.Obj] = true
							}
						}
					}
				}
			}
			return true
		})
		ast.Inspect(fd.Body, func(n ast.Node) bool {
			ce, ok := n.(*ast.CallExpr)
			if !ok {
				return true
			}
			sel, ok := ce.Fun.(*ast.SelectorExpr)
			if !ok {
				return true
			}
			recv := chain(sel.X)
			m := sel.Sel.Name
			isRespHeader := strings.HasSuffix(recv, "Response.Header") || strings.HasSuffix(recv, "Response().Header")
			switch {
			case isRespHeader && m == "Set":
				*out = append(*out, sink{name, m, "set"})
			case isRespHeader:
				if i, ok := valueArg[m]; ok && i < len(ce.Args) {
					cl := className[classify(ce.Args[i])]
					if id, ok := ce.Args[i].(*ast.Ident); ok && requestCookieParams[id.Obj] {
						cl = "parsed-request" // a cookie name out of fasthttp's validated request header
					}
					*out = append(*out, sink{name, m, cl})
				} else if !harmless[m] {
					*out = append(*out, sink{name, m, "unknown"})
				}
			case recv == "fcookie" && (m == "SetKey" || m == "SetValue" || m == "SetPath" || m == "SetDomain" ||
				m == "SetKeyBytes" || m == "SetValueBytes" || m == "SetPathBytes" || m == "SetDomainBytes"):
				if len(ce.Args) == 1 {
					*out = append(*out, sink{name, m, className[classify(ce.Args[0])]})
				}
			}
			return true
		})
	}
}

// sanitizeHeaderValue: the byte literals compared against in the loop and the replacement byte
func sanitiser(f *ast.File) (replaced []int, with int) {
	with = -1
	for _, d := range f.Decls {
		fd, ok := d.(*ast.FuncDecl)
		if !ok || fd.Name.Name != "sanitizeHeaderValue" {
			continue
		}
		seen := map[int]bool{}
		ast.Inspect(fd.Body, func(n ast.Node) bool {
			switch v := n.(type) {
			case *ast.ForStmt, *ast.RangeStmt:
				ast.Inspect(v, func(m ast.Node) bool {
					switch w := m.(type) {
					case *ast.BinaryExpr:
						if w.Op == token.EQL {
							if bl, ok := w.Y.(*ast.BasicLit); ok && bl.Kind == token.CHAR {
								c, _, _, _ := strconv.UnquoteChar(strings.Trim(bl.Value, "'"), '\'')
								seen[int(c)] = true
							}
						}
					case *ast.AssignStmt:
						if len(w.Rhs) == 1 {
							if bl, ok := w.Rhs[0].(*ast.BasicLit); ok && bl.Kind == token.CHAR {
								c, _, _, _ := strconv.UnquoteChar(strings.Trim(bl.Value, "'"), '\'')
								with = int(c)
							}
						}
					}
					return true
				})
				return false
			}
			return true
		})
		for c := range seen {
			replaced = append(replaced, c)
		}
		sort.Ints(replaced)
	}
	return
}

// app.methodInt: the case list of the fast path `switch s { case MethodGet: return methodGet … default: return -1 }`
func methodTable(f *ast.File, strs map[string]string, ints map[string]int) (rows [][2]string, deflt string) {
	for _, d := range f.Decls {
		fd, ok := d.(*ast.FuncDecl)
		if !ok || fd.Name.Name != "methodInt" {
			continue
		}
		ast.Inspect(fd.Body, func(n ast.Node) bool {
			sw, ok := n.(*ast.SwitchStmt)
			if !ok {
				return true
			}
			for _, st := range sw.Body.List {
				cc := st.(*ast.CaseClause)
				ret := "?"
				if len(cc.Body) == 1 {
					if rs, ok := cc.Body[0].(*ast.ReturnStmt); ok && len(rs.Results) == 1 {
						switch r := rs.Results[0].(type) {
						case *ast.Ident:
							if v, ok := ints[r.Name]; ok {
								ret = strconv.Itoa(v)
							} else {
								ret = r.Name
							}
						case *ast.UnaryExpr:
							if bl, ok := r.X.(*ast.BasicLit); ok && r.Op == token.SUB {
								ret = "-" + bl.Value
							}
						case *ast.BasicLit:
							ret = r.Value
						}
					}
				}
				if cc.List == nil {
					deflt = ret
					continue
				}
				for _, e := range cc.List {
					if id, ok := e.(*ast.Ident); ok {
						rows = append(rows, [2]string{strs[id.Name], ret})
					}
				}
			}
			return false
		})
	}
	return
}

// app.serverErrorHandler: for each case of the `switch { … }`, a label of the condition and the
// fiber error assigned (resolved to its status code through error.go)
func errorTable(app, errs *ast.File, statusConst map[string]int) (rows [][2]string) {
	errStatus := map[string]string{}
	for _, d := range errs.Decls {
		gd, ok := d.(*ast.GenDecl)
		if !ok || gd.Tok != token.VAR {
			continue
		}
		for _, sp := range gd.Specs {
			vs := sp.(*ast.ValueSpec)
			for i, n := range vs.Names {
				if i < len(vs.Values) {
					if ce, ok := vs.Values[i].(*ast.CallExpr); ok && chain(ce.Fun) == "NewError" && len(ce.Args) >= 1 {
						if id, ok := ce.Args[0].(*ast.Ident); ok {
							errStatus[n.Name] = id.Name
						}
					}
				}
			}
		}
	}
	label := func(e ast.Expr) string {
		s := ""
		ast.Inspect(e, func(n ast.Node) bool {
			switch v := n.(type) {
			case *ast.SelectorExpr:
				if id, ok := v.X.(*ast.Ident); ok && id.Name == "fasthttp" {
					s += v.Sel.Name + ";"
				}
				if v.Sel.Name == "Timeout" {
					s += "Timeout();"
				}
			case *ast.Ident:
				if v.Name == "netErr" || v.Name == "errNetOP" {
					s += v.Name + ";"
				}
			case *ast.BasicLit:
				if v.Kind == token.STRING {
					s += v.Value + ";"
				}
			}
			return true
		})
		return strings.TrimSuffix(s, ";")
	}
	for _, d := range app.Decls {
		fd, ok := d.(*ast.FuncDecl)
		if !ok || fd.Name.Name != "serverErrorHandler" {
			continue
		}
		ast.Inspect(fd.Body, func(n ast.Node) bool {
			sw, ok := n.(*ast.SwitchStmt)
			if !ok || sw.Tag != nil {
				return true
			}
			for _, st := range sw.Body.List {
				cc := st.(*ast.CaseClause)
				status := "?"
				if len(cc.Body) == 1 {
					if as, ok := cc.Body[0].(*ast.AssignStmt); ok && len(as.Rhs) == 1 {
						switch r := as.Rhs[0].(type) {
						case *ast.Ident:
							status = errStatus[r.Name]
						case *ast.CallExpr:
							if chain(r.Fun) == "NewError" && len(r.Args) >= 1 {
								status = chain(r.Args[0])
							}
						}
					}
				}
				if v, ok := statusConst[status]; ok {
					status = strconv.Itoa(v)
				}
				cond := "default"
				if cc.List != nil {
					cond = label(cc.List[0])
				}
				rows = append(rows, [2]string{cond, status})
			}
			return false
		})
	}
	return
}

// indexSites: per function the index / slice expressions, rendered by go/printer
type site struct {
	file, fn string
	exprs    []string
}

func collectIndexSites(repo string, files []string) []site {
	// names of generic functions of the package: `name[T](…)` is an instantiation, not an index
	generic := map[string]bool{}
	parsed := map[string]*ast.File{}
	fsets := map[string]*token.FileSet{}
	for _, fn := range files {
		fset := token.NewFileSet()
		f, err := parser.ParseFile(fset, filepath.Join(repo, fn), nil, 0)
		if err != nil {
			die("%v", err)
		}
		parsed[fn], fsets[fn] = f, fset
	}
	all, _ := filepath.Glob(filepath.Join(repo, "*.go"))
	for _, path := range all {
		if strings.HasSuffix(path, "_test.go") {
			continue
		}
		f, err := parser.ParseFile(token.NewFileSet(), path, nil, 0)
		if err != nil {
			continue
		}
		for _, d := range f.Decls {
			if fd, ok := d.(*ast.FuncDecl); ok && fd.Type.TypeParams != nil {
				generic[fd.Name.Name] = true
			}
		}
	}
	var out []site
	for _, fn := range files {
		f, fset := parsed[fn], fsets[fn]
		for _, d := range f.Decls {
			fd, ok := d.(*ast.FuncDecl)
			if !ok || fd.Body == nil {
				continue
			}
			name := fd.Name.Name
			if fd.Recv != nil && len(fd.Recv.List) == 1 {
				name = strings.TrimPrefix(chain(fd.Recv.List[0].Type), "Default") + "." + name
			}
			var exprs []string
			render := func(n ast.Node) string {
				var b bytes.Buffer
				_ = printer.Fprint(&b, fset, n)
				return strings.Join(strings.Fields(b.String()), " ")
			}
			ast.Inspect(fd.Body, func(n ast.Node) bool {
				switch v := n.(type) {
				case *ast.IndexExpr:
					if id, ok := v.X.(*ast.Ident); ok && generic[id.Name] {
						return true
					}
					exprs = append(exprs, render(v))
				case *ast.SliceExpr:
					exprs = append(exprs, render(v))
				}
				return true
			})
			if len(exprs) > 0 {
				out = append(out, site{fn, name, exprs})
			}
		}
	}
	return out
}

func main() {
	repo := flag.String("repo", "/repo", "repository root")
	out := flag.String("out", "lean/FiberModel/Generated/C07Facts.lean", "output file")
	flag.Parse()
	strs, ints := consts(*repo)
	strConsts = strs
	ctx := parse(filepath.Join(*repo, "ctx.go"))
	red := parse(filepath.Join(*repo, "redirect.go"))
	var sinks []sink
	collectSinks(ctx, &sinks)
	collectSinks(red, &sinks)
	if len(sinks) == 0 {
		die("no header sinks found")
	}
	repl, with := sanitiser(ctx)
	helpers := parse(filepath.Join(*repo, "helpers.go"))
	appf := parse(filepath.Join(*repo, "app.go"))
	mrows, mdef := methodTable(helpers, strs, ints)
	if len(mrows) == 0 {
		die("methodInt switch not found")
	}
	erows := errorTable(appf, parse(filepath.Join(*repo, "constants.go")), ints)
	if len(erows) == 0 {
		die("serverErrorHandler switch not found")
	}
	// does defaultRequestHandler answer methodInt == -1 with StatusNotImplemented?
	router := parse(filepath.Join(*repo, "router.go"))
	guard := map[string]string{}
	for _, d := range router.Decls {
		fd, ok := d.(*ast.FuncDecl)
		if !ok || (fd.Name.Name != "defaultRequestHandler" && fd.Name.Name != "customRequestHandler") {
			continue
		}
		guard[fd.Name.Name] = "none"
		ast.Inspect(fd.Body, func(n ast.Node) bool {
			is, ok := n.(*ast.IfStmt)
			if !ok {
				return true
			}
			be, ok := is.Cond.(*ast.BinaryExpr)
			if !ok || be.Op != token.EQL || !strings.Contains(chain(be.X), "ethodInt") {
				return true
			}
			if ue, ok := be.Y.(*ast.UnaryExpr); !ok || ue.Op != token.SUB {
				return true
			}
			ast.Inspect(is.Body, func(m ast.Node) bool {
				if ce, ok := m.(*ast.CallExpr); ok && strings.HasSuffix(chain(ce.Fun), "SendStatus") && len(ce.Args) == 1 {
					if id, ok := ce.Args[0].(*ast.Ident); ok {
						if v, ok := ints[id.Name]; ok {
							guard[fd.Name.Name] = strconv.Itoa(v)
						}
					}
				}
				return true
			})
			return false
		})
	}

	var b strings.Builder
	b.WriteString("/- GENERATED by /verif/translator/c07 from /repo (ctx.go, redirect.go, helpers.go, app.go, error.go, router.go)\n   on every check run. Do not edit. -/\nnamespace C07.Facts\n\n")
	b.WriteString("/-- (function, fasthttp header-writing method, how the value argument reaches it) -/\ndef sinks : List (String × String × String) := [\n")
	for i, s := range sinks {
		sep := ","
		if i == len(sinks)-1 {
			sep = ""
		}
		fmt.Fprintf(&b, "  (%q, %q, %q)%s\n", s.fn, s.method, s.class, sep)
	}
	b.WriteString("]\n\n/-- bytes `sanitizeHeaderValue` replaces, and the replacement -/\n")
	rs := make([]string, len(repl))
	for i, c := range repl {
		rs[i] = strconv.Itoa(c)
	}
	fmt.Fprintf(&b, "def sanitizerReplaces : List Nat := [%s]\ndef sanitizerWith : Nat := %d\n\n", strings.Join(rs, ", "), max(with, 0))
	b.WriteString("/-- app.methodInt, fast path: method token ↦ index; everything else ↦ `methodDefault` -/\ndef methodTable : List (String × Int) := [\n")
	for i, r := range mrows {
		sep := ","
		if i == len(mrows)-1 {
			sep = ""
		}
		fmt.Fprintf(&b, "  (%q, %s)%s\n", r[0], r[1], sep)
	}
	fmt.Fprintf(&b, "]\ndef methodDefault : Int := %s\n\n", mdef)
	fmt.Fprintf(&b, "/-- status sent by the request handlers when methodInt = -1 (\"none\" = guard missing) -/\ndef unknownMethodStatusDefault : String := %q\ndef unknownMethodStatusCustom : String := %q\n\n",
		guard["defaultRequestHandler"], guard["customRequestHandler"])
	b.WriteString("/-- app.serverErrorHandler: (condition of the switch case, status of the error it maps to), in order -/\ndef errorTable : List (String × String) := [\n")
	for i, r := range erows {
		sep := ","
		if i == len(erows)-1 {
			sep = ""
		}
		fmt.Fprintf(&b, "  (%q, %q)%s\n", r[0], r[1], sep)
	}
	b.WriteString("]\n\n")
	siteFiles := []string{"helpers.go", "ctx.go", "path.go"}
	bf, _ := filepath.Glob(filepath.Join(*repo, "binder", "*.go"))
	sort.Strings(bf)
	for _, f := range bf {
		if !strings.HasSuffix(f, "_test.go") {
			siteFiles = append(siteFiles, "binder/"+filepath.Base(f))
		}
	}
	sites := collectIndexSites(*repo, siteFiles)
	if len(sites) == 0 {
		die("no index sites found")
	}
	b.WriteString("/-- every function of helpers.go, ctx.go, path.go, binder/*.go with an index or slice expression:\n    (file, function, the expressions in source order) -/\ndef indexSites : List (String × String × List String) := [\n")
	for i, st := range sites {
		sep := ","
		if i == len(sites)-1 {
			sep = ""
		}
		qs := make([]string, len(st.exprs))
		for j, e := range st.exprs {
			qs[j] = strconv.Quote(e)
		}
		fmt.Fprintf(&b, "  (%q, %q, [%s])%s\n", st.file, st.fn, strings.Join(qs, ", "), sep)
	}
	b.WriteString("]\n\nend C07.Facts\n")
	if err := os.WriteFile(*out, []byte(b.String()), 0o644); err != nil {
		die("%v", err)
	}
}
