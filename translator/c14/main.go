// translator/c14: regenerates lean/FiberModel/Generated/C14Facts.lean from /repo:
//   - cacheableStatusCodes  (middleware/cache/cache.go; fiber.StatusXxx resolved via /repo/constants.go;
//                            only entries whose value is the literal `true`)
//   - ignoreHeaders         (middleware/cache/cache.go; keys of the map literal)
//   - timestampUpdatePeriod (milliseconds), the three X-Cache status strings and the two directives
//   - ConfigDefault.Expiration (seconds), .CacheHeader, .Methods (middleware/cache/config.go)
//   - two data-flow facts about the handler in cache.go New():
//       getUnderLock    : the first `manager.get(` call comes after the first `mux.Lock()` call
//       removeChecksKey : the call `heap.remove(` passes two arguments (index and key)
//
// Standard library only.
package main

import (
	"flag"
	"fmt"
	"go/ast"
	"go/parser"
	"go/token"
	"os"
	"path/filepath"
	"sort"
	"strconv"
	"strings"
)

func die(f string, a ...any) { fmt.Fprintf(os.Stderr, "translator/c14: "+f+"\n", a...); os.Exit(1) }

func consts(path string) (map[string]string, map[string]int) {
	fset := token.NewFileSet()
	f, err := parser.ParseFile(fset, path, nil, 0)
	if err != nil {
		die("%v", err)
	}
	strs, ints := map[string]string{}, map[string]int{}
	for _, d := range f.Decls {
		gd, ok := d.(*ast.GenDecl)
		if !ok || gd.Tok != token.CONST {
			continue
		}
		for _, sp := range gd.Specs {
			vs := sp.(*ast.ValueSpec)
			for i, n := range vs.Names {
				if i >= len(vs.Values) {
					continue
				}
				if bl, ok := vs.Values[i].(*ast.BasicLit); ok {
					switch bl.Kind {
					case token.STRING:
						s, _ := strconv.Unquote(bl.Value)
						strs[n.Name] = s
					case token.INT:
						v, _ := strconv.Atoi(bl.Value)
						ints[n.Name] = v
					}
				}
			}
		}
	}
	return strs, ints
}

func leanStr(s string) string { return "b " + strconv.Quote(s) }

func leanStrList(xs []string) string {
	ys := make([]string, len(xs))
	for i, x := range xs {
		ys[i] = leanStr(x)
	}
	return "[" + strings.Join(ys, ", ") + "]"
}

func findVar(f *ast.File, name string) ast.Expr {
	var out ast.Expr
	ast.Inspect(f, func(n ast.Node) bool {
		if vs, ok := n.(*ast.ValueSpec); ok {
			for i, nm := range vs.Names {
				if nm.Name == name && i < len(vs.Values) {
					out = vs.Values[i]
				}
			}
		}
		return true
	})
	return out
}

// durationMillis evaluates `N * time.Unit` / `time.Unit` / `N*time.Unit` literals.
func durationMillis(e ast.Expr) (int, bool) {
	unit := func(x ast.Expr) (int, bool) {
		se, ok := x.(*ast.SelectorExpr)
		if !ok {
			return 0, false
		}
		if id, ok := se.X.(*ast.Ident); !ok || id.Name != "time" {
			return 0, false
		}
		switch se.Sel.Name {
		case "Millisecond":
			return 1, true
		case "Second":
			return 1000, true
		case "Minute":
			return 60000, true
		case "Hour":
			return 3600000, true
		}
		return 0, false
	}
	if u, ok := unit(e); ok {
		return u, true
	}
	if be, ok := e.(*ast.BinaryExpr); ok && be.Op == token.MUL {
		if bl, ok := be.X.(*ast.BasicLit); ok && bl.Kind == token.INT {
			n, _ := strconv.Atoi(bl.Value)
			if u, ok := unit(be.Y); ok {
				return n * u, true
			}
		}
	}
	return 0, false
}

func main() {
	repo := flag.String("repo", "/repo", "repository root")
	out := flag.String("out", "lean/FiberModel/Generated/C14Facts.lean", "output file")
	flag.Parse()
	strs, ints := consts(filepath.Join(*repo, "constants.go"))
	fset := token.NewFileSet()
	cachePath := filepath.Join(*repo, "middleware/cache/cache.go")
	f, err := parser.ParseFile(fset, cachePath, nil, 0)
	if err != nil {
		die("%v", err)
	}
	lstrs, _ := consts(cachePath)

	// cacheableStatusCodes
	cl, ok := findVar(f, "cacheableStatusCodes").(*ast.CompositeLit)
	if !ok {
		die("cacheableStatusCodes map literal not found")
	}
	var codes []int
	for _, el := range cl.Elts {
		kv, ok := el.(*ast.KeyValueExpr)
		if !ok {
			die("cacheableStatusCodes: unexpected element")
		}
		val, ok := kv.Value.(*ast.Ident)
		if !ok || (val.Name != "true" && val.Name != "false") {
			die("cacheableStatusCodes: value is not a boolean literal")
		}
		if val.Name != "true" {
			continue
		}
		switch k := kv.Key.(type) {
		case *ast.SelectorExpr:
			v, ok := ints[k.Sel.Name]
			if !ok {
				die("cacheableStatusCodes: unknown constant %s", k.Sel.Name)
			}
			codes = append(codes, v)
		case *ast.BasicLit:
			v, err := strconv.Atoi(k.Value)
			if err != nil {
				die("cacheableStatusCodes: %v", err)
			}
			codes = append(codes, v)
		default:
			die("cacheableStatusCodes: unexpected key")
		}
	}
	sort.Ints(codes)

	// ignoreHeaders
	il, ok := findVar(f, "ignoreHeaders").(*ast.CompositeLit)
	if !ok {
		die("ignoreHeaders map literal not found")
	}
	var ign []string
	for _, el := range il.Elts {
		kv, ok := el.(*ast.KeyValueExpr)
		if !ok {
			die("ignoreHeaders: unexpected element")
		}
		switch k := kv.Key.(type) {
		case *ast.BasicLit:
			s, _ := strconv.Unquote(k.Value)
			ign = append(ign, s)
		case *ast.SelectorExpr:
			s, ok := strs[k.Sel.Name]
			if !ok {
				die("ignoreHeaders: unknown constant %s", k.Sel.Name)
			}
			ign = append(ign, s)
		default:
			die("ignoreHeaders: unexpected key")
		}
	}
	sort.Strings(ign)

	period, ok := durationMillis(findVar(f, "timestampUpdatePeriod"))
	if !ok {
		die("timestampUpdatePeriod: not a literal duration")
	}
	for _, n := range []string{"cacheUnreachable", "cacheHit", "cacheMiss", "noCache", "noStore"} {
		if _, ok := lstrs[n]; !ok {
			die("constant %s not found in cache.go", n)
		}
	}

	// data-flow facts in the handler
	firstLock, firstGet, removeArgs := token.NoPos, token.NoPos, -1
	ast.Inspect(f, func(n ast.Node) bool {
		ce, ok := n.(*ast.CallExpr)
		if !ok {
			return true
		}
		se, ok := ce.Fun.(*ast.SelectorExpr)
		if !ok {
			return true
		}
		recv, ok := se.X.(*ast.Ident)
		if !ok {
			return true
		}
		switch {
		case recv.Name == "mux" && se.Sel.Name == "Lock" && firstLock == token.NoPos:
			firstLock = ce.Pos()
		case recv.Name == "manager" && se.Sel.Name == "get" && firstGet == token.NoPos:
			firstGet = ce.Pos()
		case recv.Name == "heap" && se.Sel.Name == "remove":
			removeArgs = len(ce.Args)
		}
		return true
	})
	if firstLock == token.NoPos || firstGet == token.NoPos {
		die("mux.Lock() / manager.get() not found in cache.go")
	}
	getUnderLock := firstLock < firstGet
	removeChecksKey := removeArgs == 2

	// ConfigDefault
	cf, err := parser.ParseFile(fset, filepath.Join(*repo, "middleware/cache/config.go"), nil, 0)
	if err != nil {
		die("%v", err)
	}
	cd, ok := findVar(cf, "ConfigDefault").(*ast.CompositeLit)
	if !ok {
		die("ConfigDefault composite literal not found")
	}
	defExp, defHeader, defMethods := -1, "", []string(nil)
	for _, el := range cd.Elts {
		kv, ok := el.(*ast.KeyValueExpr)
		if !ok {
			continue
		}
		name := kv.Key.(*ast.Ident).Name
		switch name {
		case "Expiration":
			ms, ok := durationMillis(kv.Value)
			if !ok || ms%1000 != 0 {
				die("ConfigDefault.Expiration: not a whole-second literal duration")
			}
			defExp = ms / 1000
		case "CacheHeader":
			bl, ok := kv.Value.(*ast.BasicLit)
			if !ok {
				die("ConfigDefault.CacheHeader: not a literal")
			}
			defHeader, _ = strconv.Unquote(bl.Value)
		case "Methods":
			ml, ok := kv.Value.(*ast.CompositeLit)
			if !ok {
				die("ConfigDefault.Methods: not a literal")
			}
			for _, m := range ml.Elts {
				switch v := m.(type) {
				case *ast.SelectorExpr:
					s, ok := strs[v.Sel.Name]
					if !ok {
						die("ConfigDefault.Methods: unknown constant %s", v.Sel.Name)
					}
					defMethods = append(defMethods, s)
				case *ast.BasicLit:
					s, _ := strconv.Unquote(v.Value)
					defMethods = append(defMethods, s)
				default:
					die("ConfigDefault.Methods: unexpected element")
				}
			}
		}
	}
	if defExp < 0 || defHeader == "" || defMethods == nil {
		die("ConfigDefault: Expiration / CacheHeader / Methods not found")
	}

	var sb strings.Builder
	sb.WriteString("import FiberModel.Basic\n")
	sb.WriteString("/- GENERATED by /verif/translator/c14 from /repo/middleware/cache/{cache,config}.go on every check run.\n   Do not edit. -/\n")
	sb.WriteString("namespace C14.Facts\nopen B\n\n")
	cs := make([]string, len(codes))
	for i, c := range codes {
		cs[i] = strconv.Itoa(c)
	}
	fmt.Fprintf(&sb, "def cacheableStatusCodes : List Nat := [%s]\n", strings.Join(cs, ", "))
	fmt.Fprintf(&sb, "def ignoreHeaders : List Bytes := %s\n", leanStrList(ign))
	fmt.Fprintf(&sb, "def timestampUpdatePeriodMs : Nat := %d\n", period)
	fmt.Fprintf(&sb, "def cacheUnreachable : Bytes := %s\n", leanStr(lstrs["cacheUnreachable"]))
	fmt.Fprintf(&sb, "def cacheHit : Bytes := %s\n", leanStr(lstrs["cacheHit"]))
	fmt.Fprintf(&sb, "def cacheMiss : Bytes := %s\n", leanStr(lstrs["cacheMiss"]))
	fmt.Fprintf(&sb, "def noCache : Bytes := %s\n", leanStr(lstrs["noCache"]))
	fmt.Fprintf(&sb, "def noStore : Bytes := %s\n", leanStr(lstrs["noStore"]))
	fmt.Fprintf(&sb, "def defaultExpirationSecs : Nat := %d\n", defExp)
	fmt.Fprintf(&sb, "def defaultCacheHeader : Bytes := %s\n", leanStr(defHeader))
	fmt.Fprintf(&sb, "def defaultMethods : List Bytes := %s\n", leanStrList(defMethods))
	fmt.Fprintf(&sb, "def getUnderLock : Bool := %v\n", getUnderLock)
	fmt.Fprintf(&sb, "def removeChecksKey : Bool := %v\n", removeChecksKey)
	sb.WriteString("\nend C14.Facts\n")
	if err := os.MkdirAll(filepath.Dir(*out), 0o755); err != nil {
		die("%v", err)
	}
	if err := os.WriteFile(*out, []byte(sb.String()), 0o644); err != nil {
		die("%v", err)
	}
}
