// translator/c14: regenerates lean/FiberModel/Generated/C14Facts.lean from /repo:
//   - cacheableStatusCodes  (middleware/cache/cache.go; fiber.StatusXxx resolved via /repo/constants.go;
//                            only entries whose value is the literal `true`)
//   - ignoreHeaders         (middleware/cache/cache.go; keys of the map literal)
//   - timestampUpdatePeriod (milliseconds), the three X-Cache status strings and the two directives
//   - ConfigDefault.Expiration (seconds), .CacheHeader, .Methods (middleware/cache/config.go)
//   - two data-flow facts about the handler in cache.go New():
//       getUnderLock    : the first `manager.get(` call comes after the first `mux.Lock()` call
//       removeChecksKey : heap.go `remove` takes index and key, and every `heap.remove(` call in cache.go
//                         (there may be none: the handler removes by key) passes both
//       storeDropsTracked : cache.go calls `heap.removeKey(` at least twice, the last time inside the second
//                         critical section before `heap.put(` (a key is never tracked twice)
//       getFaultsAreMisses : manager.go `get` blanks the item (`*it = item{}`) when `UnmarshalMsg` fails, and the hit
//                         condition in cache.go calls `manager.loadBody(` (no unchecked `manager.getRaw(` left)
//       storedSlicesCopied : every assignment in cache.go to `e.body`, `e.ctype`, `e.cencoding` or `e.headers[…]` (the
//                         byte slices the stored item keeps) has `utils.CopyBytes(…)` or `nil` on its right-hand side,
//                         and there are at least four such copies: the item never aliases buffers of the response,
//                         which fasthttp recycles with the connection context
//       keyMapMaintained : heap.go: `removeInternal` deletes the removed entry's key from `h.keys`, `put`
//                         assigns `h.keys[key]`, `removeKey` looks the index up in `h.keys` and calls `h.remove`
//
// Standard library only.
package main

import (
	"flag"
	"fmt"
	"go/ast"
	"go/parser"
	"go/token"
	"os"
	"path/filepath"
	"sort"
	"strconv"
	"strings"
)

func die(f string, a ...any) { fmt.Fprintf(os.Stderr, "translator/c14: "+f+"\n", a...); os.Exit(1) }

func consts(path string) (map[string]string, map[string]int) {
	fset := token.NewFileSet()
	f, err := parser.ParseFile(fset, path, nil, 0)
	if err != nil {
		die("%v", err)
	}
	strs, ints := map[string]string{}, map[string]int{}
	for _, d := range f.Decls {
		gd, ok := d.(*ast.GenDecl)
		if !ok || gd.Tok != token.CONST {
			continue
		}
		for _, sp := range gd.Specs {
			vs := sp.(*ast.ValueSpec)
			for i, n := range vs.Names {
				if i >= len(vs.Values) {
					continue
				}
				if bl, ok := vs.Values[i].(*ast.BasicLit); ok {
					switch bl.Kind {
					case token.STRING:
						s, _ := strconv.Unquote(bl.Value)
						strs[n.Name] = s
					case token.INT:
						v, _ := strconv.Atoi(bl.Value)
						ints[n.Name] = v
					}
				}
			}
		}
	}
	return strs, ints
}

func leanStr(s string) string { return "b " + strconv.Quote(s) }

func leanStrList(xs []string) string {
	ys := make([]string, len(xs))
	for i, x := range xs {
		ys[i] = leanStr(x)
	}
	return "[" + strings.Join(ys, ", ") + "]"
}

func findVar(f *ast.File, name string) ast.Expr {
	var out ast.Expr
	ast.Inspect(f, func(n ast.Node) bool {
		if vs, ok := n.(*ast.ValueSpec); ok {
			for i, nm := range vs.Names {
				if nm.Name == name && i < len(vs.Values) {
					out = vs.Values[i]
				}
			}
		}
		return true
	})
	return out
}

// durationMillis evaluates `N * time.Unit` / `time.Unit` / `N*time.Unit` literals.
func durationMillis(e ast.Expr) (int, bool) {
	unit := func(x ast.Expr) (int, bool) {
		se, ok := x.(*ast.SelectorExpr)
		if !ok {
			return 0, false
		}
		if id, ok := se.X.(*ast.Ident); !ok || id.Name != "time" {
			return 0, false
		}
		switch se.Sel.Name {
		case "Millisecond":
			return 1, true
		case "Second":
			return 1000, true
		case "Minute":
			return 60000, true
		case "Hour":
			return 3600000, true
		}
		return 0, false
	}
	if u, ok := unit(e); ok {
		return u, true
	}
	if be, ok := e.(*ast.BinaryExpr); ok && be.Op == token.MUL {
		if bl, ok := be.X.(*ast.BasicLit); ok && bl.Kind == token.INT {
			n, _ := strconv.Atoi(bl.Value)
			if u, ok := unit(be.Y); ok {
				return n * u, true
			}
		}
	}
	return 0, false
}

func main() {
	repo := flag.String("repo", "/repo", "repository root")
	out := flag.String("out", "lean/FiberModel/Generated/C14Facts.lean", "output file")
	flag.Parse()
	strs, ints := consts(filepath.Join(*repo, "constants.go"))
	fset := token.NewFileSet()
	cachePath := filepath.Join(*repo, "middleware/cache/cache.go")
	f, err := parser.ParseFile(fset, cachePath, nil, 0)
	if err != nil {
		die("%v", err)
	}
	lstrs, _ := consts(cachePath)

	// cacheableStatusCodes
	cl, ok := findVar(f, "cacheableStatusCodes").(*ast.CompositeLit)
	if !ok {
		die("cacheableStatusCodes map literal not found")
	}
	var codes []int
	for _, el := range cl.Elts {
		kv, ok := el.(*ast.KeyValueExpr)
		if !ok {
			die("cacheableStatusCodes: unexpected element")
		}
		val, ok := kv.Value.(*ast.Ident)
		if !ok || (val.Name != "true" && val.Name != "false") {
			die("cacheableStatusCodes: value is not a boolean literal")
		}
		if val.Name != "true" {
			continue
		}
		switch k := kv.Key.(type) {
		case *ast.SelectorExpr:
			v, ok := ints[k.Sel.Name]
			if !ok {
				die("cacheableStatusCodes: unknown constant %s", k.Sel.Name)
			}
			codes = append(codes, v)
		case *ast.BasicLit:
			v, err := strconv.Atoi(k.Value)
			if err != nil {
				die("cacheableStatusCodes: %v", err)
			}
			codes = append(codes, v)
		default:
			die("cacheableStatusCodes: unexpected key")
		}
	}
	sort.Ints(codes)

	// ignoreHeaders
	il, ok := findVar(f, "ignoreHeaders").(*ast.CompositeLit)
	if !ok {
		die("ignoreHeaders map literal not found")
	}
	var ign []string
	for _, el := range il.Elts {
		kv, ok := el.(*ast.KeyValueExpr)
		if !ok {
			die("ignoreHeaders: unexpected element")
		}
		switch k := kv.Key.(type) {
		case *ast.BasicLit:
			s, _ := strconv.Unquote(k.Value)
			ign = append(ign, s)
		case *ast.SelectorExpr:
			s, ok := strs[k.Sel.Name]
			if !ok {
				die("ignoreHeaders: unknown constant %s", k.Sel.Name)
			}
			ign = append(ign, s)
		default:
			die("ignoreHeaders: unexpected key")
		}
	}
	sort.Strings(ign)

	period, ok := durationMillis(findVar(f, "timestampUpdatePeriod"))
	if !ok {
		die("timestampUpdatePeriod: not a literal duration")
	}
	for _, n := range []string{"cacheUnreachable", "cacheHit", "cacheMiss", "noCache", "noStore"} {
		if _, ok := lstrs[n]; !ok {
			die("constant %s not found in cache.go", n)
		}
	}

	// data-flow facts in the handler
	firstLock, firstGet, removeArgs := token.NoPos, token.NoPos, -1
	secondLock, lastRemoveKey, firstPut, removeKeyCalls := token.NoPos, token.NoPos, token.NoPos, 0
	ast.Inspect(f, func(n ast.Node) bool {
		ce, ok := n.(*ast.CallExpr)
		if !ok {
			return true
		}
		se, ok := ce.Fun.(*ast.SelectorExpr)
		if !ok {
			return true
		}
		recv, ok := se.X.(*ast.Ident)
		if !ok {
			return true
		}
		switch {
		case recv.Name == "mux" && se.Sel.Name == "Lock" && firstLock == token.NoPos:
			firstLock = ce.Pos()
		case recv.Name == "mux" && se.Sel.Name == "Lock" && secondLock == token.NoPos:
			secondLock = ce.Pos()
		case recv.Name == "heap" && se.Sel.Name == "removeKey":
			removeKeyCalls++
			lastRemoveKey = ce.Pos()
		case recv.Name == "heap" && se.Sel.Name == "put" && firstPut == token.NoPos:
			firstPut = ce.Pos()
		case recv.Name == "manager" && se.Sel.Name == "get" && firstGet == token.NoPos:
			firstGet = ce.Pos()
		case recv.Name == "heap" && se.Sel.Name == "remove":
			if removeArgs == -1 || len(ce.Args) < removeArgs {
				removeArgs = len(ce.Args)
			}
		}
		return true
	})
	if firstLock == token.NoPos || firstGet == token.NoPos {
		die("mux.Lock() / manager.get() not found in cache.go")
	}
	getUnderLock := firstLock < firstGet
	hp, err := parser.ParseFile(fset, filepath.Join(*repo, "middleware/cache/heap.go"), nil, 0)
	if err != nil {
		die("%v", err)
	}
	isKeysOf := func(e ast.Expr) bool { // h.keys
		se, ok := e.(*ast.SelectorExpr)
		if !ok || se.Sel.Name != "keys" {
			return false
		}
		id, ok := se.X.(*ast.Ident)
		return ok && id.Name == "h"
	}
	removeParams, deletesKey, putSetsKey, removeKeyReads, removeKeyCallsRemove := -1, false, false, false, false
	for _, d := range hp.Decls {
		fd, ok := d.(*ast.FuncDecl)
		if !ok || fd.Recv == nil || fd.Body == nil {
			continue
		}
		switch fd.Name.Name {
		case "remove":
			removeParams = fd.Type.Params.NumFields()
		case "removeInternal":
			ast.Inspect(fd.Body, func(n ast.Node) bool {
				if ce, ok := n.(*ast.CallExpr); ok {
					if id, ok := ce.Fun.(*ast.Ident); ok && id.Name == "delete" && len(ce.Args) == 2 && isKeysOf(ce.Args[0]) {
						if se, ok := ce.Args[1].(*ast.SelectorExpr); ok && se.Sel.Name == "key" {
							deletesKey = true
						}
					}
				}
				return true
			})
		case "put":
			ast.Inspect(fd.Body, func(n ast.Node) bool {
				if as, ok := n.(*ast.AssignStmt); ok && len(as.Lhs) == 1 && len(as.Rhs) == 1 {
					if ix, ok := as.Lhs[0].(*ast.IndexExpr); ok && isKeysOf(ix.X) {
						k, ok1 := ix.Index.(*ast.Ident)
						v, ok2 := as.Rhs[0].(*ast.Ident)
						if ok1 && ok2 && k.Name == "key" && v.Name == "idx" {
							putSetsKey = true
						}
					}
				}
				return true
			})
		case "removeKey":
			ast.Inspect(fd.Body, func(n ast.Node) bool {
				switch x := n.(type) {
				case *ast.IndexExpr:
					if k, ok := x.Index.(*ast.Ident); ok && isKeysOf(x.X) && k.Name == "key" {
						removeKeyReads = true
					}
				case *ast.CallExpr:
					if se, ok := x.Fun.(*ast.SelectorExpr); ok && se.Sel.Name == "remove" && len(x.Args) == 2 {
						removeKeyCallsRemove = true
					}
				}
				return true
			})
		}
	}
	removeChecksKey := removeParams == 2 && (removeArgs == 2 || removeArgs == -1)
	storeDropsTracked := removeKeyCalls >= 2 && secondLock != token.NoPos && firstPut != token.NoPos &&
		secondLock < lastRemoveKey && lastRemoveKey < firstPut
	keyMapMaintained := deletesKey && putSetsKey && removeKeyReads && removeKeyCallsRemove

	mg, err := parser.ParseFile(fset, filepath.Join(*repo, "middleware/cache/manager.go"), nil, 0)
	if err != nil {
		die("%v", err)
	}
	blanksItem := false
	for _, d := range mg.Decls {
		fd, ok := d.(*ast.FuncDecl)
		if !ok || fd.Body == nil || fd.Name.Name != "get" {
			continue
		}
		ast.Inspect(fd.Body, func(n ast.Node) bool {
			ifs, ok := n.(*ast.IfStmt)
			if !ok || ifs.Init == nil {
				return true
			}
			callsUnmarshal := false
			ast.Inspect(ifs.Init, func(m ast.Node) bool {
				if se, ok := m.(*ast.SelectorExpr); ok && se.Sel.Name == "UnmarshalMsg" {
					callsUnmarshal = true
				}
				return true
			})
			if !callsUnmarshal {
				return true
			}
			ast.Inspect(ifs.Body, func(m ast.Node) bool {
				if as, ok := m.(*ast.AssignStmt); ok && len(as.Lhs) == 1 && len(as.Rhs) == 1 {
					st, ok1 := as.Lhs[0].(*ast.StarExpr)
					cl, ok2 := as.Rhs[0].(*ast.CompositeLit)
					if ok1 && ok2 && len(cl.Elts) == 0 {
						if id, ok := st.X.(*ast.Ident); ok && id.Name == "it" {
							if ty, ok := cl.Type.(*ast.Ident); ok && ty.Name == "item" {
								blanksItem = true
							}
						}
					}
				}
				return true
			})
			return true
		})
	}
	loadBodyInCond, getRawCalls := false, 0
	ast.Inspect(f, func(n ast.Node) bool {
		switch x := n.(type) {
		case *ast.IfStmt:
			ast.Inspect(x.Cond, func(m ast.Node) bool {
				if ce, ok := m.(*ast.CallExpr); ok {
					if se, ok := ce.Fun.(*ast.SelectorExpr); ok && se.Sel.Name == "loadBody" {
						if id, ok := se.X.(*ast.Ident); ok && id.Name == "manager" {
							loadBodyInCond = true
						}
					}
				}
				return true
			})
		case *ast.CallExpr:
			if se, ok := x.Fun.(*ast.SelectorExpr); ok && se.Sel.Name == "getRaw" {
				getRawCalls++
			}
		}
		return true
	})
	getFaultsAreMisses := blanksItem && loadBodyInCond && getRawCalls == 0

	// the byte slices the item keeps are copies
	isItemSlice := func(e ast.Expr) bool {
		if ix, ok := e.(*ast.IndexExpr); ok {
			se, ok := ix.X.(*ast.SelectorExpr)
			if !ok || se.Sel.Name != "headers" {
				return false
			}
			id, ok := se.X.(*ast.Ident)
			return ok && id.Name == "e"
		}
		se, ok := e.(*ast.SelectorExpr)
		if !ok {
			return false
		}
		id, ok := se.X.(*ast.Ident)
		if !ok || id.Name != "e" {
			return false
		}
		return se.Sel.Name == "body" || se.Sel.Name == "ctype" || se.Sel.Name == "cencoding"
	}
	copies, uncopied := 0, 0
	ast.Inspect(f, func(n ast.Node) bool {
		as, ok := n.(*ast.AssignStmt)
		if !ok || len(as.Lhs) != len(as.Rhs) {
			return true
		}
		for i, l := range as.Lhs {
			if !isItemSlice(l) {
				continue
			}
			switch r := as.Rhs[i].(type) {
			case *ast.Ident:
				if r.Name != "nil" {
					uncopied++
				}
			case *ast.CallExpr:
				se, ok := r.Fun.(*ast.SelectorExpr)
				id, ok2 := (ast.Expr)(nil), false
				if ok {
					id, ok2 = se.X, true
				}
				if pk, ok3 := id.(*ast.Ident); ok && ok2 && ok3 && pk.Name == "utils" && se.Sel.Name == "CopyBytes" {
					copies++
				} else {
					uncopied++
				}
			default:
				uncopied++
			}
		}
		return true
	})
	storedSlicesCopied := copies >= 4 && uncopied == 0

	// ConfigDefault
	cf, err := parser.ParseFile(fset, filepath.Join(*repo, "middleware/cache/config.go"), nil, 0)
	if err != nil {
		die("%v", err)
	}
	cd, ok := findVar(cf, "ConfigDefault").(*ast.CompositeLit)
	if !ok {
		die("ConfigDefault composite literal not found")
	}
	defExp, defHeader, defMethods := -1, "", []string(nil)
	for _, el := range cd.Elts {
		kv, ok := el.(*ast.KeyValueExpr)
		if !ok {
			continue
		}
		name := kv.Key.(*ast.Ident).Name
		switch name {
		case "Expiration":
			ms, ok := durationMillis(kv.Value)
			if !ok || ms%1000 != 0 {
				die("ConfigDefault.Expiration: not a whole-second literal duration")
			}
			defExp = ms / 1000
		case "CacheHeader":
			bl, ok := kv.Value.(*ast.BasicLit)
			if !ok {
				die("ConfigDefault.CacheHeader: not a literal")
			}
			defHeader, _ = strconv.Unquote(bl.Value)
		case "Methods":
			ml, ok := kv.Value.(*ast.CompositeLit)
			if !ok {
				die("ConfigDefault.Methods: not a literal")
			}
			for _, m := range ml.Elts {
				switch v := m.(type) {
				case *ast.SelectorExpr:
					s, ok := strs[v.Sel.Name]
					if !ok {
						die("ConfigDefault.Methods: unknown constant %s", v.Sel.Name)
					}
					defMethods = append(defMethods, s)
				case *ast.BasicLit:
					s, _ := strconv.Unquote(v.Value)
					defMethods = append(defMethods, s)
				default:
					die("ConfigDefault.Methods: unexpected element")
				}
			}
		}
	}
	if defExp < 0 || defHeader == "" || defMethods == nil {
		die("ConfigDefault: Expiration / CacheHeader / Methods not found")
	}

	var sb strings.Builder
	sb.WriteString("import FiberModel.Basic\n")
	sb.WriteString("/- GENERATED by /verif/translator/c14 from /repo/middleware/cache/{cache,config,heap,manager}.go on every check run.\n   Do not edit. -/\n")
	sb.WriteString("namespace C14.Facts\nopen B\n\n")
	cs := make([]string, len(codes))
	for i, c := range codes {
		cs[i] = strconv.Itoa(c)
	}
	fmt.Fprintf(&sb, "def cacheableStatusCodes : List Nat := [%s]\n", strings.Join(cs, ", "))
	fmt.Fprintf(&sb, "def ignoreHeaders : List Bytes := %s\n", leanStrList(ign))
	fmt.Fprintf(&sb, "def timestampUpdatePeriodMs : Nat := %d\n", period)
	fmt.Fprintf(&sb, "def cacheUnreachable : Bytes := %s\n", leanStr(lstrs["cacheUnreachable"]))
	fmt.Fprintf(&sb, "def cacheHit : Bytes := %s\n", leanStr(lstrs["cacheHit"]))
	fmt.Fprintf(&sb, "def cacheMiss : Bytes := %s\n", leanStr(lstrs["cacheMiss"]))
	fmt.Fprintf(&sb, "def noCache : Bytes := %s\n", leanStr(lstrs["noCache"]))
	fmt.Fprintf(&sb, "def noStore : Bytes := %s\n", leanStr(lstrs["noStore"]))
	fmt.Fprintf(&sb, "def defaultExpirationSecs : Nat := %d\n", defExp)
	fmt.Fprintf(&sb, "def defaultCacheHeader : Bytes := %s\n", leanStr(defHeader))
	fmt.Fprintf(&sb, "def defaultMethods : List Bytes := %s\n", leanStrList(defMethods))
	fmt.Fprintf(&sb, "def getUnderLock : Bool := %v\n", getUnderLock)
	fmt.Fprintf(&sb, "def removeChecksKey : Bool := %v\n", removeChecksKey)
	fmt.Fprintf(&sb, "def storeDropsTracked : Bool := %v\n", storeDropsTracked)
	fmt.Fprintf(&sb, "def keyMapMaintained : Bool := %v\n", keyMapMaintained)
	fmt.Fprintf(&sb, "def getFaultsAreMisses : Bool := %v\n", getFaultsAreMisses)
	fmt.Fprintf(&sb, "def storedSlicesCopied : Bool := %v\n", storedSlicesCopied)
	sb.WriteString("\nend C14.Facts\n")
	if err := os.MkdirAll(filepath.Dir(*out), 0o755); err != nil {
		die("%v", err)
	}
	if err := os.WriteFile(*out, []byte(sb.String()), 0o644); err != nil {
		die("%v", err)
	}
}
