// translator/c18: regenerates lean/FiberModel/Generated/C18Facts.lean from /repo/client:
// the fields of the pooled types client.Request and client.Response (request.go, response.go) and
// the fields their Reset methods touch (assigned, reset through a method call, or drained in a loop).
package main

import (
	"flag"
	"fmt"
	"go/ast"
	"go/parser"
	"go/token"
	"os"
	"path/filepath"
	"strconv"
	"strings"
)

func die(f string, a ...any) { fmt.Fprintf(os.Stderr, "translator/c18: "+f+"\n", a...); os.Exit(1) }

func parse(path string) *ast.File {
	f, err := parser.ParseFile(token.NewFileSet(), path, nil, 0)
	if err != nil {
		die("%v", err)
	}
	return f
}

// structFields returns the field names of `type <name> struct` in declaration order.
func structFields(f *ast.File, name string) []string {
	var out []string
	found := false
	ast.Inspect(f, func(n ast.Node) bool {
		ts, ok := n.(*ast.TypeSpec)
		if !ok || ts.Name.Name != name {
			return true
		}
		st, ok := ts.Type.(*ast.StructType)
		if !ok {
			return true
		}
		found = true
		for _, fl := range st.Fields.List {
			for _, id := range fl.Names {
				out = append(out, id.Name)
			}
		}
		return false
	})
	if !found {
		die("type %s not found", name)
	}
	return out
}

// resetFields returns, in order of first appearance, the fields of the receiver that
// `func (recv *<typ>) Reset()` touches: any `recv.x` occurring in its body or in the body of a method of the
// same type it calls on the receiver (followed transitively); `*recv = …` counts as every field. The
// reading is deliberately generous (a refactoring of Reset must not break the fact); that a touched field
// is really cleared is what the harness' pollution round checks.
func resetFields(files []*ast.File, typ string, all []string) []string {
	methods := map[string]*ast.FuncDecl{}
	for _, f := range files {
		for _, d := range f.Decls {
			fd, ok := d.(*ast.FuncDecl)
			if !ok || fd.Recv == nil || len(fd.Recv.List) != 1 || fd.Body == nil {
				continue
			}
			t := fd.Recv.List[0].Type
			if star, ok := t.(*ast.StarExpr); ok {
				t = star.X
			}
			if id, ok := t.(*ast.Ident); ok && id.Name == typ && len(fd.Recv.List[0].Names) == 1 {
				methods[fd.Name.Name] = fd
			}
		}
	}
	if methods["Reset"] == nil {
		die("(*%s).Reset not found", typ)
	}
	var out []string
	seen := map[string]bool{}
	add := func(s string) {
		if !seen[s] {
			seen[s] = true
			out = append(out, s)
		}
	}
	isField := map[string]bool{}
	for _, f := range all {
		isField[f] = true
	}
	visited := map[string]bool{}
	var walk func(fd *ast.FuncDecl, depth int)
	walk = func(fd *ast.FuncDecl, depth int) {
		if visited[fd.Name.Name] || depth > 4 {
			return
		}
		visited[fd.Name.Name] = true
		recv := fd.Recv.List[0].Names[0].Name
		ast.Inspect(fd.Body, func(n ast.Node) bool {
			switch v := n.(type) {
			case *ast.AssignStmt:
				for _, l := range v.Lhs {
					if st, ok := l.(*ast.StarExpr); ok {
						if x, ok := st.X.(*ast.Ident); ok && x.Name == recv {
							for _, f := range all {
								add(f)
							}
						}
					}
				}
			case *ast.SelectorExpr:
				if x, ok := v.X.(*ast.Ident); ok && x.Name == recv {
					if isField[v.Sel.Name] {
						add(v.Sel.Name)
					} else if m := methods[v.Sel.Name]; m != nil {
						walk(m, depth+1)
					}
				}
			}
			return true
		})
	}
	walk(methods["Reset"], 0)
	return out
}

// ---------------------------------------------------------------------------------------------------
// reset effects: WHAT Reset does to each field, in source order (methods of the type called on the
// receiver are followed in place). Kinds:
//   zero             recv.f = "" | nil | 0 | false            (also every field under `*recv = T{}`)
//   default <expr>   recv.f = <identifier / selector / literal that does not mention the receiver>
//   truncate         recv.f = recv.f[:0]
//   helper <M>       recv.f.M()  with M = Reset            (the field's own Reset)
//   pool <F>         for len(recv.f) != 0 { t := recv.f[0]; recv.f = recv.f[1:]; F(t) }   (drained, each element
//                    handed to F = Release…)
//   released <F>     for _, t := range recv.f { F(t) }       (elements released, the slice itself untouched)
//   touched          any other occurrence of recv.f (read, other method call): NOT a reset
//   opaque           recv.f = <anything else>: the translator cannot say what the field holds afterwards
// ---------------------------------------------------------------------------------------------------

type effect struct{ field, kind, arg string }

func exprString(e ast.Expr) string {
	switch v := e.(type) {
	case *ast.Ident:
		return v.Name
	case *ast.BasicLit:
		return v.Value
	case *ast.SelectorExpr:
		return exprString(v.X) + "." + v.Sel.Name
	case *ast.ParenExpr:
		return "(" + exprString(v.X) + ")"
	}
	return "?"
}

func mentions(e ast.Node, name string) bool {
	found := false
	ast.Inspect(e, func(n ast.Node) bool {
		if id, ok := n.(*ast.Ident); ok && id.Name == name {
			found = true
		}
		return !found
	})
	return found
}

// recvField: e is `recv.f` for a field f
func recvField(e ast.Expr, recv string, isField map[string]bool) (string, bool) {
	se, ok := e.(*ast.SelectorExpr)
	if !ok {
		return "", false
	}
	x, ok := se.X.(*ast.Ident)
	if !ok || x.Name != recv || !isField[se.Sel.Name] {
		return "", false
	}
	return se.Sel.Name, true
}

func isZeroLit(e ast.Expr) bool {
	switch v := e.(type) {
	case *ast.BasicLit:
		return v.Value == `""` || v.Value == "0" || v.Value == "``"
	case *ast.Ident:
		return v.Name == "nil" || v.Name == "false"
	}
	return false
}

func methodsOf(files []*ast.File, typ string) map[string]*ast.FuncDecl {
	methods := map[string]*ast.FuncDecl{}
	for _, f := range files {
		for _, d := range f.Decls {
			fd, ok := d.(*ast.FuncDecl)
			if !ok || fd.Recv == nil || len(fd.Recv.List) != 1 || fd.Body == nil {
				continue
			}
			t := fd.Recv.List[0].Type
			if star, ok := t.(*ast.StarExpr); ok {
				t = star.X
			}
			if id, ok := t.(*ast.Ident); ok && id.Name == typ && len(fd.Recv.List[0].Names) == 1 {
				methods[fd.Name.Name] = fd
			}
		}
	}
	return methods
}

func resetEffects(files []*ast.File, typ string, all []string) []effect {
	methods := methodsOf(files, typ)
	if methods["Reset"] == nil {
		die("(*%s).Reset not found", typ)
	}
	isField := map[string]bool{}
	for _, f := range all {
		isField[f] = true
	}
	var out []effect
	emit := func(f, k, a string) { out = append(out, effect{f, k, a}) }
	var walkFn func(fd *ast.FuncDecl, depth int)
	// touches: every remaining occurrence of recv.f below n is a mere touch
	touches := func(n ast.Node, recv string) {
		if n == nil {
			return
		}
		ast.Inspect(n, func(m ast.Node) bool {
			if e, ok := m.(ast.Expr); ok {
				if f, ok := recvField(e, recv, isField); ok {
					emit(f, "touched", "")
					return false
				}
			}
			return true
		})
	}
	// releaseCallOn: stmt is `F(t)` with an identifier argument; returns F
	releaseCall := func(s ast.Stmt) (string, string, bool) {
		es, ok := s.(*ast.ExprStmt)
		if !ok {
			return "", "", false
		}
		c, ok := es.X.(*ast.CallExpr)
		if !ok || len(c.Args) != 1 {
			return "", "", false
		}
		a, ok := c.Args[0].(*ast.Ident)
		if !ok {
			return "", "", false
		}
		fn := exprString(c.Fun)
		if !strings.Contains(fn, "Release") {
			return "", "", false
		}
		return fn, a.Name, true
	}
	// drainLoop: for len(recv.f) != 0 { t := recv.f[0]; recv.f = recv.f[1:]; F(t) }
	drainLoop := func(fs *ast.ForStmt, recv string) (string, string, bool) {
		if fs.Init != nil || fs.Post != nil || fs.Cond == nil || len(fs.Body.List) != 3 {
			return "", "", false
		}
		be, ok := fs.Cond.(*ast.BinaryExpr)
		if !ok || !(be.Op == token.NEQ || be.Op == token.GTR) {
			return "", "", false
		}
		if z, ok := be.Y.(*ast.BasicLit); !ok || z.Value != "0" {
			return "", "", false
		}
		lc, ok := be.X.(*ast.CallExpr)
		if !ok || exprString(lc.Fun) != "len" || len(lc.Args) != 1 {
			return "", "", false
		}
		f, ok := recvField(lc.Args[0], recv, isField)
		if !ok {
			return "", "", false
		}
		// t := recv.f[0]
		a0, ok := fs.Body.List[0].(*ast.AssignStmt)
		if !ok || a0.Tok != token.DEFINE || len(a0.Lhs) != 1 || len(a0.Rhs) != 1 {
			return "", "", false
		}
		tv, ok := a0.Lhs[0].(*ast.Ident)
		ix, ok2 := a0.Rhs[0].(*ast.IndexExpr)
		if !ok || !ok2 {
			return "", "", false
		}
		if g, ok := recvField(ix.X, recv, isField); !ok || g != f {
			return "", "", false
		}
		if z, ok := ix.Index.(*ast.BasicLit); !ok || z.Value != "0" {
			return "", "", false
		}
		// recv.f = recv.f[1:]
		a1, ok := fs.Body.List[1].(*ast.AssignStmt)
		if !ok || a1.Tok != token.ASSIGN || len(a1.Lhs) != 1 || len(a1.Rhs) != 1 {
			return "", "", false
		}
		if g, ok := recvField(a1.Lhs[0], recv, isField); !ok || g != f {
			return "", "", false
		}
		sl, ok := a1.Rhs[0].(*ast.SliceExpr)
		if !ok || sl.High != nil || sl.Low == nil {
			return "", "", false
		}
		if g, ok := recvField(sl.X, recv, isField); !ok || g != f {
			return "", "", false
		}
		if o, ok := sl.Low.(*ast.BasicLit); !ok || o.Value != "1" {
			return "", "", false
		}
		fn, arg, ok := releaseCall(fs.Body.List[2])
		if !ok || arg != tv.Name {
			return "", "", false
		}
		return f, fn, true
	}
	// rangeRelease: for _, t := range recv.f { F(t) }
	rangeRelease := func(rs *ast.RangeStmt, recv string) (string, string, bool) {
		f, ok := recvField(rs.X, recv, isField)
		if !ok || rs.Value == nil || len(rs.Body.List) != 1 {
			return "", "", false
		}
		tv, ok := rs.Value.(*ast.Ident)
		if !ok {
			return "", "", false
		}
		fn, arg, ok := releaseCall(rs.Body.List[0])
		if !ok || arg != tv.Name {
			return "", "", false
		}
		return f, fn, true
	}
	var walkStmt func(s ast.Stmt, recv string, depth int)
	walkBlock := func(b *ast.BlockStmt, recv string, depth int) {
		if b == nil {
			return
		}
		for _, s := range b.List {
			walkStmt(s, recv, depth)
		}
	}
	walkStmt = func(s ast.Stmt, recv string, depth int) {
		switch v := s.(type) {
		case *ast.AssignStmt:
			if v.Tok == token.ASSIGN && len(v.Lhs) == len(v.Rhs) {
				for i, l := range v.Lhs {
					r := v.Rhs[i]
					// *recv = T{}  /  *recv = <anything else>
					if st, ok := l.(*ast.StarExpr); ok {
						if x, ok := st.X.(*ast.Ident); ok && x.Name == recv {
							kind := "opaque"
							if cl, ok := r.(*ast.CompositeLit); ok && len(cl.Elts) == 0 {
								kind = "zero"
							}
							for _, f := range all {
								emit(f, kind, "")
							}
							continue
						}
					}
					f, ok := recvField(l, recv, isField)
					if !ok {
						touches(l, recv)
						touches(r, recv)
						continue
					}
					switch {
					case isZeroLit(r):
						emit(f, "zero", "")
					case !mentions(r, recv) && exprString(r) != "?":
						emit(f, "default", exprString(r))
					default:
						if sl, ok := r.(*ast.SliceExpr); ok && sl.Low == nil && sl.High != nil && sl.Max == nil {
							g, ok1 := recvField(sl.X, recv, isField)
							z, ok2 := sl.High.(*ast.BasicLit)
							if ok1 && g == f && ok2 && z.Value == "0" {
								emit(f, "truncate", "")
								continue
							}
						}
						emit(f, "opaque", "")
					}
				}
				return
			}
			touches(v, recv)
		case *ast.ExprStmt:
			if c, ok := v.X.(*ast.CallExpr); ok {
				if se, ok := c.Fun.(*ast.SelectorExpr); ok {
					// recv.f.M()
					if f, ok := recvField(se.X, recv, isField); ok && len(c.Args) == 0 {
						if se.Sel.Name == "Reset" {
							emit(f, "helper", se.Sel.Name)
						} else {
							emit(f, "touched", "")
						}
						return
					}
					// recv.method(...)
					if x, ok := se.X.(*ast.Ident); ok && x.Name == recv {
						if m := methods[se.Sel.Name]; m != nil {
							for _, a := range c.Args {
								touches(a, recv)
							}
							walkFn(m, depth+1)
							return
						}
					}
				}
			}
			touches(v, recv)
		case *ast.ForStmt:
			if f, fn, ok := drainLoop(v, recv); ok {
				emit(f, "pool", fn)
				return
			}
			touches(v.Cond, recv)
			walkBlock(v.Body, recv, depth)
		case *ast.RangeStmt:
			if f, fn, ok := rangeRelease(v, recv); ok {
				emit(f, "released", fn)
				return
			}
			touches(v.X, recv)
			walkBlock(v.Body, recv, depth)
		case *ast.IfStmt:
			// a conditional reset is no reset: everything below counts as touched
			touches(v, recv)
		case *ast.BlockStmt:
			walkBlock(v, recv, depth)
		default:
			touches(s, recv)
		}
	}
	visiting := map[string]bool{}
	walkFn = func(fd *ast.FuncDecl, depth int) {
		if visiting[fd.Name.Name] || depth > 4 {
			return
		}
		visiting[fd.Name.Name] = true
		walkBlock(fd.Body, fd.Recv.List[0].Names[0].Name, depth)
		visiting[fd.Name.Name] = false
	}
	walkFn(methods["Reset"], 0)
	return out
}

func leanEffects(es []effect) string {
	q := make([]string, len(es))
	for i, e := range es {
		q[i] = fmt.Sprintf("(%s, %s, %s)", strconv.Quote(e.field), strconv.Quote(e.kind), strconv.Quote(e.arg))
	}
	return "[" + strings.Join(q, ",\n   ") + "]"
}

// ---------------------------------------------------------------------------------------------------
// execFunc order: the statements of client/core.go `(*core).execFunc` that the hand-off model (Exec.lean)
// speaks about, as tokens in source order with their nesting:
//   acquire-response acquire-chan defer-release-chan copy-request
//   go{ … }            the request goroutine
//   do                 fasthttp Do / DoRedirects / the retry wrapper (consecutive ones count once)
//   if-cas-won{ … }    if atomic.CompareAndSwapInt32(&done, 0, 1)
//   if-err{ … }        if err != nil
//   send-err send-nil  errCh <- err / errCh <- nil
//   copyto             respv.CopyTo(resp.RawResponse)
//   select{ case-recv{ … } case-ctx{ … } }
//   if-swap-was-set{ … }   if atomic.SwapInt32(&done, 1) == 1
//   swap               atomic.SwapInt32(&done, 1) outside such an `if`
//   recv               <-errCh as a statement
//   release-response   ReleaseResponse(resp)
//   return-resp return-err return-timeout return
//   if{ … } else{ … }  any other conditional that contains one of the tokens above
// Calls of the verif yield hook and everything else are left out.
// ---------------------------------------------------------------------------------------------------

func execOrder(files []*ast.File) []string {
	var fn *ast.FuncDecl
	for _, f := range files {
		for _, d := range f.Decls {
			if fd, ok := d.(*ast.FuncDecl); ok && fd.Name.Name == "execFunc" && fd.Recv != nil && fd.Body != nil {
				fn = fd
			}
		}
	}
	if fn == nil {
		die("execFunc not found in client/core.go")
	}
	var out []string
	emit := func(t string) {
		if t == "do" && len(out) > 0 && out[len(out)-1] == "do" {
			return
		}
		out = append(out, t)
	}
	callName := func(c *ast.CallExpr) string {
		switch f := c.Fun.(type) {
		case *ast.Ident:
			return f.Name
		case *ast.SelectorExpr:
			return f.Sel.Name
		}
		return ""
	}
	isAtomic := func(e ast.Expr, name string) bool {
		found := false
		ast.Inspect(e, func(n ast.Node) bool {
			if c, ok := n.(*ast.CallExpr); ok && callName(c) == name {
				found = true
			}
			return !found
		})
		return found
	}
	isRecvErrCh := func(e ast.Expr) bool {
		u, ok := e.(*ast.UnaryExpr)
		if !ok || u.Op != token.ARROW {
			return false
		}
		id, ok := u.X.(*ast.Ident)
		return ok && id.Name == "errCh"
	}
	var walkExpr func(e ast.Node)
	var walkStmt func(s ast.Stmt)
	walkBlock := func(b *ast.BlockStmt) {
		if b != nil {
			for _, s := range b.List {
				walkStmt(s)
			}
		}
	}
	walkExpr = func(e ast.Node) {
		if e == nil {
			return
		}
		ast.Inspect(e, func(n ast.Node) bool {
			switch v := n.(type) {
			case *ast.FuncLit:
				return false // closures other than the goroutine's (retry callback): summarised by the call
			case *ast.UnaryExpr:
				if isRecvErrCh(v) {
					emit("recv")
					return false
				}
			case *ast.CallExpr:
				switch callName(v) {
				case "AcquireResponse":
					if id, ok := v.Fun.(*ast.Ident); ok && id.Name == "AcquireResponse" {
						emit("acquire-response")
					}
				case "acquireErrChan":
					emit("acquire-chan")
				case "Do", "DoRedirects", "Retry":
					emit("do")
					return false
				case "CompareAndSwapInt32":
					emit("cas")
				case "SwapInt32":
					emit("swap")
				case "CopyTo":
					if len(v.Args) == 1 && exprString(v.Args[0]) == "resp.RawResponse" {
						emit("copyto")
					} else if len(v.Args) == 1 && exprString(v.Args[0]) == "reqv" {
						emit("copy-request")
					} else {
						emit("copyto-other")
					}
				case "ReleaseResponse":
					if id, ok := v.Fun.(*ast.Ident); ok && id.Name == "ReleaseResponse" {
						emit("release-response")
					}
				case "releaseErrChan":
					emit("release-chan")
				}
			}
			return true
		})
	}
	// relevant: does walking n emit anything?
	relevant := func(f func()) bool {
		save := out
		out = nil
		f()
		r := len(out) > 0
		out = save
		return r
	}
	walkStmt = func(s ast.Stmt) {
		switch v := s.(type) {
		case *ast.DeferStmt:
			if callName(v.Call) == "releaseErrChan" {
				emit("defer-release-chan")
				return
			}
			if fl, ok := v.Call.Fun.(*ast.FuncLit); ok {
				if relevant(func() { walkBlock(fl.Body) }) {
					emit("defer{")
					walkBlock(fl.Body)
					emit("}")
				}
				return
			}
			walkExpr(v.Call)
		case *ast.GoStmt:
			emit("go{")
			if fl, ok := v.Call.Fun.(*ast.FuncLit); ok {
				walkBlock(fl.Body)
			} else {
				emit("opaque")
			}
			emit("}")
		case *ast.SendStmt:
			if id, ok := v.Chan.(*ast.Ident); ok && id.Name == "errCh" {
				switch exprString(v.Value) {
				case "nil":
					emit("send-nil")
				case "err":
					emit("send-err")
				default:
					emit("send-other")
				}
				return
			}
			walkExpr(v)
		case *ast.ReturnStmt:
			switch {
			case len(v.Results) == 0:
				emit("return")
			case len(v.Results) == 2 && exprString(v.Results[0]) == "resp" && exprString(v.Results[1]) == "nil":
				emit("return-resp")
			case len(v.Results) == 2 && exprString(v.Results[0]) == "nil" && exprString(v.Results[1]) == "err":
				emit("return-err")
			case len(v.Results) == 2 && exprString(v.Results[0]) == "nil" && exprString(v.Results[1]) == "ErrTimeoutOrCancel":
				emit("return-timeout")
			default:
				emit("return-other")
			}
		case *ast.IfStmt:
			if v.Init != nil {
				walkStmt(v.Init)
			}
			cond := exprString(v.Cond)
			if be, ok := v.Cond.(*ast.BinaryExpr); ok {
				cond = exprString(be.X) + " " + be.Op.String() + " " + exprString(be.Y)
			}
			switch {
			case isAtomic(v.Cond, "CompareAndSwapInt32"):
				emit("if-cas-won{")
			case isAtomic(v.Cond, "SwapInt32"):
				if be, ok := v.Cond.(*ast.BinaryExpr); ok && be.Op == token.EQL && exprString(be.Y) == "1" {
					emit("if-swap-was-set{")
				} else {
					emit("if-swap-other{")
				}
			case cond == "err != nil":
				emit("if-err{")
			default:
				// which tokens does the whole conditional produce?
				save := out
				out = nil
				walkExpr(v.Cond)
				walkBlock(v.Body)
				if v.Else != nil {
					walkStmt(v.Else)
				}
				inner := out
				out = save
				if len(inner) == 0 {
					return
				}
				onlyDo := true
				for _, t := range inner {
					if t != "do" && t != "if{" && t != "else{" && t != "}" {
						onlyDo = false
					}
				}
				if onlyDo { // Do / DoRedirects / retry: which transport call is taken does not matter here
					emit("do")
					return
				}
				walkExpr(v.Cond)
				emit("if{")
			}
			walkBlock(v.Body)
			emit("}")
			if v.Else != nil {
				emit("else{")
				walkStmt(v.Else)
				emit("}")
			}
		case *ast.BlockStmt:
			walkBlock(v)
		case *ast.SelectStmt:
			emit("select{")
			for _, c := range v.Body.List {
				cc := c.(*ast.CommClause)
				tok := "case-other{"
				switch cm := cc.Comm.(type) {
				case nil:
					tok = "case-default{"
				case *ast.AssignStmt:
					if len(cm.Rhs) == 1 && isRecvErrCh(cm.Rhs[0]) {
						tok = "case-recv{"
					}
				case *ast.ExprStmt:
					if isRecvErrCh(cm.X) {
						tok = "case-recv{"
					} else if u, ok := cm.X.(*ast.UnaryExpr); ok && u.Op == token.ARROW && strings.HasSuffix(exprStringCall(u.X), "ctx.Done()") {
						tok = "case-ctx{"
					}
				}
				emit(tok)
				for _, s := range cc.Body {
					walkStmt(s)
				}
				emit("}")
			}
			emit("}")
		case *ast.ForStmt:
			if relevant(func() { walkBlock(v.Body) }) {
				emit("loop{")
				walkBlock(v.Body)
				emit("}")
			}
		case *ast.RangeStmt:
			if relevant(func() { walkBlock(v.Body) }) {
				emit("loop{")
				walkBlock(v.Body)
				emit("}")
			}
		default:
			walkExpr(s)
		}
	}
	walkBlock(fn.Body)
	return out
}

func exprStringCall(e ast.Expr) string {
	if c, ok := e.(*ast.CallExpr); ok {
		return exprString(c.Fun) + "()"
	}
	return exprString(e)
}

func parseDir(dir string) []*ast.File {
	ents, err := os.ReadDir(dir)
	if err != nil {
		die("%v", err)
	}
	var out []*ast.File
	for _, e := range ents {
		n := e.Name()
		if e.IsDir() || !strings.HasSuffix(n, ".go") || strings.HasSuffix(n, "_test.go") {
			continue
		}
		out = append(out, parse(filepath.Join(dir, n)))
	}
	return out
}

func leanList(xs []string) string {
	q := make([]string, len(xs))
	for i, x := range xs {
		q[i] = strconv.Quote(x)
	}
	return "[" + strings.Join(q, ", ") + "]"
}

func main() {
	repo := flag.String("repo", "/repo", "repository root")
	out := flag.String("out", "lean/FiberModel/Generated/C18Facts.lean", "output file")
	flag.Parse()
	req := parse(filepath.Join(*repo, "client/request.go"))
	resp := parse(filepath.Join(*repo, "client/response.go"))
	pkg := parseDir(filepath.Join(*repo, "client"))
	reqF, respF := structFields(req, "Request"), structFields(resp, "Response")
	var b strings.Builder
	b.WriteString("/- GENERATED by translator/c18 from /repo/client/request.go and response.go — do not edit. -/\n")
	b.WriteString("namespace C18.Facts\n\n")
	fmt.Fprintf(&b, "/-- fields of `type Request struct`, in declaration order -/\ndef requestFields : List String := %s\n\n", leanList(reqF))
	fmt.Fprintf(&b, "/-- fields `(*Request).Reset` touches -/\ndef requestResetFields : List String := %s\n\n", leanList(resetFields(pkg, "Request", reqF)))
	fmt.Fprintf(&b, "/-- fields of `type Response struct`, in declaration order -/\ndef responseFields : List String := %s\n\n", leanList(respF))
	fmt.Fprintf(&b, "/-- fields `(*Response).Reset` touches -/\ndef responseResetFields : List String := %s\n\n", leanList(resetFields(pkg, "Response", respF)))
	fmt.Fprintf(&b, "/-- what `(*Request).Reset` does, effect by effect in source order: (field, kind, argument) -/\ndef requestResetEffects : List (String × String × String) :=\n  %s\n\n", leanEffects(resetEffects(pkg, "Request", reqF)))
	fmt.Fprintf(&b, "/-- what `(*Response).Reset` does -/\ndef responseResetEffects : List (String × String × String) :=\n  %s\n\n", leanEffects(resetEffects(pkg, "Response", respF)))
	fmt.Fprintf(&b, "/-- the hand-off statements of `(*core).execFunc` (client/core.go) in source order, with nesting -/\ndef execOrder : List String :=\n  %s\n\n", leanList(execOrder([]*ast.File{parse(filepath.Join(*repo, "client/core.go"))})))
	b.WriteString("end C18.Facts\n")
	if err := os.MkdirAll(filepath.Dir(*out), 0o755); err != nil {
		die("%v", err)
	}
	if err := os.WriteFile(*out, []byte(b.String()), 0o644); err != nil {
		die("%v", err)
	}
}
