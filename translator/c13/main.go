// translator/c13: regenerates lean/FiberModel/Generated/C13Facts.lean from
// /repo/middleware/limiter/{limiter_fixed,limiter_sliding}.go:
//
//   - the order of the shared-state accesses in the two handler closures (MaxFunc, Next check, bypass,
//     KeyGenerator, mux.Lock, manager.get, utils.Timestamp, currHits++, `remaining :=`, manager.set,
//     mux.Unlock, LimitReached, c.Next, and the same for the skip-option branch)
//   - the arithmetic / comparison expressions the decisions are made of, translated to Lean functions
//     over Nat (uint64 seconds) and Int (hit counters, limits): window roll-over test and new window end,
//     `resetInSec`, `remaining`, the reject test, the TTL of the first manager.set, the skip condition and
//     the guards / TTL of the take-back.
//
// lean/FiberModel/C13/Facts.lean proves that the model (Model.lean) computes exactly these functions in
// exactly this order; a change of any of them in /repo breaks that proof (obligation) and the check goes
// looking for a failing input. Standard library only.
package main

import (
	"flag"
	"fmt"
	"go/ast"
	"go/parser"
	"go/token"
	"os"
	"path/filepath"
	"strings"
)

func die(f string, a ...any) { fmt.Fprintf(os.Stderr, "translator/c13: "+f+"\n", a...); os.Exit(1) }

// ---- locating the handler closure ---------------------------------------------------------------

func handlerBody(path string) *ast.BlockStmt {
	fset := token.NewFileSet()
	f, err := parser.ParseFile(fset, path, nil, 0)
	if err != nil {
		die("%v", err)
	}
	var body *ast.BlockStmt
	for _, d := range f.Decls {
		fd, ok := d.(*ast.FuncDecl)
		if !ok || fd.Name.Name != "New" || fd.Recv == nil || fd.Body == nil {
			continue
		}
		for _, st := range fd.Body.List {
			if rs, ok := st.(*ast.ReturnStmt); ok && len(rs.Results) == 1 {
				if fl, ok := rs.Results[0].(*ast.FuncLit); ok {
					body = fl.Body
				}
			}
		}
	}
	if body == nil {
		die("%s: handler closure of New not found", path)
	}
	return body
}

func sel(e ast.Expr) string {
	switch v := e.(type) {
	case *ast.Ident:
		return v.Name
	case *ast.SelectorExpr:
		return sel(v.X) + "." + v.Sel.Name
	case *ast.CallExpr:
		return sel(v.Fun) + "()"
	}
	return "?"
}

// ---- order of the shared-state accesses -----------------------------------------------------------

var callEvents = map[string]string{
	"cfg.MaxFunc": "maxfunc", "cfg.Next": "nextcheck", "cfg.KeyGenerator": "key", "mux.Lock": "lock",
	"mux.Unlock": "unlock", "mux.RLock": "rlock", "mux.RUnlock": "runlock", "manager.get": "get",
	"manager.set": "set", "utils.Timestamp": "clock", "cfg.LimitReached": "reject", "c.Next": "handler",
}

func events(body *ast.BlockStmt) []string {
	var ev []string
	ast.Inspect(body, func(n ast.Node) bool {
		switch v := n.(type) {
		case *ast.CallExpr:
			if e, ok := callEvents[sel(v.Fun)]; ok {
				ev = append(ev, e)
			}
		case *ast.IncDecStmt:
			s := sel(v.X)
			if s == "e.currHits" || s == "e.prevHits" {
				op := "inc"
				if v.Tok == token.DEC {
					op = "dec"
				}
				ev = append(ev, op+"-"+strings.TrimPrefix(s, "e."))
			}
		case *ast.AssignStmt:
			if len(v.Lhs) == 1 && sel(v.Lhs[0]) == "remaining" && v.Tok == token.DEFINE {
				// children (the right-hand side) are visited after this node: no calls in it in the pinned code
				ev = append(ev, "remaining")
			}
			if len(v.Lhs) == 1 && (sel(v.Lhs[0]) == "e.currHits" || sel(v.Lhs[0]) == "e.prevHits") {
				ev = append(ev, "assign-"+strings.TrimPrefix(sel(v.Lhs[0]), "e."))
			}
		}
		return true
	})
	return ev
}

// ---- expressions ------------------------------------------------------------------------------------

var natNames = map[string]bool{"ts": true, "e_exp": true, "expiration": true, "elapsed": true, "resetInSec": true,
	"windowExp": true, "status": true}
var intNames = map[string]bool{"maxRequests": true, "e_currHits": true, "e_prevHits": true, "rate": true, "remaining": true}
var boolNames = map[string]bool{"skipSuccessful": true, "skipFailed": true}

type pr struct {
	params []string
	seen   map[string]bool
}

func (p *pr) param(n string) string {
	if !natNames[n] && !intNames[n] && !boolNames[n] {
		die("unknown operand %q in a translated expression", n)
	}
	if !p.seen[n] {
		p.seen[n] = true
		p.params = append(p.params, n)
	}
	return n
}

func (p *pr) expr(e ast.Expr) string {
	switch v := e.(type) {
	case *ast.ParenExpr:
		return p.expr(v.X)
	case *ast.BasicLit:
		if v.Kind != token.INT {
			die("unsupported literal %s", v.Value)
		}
		return v.Value
	case *ast.Ident:
		return p.param(v.Name)
	case *ast.SelectorExpr:
		switch s := sel(v); s {
		case "e.exp", "e.currHits", "e.prevHits":
			return p.param("e_" + v.Sel.Name)
		case "cfg.Expiration": // whole seconds: the same number as `expiration`
			return p.param("expiration")
		case "cfg.SkipSuccessfulRequests":
			return p.param("skipSuccessful")
		case "cfg.SkipFailedRequests":
			return p.param("skipFailed")
		case "fiber.StatusBadRequest":
			return "400"
		case "time.Second":
			return "1"
		default:
			die("unsupported selector %s", s)
		}
	case *ast.CallExpr:
		switch s := sel(v.Fun); s {
		case "uint64", "time.Duration":
			if len(v.Args) == 1 {
				return p.expr(v.Args[0])
			}
		case "int": // conversion of a uint64 number of seconds to a hit-counter-sized int
			if len(v.Args) == 1 {
				return "((" + p.expr(v.Args[0]) + " : Nat) : Int)"
			}
		case "c.Response().StatusCode":
			return p.param("status")
		default:
			die("unsupported call %s", s)
		}
	case *ast.BinaryExpr:
		l, r := p.sub(v.X), p.sub(v.Y)
		switch v.Op {
		case token.ADD, token.SUB, token.MUL:
			if v.Op == token.MUL && r == "1" {
				return l
			}
			return l + " " + v.Op.String() + " " + r
		case token.QUO: // only between hit counters (Go int): truncates toward zero
			return "Int.tdiv " + l + " " + r
		case token.LSS, token.LEQ, token.GTR, token.GEQ:
			op := map[token.Token]string{token.LSS: "<", token.LEQ: "≤", token.GTR: ">", token.GEQ: "≥"}[v.Op]
			return "decide (" + l + " " + op + " " + r + ")"
		case token.EQL:
			return "decide (" + l + " = " + r + ")"
		case token.LAND:
			return l + " && " + r
		case token.LOR:
			return l + " || " + r
		}
		die("unsupported operator %s", v.Op)
	}
	die("unsupported expression %T", e)
	return ""
}

func (p *pr) sub(e ast.Expr) string {
	s := p.expr(e)
	for {
		if pe, ok := e.(*ast.ParenExpr); ok {
			e = pe.X
		} else {
			break
		}
	}
	if _, ok := e.(*ast.BinaryExpr); ok && !strings.HasPrefix(s, "decide (") {
		return "(" + s + ")"
	}
	return s // casts print with their own parentheses
}

func leanDef(name string, e ast.Expr, res string) string {
	if e == nil {
		die("expression for %s not found", name)
	}
	p := &pr{seen: map[string]bool{}}
	body := p.expr(e)
	var ps []string
	for _, n := range p.params {
		ty := "Nat"
		if intNames[n] {
			ty = "Int"
		} else if boolNames[n] {
			ty = "Bool"
		}
		ps = append(ps, fmt.Sprintf("(%s : %s)", n, ty))
	}
	return fmt.Sprintf("def %s %s : %s := %s\n", name, strings.Join(ps, " "), res, body)
}

// ---- picking the statements -------------------------------------------------------------------------

type facts struct {
	freshExp, rollCond, rollExp, elapsed, gapCond, gapExp, alignedExp ast.Expr
	reset, remaining, rejectCond, ttl1, rate                      ast.Expr
	hdrs                                                          []string
	skipCond, unhitGuard, unhitTTL                                ast.Expr
	unhitCases                                                    []ast.Expr
}

func assignTo(list []ast.Stmt, lhs string) ast.Expr {
	for _, st := range list {
		if as, ok := st.(*ast.AssignStmt); ok && len(as.Lhs) == 1 && sel(as.Lhs[0]) == lhs && len(as.Rhs) == 1 {
			return as.Rhs[0]
		}
	}
	return nil
}

func containsCall(n ast.Node, name string) bool {
	found := false
	ast.Inspect(n, func(m ast.Node) bool {
		if c, ok := m.(*ast.CallExpr); ok && sel(c.Fun) == name {
			found = true
		}
		return true
	})
	return found
}

func mentions(e ast.Expr, name string) bool {
	found := false
	ast.Inspect(e, func(m ast.Node) bool {
		if x, ok := m.(ast.Expr); ok && sel(x) == name {
			found = true
		}
		return true
	})
	return found
}

// every `c.Set(<header>, strconv.<Fmt>(<local>, ...))` of the closure, in source order: "header=local"
func headerSets(body *ast.BlockStmt) []string {
	var out []string
	ast.Inspect(body, func(n ast.Node) bool {
		c, ok := n.(*ast.CallExpr)
		if !ok || sel(c.Fun) != "c.Set" || len(c.Args) != 2 {
			return true
		}
		val := "?"
		if in, ok := c.Args[1].(*ast.CallExpr); ok && strings.HasPrefix(sel(in.Fun), "strconv.") && len(in.Args) >= 1 {
			val = sel(in.Args[0])
		}
		out = append(out, sel(c.Args[0])+"="+val)
		return true
	})
	return out
}

func collect(body *ast.BlockStmt) facts {
	var f facts
	f.hdrs = headerSets(body)
	sets := 0
	for _, st := range body.List {
		switch v := st.(type) {
		case *ast.IfStmt:
			switch {
			case sel0(v.Cond) == "e.exp == 0":
				f.freshExp = assignTo(v.Body.List, "e.exp")
				if el, ok := v.Else.(*ast.IfStmt); ok {
					f.rollCond = el.Cond
					f.rollExp = assignTo(el.Body.List, "e.exp")
					f.elapsed = assignTo(el.Body.List, "elapsed")
					for _, s2 := range el.Body.List {
						if in, ok := s2.(*ast.IfStmt); ok {
							f.gapCond = in.Cond
							f.gapExp = assignTo(in.Body.List, "e.exp")
							if eb, ok := in.Else.(*ast.BlockStmt); ok {
								f.alignedExp = assignTo(eb.List, "e.exp")
							}
						}
					}
				}
			case containsCall(v.Body, "cfg.LimitReached"):
				f.rejectCond = v.Cond
			case mentions(v.Cond, "cfg.SkipSuccessfulRequests"):
				f.skipCond = v.Cond
				for _, s2 := range v.Body.List {
					if in, ok := s2.(*ast.IfStmt); ok {
						f.unhitGuard = in.Cond
						f.unhitTTL = assignTo(in.Body.List, "ttl")
						for _, s3 := range in.Body.List {
							if sw, ok := s3.(*ast.SwitchStmt); ok {
								for _, cc := range sw.Body.List {
									if c, ok := cc.(*ast.CaseClause); ok && len(c.List) == 1 {
										f.unhitCases = append(f.unhitCases, &ast.BinaryExpr{X: sw.Tag, Op: token.EQL, Y: c.List[0]})
									}
								}
							}
						}
					}
				}
			}
		case *ast.AssignStmt:
			if len(v.Lhs) == 1 && len(v.Rhs) == 1 {
				switch sel(v.Lhs[0]) {
				case "resetInSec":
					f.reset = v.Rhs[0]
				case "remaining":
					f.remaining = v.Rhs[0]
				case "rate":
					f.rate = v.Rhs[0]
				}
			}
		case *ast.ExprStmt:
			if c, ok := v.X.(*ast.CallExpr); ok && sel(c.Fun) == "manager.set" && len(c.Args) == 3 {
				if sets == 0 {
					f.ttl1 = c.Args[2]
				}
				sets++
			}
		}
	}
	return f
}

// textual form of simple conditions, used only to recognise `e.exp == 0`
func sel0(e ast.Expr) string {
	if b, ok := e.(*ast.BinaryExpr); ok {
		l, r := sel(b.X), ""
		if bl, ok := b.Y.(*ast.BasicLit); ok {
			r = bl.Value
		} else {
			r = sel(b.Y)
		}
		return l + " " + b.Op.String() + " " + r
	}
	return ""
}

func strList(xs []string) string {
	q := make([]string, len(xs))
	for i, x := range xs {
		q[i] = fmt.Sprintf("%q", x)
	}
	return "[" + strings.Join(q, ", ") + "]"
}

func main() {
	repo := flag.String("repo", "/repo", "fiber tree")
	out := flag.String("out", "lean/FiberModel/Generated/C13Facts.lean", "output file")
	flag.Parse()
	fb := handlerBody(filepath.Join(*repo, "middleware/limiter/limiter_fixed.go"))
	sb := handlerBody(filepath.Join(*repo, "middleware/limiter/limiter_sliding.go"))
	ff, sf := collect(fb), collect(sb)
	var w strings.Builder
	w.WriteString("/- GENERATED by /verif/translator/c13 from /repo/middleware/limiter/{limiter_fixed,limiter_sliding}.go on every\n   check run. Do not edit. Nat = uint64 seconds, Int = hit counters and limits. -/\nnamespace C13.Facts\n\n")
	w.WriteString("/-! limiter_fixed.go -/\n")
	fmt.Fprintf(&w, "def fixedOrder : List String := %s\n", strList(events(fb)))
	w.WriteString(leanDef("fixedFreshExp", ff.freshExp, "Nat"))
	w.WriteString(leanDef("fixedRollCond", ff.rollCond, "Bool"))
	w.WriteString(leanDef("fixedRollExp", ff.rollExp, "Nat"))
	w.WriteString(leanDef("fixedReset", ff.reset, "Nat"))
	w.WriteString(leanDef("fixedRemaining", ff.remaining, "Int"))
	w.WriteString(leanDef("fixedRejectCond", ff.rejectCond, "Bool"))
	w.WriteString(leanDef("fixedTtl", ff.ttl1, "Nat"))
	w.WriteString(leanDef("fixedSkipCond", ff.skipCond, "Bool"))
	w.WriteString(leanDef("fixedUnhitGuard", ff.unhitGuard, "Bool"))
	fmt.Fprintf(&w, "def fixedHeaders : List String := %s\n", strList(ff.hdrs))
	w.WriteString("\n/-! limiter_sliding.go -/\n")
	fmt.Fprintf(&w, "def slidingOrder : List String := %s\n", strList(events(sb)))
	w.WriteString(leanDef("slidingFreshExp", sf.freshExp, "Nat"))
	w.WriteString(leanDef("slidingRollCond", sf.rollCond, "Bool"))
	w.WriteString(leanDef("slidingElapsed", sf.elapsed, "Nat"))
	w.WriteString(leanDef("slidingGapCond", sf.gapCond, "Bool"))
	w.WriteString(leanDef("slidingGapExp", sf.gapExp, "Nat"))
	w.WriteString(leanDef("slidingAlignedExp", sf.alignedExp, "Nat"))
	w.WriteString(leanDef("slidingReset", sf.reset, "Nat"))
	w.WriteString(leanDef("slidingRate", sf.rate, "Int"))
	w.WriteString(leanDef("slidingRemaining", sf.remaining, "Int"))
	w.WriteString(leanDef("slidingRejectCond", sf.rejectCond, "Bool"))
	w.WriteString(leanDef("slidingTtl", sf.ttl1, "Nat"))
	w.WriteString(leanDef("slidingSkipCond", sf.skipCond, "Bool"))
	w.WriteString(leanDef("slidingUnhitGuard", sf.unhitGuard, "Bool"))
	w.WriteString(leanDef("slidingUnhitTtl", sf.unhitTTL, "Nat"))
	if len(sf.unhitCases) != 2 {
		die("limiter_sliding.go: expected two cases in the take-back switch, found %d", len(sf.unhitCases))
	}
	w.WriteString(leanDef("slidingUnhitCurCase", sf.unhitCases[0], "Bool"))
	w.WriteString(leanDef("slidingUnhitPrevCase", sf.unhitCases[1], "Bool"))
	fmt.Fprintf(&w, "def slidingHeaders : List String := %s\n", strList(sf.hdrs))
	w.WriteString("\nend C13.Facts\n")
	if err := os.WriteFile(*out, []byte(w.String()), 0o644); err != nil {
		die("%v", err)
	}
}
