// translator/c01: regenerates lean/FiberModel/Generated/C01Facts.lean from /repo (go/ast only).
//
// Facts (all syntactic, re-extracted on every check run):
//   - ctx.go: the constants maxDetectionPaths and maxParams
//   - app.go + constants.go: DefaultMethods in index order (method ints used by app.stack / treeStack)
//   - router.go buildTree: the (byte index, shift) pairs of the bucket-key expression and the text of the
//     conditions guarding it
//   - ctx.go configDependentPaths: the same for the request's treePathHash
//   - ctx.go Path: whether the override branch calls syncIndexRoute after configDependentPaths
//   - router.go addRoute: the text of the duplicate-merge condition
//   - router.go register, ctx.go configDependentPaths, helpers.go getGroupPath: the normalisation statements
//   - helpers.go methodInt: its top-level shape (fast switch guarded by "no custom RequestMethods", else
//     slices.Index over Config.RequestMethods) and the (method name, slot) table of the fast switch
//   - ctx.go Method: the condition under which the override calls syncIndexRouteMethod; ctx.go
//     syncIndexRouteMethod: the early-return guard, the two loop conditions and what the loops count
package main

import (
	"bytes"
	"flag"
	"fmt"
	"go/ast"
	"go/parser"
	"go/printer"
	"go/token"
	"os"
	"path/filepath"
	"strconv"
	"strings"
)

func die(f string, a ...any) { fmt.Fprintf(os.Stderr, "translator/c01: "+f+"\n", a...); os.Exit(1) }

var fset = token.NewFileSet()

func parse(path string) *ast.File {
	f, err := parser.ParseFile(fset, path, nil, 0)
	if err != nil {
		die("%v", err)
	}
	return f
}

func text(n ast.Node) string {
	var b bytes.Buffer
	if err := printer.Fprint(&b, fset, n); err != nil {
		die("%v", err)
	}
	return strings.Join(strings.Fields(b.String()), " ")
}

// constants of a file: string literals, int literals and iota sequences
func consts(f *ast.File, strs map[string]string, ints map[string]int) {
	for _, d := range f.Decls {
		gd, ok := d.(*ast.GenDecl)
		if !ok || gd.Tok != token.CONST {
			continue
		}
		iotaMode := false
		for i, sp := range gd.Specs {
			vs := sp.(*ast.ValueSpec)
			if len(vs.Values) == 0 {
				if iotaMode {
					for _, n := range vs.Names {
						ints[n.Name] = i
					}
				}
				continue
			}
			iotaMode = false
			for j, n := range vs.Names {
				if j >= len(vs.Values) {
					continue
				}
				switch v := vs.Values[j].(type) {
				case *ast.BasicLit:
					if v.Kind == token.STRING {
						s, _ := strconv.Unquote(v.Value)
						strs[n.Name] = s
					} else if v.Kind == token.INT {
						k, _ := strconv.Atoi(v.Value)
						ints[n.Name] = k
					}
				case *ast.Ident:
					if v.Name == "iota" {
						ints[n.Name] = i
						iotaMode = true
					}
				}
			}
		}
	}
}

func funcDecl(f *ast.File, recv, name string) *ast.FuncDecl {
	for _, d := range f.Decls {
		fd, ok := d.(*ast.FuncDecl)
		if !ok || fd.Name.Name != name {
			continue
		}
		if recv == "" && fd.Recv == nil {
			return fd
		}
		if fd.Recv != nil && len(fd.Recv.List) == 1 && strings.Contains(text(fd.Recv.List[0].Type), recv) {
			return fd
		}
	}
	die("func %s.%s not found", recv, name)
	return nil
}

// funcDeclOpt is funcDecl without dying: nil when the function does not exist
func funcDeclOpt(f *ast.File, recv, name string) *ast.FuncDecl {
	for _, d := range f.Decls {
		fd, ok := d.(*ast.FuncDecl)
		if !ok || fd.Name.Name != name {
			continue
		}
		if fd.Recv != nil && len(fd.Recv.List) == 1 && strings.Contains(text(fd.Recv.List[0].Type), recv) {
			return fd
		}
	}
	return nil
}

type term struct{ idx, shift int }

// hashTerms decomposes  int(x[0])<<16 | int(x[1])<<8 | int(x[2])  into (index, shift) pairs
func hashTerms(e ast.Expr) []term {
	switch v := e.(type) {
	case *ast.ParenExpr:
		return hashTerms(v.X)
	case *ast.BinaryExpr:
		if v.Op == token.OR {
			return append(hashTerms(v.X), hashTerms(v.Y)...)
		}
		if v.Op == token.SHL {
			sh, err := strconv.Atoi(text(v.Y))
			if err != nil {
				die("non-literal shift %s", text(v.Y))
			}
			t := hashTerms(v.X)
			if len(t) != 1 {
				die("unexpected shift operand %s", text(v.X))
			}
			return []term{{t[0].idx, sh}}
		}
	case *ast.CallExpr: // int(x[i])
		if len(v.Args) == 1 {
			return hashTerms(v.Args[0])
		}
	case *ast.IndexExpr:
		i, err := strconv.Atoi(text(v.Index))
		if err != nil {
			die("non-literal index %s", text(v.Index))
		}
		return []term{{i, 0}}
	}
	die("unexpected hash expression %s", text(e))
	return nil
}

// findHash finds the assignment `treePathHash = <expr>` (name may be a selector ending in treePathHash)
// with a non-literal right-hand side and returns its terms plus the texts of the enclosing if conditions.
func findHash(fd *ast.FuncDecl) ([]term, []string) {
	var terms []term
	var conds []string
	var walk func(n ast.Node, stack []string)
	walk = func(n ast.Node, stack []string) {
		switch v := n.(type) {
		case *ast.IfStmt:
			st := append(append([]string{}, stack...), text(v.Cond))
			walk(v.Body, st)
			if v.Else != nil {
				walk(v.Else, stack)
			}
			return
		case *ast.AssignStmt:
			if len(v.Lhs) == 1 && len(v.Rhs) == 1 && strings.HasSuffix(text(v.Lhs[0]), "treePathHash") {
				if _, lit := v.Rhs[0].(*ast.BasicLit); !lit {
					if terms != nil {
						die("two hash assignments in %s", fd.Name.Name)
					}
					terms = hashTerms(v.Rhs[0])
					conds = stack
				}
			}
			return
		}
		ast.Inspect(n, func(c ast.Node) bool {
			if c == nil || c == n {
				return true
			}
			switch c.(type) {
			case *ast.IfStmt, *ast.AssignStmt:
				walk(c, stack)
				return false
			}
			return true
		})
	}
	walk(fd.Body, nil)
	if terms == nil {
		die("no hash assignment in %s", fd.Name.Name)
	}
	return terms, conds
}

func leanTerms(t []term) string {
	s := make([]string, len(t))
	for i, x := range t {
		s[i] = fmt.Sprintf("(%d, %d)", x.idx, x.shift)
	}
	return "[" + strings.Join(s, ", ") + "]"
}

func leanStrs(xs []string) string {
	s := make([]string, len(xs))
	for i, x := range xs {
		s[i] = strconv.Quote(x)
	}
	return "[" + strings.Join(s, ", ") + "]"
}

func main() {
	repo := flag.String("repo", "/repo", "repository root")
	out := flag.String("out", "lean/FiberModel/Generated/C01Facts.lean", "output file")
	flag.Parse()
	strs, ints := map[string]string{}, map[string]int{}
	ctxF := parse(filepath.Join(*repo, "ctx.go"))
	appF := parse(filepath.Join(*repo, "app.go"))
	routerF := parse(filepath.Join(*repo, "router.go"))
	for _, f := range []*ast.File{ctxF, appF, routerF, parse(filepath.Join(*repo, "constants.go")), parse(filepath.Join(*repo, "helpers.go"))} {
		consts(f, strs, ints)
	}
	maxDet, ok1 := ints["maxDetectionPaths"]
	maxParams, ok2 := ints["maxParams"]
	if !ok1 || !ok2 {
		die("maxDetectionPaths/maxParams not found")
	}
	// DefaultMethods
	var methods []string
	for _, d := range appF.Decls {
		gd, ok := d.(*ast.GenDecl)
		if !ok || gd.Tok != token.VAR {
			continue
		}
		for _, sp := range gd.Specs {
			vs := sp.(*ast.ValueSpec)
			if len(vs.Names) != 1 || vs.Names[0].Name != "DefaultMethods" || len(vs.Values) != 1 {
				continue
			}
			cl, ok := vs.Values[0].(*ast.CompositeLit)
			if !ok {
				die("DefaultMethods is not a composite literal")
			}
			methods = make([]string, len(cl.Elts))
			for i, e := range cl.Elts {
				idx, val := i, e
				if kv, ok := e.(*ast.KeyValueExpr); ok {
					k, ok := ints[text(kv.Key)]
					if !ok {
						die("DefaultMethods key %s", text(kv.Key))
					}
					idx, val = k, kv.Value
				}
				s, ok := strs[text(val)]
				if !ok {
					die("DefaultMethods value %s", text(val))
				}
				if idx >= len(methods) {
					die("DefaultMethods index %d", idx)
				}
				methods[idx] = s
			}
		}
	}
	if len(methods) == 0 {
		die("DefaultMethods not found")
	}
	routeTerms, routeConds := findHash(funcDecl(routerF, "App", "buildTree"))
	reqTerms, reqConds := findHash(funcDecl(ctxF, "DefaultCtx", "configDependentPaths"))
	// Path(override): does the branch that calls configDependentPaths also call syncIndexRoute afterwards?
	resync := false
	ast.Inspect(funcDecl(ctxF, "DefaultCtx", "Path").Body, func(n ast.Node) bool {
		bl, ok := n.(*ast.BlockStmt)
		if !ok {
			return true
		}
		seen := false
		for _, st := range bl.List {
			t := text(st)
			if strings.Contains(t, "configDependentPaths()") {
				seen = true
			} else if seen && strings.Contains(t, "syncIndexRoute()") {
				resync = true
			}
		}
		return true
	})
	// addRoute merge condition
	mergeCond := ""
	ast.Inspect(funcDecl(routerF, "App", "addRoute").Body, func(n ast.Node) bool {
		if is, ok := n.(*ast.IfStmt); ok && strings.Contains(text(is.Body), "preRoute.Handlers = append(") {
			mergeCond = text(is.Cond)
		}
		return true
	})
	if mergeCond == "" {
		die("addRoute merge condition not found")
	}
	// Method(override): the condition of the branch that calls syncIndexRouteMethod, and the statements of that branch
	methodGuard, methodBranch := "", ""
	ast.Inspect(funcDecl(ctxF, "DefaultCtx", "Method").Body, func(n ast.Node) bool {
		if is, ok := n.(*ast.IfStmt); ok && strings.Contains(text(is.Body), "syncIndexRouteMethod(") {
			methodGuard = text(is.Cond)
			var sts []string
			for _, st := range is.Body.List {
				sts = append(sts, text(st))
			}
			methodBranch = strings.Join(sts, "; ")
		}
		return true
	})
	// syncIndexRouteMethod: early-return guard, the `for` headers with the `if` inside each, the final assignment
	var resyncGuard string
	var resyncLoops []string
	resyncAssign := ""
	if fd := funcDeclOpt(ctxF, "DefaultCtx", "syncIndexRouteMethod"); fd != nil {
		for _, st := range fd.Body.List {
			switch v := st.(type) {
			case *ast.IfStmt:
				if resyncGuard == "" && strings.Contains(text(v.Body), "return") {
					resyncGuard = text(v.Cond)
				}
			case *ast.ForStmt:
				inner := ""
				for _, b := range v.Body.List {
					if is, ok := b.(*ast.IfStmt); ok {
						var sts []string
						for _, x := range is.Body.List {
							sts = append(sts, text(x))
						}
						inner = "if " + text(is.Cond) + " { " + strings.Join(sts, "; ") + " }"
					}
				}
				resyncLoops = append(resyncLoops, text(v.Init)+"; "+text(v.Cond)+"; "+text(v.Post)+" :: "+inner)
			case *ast.AssignStmt:
				if strings.HasPrefix(text(v), "c.indexRoute") {
					resyncAssign = text(v)
				}
			}
		}
	}
	// helpers.go methodInt: top-level statements (the `if` with its condition, what follows it), and the
	// fast switch's (case label, returned constant) pairs resolved to (method name, slot)
	var miShape []string
	var miSwitch []string
	helpersMI := parse(filepath.Join(*repo, "helpers.go"))
	for _, st := range funcDecl(helpersMI, "App", "methodInt").Body.List {
		switch v := st.(type) {
		case *ast.IfStmt:
			inner := "other"
			if len(v.Body.List) == 1 {
				if _, ok := v.Body.List[0].(*ast.SwitchStmt); ok {
					inner = "switch " + text(v.Body.List[0].(*ast.SwitchStmt).Tag)
				}
			}
			miShape = append(miShape, "if "+text(v.Cond)+" { "+inner+" }")
		case *ast.SwitchStmt:
			miShape = append(miShape, "switch "+text(v.Tag))
		default:
			miShape = append(miShape, text(st))
		}
	}
	ast.Inspect(funcDecl(helpersMI, "App", "methodInt").Body, func(n ast.Node) bool {
		cc, ok := n.(*ast.CaseClause)
		if !ok {
			return true
		}
		ret := "?"
		if len(cc.Body) == 1 {
			if rs, ok := cc.Body[0].(*ast.ReturnStmt); ok && len(rs.Results) == 1 {
				ret = text(rs.Results[0])
				if k, ok := ints[ret]; ok {
					ret = strconv.Itoa(k)
				}
			}
		}
		if cc.List == nil {
			miSwitch = append(miSwitch, "default=>"+ret)
		}
		for _, l := range cc.List {
			name := text(l)
			if v, ok := strs[name]; ok {
				name = v
			}
			miSwitch = append(miSwitch, name+"=>"+ret)
		}
		return true
	})
	// normalisation statements (top level, in order)
	var regNorm, cdpNorm, ggpNorm []string
	for _, st := range funcDecl(routerF, "App", "register").Body.List {
		t := text(st)
		if strings.HasPrefix(t, "if pathRaw") || strings.HasPrefix(t, "pathPretty :=") || strings.HasPrefix(t, "if !app.config.") ||
			strings.HasPrefix(t, "pathClean :=") {
			regNorm = append(regNorm, t)
		}
	}
	for _, st := range funcDecl(ctxF, "DefaultCtx", "configDependentPaths").Body.List {
		cdpNorm = append(cdpNorm, text(st))
	}
	helpersF := parse(filepath.Join(*repo, "helpers.go"))
	for _, st := range funcDecl(helpersF, "", "getGroupPath").Body.List {
		ggpNorm = append(ggpNorm, text(st))
	}
	var b strings.Builder
	b.WriteString("-- GENERATED by translator/c01 from /repo (ctx.go, app.go, router.go); do not edit.\n")
	b.WriteString("namespace C01.Facts\n\n")
	fmt.Fprintf(&b, "def maxDetectionPaths : Nat := %d\n", maxDet)
	fmt.Fprintf(&b, "def maxParams : Nat := %d\n", maxParams)
	fmt.Fprintf(&b, "/-- app.go DefaultMethods, by method int -/\ndef methods : List String := %s\n", leanStrs(methods))
	fmt.Fprintf(&b, "/-- router.go buildTree: (byte index of segs[0].Const, left shift) of the bucket key -/\ndef routeHash : List (Nat × Nat) := %s\n", leanTerms(routeTerms))
	fmt.Fprintf(&b, "/-- the conditions guarding that assignment, outermost first -/\ndef routeHashGuards : List String := %s\n", leanStrs(routeConds))
	fmt.Fprintf(&b, "/-- ctx.go configDependentPaths: (byte index of detectionPath, left shift) of treePathHash -/\ndef reqHash : List (Nat × Nat) := %s\n", leanTerms(reqTerms))
	fmt.Fprintf(&b, "def reqHashGuards : List String := %s\n", leanStrs(reqConds))
	fmt.Fprintf(&b, "/-- ctx.go Path(override) calls syncIndexRoute after configDependentPaths -/\ndef pathOverrideResyncs : Bool := %v\n", resync)
	fmt.Fprintf(&b, "/-- router.go addRoute: condition of the duplicate merge -/\ndef mergeCond : String := %s\n", strconv.Quote(mergeCond))
	fmt.Fprintf(&b, "/-- ctx.go Method(override): condition and statements of the branch that re-derives the cursor -/\ndef methodOverrideGuard : String := %s\ndef methodOverrideBranch : String := %s\n", strconv.Quote(methodGuard), strconv.Quote(methodBranch))
	fmt.Fprintf(&b, "/-- ctx.go syncIndexRouteMethod: early-return guard; `init; cond; post :: if` of its loops; final assignment -/\ndef methodResyncGuard : String := %s\ndef methodResyncLoops : List String := %s\ndef methodResyncAssign : String := %s\n", strconv.Quote(resyncGuard), leanStrs(resyncLoops), strconv.Quote(resyncAssign))
	fmt.Fprintf(&b, "/-- router.go register: the path normalisation statements, in order -/\ndef registerNorm : List String := %s\n", leanStrs(regNorm))
	fmt.Fprintf(&b, "/-- ctx.go configDependentPaths: all statements, in order -/\ndef configDependentPathsStmts : List String := %s\n", leanStrs(cdpNorm))
	fmt.Fprintf(&b, "/-- helpers.go getGroupPath: all statements, in order -/\ndef getGroupPathStmts : List String := %s\n", leanStrs(ggpNorm))
	fmt.Fprintf(&b, "/-- helpers.go methodInt: top-level statements; the fast switch's `name=>slot` table -/\ndef methodIntShape : List String := %s\ndef methodIntSwitch : List String := %s\n", leanStrs(miShape), leanStrs(miSwitch))
	b.WriteString("\nend C01.Facts\n")
	if err := os.WriteFile(*out, []byte(b.String()), 0o644); err != nil {
		die("%v", err)
	}
}
