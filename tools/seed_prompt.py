#!/usr/bin/env python3
"""Print the prompt given to an independent mutation sub-agent: property text + worktree only."""
import json, sys
pid, wt, angle = sys.argv[1], sys.argv[2], (sys.argv[3] if len(sys.argv) > 3 else "")
for l in open('/verif/properties.jsonl'):
    p = json.loads(l)
    if p['id'] == pid:
        break
txt = json.dumps({k: p[k] for k in ('title', 'statement', 'quantifier', 'why_tests_cant', 'anchors')}, indent=1)
print(f"""You are helping evaluate a verification tool. You get a scratch git worktree of the Go web framework gofiber/fiber v3 at `{wt}` (Go 1.23; the sandbox is OFFLINE: before any go command run `export GOFLAGS=-mod=mod GOPROXY=off GOSUMDB=off GOTOOLCHAIN=local`). Work ONLY inside `{wt}` (never touch /repo or /verif, do not read /verif). Do not commit.

Here is a semantic property the framework is supposed to satisfy:

{txt}

Task: make ONE realistic change to the framework's non-test source code in the worktree that BREAKS this property while (1) the code still compiles, and (2) the existing test suite still passes: run at least the tests of every package you touched, e.g. `cd {wt} && go test -mod=mod -vet=off -count=1 ./middleware/<name>/...` (or `go test -mod=mod -vet=off -count=1 .` for the root package if you touched it; the full suite `go test -mod=mod -vet=off -count=1 -timeout 25m ./...` takes ~40 s; 4 tests in middleware/proxy named Test_Proxy_Do* fail offline even without any change — ignore exactly those). Do not edit existing tests.

The change should look like something a developer could plausibly write (a refactor slip, an optimisation, an off-by-one, a dropped guard, a wrong operand, a reordered statement), and it should need something SPECIFIC to manifest — a particular interleaving, a multi-step sequence of operations, an unusual input, a boundary value, a particular configuration combination, or two cooperating sites that each look fine alone — not something ordinary use would expose at once. {angle}

Also write a demonstration: a new Go test file (name it `zz_seed_demo_test.go` in the affected package; it may be an internal or external test) with one test that FAILS with your change and PASSES on the original code. Verify both directions yourself (do NOT use `git stash` (the stash is shared with other worktrees); use `git diff > <worktree>/../<worktree-name>-x.patch; git checkout -- <files>; ...; git apply <that patch>` on the source change while keeping the new test file).

When done, leave the worktree containing your source change (uncommitted) and the demo test file, and reply with: the files changed, a 3-line explanation of the change and why it breaks the property, what is needed for it to manifest, the exact `go test -run` command for the demo, and the test results you observed (existing tests with the change; demo with and without the change).""")
