#!/usr/bin/env python3
"""Re-confirm and re-check every seeded change against the current /repo HEAD and /verif tree.
Seeds of one property run one after the other (they share .work/Cxx-alt and the regenerated facts
of that property); different properties run in parallel.   usage: seedall.py [-j N] [Cxx ...]"""
import json, glob, os, subprocess, sys, concurrent.futures as cf
ROOT = os.path.dirname(os.path.dirname(os.path.abspath(__file__)))
args = sys.argv[1:]
jobs = int(args[args.index("-j") + 1]) if "-j" in args else 5
only = [a for a in args if a.startswith("C")]
groups = {}
for m in sorted(glob.glob(os.path.join(ROOT, "seeded", "*", "meta.json"))):
    meta = json.load(open(m))
    if only and meta["property"] not in only:
        continue
    groups.setdefault(meta["property"], []).append(meta["id"])
def run_group(pid):
    out = []
    for sid in groups[pid]:
        # no re-confirmation here: `go test .` of several worktrees in parallel clash on the fixed ports
        # some root-package tests listen on; a patch that no longer applies is reported as NEEDS-REBASE
        k = subprocess.run([sys.executable, os.path.join(ROOT, "tools", "seedrun.py"), "check", sid], capture_output=True, text=True)
        line = [l for l in k.stdout.splitlines() if l.startswith(sid)]
        if "patch does not apply" in k.stdout:
            out.append((sid, "NEEDS-REBASE"))
        else:
            out.append((sid, line[-1][len(sid) + 1:] if line else "no-output " + k.stdout[-200:]))
    return pid, out
with cf.ThreadPoolExecutor(jobs) as ex:
    for pid, out in ex.map(run_group, sorted(groups)):
        for sid, verdict in out:
            print(f"{sid}\t{verdict[:200]}", flush=True)
