#!/usr/bin/env python3
"""Sweep seeds and list which spec clauses fail inside each known-finding region on the unchanged
tree (input for the `clauses` lists in known/Cxx.json).  usage: knownclauses.py Cxx [seeds...] [--tier t]"""
import subprocess, sys, os, collections
ROOT = os.path.dirname(os.path.dirname(os.path.abspath(__file__)))
args = sys.argv[1:]
tier = "quick"
if "--tier" in args:
    i = args.index("--tier"); tier = args[i + 1]; del args[i:i + 2]
pid = args[0]; seeds = args[1:] or ["20260929", "1", "2", "3", "4", "5"]
acc = collections.Counter()
for s in seeds:
    p = subprocess.run([os.path.join(ROOT, "check"), pid, "--seed", s, "--tier", tier], cwd=ROOT, capture_output=True, text=True)
    for name in ("verdicts_corpus.txt", "verdicts_main.txt"):
        path = os.path.join(ROOT, ".work", pid, name)
        if not os.path.exists(path):
            continue
        for l in open(path):
            f = l.rstrip("\n").split("\t")
            if len(f) >= 4 and f[2].startswith("S=FAIL"):
                acc[(f[3], f[2][7:].split(" ")[0].rstrip(":"))] += 1
    print(pid, "seed", s, "exit", p.returncode, flush=True)
for (k, c), n in sorted(acc.items()):
    print(f"  {pid} {k} clause={c} n={n}")
