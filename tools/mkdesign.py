#!/usr/bin/env python3
"""Regenerate the generated tables of DESIGN.md section 0 (per-property state, seeded changes, known findings)
from props/*.json, known/*.json, seeded/*/meta.json, evidence/*.json."""
import json, glob, os, re
ROOT = os.path.dirname(os.path.dirname(os.path.abspath(__file__)))
def load(p, d=None):
    try: return json.load(open(p))
    except Exception: return d
props = {json.load(open(p))["id"]: json.load(open(p)) for p in sorted(glob.glob(ROOT + "/props/C*.json"))}
known = {}
for p in sorted(glob.glob(ROOT + "/known/C*.json")):
    for f in load(p, {"findings": []}).get("findings", []):
        known.setdefault(f["property"], []).append(f)
seeds = {}
for p in sorted(glob.glob(ROOT + "/seeded/*/meta.json")):
    m = load(p); seeds.setdefault(m["property"], []).append(m)
titles = {}
for l in open(ROOT + "/properties.jsonl"):
    q = json.loads(l); titles[q["id"]] = q["title"]
out = []
out.append("| id | state | theorems audited | partial clauses | quick cases (wall s) | fixed defects | known findings | seeded changes caught |")
out.append("|----|-------|------------------|-----------------|----------------------|---------------|----------------|-----------------------|")
for pid in sorted(titles):
    c = props.get(pid)
    if not c:
        out.append(f"| {pid} | not built | | | | | | |"); continue
    ev = load(f"{ROOT}/evidence/{pid}.json", {})
    cov = ev.get("coverage", {})
    kf = known.get(pid, [])
    fixed = [f for f in kf if f.get("status") == "fixed"]
    kn = [f for f in kf if f.get("status") == "known"]
    ss = seeds.get(pid, [])
    caught = [s for s in ss if s.get("check_results", {}).get(pid, {}).get("verdict", "").startswith("caught")]
    ran = [s for s in ss if pid in s.get("check_results", {})]
    state = "claimed" if c.get("claimed", True) else "in progress (not registered)"
    out.append(f"| {pid} | {state} | {len(c.get('theorems', []))} | {len(c.get('partial', []))} | {cov.get('evaluations','')} ({ev.get('wall_s','')}) | {len(fixed)} | {len(kn)} | {len(caught)}/{len(ran)} (of {len(ss)} seeded) |")
state_tbl = "\n".join(out)
out = ["| seeded change | property | needs | verdict of `./check` (quick) |", "|---|---|---|---|"]
for pid in sorted(seeds):
    for s in seeds[pid]:
        r = s.get("check_results", {}).get(pid, {})
        out.append(f"| {s['id']} | {pid} | {s.get('needs','')[:160]} | {r.get('verdict','not run yet')} |")
seed_tbl = "\n".join(out)
out = ["| property | id | status | what | commit / region |", "|---|---|---|---|---|"]
for pid in sorted(known):
    for f in known[pid]:
        out.append(f"| {pid} | {f.get('id')} | {f.get('status')} | {str(f.get('what',''))[:220]} | {f.get('commit', f.get('region',''))} |")
known_tbl = "\n".join(out)
p = ROOT + "/DESIGN.md"
s = open(p).read()
def put(s, tag, body):
    a, b = f"<!-- BEGIN:{tag} -->", f"<!-- END:{tag} -->"
    if a in s:
        return s[:s.index(a) + len(a)] + "\n" + body + "\n" + s[s.index(b):]
    return s
s = put(s, "STATE", state_tbl); s = put(s, "SEEDS", seed_tbl); s = put(s, "KNOWN", known_tbl)
open(p, "w").write(s)
print("DESIGN.md tables regenerated")
