#!/usr/bin/env python3
"""Regenerate MANIFEST.json from props/*.json (one source of truth per property)."""
import json, glob, os, subprocess
ROOT = os.path.dirname(os.path.dirname(os.path.abspath(__file__)))
props = {}
for l in open(os.path.join(ROOT, "properties.jsonl")):
    p = json.loads(l); props[p["id"]] = p
checks, claimed = [], set()
for path in sorted(glob.glob(os.path.join(ROOT, "props", "C*.json"))):
    c = json.load(open(path))
    if not c.get("claimed", True):
        continue
    pid = c["id"]; claimed.add(pid)
    m = c.get("manifest", {})
    checks.append({
        "property_id": pid,
        "quick_cmd": f"./check {pid} --tier quick",
        "thorough_cmd": f"./check {pid} --tier thorough",
        "evidence_file": f"/verif/evidence/{pid}.json",
        "replay_cmd_template": f"./check {pid} --replay {{path}}",
        "engine": "lean-proof+correspondence",
        "level_claimed": {"category": "proof", "text": m.get("level_text", ""), "design_ref": m.get("design_ref", f"DESIGN.md section 6, {pid}")},
        "level_note": m.get("level_note", "; ".join(c.get("trusted_base", []))),
        "technique": m.get("technique", "Lean 4 theorems about an executable model + differential correspondence check of the model against the real code + spec oracle on the implementation's observations"),
    })
na = []
na_reasons = json.load(open(os.path.join(ROOT, "props", "not_applicable.json"))) if os.path.exists(os.path.join(ROOT, "props", "not_applicable.json")) else {}
for pid in sorted(props):
    if pid not in claimed:
        na.append({"property_id": pid, "reason": na_reasons.get(pid, "not yet claimed: model, theorems and correspondence check for this property are still being built (see DESIGN.md section 6); no check is registered until it passes on the unchanged tree")})
def hook_commits():
    try:
        out = subprocess.run(["git", "-C", "/repo", "log", "--format=%H %s"], capture_output=True, text=True).stdout
        return [l.split()[0] for l in out.splitlines() if l.split(" ", 1)[1].startswith("verif-hook:")]
    except Exception:
        return []
man = {
    "version": 1,
    "setup_cmd": "./setup.sh",
    "hooks": {"guard": "verif", "enable": "harness module (replace github.com/gofiber/fiber/v3 => /repo) is built with `go build -tags verif`; hook files in /repo carry `//go:build verif`",
              "baseline_off_cmd": "cd /repo && go test -mod=mod -json -vet=off -count=1 -timeout 25m ./...",
              "source_commits": hook_commits(), "add_only": True},
    "engines": [{"name": "lean-proof+correspondence", "path": "/verif/check", "serves_properties": sorted(claimed),
                 "kind_free_text": "Lean 4 (kernel-checked theorems over hand-written executable models, lean/FiberModel) + Go differential harness against /repo (harness/) + python orchestrator (tools/vcheck.py)"}],
    "checks": checks,
    "notes": "Every check: regenerates translator facts (where used), `lake build`s the property theorems, audits axioms (#print axioms) and forbidden tokens, builds the Go harness against /repo's working tree, runs the real code on generated cases, runs the Lean model+spec driver on the same cases, diffs, applies known-findings.json. See DESIGN.md.",
    "not_applicable": na,
}
json.dump(man, open(os.path.join(ROOT, "MANIFEST.json"), "w"), indent=1)
print("claimed:", sorted(claimed))
