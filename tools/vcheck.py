#!/usr/bin/env python3
"""Orchestrator for the Lean-proof checks (see DESIGN.md sections 2 and 3).

  ./check Cxx [--tier quick|thorough] [--seed N] [--replay FILE] [--cases N]

Pipeline per property:
  1. regenerate translator facts from /repo (if the property has any)
  2. lake build the property's theorem modules + driver exe (under a lock)
  3. audit: forbidden-token grep + `#print axioms` of every property theorem
  4. go build the harness against /repo's working tree, run it (real fiber code, in-process)
  5. run the Lean driver on the harness' case file: model observation, spec verdict on the
     implementation's observation, known-finding region tag, branch tags
  6. verdict: known findings / violations / correspondence breaks (with widened search)
  7. evidence/Cxx.json
"""
import argparse, fcntl, hashlib, json, os, re, subprocess, sys, time, glob, shutil

ROOT = os.path.dirname(os.path.dirname(os.path.abspath(__file__)))
LEAN = os.path.join(ROOT, "lean")
HARNESS = os.path.join(ROOT, "harness")
WORK = os.path.join(ROOT, ".work")
BIN = os.path.join(ROOT, ".build")
REPO = os.environ.get("VERIF_REPO", "/repo")      # a scratch worktree may be substituted for mutation testing
ALT = REPO != "/repo"
_RUN_LOCK = None
ALLOWED_AXIOMS = {"propext", "Classical.choice", "Quot.sound"}
FORBIDDEN = re.compile(r"\bsorry\b|\badmit\b|^\s*axiom\s|native_decide|bv_decide|implemented_by|\bunsafe\s|maxHeartbeats\s+0\b|@\[extern")

GOENV = dict(os.environ, GOFLAGS="-mod=mod", GOPROXY="off", GOSUMDB="off", GOTOOLCHAIN="local",
             CGO_ENABLED="0")


def log(*a):
    print("[check]", *a, file=sys.stderr, flush=True)


def sh(cmd, cwd=None, env=None, timeout=None, stdin=None, stdout=subprocess.PIPE):
    try:
        p = subprocess.run(cmd, cwd=cwd, env=env, timeout=timeout, stdin=stdin, stdout=stdout,
                           stderr=subprocess.STDOUT, text=True)
    except subprocess.TimeoutExpired as e:
        # a hung harness / build is a broken correspondence, not a crash of the orchestrator
        out = e.stdout if isinstance(e.stdout, str) else (e.stdout or b"").decode("utf-8", "replace")
        return 124, (out or "") + f"\n[timed out after {timeout} s: {' '.join(map(str, cmd))[:200]}]"
    return p.returncode, (p.stdout or "")


class Lock:
    def __init__(self, name):
        os.makedirs(WORK, exist_ok=True)
        self.path = os.path.join(WORK, name + ".lock")

    def __enter__(self):
        self.f = open(self.path, "w")
        fcntl.flock(self.f, fcntl.LOCK_EX)

    def __exit__(self, *a):
        fcntl.flock(self.f, fcntl.LOCK_UN)
        self.f.close()


def strip_comments(src):
    # remove /- ... -/ (nested) and -- line comments; good enough for the audit grep
    out, i, depth = [], 0, 0
    while i < len(src):
        if src.startswith("/-", i):
            depth += 1; i += 2; continue
        if depth and src.startswith("-/", i):
            depth -= 1; i += 2; continue
        if depth:
            if src[i] == "\n": out.append("\n")
            i += 1; continue
        if src.startswith("--", i):
            while i < len(src) and src[i] != "\n": i += 1
            continue
        out.append(src[i]); i += 1
    return "".join(out)


def lean_sources(cfg):
    files = []
    for d in cfg.get("lean_dirs", []):
        files += sorted(glob.glob(os.path.join(LEAN, d, "**", "*.lean"), recursive=True))
    for f in cfg.get("lean_files", []):
        files.append(os.path.join(LEAN, f))
    files += [os.path.join(LEAN, "FiberModel", "Basic.lean"), os.path.join(LEAN, "FiberModel", "DriverUtil.lean")]
    return files


def audit_tokens(cfg):
    bad = []
    for f in lean_sources(cfg):
        if not os.path.exists(f):
            bad.append(f"{f}: missing"); continue
        for n, line in enumerate(strip_comments(open(f).read()).split("\n"), 1):
            if FORBIDDEN.search(line):
                bad.append(f"{os.path.relpath(f, LEAN)}:{n}: {line.strip()}")
    return bad


def lean_hash(cfg):
    h = hashlib.sha256()
    for f in lean_sources(cfg):
        if os.path.exists(f):
            h.update(open(f, "rb").read())
    return h.hexdigest()[:16]


def restore_facts(cfg):
    """after a VERIF_REPO run: regenerate the facts from /repo so no mutated facts stay in the tree"""
    tr = cfg.get("translator")
    if not tr:
        return
    exe = os.path.join(BIN, "translator-" + cfg["id"].lower())
    if os.path.exists(exe):
        sh([exe, "-repo", "/repo"] + tr["args"], cwd=ROOT, env=GOENV)


def run_translator(cfg, notes):
    tr = cfg.get("translator")
    if not tr:
        return True, []
    if ALT:
        import atexit
        atexit.register(restore_facts, cfg)
    outs = [os.path.join(LEAN, o) for o in tr["outputs"]]
    old = {}
    for o in outs:
        old[o] = open(o).read() if os.path.exists(o) else None
        if os.path.exists(o):
            os.remove(o)
    sub = cfg["id"].lower()
    exe = os.path.join(BIN, "translator-" + sub)
    os.makedirs(BIN, exist_ok=True)
    rc, out = sh(["go", "build", "-o", exe, "./" + sub], cwd=os.path.join(ROOT, "translator"), env=GOENV)
    if rc != 0:
        notes.append("translator build failed: " + out[-2000:])
        return False, []
    rc, out = sh([exe, "-repo", REPO] + tr["args"], cwd=ROOT, env=GOENV)
    if rc != 0:
        notes.append("translator failed: " + out[-2000:])
        return False, []
    changed = []
    for o in outs:
        if not os.path.exists(o):
            notes.append(f"translator did not write {o}")
            return False, []
        if old[o] is not None and old[o] != open(o).read():
            changed.append(os.path.relpath(o, LEAN))
    return True, changed


def lake_build(targets):
    with Lock("lake"):
        rc, out = sh(["lake", "build"] + targets, cwd=LEAN, timeout=3600)
    return rc, out


def audit_axioms(cfg):
    """returns (ok, [{name, axioms}], message)"""
    thms = cfg["theorems"]
    os.makedirs(os.path.join(LEAN, ".audit"), exist_ok=True)
    path = os.path.join(LEAN, ".audit", f"Audit{cfg['id']}.lean")
    with open(path, "w") as f:
        for m in cfg["lean_modules"]:
            f.write(f"import {m}\n")
        for t in thms:
            f.write(f"#print axioms {t}\n")
    rc, out = sh(["lake", "env", "lean", path], cwd=LEAN, timeout=1800)
    res, ok, msgs = [], rc == 0, []
    if rc != 0:
        msgs.append(out[-3000:])
    flat = re.sub(r"\s+", " ", out)
    for t in thms:
        short = t
        m = re.search(r"'" + re.escape(short) + r"' depends on axioms: \[([^\]]*)\]", flat)
        if m:
            ax = [a.strip() for a in m.group(1).split(",") if a.strip()]
        elif re.search(r"'" + re.escape(short) + r"' does not depend on any axioms", flat):
            ax = []
        else:
            ok = False; msgs.append(f"no axiom report for {t}"); ax = ["<missing>"]
        extra = [a for a in ax if a not in ALLOWED_AXIOMS]
        if extra:
            ok = False; msgs.append(f"{t} depends on non-allowed axioms {extra}")
        res.append({"name": t, "axioms": ax})
    return ok, res, "\n".join(msgs)


def build_harness(cfg):
    os.makedirs(BIN, exist_ok=True)
    hdir = HARNESS
    exe = os.path.join(BIN, cfg["harness"] + ("-alt-" + hashlib.md5(REPO.encode()).hexdigest()[:8] if ALT else ""))
    if os.path.exists(exe):
        os.remove(exe)
    if ALT:
        # private copy of the harness module pointing at the substituted repository
        hdir = os.path.join(WORK, cfg["id"] + "-alt", "harness")
        if os.path.exists(hdir):
            shutil.rmtree(hdir)
        shutil.copytree(HARNESS, hdir)
        gm = open(os.path.join(hdir, "go.mod")).read().replace("=> /repo", "=> " + REPO)
        open(os.path.join(hdir, "go.mod"), "w").write(gm)
    # keep go.sum in step with the repository's
    try:
        shutil.copy(os.path.join(REPO, "go.sum"), os.path.join(hdir, "go.sum"))
    except OSError:
        pass
    tags = cfg.get("harness_tags", "verif")
    rc, out = sh(["go", "build", "-tags", tags, "-o", exe, "./cmd/" + cfg["harness"]], cwd=hdir, env=GOENV, timeout=1800)
    return rc, out, exe


def run_harness(cfg, exe, seed, n, tier, outfile, replay=None, timeout=None):
    timeout = timeout or cfg.get("harness_timeout_s", {"quick": 900, "thorough": 3000}).get(tier, 3000)
    cmd = [exe, "-seed", str(seed), "-n", str(n), "-tier", tier, "-out", outfile]
    if replay:
        cmd += ["-replay", replay]
    env = dict(GOENV, GOMEMLIMIT=cfg.get("gomemlimit", "8GiB"))
    return sh(cmd, cwd=WORK, env=env, timeout=timeout)


def run_driver(cfg, casefile, outfile, timeout=3000):
    exe = os.path.join(LEAN, ".lake", "build", "bin", cfg["driver"])
    with open(casefile) as i, open(outfile, "w") as o:
        try:
            p = subprocess.run([exe], stdin=i, stdout=o, stderr=subprocess.PIPE, text=True, timeout=timeout)
        except subprocess.TimeoutExpired:
            return 124, f"driver timed out after {timeout} s"
    return p.returncode, p.stderr


def parse_results(casefile, verdictfile):
    cases, dist = {}, {}
    order = []
    for l in open(casefile):
        l = l.rstrip("\n")
        if l.startswith("case\t"):
            cid = l.split("\t", 2)[1]
            cases[cid] = l; order.append(cid)
        elif l.startswith("dist\t"):
            try: dist = json.loads(l.split("\t", 1)[1])
            except Exception: pass
    verdicts = {}
    for l in open(verdictfile):
        f = l.rstrip("\n").split("\t")
        if len(f) >= 2:
            verdicts[f[0]] = f[1:]
    return cases, order, dist, verdicts


def load_known(pid):
    # known/<pid>.json is the per-property source; known-findings.json is the committed aggregate
    path = os.path.join(ROOT, "known", pid + ".json")
    if not os.path.exists(path):
        return []
    data = json.load(open(path))
    return [f for f in data.get("findings", []) if f.get("property") == pid]


def write_replay(pid, kind, payload):
    os.makedirs(os.path.join(ROOT, "replays"), exist_ok=True)
    h = hashlib.sha256(json.dumps(payload, sort_keys=True).encode()).hexdigest()[:12]
    path = os.path.join(ROOT, "replays", f"{pid}-{kind}-{h}.json")
    with open(path, "w") as f:
        json.dump(payload, f, indent=1)
    return path



HEXRE = re.compile(r"^(?:[0-9a-f]{2})+$")


def _chunks_removed(items):
    """ddmin-style candidates: remove halves, quarters, ..., single items (larger removals first)."""
    n = len(items)
    out, size = [], n // 2
    seen = set()
    while size >= 1:
        for st in range(0, n, size):
            c = tuple(items[:st] + items[st + size:])
            if c not in seen and len(c) < n:
                seen.add(c); out.append(list(c))
        size //= 2
    return out


def shrink_candidates(line, limit=400):
    f = line.split("\t")
    cands = []
    for i in range(2, len(f)):
        v = f[i]
        if v in ("-", "_", ""):
            continue
        for sep in (";", "|", ","):
            if sep in v:
                parts = v.split(sep)
                for c in _chunks_removed(parts):
                    nv = sep.join(c) if c else "-"
                    cands.append(f[:i] + [nv] + f[i + 1:])
                break
        else:
            if HEXRE.match(v) and len(v) >= 2:
                bs = [v[j:j + 2] for j in range(0, len(v), 2)]
                for c in _chunks_removed(bs):
                    cands.append(f[:i] + ["".join(c) if c else "-"] + f[i + 1:])
    return ["\t".join(c) for c in cands[:limit]]


def shrink(cfg, exe, work, tier, line, clause, kid, rounds=25):
    """Generic protocol-level shrinking: drop list elements / ops / bytes while the same spec clause
    still fails on the real code. Every candidate is re-executed by the harness (fresh observation)."""
    cur = line
    key = clause.split(" ")[0]
    for rnd in range(rounds):
        cands = shrink_candidates(cur)
        if not cands:
            break
        rin = os.path.join(work, "shrink_in.txt"); cf = os.path.join(work, "cases_shrink.txt"); vf = os.path.join(work, "verdicts_shrink.txt")
        with open(rin, "w") as fh:
            for j, c in enumerate(cands):
                ff = c.split("\t"); ff[1] = f"k{rnd}.{j}"
                fh.write("\t".join(ff) + "\n")
        for pth in (cf, vf):
            if os.path.exists(pth): os.remove(pth)
        try:
            rc, out = run_harness(cfg, exe, 0, 0, tier, cf, replay=rin, timeout=600)
            if rc != 0 or not os.path.exists(cf): break
            rc, err = run_driver(cfg, cf, vf, timeout=600)
            if rc != 0: break
        except Exception:
            break
        cases, order, dist, verdicts = parse_results(cf, vf)
        nxt = None
        for cid in order:
            v = verdicts.get(cid)
            if not v or len(v) < 3: continue
            if v[1].startswith("S=FAIL:") and v[1][7:].split(" ")[0] == key and (v[2][2:] or "-") == (kid or "-"):
                if nxt is None or len(cases[cid]) < len(nxt):
                    nxt = cases[cid]
        if nxt is None or len(nxt) >= len(cur):
            break
        cur = nxt
    return cur


def clause_key(clause):
    """first word of a spec clause, without a trailing colon: 'table: row 3 differs' -> 'table'"""
    return clause.split(" ")[0].rstrip(":")


def analyse(cfg, cases, order, verdicts, known_ids, known_clauses=None):
    """returns dict with lists of ids: fails (unknown), known (id->list), diffs, bad; tag counts"""
    r = {"fails": [], "known": {}, "diffs": [], "bad": [], "tags": {}, "nontrivial": set(), "ok": 0, "missing": []}
    for cid in order:
        v = verdicts.get(cid)
        if v is None:
            r["missing"].append(cid); continue
        if v[0].startswith("BAD:"):
            r["bad"].append((cid, v[0])); continue
        m, s, k, t = (v + ["", "", "", ""])[:4]
        tags = [x for x in t[2:].split(",") if x]
        for x in tags:
            r["tags"][x] = r["tags"].get(x, 0) + 1
        if any(x.startswith("nt") for x in tags):
            # distinct = distinct input line (id and impl observation excluded is harness-specific;
            # the whole case line minus the id is used, conservative for distinctness)
            r["nontrivial"].add(hashlib.md5(cases[cid].split("\t", 2)[2].encode()).hexdigest())
        failed = s.startswith("S=FAIL")
        kid = k[2:] if k.startswith("K=") else "-"
        if failed:
            # a recorded finding suppresses a failure only inside its region (K=<id> from the driver)
            # AND only for the clause(s) the finding is about; anything else is a new violation
            allowed = (known_clauses or {}).get(kid)
            if kid != "-" and kid in known_ids and (allowed is None or clause_key(s[7:]) in allowed):
                r["known"].setdefault(kid, []).append((cid, s[7:]))
                # the model must still agree with the implementation inside the region
                if m.startswith("M=DIFF"):
                    r["diffs"].append((cid, m[7:]))
            else:
                r["fails"].append((cid, s[7:], kid))
        elif m.startswith("M=DIFF"):
            r["diffs"].append((cid, m[7:]))
        else:
            r["ok"] += 1
    return r


def main():
    ap = argparse.ArgumentParser()
    ap.add_argument("prop")
    ap.add_argument("--tier", default=os.environ.get("VERIF_TIER", "quick"), choices=["quick", "thorough"])
    ap.add_argument("--seed", type=int, default=None)
    ap.add_argument("--cases", type=int, default=None)
    ap.add_argument("--replay", default=None)
    ap.add_argument("--keep", action="store_true")
    a = ap.parse_args()
    pid = a.prop
    t0 = time.time()
    cfgpath = os.path.join(ROOT, "props", pid + ".json")
    if not os.path.exists(cfgpath):
        print(f"unknown property {pid}"); sys.exit(2)
    cfg = json.load(open(cfgpath))
    seed = a.seed if a.seed is not None else int(os.environ.get("VERIF_SEED", cfg.get("seed", 20260929)))
    tier = a.tier
    n = a.cases or cfg["cases"][tier]
    work = os.path.join(WORK, pid + ("-alt" if ALT else ""))
    os.makedirs(work, exist_ok=True)
    # one check per property and work directory at a time: concurrent runs of the same property would
    # overwrite each other's case/verdict files (and, with a translator, the regenerated facts)
    global _RUN_LOCK
    _RUN_LOCK = open(os.path.join(WORK, pid + ".run.lock"), "w")
    fcntl.flock(_RUN_LOCK, fcntl.LOCK_EX)
    notes, violations, known_lines = [], [], []
    known = load_known(pid)
    known_ids = {k["id"] for k in known if k.get("status") == "known"}
    known_clauses = {k["id"]: set(k["clauses"]) for k in known if k.get("status") == "known" and k.get("clauses")}

    # ---- replay mode ---------------------------------------------------------------------
    replay_src = None
    if a.replay:
        rp = json.load(open(a.replay)) if a.replay.endswith(".json") else None
        replay_src = os.path.join(work, "replay_in.txt")
        with open(replay_src, "w") as f:
            if rp is not None:
                for l in rp.get("cases", []):
                    f.write(l + "\n")
            else:
                f.write(open(a.replay).read())

    # ---- 1. translator facts ---------------------------------------------------------------
    ok_tr, facts_changed = run_translator(cfg, notes)
    obligations_broken = []
    if not ok_tr:
        obligations_broken.append("translator: " + "; ".join(notes))

    # ---- 2. build Lean ------------------------------------------------------------------------
    log("lake build", cfg["lean_modules"], cfg["driver"])
    rc, out = lake_build(cfg["lean_modules"] + [cfg["driver"]])
    lean_ok = rc == 0
    if not lean_ok:
        log(out[-4000:])
        errs = [l for l in out.split("\n") if "error" in l][:20]
        obligations_broken.append("lake build failed: " + " | ".join(errs))
        if cfg.get("translator"):
            # the driver may still be buildable without the theorem modules
            rc2, out2 = lake_build([cfg["driver"]])
            if rc2 != 0:
                log("driver build failed too")

    # ---- 3. audit -----------------------------------------------------------------------------
    thm_report = []
    if lean_ok:
        bad = audit_tokens(cfg)
        if bad:
            obligations_broken.append("forbidden tokens: " + "; ".join(bad[:10]))
        ok_ax, thm_report, msg = audit_axioms(cfg)
        if not ok_ax:
            obligations_broken.append("axiom audit: " + msg[-1500:])
        if tier == "thorough" and cfg.get("leanchecker", True):
            rc, out = sh(["lake", "env", "leanchecker"] + cfg["lean_modules"], cwd=LEAN, timeout=3600)
            if rc != 0:
                obligations_broken.append("leanchecker: " + out[-1500:])
            else:
                notes.append("leanchecker re-checked " + ",".join(cfg["lean_modules"]))

    # ---- 4. harness ---------------------------------------------------------------------------
    log("go build harness", cfg["harness"])
    rc, out, exe = build_harness(cfg)
    if rc != 0:
        # The harness uses public API only; if it no longer compiles against /repo the tie is gone.
        log(out[-3000:])
        rp = write_replay(pid, "correspondence", {"property": pid, "kind": "correspondence",
                          "what": "harness does not build against /repo's working tree", "output": out[-4000:]})
        finish(pid, cfg, tier, seed, t0, thm_report, {}, None, {}, [f"harness build failed"], 1, notes, facts_changed, 0)
        print(f"VIOLATION property={pid} replay={rp} no-failing-input-found")
        sys.exit(1)

    def one_run(seed_, n_, tag, replay=None):
        cf = os.path.join(work, f"cases_{tag}.txt"); vf = os.path.join(work, f"verdicts_{tag}.txt")
        for p in (cf, vf):
            if os.path.exists(p): os.remove(p)
        rc, out = run_harness(cfg, exe, seed_, n_, tier, cf, replay=replay)
        if rc != 0 or not os.path.exists(cf):
            return None, f"harness exited {rc}: {out[-3000:]}"
        rc, err = run_driver(cfg, cf, vf)
        if rc != 0:
            return None, f"driver exited {rc}: {err[-3000:]}"
        cases, order, dist, verdicts = parse_results(cf, vf)
        return (cases, order, dist, verdicts, analyse(cfg, cases, order, verdicts, known_ids, known_clauses)), None

    # 4a. known-finding witnesses + corpus first
    corpus_lines = []
    for k in known:
        if k.get("status") == "known":
            for l in k.get("witness_cases", []):
                corpus_lines.append(l)
    corpus_dir = os.path.join(HARNESS, "corpus", pid)
    for p in sorted(glob.glob(os.path.join(corpus_dir, "*.case"))):
        corpus_lines += [l.rstrip("\n") for l in open(p) if l.startswith("case\t")]
    results = []
    if replay_src:
        res, err = one_run(seed, 0, "replay", replay=replay_src)
        if err: print(err); sys.exit(2)
        cases, order, dist, verdicts, an = res
        for cid in order:
            print(cases[cid]); print("   ->", "\t".join(verdicts.get(cid, ["<no verdict>"])))
        sys.exit(1 if an["fails"] else 0)
    if corpus_lines:
        cp = os.path.join(work, "corpus_in.txt")
        with open(cp, "w") as f:
            f.write("\n".join(corpus_lines) + "\n")
        res, err = one_run(seed, 0, "corpus", replay=cp)
        if err:
            notes.append("corpus run: " + err)
            obligations_broken.append("corpus run failed: " + err[:500])
        else:
            results.append(("corpus", res))

    # 4b. the generated run
    log(f"harness run seed={seed} n={n} tier={tier}")
    res, err = one_run(seed, n, "main")
    if err:
        log(err)
        rp = write_replay(pid, "correspondence", {"property": pid, "kind": "correspondence", "what": err})
        finish(pid, cfg, tier, seed, t0, thm_report, {}, None, {}, [err[:300]], 1, notes, facts_changed, 0)
        print(f"VIOLATION property={pid} replay={rp} no-failing-input-found")
        sys.exit(1)
    results.append(("main", res))

    # ---- 6. verdict ---------------------------------------------------------------------------
    def collect(results):
        fails, diffs, knownhits, bad, missing = [], [], {}, [], []
        for tag, (cases, order, dist, verdicts, an) in results:
            fails += [(tag, cases[c], cl, kid) for c, cl, kid in an["fails"]]
            diffs += [(tag, cases[c], mo) for c, mo in an["diffs"]]
            bad += [(tag, cases[c], b) for c, b in an["bad"]]
            missing += [(tag, cases[c]) for c in an["missing"]]
            for kid, lst in an["known"].items():
                knownhits.setdefault(kid, []).extend((cases[c], cl) for c, cl in lst)
        return fails, diffs, knownhits, bad, missing

    fails, diffs, knownhits, bad, missing = collect(results)
    widened = 0
    if (diffs or bad or missing or obligations_broken) and not fails:
        # proof obligation or correspondence broke: search for a concrete failing input
        log(f"correspondence/obligation break ({len(diffs)} diffs, {len(bad)} bad, {len(obligations_broken)} obligations); widening search")
        # progressively larger searches (fresh seeds); stop at the first concrete failing input
        th = cfg["cases"].get("thorough", n)
        for ws, wn in enumerate([n, max(n * 4, th // 4), max(n * 4, th)]):
            res, err = one_run(seed + 7919 * (ws + 1), wn, f"widen{ws}")
            widened += 1
            if err: break
            results.append((f"widen{ws}", res))
            fails, diffs2, knownhits, bad2, missing2 = collect(results)
            if fails: break

    exit_code = 0
    for k in known:
        if k.get("status") != "known":
            continue
        hits = knownhits.get(k["id"], [])
        if hits:
            print(f"KNOWN-FINDING: property={pid} {k['id']} {k['what']} (seen on {len(hits)} case(s) this run)")
            known_lines.append(k["id"])
    if fails:
        tag, line, clause, kid = min(fails, key=lambda x: len(x[1]))
        small = line
        if cfg.get("shrink", True):
            try:
                small = shrink(cfg, exe, work, tier, line, clause, kid)
            except Exception as e:
                notes.append(f"shrink failed: {e}")
        rp = write_replay(pid, "input", {"property": pid, "kind": cfg.get("replay_kind", "input"), "seed": seed,
                          "clause": clause, "cases": [small], "unshrunk": line, "others": [l for _, l, _, _ in fails[1:6]],
                          "n_failing": len(fails),
                          "replay_cmd": f"./check {pid} --replay <this file>"})
        print(f"VIOLATION property={pid} replay={rp}")
        log(f"{len(fails)} failing case(s); first clause: {clause}")
        exit_code = 1
    elif obligations_broken:
        rp = write_replay(pid, "obligation", {"property": pid, "kind": "obligation", "what": obligations_broken,
                          "theorems": cfg["theorems"], "facts_changed": facts_changed,
                          "searched": f"{sum(len(r[1][1]) for r in results)} cases, none violates the spec oracle"})
        print(f"VIOLATION property={pid} replay={rp} no-failing-input-found")
        exit_code = 1
    elif diffs or bad or missing:
        first = diffs[0] if diffs else (bad[0] if bad else missing[0])
        rp = write_replay(pid, "correspondence", {"property": pid, "kind": "correspondence", "seed": seed,
                          "what": "model and implementation disagree; spec oracle found no violating input",
                          "cases": [first[1]], "model_obs": first[2] if len(first) > 2 else None,
                          "n_disagreeing": len(diffs), "n_bad": len(bad), "n_missing": len(missing),
                          "searched": f"{sum(len(r[1][1]) for r in results)} cases"})
        print(f"VIOLATION property={pid} replay={rp} no-failing-input-found")
        exit_code = 1

    # floors
    main_an = dict(results)["main"][4]
    nt = len(main_an["nontrivial"])
    if exit_code == 0 and nt < cfg.get("min_nontrivial", 2):
        log(f"generator floor not met: {nt} non-trivial cases")
        notes.append(f"generator floor not met: {nt}")
        print(f"check {pid}: generator produced only {nt} non-trivial cases (floor {cfg.get('min_nontrivial')}); treating run as failed")
        exit_code = 2

    cases, order, dist, verdicts, an = dict(results)["main"]
    samples = [cases[c] for c in order[:3]]
    cov_extra = {"distribution": dist, "branch_tags": an["tags"],
                 "correspondence": {"cases": sum(len(r[1][1]) for r in results), "disagreements": len(diffs)},
                 "spec_oracle": {"evaluated": sum(len(r[1][1]) for r in results), "failures": len(fails),
                                 "known_finding_hits": {k: len(v) for k, v in knownhits.items()}},
                 "widened_runs": widened}
    finish(pid, cfg, tier, seed, t0, thm_report, cov_extra, samples, an, obligations_broken, 1 if exit_code == 1 else 0,
           notes, facts_changed, nt)
    if not a.keep and exit_code == 0:
        for p in glob.glob(os.path.join(work, "*_widen*.txt")):
            os.remove(p)
    sys.exit(exit_code)


def finish(pid, cfg, tier, seed, t0, thm_report, cov_extra, samples, an, broken, violations, notes, facts_changed, nt):
    os.makedirs(os.path.join(ROOT, "evidence"), exist_ok=True)
    n_ob = len(cfg["theorems"])
    discharged = len([t for t in thm_report if "<missing>" not in t["axioms"] and all(a in ALLOWED_AXIOMS for a in t["axioms"])]) if not any(
        b.startswith("lake build") for b in broken) else 0
    ev = {
        "property_id": pid, "tier": tier, "seed": seed, "level": "proof",
        "coverage": {
            "obligations": n_ob, "discharged": discharged,
            "checker_cmd": f"cd lean && lake build {' '.join(cfg['lean_modules'])} && lake env lean .audit/Audit{pid}.lean   # #print axioms on every property theorem",
            "trusted_base": cfg.get("trusted_base", []),
            "theorems": thm_report,
            "theorem_statements": cfg.get("theorem_notes", {}),
            "partial": cfg.get("partial", []),
            "lean_sources_sha256_16": lean_hash(cfg),
            "translator_facts_changed": facts_changed,
            "obligations_broken": broken,
            "evaluations": (cov_extra.get("correspondence", {}).get("cases", 0) if cov_extra else 0),
            "distinct_nontrivial": nt,
            "rule": cfg.get("rule", ""),
            "samples": samples or [],
            "exhaustive": False,
            **(cov_extra or {}),
        },
        "assumptions": cfg.get("assumptions", []) + notes,
        "wall_s": round(time.time() - t0, 2),
        "violations": violations,
    }
    evpath = os.path.join(ROOT, "evidence", pid + ".json") if not ALT else os.path.join(WORK, pid + "-alt", "evidence.json")
    with open(evpath, "w") as f:
        json.dump(ev, f, indent=1)


if __name__ == "__main__":
    main()
