#!/usr/bin/env python3
"""Run every claimed check (quick by default) in parallel; print a summary; validate evidence files."""
import json, glob, os, subprocess, sys, time, concurrent.futures as cf
ROOT = os.path.dirname(os.path.dirname(os.path.abspath(__file__)))
tier = sys.argv[sys.argv.index("--tier") + 1] if "--tier" in sys.argv else "quick"
seed = sys.argv[sys.argv.index("--seed") + 1] if "--seed" in sys.argv else None
jobs = int(sys.argv[sys.argv.index("-j") + 1]) if "-j" in sys.argv else 6
only = [a for a in sys.argv[1:] if a.startswith("C")]
pids = []
for p in sorted(glob.glob(os.path.join(ROOT, "props", "C*.json"))):
    c = json.load(open(p))
    if (c.get("claimed", True) or "--all" in sys.argv) and (not only or c["id"] in only):
        pids.append(c["id"])
def run(pid):
    t0 = time.time()
    cmd = [os.path.join(ROOT, "check"), pid, "--tier", tier] + (["--seed", seed] if seed else [])
    p = subprocess.run(cmd, cwd=ROOT, stdout=subprocess.PIPE, stderr=subprocess.PIPE, text=True)
    lines = [l for l in p.stdout.splitlines() if l.startswith(("VIOLATION", "KNOWN-FINDING", "check "))]
    return pid, p.returncode, round(time.time() - t0, 1), lines, p.stderr[-800:] if p.returncode not in (0,) else ""
bad = 0
with cf.ThreadPoolExecutor(jobs) as ex:
    for pid, rc, wall, lines, err in ex.map(run, pids):
        print(f"{pid} exit={rc} {wall}s", *lines, sep="\n   " if lines else " ")
        if rc != 0:
            bad += 1; print(err)
try:
    r = subprocess.run(["python3-vt", "-c", """
import json,jsonschema,glob,sys
s=json.load(open('/root/.vp/EVIDENCE.schema.json')); m=json.load(open('/verif/MANIFEST.json'))
jsonschema.validate(m, json.load(open('/root/.vp/MANIFEST.schema.json')))
for c in m['checks']:
    try:
        e=json.load(open(c['evidence_file'])); jsonschema.validate(e,s)
        cov=e['coverage']; assert cov['discharged']==cov['obligations'], 'discharged!=obligations'
        print('evidence ok', c['property_id'], e['tier'], 'obl', cov['obligations'], 'evals', cov.get('evaluations'), 'nt', cov.get('distinct_nontrivial'), 'wall', e['wall_s'])
    except Exception as ex:
        print('EVIDENCE PROBLEM', c['property_id'], str(ex)[:200])
"""], capture_output=True, text=True)
    print(r.stdout, r.stderr[-500:])
except Exception as e:
    print("validation skipped:", e)
sys.exit(1 if bad else 0)
