#!/usr/bin/env python3
"""Confirm and run a seeded change.

  tools/seedrun.py import <worktree> <seed-id> <Cxx> "<needs>"   # harvest patch+demo from a sub-agent's worktree into seeded/<seed-id>/
  tools/seedrun.py confirm <seed-id>      # in a fresh scratch worktree: builds, existing tests of touched packages pass,
                                          # demo fails with the change and passes without it
  tools/seedrun.py check <seed-id> [--tier quick]   # run ./check for the property against the changed tree (VERIF_REPO)
  tools/seedrun.py all                     # check every seeded change, print the catch matrix

Nothing is ever applied to /repo itself: everything happens in scratch worktrees under /tmp that are removed afterwards.
"""
import json, os, subprocess, sys, shutil, time, glob

ROOT = os.path.dirname(os.path.dirname(os.path.abspath(__file__)))
SEEDED = os.path.join(ROOT, "seeded")
ENV = dict(os.environ, GOFLAGS="-mod=mod", GOPROXY="off", GOSUMDB="off", GOTOOLCHAIN="local")
OFFLINE_FAILS = {"Test_Proxy_DoRedirects_RestoreOriginalURL", "Test_Proxy_DoRedirects_TooManyRedirects",
                 "Test_Proxy_Do_WithRealURL", "Test_Proxy_Do_WithRedirect"}


def sh(cmd, cwd=None, timeout=3000):
    p = subprocess.run(cmd, cwd=cwd, env=ENV, stdout=subprocess.PIPE, stderr=subprocess.STDOUT, text=True, errors="replace", timeout=timeout, shell=isinstance(cmd, str))
    return p.returncode, p.stdout


def worktree(name):
    path = f"/tmp/seedwt-{name}"
    if os.path.exists(path):
        sh(["git", "-C", "/repo", "worktree", "remove", "--force", path])
        shutil.rmtree(path, ignore_errors=True)
    rc, out = sh(["git", "-C", "/repo", "worktree", "add", "-q", "--detach", path, "HEAD"])
    if rc != 0:
        raise SystemExit(out)
    return path


def rm_worktree(path):
    sh(["git", "-C", "/repo", "worktree", "remove", "--force", path])
    shutil.rmtree(path, ignore_errors=True)
    sh(["git", "-C", "/repo", "worktree", "prune"])


def cmd_import(wt, sid, pid, needs):
    d = os.path.join(SEEDED, sid)
    os.makedirs(d, exist_ok=True)
    rc, diff = sh(["git", "-C", wt, "diff", "HEAD", "--", "."])
    open(os.path.join(d, "patch.diff"), "w").write(diff)
    rc, out = sh(["git", "-C", wt, "status", "--porcelain", "--untracked-files=all"])
    demos = []
    for l in out.splitlines():
        if l.startswith("??"):
            rel = l[3:].strip()
            if rel.endswith("_test.go"):
                dst = os.path.join(d, "demo", rel)
                os.makedirs(os.path.dirname(dst), exist_ok=True)
                shutil.copy(os.path.join(wt, rel), dst)
                demos.append(rel)
    meta = {"id": sid, "property": pid, "needs": needs, "demo_files": demos, "base_commit": sh(["git", "-C", wt, "rev-parse", "HEAD"])[1].strip()}
    json.dump(meta, open(os.path.join(d, "meta.json"), "w"), indent=1)
    print("imported", sid, "files changed:", [l for l in diff.splitlines() if l.startswith("+++ ")], "demo:", demos)


def touched_pkgs(diff):
    pk = set()
    for l in diff.splitlines():
        if l.startswith("+++ b/"):
            pk.add("./" + os.path.dirname(l[6:]) if os.path.dirname(l[6:]) else ".")
    return sorted(pk)


def run_tests(wt, pkgs, run=None):
    cmd = ["go", "test", "-mod=mod", "-vet=off", "-count=1", "-timeout", "20m"] + (["-run", run] if run else []) + pkgs
    rc, out = sh(cmd, cwd=wt)
    fails = sorted({l.split()[2] for l in out.splitlines() if l.startswith("--- FAIL:")})
    build_fail = "[build failed]" in out or "cannot find package" in out
    return rc, fails, build_fail, out


def cmd_confirm(sid, full=False):
    d = os.path.join(SEEDED, sid)
    meta = json.load(open(os.path.join(d, "meta.json")))
    diff = open(os.path.join(d, "patch.diff")).read()
    wt = worktree(sid)
    res = {}
    try:
        rc, out = sh(["git", "apply", os.path.join(d, "patch.diff")], cwd=wt)
        if rc != 0:
            rc, out2 = sh(["git", "apply", "--3way", os.path.join(d, "patch.diff")], cwd=wt)
            if rc == 0:
                # rebased onto the current HEAD (a later fix: commit touched the same file): store the rebased patch
                sh(["git", "reset", "-q"], cwd=wt)
                _, newdiff = sh(["git", "diff", "HEAD", "--", "."], cwd=wt)
                open(os.path.join(d, "patch.diff"), "w").write(newdiff); diff = newdiff
                res["rebased"] = True
        if rc != 0:
            res["apply"] = out; raise RuntimeError("patch does not apply to current /repo HEAD: " + out)
        rc, out = sh(["go", "build", "./..."], cwd=wt)
        res["builds"] = rc == 0
        pkgs = touched_pkgs(diff) if not full else ["./..."]
        rc, fails, bf, out = run_tests(wt, pkgs)
        res["existing_tests_pkgs"] = pkgs
        res["existing_tests_failures_with_change"] = [f for f in fails if f not in OFFLINE_FAILS]
        res["existing_tests_build_failed"] = bf
        # demo with the change
        demo_pk = set()
        for rel in meta["demo_files"]:
            dst = os.path.join(wt, rel); os.makedirs(os.path.dirname(dst), exist_ok=True)
            shutil.copy(os.path.join(d, "demo", rel), dst)
            demo_pk.add("./" + os.path.dirname(rel) if os.path.dirname(rel) else ".")
        runpat = meta.get("demo_run", "Seed|seed|Demo")
        rc1, f1, bf1, out1 = run_tests(wt, sorted(demo_pk), run=runpat)
        res["demo_fails_with_change"] = rc1 != 0 and not bf1
        res["demo_failed_tests"] = f1
        # demo without the change
        sh(["git", "apply", "-R", os.path.join(d, "patch.diff")], cwd=wt)
        rc2, f2, bf2, out2 = run_tests(wt, sorted(demo_pk), run=runpat)
        res["demo_passes_without_change"] = rc2 == 0
        if rc2 != 0:
            res["demo_without_output"] = out2[-1500:]
        res["confirmed"] = bool(res["builds"] and not res["existing_tests_failures_with_change"] and not bf
                                and res["demo_fails_with_change"] and res["demo_passes_without_change"])
        res["ran"] = [f"git apply patch.diff; go build ./...; go test {' '.join(pkgs)}; go test -run '{runpat}' {' '.join(sorted(demo_pk))} (with / without the change)"]
    except RuntimeError as e:
        res["error"] = str(e); res["confirmed"] = False
    finally:
        rm_worktree(wt)
    meta["confirm"] = res
    meta["confirmed_at_repo_head"] = sh(["git", "-C", "/repo", "rev-parse", "HEAD"])[1].strip()
    json.dump(meta, open(os.path.join(d, "meta.json"), "w"), indent=1)
    print(sid, "confirmed" if res["confirmed"] else "NOT CONFIRMED", json.dumps({k: v for k, v in res.items() if k not in ("ran",)})[:600])
    return res["confirmed"]


def cmd_check(sid, tier="quick", props=None):
    d = os.path.join(SEEDED, sid)
    meta = json.load(open(os.path.join(d, "meta.json")))
    wt = worktree(sid + "-chk")
    out_all = {}
    try:
        rc, out = sh(["git", "apply", os.path.join(d, "patch.diff")], cwd=wt)
        if rc != 0:
            print(sid, "patch does not apply:", out); return None
        for pid in (props or [meta["property"]]):
            t0 = time.time()
            env = dict(ENV, VERIF_REPO=wt)
            p = subprocess.run([os.path.join(ROOT, "check"), pid, "--tier", tier], cwd=ROOT, env=env, stdout=subprocess.PIPE, stderr=subprocess.PIPE, text=True, timeout=7200)
            vio = [l for l in p.stdout.splitlines() if l.startswith("VIOLATION")]
            verdict = "missed" if p.returncode == 0 and not vio else ("caught-with-input" if vio and "no-failing-input-found" not in vio[0] else ("caught-no-input" if vio else f"error-exit-{p.returncode}"))
            out_all[pid] = {"verdict": verdict, "exit": p.returncode, "line": vio[0] if vio else "", "wall_s": round(time.time() - t0, 1), "tier": tier}
            print(sid, pid, verdict, vio[0] if vio else "", f"({out_all[pid]['wall_s']}s)")
            if p.returncode not in (0, 1):
                print(p.stdout[-1500:], p.stderr[-1500:])
    finally:
        rm_worktree(wt)
        shutil.rmtree(os.path.join(ROOT, ".work", meta["property"] + "-alt"), ignore_errors=True)
    meta.setdefault("check_results", {}).update(out_all)
    json.dump(meta, open(os.path.join(d, "meta.json"), "w"), indent=1)
    return out_all


def main():
    a = sys.argv[1:]
    if not a:
        print(__doc__); return
    if a[0] == "import":
        cmd_import(a[1], a[2], a[3], a[4] if len(a) > 4 else "")
    elif a[0] == "intake":
        # intake <worktree> <seed-id> <Cxx> "<needs>": import, confirm, remove the sub-agent's worktree, check
        cmd_import(a[1], a[2], a[3], a[4] if len(a) > 4 else "")
        ok = cmd_confirm(a[2])
        rm_worktree(a[1])
        if ok:
            cmd_check(a[2])
    elif a[0] == "confirm":
        cmd_confirm(a[1], full="--full" in a)
    elif a[0] == "check":
        tier = a[a.index("--tier") + 1] if "--tier" in a else "quick"
        cmd_check(a[1], tier)
    elif a[0] == "all":
        tier = a[a.index("--tier") + 1] if "--tier" in a else "quick"
        rows = []
        for m in sorted(glob.glob(os.path.join(SEEDED, "*", "meta.json"))):
            sid = os.path.basename(os.path.dirname(m))
            r = cmd_check(sid, tier)
            rows.append((sid, r))
        print("\n== catch matrix ==")
        for sid, r in rows:
            print(sid, {k: v["verdict"] for k, v in (r or {}).items()})


if __name__ == "__main__":
    main()
