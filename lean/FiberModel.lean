-- Root of the `FiberModel` library: shared vocabulary only. Property modules are built by name.
import FiberModel.Basic
import FiberModel.DriverUtil
