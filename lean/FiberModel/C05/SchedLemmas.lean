import FiberModel.C05.Sched
import FiberModel.C05.Lemmas
/-
C05 — helper lemmas for the schedule theorems: every request in flight has a twin that is served
alone on a fresh application; each atomic step keeps the two in agreement up to garbage (spare
capacity, stale `values`, which pooled object was handed out) and keeps everything in the pools clean.
-/
namespace C05
open B

/-! ### running the rest of a request without interruption -/

theorem complete_enter (F : RFacts) (g : Flight) (reds : List Redirect) (p : Nat) :
    (g.enter F reds p).1.complete F (g.enter F reds p).2 p = g.complete F reds p := by
  unfold Flight.complete
  rw [enter_of_entered F (enter_entered F g reds p)]

theorem complete_act (F : RFacts) (g : Flight) (he : g.entered = true) (reds : List Redirect) (p : Nat) :
    (g.stepAct reds p).1.complete F (g.stepAct reds p).2 p = g.complete F reds p := by
  unfold Flight.complete
  rw [enter_of_entered F (by rw [stepAct_entered]; exact he), enter_of_entered F he]
  cases h : g.todo with
  | nil => rw [stepAct_nil h]
  | cons a rest =>
    rw [stepAct_cons h]
    simp only [h, runScript, List.foldl_cons]
    rfl

theorem complete_done (F : RFacts) (g : Flight) (he : g.entered = true) (ht : g.todo = []) (reds : List Redirect) (p : Nat) :
    (g.complete F reds p).2.2 = (g.retire F reds p).2.2 := by
  unfold Flight.complete
  rw [enter_of_entered F he]
  simp only [ht, runScript, List.foldl_nil, Flight.retire, Flight.resp]
  cases g.out <;> rfl

/-! ### the invariant of the concurrent world -/

/-- the observation of a request served alone by a fresh application -/
def obsFresh (F : RFacts) (rq : Req) : Obs := (serveOn F Ctx.fresh [] rq 0).2.2

theorem probeFresh_eq (F : RFacts) (rq : Req) (h : rq.bad = 0) : probeFresh F rq = some (obsFresh F rq) := by
  simp [probeFresh, step, h, takeAt, World.empty, obsFresh]

/-- a request in flight agrees (up to garbage) with a twin whose uninterrupted completion is the
    request's service by a fresh application -/
def FlightOK (F : RFacts) (f : Flight) : Prop :=
  f.orig.bad = 0 ∧ ∃ g gr, Twin f g ∧ PoolClean gr ∧ (g.complete F gr 0).2.2 = obsFresh F f.orig

structure CWorld.Inv (F : RFacts) (w : CWorld) : Prop where
  ctxs : ∀ c ∈ w.ctxs, c.Clean
  reds : PoolClean w.reds
  flights : ∀ p ∈ w.flights, FlightOK F p.2
  finished : ∀ x ∈ w.finished, x.2.1.bad = 0 ∧ x.2.2 = obsFresh F x.2.1

theorem CWorld.empty_inv (F : RFacts) : CWorld.empty.Inv F :=
  ⟨by simp [CWorld.empty], by simp [CWorld.empty, PoolClean], by simp [CWorld.empty], by simp [CWorld.empty]⟩

theorem lookup_mem {fs : List (Nat × Flight)} {id : Nat} {f : Flight} (h : fs.lookup id = some f) : (id, f) ∈ fs := by
  induction fs with
  | nil => simp [List.lookup] at h
  | cons x xs ih =>
    obtain ⟨k, v⟩ := x
    simp only [List.lookup] at h
    split at h
    · rename_i heq
      have : id = k := by simpa using heq
      simp at h
      subst h; subst this
      exact List.mem_cons_self
    · exact List.mem_cons_of_mem _ (ih h)

theorem setFlight_mem {fs : List (Nat × Flight)} {id : Nat} {f : Flight} {p : Nat × Flight}
    (h : p ∈ setFlight fs id f) : p = (id, f) ∨ p ∈ fs := by
  unfold setFlight at h
  obtain ⟨q, hq, rfl⟩ := List.mem_map.mp h
  by_cases hk : q.1 = id
  · left; simp [hk]
  · right; simpa [hk] using hq

theorem dropFlight_mem {fs : List (Nat × Flight)} {id : Nat} {p : Nat × Flight}
    (h : p ∈ dropFlight fs id) : p ∈ fs := (List.mem_filter.mp h).1

theorem flightOK_acquire {F : RFacts} (ok : F.ok = true) (rq : Req) (hb : rq.bad = 0) {c0 : Ctx} (h : c0.Clean) :
    FlightOK F (Flight.acquire F c0 rq) := by
  refine ⟨?_, Flight.acquire F Ctx.fresh rq, [], acquire_twin ok rq h Ctx.fresh_clean, by simp [PoolClean], ?_⟩
  · simpa [Flight.acquire] using hb
  · rfl

theorem flightOK_enter {F : RFacts} (ok : F.ok = true) {f : Flight} (h : FlightOK F f) {reds : List Redirect}
    (hp : PoolClean reds) (p : Nat) :
    FlightOK F (f.enter F reds p).1 ∧ PoolClean (f.enter F reds p).2 := by
  obtain ⟨_, _, _, ⟨_, _, _, _, _, d6⟩⟩ := ok_fields ok
  obtain ⟨hb, g, gr, t, hg, hc⟩ := h
  have e := enter_twin F d6 t reds gr p 0 hp hg
  refine ⟨⟨by rw [enter_orig]; exact hb, (g.enter F gr 0).1, (g.enter F gr 0).2, e.1, e.2.2, ?_⟩, e.2.1⟩
  rw [complete_enter, enter_orig]; exact hc

theorem flightOK_act {F : RFacts} {f : Flight} (h : FlightOK F f) {reds : List Redirect}
    (hp : PoolClean reds) (p : Nat) :
    FlightOK F (f.stepAct reds p).1 ∧ PoolClean (f.stepAct reds p).2 := by
  obtain ⟨hb, g, gr, t, hg, hc⟩ := h
  have e := stepAct_twin t reds gr p 0 hp hg
  refine ⟨⟨by rw [stepAct_orig]; exact hb, (g.stepAct gr 0).1, (g.stepAct gr 0).2, e.1, e.2.2, ?_⟩, e.2.1⟩
  rw [stepAct_orig]
  by_cases he : g.entered = true
  · rw [complete_act F g he]; exact hc
  · have he0 : f.entered = false := by rw [t.entered]; simpa using he
    have h2 : g.todo = [] := t.todo ▸ t.todoNil he0
    have : g.stepAct gr 0 = (g, gr) := by unfold Flight.stepAct; rw [h2]
    rw [this]; exact hc

theorem cstep_inv {F : RFacts} (ok : F.ok = true) {w : CWorld} (h : w.Inv F) (e : Ev) : (cstep F w e).Inv F := by
  cases e with
  | acquire id rq pc =>
    simp only [cstep]
    have t := takeAt_mem w.ctxs pc.ctx Ctx.fresh Ctx.Clean Ctx.fresh_clean h.ctxs
    split
    · exact h
    · split
      · have sb := serveBad_clean ok (takeAt w.ctxs pc.ctx Ctx.fresh).1 h.reds rq pc.red
        refine ⟨?_, sb.2, h.flights, h.finished⟩
        intro c hc
        rcases List.mem_cons.mp hc with rfl | hc
        · exact sb.1
        · exact t.2 c hc
      · rename_i hb
        have hb : rq.bad = 0 := by simpa using hb
        refine ⟨t.2, h.reds, ?_, h.finished⟩
        intro p hp
        rcases List.mem_cons.mp hp with rfl | hp
        · exact flightOK_acquire ok rq hb t.1
        · exact h.flights p hp
  | enter id p =>
    simp only [cstep]
    split
    · exact h
    · rename_i f hf
      have hf' := h.flights _ (lookup_mem hf)
      have e := flightOK_enter ok hf' h.reds p
      refine ⟨h.ctxs, e.2, ?_, h.finished⟩
      intro q hq
      rcases setFlight_mem hq with rfl | hq
      · exact e.1
      · exact h.flights q hq
  | act id p =>
    simp only [cstep]
    split
    · exact h
    · rename_i f hf
      have hf' := h.flights _ (lookup_mem hf)
      have e := flightOK_act hf' h.reds p
      refine ⟨h.ctxs, e.2, ?_, h.finished⟩
      intro q hq
      rcases setFlight_mem hq with rfl | hq
      · exact e.1
      · exact h.flights q hq
  | done id pr =>
    simp only [cstep]
    split
    · exact h
    · rename_i f hf
      split
      · rename_i hready
        simp only [Bool.and_eq_true, List.isEmpty_iff] at hready
        obtain ⟨hb, g, gr, t, hg, hc⟩ := h.flights _ (lookup_mem hf)
        have rc := retire_clean ok f h.reds pr
        refine ⟨?_, rc.2, fun q hq => h.flights q (dropFlight_mem hq), ?_⟩
        · intro c hc
          rcases List.mem_cons.mp hc with rfl | hc
          · exact rc.1
          · exact h.ctxs c hc
        · intro x hx
          rcases List.mem_cons.mp hx with rfl | hx
          · refine ⟨hb, ?_⟩
            simp only
            rw [retire_obs F t w.reds gr pr 0, ← complete_done F g (t.entered ▸ hready.1) (t.todo ▸ hready.2) gr 0, hc]
          · exact h.finished x hx
      · exact h
  | abort id pr =>
    simp only [cstep]
    split
    · exact h
    · rename_i f hf
      have rc := retire_clean ok f h.reds pr
      refine ⟨?_, rc.2, fun q hq => h.flights q (dropFlight_mem hq), h.finished⟩
      intro c hc
      rcases List.mem_cons.mp hc with rfl | hc
      · exact rc.1
      · exact h.ctxs c hc
  | gc i j =>
    simp only [cstep]
    exact ⟨fun c hc => h.ctxs c (List.mem_of_mem_eraseIdx hc), fun r hr => h.reds r (List.mem_of_mem_eraseIdx hr),
           h.flights, h.finished⟩

theorem runSched_inv {F : RFacts} (ok : F.ok = true) (evs : List Ev) {w : CWorld} (h : w.Inv F) :
    (runSched F w evs).Inv F := by
  induction evs generalizing w with
  | nil => exact h
  | cons e rest ih => exact ih (cstep_inv ok h e)

/-! ### a sequential step is the schedule in which the request runs alone -/

theorem complete_of_done (F : RFacts) (g : Flight) (he : g.entered = true) (ht : g.todo = []) (reds : List Redirect) (p : Nat) :
    g.complete F reds p = g.retire F reds p := by
  unfold Flight.complete
  rw [enter_of_entered F he]
  simp only [ht, runScript, List.foldl_nil]
  rfl

theorem stepAct_todo_length (f : Flight) (reds : List Redirect) (p : Nat) :
    (f.stepAct reds p).1.todo.length = f.todo.length - 1 := by
  cases h : f.todo with
  | nil => rw [stepAct_nil h, h]; rfl
  | cons a rest => rw [stepAct_cons h]; simp

theorem setFlight_single (id : Nat) (f f' : Flight) : setFlight [(id, f)] id f' = [(id, f')] := by
  simp [setFlight]

theorem lookup_single (id : Nat) (f : Flight) : ([(id, f)] : List (Nat × Flight)).lookup id = some f := by
  simp [List.lookup]

/-- `n` handler steps of the only request in flight, `n` at least the length of what is left of its
    script: the request ends up ready to retire, and retiring it is what `complete` computes. -/
theorem acts_alone (F : RFacts) (cs : List Ctx) (fin : List (Nat × Req × Obs)) (id p : Nat) (n : Nat) :
    ∀ (f : Flight) (reds : List Redirect), f.entered = true → f.todo.length ≤ n →
    ∃ f' X, runSched F ⟨cs, reds, [(id, f)], fin⟩ (List.replicate n (.act id p)) = ⟨cs, X, [(id, f')], fin⟩ ∧
      f'.entered = true ∧ f'.todo = [] ∧ f'.orig = f.orig ∧ f'.complete F X p = f.complete F reds p := by
  induction n with
  | zero =>
    intro f reds he hl
    exact ⟨f, reds, rfl, he, List.length_eq_zero_iff.mp (Nat.le_zero.mp hl), rfl, rfl⟩
  | succ n ih =>
    intro f reds he hl
    have he1 : (f.stepAct reds p).1.entered = true := by rw [stepAct_entered]; exact he
    have hl1 : (f.stepAct reds p).1.todo.length ≤ n := by rw [stepAct_todo_length]; omega
    obtain ⟨f', X, hrun, h1, h2, h3, h4⟩ := ih (f.stepAct reds p).1 (f.stepAct reds p).2 he1 hl1
    refine ⟨f', X, ?_, h1, h2, by rw [h3, stepAct_orig], by rw [h4, complete_act F f he]⟩
    rw [List.replicate_succ, runSched, List.foldl_cons]
    simp only [cstep, lookup_single, setFlight_single]
    exact hrun

theorem acquire_rq {F : RFacts} (ok : F.ok = true) (c0 : Ctx) (rq : Req) : (Flight.acquire F c0 rq).rq = rq := by
  obtain ⟨⟨a1, _⟩, _, _, ⟨d1, _⟩⟩ := ok_fields ok
  simp [Flight.acquire, d1, reset, a1]

theorem enter_todo_le {F : RFacts} (f : Flight) (he : f.entered = false) (reds : List Redirect) (p : Nat) :
    (f.enter F reds p).1.todo.length ≤ f.todo.length + f.rq.script.length := by
  by_cases ho : f.out = .notImplemented
  · rw [enter_notImpl F he ho]; simp
  · rw [enter_run F he ho]
    cases f.out <;> simp

/-- the concurrent world with nobody in flight -/
def World.toC (w : World) (fin : List (Nat × Req × Obs)) : CWorld := ⟨w.ctxs, w.reds, [], fin⟩

/-- events about a request that is not in flight change nothing -/
theorem cstep_absent (F : RFacts) (w : CWorld) (id p : Nat) (h : w.flights.lookup id = none) :
    cstep F w (.enter id p) = w ∧ cstep F w (.act id p) = w ∧ cstep F w (.done id p) = w ∧ cstep F w (.abort id p) = w := by
  simp [cstep, h]

theorem runSched_append (F : RFacts) (w : CWorld) (a b : List Ev) :
    runSched F w (a ++ b) = runSched F (runSched F w a) b := by
  simp [runSched, List.foldl_append]

theorem acts_absent (F : RFacts) (w : CWorld) (id p : Nat) (h : w.flights.lookup id = none) (n : Nat) :
    runSched F w (List.replicate n (.act id p)) = w := by
  induction n with
  | zero => rfl
  | succ n ih => rw [List.replicate_succ, runSched, List.foldl_cons, (cstep_absent F w id p h).2.1]; exact ih

theorem soloEvents_eq (id : Nat) (rq : Req) (pk : Pick) :
    soloEvents id rq pk = [.acquire id rq pk, .enter id pk.red] ++ (List.replicate rq.script.length (.act id pk.red) ++ [.done id pk.red]) := by
  simp [soloEvents, List.map_const']

end C05
