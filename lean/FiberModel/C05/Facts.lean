import FiberModel.C05.Model
import FiberModel.Generated.C05Facts
/-
C05 — the digest of the regenerated tables the model runs with (shared by the driver and the theorems).
-/
namespace C05

def theFacts : RFacts := RFacts.ofTables Facts.ctxFields Facts.redirectFields Facts.sendFileCompared Facts.lifecycle

end C05
