/-
C05 — region of known finding K1 (found by the extended application, seeds 1 and 2 of the deepening run).

ctx.go `Path(override)` re-derives `c.path` / `c.detectionPath` in place (`configDependentPaths`:
`c.path = append(c.path[:0], c.pathOriginal...)`), while the route parameters in `c.values` are substrings
of that very buffer (router.go `next`: `route.match(UnsafeString(c.detectionPath), UnsafeString(c.path), &c.values)`).
Whether the append overwrites the bytes the parameters point at or moves to a new array depends on the
CAPACITY of `c.path`, which is never reset and grows with the longest path the pooled context has served:
after a history with a long path, `c.Path("/p/secret/guest")` inside the handler of `GET /zz/r` (route `/+`)
turns `c.Params("+")` from `zz/r` into `p/se`; on a fresh app (small buffer, the append reallocates) it stays
`zz/r`. What shows through is the request's OWN overridden path, never bytes of an earlier request; the history
decides only whether the stale parameter view is overwritten. A repair (copying the parameters out before
rewriting the buffers, or giving `c.path` a fresh array on override) is small but changes the zero-allocation
contract of `Params` and is C06's subject (values are views into reused buffers) — recorded, not repaired.

Region, as narrow as the defect: the PROBE's handler reads parameters (`ob`) after a path override (`pa`) with
no re-routing in between (`rr` / `nx` leave the handler and the re-entered handler sees freshly matched
parameters; `pn` / `ee` end the handler). The driver additionally requires that nothing but the parameter
entries differs (modelled vector: only the `params=` field; full vector: only `Params(…)` / `Bind.URI`), so any
other history dependence inside the region is still reported, and the raw-reply clause is never suppressed.
The Lean model has no `Path(override)` action (extended application = outside the model): no theorem carries
a `K1` hypothesis.
-/
namespace C05.Known

/-- ops of the probe's script, in order -/
def K1 (ops : List String) : Bool :=
  let rec go (armed : Bool) : List String → Bool
    | [] => false
    | o :: rest =>
      if o == "ob" then armed
      else if o == "pa" then go true rest
      else if o == "rr" || o == "nx" || o == "pn" || o == "ee" then go false rest
      else go armed rest
  go false ops

example : K1 ["wi", "pa", "bq", "in", "ob", "to"] = true := by decide
example : K1 ["pa", "rr", "ob"] = false := by decide
example : K1 ["ob", "pa"] = false := by decide

end C05.Known
