import FiberModel.C05.Lemmas
import FiberModel.C05.SchedLemmas
import FiberModel.C05.Values
import FiberModel.C05.Facts
import FiberModel.C05.StoreLemmas
/-
C05 — property theorems.

The model (`Model.lean`) recycles contexts and Redirect objects exactly as the regenerated table
(`Generated/C05Facts.lean`, re-extracted from ctx.go / redirect.go / ctx_interface.go / router.go on
every check run) says `Reset` / `release` / the life-cycle calls do. `fields_reset_or_overwritten`
is the obligation over that table (closed by `decide` over the WHOLE table: a new field of
`DefaultCtx`, or a dropped assignment in `Reset` / `release` / `Redirect.release`, or a dropped wipe
in the flash decoder breaks it); the other theorems hold for every table that meets it.
-/
namespace C05
open B

/-- Fields that are set once by `NewDefaultCtx` and never written again. -/
def constantFields : List String := ["app", "req", "res"]

/-- A field of the pooled context cannot carry anything from one request into the next when it is
    assigned by `Reset`, or emptied by `release`, or constant, or `values` with the matcher shaped so
    that slots are written before they are read (`values_slots_independent_of_leftovers`), or the flash slice (re-sliced by `release`, its leftover
    elements wiped by the decoder before it decodes, `flash_decode_independent_of_leftovers`). -/
def FieldFact.accounted (lc : Lifecycle) (f : FieldFact) : Bool :=
  f.reset.overwrites || f.release.overwrites || constantFields.contains f.name ||
  (f.name == "values" && lc.starWritesSlot0 && lc.getMatchWritesBeforeRead && lc.paramsReadsRouteSlots) ||
  (f.name == "flashMessages" && emptiesSlice f.release && lc.flashDecodeWipes)
  -- (a flash slice set to nil by `release` is covered by `f.release.overwrites`)

/-- **Obligation over the regenerated tables.** Every field of `DefaultCtx` is accounted for, every
    field of `Redirect` is reset by `Redirect.release`, and the digest the model runs with is in order
    (all per-request fields, the life-cycle calls, the decoder's wipe). -/
theorem fields_reset_or_overwritten :
    Facts.ctxFields.all (FieldFact.accounted Facts.lifecycle) = true ∧
    Facts.redirectFields.all (fun f => f.release.overwrites || emptiesSlice f.release) = true ∧
    theFacts.ok = true := by decide

/-! ### Shared objects outside the pooled context (`Facts.sharedObjects`, regenerated)

The fields of `DefaultCtx` / `Redirect` are not the only way from one request to the next: anything hanging off
`*App`, any package-level variable, any pool a handler-time function takes objects from does the same (the
`App.sendfiles` miss). The translator lists ALL fields of `App`, ALL package-level variables of the anchored files
and all foreign pools used from the anchored files, each with the functions that write it. Every object that is
written at all must be known here, with every one of its writers, and say where its isolation argument is. -/

inductive SharedWhy where
  | ctxPool        -- App.pool: every pooled context is wiped by Reset / release (`ctxFields`, life-cycle facts, `poolOpsConfined`)
  | redirectPool   -- redirectPool: every pooled Redirect is reset by `Redirect.release` (`redirectFields`)
  | memoTable      -- App.sendfiles: transparent memo table (`sendFileCompared`, `sendFileStoresOwnConfig`; `probe_independent_of_history_with_store`)
  | startup        -- written by construction / registration / startup functions only (`New`, `init`, `addRoute`, `buildTree`, `mount`, `Register…`); registering routes while serving is state the application shares on purpose
  | foreignPool    -- a pool outside the anchored files: its own package wipes the object (binder: `Reset()` on Put and every field set before use; bytebufferpool: `Reset()` on Put); not modelled, exercised by the reflective vector
  deriving DecidableEq, Repr

structure SharedRule where
  owner : String
  name : String
  writers : List String
  why : SharedWhy

def sharedRules : List SharedRule := [
  ⟨"App", "pool", ["App.AcquireCtx", "App.ReleaseCtx", "New"], .ctxPool⟩,
  ⟨"package", "redirectPool", ["AcquireRedirect", "ReleaseRedirect"], .redirectPool⟩,
  ⟨"App", "sendfiles", ["DefaultCtx.SendFile"], .memoTable⟩,
  ⟨"App", "server", ["App.NewCtxFunc", "App.init"], .startup⟩,
  ⟨"App", "getBytes", ["New"], .startup⟩,
  ⟨"App", "getString", ["New"], .startup⟩,
  ⟨"App", "hooks", ["New"], .startup⟩,
  ⟨"App", "latestRoute", ["App.addRoute"], .startup⟩,
  ⟨"App", "newCtxFunc", ["App.NewCtxFunc"], .startup⟩,
  ⟨"App", "tlsHandler", ["App.SetTLSHandler"], .startup⟩,
  ⟨"App", "mountFields", ["App.appendSubAppLists", "App.generateAppListKeys", "App.mount", "Group.mount", "New"], .startup⟩,
  ⟨"App", "state", ["New"], .startup⟩,
  ⟨"App", "stack", ["App.addRoute", "App.processSubAppsRoutes", "New"], .startup⟩,
  ⟨"App", "treeStack", ["App.buildTree", "New"], .startup⟩,
  ⟨"App", "customBinders", ["App.RegisterCustomBinder"], .startup⟩,
  ⟨"App", "customConstraints", ["App.RegisterCustomConstraint"], .startup⟩,
  ⟨"App", "config", ["App.handleTrustedProxy", "New"], .startup⟩,
  ⟨"App", "configured", ["New"], .startup⟩,
  ⟨"App", "routesRefreshed", ["App.addRoute", "App.buildTree", "App.processSubAppsRoutes"], .startup⟩,
  ⟨"foreign", "binder.CBORBinderPool", ["Bind.CBOR"], .foreignPool⟩,
  ⟨"foreign", "binder.CookieBinderPool", ["Bind.Cookie"], .foreignPool⟩,
  ⟨"foreign", "binder.FormBinderPool", ["Bind.Form"], .foreignPool⟩,
  ⟨"foreign", "binder.HeaderBinderPool", ["Bind.Header"], .foreignPool⟩,
  ⟨"foreign", "binder.JSONBinderPool", ["Bind.JSON"], .foreignPool⟩,
  ⟨"foreign", "binder.QueryBinderPool", ["Bind.Query"], .foreignPool⟩,
  ⟨"foreign", "binder.RespHeaderBinderPool", ["Bind.RespHeader"], .foreignPool⟩,
  ⟨"foreign", "binder.URIBinderPool", ["Bind.URI"], .foreignPool⟩,
  ⟨"foreign", "binder.XMLBinderPool", ["Bind.XML"], .foreignPool⟩,
  ⟨"foreign", "bytebufferpool", ["DefaultCtx.Links", "DefaultCtx.Render", "DefaultCtx.String", "DefaultCtx.getLocationFromRoute",
                                 "Redirect.Route"], .foreignPool⟩
]

/-- an object nobody writes is a constant; a written one must be known, with every one of its writers -/
def SharedObj.accounted (o : SharedObj) : Bool :=
  o.writers.isEmpty ||
  sharedRules.any fun r => r.owner == o.owner && r.name == o.name && o.writers.all r.writers.contains

/-- **Obligation over the regenerated inventory.** Every field of `App`, every package-level variable of the
    anchored files and every foreign pool used from them is either never written or known with all its writers.
    A new lazily filled cache on `App`, a new package-level pool, a handler-time function that starts writing an
    existing field, a new foreign pool in a context accessor: all break this. -/
theorem shared_objects_accounted : Facts.sharedObjects.all SharedObj.accounted = true := by decide

/-- the three objects that ARE written while serving are there (the obligation is not vacuous) … -/
example : (Facts.sharedObjects.filter fun o => o.name == "pool" || o.name == "redirectPool" || o.name == "sendfiles").length = 3 := by decide
/-- … and sharp: an unknown cache on `App`, or a known field with a new writer, is not accounted for -/
example : SharedObj.accounted ⟨"App", "hostCache", "map[string]string", ["DefaultCtx.Hostname"]⟩ = false := by decide
example : SharedObj.accounted ⟨"App", "config", "Config", ["App.handleTrustedProxy", "DefaultCtx.Host", "New"]⟩ = false := by decide
example : SharedObj.accounted ⟨"foreign", "headerParamPool", "pool", ["DefaultCtx.Accepts"]⟩ = false := by decide

/-- `Params` reads slot i of `c.values` only for i below the number of parameters of the matched
    route, and `getMatch` has written exactly those slots: whatever an earlier request left in the
    array (`old`) is never returned. -/
theorem values_overwritten_before_read (vs old : List Bytes) :
    readParams (writeValues vs old) vs.length = vs := writeValues_params vs old

/-- The same for the real matcher's shape (path.go `getMatch` as a loop over segments with everything it
    computes from the current request left abstract, `Values.lean`; the shape itself is a regenerated
    fact: `getMatchWritesBeforeRead`, `starWritesSlot0`, `paramsReadsRouteSlots`): on the same request, two
    arrays with different leftovers lead to the same match decision and, after a match, to the same
    values in all slots of the route's parameters. -/
theorem values_slots_independent_of_leftovers (m : Matcher) (segs : List Seg) (path : Bytes) (a a' : List Bytes)
    (hlen : a.length = a'.length) (hcap : nParams segs ≤ a.length) :
    (getMatch m segs path a 0).isSome = (getMatch m segs path a' 0).isSome ∧
    ∀ r r', getMatch m segs path a 0 = some r → getMatch m segs path a' 0 = some r' →
      readSlots r (nParams segs) = readSlots r' (nParams segs) :=
  getMatch_slots_indep m segs path a a' hlen hcap

/-- `/q/:x?` on the request `/q` over an array that still holds `alice`: the slot is overwritten with "" -/
example : (getMatch demoMatcher [.const (b "/q/"), .param 0] (b "/q") [b "alice", b "secret"] 0).map (readSlots · 1)
    = some [[]] := by decide

/-- **App.sendfiles is a transparent memo table.** When `compareConfig` compares every field the cached
    entry depends on (regenerated fact, part of `theFacts.ok`), then after ANY sequence of earlier
    `SendFile` calls of any requests (lookups, inserts, also the duplicate appends of requests that
    missed at the same time) a call gets exactly the entry it would have built itself on a fresh app —
    which is what the model's `sendFile` uses (`sfVal cfg`). -/
theorem sendfile_store_transparent (m : SFMask) (hm : m.complete = true) (ops : List SFOp) (cfg : SFCfg) :
    (SFStore.serve m (SFStore.run m [] ops) cfg).1 = sfVal cfg ∧ (SFStore.serve m [] cfg).1 = sfVal cfg := by
  have wf0 : SFStore.WF [] := by intro e he; simp at he
  exact ⟨(serve_transparent hm (run_wf hm ops wf0) cfg).1, (serve_transparent hm wf0 cfg).1⟩

/-- … in particular for the comparison regenerated from the current sources. -/
theorem sendfile_store_transparent_current (ops : List SFOp) (cfg : SFCfg) :
    (SFStore.serve theFacts.sfMask (SFStore.run theFacts.sfMask [] ops) cfg).1 = sfVal cfg :=
  (sendfile_store_transparent theFacts.sfMask (by decide) ops cfg).1

/-- Sharpness (the refactoring that forgot `MaxAge`): after a call with `MaxAge: 3600` a call that differs
    only in `MaxAge: 0` is handed the earlier call's entry — `Cache-Control: public, max-age=3600`. -/
theorem sendfile_compare_without_maxAge_leaks :
    (SFStore.serve ⟨true, true, true, true, true, false⟩
        (SFStore.run ⟨true, true, true, true, true, false⟩ [] [.serve ⟨0, false, false, false, 0, 3600⟩])
        ⟨0, false, false, false, 0, 0⟩).1.maxAge = 3600 ∧
    (sfVal ⟨0, false, false, false, 0, 0⟩).maxAge = 0 := by decide

/-- With the decoder's wipe in place, what the flash readers return is a function of the cookie
    alone: two slices with the same visible part and ANY leftovers in their spare capacity decode
    alike. -/
theorem flash_decode_independent_of_leftovers (F : RFacts) (hw : F.lc.flashDecodeWipes = true)
    (cookie : Bytes) (fl fl' : Slice) (h : fl.vis = fl'.vis) :
    (flashStep F cookie fl).1.vis = (flashStep F cookie fl').1.vis := (flashStep_indep F hw cookie fl fl' h).1

/-- One request (well-formed or not) against two clean worlds with arbitrary pool choices: same
    observation, and the world stays clean. -/
theorem step_sim {F : RFacts} (ok : F.ok = true) {w w' : World} (hw : w.Clean) (hw' : w'.Clean)
    (rq : Req) (pk pk' : Pick) :
    (step F w rq pk).2 = (step F w' rq pk').2 ∧ (step F w rq pk).1.Clean := by
  unfold step
  by_cases hb : rq.bad ≠ 0
  · rw [if_pos hb, if_pos hb]
    have t := takeAt_mem w.ctxs pk.ctx Ctx.fresh Ctx.Clean Ctx.fresh_clean hw.ctxs
    have sb := serveBad_clean ok (takeAt w.ctxs pk.ctx Ctx.fresh).1 hw.reds rq pk.red
    refine ⟨rfl, ⟨?_, sb.2⟩⟩
    intro c hc
    rcases List.mem_cons.mp hc with rfl | hc
    · exact sb.1
    · exact t.2 c hc
  · simp only [hb, if_false]
    have t := takeAt_mem w.ctxs pk.ctx Ctx.fresh Ctx.Clean Ctx.fresh_clean hw.ctxs
    have t' := takeAt_mem w'.ctxs pk'.ctx Ctx.fresh Ctx.Clean Ctx.fresh_clean hw'.ctxs
    have s := serveOn_sim ok rq pk.red pk'.red t.1 t'.1 hw.reds hw'.reds
    refine ⟨by rw [s.1], ⟨?_, s.2.2⟩⟩
    intro c hc
    rcases List.mem_cons.mp hc with rfl | hc
    · exact s.2.1
    · exact t.2 c hc

theorem runHistory_clean {F : RFacts} (ok : F.ok = true) (hist : List (Req × Pick)) {w : World} (hw : w.Clean) :
    (runHistory F w hist).Clean := by
  induction hist generalizing w with
  | nil => exact hw
  | cons x rest ih => exact ih (step_sim ok hw hw x.1 x.2 x.2).2

/-- **Main theorem.** For every table digest that is in order, every history of requests (valid,
    malformed, with crafted flash cookies, any handler scripts) served through the pooled contexts
    with ARBITRARY choices of which pooled context / Redirect object each request receives, and every
    probe: the probe's observation (response status, headers, flash cookie, body; route parameters,
    flash messages, old input, view bindings, locals, base URL seen by its handler) equals its
    observation on a fresh application. -/
theorem probe_independent_of_history {F : RFacts} (ok : F.ok = true) (hist : List (Req × Pick)) (probe : Req) (pk : Pick) :
    probeAfter F hist probe pk = probeFresh F probe :=
  (step_sim ok (runHistory_clean ok hist World.empty_clean) World.empty_clean probe pk ⟨0, 0⟩).1

/-- … in particular for the tables regenerated from the current sources. -/
theorem probe_independent_of_history_current (hist : List (Req × Pick)) (probe : Req) (pk : Pick) :
    probeAfter theFacts hist probe pk = probeFresh theFacts probe :=
  probe_independent_of_history fields_reset_or_overwritten.2.2 hist probe pk

/-! ### Concurrent schedules -/

/-- Every schedule keeps the concurrent world in order: the pools hold clean objects only, every
    request in flight agrees (up to unreadable garbage) with a twin served alone by a fresh application,
    every finished request observed what it would have observed on a fresh application. -/
theorem runSched_invariant {F : RFacts} (ok : F.ok = true) (evs : List Ev) :
    (runSched F CWorld.empty evs).Inv F := runSched_inv ok evs (CWorld.empty_inv F)

/-- **Main theorem, schedules.** For every table digest in order and EVERY schedule — any number of
    requests (valid, malformed, crafted cookies, any scripts) whose atomic steps (acquire+Reset; flash
    check+middleware+route match; each handler action; epilogue+release) are interleaved in any order,
    with arbitrary choices of which pooled context / Redirect every `Get` returns and with sync.Pool
    dropping pooled objects at any time — every request that finishes has observed exactly what it
    observes when it is the only request a fresh application ever serves. -/
theorem finished_independent_of_schedule {F : RFacts} (ok : F.ok = true) (evs : List Ev)
    (id : Nat) (rq : Req) (o : Obs) (h : (id, rq, o) ∈ (runSched F CWorld.empty evs).finished) :
    some o = probeFresh F rq := by
  have := (runSched_invariant ok evs).finished _ h
  have h1 : rq.bad = 0 := this.1
  have h2 : o = obsFresh F rq := this.2
  rw [probeFresh_eq F rq h1, h2]

/-- … in particular for the tables regenerated from the current sources. -/
theorem finished_independent_of_schedule_current (evs : List Ev)
    (id : Nat) (rq : Req) (o : Obs) (h : (id, rq, o) ∈ (runSched theFacts CWorld.empty evs).finished) :
    some o = probeFresh theFacts rq :=
  finished_independent_of_schedule fields_reset_or_overwritten.2.2 evs id rq o h

/-- A sequential `step` IS the schedule in which the request runs alone (acquire, enter, one `act` per
    script action, done): the concurrent semantics contains the sequential one the correspondence check
    validates against the real server. -/
theorem step_as_schedule {F : RFacts} (ok : F.ok = true) (w : World) (fin : List (Nat × Req × Obs))
    (id : Nat) (rq : Req) (pk : Pick) :
    runSched F (w.toC fin) (soloEvents id rq pk) =
      (step F w rq pk).1.toC (match (step F w rq pk).2 with | some o => (id, rq, o) :: fin | none => fin) := by
  rw [soloEvents_eq, runSched_append]
  by_cases hb : rq.bad ≠ 0
  · have h0 : runSched F (w.toC fin) [.acquire id rq pk, .enter id pk.red] = (step F w rq pk).1.toC fin := by
      simp [runSched, cstep, World.toC, step, hb, List.lookup]
    rw [h0, runSched_append, acts_absent F _ id pk.red rfl]
    simp [runSched, cstep, World.toC, step, hb, List.lookup]
  · have hb0 : rq.bad = 0 := by simpa using hb
    have h0 : runSched F (w.toC fin) [.acquire id rq pk, .enter id pk.red] =
        ⟨(takeAt w.ctxs pk.ctx Ctx.fresh).2, ((Flight.acquire F (takeAt w.ctxs pk.ctx Ctx.fresh).1 rq).enter F w.reds pk.red).2,
         [(id, ((Flight.acquire F (takeAt w.ctxs pk.ctx Ctx.fresh).1 rq).enter F w.reds pk.red).1)], fin⟩ := by
      simp [runSched, cstep, World.toC, hb0, List.lookup, setFlight]
    rw [h0, runSched_append]
    have hle : ((Flight.acquire F (takeAt w.ctxs pk.ctx Ctx.fresh).1 rq).enter F w.reds pk.red).1.todo.length ≤ rq.script.length := by
      have := enter_todo_le (F := F) (Flight.acquire F (takeAt w.ctxs pk.ctx Ctx.fresh).1 rq) rfl w.reds pk.red
      rw [acquire_rq ok] at this
      simpa [Flight.acquire] using this
    obtain ⟨f', X, hrun, h1, h2, h3, h4⟩ := acts_alone F (takeAt w.ctxs pk.ctx Ctx.fresh).2 fin id pk.red rq.script.length _ _
      (enter_entered F _ w.reds pk.red) hle
    rw [hrun]
    rw [complete_enter, complete_of_done F f' h1 h2] at h4
    rw [enter_orig] at h3
    have h3' : f'.orig = rq := h3
    simp [runSched, cstep, lookup_single, h1, h2, dropFlight, World.toC, step, hb0, serveOn, h4, h3']

/-- the schedule of a sequential history: one request after the other, ids counting up from `n` -/
def histEvents : Nat → List (Req × Pick) → List Ev
  | _, [] => []
  | n, (rq, pk) :: rest => soloEvents n rq pk ++ histEvents (n + 1) rest

/-- … so every sequential history is a schedule, and leaves the same pools. -/
theorem history_as_schedule {F : RFacts} (ok : F.ok = true) (hist : List (Req × Pick)) :
    ∀ (w : World) (fin : List (Nat × Req × Obs)) (n : Nat),
      ∃ fin', runSched F (w.toC fin) (histEvents n hist) = (runHistory F w hist).toC fin' := by
  induction hist with
  | nil => intro w fin n; exact ⟨fin, rfl⟩
  | cons x rest ih =>
    intro w fin n
    obtain ⟨rq, pk⟩ := x
    simp only [histEvents, runSched_append, step_as_schedule ok, runHistory]
    exact ih _ _ _

/-! ### The world including the app-level memo table `App.sendfiles` (`Store.lean`)

`probeAfterS` / `runSchedS` thread the store itself through every `SendFile` action: a call is served with the
first entry `compareConfig` accepts among the entries EARLIER requests left behind, and appends one on a miss. -/

/-- **Main theorem, sequential, store included.** For every table digest in order (which includes: `compareConfig`
    compares every field of the `SendFile` struct), every history with arbitrary pool choices — whatever entries
    its `SendFile` calls have put into `App.sendfiles` — and every probe: the probe's observation, served from
    the pools AND the store the history left behind, equals its observation on a fresh application (empty pools,
    empty store). -/
theorem probe_independent_of_history_with_store {F : RFacts} (ok : F.ok = true) (hist : List (Req × Pick))
    (probe : Req) (pk : Pick) :
    probeAfterS F hist probe pk = probeFreshS F probe := by
  rw [probeAfterS_eq (ok_sfComplete ok), probeFreshS_eq (ok_sfComplete ok)]
  exact probe_independent_of_history ok hist probe pk

/-- … in particular for the tables regenerated from the current sources. -/
theorem probe_independent_of_history_with_store_current (hist : List (Req × Pick)) (probe : Req) (pk : Pick) :
    probeAfterS theFacts hist probe pk = probeFreshS theFacts probe :=
  probe_independent_of_history_with_store fields_reset_or_overwritten.2.2 hist probe pk

/-- **Main theorem, schedules, store included.** In every schedule of the atomic steps of any number of
    overlapping requests — where every `SendFile` action reads and extends the one store shared by all of them,
    and duplicate appends of requests that missed at the same time may happen at any point — every request that
    finishes observed exactly what it observes as the only request of a fresh application. -/
theorem finished_independent_of_schedule_with_store {F : RFacts} (ok : F.ok = true) (evs : List EvS)
    (id : Nat) (rq : Req) (o : Obs) (h : (id, rq, o) ∈ (runSchedS F CWorldS.empty evs).c.finished) :
    some o = probeFreshS F rq := by
  rw [(runSchedS_eq (ok_sfComplete ok) evs (ws := CWorldS.empty) wf_nil).1] at h
  rw [probeFreshS_eq (ok_sfComplete ok)]
  exact finished_independent_of_schedule ok _ id rq o h

/-- the store-threaded semantics is the store-free one whenever the comparison is complete (so the theorems
    above and the ones about `probeAfter` / `runSched` speak about the same observations) -/
theorem store_semantics_coincide {F : RFacts} (ok : F.ok = true) (hist : List (Req × Pick)) (probe : Req) (pk : Pick) :
    probeAfterS F hist probe pk = probeAfter F hist probe pk := probeAfterS_eq (ok_sfComplete ok) hist probe pk

/-! ### Non-vacuity and sharpness

The examples run on `refFacts`, a fixed digest (what the tables say at the time of writing), so that they
do not depend on the regenerated tables: a harmless refactoring of `Reset` / `release` must not break an
example. -/

def refFacts : RFacts :=
  { rFasthttp := true, rBaseURI := true, rPathOriginal := true, rPath := true, rDetectionPath := true,
    rTreePathHash := true, rIndexRoute := true, rIndexHandler := true, rMethodInt := true, rMatched := true,
    lRoute := true, lBind := true, lRedirect := true, lViewBind := true, lFlash := .reslice0, lFasthttp := true,
    dMessages := .reslice0, dStatus := true,
    sfMask := ⟨true, true, true, true, true, true⟩, sfAllCompared := true,
    lc := { acquireResets := true, releaseBeforePut := true, handlerDefersRelease := true,
            redirectReleaseBeforePut := true, ctxReleaseReturnsRedirect := true, flashDecodeWipes := true,
            flashDropsOnError := true, errorHandlerDefersRelease := true, poolOpsConfined := true,
            starWritesSlot0 := true, getMatchWritesBeforeRead := true, paramsReadsRouteSlots := true,
            sendFileStoresOwnConfig := true } }

example : refFacts.ok = true := by decide

/-- A history that plants state in every channel the property names (view binding, locals, flash
    messages, redirect messages + status, binder mode, base URL, route parameters), then the classic
    probe: a flash cookie `91 80` (one message with no fields), a redirect, a failing bind. -/
def demoHist : List (Req × Pick) :=
  [(⟨b "POST", b "/p/alice/secret", b "admin.internal", [(b "n", b "x")],
     some [0x91, 0x84, 0xa3, 0x6b, 0x65, 0x79, 0xa1, 0x6b, 0xa5, 0x76, 0x61, 0x6c, 0x75, 0x65, 0xa1, 0x76,
           0xa5, 0x6c, 0x65, 0x76, 0x65, 0x6c, 0x21, 0xaa, 0x69, 0x73, 0x4f, 0x6c, 0x64, 0x49, 0x6e, 0x70, 0x75, 0x74, 0xc2],
     0, [.vb (b "user") (b "alice"), .lo (b "u") (b "alice"), .wi (b "k") (b "v") 5, .rs 301, .ba, .bu]⟩, ⟨0, 0⟩)]

def demoProbe : Req :=
  ⟨b "GET", b "/q", b "h.example.com", [(b "n", b "x")], some [0x91, 0x80], 0, [.ob, .bq, .to (b "/t")]⟩

/-- the probe sees one all-empty message, no parameters, no bindings, status 302, no flash cookie of its own -/
example : (probeAfter refFacts demoHist demoProbe ⟨0, 0⟩).map (fun o => (o.resp.status, o.resp.setFlash))
    = some (302, .expire) := by decide
example : (probeAfter refFacts demoHist demoProbe ⟨0, 0⟩).map (fun o => o.seen.map (·.msgs)) = some (some [Msg.zero]) := by decide
example : (probeAfter refFacts demoHist demoProbe ⟨0, 0⟩).map (fun o => o.seen.map (·.view)) = some (some []) := by decide
example : (probeAfter refFacts demoHist demoProbe ⟨0, 0⟩).map (fun o => o.seen.map (·.params)) = some (some [[]]) := by decide

/-- Sharpness: the same history leaks when the table is NOT in order. Without the decoder's wipe (the code
    before fix cd65980, finding F1) the probe's empty message `91 80` shows the previous request's flash
    message … -/
theorem old_flash_decode_leaks_previous_message :
    (probeAfter { refFacts with lc := { refFacts.lc with flashDecodeWipes := false } } demoHist demoProbe ⟨0, 0⟩).map
      (fun o => o.seen.map (·.msgs))
    = some (some [⟨b "k", b "v", 0x21, false⟩]) ∧
    (probeFresh { refFacts with lc := { refFacts.lc with flashDecodeWipes := false } } demoProbe).map
      (fun o => o.seen.map (·.msgs))
    = some (some [Msg.zero]) := by decide

/-- … without `release` clearing the view map the probe renders the previous user's binding … -/
example : (probeAfter { refFacts with lViewBind := false } demoHist demoProbe ⟨0, 0⟩).map (fun o => o.seen.map (·.view))
    = some (some [(b "user", b "alice")]) := by decide

/-- … without `Redirect.release` resetting the pooled object the probe redirects with the previous
    request's status and flash message … -/
example : (probeAfter { refFacts with dStatus := false, dMessages := .none } demoHist demoProbe ⟨0, 0⟩).map
      (fun o => (o.resp.status, o.resp.setFlash))
    = some (301, .msgs [⟨b "k", b "v", 5, false⟩]) := by decide

/-- … without `Reset` clearing the cached base URL the probe is told the previous request's host … -/
example : (probeAfter { refFacts with rBaseURI := false } demoHist demoProbe ⟨0, 0⟩).map (fun o => o.seen.map (·.base))
    = some (some (b "http://admin.internal")) := by decide

/-- … and without `release` dropping the Bind object the probe inherits automatic error handling (400). -/
example : (probeAfter { refFacts with lBind := false, lRedirect := false } demoHist ⟨b "GET", b "/q", b "h.example.com", [(b "n", b "x")], none, 0, [.bq]⟩ ⟨0, 0⟩).map
      (fun o => o.resp.status)
    = some 400 := by decide

/-! ### Non-vacuity and sharpness, store -/

/-- history: `SendFile(f.txt, {MaxAge: 3600})`; probe: `SendFile(f.txt, {MaxAge: 0})` -/
def sfHist : List (Req × Pick) :=
  [(⟨b "GET", b "/plain", b "h.example.com", [], none, 0, [.sf ⟨0, false, false, false, 0, 3600⟩ 0]⟩, ⟨0, 0⟩)]

def sfProbe : Req := ⟨b "GET", b "/plain", b "h.example.com", [], none, 0, [.sf ⟨0, false, false, false, 0, 0⟩ 0]⟩

/-- the history really leaves an entry in the store, and the probe (a different configuration) adds its own -/
example : (runHistoryS refFacts WorldS.empty sfHist).sfs.length = 1 ∧
    (stepS refFacts (runHistoryS refFacts WorldS.empty sfHist) sfProbe ⟨0, 0⟩).1.sfs.length = 2 := by decide

/-- the probe is served without Cache-Control, as on a fresh app -/
example : (probeAfterS refFacts sfHist sfProbe ⟨0, 0⟩).map (fun o => (o.resp.status, o.resp.cacheControl)) = some (200, []) := by decide

/-- Sharpness: with a comparison that forgets `MaxAge` (the digest is then NOT in order) the probe finds the
    history's entry in the store and answers with the earlier request's `Cache-Control` — while on a fresh app
    it sends none -/
example : (probeAfterS { refFacts with sfMask := ⟨true, true, true, true, true, false⟩ } sfHist sfProbe ⟨0, 0⟩).map
      (fun o => o.resp.cacheControl) = some (b "public, max-age=3600") ∧
    (probeFreshS { refFacts with sfMask := ⟨true, true, true, true, true, false⟩ } sfProbe).map
      (fun o => o.resp.cacheControl) = some [] := by decide

example : ({ refFacts with sfMask := ⟨true, true, true, true, true, false⟩ } : RFacts).ok = false := by decide

/-- two overlapping requests with the same new configuration, a duplicate append in between, then the probe
    with another configuration: three entries in the store, the probe unaffected -/
def sfSched : List EvS :=
  [.ev (.acquire 1 sfHist.head!.1 ⟨0, 0⟩), .ev (.enter 1 0), .ev (.acquire 2 sfProbe ⟨0, 0⟩), .ev (.enter 2 0),
   .ev (.act 1 0), .dupAppend ⟨0, false, false, false, 0, 3600⟩, .ev (.act 2 0), .ev (.done 1 0), .ev (.done 2 0)]

example : (runSchedS refFacts CWorldS.empty sfSched).sfs.length = 3 ∧
    (obsOf (runSchedS refFacts CWorldS.empty sfSched).c 2).map (fun o => o.resp.cacheControl) = some [] := by decide

example : (obsOf (runSchedS { refFacts with sfMask := ⟨true, true, true, true, true, false⟩ } CWorldS.empty sfSched).c 2).map
    (fun o => o.resp.cacheControl) = some (b "public, max-age=3600") := by decide

/-! ### Non-vacuity and sharpness, schedules -/

def demoA : Req := demoHist.head!.1

/-- the probe without a cookie: its first `c.Redirect()` happens inside the handler (`ob`) -/
def demoB : Req :=
  ⟨b "GET", b "/q", b "h.example.com", [(b "n", b "x")], none, 0, [.ob, .bq, .to (b "/t")]⟩

/-- Two overlapping requests: A (id 1: plants view binding, local, flash message through its cookie,
    redirect message + status, binder mode, base URL) and the probe B (id 2). B acquires its context while
    A is running (two contexts outstanding); A finishes — its context and its Redirect go back to the
    pools — while B has not started its handler; B's `c.Redirect()` then receives the very Redirect
    object A has just released; a garbage collection drops A's context from the pool in between. -/
def demoSched : List Ev :=
  [.acquire 1 demoA ⟨0, 0⟩, .enter 1 0, .acquire 2 demoB ⟨0, 0⟩, .enter 2 0, .act 1 0, .act 1 0, .act 1 0,
   .act 1 0, .act 1 0, .act 1 0, .done 1 0, .gc 0 7, .act 2 0, .act 2 0, .act 2 0, .done 2 0]

/-- both requests finish, B second -/
example : ((runSched refFacts CWorld.empty demoSched).finished.map (·.1)) = [2, 1] := by decide

/-- B got A's Redirect object (the pool is empty again while B holds it), and still redirects with 302
    and no flash cookie -/
example : (runSched refFacts CWorld.empty (demoSched.take 13)).reds.length = 0 ∧
    (runSched refFacts CWorld.empty (demoSched.take 12)).reds.length = 1 := by decide
example : (obsOf (runSched refFacts CWorld.empty demoSched) 2).map (fun o => (o.resp.status, o.resp.setFlash))
    = some (302, .none) := by decide

/-- Sharpness: the same schedule leaks when `Redirect.release` does not reset the pooled object -/
example : (obsOf (runSched { refFacts with dStatus := false, dMessages := .none } CWorld.empty demoSched) 2).map
      (fun o => (o.resp.status, o.resp.setFlash))
    = some (301, .msgs [⟨b "k", b "v", 5, false⟩]) := by decide

end C05
