import FiberModel.C05.Model
/-
C05 — concurrent schedules.

`Model.lean` serves one request at a time (`serveOn`): acquire, Reset, flash check, middleware, the
handler's script, error handling, release — with a universally quantified choice of which pooled
context / Redirect the request receives. A real server runs many requests at once. What a concurrent
schedule adds to a sequence of pool choices:

  * several contexts and Redirect objects are outstanding at the same time, each owned by exactly one
    request between `pool.Get` and `pool.Put` (sync.Pool never hands an object out twice);
  * pool operations of different requests interleave: a Redirect released by request A while request B
    is in the middle of its handler can be the one B's next `c.Redirect()` receives, a context released
    by A can be acquired by C while B still runs, …;
  * sync.Pool may drop pooled objects at any time (garbage collection).

This file splits the service of a request into the atomic steps a goroutine performs between two pool
operations and lets an arbitrary schedule interleave the steps of arbitrarily many requests:

  `acquire`  router.go `defaultRequestHandler`/`customRequestHandler`: `AcquireCtx` (pool.Get + Reset),
             method check (or app.go `serverErrorHandler` for a request fasthttp rejected:
             AcquireCtx, error handler, ReleaseCtx);
  `enter`    the flash check (`Redirect()` = redirectPool.Get, `parseAndClearFlashMessages`), `next`:
             the middleware, route match (writes `c.values`);
  `act`      one action of the handler (at most one redirectPool.Get);
  `done`     handler epilogue / error handler, deferred `ReleaseCtx`: `release()` (Redirect.release +
             redirectPool.Put), pool.Put;
  `abort`    the handler panics wherever it is (before the flash check, mid-script, …): nothing but the
             deferred `ReleaseCtx` runs; no response is observed;
  `gc`       sync.Pool forgets a pooled context / Redirect.

Every step works on the objects the request owns plus the two pools; nothing else is shared (fiber keeps
no other mutable package-level or app-level per-request state in the anchored files). The steps are the
Lean functions `serveOn` is made of (`Model.lean`): `serveOn` = `Flight.acquire`, then `Flight.complete`
(the remaining steps without interruption) — so the sequential histories of `runHistory` are the
schedules in which no two requests overlap (`step_as_schedule`, Props).
-/
namespace C05
open B

/-! ### the concurrent world -/

structure CWorld where
  ctxs : List Ctx                          -- App.pool
  reds : List Redirect                     -- redirectPool
  flights : List (Nat × Flight)            -- requests being served, by id
  finished : List (Nat × Req × Obs)        -- id, request as submitted, observation
  deriving Repr, Inhabited

def CWorld.empty : CWorld := ⟨[], [], [], []⟩

inductive Ev where
  | acquire (id : Nat) (rq : Req) (pick : Pick)   -- `pick.red` only matters for a rejected request (its error handler)
  | enter (id : Nat) (pickRed : Nat)
  | act (id : Nat) (pickRed : Nat)
  | done (id : Nat) (pickRed : Nat)
  | abort (id : Nat) (pickRed : Nat)   -- the handler panics at whatever point it has reached: only the deferred ReleaseCtx runs
  | gc (ctx red : Nat)
  deriving Repr, Inhabited

def setFlight (fs : List (Nat × Flight)) (id : Nat) (f : Flight) : List (Nat × Flight) :=
  fs.map fun p => if p.1 = id then (id, f) else p

def dropFlight (fs : List (Nat × Flight)) (id : Nat) : List (Nat × Flight) :=
  fs.filter fun p => p.1 ≠ id

def cstep (F : RFacts) (w : CWorld) : Ev → CWorld
  | .acquire id rq pc =>
    if (w.flights.lookup id).isSome then w
    else if rq.bad ≠ 0 then
      -- rejected by fasthttp: `serverErrorHandler` borrows a context for the error handler
      { w with ctxs := (serveBad F (takeAt w.ctxs pc.ctx Ctx.fresh).1 w.reds rq pc.red).1 :: (takeAt w.ctxs pc.ctx Ctx.fresh).2,
               reds := (serveBad F (takeAt w.ctxs pc.ctx Ctx.fresh).1 w.reds rq pc.red).2 }
    else
      { w with ctxs := (takeAt w.ctxs pc.ctx Ctx.fresh).2,
               flights := (id, Flight.acquire F (takeAt w.ctxs pc.ctx Ctx.fresh).1 rq) :: w.flights }
  | .enter id p =>
    match w.flights.lookup id with
    | none => w
    | some f => { w with reds := (f.enter F w.reds p).2, flights := setFlight w.flights id (f.enter F w.reds p).1 }
  | .act id p =>
    match w.flights.lookup id with
    | none => w
    | some f => { w with reds := (f.stepAct w.reds p).2, flights := setFlight w.flights id (f.stepAct w.reds p).1 }
  | .done id p =>
    match w.flights.lookup id with
    | none => w
    | some f =>
      if f.entered && f.todo.isEmpty then
        { ctxs := (f.retire F w.reds p).1 :: w.ctxs, reds := (f.retire F w.reds p).2.1,
          flights := dropFlight w.flights id, finished := (id, f.orig, (f.retire F w.reds p).2.2) :: w.finished }
      else w
  | .abort id p =>
    match w.flights.lookup id with
    | none => w
    | some f => { w with ctxs := (f.retire F w.reds p).1 :: w.ctxs, reds := (f.retire F w.reds p).2.1,
                         flights := dropFlight w.flights id }
  | .gc i j => { w with ctxs := w.ctxs.eraseIdx i, reds := w.reds.eraseIdx j }

def runSched (F : RFacts) (w : CWorld) (evs : List Ev) : CWorld := evs.foldl (cstep F) w

/-- the observation of request `id` in a schedule, once it has finished -/
def obsOf (w : CWorld) (id : Nat) : Option Obs := (w.finished.find? (·.1 = id)).map (·.2.2)

/-- the uninterrupted schedule of one request: acquire, enter, one `act` per script action, done -/
def soloEvents (id : Nat) (rq : Req) (pk : Pick) : List Ev :=
  [.acquire id rq pk, .enter id pk.red] ++ rq.script.map (fun _ => .act id pk.red) ++ [.done id pk.red]

end C05
