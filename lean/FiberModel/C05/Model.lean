import FiberModel.Basic
import FiberModel.C05.Types
import FiberModel.C05.Msgpack
import FiberModel.C05.SendFile
/-
C05 — executable model of the pooled request context.

Go ↔ Lean:
  ctx.go `DefaultCtx` (fields)                         ↔ `Ctx`
  ctx.go `Reset` (+ `configDependentPaths`)            ↔ `reset`   (WHICH fields are assigned comes from the
  ctx.go `release`, redirect.go `Redirect.release`     ↔ `release`, `Redirect.released`    regenerated table, `RFacts`)
  ctx_interface.go `AcquireCtx` / `ReleaseCtx`, sync.Pool ↔ `takeAt` / the `World` lists (any pooled object may come back)
  router.go `defaultRequestHandler`, `next`, `Route.match`, helpers.go `methodExist` ↔ `serve`, `route`
  redirect.go `parseAndClearFlashMessages` + redirect_msgp.go `UnmarshalMsg` ↔ `flashStep`, `decodeInto`
  ctx.go `Redirect()`, redirect.go `With`/`WithInput`/`Status`/`To`/`processFlashMessages` ↔ `Act.wi/inp/rs/to`
  ctx.go `ViewBind`/`Render`, `Locals`, `Bind()`, bind.go `WithAutoHandling`/`Query`, `BaseURL`, `Set` ↔ the other `Act`s
  app.go `DefaultErrorHandler`                         ↔ `finish`
  app.go `serverErrorHandler` (requests fasthttp rejects) ↔ `serveBad`

The application is the harness' fixed one (harness/cmd/c05): an `ErrorHandler` that plants state
(`plantActs`) before answering like the default one; middleware `Use` (sets X-Mw, calls Next);
GET|POST /p/:a/:b, /q/:x?, /s/*, /plain; POST /only-post; GET /t; every route runs the script attached to
the request. Route matching itself (C01–C03's subject) is modelled only for the request paths of the
harness vocabulary (`classify`); fasthttp (request parsing, per-request reset of user values and of the
response) is outside the model: locals and the response start empty for every request.
Concurrent schedules of the same steps: `Sched.lean`.
-/
namespace C05
open B

/-! ### digest of the regenerated facts -/

structure RFacts where
  -- Reset assigns the field (independent of its previous content)
  rFasthttp : Bool
  rBaseURI : Bool
  rPathOriginal : Bool
  rPath : Bool
  rDetectionPath : Bool
  rTreePathHash : Bool
  rIndexRoute : Bool
  rIndexHandler : Bool
  rMethodInt : Bool
  rMatched : Bool
  -- release zeroes the field
  lRoute : Bool
  lBind : Bool
  lRedirect : Bool
  lViewBind : Bool
  lFlash : Assign            -- none | reslice0 | cleared | zero
  lFasthttp : Bool
  -- Redirect.release
  dMessages : Assign
  dStatus : Bool
  -- App.sendfiles: which SendFile fields compareConfig compares; every field of the struct is compared
  sfMask : SFMask
  sfAllCompared : Bool
  lc : Lifecycle
  deriving Repr

def findFact (t : List FieldFact) (n : String) : Option FieldFact := t.find? (·.name == n)

def resetOf (t : List FieldFact) (n : String) : Bool :=
  match findFact t n with | some f => f.reset.overwrites | none => false

def releaseOf (t : List FieldFact) (n : String) : Bool :=
  match findFact t n with | some f => f.release.overwrites | none => false

def releaseKind (t : List FieldFact) (n : String) : Assign :=
  match findFact t n with | some f => f.release | none => .none

/-- either side wipes the field: a pooled context is zero when new and wiped when released, so for a field
    whose wiped value is its zero value it does not matter whether `Reset` or `release` does it -/
def releaseZero (t : List FieldFact) (n : String) : Bool := releaseKind t n == .zero

def wipedOf (t : List FieldFact) (n : String) : Bool := resetOf t n || releaseZero t n

/-- The digest says what a handler can rely on when it starts. Fields whose `Reset` value is the zero value
    (`baseURI`, `indexHandler`, `matched`) and the fields `release` empties (`route`, `bind`, `redirect`,
    `viewBindMap`) may be wiped on either side; `indexRoute` (-1) and the request-derived fields must be
    assigned by `Reset`. A flash slice that `release` sets to nil has no leftovers: as good as the wipe. -/
def comparedOf (t : List (String × Bool)) (n : String) : Bool :=
  match t.find? (·.1 == n) with | some p => p.2 | none => false

def RFacts.ofTables (ctx red : List FieldFact) (sf : List (String × Bool)) (lc : Lifecycle) : RFacts :=
  { rFasthttp := resetOf ctx "fasthttp", rBaseURI := wipedOf ctx "baseURI", rPathOriginal := resetOf ctx "pathOriginal",
    rPath := resetOf ctx "path", rDetectionPath := resetOf ctx "detectionPath", rTreePathHash := resetOf ctx "treePathHash",
    rIndexRoute := resetOf ctx "indexRoute", rIndexHandler := wipedOf ctx "indexHandler", rMethodInt := resetOf ctx "methodInt",
    rMatched := wipedOf ctx "matched",
    lRoute := wipedOf ctx "route", lBind := wipedOf ctx "bind", lRedirect := wipedOf ctx "redirect",
    lViewBind := wipedOf ctx "viewBindMap", lFlash := releaseKind ctx "flashMessages", lFasthttp := releaseOf ctx "fasthttp",
    dMessages := releaseKind red "messages", dStatus := releaseOf red "status",
    sfMask := { fs := comparedOf sf "FS", compress := comparedOf sf "Compress", byteRange := comparedOf sf "ByteRange",
                download := comparedOf sf "Download", cacheDur := comparedOf sf "CacheDuration", maxAge := comparedOf sf "MaxAge" },
    sfAllCompared := sf.all (·.2),
    lc := { lc with flashDecodeWipes := lc.flashDecodeWipes || releaseKind ctx "flashMessages" == .zero } }

/-! ### requests -/

inductive Act where
  | vb (k v : Bytes)            -- c.ViewBind(Map{k: v})
  | lo (k v : Bytes)            -- c.Locals(k, v)
  | wi (k v : Bytes) (l : Nat)  -- c.Redirect().With(k, v, l)
  | inp                         -- c.Redirect().WithInput()
  | rs (n : Nat)                -- c.Redirect().Status(n)
  | to (p : Bytes)              -- c.Redirect().To(p)
  | ba                          -- c.Bind().WithAutoHandling()
  | bq                          -- c.Bind().Query(&struct{N int `query:"n"`})
  | sh (k v : Bytes)            -- c.Set(k, v)
  | bu                          -- c.BaseURL()
  | er (n : Nat)                -- handler returns fiber.NewError(n, "e<n>")
  | sf (cfg : SFCfg) (hdr : Nat) -- c.SendFile(f.txt, cfg); hdr: the request carries 1 `Range: bytes=0-3` / 2 `Accept-Encoding: gzip`
  | ob                          -- the probe's look at everything
  deriving DecidableEq, Repr, Inhabited

structure Req where
  method : Bytes
  path : Bytes
  host : Bytes
  query : List (Bytes × Bytes)
  flash : Option Bytes          -- wire-sent fiber_flash cookie (raw value), if any
  bad : Nat                     -- ≠ 0: rejected by fasthttp before fiber sees it
  script : List Act
  deriving DecidableEq, Repr, Inhabited

/-! ### pooled objects -/

/-- a Go slice of messages: the visible elements and what the rest of the backing array (the spare
    capacity beyond `len`) still holds. `cap = vis.length + spare.length`. -/
structure Slice where
  vis : List Msg
  spare : List Msg
  deriving DecidableEq, Repr, Inhabited

def Slice.backing (s : Slice) : List Msg := s.vis ++ s.spare

/-- `append(s, m)`: writes the next spare slot (a grown array has fresh zeroed spare capacity, which
    nothing can observe: modelled as none) -/
def Slice.push (s : Slice) (m : Msg) : Slice := ⟨s.vis ++ [m], s.spare.drop 1⟩

structure Redirect where
  status : Nat
  msgs : Slice
  deriving DecidableEq, Repr, Inhabited

/-- redirect.go `redirectPool.New` -/
def Redirect.fresh : Redirect := { status := 302, msgs := ⟨[], []⟩ }

def applyRelease (k : Assign) (s : Slice) : Slice :=
  match k with
  | .reslice0 => ⟨[], s.vis ++ s.spare⟩                                -- x = x[:0]
  | .cleared => ⟨[], s.vis.map (fun _ => Msg.zero) ++ s.spare⟩          -- clear(x); x = x[:0]
  | .zero => ⟨[], []⟩                                                   -- x = nil
  | _ => s

/-- redirect.go `Redirect.release` -/
def Redirect.released (F : RFacts) (r : Redirect) : Redirect :=
  { status := if F.dStatus then 302 else r.status, msgs := applyRelease F.dMessages r.msgs }

structure Ctx where
  -- assigned by Reset
  fasthttp : Option Req
  baseURI : Bytes
  pathOriginal : Bytes
  path : Bytes
  detectionPath : Bytes
  treePathHash : Nat
  indexRoute : Int
  indexHandler : Nat
  methodInt : Int
  matched : Bool
  -- cleared by release
  route : Option Nat
  bind : Option Bool              -- the Bind object: some dontHandleErrs
  redirect : Option Redirect
  viewBind : List (Bytes × Bytes)
  flash : Slice                   -- release only re-slices: the backing array keeps old messages
  -- never reset
  values : List Bytes
  deriving Repr, Inhabited

/-- ctx_interface.go `NewDefaultCtx` -/
def Ctx.fresh : Ctx :=
  { fasthttp := none, baseURI := [], pathOriginal := [], path := [], detectionPath := [], treePathHash := 0,
    indexRoute := 0, indexHandler := 0, methodInt := 0, matched := false,
    route := none, bind := none, redirect := none, viewBind := [], flash := ⟨[], []⟩, values := [] }

def methodIntOf (m : Bytes) : Int :=
  if m = b "GET" then 0 else if m = b "HEAD" then 1 else if m = b "POST" then 2 else if m = b "PUT" then 3
  else if m = b "DELETE" then 4 else if m = b "CONNECT" then 5 else if m = b "OPTIONS" then 6
  else if m = b "TRACE" then 7 else if m = b "PATCH" then 8 else -1

def hash3 (p : Bytes) : Nat :=
  match p with
  | x :: y :: z :: _ => x * 65536 + y * 256 + z
  | _ => 0

/-- ctx.go `Reset` + `configDependentPaths` (default configuration: paths are lower-case words, so
    lower-casing and trailing-slash trimming are the identity on the harness vocabulary). -/
def reset (F : RFacts) (rq : Req) (c : Ctx) : Ctx :=
  { c with
    indexRoute := if F.rIndexRoute then -1 else c.indexRoute,
    indexHandler := if F.rIndexHandler then 0 else c.indexHandler,
    matched := if F.rMatched then false else c.matched,
    pathOriginal := if F.rPathOriginal then rq.path else c.pathOriginal,
    methodInt := if F.rMethodInt then methodIntOf rq.method else c.methodInt,
    fasthttp := if F.rFasthttp then some rq else c.fasthttp,
    baseURI := if F.rBaseURI then [] else c.baseURI,
    path := if F.rPath then (if F.rPathOriginal then rq.path else c.pathOriginal) else c.path,
    detectionPath := if F.rDetectionPath then (if F.rPath then (if F.rPathOriginal then rq.path else c.pathOriginal) else c.path)
                     else c.detectionPath,
    treePathHash := if F.rTreePathHash then hash3 (if F.rDetectionPath then (if F.rPath then (if F.rPathOriginal then rq.path else c.pathOriginal) else c.path) else c.detectionPath)
                    else c.treePathHash }

/-- ctx.go `release` (the attached Redirect is handed back by the caller, see `serve`) -/
def release (F : RFacts) (c : Ctx) : Ctx :=
  { c with
    route := if F.lRoute then none else c.route,
    fasthttp := if F.lFasthttp then none else c.fasthttp,
    bind := if F.lBind then none else c.bind,
    flash := applyRelease F.lFlash c.flash,
    viewBind := if F.lViewBind then [] else c.viewBind,
    redirect := if F.lRedirect then none else c.redirect }

/-! ### sync.Pool: any object that was put back may be handed out -/

def takeAt {α : Type} (pool : List α) (i : Nat) (new : α) : α × List α :=
  match pool[i]? with
  | some x => (x, pool.eraseIdx i)
  | none => (new, pool)

/-! ### flash decode -/

/-- `UnmarshalMsg` into the context's slice (given its whole backing array): re-slice when the
    capacity suffices (elements keep what they held), otherwise a new zeroed array; then assign the
    fields present in the cookie. -/
def decodeInto (backing : List Msg) (ps : List PMsg) : Slice :=
  let n := ps.length
  let base := if n ≤ backing.length then backing else List.replicate n Msg.zero
  ⟨List.zipWith PMsg.over ps (base.take n), base.drop n⟩

/-! ### response under construction -/

inductive FlashCookie where
  | none
  | expire
  | msgs (ms : List Msg)
  deriving DecidableEq, Repr, Inhabited

structure Resp where
  status : Nat := 200
  ctype : Bytes := b "text/plain; charset=utf-8"
  location : Bytes := []
  setFlash : FlashCookie := .none
  mw : Bool := false
  xa : Option Bytes := none
  xb : Option Bytes := none
  allow : Bytes := []
  cacheControl : Bytes := []
  disposition : Bytes := []
  encoding : Bytes := []
  contentRange : Bytes := []
  body : Bytes := []
  sent : Bool := false            -- the handler answered with a file: no `SendString("ok")`
  deriving DecidableEq, Repr, Inhabited

/-- what the probe saw when its script reached `ob` -/
structure Seen where
  params : List Bytes
  msgs : List Msg
  old : List Msg
  view : List (Bytes × Bytes)
  locals : List Bytes
  base : Bytes
  deriving DecidableEq, Repr, Inhabited

structure Obs where
  resp : Resp
  seen : Option Seen
  deriving DecidableEq, Repr, Inhabited

/-! ### routing on the harness' route table -/

inductive PathKind where
  | p (a b : Bytes)
  | q (x : Bytes)
  | s (rest : Bytes)
  | plain
  | onlyPost
  | t
  | unknown
  deriving DecidableEq, Repr, Inhabited

def segments (path : Bytes) : List Bytes := (splitOn path 47).drop 1

/-- `none`: a path outside the modelled vocabulary (first segment names a route but the shape is
    not one the harness sends) -/
def classify (path : Bytes) : Option PathKind :=
  match segments path with
  | [] => none
  | f :: rest =>
    if f = b "p" then (match rest with | [x, y] => if x ≠ [] ∧ y ≠ [] then some (.p x y) else none | _ => none)
    else if f = b "q" then (match rest with | [] => some (.q []) | [x] => if x ≠ [] then some (.q x) else none | _ => none)
    else if f = b "s" then (match rest with | [] => some (.s []) | r => if r.all (· ≠ []) then some (.s (join r (b "/"))) else none)
    else if f = b "plain" then (if rest = [] then some .plain else none)
    else if f = b "only-post" then (if rest = [] then some .onlyPost else none)
    else if f = b "t" then (if rest = [] then some .t else none)
    else if f = [] then none
    else some .unknown

/-- route id and parameter values written by `getMatch` -/
def routeOf : PathKind → Option (Nat × List Bytes)
  | .p x y => some (1, [x, y])
  | .q x => some (2, [x])
  | .s r => some (3, [r])
  | .plain => some (4, [])
  | .onlyPost => some (5, [])
  | .t => some (6, [])
  | .unknown => none

def allowsGet (id : Nat) : Bool := id != 5
def allowsPost (id : Nat) : Bool := id != 6

def allows (id : Nat) (m : Bytes) : Bool :=
  (m = b "GET" && allowsGet id) || (m = b "POST" && allowsPost id)

/-- helpers.go `methodExist`: the Allow header assembled in `RequestMethods` order -/
def allowHeader (id : Nat) (m : Bytes) : Bytes :=
  join ((if allowsGet id && m ≠ b "GET" then [b "GET"] else []) ++ (if allowsPost id && m ≠ b "POST" then [b "POST"] else [])) (b ", ")

/-- `match` writes the values of a route's parameters into the first slots of `c.values` -/
def writeValues (vs old : List Bytes) : List Bytes := vs ++ old.drop vs.length

/-- ctx.go `Params(name)` for the i-th parameter name of the matched route: reads slot i -/
def readParams (values : List Bytes) (n : Nat) : List Bytes := (List.range n).map fun i => values.getD i []

/-! ### running a handler script -/

structure Live where
  bind : Option Bool
  redirect : Option Redirect
  viewBind : List (Bytes × Bytes)
  baseURI : Bytes
  locals : List (Bytes × Bytes)
  reds : List Redirect               -- redirectPool
  resp : Resp
  seen : Option Seen
  err : Option Nat
  deriving Repr, Inhabited

def setKV (l : List (Bytes × Bytes)) (k v : Bytes) : List (Bytes × Bytes) :=
  if l.any (·.1 == k) then l.map fun p => if p.1 == k then (k, v) else p else l ++ [(k, v)]

def lookupKV (l : List (Bytes × Bytes)) (k : Bytes) : Option Bytes := (l.find? (·.1 == k)).map (·.2)

/-- ctx.go `Redirect()`: attach a Redirect taken from redirectPool (object `pick`, or a new one) -/
def Live.withRedirect (s : Live) (pick : Nat) : Live × Redirect :=
  match s.redirect with
  | some r => (s, r)
  | none =>
    let (r, rest) := takeAt s.reds pick Redirect.fresh
    ({ s with redirect := some r, reds := rest }, r)

/-- redirect.go `With`: overwrite the first visible non-old-input message with that key, else append -/
def withMsg (sl : Slice) (k v : Bytes) (l : Nat) : Slice :=
  match sl.vis.findIdx? fun m => m.key == k && !m.old with
  | some i => { sl with vis := sl.vis.modify i fun m => { m with value := v, level := l } }
  | none => sl.push ⟨k, v, l, false⟩

/-- keys in ascending order, last value of each (Go map filled by the query binder; iteration
    order is not observable: the harness sorts the decoded cookie) -/
def lexLt : Bytes → Bytes → Bool
  | [], [] => false
  | [], _ :: _ => true
  | _ :: _, [] => false
  | x :: xs, y :: ys => if x < y then true else if y < x then false else lexLt xs ys

def insertKey (k : Bytes) : List Bytes → List Bytes
  | [] => [k]
  | x :: xs => if k == x then x :: xs else if lexLt k x then k :: x :: xs else x :: insertKey k xs

def lastValues (ps : List (Bytes × Bytes)) : List (Bytes × Bytes) :=
  (ps.foldl (fun acc p => insertKey p.1 acc) []).map fun k => (k, ((ps.reverse.find? (·.1 == k)).map (·.2)).getD [])

def allDigits (s : Bytes) : Bool := !s.isEmpty && s.all isDigit

/-- binder/query.go + gofiber/schema for `struct{N int}`: the LAST `n` value must be a decimal -/
def bindQueryFails (q : List (Bytes × Bytes)) : Bool :=
  match (q.reverse.find? (·.1 == b "n")) with
  | some p => !allDigits p.2
  | none => false

/-- ctx.go `BaseURL`: the cached value if there is one, else scheme + host of the request -/
def baseURL (cached host : Bytes) : Bytes := if cached ≠ [] then cached else b "http://" ++ host

def insertSortedKV (p : Bytes × Bytes) : List (Bytes × Bytes) → List (Bytes × Bytes)
  | [] => [p]
  | x :: xs => if lexLt p.1 x.1 then p :: x :: xs else x :: insertSortedKV p xs

def sortKV (l : List (Bytes × Bytes)) : List (Bytes × Bytes) := l.foldl (fun acc p => insertSortedKV p acc) []

/-- the two files of the harness: 60 lines of nine `a` (directory A) / nine `b` (directory B) -/
def fileContent (fs : Nat) : Bytes :=
  (List.replicate 60 (List.replicate 9 (if fs = 2 then 98 else 97) ++ [10])).flatten

/-- ctx.go `SendFile` on the response, given the entry `v` that `App.sendfiles` handed the call (for a
    transparent store that is the entry of its own configuration,
    `sfVal cfg` — the cache is a transparent memo table (`SendFile.lean`: `serve_transparent`, for every
    store any sequence of calls can have produced, given that `compareConfig` compares every field,
    which is a regenerated fact). The fasthttp FS handler serves the file (a byte range when it accepts
    ranges and the request asks for one; gzip when it compresses and the request still carries
    Accept-Encoding, which `SendFile` deletes unless `cfg.Compress`); a status set earlier wins over
    200/206; Cache-Control from the entry; Content-Disposition from the caller's own `Download`. -/
def sendFileWith (v : SFVal) (cfg : SFCfg) (hdr : Nat) (r : Resp) : Resp :=
  let ranged := v.byteRange && hdr == 1
  let content := fileContent v.fs
  { r with
    status := if r.status = 200 then (if ranged then 206 else 200) else r.status,
    cacheControl := if r.status ≠ 404 ∧ r.status ≠ 403 ∧ v.maxAge > 0 then b "public, max-age=" ++ natToDec v.maxAge else r.cacheControl,
    disposition := if cfg.download then b "attachment" else r.disposition,
    encoding := if v.compress && cfg.compress && hdr == 2 then b "gzip" else r.encoding,
    contentRange := if ranged then b "bytes 0-3/600" else r.contentRange,
    body := if ranged then content.take 4 else content,
    sent := true }

/-- … with the entry of the call's own configuration (what a transparent store returns; `Store.lean` threads
    the store itself through the world: `actS`) -/
def sendFile (cfg : SFCfg) (hdr : Nat) (r : Resp) : Resp := sendFileWith (sfVal cfg) cfg hdr r

/-- one script action. `params`/`flashVis`: what `Params` / the flash readers return in this request;
    `rq`: the request; `pick`: which pooled Redirect `Redirect()` would get. -/
def act (rq : Req) (params : List Bytes) (flashVis : List Msg) (pick : Nat) (s : Live) : Act → Live
  | .vb k v => { s with viewBind := setKV s.viewBind k v }
  | .lo k v => { s with locals := setKV s.locals k v }
  | .wi k v l =>
    let t := (s.withRedirect pick).1
    let r := (s.withRedirect pick).2
    { t with redirect := some { r with msgs := withMsg r.msgs k v l } }
  | .inp =>
    let t := (s.withRedirect pick).1
    let r := (s.withRedirect pick).2
    -- r.c.Bind().Query(oldInput): creates the Bind object if there is none
    { t with bind := some (t.bind.getD true),
             redirect := some { r with msgs := (lastValues rq.query).foldl (fun sl p => sl.push ⟨p.1, p.2, 0, true⟩) r.msgs } }
  | .rs n =>
    let t := (s.withRedirect pick).1
    let r := (s.withRedirect pick).2
    { t with redirect := some { r with status := n } }
  | .to p =>
    let t := (s.withRedirect pick).1
    let r := (s.withRedirect pick).2
    { t with resp := { t.resp with location := p, status := r.status,
                                   setFlash := if r.msgs.vis.isEmpty then t.resp.setFlash else .msgs r.msgs.vis } }
  | .ba => { s with bind := some false }
  | .bq =>
    { s with bind := some (s.bind.getD true),
             resp := if bindQueryFails rq.query && !(s.bind.getD true) then { s.resp with status := 400 } else s.resp }
  | .sh k v =>
    if k = b "X-A" then { s with resp := { s.resp with xa := some v } }
    else if k = b "X-B" then { s with resp := { s.resp with xb := some v } }
    else s
  | .bu => { s with baseURI := baseURL s.baseURI rq.host }
  | .er n => { s with err := some n }
  | .sf cfg hdr => { s with resp := sendFile cfg hdr s.resp }
  | .ob =>
    let t := (s.withRedirect pick).1                               -- c.Redirect().Messages()
    { t with seen := some { params := params, msgs := flashVis.filter (!·.old), old := flashVis.filter (·.old),
                            view := sortKV t.viewBind,
                            locals := [(lookupKV t.locals (b "u")).getD (b "<nil>"), (lookupKV t.locals (b "r")).getD (b "<nil>")],
                            base := baseURL t.baseURI rq.host },
             baseURI := baseURL t.baseURI rq.host, bind := some (t.bind.getD true),
             resp := { t.resp with ctype := b "text/html; charset=utf-8", body := [] } }

def runScript (rq : Req) (params : List Bytes) (flashVis : List Msg) (pick : Nat) (s : Live) (sc : List Act) : Live :=
  sc.foldl (act rq params flashVis pick) s

/-- handler epilogue + app.go `DefaultErrorHandler` -/
def finish (s : Live) : Resp :=
  match s.err with
  | some n => { s.resp with ctype := b "text/plain; charset=utf-8", status := n, body := b "e" ++ natToDec n }
  | none => if s.resp.sent then s.resp else { s.resp with body := b "ok" }

/-! ### one request through the pooled context -/

structure World where
  ctxs : List Ctx
  reds : List Redirect
  deriving Repr, Inhabited

def World.empty : World := ⟨[], []⟩

/-- which pooled objects sync.Pool hands out for this request -/
structure Pick where
  ctx : Nat
  red : Nat
  deriving Repr, Inhabited

/-- redirect.go `parseAndClearFlashMessages` on the context's slice: returns the slice after
    decoding (its visible part is what the flash readers return) and the cookie put on the response -/
def flashStep (F : RFacts) (v : Bytes) (fl : Slice) : Slice × FlashCookie :=
  if v = [] then (fl, .none)
  else
    let backing := if F.lc.flashDecodeWipes then fl.backing.map (fun _ => Msg.zero) else fl.backing
    match parseFlash v with
    | some ps => (decodeInto backing ps, .expire)
    | none => (⟨[], backing⟩, .expire)

def notFoundBody (rq : Req) : Bytes := b "Cannot " ++ rq.method ++ b " " ++ rq.path

/-- what `defaultRequestHandler` / `next` / `methodExist` decide for the request -/
inductive Outcome where
  | notImplemented                       -- unknown method: 501 before anything else
  | outside                              -- path outside the modelled vocabulary
  | notFound
  | notAllowed (allow : Bytes)
  | handler (id : Nat) (vs : List Bytes)
  deriving DecidableEq, Repr, Inhabited

def outcome (rq : Req) (methodInt indexRoute : Int) (matched : Bool) : Outcome :=
  if methodInt = -1 then .notImplemented
  else match classify rq.path with
    | none => .outside
    | some kind =>
      match routeOf kind with
      | some (id, vs) =>
        if allows id rq.method && indexRoute < (id : Int) then .handler id vs
        else if !matched then .notAllowed (allowHeader id rq.method) else .notFound
      | none => .notFound

def errResp (base : Resp) (status : Nat) (body : Bytes) : Resp :=
  { base with ctype := b "text/plain; charset=utf-8", status := status, body := body }

/-- the state the handler chain starts from: what the context carries + the redirect pool -/
def Live.start (c : Ctx) (reds : List Redirect) : Live :=
  { bind := c.bind, redirect := c.redirect, viewBind := c.viewBind, baseURI := c.baseURI,
    locals := [], reds := reds, resp := {}, seen := none, err := none }

/-- flash check of `defaultRequestHandler`: `ctx.Redirect().parseAndClearFlashMessages()` when the
    raw headers mention the cookie -/
def flashStage (F : RFacts) (cookie : Option Bytes) (pick : Nat) (s : Live) (fl : Slice) : Live × Slice :=
  match cookie with
  | none => (s, fl)
  | some v =>
    let (s, _) := s.withRedirect pick
    let (fl, ck) := flashStep F v fl
    ({ s with resp := { s.resp with setFlash := ck } }, fl)

/-! ### one request, step by step

The service of one request is split into the steps its goroutine performs between two pool operations
(`Flight.acquire`, `Flight.enter`, one `Flight.stepAct` per handler action, `Flight.retire`); `serveOn`
runs them without interruption, `Sched.lean` lets arbitrary schedules interleave the steps of many
requests. -/

/-- a request being served: what its goroutine holds between acquire and release -/
structure Flight where
  orig : Req                -- the request as submitted
  rq : Req                  -- the request as the handlers read it (through `c.fasthttp`)
  c : Ctx                   -- the pooled context after Reset
  out : Outcome
  s : Live                  -- handler state (`s.reds`: redirectPool as this request saw it last)
  fl : Slice                -- c.flashMessages
  values : List Bytes       -- c.values
  todo : List Act           -- what is left of the handler's script
  entered : Bool            -- flash check / middleware / route match done
  deriving Repr, Inhabited

/-- `AcquireCtx` (Reset) on pooled context `c0` + the method check of the request handler -/
def Flight.acquire (F : RFacts) (c0 : Ctx) (rq : Req) : Flight :=
  let c := if F.lc.acquireResets then reset F rq c0 else c0
  let rq' := c.fasthttp.getD rq          -- handlers read the request through c.fasthttp
  { orig := rq, rq := rq', c := c, out := outcome rq' c.methodInt c.indexRoute c.matched,
    s := Live.start c [], fl := c.flash, values := c.values, todo := [], entered := false }

/-- flash check (`Redirect()` = redirectPool.Get, `parseAndClearFlashMessages`), then `next`: the `Use`
    middleware and the route match (which writes `c.values`); `reds` is redirectPool as it is now.
    An unknown method is answered with 501 before any of this. -/
def Flight.enter (F : RFacts) (f : Flight) (reds : List Redirect) (pick : Nat) : Flight × List Redirect :=
  if f.entered then (f, reds) else
  match f.out with
  | .notImplemented => ({ f with s := { f.s with reds := reds }, entered := true }, reds)
  | out =>
    let st := flashStage F f.rq.flash pick { f.s with reds := reds } f.fl
    let s1 : Live := { st.1 with resp := { st.1.resp with mw := true } }          -- the Use middleware, then Next
    ({ f with s := s1, fl := st.2, entered := true,
              values := (match out with | .handler _ vs => writeValues vs f.values | _ => f.values),
              todo := (match out with | .handler _ _ => f.rq.script | _ => []) }, s1.reds)

/-- what `Params` returns to the handler -/
def Flight.params (f : Flight) : List Bytes :=
  match f.out with
  | .handler _ vs => readParams f.values vs.length
  | _ => []

/-- the next action of the handler -/
def Flight.stepAct (f : Flight) (reds : List Redirect) (pick : Nat) : Flight × List Redirect :=
  match f.todo with
  | [] => (f, reds)
  | a :: rest =>
    let s := act f.rq f.params f.fl.vis pick { f.s with reds := reds } a
    ({ f with s := s, todo := rest }, s.reds)

/-- the response: handler epilogue / error handler -/
def Flight.resp (f : Flight) : Resp :=
  match f.out with
  | .notImplemented => { status := 501, body := b "Not Implemented" }
  | .handler _ _ => finish f.s
  | .notAllowed allow => { errResp f.s.resp 405 (b "Method Not Allowed") with allow := allow }
  | .outside => { f.s.resp with status := 500, body := b "outside-model" }
  | .notFound => errResp f.s.resp 404 (notFoundBody f.rq)

/-- the context as the request leaves it (before `release`) -/
def Flight.ctxAtEnd (f : Flight) : Ctx :=
  { f.c with bind := f.s.bind, redirect := f.s.redirect, viewBind := f.s.viewBind, baseURI := f.s.baseURI,
             flash := f.fl, values := f.values,
             route := (match f.out with | .handler id _ => some id | .notImplemented => f.c.route | _ => some 0),
             matched := (match f.out with | .handler .. => true | _ => f.c.matched),
             indexRoute := (match f.out with | .handler id _ => (id : Int) | .notImplemented => f.c.indexRoute | _ => 6) }

/-- the application's `ErrorHandler` (harness/cmd/c05 `errorHandler`): an error page that touches every
    channel — `ViewBind`, `Redirect().With(..).Status(307)`, `Bind().WithAutoHandling()`, `BaseURL()` —
    and then answers like `DefaultErrorHandler`. It runs for 404, 405, errors returned by handlers and
    (through app.go `serverErrorHandler`) for requests fasthttp rejects. -/
def plantActs : List Act := [.vb (b "eh") (b "1"), .wi (b "eh") (b "1") 7, .rs 307, .ba, .bu]

/-- does `app.ErrorHandler` run for this request? -/
def Flight.failed (f : Flight) : Bool :=
  match f.out with
  | .notFound => true
  | .notAllowed _ => true
  | .handler _ _ => f.s.err.isSome
  | _ => false

/-- the handler state when the request handler returns: after the error handler, if it runs -/
def Flight.atEnd (f : Flight) (reds : List Redirect) (pick : Nat) : Live :=
  if f.failed then runScript f.rq f.params f.fl.vis pick { f.s with reds := reds } plantActs
  else { f.s with reds := reds }

/-- deferred `ReleaseCtx`: `release()` (the attached Redirect goes back to redirectPool through
    `ReleaseRedirect`), `pool.Put`. Returns the context as it goes back to the pool, redirectPool
    afterwards, and the request's observation. -/
def Flight.retire (F : RFacts) (f : Flight) (reds : List Redirect) (pick : Nat) : Ctx × List Redirect × Obs :=
  let s := f.atEnd reds pick
  let reds := match s.redirect with
    | some r => if F.lc.ctxReleaseReturnsRedirect && F.lRedirect then
                  (if F.lc.redirectReleaseBeforePut then r.released F else r) :: s.reds else s.reds
    | none => s.reds
  let c := if F.lc.releaseBeforePut && F.lc.handlerDefersRelease then release F { f with s := s }.ctxAtEnd
           else { f with s := s }.ctxAtEnd
  (c, reds, { resp := f.resp, seen := f.s.seen })

/-- run what is left of one request without interruption -/
def Flight.complete (F : RFacts) (g : Flight) (reds : List Redirect) (pick : Nat) : Ctx × List Redirect × Obs :=
  let e := g.enter F reds pick
  let s := runScript e.1.rq e.1.params e.1.fl.vis pick { e.1.s with reds := e.2 } e.1.todo
  Flight.retire F { e.1 with s := s, todo := [] } s.reds pick

/-- router.go `defaultRequestHandler` for one well-formed request on pooled context `c0`:
    AcquireCtx (Reset) … handler chain … deferred ReleaseCtx (release, Redirect back to its pool). -/
def serveOn (F : RFacts) (c0 : Ctx) (reds : List Redirect) (rq : Req) (pick : Nat) : Ctx × List Redirect × Obs :=
  (Flight.acquire F c0 rq).complete F reds pick

/-- app.go `serverErrorHandler` for a request fasthttp rejected (malformed header, garbage request
    line, truncated request): `AcquireCtx` (Reset on whatever was parsed), the application's error
    handler, deferred `ReleaseCtx`. The context goes through the pools like any other. -/
def serveBad (F : RFacts) (c0 : Ctx) (reds : List Redirect) (rq : Req) (pick : Nat) : Ctx × List Redirect :=
  let r := Flight.retire F { Flight.acquire F c0 rq with out := .notFound, entered := true } reds pick
  (r.1, r.2.1)

/-- one request against the world. A malformed request is answered by fasthttp + `serverErrorHandler`
    (its response is not part of the modelled observation: the probe is always well-formed). -/
def step (F : RFacts) (w : World) (rq : Req) (pk : Pick) : World × Option Obs :=
  if rq.bad ≠ 0 then
    let (c0, rest) := takeAt w.ctxs pk.ctx Ctx.fresh
    let (c, reds) := serveBad F c0 w.reds rq pk.red
    ({ ctxs := c :: rest, reds := reds }, none)
  else
    let (c0, rest) := takeAt w.ctxs pk.ctx Ctx.fresh
    let (c, reds, o) := serveOn F c0 w.reds rq pk.red
    ({ ctxs := c :: rest, reds := reds }, some o)

/-- a history: requests with the pool choices made for them -/
def runHistory (F : RFacts) (w : World) : List (Req × Pick) → World
  | [] => w
  | (rq, pk) :: rest => runHistory F (step F w rq pk).1 rest

/-- the probe's observation after a history -/
def probeAfter (F : RFacts) (hist : List (Req × Pick)) (probe : Req) (pk : Pick) : Option Obs :=
  (step F (runHistory F World.empty hist) probe pk).2

/-- … and on a fresh app (empty pools) -/
def probeFresh (F : RFacts) (probe : Req) : Option Obs :=
  (step F World.empty probe ⟨0, 0⟩).2

end C05
