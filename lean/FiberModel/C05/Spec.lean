import FiberModel.C05.Model
/-
C05 — the property as an executable predicate:

  "Everything a handler can observe through the context, and the response the server produces, depend
   only on the current request, the application's configuration and routes … never on which requests
   were served earlier … the probe's observation must equal the observation on a fresh app."

`specViolation` is evaluated by the driver on the IMPLEMENTATION's observations: the probe's modelled
vector after the history (`hist`), the same probe's vector on a fresh app with emptied pools (`fresh`)
and the list of entries of the full vector (every accessor found by reflection + the response bytes)
that differ between the two runs. For the model the same statement is `probeAfter = probeFresh`
(Props.lean).
-/
namespace C05

/-- The response side. fasthttp hands every request a response object it has reset itself (status, headers,
    content type, cookies, body buffer); fiber's response helpers (`Status`, `Type`, `Append`, `Vary`, `Links`,
    `Format`, `Cookie`, `SendStream`…) keep nothing on the pooled context, they write into that object. The
    model takes "the response starts empty" as a hypothesis (`Live.start`: `resp := {}`); this clause checks it
    on every case: the raw reply (status line, all headers but `Date` in wire order, body) of the probe after
    the history must be byte-identical to its raw reply on a fresh app. -/
def rawReplyEntry : String := "response"

def specViolation (fresh hist : String) (fullDiff : List String) : Option String :=
  if hist != fresh then some "probe-observation-depends-on-history"
  else if fullDiff.contains rawReplyEntry then
    some s!"raw-reply-depends-on-history {",".intercalate fullDiff}"
  else if !fullDiff.isEmpty then some s!"full-vector-depends-on-history {",".intercalate fullDiff}"
  else none

end C05
