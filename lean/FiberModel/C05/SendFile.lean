import FiberModel.Basic
/-
C05 — `App.sendfiles`: an app-level, lazily filled cache reached from `c.SendFile`.

ctx.go `SendFile` keeps, per application, a list of `sendFileStore{config, handler, cacheControlValue}`:
the fasthttp FS handler built from a configuration (FS, Compress, ByteRange, CacheDuration) and the
Cache-Control value (MaxAge). A call looks for the first entry whose `compareConfig(cfg)` says "same
configuration" (under RLock) and, on a miss, builds an entry from `cfg` and appends it (under Lock).
This is state shared between all requests of the app. It cannot carry anything from one request into
another exactly when it is a transparent memo table: the comparison looks at every field the cached value
depends on, so what a lookup returns is what the request would have built itself.

Which fields `compareConfig` compares is a regenerated fact (`Facts.sendFileCompared`, one row per field
of the `SendFile` struct); `SFMask` is that table.
-/
namespace C05
open B

/-- a `SendFile` configuration (harness vocabulary: FS 0 none / 1 directory A / 2 directory B;
    CacheDuration and MaxAge as the values themselves) -/
structure SFCfg where
  fs : Nat
  compress : Bool
  byteRange : Bool
  download : Bool
  cacheDur : Nat
  maxAge : Nat
  deriving DecidableEq, Repr, Inhabited

/-- which fields `compareConfig` compares -/
structure SFMask where
  fs : Bool
  compress : Bool
  byteRange : Bool
  download : Bool
  cacheDur : Bool
  maxAge : Bool
  deriving DecidableEq, Repr, Inhabited

/-- ctx.go `(*sendFileStore).compareConfig` -/
def SFMask.same (m : SFMask) (a b : SFCfg) : Bool :=
  (!m.fs || a.fs == b.fs) && (!m.compress || a.compress == b.compress) && (!m.byteRange || a.byteRange == b.byteRange) &&
  (!m.download || a.download == b.download) && (!m.cacheDur || a.cacheDur == b.cacheDur) && (!m.maxAge || a.maxAge == b.maxAge)

/-- what an entry holds: the parameters of the fasthttp FS handler and the Cache-Control value -/
structure SFVal where
  fs : Nat
  compress : Bool
  byteRange : Bool
  cacheDur : Nat
  maxAge : Nat
  deriving DecidableEq, Repr, Inhabited

/-- the entry `SendFile` builds from a configuration on a miss (`Download` is not part of it: the
    Content-Disposition header is set from the caller's own configuration) -/
def sfVal (c : SFCfg) : SFVal :=
  { fs := c.fs, compress := c.compress, byteRange := c.byteRange, cacheDur := c.cacheDur, maxAge := c.maxAge }

abbrev SFStore := List (SFCfg × SFVal)

/-- the read half of `SendFile`: first entry `compareConfig` accepts -/
def SFStore.lookup (m : SFMask) (st : SFStore) (c : SFCfg) : Option SFVal :=
  (st.find? fun e => m.same e.1 c).map (·.2)

/-- the two halves are separate critical sections: two requests with the same new configuration may both
    miss and both append -/
inductive SFOp where
  | serve (c : SFCfg)      -- lookup; on a miss build and append
  | append (c : SFCfg)     -- the append of a request that missed earlier
  deriving Repr

def SFStore.serve (m : SFMask) (st : SFStore) (c : SFCfg) : SFVal × SFStore :=
  match st.lookup m c with
  | some v => (v, st)
  | none => (sfVal c, st ++ [(c, sfVal c)])

def SFStore.step (m : SFMask) (st : SFStore) : SFOp → SFStore
  | .serve c => (st.serve m c).2
  | .append c => st ++ [(c, sfVal c)]

def SFStore.run (m : SFMask) (st : SFStore) (ops : List SFOp) : SFStore := ops.foldl (SFStore.step m) st

/-- every field the cached value depends on is compared -/
def SFMask.complete (m : SFMask) : Bool := m.fs && m.compress && m.byteRange && m.cacheDur && m.maxAge

/-- every entry holds what its own configuration builds -/
def SFStore.WF (st : SFStore) : Prop := ∀ e ∈ st, e.2 = sfVal e.1

theorem same_sfVal {m : SFMask} (hm : m.complete = true) {a b : SFCfg} (h : m.same a b = true) : sfVal a = sfVal b := by
  simp only [SFMask.complete, Bool.and_eq_true] at hm
  obtain ⟨⟨⟨⟨h1, h2⟩, h3⟩, h4⟩, h5⟩ := hm
  simp only [SFMask.same, h1, h2, h3, h4, h5, Bool.not_true, Bool.false_or, Bool.and_eq_true, beq_iff_eq] at h
  obtain ⟨⟨⟨⟨⟨e1, e2⟩, e3⟩, _⟩, e5⟩, e6⟩ := h
  simp [sfVal, e1, e2, e3, e5, e6]

theorem lookup_transparent {m : SFMask} (hm : m.complete = true) {st : SFStore} (wf : st.WF) (c : SFCfg) (v : SFVal)
    (h : st.lookup m c = some v) : v = sfVal c := by
  unfold SFStore.lookup at h
  cases hf : st.find? (fun e => m.same e.1 c) with
  | none => simp [hf] at h
  | some e =>
    simp [hf] at h
    subst h
    rw [wf e (List.mem_of_find?_eq_some hf)]
    have := List.find?_some hf
    exact same_sfVal hm this

theorem serve_transparent {m : SFMask} (hm : m.complete = true) {st : SFStore} (wf : st.WF) (c : SFCfg) :
    (st.serve m c).1 = sfVal c ∧ (st.serve m c).2.WF := by
  unfold SFStore.serve
  cases h : st.lookup m c with
  | some v => exact ⟨lookup_transparent hm wf c v h, wf⟩
  | none =>
    refine ⟨rfl, ?_⟩
    intro e he
    rcases List.mem_append.mp he with he | he
    · exact wf e he
    · simp at he; subst he; rfl

theorem run_wf {m : SFMask} (hm : m.complete = true) (ops : List SFOp) {st : SFStore} (wf : st.WF) : (st.run m ops).WF := by
  induction ops generalizing st with
  | nil => exact wf
  | cons op rest ih =>
    apply ih
    cases op with
    | serve c => exact (serve_transparent hm wf c).2
    | append c =>
      intro e he
      rcases List.mem_append.mp he with he | he
      · exact wf e he
      · simp at he; subst he; rfl

end C05
