import FiberModel.Basic
/-
C05 — the flash-cookie decoder (redirect_msgp.go `redirectionMsgs.UnmarshalMsg` /
`redirectionMsg.UnmarshalMsg` over the tinylib/msgp byte readers), as far as the isolation property
needs it: WHICH fields of WHICH message a cookie assigns. A message whose map lacks a field leaves
that field of the (reused) slice element untouched - that is the leak channel the property names.

`parseFlash` returns, for a well-formed encoding, one `PMsg` per message with the fields present
in the cookie; `none` for anything `UnmarshalMsg` rejects (short input, wrong type, trailing bytes are
rejected by the caller). The readers follow msgp: `ReadArrayHeaderBytes`, `ReadMapHeaderBytes`,
`ReadMapKeyZC` (str or bin), `ReadStringBytes`, `ReadUint8Bytes` (any non-negative integer encoding
that fits 8 bits), `ReadBoolBytes`, `Skip` (any well-formed object).
-/
namespace C05
open B

structure Msg where
  key : Bytes
  value : Bytes
  level : Nat
  old : Bool
  deriving DecidableEq, Repr, Inhabited

def Msg.zero : Msg := ⟨[], [], 0, false⟩

/-- the fields a cookie assigns in one message -/
structure PMsg where
  key : Option Bytes := none
  value : Option Bytes := none
  level : Option Nat := none
  old : Option Bool := none
  deriving DecidableEq, Repr, Inhabited

/-- `z.key, … = …` only for the fields present: everything else keeps what the element held. -/
def PMsg.over (p : PMsg) (m : Msg) : Msg :=
  { key := p.key.getD m.key, value := p.value.getD m.value, level := p.level.getD m.level, old := p.old.getD m.old }

def takeN (n : Nat) (bs : Bytes) : Option (Bytes × Bytes) :=
  if n ≤ bs.length then some (bs.take n, bs.drop n) else none

def beNat (bs : Bytes) : Nat := bs.foldl (fun a x => a * 256 + x) 0

def readBE (n : Nat) (bs : Bytes) : Option (Nat × Bytes) :=
  (takeN n bs).map fun (h, t) => (beNat h, t)

def readArrayHeader : Bytes → Option (Nat × Bytes)
  | [] => none
  | c :: r =>
    if 0x90 ≤ c ∧ c ≤ 0x9f then some (c - 0x90, r)
    else if c = 0xdc then readBE 2 r
    else if c = 0xdd then readBE 4 r
    else none

def readMapHeader : Bytes → Option (Nat × Bytes)
  | [] => none
  | c :: r =>
    if 0x80 ≤ c ∧ c ≤ 0x8f then some (c - 0x80, r)
    else if c = 0xde then readBE 2 r
    else if c = 0xdf then readBE 4 r
    else none

def readLenData (n : Nat) (r : Bytes) : Option (Bytes × Bytes) := do
  let (len, r) ← readBE n r
  takeN len r

/-- `ReadStringBytes` -/
def readStr : Bytes → Option (Bytes × Bytes)
  | [] => none
  | c :: r =>
    if 0xa0 ≤ c ∧ c ≤ 0xbf then takeN (c - 0xa0) r
    else if c = 0xd9 then readLenData 1 r
    else if c = 0xda then readLenData 2 r
    else if c = 0xdb then readLenData 4 r
    else none

/-- `ReadMapKeyZC`: a string, or a bin -/
def readMapKey (bs : Bytes) : Option (Bytes × Bytes) :=
  match readStr bs with
  | some x => some x
  | none =>
    match bs with
    | 0xc4 :: r => readLenData 1 r
    | 0xc5 :: r => readLenData 2 r
    | 0xc6 :: r => readLenData 4 r
    | _ => none

/-- `ReadUint8Bytes` = `ReadUint64Bytes` + range check -/
def readUint8 : Bytes → Option (Nat × Bytes)
  | [] => none
  | c :: r =>
    let fit (x : Option (Nat × Bytes)) : Option (Nat × Bytes) := x.bind fun (v, t) => if v ≤ 255 then some (v, t) else none
    let signed (n : Nat) : Option (Nat × Bytes) :=      -- int8/16/32/64: only non-negative values
      fit ((readBE n r).bind fun (v, t) => if v < 2 ^ (8 * n - 1) then some (v, t) else none)
    if c < 0x80 then some (c, r)
    else if c = 0xcc then fit (readBE 1 r)
    else if c = 0xcd then fit (readBE 2 r)
    else if c = 0xce then fit (readBE 4 r)
    else if c = 0xcf then fit (readBE 8 r)
    else if c = 0xd0 then signed 1
    else if c = 0xd1 then signed 2
    else if c = 0xd2 then signed 4
    else if c = 0xd3 then signed 8
    else none

def readBool : Bytes → Option (Bool × Bytes)
  | 0xc2 :: r => some (false, r)
  | 0xc3 :: r => some (true, r)
  | _ => none

/-- `msgp.Skip`: step over `k` well-formed objects (fuel = input length bounds the work). -/
def skipN : Nat → Nat → Bytes → Option Bytes
  | _, 0, bs => some bs
  | 0, _ + 1, _ => none
  | fuel + 1, k + 1, bs =>
    match bs with
    | [] => none
    | c :: r =>
      let fixed (n : Nat) : Option Bytes := (takeN n r).bind fun (_, t) => skipN fuel k t
      let lenData (n : Nat) (extra : Nat) : Option Bytes :=
        (readBE n r).bind fun (len, t) => (takeN (len + extra) t).bind fun (_, t') => skipN fuel k t'
      if c < 0x80 ∨ 0xe0 ≤ c then skipN fuel k r                       -- fixints
      else if c ≤ 0x8f then skipN fuel (k + 2 * (c - 0x80)) r          -- fixmap
      else if c ≤ 0x9f then skipN fuel (k + (c - 0x90)) r              -- fixarray
      else if c ≤ 0xbf then fixed (c - 0xa0)                            -- fixstr
      else if c = 0xc0 ∨ c = 0xc2 ∨ c = 0xc3 then skipN fuel k r       -- nil, bools
      else if c = 0xc4 ∨ c = 0xd9 then lenData 1 0
      else if c = 0xc5 ∨ c = 0xda then lenData 2 0
      else if c = 0xc6 ∨ c = 0xdb then lenData 4 0
      else if c = 0xc7 then lenData 1 1
      else if c = 0xc8 then lenData 2 1
      else if c = 0xc9 then lenData 4 1
      else if c = 0xca ∨ c = 0xce ∨ c = 0xd2 then fixed 4
      else if c = 0xcb ∨ c = 0xcf ∨ c = 0xd3 then fixed 8
      else if c = 0xcc ∨ c = 0xd0 then fixed 1
      else if c = 0xcd ∨ c = 0xd1 then fixed 2
      else if c = 0xd4 then fixed 2
      else if c = 0xd5 then fixed 3
      else if c = 0xd6 then fixed 5
      else if c = 0xd7 then fixed 9
      else if c = 0xd8 then fixed 17
      else if c = 0xdc then (readBE 2 r).bind fun (n, t) => skipN fuel (k + n) t
      else if c = 0xdd then (readBE 4 r).bind fun (n, t) => skipN fuel (k + n) t
      else if c = 0xde then (readBE 2 r).bind fun (n, t) => skipN fuel (k + 2 * n) t
      else if c = 0xdf then (readBE 4 r).bind fun (n, t) => skipN fuel (k + 2 * n) t
      else none                                                          -- 0xc1: never used

def skip1 (bs : Bytes) : Option Bytes := skipN (bs.length + 1) 1 bs

/-- the fields of one message (`redirectionMsg.UnmarshalMsg`): `n` key/value pairs -/
def readFields : Nat → PMsg → Bytes → Option (PMsg × Bytes)
  | 0, p, bs => some (p, bs)
  | n + 1, p, bs => do
    let (name, r) ← readMapKey bs
    if name = b "key" then
      let (v, r) ← readStr r
      readFields n { p with key := some v } r
    else if name = b "value" then
      let (v, r) ← readStr r
      readFields n { p with value := some v } r
    else if name = b "level" then
      let (v, r) ← readUint8 r
      readFields n { p with level := some v } r
    else if name = b "isOldInput" then
      let (v, r) ← readBool r
      readFields n { p with old := some v } r
    else
      let r ← skip1 r
      readFields n p r

def readMsg (bs : Bytes) : Option (PMsg × Bytes) := do
  let (n, r) ← readMapHeader bs
  if n > bs.length then none else readFields n {} r

def readMsgs : Nat → Bytes → Option (List PMsg × Bytes)
  | 0, bs => some ([], bs)
  | n + 1, bs => do
    let (m, r) ← readMsg bs
    let (ms, r) ← readMsgs n r
    some (m :: ms, r)

/-- redirect.go `parseAndClearFlashMessages` + `UnmarshalMsg`: the announced count must not exceed
    the bytes that follow, every message must decode, nothing may be left over. -/
def parseFlash (bs : Bytes) : Option (List PMsg) := do
  let (n, body) ← readArrayHeader bs
  if n > body.length then none
  let (ms, rest) ← readMsgs n body
  if rest.isEmpty then some ms else none

end C05
