import FiberModel.C05.Model
/-
C05 — helper lemmas for Props.lean: what of a pooled object is "garbage" (spare capacity of message
slices, stale `values`, routing scratch, which object the pool hands out) and why nothing a request
does can read it when the regenerated table is in order.
-/
namespace C05
open B

/-! ### the table digest is in order -/

def emptiesSlice : Assign → Bool
  | .reslice0 | .cleared | .zero => true
  | _ => false

/-- Every per-request field is assigned by Reset or emptied by release, the life-cycle calls are in
    place, and the flash decoder wipes the reused slice before decoding into it. -/
def RFacts.ok (F : RFacts) : Bool :=
  F.rFasthttp && F.rBaseURI && F.rPathOriginal && F.rPath && F.rDetectionPath && F.rTreePathHash &&
  F.rIndexRoute && F.rIndexHandler && F.rMethodInt && F.rMatched &&
  F.lRoute && F.lBind && F.lRedirect && F.lViewBind && emptiesSlice F.lFlash &&
  emptiesSlice F.dMessages && F.dStatus &&
  F.lc.acquireResets && F.lc.releaseBeforePut && F.lc.handlerDefersRelease &&
  F.lc.redirectReleaseBeforePut && F.lc.ctxReleaseReturnsRedirect && F.lc.flashDecodeWipes &&
  -- structural facts the model takes for granted: pooled objects only leave / enter the pools through
  -- Acquire* / Release*; the route-parameter slots are written before they are read (Values.lean)
  F.lc.poolOpsConfined && F.lc.starWritesSlot0 && F.lc.getMatchWritesBeforeRead && F.lc.paramsReadsRouteSlots &&
  -- App.sendfiles is a transparent memo table (SendFile.lean): compareConfig compares every field of the
  -- SendFile struct and an entry is keyed by the configuration it was built from
  F.sfAllCompared && F.sfMask.complete && F.lc.sendFileStoresOwnConfig

/-! ### clean pooled objects -/

/-- what `release` leaves of a context: nothing of the request, except garbage nobody can read -/
structure Ctx.Clean (c : Ctx) : Prop where
  route : c.route = none
  bind : c.bind = none
  redirect : c.redirect = none
  viewBind : c.viewBind = []
  flash : c.flash.vis = []

def Redirect.Clean (r : Redirect) : Prop := r.status = 302 ∧ r.msgs.vis = []

def PoolClean (reds : List Redirect) : Prop := ∀ r ∈ reds, r.Clean

structure World.Clean (w : World) : Prop where
  ctxs : ∀ c ∈ w.ctxs, c.Clean
  reds : PoolClean w.reds

theorem Ctx.fresh_clean : Ctx.fresh.Clean := ⟨rfl, rfl, rfl, rfl, rfl⟩
theorem Redirect.fresh_clean : Redirect.fresh.Clean := ⟨rfl, rfl⟩
theorem World.empty_clean : World.empty.Clean := ⟨by simp [World.empty], by simp [World.empty, PoolClean]⟩

theorem applyRelease_vis {k : Assign} (h : emptiesSlice k = true) (s : Slice) : (applyRelease k s).vis = [] := by
  cases k <;> simp [emptiesSlice] at h <;> rfl

theorem takeAt_mem {α : Type} (pool : List α) (i : Nat) (new : α) (P : α → Prop) (hnew : P new)
    (hp : ∀ x ∈ pool, P x) : P (takeAt pool i new).1 ∧ ∀ x ∈ (takeAt pool i new).2, P x := by
  unfold takeAt
  split
  · rename_i x hx
    refine ⟨hp x (List.mem_of_getElem? hx), fun y hy => hp y (List.mem_of_mem_eraseIdx hy)⟩
  · exact ⟨hnew, hp⟩

/-! ### values are overwritten before they are read -/

theorem getD_append_left (vs rest : List Bytes) (i : Nat) (h : i < vs.length) :
    (vs ++ rest).getD i [] = vs.getD i [] := by
  simp [List.getD, List.getElem?_append_left h]

theorem readParams_eq (vs : List Bytes) (rest : List Bytes) :
    readParams (vs ++ rest) vs.length = vs := by
  unfold readParams
  apply List.ext_getElem
  · simp
  · intro i h1 h2
    simp at h1
    simp [List.getD, List.getElem?_append_left h1, List.getElem?_eq_getElem h1]

/-! ### the flash decoder does not see leftovers once the slice is wiped -/

theorem zipWith_over_replicate (ps : List PMsg) :
    List.zipWith PMsg.over ps (List.replicate ps.length Msg.zero) = ps.map (·.over Msg.zero) := by
  induction ps with
  | nil => rfl
  | cons p ps ih => simp [List.replicate_succ, ih]

theorem map_zero_eq_replicate (l : List Msg) : l.map (fun _ => Msg.zero) = List.replicate l.length Msg.zero := by
  induction l with
  | nil => rfl
  | cons x xs ih => simp [List.replicate_succ, ih]

theorem decodeInto_zeros_vis (k : Nat) (ps : List PMsg) :
    (decodeInto (List.replicate k Msg.zero) ps).vis = ps.map (·.over Msg.zero) := by
  unfold decodeInto
  simp only [List.length_replicate]
  split
  · rename_i h
    rw [List.take_replicate, Nat.min_eq_left h, zipWith_over_replicate]
  · rw [List.take_replicate, Nat.min_self, zipWith_over_replicate]

/-- The visible result of the flash step is a function of the cookie alone. -/
theorem flashStep_indep (F : RFacts) (hw : F.lc.flashDecodeWipes = true) (v : Bytes) (fl fl' : Slice)
    (h : fl.vis = fl'.vis) :
    (flashStep F v fl).1.vis = (flashStep F v fl').1.vis ∧ (flashStep F v fl).2 = (flashStep F v fl').2 := by
  unfold flashStep
  by_cases hv : v = []
  · simp [hv, h]
  · simp only [hv, if_false, hw, if_true, map_zero_eq_replicate]
    cases parseFlash v <;> simp [decodeInto_zeros_vis]

/-! ### the handler state up to garbage -/

/-- the part of a pooled Redirect a request can see -/
def Redirect.view (r : Redirect) : Nat × List Msg := (r.status, r.msgs.vis)

/-- the handler state without the garbage: no spare capacity, no pool -/
structure Core where
  bind : Option Bool
  redirect : Option (Nat × List Msg)
  viewBind : List (Bytes × Bytes)
  baseURI : Bytes
  locals : List (Bytes × Bytes)
  resp : Resp
  seen : Option Seen
  err : Option Nat

def Live.core (s : Live) : Core :=
  { bind := s.bind, redirect := s.redirect.map Redirect.view, viewBind := s.viewBind, baseURI := s.baseURI,
    locals := s.locals, resp := s.resp, seen := s.seen, err := s.err }

theorem clean_view {r : Redirect} (h : r.Clean) : r.view = (302, []) := by
  unfold Redirect.view; rw [h.1, h.2]

theorem withRedirect_spec (s : Live) (pick : Nat) (hp : PoolClean s.reds) :
    (s.withRedirect pick).1.redirect = some (s.withRedirect pick).2 ∧
    PoolClean (s.withRedirect pick).1.reds ∧
    (s.withRedirect pick).1.bind = s.bind ∧ (s.withRedirect pick).1.viewBind = s.viewBind ∧
    (s.withRedirect pick).1.baseURI = s.baseURI ∧ (s.withRedirect pick).1.locals = s.locals ∧
    (s.withRedirect pick).1.resp = s.resp ∧ (s.withRedirect pick).1.seen = s.seen ∧
    (s.withRedirect pick).1.err = s.err ∧
    (s.withRedirect pick).2.view = (match s.redirect with | some r => r.view | none => (302, [])) := by
  unfold Live.withRedirect
  cases hr : s.redirect with
  | some r => simp [hr, hp]
  | none =>
    have := takeAt_mem s.reds pick Redirect.fresh Redirect.Clean Redirect.fresh_clean hp
    simp only
    exact ⟨trivial, this.2, trivial, trivial, trivial, trivial, trivial, trivial, trivial, clean_view this.1⟩

/-- Two handler states that agree up to garbage still agree after attaching a Redirect. -/
theorem withRedirect_sim (s s' : Live) (p p' : Nat) (h : s.core = s'.core)
    (hp : PoolClean s.reds) (hp' : PoolClean s'.reds) :
    (s.withRedirect p).1.core = (s'.withRedirect p').1.core ∧
    (s.withRedirect p).2.view = (s'.withRedirect p').2.view := by
  have a := withRedirect_spec s p hp
  have a' := withRedirect_spec s' p' hp'
  obtain ⟨a1, _, a3, a4, a5, a6, a7, a8, a9, a10⟩ := a
  obtain ⟨b1, _, b3, b4, b5, b6, b7, b8, b9, b10⟩ := a'
  have hc : s.redirect.map Redirect.view = s'.redirect.map Redirect.view := congrArg Core.redirect h
  have hv : (s.withRedirect p).2.view = (s'.withRedirect p').2.view := by
    rw [a10, b10]
    cases h1 : s.redirect <;> cases h2 : s'.redirect <;> simp [h1, h2] at hc ⊢
    exact hc
  refine ⟨?_, hv⟩
  unfold Live.core
  rw [a1, b1, a3, b3, a4, b4, a5, b5, a6, b6, a7, b7, a8, b8, a9, b9]
  have e1 := congrArg Core.bind h
  have e2 := congrArg Core.viewBind h
  have e3 := congrArg Core.baseURI h
  have e4 := congrArg Core.locals h
  have e5 := congrArg Core.resp h
  have e6 := congrArg Core.seen h
  have e7 := congrArg Core.err h
  simp only [Live.core] at e1 e2 e3 e4 e5 e6 e7
  simp [e1, e2, e3, e4, e5, e6, e7, hv]

theorem withMsg_vis_congr {a a' : Slice} (h : a.vis = a'.vis) (k v : Bytes) (l : Nat) :
    (withMsg a k v l).vis = (withMsg a' k v l).vis := by
  unfold withMsg
  rw [h]
  split <;> simp [Slice.push, h]

theorem foldl_push_vis (ps : List (Bytes × Bytes)) (a : Slice) :
    (ps.foldl (fun sl p => sl.push ⟨p.1, p.2, 0, true⟩) a).vis = a.vis ++ ps.map fun p => ⟨p.1, p.2, 0, true⟩ := by
  induction ps generalizing a with
  | nil => simp
  | cons p ps ih =>
    rw [List.foldl_cons, ih]
    simp [Slice.push]

/-! ### a script step cannot tell two states apart that agree up to garbage -/

theorem core_eq_iff (s s' : Live) : s.core = s'.core ↔
    (s.bind = s'.bind ∧ s.redirect.map Redirect.view = s'.redirect.map Redirect.view ∧ s.viewBind = s'.viewBind ∧
     s.baseURI = s'.baseURI ∧ s.locals = s'.locals ∧ s.resp = s'.resp ∧ s.seen = s'.seen ∧ s.err = s'.err) := by
  simp [Live.core]

theorem view_eq {r r' : Redirect} (h : r.view = r'.view) : r.status = r'.status ∧ r.msgs.vis = r'.msgs.vis := by
  simpa [Redirect.view] using h

theorem act_sim (rq : Req) (params : List Bytes) (fv : List Msg) (p p' : Nat) (s s' : Live) (a : Act)
    (h : s.core = s'.core) (hp : PoolClean s.reds) (hp' : PoolClean s'.reds) :
    (act rq params fv p s a).core = (act rq params fv p' s' a).core ∧
    PoolClean (act rq params fv p s a).reds ∧ PoolClean (act rq params fv p' s' a).reds := by
  have hw := withRedirect_sim s s' p p' h hp hp'
  have ht := (core_eq_iff _ _).mp hw.1
  have hv := view_eq hw.2
  have sp := withRedirect_spec s p hp
  have sp' := withRedirect_spec s' p' hp'
  obtain ⟨e1, e2, e3, e4, e5, e6, e7, e8⟩ := (core_eq_iff _ _).mp h
  obtain ⟨t1, t2, t3, t4, t5, t6, t7, t8⟩ := ht
  cases a with
  | vb k v => exact ⟨by simp [act, Live.core, *], hp, hp'⟩
  | lo k v => exact ⟨by simp [act, Live.core, *], hp, hp'⟩
  | ba => exact ⟨by simp [act, Live.core, *], hp, hp'⟩
  | bq => exact ⟨by simp [act, Live.core, *], hp, hp'⟩
  | bu => exact ⟨by simp [act, Live.core, *], hp, hp'⟩
  | er n => exact ⟨by simp [act, Live.core, *], hp, hp'⟩
  | sf cfg hdr => exact ⟨by simp [act, Live.core, *], hp, hp'⟩
  | sh k v =>
    by_cases h1 : k = b "X-A"
    · exact ⟨by simp [act, h1, Live.core, *], by simpa [act, h1] using hp, by simpa [act, h1] using hp'⟩
    · by_cases h2 : k = b "X-B"
      · have hne : ¬ (b "X-B" = b "X-A") := by decide
        subst h2
        exact ⟨by simp [act, hne, Live.core, *], by simpa [act, hne] using hp, by simpa [act, hne] using hp'⟩
      · exact ⟨by simpa [act, h1, h2] using h, by simpa [act, h1, h2] using hp, by simpa [act, h1, h2] using hp'⟩
  | wi k v l =>
    refine ⟨?_, sp.2.1, sp'.2.1⟩
    simp only [act, Live.core, Option.map_some, Redirect.view]
    rw [withMsg_vis_congr hv.2, hv.1, t1, t3, t4, t5, t6, t7, t8]
  | inp =>
    refine ⟨?_, sp.2.1, sp'.2.1⟩
    simp only [act, Live.core, Option.map_some, Redirect.view, foldl_push_vis]
    rw [hv.2, hv.1, t1, t3, t4, t5, t6, t7, t8]
  | rs n =>
    refine ⟨?_, sp.2.1, sp'.2.1⟩
    simp only [act, Live.core, Option.map_some, Redirect.view]
    rw [hv.2, t1, t3, t4, t5, t6, t7, t8]
  | to q =>
    refine ⟨?_, sp.2.1, sp'.2.1⟩
    simp only [act, Live.core]
    rw [hv.2, hv.1, t1, t2, t3, t4, t5, t6, t7, t8]
  | ob =>
    refine ⟨?_, sp.2.1, sp'.2.1⟩
    simp only [act, Live.core]
    rw [t1, t2, t3, t4, t5, t6, t8]

theorem runScript_sim (rq : Req) (params : List Bytes) (fv : List Msg) (p p' : Nat) (sc : List Act) (s s' : Live)
    (h : s.core = s'.core) (hp : PoolClean s.reds) (hp' : PoolClean s'.reds) :
    (runScript rq params fv p s sc).core = (runScript rq params fv p' s' sc).core ∧
    PoolClean (runScript rq params fv p s sc).reds ∧ PoolClean (runScript rq params fv p' s' sc).reds := by
  induction sc generalizing s s' with
  | nil => exact ⟨h, hp, hp'⟩
  | cons a rest ih =>
    have := act_sim rq params fv p p' s s' a h hp hp'
    simpa [runScript] using ih _ _ this.1 this.2.1 this.2.2

theorem runScript_sim' {rq rq' : Req} {params params' : List Bytes} {fv fv' : List Msg} (p p' : Nat) {sc sc' : List Act}
    (s s' : Live) (h1 : rq = rq') (h2 : params = params') (h3 : fv = fv') (h4 : sc = sc')
    (h : s.core = s'.core) (hp : PoolClean s.reds) (hp' : PoolClean s'.reds) :
    (runScript rq params fv p s sc).core = (runScript rq' params' fv' p' s' sc').core ∧
    PoolClean (runScript rq params fv p s sc).reds ∧ PoolClean (runScript rq' params' fv' p' s' sc').reds := by
  subst h1 h2 h3 h4
  exact runScript_sim rq params fv p p' sc s s' h hp hp'

theorem act_sim' {rq rq' : Req} {params params' : List Bytes} {fv fv' : List Msg} (p p' : Nat) (s s' : Live) (a : Act)
    (h1 : rq = rq') (h2 : params = params') (h3 : fv = fv')
    (h : s.core = s'.core) (hp : PoolClean s.reds) (hp' : PoolClean s'.reds) :
    (act rq params fv p s a).core = (act rq' params' fv' p' s' a).core ∧
    PoolClean (act rq params fv p s a).reds ∧ PoolClean (act rq' params' fv' p' s' a).reds := by
  subst h1 h2 h3
  exact act_sim rq params fv p p' s s' a h hp hp'

theorem finish_core {s s' : Live} (h : s.core = s'.core) : finish s = finish s' := by
  obtain ⟨_, _, _, _, _, e6, _, e8⟩ := (core_eq_iff _ _).mp h
  simp [finish, e6, e8]

/-! ### one request: nothing depends on which pooled objects it got -/

/-- what of two contexts must agree for the handler chain to behave the same -/
structure CtxSim (c c' : Ctx) : Prop where
  methodInt : c.methodInt = c'.methodInt
  indexRoute : c.indexRoute = c'.indexRoute
  matched : c.matched = c'.matched
  baseURI : c.baseURI = c'.baseURI
  bind : c.bind = c'.bind
  redirect : c.redirect.map Redirect.view = c'.redirect.map Redirect.view
  viewBind : c.viewBind = c'.viewBind
  flash : c.flash.vis = c'.flash.vis

theorem start_core {c c' : Ctx} (h : CtxSim c c') (reds reds' : List Redirect) :
    (Live.start c reds).core = (Live.start c' reds').core := by
  simp [Live.start, Live.core, h.baseURI, h.bind, h.redirect, h.viewBind]

theorem flashStage_sim (F : RFacts) (hw : F.lc.flashDecodeWipes = true) (cookie : Option Bytes) (p p' : Nat)
    (s s' : Live) (fl fl' : Slice) (h : s.core = s'.core) (hf : fl.vis = fl'.vis)
    (hp : PoolClean s.reds) (hp' : PoolClean s'.reds) :
    (flashStage F cookie p s fl).1.core = (flashStage F cookie p' s' fl').1.core ∧
    (flashStage F cookie p s fl).2.vis = (flashStage F cookie p' s' fl').2.vis ∧
    PoolClean (flashStage F cookie p s fl).1.reds ∧ PoolClean (flashStage F cookie p' s' fl').1.reds := by
  cases cookie with
  | none => exact ⟨h, hf, hp, hp'⟩
  | some v =>
    have hw' := withRedirect_sim s s' p p' h hp hp'
    obtain ⟨t1, t2, t3, t4, t5, t6, t7, t8⟩ := (core_eq_iff _ _).mp hw'.1
    have fs := flashStep_indep F hw v fl fl' hf
    refine ⟨?_, fs.1, (withRedirect_spec s p hp).2.1, (withRedirect_spec s' p' hp').2.1⟩
    simp only [flashStage, Live.core]
    rw [fs.2, t1, t2, t3, t4, t5, t6, t7, t8]

theorem writeValues_params (vs old : List Bytes) : readParams (writeValues vs old) vs.length = vs :=
  readParams_eq vs _

theorem ok_fields {F : RFacts} (h : F.ok = true) :
    (F.rFasthttp = true ∧ F.rBaseURI = true ∧ F.rPathOriginal = true ∧ F.rPath = true ∧ F.rDetectionPath = true ∧
     F.rTreePathHash = true ∧ F.rIndexRoute = true ∧ F.rIndexHandler = true ∧ F.rMethodInt = true ∧ F.rMatched = true) ∧
    (F.lRoute = true ∧ F.lBind = true ∧ F.lRedirect = true ∧ F.lViewBind = true ∧ emptiesSlice F.lFlash = true) ∧
    (emptiesSlice F.dMessages = true ∧ F.dStatus = true) ∧
    (F.lc.acquireResets = true ∧ F.lc.releaseBeforePut = true ∧ F.lc.handlerDefersRelease = true ∧
     F.lc.redirectReleaseBeforePut = true ∧ F.lc.ctxReleaseReturnsRedirect = true ∧ F.lc.flashDecodeWipes = true) := by
  simp only [RFacts.ok, Bool.and_eq_true] at h
  obtain ⟨⟨⟨⟨⟨⟨⟨⟨⟨⟨⟨⟨⟨⟨⟨⟨⟨⟨⟨⟨⟨⟨⟨⟨⟨⟨⟨⟨⟨a1, a2⟩, a3⟩, a4⟩, a5⟩, a6⟩, a7⟩, a8⟩, a9⟩, a10⟩, b1⟩, b2⟩, b3⟩, b4⟩, b5⟩, c1⟩, c2⟩, d1⟩, d2⟩, d3⟩, d4⟩, d5⟩, d6⟩, _⟩, _⟩, _⟩, _⟩, _⟩, _⟩, _⟩ := h
  exact ⟨⟨a1, a2, a3, a4, a5, a6, a7, a8, a9, a10⟩, ⟨b1, b2, b3, b4, b5⟩, ⟨c1, c2⟩, ⟨d1, d2, d3, d4, d5, d6⟩⟩

theorem reset_sim {F : RFacts} (ok : F.ok = true) (rq : Req) {c0 c0' : Ctx} (h : c0.Clean) (h' : c0'.Clean) :
    CtxSim (reset F rq c0) (reset F rq c0') ∧ (reset F rq c0).fasthttp = some rq ∧ (reset F rq c0').fasthttp = some rq := by
  obtain ⟨⟨a1, a2, a3, a4, a5, a6, a7, a8, a9, a10⟩, _, _, _⟩ := ok_fields ok
  refine ⟨⟨?_, ?_, ?_, ?_, ?_, ?_, ?_, ?_⟩, ?_, ?_⟩ <;>
    simp [reset, a1, a2, a3, a4, a5, a6, a7, a8, a9, a10, h.bind, h'.bind, h.redirect, h'.redirect, h.viewBind, h'.viewBind, h.flash, h'.flash]

theorem released_clean {F : RFacts} (ok : F.ok = true) (r : Redirect) : (r.released F).Clean := by
  obtain ⟨_, _, ⟨c1, c2⟩, _⟩ := ok_fields ok
  exact ⟨by simp [Redirect.released, c2], by simp [Redirect.released, applyRelease_vis c1]⟩

theorem release_clean {F : RFacts} (ok : F.ok = true) (c : Ctx) : (release F c).Clean := by
  obtain ⟨_, ⟨b1, b2, b3, b4, b5⟩, _, _⟩ := ok_fields ok
  exact ⟨by simp [release, b1], by simp [release, b2], by simp [release, b3], by simp [release, b4],
         by simp [release, applyRelease_vis b5]⟩

/-! ### a request in flight and a twin that agrees with it up to garbage -/

theorem enter_entered (F : RFacts) (f : Flight) (reds : List Redirect) (p : Nat) :
    (f.enter F reds p).1.entered = true := by
  unfold Flight.enter
  by_cases h : f.entered = true
  · simp [h]
  · simp only [h]
    cases f.out <;> rfl

theorem enter_of_entered (F : RFacts) {f : Flight} (h : f.entered = true) (reds : List Redirect) (p : Nat) :
    f.enter F reds p = (f, reds) := by
  unfold Flight.enter; simp [h]

theorem enter_orig (F : RFacts) (f : Flight) (reds : List Redirect) (p : Nat) :
    (f.enter F reds p).1.orig = f.orig := by
  unfold Flight.enter
  by_cases he : f.entered = true
  · simp [he]
  · simp only [he]; cases f.out <;> rfl

theorem stepAct_entered (f : Flight) (reds : List Redirect) (p : Nat) :
    (f.stepAct reds p).1.entered = f.entered := by
  unfold Flight.stepAct
  cases f.todo <;> rfl

theorem stepAct_orig (f : Flight) (reds : List Redirect) (p : Nat) : (f.stepAct reds p).1.orig = f.orig := by
  unfold Flight.stepAct
  cases f.todo <;> rfl

/-- what two flights of the same request must agree on for everything observable to agree: the
    handler state up to garbage, the visible flash messages, what `Params` returns. Not compared: spare
    capacity of slices, `c.values` beyond the matched route's slots, routing scratch, pools. -/
structure Twin (f g : Flight) : Prop where
  orig : f.orig = g.orig
  rq : f.rq = g.rq
  out : f.out = g.out
  todo : f.todo = g.todo
  entered : f.entered = g.entered
  core : f.s.core = g.s.core
  flash : f.fl.vis = g.fl.vis
  params : f.entered = true → f.params = g.params
  todoNil : f.entered = false → f.todo = []

theorem acquire_twin {F : RFacts} (ok : F.ok = true) (rq : Req) {c0 c0' : Ctx} (h : c0.Clean) (h' : c0'.Clean) :
    Twin (Flight.acquire F c0 rq) (Flight.acquire F c0' rq) := by
  obtain ⟨_, _, _, ⟨d1, _, _, _, _, _⟩⟩ := ok_fields ok
  obtain ⟨rsim, f1, f2⟩ := reset_sim ok rq h h'
  refine ⟨rfl, ?_, ?_, rfl, rfl, ?_, ?_, ?_, ?_⟩
  · simp [Flight.acquire, d1, f1, f2]
  · simp only [Flight.acquire, d1, if_true, f1, f2, Option.getD_some]
    rw [rsim.methodInt, rsim.indexRoute, rsim.matched]
  · simp only [Flight.acquire, d1, if_true]
    exact start_core rsim [] []
  · simp only [Flight.acquire, d1, if_true]
    exact rsim.flash
  · intro he; simp [Flight.acquire] at he
  · intro _; rfl

theorem mw_core {s s' : Live} (h : s.core = s'.core) :
    ({ s with resp := { s.resp with mw := true } } : Live).core = ({ s' with resp := { s'.resp with mw := true } } : Live).core := by
  obtain ⟨t1, t2, t3, t4, t5, t6, t7, t8⟩ := (core_eq_iff _ _).mp h
  simp only [Live.core]
  rw [t1, t2, t3, t4, t5, t6, t7, t8]

theorem enter_notImpl (F : RFacts) {f : Flight} (he : f.entered = false) (ho : f.out = .notImplemented)
    (reds : List Redirect) (p : Nat) :
    f.enter F reds p = ({ f with s := { f.s with reds := reds }, entered := true }, reds) := by
  unfold Flight.enter
  simp only [he, Bool.false_eq_true, if_false, ho]

theorem enter_run (F : RFacts) {f : Flight} (he : f.entered = false) (ho : f.out ≠ .notImplemented)
    (reds : List Redirect) (p : Nat) :
    f.enter F reds p =
      ({ f with s := { (flashStage F f.rq.flash p { f.s with reds := reds } f.fl).1 with
                       resp := { (flashStage F f.rq.flash p { f.s with reds := reds } f.fl).1.resp with mw := true } },
                fl := (flashStage F f.rq.flash p { f.s with reds := reds } f.fl).2, entered := true,
                values := (match f.out with | .handler _ vs => writeValues vs f.values | _ => f.values),
                todo := (match f.out with | .handler _ _ => f.rq.script | _ => []) },
       (flashStage F f.rq.flash p { f.s with reds := reds } f.fl).1.reds) := by
  unfold Flight.enter
  simp only [he, Bool.false_eq_true, if_false]
  cases hfo : f.out with
  | notImplemented => exact absurd hfo ho
  | _ => rfl

theorem enter_twin (F : RFacts) (hw : F.lc.flashDecodeWipes = true) {f g : Flight} (t : Twin f g)
    (reds reds' : List Redirect) (p p' : Nat) (hp : PoolClean reds) (hp' : PoolClean reds') :
    Twin (f.enter F reds p).1 (g.enter F reds' p').1 ∧
    PoolClean (f.enter F reds p).2 ∧ PoolClean (g.enter F reds' p').2 := by
  by_cases he : f.entered = true
  · have he' : g.entered = true := t.entered ▸ he
    rw [enter_of_entered F he, enter_of_entered F he']
    exact ⟨t, hp, hp'⟩
  · have he0 : f.entered = false := by simpa using he
    have he0' : g.entered = false := t.entered ▸ he0
    by_cases ho : f.out = .notImplemented
    · have ho' : g.out = .notImplemented := t.out ▸ ho
      rw [enter_notImpl F he0 ho, enter_notImpl F he0' ho']
      refine ⟨⟨t.orig, t.rq, t.out, t.todo, rfl, t.core, t.flash, ?_, ?_⟩, hp, hp'⟩
      · intro _; simp only [Flight.params, ho, ho']
      · intro h; cases h
    · have ho' : g.out ≠ .notImplemented := t.out ▸ ho
      have hc : ({ f.s with reds := reds } : Live).core = ({ g.s with reds := reds' } : Live).core := t.core
      obtain ⟨f1, f2, f3, f4⟩ := flashStage_sim F hw f.rq.flash p p' { f.s with reds := reds } { g.s with reds := reds' }
        f.fl g.fl hc t.flash hp hp'
      rw [enter_run F he0 ho, enter_run F he0' ho', ← t.rq]
      refine ⟨⟨t.orig, ?_, t.out, ?_, rfl, mw_core f1, f2, ?_, ?_⟩, f3, f4⟩
      · rfl
      · simp only [t.out]
      · intro _
        simp only [Flight.params, t.out]
        cases g.out <;> simp [writeValues_params]
      · intro h; cases h

theorem stepAct_nil {f : Flight} (h : f.todo = []) (reds : List Redirect) (p : Nat) : f.stepAct reds p = (f, reds) := by
  unfold Flight.stepAct; rw [h]

theorem stepAct_cons {f : Flight} {a : Act} {rest : List Act} (h : f.todo = a :: rest) (reds : List Redirect) (p : Nat) :
    f.stepAct reds p = ({ f with s := act f.rq f.params f.fl.vis p { f.s with reds := reds } a, todo := rest },
                        (act f.rq f.params f.fl.vis p { f.s with reds := reds } a).reds) := by
  unfold Flight.stepAct; rw [h]

theorem stepAct_twin {f g : Flight} (t : Twin f g) (reds reds' : List Redirect) (p p' : Nat)
    (hp : PoolClean reds) (hp' : PoolClean reds') :
    Twin (f.stepAct reds p).1 (g.stepAct reds' p').1 ∧
    PoolClean (f.stepAct reds p).2 ∧ PoolClean (g.stepAct reds' p').2 := by
  cases hgt : g.todo with
  | nil =>
    rw [stepAct_nil (t.todo ▸ hgt), stepAct_nil hgt]
    exact ⟨t, hp, hp'⟩
  | cons a rest =>
    have hft : f.todo = a :: rest := t.todo ▸ hgt
    have he : f.entered = true := by
      cases h : f.entered with
      | true => rfl
      | false => have := t.todoNil h; rw [hft] at this; cases this
    have hpar := t.params he
    have hc : ({ f.s with reds := reds } : Live).core = ({ g.s with reds := reds' } : Live).core := t.core
    have as := act_sim' p p' { f.s with reds := reds } { g.s with reds := reds' } a t.rq hpar t.flash hc hp hp'
    rw [stepAct_cons hft, stepAct_cons hgt]
    refine ⟨⟨t.orig, t.rq, t.out, rfl, t.entered, as.1, t.flash, ?_, ?_⟩, as.2.1, as.2.2⟩
    · intro _
      have := hpar
      simp only [Flight.params] at this ⊢
      exact this
    · intro h; rw [he] at h; cases h

theorem resp_twin {f g : Flight} (t : Twin f g) : f.resp = g.resp := by
  have e6 : f.s.resp = g.s.resp := congrArg Core.resp t.core
  unfold Flight.resp
  rw [t.out, t.rq, e6]
  cases g.out <;> simp [finish_core t.core]

theorem retire_obs (F : RFacts) {f g : Flight} (t : Twin f g) (reds reds' : List Redirect) (p p' : Nat) :
    (f.retire F reds p).2.2 = (g.retire F reds' p').2.2 := by
  have e7 : f.s.seen = g.s.seen := congrArg Core.seen t.core
  simp only [Flight.retire, resp_twin t, e7]

theorem atEnd_clean (f : Flight) {reds : List Redirect} (hp : PoolClean reds) (p : Nat) : PoolClean (f.atEnd reds p).reds := by
  unfold Flight.atEnd
  split
  · exact (runScript_sim f.rq f.params f.fl.vis p p plantActs { f.s with reds := reds } { f.s with reds := reds } rfl hp hp).2.1
  · exact hp

theorem retire_clean {F : RFacts} (ok : F.ok = true) (f : Flight) {reds : List Redirect} (hp : PoolClean reds) (p : Nat) :
    (f.retire F reds p).1.Clean ∧ PoolClean (f.retire F reds p).2.1 := by
  obtain ⟨_, ⟨_, _, b3, _, _⟩, _, ⟨_, d2, d3, d4, d5, _⟩⟩ := ok_fields ok
  have hc := atEnd_clean f hp p
  refine ⟨?_, ?_⟩
  · simp only [Flight.retire, d2, d3, Bool.and_self, if_true]
    exact release_clean ok _
  · simp only [Flight.retire, d4, d5, b3, Bool.and_self, if_true]
    split
    · intro r hr
      rcases List.mem_cons.mp hr with rfl | hr
      · exact released_clean ok _
      · exact hc r hr
    · exact hc

theorem serveBad_clean {F : RFacts} (ok : F.ok = true) (c0 : Ctx) {reds : List Redirect} (hp : PoolClean reds) (rq : Req) (p : Nat) :
    (serveBad F c0 reds rq p).1.Clean ∧ PoolClean (serveBad F c0 reds rq p).2 :=
  retire_clean ok _ hp p

/-- Completing two twins without interruption (each against its own clean redirect pool, with its own
    pool choices): same observation; what goes back to the pools is clean. -/
theorem complete_sim {F : RFacts} (ok : F.ok = true) {f g : Flight} (t : Twin f g)
    {reds reds' : List Redirect} (p p' : Nat) (hp : PoolClean reds) (hp' : PoolClean reds') :
    (f.complete F reds p).2.2 = (g.complete F reds' p').2.2 ∧
    (f.complete F reds p).1.Clean ∧ PoolClean (f.complete F reds p).2.1 := by
  obtain ⟨_, _, _, ⟨_, _, _, _, _, d6⟩⟩ := ok_fields ok
  obtain ⟨te, pe, pe'⟩ := enter_twin F d6 t reds reds' p p' hp hp'
  have hent := enter_entered F f reds p
  have hc : ({ (f.enter F reds p).1.s with reds := (f.enter F reds p).2 } : Live).core =
            ({ (g.enter F reds' p').1.s with reds := (g.enter F reds' p').2 } : Live).core := te.core
  have rs := runScript_sim' p p' { (f.enter F reds p).1.s with reds := (f.enter F reds p).2 }
    { (g.enter F reds' p').1.s with reds := (g.enter F reds' p').2 } te.rq (te.params hent) te.flash te.todo hc pe pe'
  unfold Flight.complete
  refine ⟨?_, retire_clean ok _ rs.2.1 p⟩
  apply retire_obs
  refine ⟨te.orig, te.rq, te.out, rfl, te.entered, rs.1, te.flash, ?_, fun _ => rfl⟩
  intro _
  have := te.params hent
  simp only [Flight.params] at this ⊢
  exact this

/-- One request on any clean pooled context with any clean redirect pool: the observation does not
    depend on which objects those were, and everything handed back to the pools is clean again. -/
theorem serveOn_sim {F : RFacts} (ok : F.ok = true) (rq : Req) (p p' : Nat) {c0 c0' : Ctx} {reds reds' : List Redirect}
    (h : c0.Clean) (h' : c0'.Clean) (hp : PoolClean reds) (hp' : PoolClean reds') :
    (serveOn F c0 reds rq p).2.2 = (serveOn F c0' reds' rq p').2.2 ∧
    (serveOn F c0 reds rq p).1.Clean ∧ PoolClean (serveOn F c0 reds rq p).2.1 :=
  complete_sim ok (acquire_twin ok rq h h') p p' hp hp'

end C05
