import FiberModel.C05.Store
import FiberModel.C05.Lemmas
/-
C05 — the store-threaded semantics (`Store.lean`) coincides with the store-free one (`Model.lean`, `Sched.lean`)
whenever `compareConfig` compares every field a cached entry depends on; the store stays well-formed (every
entry holds what its own configuration builds).
-/
namespace C05
open B

theorem ok_sfComplete {F : RFacts} (h : F.ok = true) : F.sfMask.complete = true := by
  simp only [RFacts.ok, Bool.and_eq_true] at h
  exact h.1.2

theorem wf_nil : SFStore.WF [] := by intro e he; simp at he

theorem actS_eq {m : SFMask} (hm : m.complete = true) {st : SFStore} (wf : st.WF)
    (rq : Req) (params : List Bytes) (fv : List Msg) (pick : Nat) (s : Live) (a : Act) :
    (actS m rq params fv pick s st a).1 = act rq params fv pick s a ∧ (actS m rq params fv pick s st a).2.WF := by
  cases a with
  | sf cfg hdr =>
    have h := serve_transparent hm wf cfg
    exact ⟨by simp only [actS, act, sendFile, h.1], h.2⟩
  | _ => exact ⟨rfl, wf⟩

theorem runScriptS_eq {m : SFMask} (hm : m.complete = true) (rq : Req) (params : List Bytes) (fv : List Msg) (pick : Nat)
    (sc : List Act) : ∀ (s : Live) {st : SFStore}, st.WF →
    (runScriptS m rq params fv pick s st sc).1 = runScript rq params fv pick s sc ∧
    (runScriptS m rq params fv pick s st sc).2.WF := by
  induction sc with
  | nil => intro s st wf; exact ⟨rfl, wf⟩
  | cons a rest ih =>
    intro s st wf
    have h := actS_eq hm wf rq params fv pick s a
    have h2 := ih (actS m rq params fv pick s st a).1 h.2
    simp only [runScriptS]
    refine ⟨?_, h2.2⟩
    rw [h2.1, h.1]
    simp [runScript]

theorem stepActS_eq {m : SFMask} (hm : m.complete = true) {st : SFStore} (wf : st.WF)
    (f : Flight) (reds : List Redirect) (p : Nat) :
    (f.stepActS m reds st p).1 = f.stepAct reds p ∧ (f.stepActS m reds st p).2.WF := by
  unfold Flight.stepActS Flight.stepAct
  cases f.todo with
  | nil => exact ⟨rfl, wf⟩
  | cons a rest =>
    have h := actS_eq hm wf f.rq f.params f.fl.vis p { f.s with reds := reds } a
    exact ⟨by simp only [h.1], h.2⟩

theorem completeS_eq {F : RFacts} (hm : F.sfMask.complete = true) {st : SFStore} (wf : st.WF)
    (g : Flight) (reds : List Redirect) (p : Nat) :
    (g.completeS F reds st p).1 = g.complete F reds p ∧ (g.completeS F reds st p).2.WF := by
  have h := runScriptS_eq hm (g.enter F reds p).1.rq (g.enter F reds p).1.params (g.enter F reds p).1.fl.vis p
    (g.enter F reds p).1.todo { (g.enter F reds p).1.s with reds := (g.enter F reds p).2 } wf
  unfold Flight.completeS Flight.complete
  exact ⟨by simp only [h.1], h.2⟩

theorem stepS_eq {F : RFacts} (hm : F.sfMask.complete = true) {ws : WorldS} (wf : ws.sfs.WF) (rq : Req) (pk : Pick) :
    (stepS F ws rq pk).1.w = (step F ws.w rq pk).1 ∧ (stepS F ws rq pk).2 = (step F ws.w rq pk).2 ∧
    (stepS F ws rq pk).1.sfs.WF := by
  unfold stepS
  by_cases hb : rq.bad ≠ 0
  · rw [if_pos hb]
    refine ⟨rfl, ?_, wf⟩
    simp [step, hb]
  · rw [if_neg hb]
    have h := completeS_eq hm wf (Flight.acquire F (takeAt ws.w.ctxs pk.ctx Ctx.fresh).1 rq) ws.w.reds pk.red
    refine ⟨?_, ?_, h.2⟩
    · simp only [step, hb, if_false, serveOn, h.1]
    · simp only [step, hb, if_false, serveOn, h.1]

theorem runHistoryS_eq {F : RFacts} (hm : F.sfMask.complete = true) (hist : List (Req × Pick)) :
    ∀ {ws : WorldS}, ws.sfs.WF → (runHistoryS F ws hist).w = runHistory F ws.w hist ∧ (runHistoryS F ws hist).sfs.WF := by
  induction hist with
  | nil => intro ws wf; exact ⟨rfl, wf⟩
  | cons x rest ih =>
    intro ws wf
    obtain ⟨rq, pk⟩ := x
    have h := stepS_eq hm wf rq pk
    have h2 := ih h.2.2
    simp only [runHistoryS, runHistory]
    exact ⟨by rw [h2.1, h.1], h2.2⟩

theorem probeAfterS_eq {F : RFacts} (hm : F.sfMask.complete = true) (hist : List (Req × Pick)) (probe : Req) (pk : Pick) :
    probeAfterS F hist probe pk = probeAfter F hist probe pk := by
  have h := runHistoryS_eq (F := F) hm hist (ws := WorldS.empty) wf_nil
  have h2 := stepS_eq hm h.2 probe pk
  unfold probeAfterS probeAfter
  rw [h2.2.1, h.1]
  rfl

theorem probeFreshS_eq {F : RFacts} (hm : F.sfMask.complete = true) (probe : Req) :
    probeFreshS F probe = probeFresh F probe :=
  (stepS_eq hm (ws := WorldS.empty) wf_nil probe ⟨0, 0⟩).2.1

/-! ### schedules -/

theorem cstepS_eq {F : RFacts} (hm : F.sfMask.complete = true) {ws : CWorldS} (wf : ws.sfs.WF) (e : EvS) :
    (cstepS F ws e).c = (match e.plain with | some e => cstep F ws.c e | none => ws.c) ∧ (cstepS F ws e).sfs.WF := by
  cases e with
  | dupAppend cfg =>
    refine ⟨rfl, ?_⟩
    intro x hx
    rcases List.mem_append.mp hx with hx | hx
    · exact wf x hx
    · simp at hx; subst hx; rfl
  | ev e =>
    cases e with
    | act id p =>
      simp only [cstepS, EvS.plain, cstep]
      cases hl : ws.c.flights.lookup id with
      | none => exact ⟨rfl, wf⟩
      | some f =>
        have h := stepActS_eq hm wf f ws.c.reds p
        exact ⟨by simp only [h.1], h.2⟩
    | acquire id rq pc => exact ⟨rfl, wf⟩
    | enter id p => exact ⟨rfl, wf⟩
    | done id p => exact ⟨rfl, wf⟩
    | abort id p => exact ⟨rfl, wf⟩
    | gc i j => exact ⟨rfl, wf⟩

theorem runSchedS_eq {F : RFacts} (hm : F.sfMask.complete = true) (evs : List EvS) :
    ∀ {ws : CWorldS}, ws.sfs.WF →
      (runSchedS F ws evs).c = runSched F ws.c (evs.filterMap EvS.plain) ∧ (runSchedS F ws evs).sfs.WF := by
  induction evs with
  | nil => intro ws wf; exact ⟨rfl, wf⟩
  | cons e rest ih =>
    intro ws wf
    have h := cstepS_eq hm wf e
    have h2 := ih h.2
    simp only [runSchedS, List.foldl_cons] at h2 ⊢
    refine ⟨?_, h2.2⟩
    rw [h2.1, h.1]
    cases hp : e.plain with
    | none => simp [hp]
    | some e' => simp [hp, runSched]

end C05
