import FiberModel.Basic
/-
C05 — route parameter slots (`c.values`) are written before they are read.

`c.values` is never reset: `DefaultCtx.Reset` / `release` leave the array alone (a field fact of the
regenerated table). What keeps an earlier request's parameter values from surfacing is the shape of the
matcher:

  * path.go `routeParser.getMatch` walks the route's segments; at every parameter segment it WRITES slot
    `paramsIterator` with a piece of the current path, then (and only then) reads that slot back for the
    constraint check, then advances `paramsIterator`; it never reads a slot it has not written in this call;
  * router.go `Route.match` writes slot 0 on both branches of the catch-all route;
  * ctx.go `Params` reads slot `i` only for `i < len(route.Params)` of the matched route.

`Matcher` is that shape with everything computed from the current request (`findParamLen`, the constant
comparisons, the constraint checks) left abstract: whatever those functions are, the slots the matched
route's parameters occupy come out independent of what the array held before.
-/
namespace C05
open B

inductive Seg where
  | const (c : Bytes)           -- constant part: compared with the path, never touches params
  | param (k : Nat)             -- parameter segment number k of the route
  deriving Repr

/-- what `getMatch` computes from the current request alone -/
structure Matcher where
  constLen : Bytes → Bytes → Option Nat      -- constant vs. rest of the path: consumed length, or no match
  paramLen : Nat → Bytes → Nat               -- `findParamLen`
  optional : Nat → Bool                      -- `segment.IsOptional`
  constraintsOk : Nat → Bytes → Bool         -- `CheckConstraint` on the value just written
  partialCheck : Bool

/-- path.go `getMatch`: `it` is `paramsIterator`; returns the array on a match -/
def getMatch (m : Matcher) : List Seg → Bytes → List Bytes → Nat → Option (List Bytes)
  | [], rest, params, _ => if rest ≠ [] ∧ !m.partialCheck then none else some params
  | .const c :: segs, path, params, it =>
    match m.constLen c path with
    | none => none
    | some i => getMatch m segs (path.drop i) params it
  | .param k :: segs, path, params, it =>
    let i := m.paramLen k path
    if !m.optional k && i == 0 then none
    else if params.length ≤ it then none                         -- a request holds at most maxParams values
    else
      let params := params.set it (path.take i)                 -- params[paramsIterator] = path[:i]
      if !(m.optional k && i == 0) && !m.constraintsOk k (params.getD it []) then none
      else getMatch m segs (path.drop i) params (it + 1)

def nParams : List Seg → Nat
  | [] => 0
  | .const _ :: s => nParams s
  | .param _ :: s => nParams s + 1

theorem getD_set_self (l : List Bytes) (i : Nat) (v : Bytes) (h : i < l.length) : (l.set i v).getD i [] = v := by
  simp [List.getD, List.getElem?_set_self h]

/-- Two runs of the matcher on the same request over arrays with different leftovers (that agree on the
    slots below `it`, already written in this call) take the same decisions and agree on every slot
    below `it + nParams segs`. -/
theorem getMatch_indep (m : Matcher) (segs : List Seg) :
    ∀ (path : Bytes) (a a' : List Bytes) (it : Nat),
      a.length = a'.length → it + nParams segs ≤ a.length →
      (∀ j, j < it → a.getD j [] = a'.getD j []) →
      match getMatch m segs path a it, getMatch m segs path a' it with
      | some r, some r' => ∀ j, j < it + nParams segs → r.getD j [] = r'.getD j []
      | none, none => True
      | _, _ => False := by
  induction segs with
  | nil =>
    intro path a a' it _ _ hlow
    simp only [getMatch]
    split <;> simp_all [nParams]
  | cons s segs ih =>
    intro path a a' it hlen hcap hlow
    cases s with
    | const c =>
      simp only [getMatch]
      cases m.constLen c path with
      | none => trivial
      | some i => exact ih (path.drop i) a a' it hlen (by simpa [nParams] using hcap) hlow
    | param k =>
      have hit : it < a.length := by simp [nParams] at hcap; omega
      have hit' : it < a'.length := hlen ▸ hit
      simp only [getMatch]
      by_cases h1 : (!m.optional k && m.paramLen k path == 0) = true
      · rw [if_pos h1, if_pos h1]; trivial
      · have g1 : ¬ a.length ≤ it := by omega
        have g2 : ¬ a'.length ≤ it := by omega
        rw [if_neg h1, if_neg h1, if_neg g1, if_neg g2]
        rw [getD_set_self a it _ hit, getD_set_self a' it _ hit']
        by_cases h2 : (!(m.optional k && m.paramLen k path == 0) && !m.constraintsOk k (List.take (m.paramLen k path) path)) = true
        · rw [if_pos h2, if_pos h2]; trivial
        · rw [if_neg h2, if_neg h2]
          have := ih (path.drop (m.paramLen k path)) (a.set it (path.take (m.paramLen k path)))
            (a'.set it (path.take (m.paramLen k path))) (it + 1) (by simp [hlen])
            (by simp [nParams] at hcap ⊢; omega)
            (by
              intro j hj
              by_cases hji : j = it
              · subst hji; rw [getD_set_self a j _ hit, getD_set_self a' j _ hit']
              · have : j < it := by omega
                simp only [List.getD, List.getElem?_set_ne (Ne.symm hji)]
                exact hlow j this)
          have e : it + 1 + nParams segs = it + nParams (Seg.param k :: segs) := by simp [nParams]; omega
          rw [e] at this
          exact this

/-- `ctx.go Params` for the matched route: slots `0 … n-1` -/
def readSlots (values : List Bytes) (n : Nat) : List Bytes := (List.range n).map fun i => values.getD i []

/-- What `Params` can return after a successful match is the same whatever `c.values` held before. -/
theorem getMatch_slots_indep (m : Matcher) (segs : List Seg) (path : Bytes) (a a' : List Bytes)
    (hlen : a.length = a'.length) (hcap : nParams segs ≤ a.length) :
    (getMatch m segs path a 0).isSome = (getMatch m segs path a' 0).isSome ∧
    ∀ r r', getMatch m segs path a 0 = some r → getMatch m segs path a' 0 = some r' →
      readSlots r (nParams segs) = readSlots r' (nParams segs) := by
  have h := getMatch_indep m segs path a a' 0 hlen (by simpa using hcap) (by intro j hj; omega)
  cases h1 : getMatch m segs path a 0 <;> cases h2 : getMatch m segs path a' 0 <;> simp only [h1, h2] at h
  · exact ⟨rfl, by intro r r' hr; cases hr⟩
  · refine ⟨rfl, ?_⟩
    intro r r' hr hr'
    cases hr; cases hr'
    unfold readSlots
    apply List.map_congr_left
    intro i hi
    exact h i (by simpa using List.mem_range.mp hi)

/-! non-vacuity: `/q/:x?` on the request `/q` over an array that still holds an earlier request's value -/

def demoMatcher : Matcher :=
  { constLen := fun c p => if c.isPrefixOf p then some c.length
                           else if c.dropLast.isPrefixOf p ∧ p.length = c.length - 1 then some (c.length - 1) else none,
    paramLen := fun _ p => (p.takeWhile (· ≠ 47)).length,
    optional := fun _ => true, constraintsOk := fun _ _ => true, partialCheck := false }

example : getMatch demoMatcher [.const (b "/q/"), .param 0] (b "/q") [b "alice", b "secret"] 0 = some [[], b "secret"] := by decide
example : getMatch demoMatcher [.const (b "/q/"), .param 0] (b "/q/bob") [b "alice", b "secret"] 0 = some [b "bob", b "secret"] := by decide

end C05
