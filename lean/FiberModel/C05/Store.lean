import FiberModel.C05.Sched
/-
C05 — the small-step world extended with the app-level memo table `App.sendfiles`.

`Model.lean` / `Sched.lean` serve `c.SendFile` with the entry of the call's own configuration (`sfVal cfg`).
Here the store itself is part of the world: a `SendFile` action looks its configuration up among the entries
EARLIER requests (of any connection, any worker) have left in the store — first entry `compareConfig`
accepts — and appends one on a miss (ctx.go `SendFile`: lookup under RLock, build + append under Lock). The
store is the one object of the anchored files that is shared by all requests of an application without being
owned by one of them between a `Get` and a `Put`; everything else of a step is the step of `Model.lean`.

  `actS`            one handler action over (handler state, store)
  `stepS`, `runHistoryS`, `probeAfterS`, `probeFreshS`   sequential histories over `WorldS = World + store`
  `cstepS`, `runSchedS`                                  schedules over `CWorldS = CWorld + store`; the extra event
                    `dupAppend` is the append of a request that missed while another request with the same
                    configuration was building its entry (the two critical sections are separate)

Which steps touch the store: only a handler action `sf`. The error handler's script (`plantActs`), the flash
check, routing and release do not call `SendFile`; a request fasthttp rejects never reaches a handler.
The driver runs THESE functions (so the correspondence check validates the store-threaded semantics; with an
incomplete comparison they reproduce the leak of the real code); `StoreLemmas.lean` proves that for a complete
comparison they coincide with the store-free ones, which lifts the main theorems (Props.lean).
-/
namespace C05
open B

/-- one handler action with `App.sendfiles` threaded through -/
def actS (m : SFMask) (rq : Req) (params : List Bytes) (fv : List Msg) (pick : Nat) (s : Live) (st : SFStore) :
    Act → Live × SFStore
  | .sf cfg hdr => ({ s with resp := sendFileWith (st.serve m cfg).1 cfg hdr s.resp }, (st.serve m cfg).2)
  | a => (act rq params fv pick s a, st)

def runScriptS (m : SFMask) (rq : Req) (params : List Bytes) (fv : List Msg) (pick : Nat) :
    Live → SFStore → List Act → Live × SFStore
  | s, st, [] => (s, st)
  | s, st, a :: rest =>
    runScriptS m rq params fv pick (actS m rq params fv pick s st a).1 (actS m rq params fv pick s st a).2 rest

/-- `Flight.stepAct` with the store -/
def Flight.stepActS (m : SFMask) (f : Flight) (reds : List Redirect) (st : SFStore) (pick : Nat) :
    (Flight × List Redirect) × SFStore :=
  match f.todo with
  | [] => ((f, reds), st)
  | a :: rest =>
    (({ f with s := (actS m f.rq f.params f.fl.vis pick { f.s with reds := reds } st a).1, todo := rest },
      (actS m f.rq f.params f.fl.vis pick { f.s with reds := reds } st a).1.reds),
     (actS m f.rq f.params f.fl.vis pick { f.s with reds := reds } st a).2)

/-- `Flight.complete` with the store -/
def Flight.completeS (F : RFacts) (g : Flight) (reds : List Redirect) (st : SFStore) (pick : Nat) :
    (Ctx × List Redirect × Obs) × SFStore :=
  let e := g.enter F reds pick
  let r := runScriptS F.sfMask e.1.rq e.1.params e.1.fl.vis pick { e.1.s with reds := e.2 } st e.1.todo
  (Flight.retire F { e.1 with s := r.1, todo := [] } r.1.reds pick, r.2)

/-! ### sequential histories -/

structure WorldS where
  w : World
  sfs : SFStore            -- App.sendfiles
  deriving Repr, Inhabited

def WorldS.empty : WorldS := ⟨World.empty, []⟩

def stepS (F : RFacts) (ws : WorldS) (rq : Req) (pk : Pick) : WorldS × Option Obs :=
  if rq.bad ≠ 0 then (⟨(step F ws.w rq pk).1, ws.sfs⟩, none)
  else
    let t := takeAt ws.w.ctxs pk.ctx Ctx.fresh
    let r := (Flight.acquire F t.1 rq).completeS F ws.w.reds ws.sfs pk.red
    (⟨{ ctxs := r.1.1 :: t.2, reds := r.1.2.1 }, r.2⟩, some r.1.2.2)

def runHistoryS (F : RFacts) (ws : WorldS) : List (Req × Pick) → WorldS
  | [] => ws
  | (rq, pk) :: rest => runHistoryS F (stepS F ws rq pk).1 rest

/-- the probe's observation after a history, everything the history left behind included: pooled contexts,
    pooled Redirects AND the entries of `App.sendfiles` -/
def probeAfterS (F : RFacts) (hist : List (Req × Pick)) (probe : Req) (pk : Pick) : Option Obs :=
  (stepS F (runHistoryS F WorldS.empty hist) probe pk).2

/-- … and on a fresh app: empty pools, empty store -/
def probeFreshS (F : RFacts) (probe : Req) : Option Obs :=
  (stepS F WorldS.empty probe ⟨0, 0⟩).2

/-! ### schedules -/

structure CWorldS where
  c : CWorld
  sfs : SFStore
  deriving Repr, Inhabited

def CWorldS.empty : CWorldS := ⟨CWorld.empty, []⟩

inductive EvS where
  | ev (e : Ev)
  | dupAppend (cfg : SFCfg)   -- the second of two requests that both missed appends its (identical) entry
  deriving Repr, Inhabited

def cstepS (F : RFacts) (ws : CWorldS) : EvS → CWorldS
  | .ev (.act id p) =>
    match ws.c.flights.lookup id with
    | none => ws
    | some f =>
      ⟨{ ws.c with reds := (f.stepActS F.sfMask ws.c.reds ws.sfs p).1.2,
                   flights := setFlight ws.c.flights id (f.stepActS F.sfMask ws.c.reds ws.sfs p).1.1 },
       (f.stepActS F.sfMask ws.c.reds ws.sfs p).2⟩
  | .ev e => ⟨cstep F ws.c e, ws.sfs⟩
  | .dupAppend cfg => ⟨ws.c, ws.sfs ++ [(cfg, sfVal cfg)]⟩

def runSchedS (F : RFacts) (ws : CWorldS) (evs : List EvS) : CWorldS := evs.foldl (cstepS F) ws

/-- the schedule without the store events -/
def EvS.plain : EvS → Option Ev
  | .ev e => some e
  | .dupAppend _ => none

end C05
