/-
C05 — vocabulary of the regenerated recycling facts (`FiberModel/Generated/C05Facts.lean`, written
by translator/c05 on every check run). Core Lean only.
-/
namespace C05

/-- What `Reset` / `release` does to a field of a pooled object. -/
inductive Assign where
  | none      -- not touched
  | cond      -- assigned only under some condition (does not count)
  | zero      -- nil, "", 0, false, T{}
  | lit       -- another constant (-1, 302 …)
  | reslice0  -- x = x[:0]  (elements of the backing array stay)
  | cleared   -- clear(x) (full length) together with the re-slice
  | fresh     -- computed from the new request / the app
  deriving DecidableEq, Repr, Inhabited

/-- the assignment makes the field independent of its previous content -/
def Assign.overwrites : Assign → Bool
  | .zero | .lit | .cleared | .fresh => true
  | .none | .cond | .reslice0 => false

structure FieldFact where
  name : String
  type : String
  reset : Assign
  release : Assign
  deriving DecidableEq, Repr, Inhabited

/-- a shared mutable object a request handler can reach besides the fields of the pooled objects: a field of
    `App`, a package-level variable of the anchored files, or a pool of another file / package that a function of
    the anchored files takes objects from; `writers`: the functions of the package that write it (for a foreign
    pool: the functions of the anchored files that use it) -/
structure SharedObj where
  owner : String      -- "App" | "package" | "foreign"
  name : String
  type : String
  writers : List String
  deriving DecidableEq, Repr, Inhabited

structure Lifecycle where
  acquireResets : Bool              -- AcquireCtx calls Reset on what the pool returned
  releaseBeforePut : Bool           -- ReleaseCtx calls release() before pool.Put
  handlerDefersRelease : Bool       -- both request handlers `defer app.ReleaseCtx(ctx)`
  redirectReleaseBeforePut : Bool   -- ReleaseRedirect calls release() before redirectPool.Put
  ctxReleaseReturnsRedirect : Bool  -- DefaultCtx.release hands the attached Redirect back
  flashDecodeWipes : Bool           -- parseAndClearFlashMessages clears the reused slice (full capacity) before decoding
  flashDropsOnError : Bool          -- … and drops partial results when decoding fails
  errorHandlerDefersRelease : Bool  -- app.go serverErrorHandler `defer app.ReleaseCtx(c)`
  poolOpsConfined : Bool            -- App.pool only in AcquireCtx (Get) / ReleaseCtx (Put); redirectPool only in AcquireRedirect / ReleaseRedirect
  starWritesSlot0 : Bool            -- router.go Route.match: the catch-all branch writes params[0] on every path
  getMatchWritesBeforeRead : Bool   -- path.go getMatch: every use of params follows the unconditional params[paramsIterator] = … of the same iteration
  paramsReadsRouteSlots : Bool      -- ctx.go Params indexes c.values only with the loop variable of `range route.Params`
  sendFileStoresOwnConfig : Bool    -- ctx.go SendFile: lookup through compareConfig(cfg); the entry built on a miss is keyed by cfg
  deriving DecidableEq, Repr, Inhabited

end C05
