import FiberModel.C04.Known
import FiberModel.C04.PathLemmas
/-
C04 — from the stacks the code builds (merging, placeholders, splice, renumbering) to a
denotation: per method, the list of (use, Path, handler) entries a definition tree registers.
-/
namespace C04
open B

def entriesOf (r : Route) : List Entry := r.handlers.map fun h => (r.use, r.raw, h)

def mapRaw (T : Bytes → Bytes) (e : Entry) : Entry := (e.1, T e.2.1, e.2.2)

@[simp] theorem expand_nil : expand [] = [] := rfl
theorem expand_cons (r : Route) (l : List Route) : expand (r :: l) = entriesOf r ++ expand l := by
  simp [expand, entriesOf]
theorem expand_append (a b : List Route) : expand (a ++ b) = expand a ++ expand b := by
  simp [expand]

theorem expand_map_addPrefix (cfg : Cfg) (po : Bytes → List Bytes) (raw : Bytes) (l : List Route) :
    expand (l.map (addPrefix cfg po raw)) = (expand l).map (mapRaw (getGroupPath raw)) := by
  induction l with
  | nil => rfl
  | cons r t ih =>
    rw [List.map_cons, expand_cons, expand_cons, List.map_append, ih]
    congr 1
    simp [entriesOf, addPrefix, mapRaw]

theorem expand_renum (c : Nat) (l : List Route) : expand (renum c l) = expand l := by
  induction l generalizing c with
  | nil => rfl
  | cons r t ih =>
    simp only [renum]
    rw [expand_cons, expand_cons, ih]
    rfl

theorem splice_append (cfg : Cfg) (po : Bytes → List Bytes) (k : Nat) (a b : List Slot) :
    splice cfg po k (a ++ b) = splice cfg po k a ++ splice cfg po k b := by
  induction a with
  | nil => rfl
  | cons s t ih =>
    cases s with
    | route r => simp [splice, ih]
    | mount raw sub => simp [splice, ih]

/-- entries of a stack under construction (kept newest first) -/
def expandS (cfg : Cfg) (po : Bytes → List Bytes) (k : Nat) (l : List Slot) : List Entry :=
  expand (splice cfg po k l.reverse)

@[simp] theorem expandS_nil (cfg : Cfg) (po : Bytes → List Bytes) (k : Nat) : expandS cfg po k [] = [] := rfl

theorem expandS_cons_route (cfg : Cfg) (po : Bytes → List Bytes) (k : Nat) (r : Route) (l : List Slot) :
    expandS cfg po k (.route r :: l) = expandS cfg po k l ++ entriesOf r := by
  unfold expandS
  rw [List.reverse_cons, splice_append, expand_append]
  simp [splice, expand_cons]

theorem expandS_cons_mount (cfg : Cfg) (po : Bytes → List Bytes) (k : Nat) (raw : Bytes)
    (sub : Nat → List Route) (l : List Slot) :
    expandS cfg po k (.mount raw sub :: l) =
      expandS cfg po k l ++ (expand (sub k)).map (mapRaw (getGroupPath raw)) := by
  unfold expandS
  rw [List.reverse_cons, splice_append, expand_append]
  simp [splice, expand_map_addPrefix]

/-- `addRoute`'s merge is invisible per handler -/
theorem expandS_pushRoute (cfg : Cfg) (po : Bytes → List Bytes) (k : Nat) (l : List Slot) (r : Route) (c : Nat) :
    expandS cfg po k (pushRoute l r c).1 = expandS cfg po k l ++ entriesOf r := by
  unfold pushRoute
  split
  · rename_i p t
    by_cases h : p.raw = r.raw ∧ p.use = r.use
    · simp only [h, and_self, if_true]
      rw [expandS_cons_route, expandS_cons_route, List.append_assoc]
      congr 1
      simp [entriesOf, h.1, h.2]
    · simp only [h, if_false]
      rw [expandS_cons_route]; rfl
  · rw [expandS_cons_route]; rfl

theorem expandS_addRoute (cfg : Cfg) (po : Bytes → List Bytes) (k m : Nat) (r : Route) (st : St) :
    expandS cfg po k ((addRoute m r st).stacks k) =
      expandS cfg po k (st.stacks k) ++ (if k = m then entriesOf r else []) := by
  unfold addRoute
  by_cases h : k = m
  · subst h; simp [expandS_pushRoute]
  · simp [h]

theorem replicate_flatten_succ {α} (n : Nat) (e : List α) :
    (List.replicate (n + 1) e).flatten = e ++ (List.replicate n e).flatten := by
  simp [List.replicate_succ]

theorem expandS_regMany (cfg : Cfg) (po : Bytes → List Bytes) (k : Nat) (ms : List Nat) (r : Route) (st : St) :
    expandS cfg po k ((regMany ms r st).stacks k) =
      expandS cfg po k (st.stacks k) ++ (List.replicate (ms.count k) (entriesOf r)).flatten := by
  induction ms generalizing st with
  | nil => simp [regMany]
  | cons m ms ih =>
    have : regMany (m :: ms) r st = regMany ms r (addRoute m r st) := rfl
    rw [this, ih, expandS_addRoute, List.count_cons, List.append_assoc]
    congr 1
    by_cases h : k = m
    · subst h; simp [replicate_flatten_succ]
    · have : (m == k) = false := by simp; exact fun e => h e.symm
      simp [h, this]

theorem regMany_mounted (ms : List Nat) (r : Route) (st : St) : (regMany ms r st).mounted = st.mounted := by
  induction ms generalizing st with
  | nil => rfl
  | cons m ms ih =>
    have : regMany (m :: ms) r st = regMany ms r (addRoute m r st) := rfl
    rw [this, ih]; rfl

theorem expandS_addMount (cfg : Cfg) (po : Bytes → List Bytes) (k m : Nat) (raw : Bytes)
    (sub : Nat → List Route) (st : St) :
    expandS cfg po k ((addMount m raw sub st).stacks k) =
      expandS cfg po k (st.stacks k) ++
        (if k = m then (expand (sub k)).map (mapRaw (getGroupPath raw)) else []) := by
  unfold addMount
  by_cases h : k = m
  · subst h; simp [expandS_cons_mount]
  · simp [h]

theorem expandS_foldl_addMount (cfg : Cfg) (po : Bytes → List Bytes) (k : Nat) (ms : List Nat) (raw : Bytes)
    (sub : Nat → List Route) (st : St) :
    expandS cfg po k ((ms.foldl (fun st m => addMount m raw sub st) st).stacks k) =
      expandS cfg po k (st.stacks k) ++
        (List.replicate (ms.count k) ((expand (sub k)).map (mapRaw (getGroupPath raw)))).flatten := by
  induction ms generalizing st with
  | nil => simp
  | cons m ms ih =>
    rw [List.foldl_cons, ih, expandS_addMount, List.count_cons, List.append_assoc]
    congr 1
    by_cases h : k = m
    · subst h; simp [replicate_flatten_succ]
    · have : (m == k) = false := by simp; exact fun e => h e.symm
      simp [h, this]

theorem count_range (n k : Nat) : (List.range n).count k = if k < n then 1 else 0 := by
  induction n with
  | zero => simp
  | succ n ih =>
    rw [List.range_succ, List.count_append, ih]
    by_cases h2 : k = n
    · subst h2; simp
    · have hc : List.count k [n] = 0 := by
        rw [List.count_cons]; simp; exact fun e => h2 e.symm
      rw [hc]
      by_cases h1 : k < n
      · have : k < n + 1 := by omega
        simp [h1, this]
      · have : ¬ k < n + 1 := by omega
        simp [h1, this]

theorem count_allMethods (k : Nat) : allMethods.count k = if k < nMethods then 1 else 0 :=
  count_range nMethods k

theorem replicate_if_flatten {α} (c : Prop) [Decidable c] (e : List α) :
    (List.replicate (if c then 1 else 0) e).flatten = if c then e else [] := by
  by_cases h : c <;> simp [h]

theorem expandS_regMount (cfg : Cfg) (po : Bytes → List Bytes) (k : Nat) (raw : Bytes)
    (sub : Nat → List Route) (st : St) :
    expandS cfg po k ((regMount raw sub st).stacks k) =
      expandS cfg po k (st.stacks k) ++
        (if k < nMethods then (expand (sub k)).map (mapRaw (getGroupPath raw)) else []) := by
  unfold regMount
  simp only
  rw [expandS_foldl_addMount, count_allMethods, replicate_if_flatten]

theorem expand_finish (cfg : Cfg) (po : Bytes → List Bytes) (st : St) (k : Nat) :
    expand (finish cfg po st k) = expandS cfg po k (st.stacks k) := by
  unfold finish
  by_cases h : st.mounted = true
  · simp only [h, if_true]; rw [expand_renum]; rfl
  · simp only [h, Bool.false_eq_true, if_false]; rfl

/-! ### the denotation of a definition tree -/

/-- handlers `hs` registered `n` times at Path `raw` -/
def regEntries (use : Bool) (raw : Bytes) (n : Nat) (hs : List Nat) : List Entry :=
  (List.replicate n hs).flatten.map fun h => (use, raw, h)

mutual
/-- entries (use, Path, handler) that an item registers on method `k`, in order; `c` = prefix of
the group the item is registered on (`none`: the app itself). A mounted app contributes its own
entries with the placeholder's Path in front. -/
def denItem (c : Option Bytes) (k : Nat) : Item → List Entry
  | .route ms p hs => regEntries false (rawOf (regPath c p)) (ms.count k) hs
  | .use p hs => regEntries true (rawOf (regPath c p)) (if k < nMethods then 1 else 0) hs
  | .group p hs items =>
    regEntries true (rawOf (regPath c p)) (if k < nMethods then 1 else 0) hs
      ++ denItems (some (regPath c p)) k items
  | .mount p _ sub =>
    if k < nMethods then
      (denItems none k sub).map (mapRaw (getGroupPath (rawOf (mountPath (regPath c p)))))
    else []
def denItems (c : Option Bytes) (k : Nat) : List Item → List Entry
  | [] => []
  | i :: is => denItem c k i ++ denItems c k is
end

theorem entriesOf_mkRoute (cfg : Cfg) (po : Bytes → List Bytes) (use : Bool) (p : Bytes) (hs : List Nat) :
    entriesOf (mkRoute cfg po use p hs) = hs.map fun h => (use, rawOf p, h) := rfl

theorem replicate_entries (n : Nat) (use : Bool) (raw : Bytes) (hs : List Nat) :
    (List.replicate n (hs.map fun h => ((use, raw, h) : Entry))).flatten = regEntries use raw n hs := by
  unfold regEntries
  induction n with
  | zero => rfl
  | succ n ih =>
    rw [List.replicate_succ, List.replicate_succ, List.flatten_cons, List.flatten_cons, List.map_append, ih]

theorem regEntries_nil (use : Bool) (raw : Bytes) (n : Nat) : regEntries use raw n [] = [] := by
  unfold regEntries
  induction n with
  | zero => simp
  | succ n ih => rw [List.replicate_succ, List.flatten_cons]; exact ih

mutual
theorem buildItem_den (cfg : Cfg) (po : Bytes → List Bytes) (c : Option Bytes) (k : Nat) :
    ∀ (i : Item) (st : St),
      expandS cfg po k ((buildItem cfg po c i st).stacks k) = expandS cfg po k (st.stacks k) ++ denItem c k i
  | .route ms p hs, st => by
    simp only [buildItem, denItem]
    rw [expandS_regMany, entriesOf_mkRoute, replicate_entries]
  | .use p hs, st => by
    simp only [buildItem, denItem]
    rw [expandS_regMany, entriesOf_mkRoute, replicate_entries, count_allMethods]
  | .group p hs items, st => by
    simp only [buildItem, denItem]
    rw [buildItems_den cfg po (some (regPath c p)) k items]
    by_cases h : hs = []
    · subst h; simp [regEntries_nil]
    · simp only [h, if_false]
      rw [expandS_regMany, entriesOf_mkRoute, replicate_entries, count_allMethods, List.append_assoc]
  | .mount p scfg sub, st => by
    simp only [buildItem, denItem]
    rw [expandS_regMount, expand_finish, buildItems_den scfg po none k sub St.init]
    simp [St.init]
theorem buildItems_den (cfg : Cfg) (po : Bytes → List Bytes) (c : Option Bytes) (k : Nat) :
    ∀ (is : List Item) (st : St),
      expandS cfg po k ((buildItems cfg po c is st).stacks k) = expandS cfg po k (st.stacks k) ++ denItems c k is
  | [], st => by simp [buildItems, denItems]
  | i :: is, st => by
    simp only [buildItems, denItems]
    rw [buildItems_den cfg po c k is, buildItem_den cfg po c k i, List.append_assoc]
end

/-- The table the code builds (merges, placeholders, splice, renumbering) lists, per handler, exactly
the entries of the definition tree's denotation. -/
theorem expand_flatten (cfg : Cfg) (po : Bytes → List Bytes) (items : List Item) (k : Nat) :
    expand (flatten cfg po items k) = denItems none k items := by
  unfold flatten
  rw [expand_finish, buildItems_den]
  simp [St.init]

end C04
