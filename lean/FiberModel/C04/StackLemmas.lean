import FiberModel.C04.Known
import FiberModel.C04.FieldLemmas
/-
C04 — from the stacks the code builds (merging, placeholders, splice, renumbering) to a
denotation: per method, the list of (use, registration path, handler) entries a definition tree
registers. The registration path is kept in the canonical form `canon` (empty, or with its leading
slash): that is all `getGroupPath`, `register` and `addRoute`'s merge read of `Route.pathOrig`.
-/
namespace C04
open B

/-- the canonical registration path of a route, read off the two fields `addRoute` compares -/
def keyOf (r : Route) : Bytes := if r.orig = [] then [] else r.raw

/-- per-handler entries of a route: (use, canonical registration path, handler) -/
def entriesOf (r : Route) : List Entry := r.handlers.map fun h => (r.use, keyOf r, h)

def mapRaw (T : Bytes → Bytes) (e : Entry) : Entry := (e.1, T e.2.1, e.2.2)

/-- per-handler entries of a stack, keyed by the canonical registration path -/
def expandK (l : List Route) : List Entry := l.flatMap entriesOf

@[simp] theorem expandK_nil : expandK [] = [] := rfl
theorem expandK_cons (r : Route) (l : List Route) : expandK (r :: l) = entriesOf r ++ expandK l := by
  simp [expandK]
theorem expandK_append (a b : List Route) : expandK (a ++ b) = expandK a ++ expandK b := by
  simp [expandK]

theorem keyOf_eq_canon {r : Route} (h : r.raw = rawOf r.orig) : keyOf r = canon r.orig := by
  unfold keyOf canon; rw [h]

/-- the Path is the canonical registration path with "" read as "/" -/
theorem expand_eq_expandK {l : List Route} (h : ∀ r ∈ l, r.raw = rawOf r.orig) :
    expand l = (expandK l).map (mapRaw rawOf) := by
  induction l with
  | nil => rfl
  | cons r t ih =>
    have hr := h r (by simp)
    have ht := ih (fun x hx => h x (List.mem_cons_of_mem _ hx))
    rw [expandK_cons, List.map_append, ← ht]
    have : r.raw = rawOf (keyOf r) := by
      rw [keyOf_eq_canon hr, rawOf_canon]; exact hr
    simp only [expand, List.flatMap_cons, entriesOf, List.map_map, Function.comp_def, mapRaw]
    rw [← this]

theorem keyOf_addPrefix (cfg : Cfg) (po : Bytes → List Bytes) (pre : Bytes) {r : Route}
    (h : r.raw = rawOf r.orig) :
    keyOf (addPrefix cfg po pre r) = canon (getGroupPath pre (keyOf r)) := by
  rw [keyOf_eq_canon h, ggp_canon]
  rfl

theorem expandK_map_addPrefix (cfg : Cfg) (po : Bytes → List Bytes) (pre : Bytes) (l : List Route)
    (h : ∀ r ∈ l, r.raw = rawOf r.orig) :
    expandK (l.map (addPrefix cfg po pre)) = (expandK l).map (mapRaw fun κ => canon (getGroupPath pre κ)) := by
  induction l with
  | nil => rfl
  | cons r t ih =>
    rw [List.map_cons, expandK_cons, expandK_cons, List.map_append, ih (fun x hx => h x (List.mem_cons_of_mem _ hx))]
    congr 1
    have hk := keyOf_addPrefix cfg po pre (h r (by simp))
    simp only [entriesOf, List.map_map, Function.comp_def, mapRaw, hk]
    rfl

theorem expandK_renum (c : Nat) (l : List Route) : expandK (renum c l) = expandK l := by
  induction l generalizing c with
  | nil => rfl
  | cons r t ih =>
    simp only [renum]
    rw [expandK_cons, expandK_cons, ih]
    rfl

theorem splice_append (cfg : Cfg) (po : Bytes → List Bytes) (k : Nat) (a b : List Slot) :
    splice cfg po k (a ++ b) = splice cfg po k a ++ splice cfg po k b := by
  induction a with
  | nil => rfl
  | cons s t ih =>
    cases s with
    | route r => simp [splice, ih]
    | mount raw pre sub => simp [splice, ih]

/-- entries of a stack under construction (kept newest first) -/
def expandS (cfg : Cfg) (po : Bytes → List Bytes) (k : Nat) (l : List Slot) : List Entry :=
  expandK (splice cfg po k l.reverse)

@[simp] theorem expandS_nil (cfg : Cfg) (po : Bytes → List Bytes) (k : Nat) : expandS cfg po k [] = [] := rfl

theorem expandS_cons_route (cfg : Cfg) (po : Bytes → List Bytes) (k : Nat) (r : Route) (l : List Slot) :
    expandS cfg po k (.route r :: l) = expandS cfg po k l ++ entriesOf r := by
  unfold expandS
  rw [List.reverse_cons, splice_append, expandK_append]
  simp [splice, expandK_cons]

/-- what a mounted app's table contributes: its entries, each registration path prefixed the way
`getGroupPath` prefixes a path under a group -/
def prefixK (pre : Bytes) (κ : Bytes) : Bytes := canon (getGroupPath pre κ)

/-- the sub-app tables a placeholder may hold: every route's Path is its registration path normalised -/
def SubOK (sub : Nat → List Route) : Prop := ∀ k, ∀ r ∈ sub k, r.raw = rawOf r.orig

theorem expandS_cons_mount (cfg : Cfg) (po : Bytes → List Bytes) (k : Nat) (raw pre : Bytes)
    (sub : Nat → List Route) (hsub : SubOK sub) (l : List Slot) :
    expandS cfg po k (.mount raw pre sub :: l) =
      expandS cfg po k l ++ (expandK (sub k)).map (mapRaw (prefixK pre)) := by
  unfold expandS
  rw [List.reverse_cons, splice_append, expandK_append]
  simp only [splice, List.append_nil]
  rw [expandK_map_addPrefix cfg po pre (sub k) (hsub k)]
  rfl

/-- `addRoute`'s merge is invisible per handler -/
theorem expandS_pushRoute (cfg : Cfg) (po : Bytes → List Bytes) (k : Nat) (l : List Slot) (r : Route) (c : Nat) :
    expandS cfg po k (pushRoute l r c).1 = expandS cfg po k l ++ entriesOf r := by
  unfold pushRoute
  split
  · rename_i p t
    by_cases h : p.raw = r.raw ∧ (p.orig == []) = (r.orig == []) ∧ p.use = r.use
    · rw [if_pos h]
      rw [expandS_cons_route, expandS_cons_route, List.append_assoc]
      congr 1
      have hk : keyOf p = keyOf r := by
        unfold keyOf
        have h2 := h.2.1
        by_cases hp : p.orig = []
        · have : r.orig = [] := by simpa [hp] using h2
          simp [hp, this]
        · have : r.orig ≠ [] := by
            intro e; rw [e] at h2; simp [hp] at h2
          simp [hp, this, h.1]
      simp only [entriesOf, List.map_append]
      rw [show keyOf { p with handlers := p.handlers ++ r.handlers } = keyOf p from rfl, hk, h.2.2]
    · rw [if_neg h]
      rw [expandS_cons_route]; rfl
  · rw [expandS_cons_route]; rfl

theorem expandS_addRoute (cfg : Cfg) (po : Bytes → List Bytes) (k m : Nat) (r : Route) (st : St) :
    expandS cfg po k ((addRoute m r st).stacks k) =
      expandS cfg po k (st.stacks k) ++ (if k = m then entriesOf r else []) := by
  unfold addRoute
  by_cases h : k = m
  · subst h; simp [expandS_pushRoute]
  · simp [h]

theorem replicate_flatten_succ {α} (n : Nat) (e : List α) :
    (List.replicate (n + 1) e).flatten = e ++ (List.replicate n e).flatten := by
  simp [List.replicate_succ]

theorem expandS_regMany (cfg : Cfg) (po : Bytes → List Bytes) (k : Nat) (ms : List Nat) (r : Route) (st : St) :
    expandS cfg po k ((regMany ms r st).stacks k) =
      expandS cfg po k (st.stacks k) ++ (List.replicate (ms.count k) (entriesOf r)).flatten := by
  induction ms generalizing st with
  | nil => simp [regMany]
  | cons m ms ih =>
    have : regMany (m :: ms) r st = regMany ms r (addRoute m r st) := rfl
    rw [this, ih, expandS_addRoute, List.count_cons, List.append_assoc]
    congr 1
    by_cases h : k = m
    · subst h; simp [replicate_flatten_succ]
    · have : (m == k) = false := by simp; exact fun e => h e.symm
      simp [h, this]

theorem regMany_mounted (ms : List Nat) (r : Route) (st : St) : (regMany ms r st).mounted = st.mounted := by
  induction ms generalizing st with
  | nil => rfl
  | cons m ms ih =>
    have : regMany (m :: ms) r st = regMany ms r (addRoute m r st) := rfl
    rw [this, ih]; rfl

theorem expandS_addMount (cfg : Cfg) (po : Bytes → List Bytes) (k m : Nat) (raw pre : Bytes)
    (sub : Nat → List Route) (hsub : SubOK sub) (st : St) :
    expandS cfg po k ((addMount m raw pre sub st).stacks k) =
      expandS cfg po k (st.stacks k) ++
        (if k = m then (expandK (sub k)).map (mapRaw (prefixK pre)) else []) := by
  unfold addMount
  by_cases h : k = m
  · subst h; simp [expandS_cons_mount _ _ _ _ _ _ hsub]
  · simp [h]

theorem expandS_foldl_addMount (cfg : Cfg) (po : Bytes → List Bytes) (k : Nat) (ms : List Nat) (raw pre : Bytes)
    (sub : Nat → List Route) (hsub : SubOK sub) (st : St) :
    expandS cfg po k ((ms.foldl (fun st m => addMount m raw pre sub st) st).stacks k) =
      expandS cfg po k (st.stacks k) ++
        (List.replicate (ms.count k) ((expandK (sub k)).map (mapRaw (prefixK pre)))).flatten := by
  induction ms generalizing st with
  | nil => simp
  | cons m ms ih =>
    rw [List.foldl_cons, ih, expandS_addMount _ _ _ _ _ _ _ hsub, List.count_cons, List.append_assoc]
    congr 1
    by_cases h : k = m
    · subst h; simp [replicate_flatten_succ]
    · have : (m == k) = false := by simp; exact fun e => h e.symm
      simp [h, this]

theorem count_range (n k : Nat) : (List.range n).count k = if k < n then 1 else 0 := by
  induction n with
  | zero => simp
  | succ n ih =>
    rw [List.range_succ, List.count_append, ih]
    by_cases h2 : k = n
    · subst h2; simp
    · have hc : List.count k [n] = 0 := by
        rw [List.count_cons]; simp; exact fun e => h2 e.symm
      rw [hc]
      by_cases h1 : k < n
      · have : k < n + 1 := by omega
        simp [h1, this]
      · have : ¬ k < n + 1 := by omega
        simp [h1, this]

theorem count_allMethods (k : Nat) : allMethods.count k = if k < nMethods then 1 else 0 :=
  count_range nMethods k

theorem replicate_if_flatten {α} (c : Prop) [Decidable c] (e : List α) :
    (List.replicate (if c then 1 else 0) e).flatten = if c then e else [] := by
  by_cases h : c <;> simp [h]

theorem expandS_regMount (cfg : Cfg) (po : Bytes → List Bytes) (k : Nat) (raw pre : Bytes)
    (sub : Nat → List Route) (hsub : SubOK sub) (st : St) :
    expandS cfg po k ((regMount raw pre sub st).stacks k) =
      expandS cfg po k (st.stacks k) ++
        (if k < nMethods then (expandK (sub k)).map (mapRaw (prefixK pre)) else []) := by
  unfold regMount
  simp only
  rw [expandS_foldl_addMount _ _ _ _ _ _ _ hsub, count_allMethods, replicate_if_flatten]

theorem expandK_finish (cfg : Cfg) (po : Bytes → List Bytes) (st : St) (k : Nat) :
    expandK (finish cfg po st k) = expandS cfg po k (st.stacks k) := by
  unfold finish
  by_cases h : st.mounted = true
  · simp only [h, if_true]; rw [expandK_renum]; rfl
  · simp only [h, Bool.false_eq_true, if_false]; rfl

/-- a finished sub-app table is a table a placeholder may hold -/
theorem subOK_flatten (cfg : Cfg) (po : Bytes → List Bytes) (items : List Item) :
    SubOK (flatten cfg po items) :=
  fun k r hr => (routeOK_flatten cfg po items k r hr).2.2.2.2.2.1

/-! ### the denotation of a definition tree -/

/-- handlers `hs` registered `n` times at the registration path `κ` -/
def regEntries (use : Bool) (κ : Bytes) (n : Nat) (hs : List Nat) : List Entry :=
  (List.replicate n hs).flatten.map fun h => (use, κ, h)

mutual
/-- entries (use, canonical registration path, handler) that an item registers on method `k`, in
order; `c` = prefix of the group the item is registered on (`none`: the app itself). A mounted app
contributes its own entries, each path prefixed with the mount prefix as given. -/
def denItem (c : Option Bytes) (k : Nat) : Item → List Entry
  | .route ms p hs => regEntries false (canon (regPath c p)) (ms.count k) hs
  | .use p hs => regEntries true (canon (regPath c p)) (if k < nMethods then 1 else 0) hs
  | .group p hs items =>
    regEntries true (canon (regPath c p)) (if k < nMethods then 1 else 0) hs
      ++ denItems (some (regPath c p)) k items
  | .mount p _ sub =>
    if k < nMethods then (denItems none k sub).map (mapRaw (prefixK (regPath c p))) else []
def denItems (c : Option Bytes) (k : Nat) : List Item → List Entry
  | [] => []
  | i :: is => denItem c k i ++ denItems c k is
end

theorem entriesOf_mkRoute (cfg : Cfg) (po : Bytes → List Bytes) (use : Bool) (p : Bytes) (hs : List Nat) :
    entriesOf (mkRoute cfg po use p hs) = hs.map fun h => (use, canon p, h) := rfl

theorem replicate_entries (n : Nat) (use : Bool) (raw : Bytes) (hs : List Nat) :
    (List.replicate n (hs.map fun h => ((use, raw, h) : Entry))).flatten = regEntries use raw n hs := by
  unfold regEntries
  induction n with
  | zero => rfl
  | succ n ih =>
    rw [List.replicate_succ, List.replicate_succ, List.flatten_cons, List.flatten_cons, List.map_append, ih]

theorem regEntries_nil (use : Bool) (raw : Bytes) (n : Nat) : regEntries use raw n [] = [] := by
  unfold regEntries
  induction n with
  | zero => simp
  | succ n ih => rw [List.replicate_succ, List.flatten_cons]; exact ih

mutual
theorem buildItem_den (cfg : Cfg) (po : Bytes → List Bytes) (c : Option Bytes) (k : Nat) :
    ∀ (i : Item) (st : St),
      expandS cfg po k ((buildItem cfg po c i st).stacks k) = expandS cfg po k (st.stacks k) ++ denItem c k i
  | .route ms p hs, st => by
    simp only [buildItem, denItem]
    rw [expandS_regMany, entriesOf_mkRoute, replicate_entries]
  | .use p hs, st => by
    simp only [buildItem, denItem]
    rw [expandS_regMany, entriesOf_mkRoute, replicate_entries, count_allMethods]
  | .group p hs items, st => by
    simp only [buildItem, denItem]
    rw [buildItems_den cfg po (some (regPath c p)) k items]
    by_cases h : hs = []
    · subst h; simp [regEntries_nil]
    · simp only [h, if_false]
      rw [expandS_regMany, entriesOf_mkRoute, replicate_entries, count_allMethods, List.append_assoc]
  | .mount p scfg sub, st => by
    simp only [buildItem, denItem]
    have hsub : SubOK (finish scfg po (buildItems scfg po none sub St.init)) := subOK_flatten scfg po sub
    rw [expandS_regMount _ _ _ _ _ _ hsub, expandK_finish, buildItems_den scfg po none k sub St.init]
    simp [St.init]
theorem buildItems_den (cfg : Cfg) (po : Bytes → List Bytes) (c : Option Bytes) (k : Nat) :
    ∀ (is : List Item) (st : St),
      expandS cfg po k ((buildItems cfg po c is st).stacks k) = expandS cfg po k (st.stacks k) ++ denItems c k is
  | [], st => by simp [buildItems, denItems]
  | i :: is, st => by
    simp only [buildItems, denItems]
    rw [buildItems_den cfg po c k is, buildItem_den cfg po c k i, List.append_assoc]
end

/-- The table the code builds (merges, placeholders, splice, renumbering) lists, per handler, exactly
the entries of the definition tree's denotation (keyed by the canonical registration path). -/
theorem expandK_flatten (cfg : Cfg) (po : Bytes → List Bytes) (items : List Item) (k : Nat) :
    expandK (flatten cfg po items k) = denItems none k items := by
  unfold flatten
  rw [expandK_finish, buildItems_den]
  simp [St.init]

/-- … and with it the (use, Path, handler) entries: the Path is the registration path normalised -/
theorem expand_flatten (cfg : Cfg) (po : Bytes → List Bytes) (items : List Item) (k : Nat) :
    expand (flatten cfg po items k) = (denItems none k items).map (mapRaw rawOf) := by
  rw [expand_eq_expandK (subOK_flatten cfg po items k), expandK_flatten]

end C04
