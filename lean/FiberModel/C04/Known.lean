import FiberModel.C04.Spec
/-
C04 — the inputs of the repaired finding F5 (recorded as known finding K1 until the repair).

Before F5 a registration inside a mounted sub-app whose path is empty (`sub.Use(mw)`,
`sub.Get("", h)`, `sub.Group("", mw)`) was stored by the sub-app as "/" and therefore mounted as
`prefix + "/"`, whereas the same call on a group with the mount prefix registers `prefix` itself;
with StrictRouting — or a prefix of slashes only, e.g. "//" — the two compositions answered
`prefix` / `prefix + "/"` differently. The code now prefixes the path as it was handed to `register`
(`Route.pathOrig`), and the property theorems hold on these inputs too (`Props.lean`). The region is
kept only so that the driver can tag the cases that exercise it (`f5-region` in the evidence).

`regionItems` follows the definition tree with the in-app group prefix `c` (what the sub-app's own
`register` sees) and the prefix `s` the group composition would be at, and fires exactly on an
empty in-app path whose group-side path does not already end in exactly one slash.
-/
namespace C04.Known
open B C04

/-- `prefix` and `prefix + "/"` register the same Path -/
def emptyAgree (S : Bytes) : Bool := rawOf (trimRight S 47 ++ [47]) == rawOf S

def badPrefix (cfg : Cfg) (S : Bytes) : Bool :=
  !emptyAgree S && (cfg.strict || trimRight S 47 == [])

mutual
/-- walk of the definition tree: does some registration with an empty in-app path sit at a
group-side prefix `S` with `bad S`? (`c`: prefix inside the current app, `s`: prefix the group
composition is at) -/
def regionItem (bad : Bytes → Bool) (c s : Option Bytes) : Item → Bool
  | .route _ p _ => regPath c p == [] && bad (regPath s p)
  | .use p _ => regPath c p == [] && bad (regPath s p)
  | .group p hs items =>
    (!hs.isEmpty && regPath c p == [] && bad (regPath s p))
      || regionItems bad (some (regPath c p)) (some (regPath s p)) items
  | .mount p _ sub => regionItems bad none (some (regPath s p)) sub
def regionItems (bad : Bytes → Bool) (c s : Option Bytes) : List Item → Bool
  | [] => false
  | i :: is => regionItem bad c s i || regionItems bad c s is
end

/-- the inputs on which the two compositions answered differently before F5 -/
def F5region (cfg : Cfg) (items : List Item) : Bool := regionItems (badPrefix cfg) none none items

end C04.Known
