import FiberModel.C04.Spec
/-
C04 — region of the recorded known finding K1 (known/C04.json).

K1: a registration inside a mounted sub-app whose path is empty (`sub.Use(mw)`, `sub.Get("", h)`,
`sub.Group("", mw)`) is stored by the sub-app as "/" (router.go register: `if pathRaw == "" {
pathRaw = "/" }`) and therefore mounted as `prefix + "/"`, whereas the same call on a group with the
mount prefix registers `prefix` itself. Unless StrictRouting is on both spell the same route
(trailing slashes are trimmed); with StrictRouting — or when the prefix consists of slashes only,
e.g. "//" — the two compositions answer `prefix` / `prefix + "/"` differently.

`regionItems` follows the definition tree with the in-app group prefix `c` (what the sub-app's own `register`
sees) and the prefix `s` the group composition would be at, and fires exactly on an empty in-app
path whose group-side path does not already end in exactly one slash.
-/
namespace C04.Known
open B C04

/-- `prefix` and `prefix + "/"` register the same Path -/
def emptyAgree (S : Bytes) : Bool := rawOf (trimRight S 47 ++ [47]) == rawOf S

def badPrefix (cfg : Cfg) (S : Bytes) : Bool :=
  !emptyAgree S && (cfg.strict || trimRight S 47 == [])

mutual
/-- walk of the definition tree: does some registration with an empty in-app path sit at a
group-side prefix `S` with `bad S`? (`c`: prefix inside the current app, `s`: prefix the group
composition is at) -/
def regionItem (bad : Bytes → Bool) (c s : Option Bytes) : Item → Bool
  | .route _ p _ => regPath c p == [] && bad (regPath s p)
  | .use p _ => regPath c p == [] && bad (regPath s p)
  | .group p hs items =>
    (!hs.isEmpty && regPath c p == [] && bad (regPath s p))
      || regionItems bad (some (regPath c p)) (some (regPath s p)) items
  | .mount p _ sub => regionItems bad none (some (regPath s p)) sub
def regionItems (bad : Bytes → Bool) (c s : Option Bytes) : List Item → Bool
  | [] => false
  | i :: is => regionItem bad c s i || regionItems bad c s is
end

/-- the region of K1 for a root application's definition tree -/
def K1 (cfg : Cfg) (items : List Item) : Bool := regionItems (badPrefix cfg) none none items

/-- configuration-independent: some empty-path registration sits at a group-side prefix that does
not already end in exactly one slash (then the two compositions store different `Path`s) -/
def emptyDisagrees (items : List Item) : Bool := regionItems (fun S => !emptyAgree S) none none items

end C04.Known
