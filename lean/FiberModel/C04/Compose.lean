import FiberModel.C04.MoreLemmas
import FiberModel.C01.Props
import FiberModel.C02.Locality
/-
C04 — composition with the dispatcher model of C01 (`C01.dispatchS`: positions, 3-byte index with
global bucket, numeric cursor, matched flag, 404/405/Allow) and, through C01's matcher parameter
`Env.M`, with the single-route matcher of C02 (`ComposeMatch.lean`).

What is connected here

  * the table the MOUNTED composition serves (`flatten`: placeholders spliced, clones re-prefixed,
    positions renumbered by `processSubAppsRoutes`) is handed to C01's dispatcher as `app.stack` /
    `app.routesCount` (`stacksOf`);
  * the GROUP composition is the program C01 models directly: its calls of `app.register` in order
    (`regsItems`: groups joined with `getGroupPath`, a mount read as the group it is replaced by),
    run by `C01.dispatch` (= `build true` + `dispatchS`).

`mount_dispatch_eq_group`: for every definition tree with a mount, every request and every
override-free handler behaviour, the two runs are equal — same handler trace, same end (the
handler's reply / error, 404, or 405 with the same Allow set) — and both equal C01's specification
`linear` of the group composition's registrations.

Bridging facts that make the interfaces line up (all proved below, no assumption added):
  * `stacksOf_flatten_eq_build`: a table renumbered by `processSubAppsRoutes` IS
    `C01.build false` of the table read as one registration per route — same routes, same
    positions, same counter (so C01's theorem for merge-free stacks applies to it verbatim);
  * `entriesAt_regsItems`: per method, the per-handler (use, Path, handler) entries of the group
    composition's registrations are `expand (flattenSpec …)`, which `mount_eq_group_paths` equates
    with `expand (flatten …)`;
  * `linear_eq_of_entries`: C01's specification depends on a registration table only through those
    per-method entries (override-free handlers).
Hypotheses that remain, and why: `hasMountTop` (an app without mounts is not renumbered — and then
both compositions are the same program, nothing to prove), no method listed twice in one `Add`
(C01's `WFReg.nodup`), override-free handlers (C01's `dispatch_refines_linear`; with overrides C01
itself is partial: its known findings K1/K2), and locality of the bucket key w.r.t. the matcher
(C01's `LocalR`; for the real matcher and key rule it is `C02.match_same_bucket`).
-/
set_option linter.unusedSimpArgs false
set_option linter.unusedVariables false
namespace C04
open B

section Dispatch
variable {π α : Type}
-- what the handler with a given id does (`Next`, reply, error; overrides excluded by hypothesis)
variable (scr : Nat → C01.Script α)
-- the bucket key `buildTree` derives for a route, as a function of its `Path` (for the real code:
-- the 3-byte hash of the first constant of the prettified path, `C01.treeKey`)
variable (keyFn : Bytes → Nat)

def hd (i : Nat) : C01.Handler α := { hid := i, script := scr i }

/-- what the dispatcher reads of a route of C01's model: position, method, use flag, `Path`, bucket
key, handlers, `pathOrig == ""` (the ghost bookkeeping fields of that model are left out) -/
def viewR (r : C01.Route α) : Nat × Nat × Bool × Bytes × Nat × List (C01.Handler α) × Bool :=
  (r.pos, r.m, r.use, r.raw, r.key, r.handlers, r.eo)

/-- the same view of a route of the served table sitting in the stack of method `k` -/
def viewOf (k : Nat) (r : Route) : Nat × Nat × Bool × Bytes × Nat × List (C01.Handler α) × Bool :=
  (r.pos, k, r.use, r.raw, keyFn r.raw, r.handlers.map (hd scr), r.orig == [])

/-- a served route read as a registration of its own (one method, its merged handlers) -/
def regOfRoute (k : Nat) (r : Route) : C01.Reg α :=
  { methods := [k], use := r.use, raw := r.raw, key := keyFn r.raw,
    handlers := r.handlers.map (hd scr), eo := r.orig == [] }

def regsOfStack (k : Nat) (l : List Route) : List (C01.Reg α) := l.map (regOfRoute scr keyFn k)

/-- the table read as registrations: method by method, stack order -/
def regsUpTo (T : Nat → List Route) : Nat → List (C01.Reg α)
  | 0 => []
  | n + 1 => regsUpTo T n ++ regsOfStack scr keyFn n (T n)

def regsOfTable (T : Nat → List Route) : List (C01.Reg α) := regsUpTo scr keyFn T nMethods

/-- the dispatcher state (`app.stack`, `app.routesCount`) holding the served table `T`: its routes
registered one by one without the duplicate merge. `stacks_of_table` shows that for a table
renumbered by `processSubAppsRoutes` this state holds exactly the routes of `T`, at exactly their
positions. -/
def stacksOfTable (T : Nat → List Route) : C01.Stacks α := C01.build false (regsOfTable scr keyFn T)

/-! ### a renumbered table is `build false` of its routes -/

/-- one registration with a single method, no merge: a new route with the next position on top of
that method's stack -/
theorem addReg_false_single (S : C01.Stacks α) (k : Nat) (g : C01.Reg α) (hg : g.methods = [k]) :
    (C01.addReg false S g).count = S.count + 1 ∧
    ∀ i, ((C01.addReg false S g).rev i).map viewR =
      if i = k then (S.count + 1, k, g.use, g.raw, g.key, g.handlers, g.eo) :: (S.rev k).map viewR
      else (S.rev i).map viewR := by
  unfold C01.addReg
  rw [hg]
  simp only [List.foldl_cons, List.foldl_nil]
  unfold C01.addRoute
  cases h : S.rev k with
  | nil =>
    refine ⟨by simp, ?_⟩
    intro i
    by_cases hi : i = k
    · subst hi; simp [viewR, C01.newRoute]
    · simp [hi]
  | cons last rest =>
    simp only [Bool.false_and, Bool.false_eq_true, if_false]
    refine ⟨by simp, ?_⟩
    intro i
    by_cases hi : i = k
    · subst hi; simp [viewR, C01.newRoute, h]
    · simp [hi]

theorem viewOf_renum_head (k c : Nat) (r : Route) :
    viewOf scr keyFn k { r with pos := c + 1 } =
      (c + 1, k, r.use, r.raw, keyFn r.raw, r.handlers.map (hd scr), r.orig == []) := rfl

/-- registering the routes of one stack, in order, on a state: they are appended to that method's
stack with the positions `renum` gives them -/
theorem foldl_regsOfStack (k : Nat) (l : List Route) (S : C01.Stacks α) :
    ((regsOfStack scr keyFn k l).foldl (C01.addReg false) S).count = S.count + l.length ∧
    ∀ i, (((regsOfStack scr keyFn k l).foldl (C01.addReg false) S).rev i).map viewR =
      if i = k then ((renum S.count l).map (viewOf scr keyFn k)).reverse ++ (S.rev k).map viewR
      else (S.rev i).map viewR := by
  induction l generalizing S with
  | nil =>
    refine ⟨rfl, ?_⟩
    intro i
    by_cases h : i = k
    · subst h; simp [regsOfStack, renum]
    · simp [regsOfStack, h]
  | cons r t ih =>
    have h1 : regsOfStack scr keyFn k (r :: t) = regOfRoute scr keyFn k r :: regsOfStack scr keyFn k t := rfl
    rw [h1, List.foldl_cons]
    obtain ⟨hc, hv⟩ := addReg_false_single S k (regOfRoute scr keyFn k r) rfl
    obtain ⟨ihc, ihv⟩ := ih (C01.addReg false S (regOfRoute scr keyFn k r))
    refine ⟨by rw [ihc, hc, List.length_cons]; omega, ?_⟩
    intro i
    rw [ihv i, hc]
    by_cases h : i = k
    · subst h
      simp only [if_true]
      rw [hv i]
      simp only [if_true, renum, List.map_cons, List.reverse_cons, List.append_assoc, List.singleton_append]
      rfl
    · simp only [h, if_false]
      rw [hv i]; simp [h]

theorem offset_succ (f : Nat → List Route) (n : Nat) : offset f (n + 1) = offset f n + (f n).length := rfl

/-- all stacks up to method `n` registered on the empty state -/
theorem build_regsUpTo (sp : Nat → List Route) (n : Nat) :
    ((regsUpTo scr keyFn sp n).foldl (C01.addReg false) (C01.Stacks.empty : C01.Stacks α)).count = offset sp n ∧
    ∀ i, (((regsUpTo scr keyFn sp n).foldl (C01.addReg false) (C01.Stacks.empty : C01.Stacks α)).rev i).map viewR =
      if i < n then ((renum (offset sp i) (sp i)).map (viewOf scr keyFn i)).reverse else [] := by
  induction n with
  | zero =>
    refine ⟨rfl, ?_⟩
    intro i
    simp [regsUpTo, C01.Stacks.empty]
  | succ n ih =>
    obtain ⟨ihc, ihv⟩ := ih
    simp only [regsUpTo, List.foldl_append]
    obtain ⟨hc, hv⟩ := foldl_regsOfStack scr keyFn n (sp n)
      ((regsUpTo scr keyFn sp n).foldl (C01.addReg false) (C01.Stacks.empty : C01.Stacks α))
    refine ⟨by rw [hc, ihc]; rfl, ?_⟩
    intro i
    rw [hv i, ihc]
    by_cases h : i = n
    · subst h
      rw [ihv i]
      simp
    · simp only [h, if_false]
      rw [ihv i]
      by_cases h2 : i < n
      · have : i < n + 1 := by omega
        simp [h2, this]
      · have : ¬ i < n + 1 := by omega
        simp [h2, this]

/-- `regOfRoute` does not read positions -/
theorem regsOfStack_renum (k c : Nat) (l : List Route) :
    regsOfStack scr keyFn k (renum c l) = regsOfStack scr keyFn k l := by
  induction l generalizing c with
  | nil => rfl
  | cons r t ih =>
    simp only [renum, regsOfStack, List.map_cons] at ih ⊢
    rw [ih]
    rfl

theorem regsUpTo_renum (sp : Nat → List Route) (n : Nat) :
    regsUpTo scr keyFn (fun k => renum (offset sp k) (sp k)) n = regsUpTo scr keyFn sp n := by
  induction n with
  | zero => rfl
  | succ n ih => simp only [regsUpTo, ih, regsOfStack_renum]

/-- **Bridge 1.** The table `processSubAppsRoutes` leaves behind (positions renumbered method by
method) is, as `app.stack` + `app.routesCount`, exactly what `register`/`addRoute` WITHOUT the
duplicate merge build from the table's routes registered one by one: the same routes in the same
order at the same positions in every method stack, nothing in other stacks, the same counter. -/
theorem stacks_of_table (sp T : Nat → List Route) (hT : T = fun k => renum (offset sp k) (sp k)) :
    (stacksOfTable scr keyFn T : C01.Stacks α).count = offset sp nMethods ∧
    ∀ k, ((stacksOfTable scr keyFn T : C01.Stacks α).stack k).map viewR =
      if k < nMethods then (T k).map (viewOf scr keyFn k) else [] := by
  have h := build_regsUpTo scr keyFn sp nMethods
  have hS : (stacksOfTable scr keyFn T : C01.Stacks α) =
      (regsUpTo scr keyFn sp nMethods).foldl (C01.addReg false) C01.Stacks.empty := by
    unfold stacksOfTable C01.build regsOfTable
    rw [hT, regsUpTo_renum]
  rw [hS]
  refine ⟨h.1, ?_⟩
  intro k
  unfold C01.Stacks.stack
  rw [List.map_reverse, h.2 k]
  by_cases hk : k < nMethods
  · rw [if_pos hk, if_pos hk, List.reverse_reverse, hT]
  · rw [if_neg hk, if_neg hk]; rfl

/-! ### the group composition as a program of C01: its calls of `app.register`, in order -/

/-- one call of `app.register(methods, path, …)` with the (already group-joined) path `o` -/
def mkReg (ms : List Nat) (use : Bool) (o : Bytes) (hs : List Nat) : C01.Reg α :=
  { methods := ms, use := use, raw := rawOf o, key := keyFn (rawOf o), handlers := hs.map (hd scr),
    eo := o == [] }

mutual
/-- the `register` calls an item makes when every mount is a group with the mount prefix (`c` =
prefix of the enclosing groups): `Add` → one call with the listed methods, `Use` / a group's
middleware → one `USE` call (all request methods), a group / mount → the calls of its items under
the joined prefix -/
def regsItem (c : Option Bytes) : Item → List (C01.Reg α)
  | .route ms p hs => [mkReg scr keyFn ms false (regPath c p) hs]
  | .use p hs => [mkReg scr keyFn allMethods true (regPath c p) hs]
  | .group p hs items =>
    (if hs = [] then [] else [mkReg scr keyFn allMethods true (regPath c p) hs])
      ++ regsItems (some (regPath c p)) items
  | .mount p _ sub => regsItems (some (regPath c p)) sub
def regsItems (c : Option Bytes) : List Item → List (C01.Reg α)
  | [] => []
  | i :: is => regsItem c i ++ regsItems c is
end

mutual
/-- no `Add` lists a method twice (C01's `WFReg.nodup`) -/
def nodupMsItem : Item → Bool
  | .route ms _ _ => decide ms.Nodup
  | .use _ _ => true
  | .group _ _ items => nodupMs items
  | .mount _ _ sub => nodupMs sub
def nodupMs : List Item → Bool
  | [] => true
  | i :: is => nodupMsItem i && nodupMs is
end

mutual
/-- the app itself (directly or from one of its groups) mounts a sub-app -/
def hasMountTopItem : Item → Bool
  | .mount _ _ _ => true
  | .group _ _ items => hasMountTop items
  | _ => false
def hasMountTop : List Item → Bool
  | [] => false
  | i :: is => hasMountTopItem i || hasMountTop is
end

/-! ### per-method, per-handler entries of a registration table -/

abbrev HEntry (α : Type) := Bool × Bytes × C01.Handler α

def convE (e : Entry) : HEntry α := (e.1, e.2.1, hd scr e.2.2)

def regEntriesAt (k : Nat) (g : C01.Reg α) : List (HEntry α) :=
  if g.methods.contains k then g.handlers.map fun h => (g.use, g.raw, h) else []

/-- what method `k`'s stack holds, handler by handler, when the table is registered -/
def entriesAt (k : Nat) (regs : List (C01.Reg α)) : List (HEntry α) := regs.flatMap (regEntriesAt k)

theorem entriesAt_append (k : Nat) (a b : List (C01.Reg α)) :
    entriesAt k (a ++ b) = entriesAt k a ++ entriesAt k b := by simp [entriesAt]

theorem entriesAt_nil (k : Nat) : entriesAt k ([] : List (C01.Reg α)) = [] := rfl

theorem entriesAt_cons (k : Nat) (g : C01.Reg α) (l : List (C01.Reg α)) :
    entriesAt k (g :: l) = regEntriesAt k g ++ entriesAt k l := by simp [entriesAt]

theorem expand_cons' (r : Route) (l : List Route) :
    expand (r :: l) = (r.handlers.map fun h => ((r.use, r.raw, h) : Entry)) ++ expand l := by
  simp [expand]

/-- the served table read as registrations: method `k`'s entries are the entries of stack `k` -/
theorem entriesAt_regsOfStack (k j : Nat) (l : List Route) :
    entriesAt k (regsOfStack scr keyFn j l) = if k = j then (expand l).map (convE scr) else [] := by
  induction l with
  | nil => by_cases h : k = j <;> simp [regsOfStack, entriesAt, h, expand]
  | cons r t ih =>
    have h1 : regsOfStack scr keyFn j (r :: t) = regOfRoute scr keyFn j r :: regsOfStack scr keyFn j t := rfl
    rw [h1, entriesAt_cons, ih]
    by_cases h : k = j
    · subst h
      simp only [if_true, regEntriesAt, regOfRoute, List.contains_cons, beq_self_eq_true, Bool.true_or,
        expand_cons', List.map_append, List.map_map]
      rfl
    · have : (k == j) = false := by simpa using h
      simp [h, regEntriesAt, regOfRoute, this]

theorem entriesAt_regsUpTo (T : Nat → List Route) (k n : Nat) :
    entriesAt k (regsUpTo scr keyFn T n) = if k < n then (expand (T k)).map (convE scr) else [] := by
  induction n with
  | zero => simp [regsUpTo, entriesAt]
  | succ n ih =>
    simp only [regsUpTo, entriesAt_append, ih, entriesAt_regsOfStack]
    by_cases h : k = n
    · subst h; simp
    · by_cases h2 : k < n
      · have : k < n + 1 := by omega
        simp [h, h2, this]
      · have : ¬ k < n + 1 := by omega
        simp [h, h2, this]

theorem entriesAt_regsOfTable (T : Nat → List Route) (k : Nat) (hk : k < nMethods) :
    entriesAt k (regsOfTable scr keyFn T) = (expand (T k)).map (convE scr) := by
  unfold regsOfTable
  rw [entriesAt_regsUpTo]; simp [hk]

/-! ### the group composition's registrations, per method: the denotation of the unmounted tree -/

theorem regEntries_one (u : Bool) (κ : Bytes) (hs : List Nat) :
    regEntries u κ 1 hs = hs.map fun h => ((u, κ, h) : Entry) := by
  simp [regEntries]

theorem regEntries_zero (u : Bool) (κ : Bytes) (hs : List Nat) : regEntries u κ 0 hs = [] := by
  simp [regEntries]

theorem count_nodup {ms : List Nat} (h : ms.Nodup) (k : Nat) : ms.count k = if ms.contains k then 1 else 0 := by
  rw [List.Nodup.count h]
  by_cases hk : k ∈ ms
  · have : ms.contains k = true := by simpa using hk
    simp [hk, this]
  · have : ms.contains k = false := by simpa using hk
    simp [hk, this]

theorem allMethods_contains {k : Nat} (hk : k < nMethods) : allMethods.contains k = true := by
  simp [allMethods, hk]

/-- entries of one `register` call -/
theorem entries_mkReg (k : Nat) (ms : List Nat) (u : Bool) (o : Bytes) (hs : List Nat) :
    regEntriesAt k (mkReg scr keyFn ms u o hs) =
      ((regEntries u (canon o) (if ms.contains k then 1 else 0) hs).map (mapRaw rawOf)).map (convE scr) := by
  unfold regEntriesAt mkReg
  by_cases h : ms.contains k = true
  · simp only [h, if_true, regEntries_one, List.map_map]
    apply List.map_congr_left
    intro x _
    simp [convE, mapRaw, rawOf_canon]
  · simp only [h, Bool.false_eq_true, if_false, regEntries_zero, List.map_nil]

mutual
theorem entriesAt_regsItem (k : Nat) (hk : k < nMethods) :
    ∀ (i : Item) (c : Option Bytes), nodupMsItem i = true →
      entriesAt k (regsItem scr keyFn c i) =
        ((denItem c k (unmountItem i)).map (mapRaw rawOf)).map (convE scr)
  | .route ms p hs, c, hn => by
    simp only [nodupMsItem, decide_eq_true_eq] at hn
    simp only [regsItem, unmountItem, denItem, entriesAt_cons, entriesAt_nil, List.append_nil]
    rw [entries_mkReg, count_nodup hn]
  | .use p hs, c, _ => by
    simp only [regsItem, unmountItem, denItem, entriesAt_cons, entriesAt_nil, List.append_nil]
    rw [entries_mkReg, allMethods_contains hk]
    simp [hk]
  | .group p hs items, c, hn => by
    simp only [nodupMsItem] at hn
    simp only [regsItem, unmountItem, denItem, entriesAt_append, List.map_append]
    rw [entriesAt_regsItems k hk items (some (regPath c p)) hn]
    congr 1
    by_cases hh : hs = []
    · subst hh; simp [regEntries_nil, entriesAt_nil]
    · simp only [hh, if_false, entriesAt_cons, entriesAt_nil, List.append_nil]
      rw [entries_mkReg, allMethods_contains hk]
      simp [hk]
  | .mount p scfg sub, c, hn => by
    simp only [nodupMsItem] at hn
    simp only [regsItem, unmountItem, denItem, regEntries_nil, List.nil_append]
    exact entriesAt_regsItems k hk sub (some (regPath c p)) hn
theorem entriesAt_regsItems (k : Nat) (hk : k < nMethods) :
    ∀ (is : List Item) (c : Option Bytes), nodupMs is = true →
      entriesAt k (regsItems scr keyFn c is) =
        ((denItems c k (unmountItems is)).map (mapRaw rawOf)).map (convE scr)
  | [], _, _ => by simp [regsItems, unmountItems, denItems, entriesAt_nil]
  | i :: is, c, hn => by
    simp only [nodupMs, Bool.and_eq_true] at hn
    simp only [regsItems, unmountItems, denItems, entriesAt_append, List.map_append]
    rw [entriesAt_regsItem k hk i c hn.1, entriesAt_regsItems k hk is c hn.2]
end

/-- **Bridge 2.** Per method, handler by handler, the group composition's `register` calls put into
the stack what the model's table of the group composition (`flattenSpec`) holds — and hence, by
`mount_eq_group_paths`, what the spliced table of the mounted composition holds. -/
theorem entriesAt_regsItems_flatten (cfg : Cfg) (po : Bytes → List Bytes) (items : List Item)
    (hn : nodupMs items = true) (k : Nat) (hk : k < nMethods) :
    entriesAt k (regsItems scr keyFn none items) = (expand (flatten cfg po items k)).map (convE scr) := by
  rw [entriesAt_regsItems scr keyFn k hk items none hn, flatten_expand_eq cfg po items k hk]
  unfold flattenSpec
  rw [expand_flatten]

/-! ### C01's specification reads a registration table only through its per-method entries -/

section Linear
variable (E : C01.Env π α)

/-- the registration-order scan of C01's specification, on per-handler entries: every handler asks
the matcher about its own route again (override-free handlers: same request, same answer) -/
def linE (fin : Bool → C01.End) (p : π) : List (HEntry α) → Bool → C01.Obs
  | [], matched => { trace := [], fin := fin matched }
  | e :: es, matched =>
    if E.M e.2.1 e.1 p then
      match e.2.2.script with
      | .stop => { trace := [e.2.2.hid], fin := .stop }
      | .fail c => { trace := [e.2.2.hid], fin := .fail c }
      | _ => (linE fin p es (matched || !e.1)).prepend [e.2.2.hid]
    else linE fin p es matched

theorem prepend_nil (o : C01.Obs) : o.prepend [] = o := by
  cases o; rfl

theorem prepend_prepend (a b : List Nat) (o : C01.Obs) : (o.prepend b).prepend a = o.prepend (a ++ b) := by
  cases o; simp [C01.Obs.prepend, List.append_assoc]

theorem linE_skip (fin : Bool → C01.End) (p : π) (pre es : List (HEntry α)) (matched : Bool)
    (h : ∀ e ∈ pre, E.M e.2.1 e.1 p = false) :
    linE E fin p (pre ++ es) matched = linE E fin p es matched := by
  induction pre with
  | nil => rfl
  | cons e t ih =>
    have he := h e (by simp)
    simp only [List.cons_append, linE, he, Bool.false_eq_true, if_false]
    exact ih (fun x hx => h x (List.mem_cons_of_mem _ hx))

/-- what follows the handlers of one registration -/
def afterE (fin : Bool → C01.End) (p : π) (es : List (HEntry α)) (b : Bool) :
    List Nat × C01.ChainEnd π → C01.Obs
  | (tr, .stop) => { trace := tr, fin := .stop }
  | (tr, .fail c) => { trace := tr, fin := .fail c }
  | (tr, .fall _ _ _) => (linE E fin p es b).prepend tr

theorem afterE_cons (fin : Bool → C01.End) (p : π) (es : List (HEntry α)) (b : Bool) (h : Nat)
    (x : List Nat × C01.ChainEnd π) :
    (afterE E fin p es b x).prepend [h] = afterE E fin p es b (h :: x.1, x.2) := by
  obtain ⟨tr, e⟩ := x
  cases e <;> simp [afterE, C01.Obs.prepend, prepend_prepend]

theorem linE_chain (fin : Bool → C01.End) (m : Nat) (p : π) (u : Bool) (raw : Bytes) (es : List (HEntry α))
    (hm : E.M raw u p = true) :
    ∀ (hs : List (C01.Handler α)) (matched : Bool), hs ≠ [] → (∀ h ∈ hs, h.script.isOverride = false) →
      linE E fin p (hs.map (fun h => ((u, raw, h) : HEntry α)) ++ es) matched =
        afterE E fin p es (matched || !u) (C01.specChain E hs m p)
  | [], _, hne, _ => absurd rfl hne
  | h :: t, matched, _, hno => by
    have h0 := hno h (by simp)
    have ht : ∀ x ∈ t, x.script.isOverride = false := fun x hx => hno x (List.mem_cons_of_mem _ hx)
    simp only [List.map_cons, List.cons_append, linE, hm, if_true, C01.specChain]
    cases hsc : h.script with
    | stop => simp [afterE]
    | fail c => simp [afterE]
    | setPath o => simp [hsc, C01.Script.isOverride] at h0
    | setMethod m2 => simp [hsc, C01.Script.isOverride] at h0
    | next =>
      simp only
      by_cases hte : t = []
      · subst hte
        simp [linE, C01.specChain, afterE, prepend_nil]
      · rw [linE_chain fin m p u raw es hm t (matched || !u) hte ht, afterE_cons]
        simp [Bool.or_assoc]

theorem linearFrom_eq_linE (all : List (C01.Reg α)) (m : Nat) (p : π) :
    ∀ (regs : List (C01.Reg α)) (matched : Bool), (∀ g ∈ regs, g.handlers ≠ []) → C01.NoOverride regs →
      C01.linearFrom E all regs m p matched =
        linE E (C01.specEnding E all m p) p (entriesAt m regs) matched
  | [], matched, _, _ => by simp [C01.linearFrom, entriesAt, linE]
  | g :: rest, matched, hne, hno => by
    have hne' : ∀ x ∈ rest, x.handlers ≠ [] := fun x hx => hne x (List.mem_cons_of_mem _ hx)
    have hno' : C01.NoOverride rest := fun x hx => hno x (List.mem_cons_of_mem _ hx)
    have hg := hno g (by simp)
    rw [entriesAt_cons]
    simp only [C01.linearFrom]
    by_cases hc : g.methods.contains m = true
    · by_cases hm : g.matches E p = true
      · simp only [hc, hm, Bool.and_self, if_true, regEntriesAt]
        have hm' : E.M g.raw g.use p = true := hm
        rw [linE_chain E _ m p g.use g.raw _ hm' g.handlers matched (hne g (by simp)) hg]
        cases hsp : C01.specChain E g.handlers m p with
        | mk tr e =>
          cases e with
          | stop => simp [afterE]
          | fail c => simp [afterE]
          | fall m' p' c' =>
            obtain ⟨h1, h2⟩ := C01.specChain_noOv E g.handlers hg m p tr m' p' c' hsp
            simp only [afterE]
            rw [h1, h2, linearFrom_eq_linE all m p rest _ hne' hno']
      · have hm' : E.M g.raw g.use p = false := by
          have : g.matches E p = false := by simpa using hm
          exact this
        have hmf : g.matches E p = false := by simpa using hm
        simp only [hc, hmf, Bool.and_false, Bool.false_eq_true, if_false, regEntriesAt, if_true]
        rw [linE_skip E _ p _ _ matched (by
          intro e he
          obtain ⟨h, _, rfl⟩ := List.mem_map.mp he
          exact hm')]
        exact linearFrom_eq_linE all m p rest matched hne' hno'
    · have hc' : g.methods.contains m = false := by simpa using hc
      simp only [hc', Bool.false_and, Bool.false_eq_true, if_false, regEntriesAt, List.nil_append]
      exact linearFrom_eq_linE all m p rest matched hne' hno'

theorem any_const {β : Type} (c : Bool) : ∀ (l : List β), l ≠ [] → (l.any fun _ => c) = c
  | [], h => absurd rfl h
  | [_], _ => by simp
  | _ :: y :: t, _ => by
    rw [List.any_cons, any_const c (y :: t) (by simp)]
    cases c <;> rfl

/-- "some registration lists method `i`, is not a `Use` and matches" read off the entries -/
theorem any_endpoint_entries (i : Nat) (p : π) (regs : List (C01.Reg α)) (hne : ∀ g ∈ regs, g.handlers ≠ []) :
    (regs.any fun g => g.methods.contains i && !g.use && g.matches E p) =
      (entriesAt i regs).any fun e => !e.1 && E.M e.2.1 e.1 p := by
  induction regs with
  | nil => rfl
  | cons g rest ih =>
    rw [entriesAt_cons, List.any_cons, List.any_append, ih (fun x hx => hne x (List.mem_cons_of_mem _ hx))]
    congr 1
    unfold regEntriesAt
    by_cases hc : g.methods.contains i = true
    · rw [if_pos hc, hc, Bool.true_and, List.any_map]
      have := any_const (!g.use && E.M g.raw g.use p) g.handlers (hne g (by simp))
      simp only [Function.comp_def]
      rw [this]
      rfl
    · have hc' : g.methods.contains i = false := by simpa using hc
      rw [if_neg hc, hc']
      rfl

/-- **Bridge 3.** Two registration tables whose per-method, per-handler entries coincide (every
registration has a handler, no handler overrides path or method) have the same specification:
same trace, same end, same Allow set, for every request. -/
theorem linear_eq_of_entries (A B : List (C01.Reg α))
    (hA : ∀ g ∈ A, g.handlers ≠ []) (hB : ∀ g ∈ B, g.handlers ≠ [])
    (hnA : C01.NoOverride A) (hnB : C01.NoOverride B)
    (hent : ∀ i, i < E.nMethods → entriesAt i A = entriesAt i B)
    (m : Nat) (hm : m < E.nMethods) (p : π) :
    C01.linear E A m p = C01.linear E B m p := by
  unfold C01.linear
  rw [linearFrom_eq_linE E A m p A false hA hnA, linearFrom_eq_linE E B m p B false hB hnB, hent m hm]
  congr 1
  funext matched
  have hallow : C01.specAllow E A m p = C01.specAllow E B m p := by
    unfold C01.specAllow
    apply List.filter_congr
    intro i hi
    have hi' : i < E.nMethods := List.mem_range.mp hi
    rw [any_endpoint_entries E i p A hA, any_endpoint_entries E i p B hB, hent i hi']
  unfold C01.specEnding
  rw [hallow]

end Linear

/-! ### the hypotheses of C01's theorem hold for both tables -/

/-- a registration as `register` makes it from handler ids: methods listed once, at least one
handler, handlers behave as `scr` says, key derived from the `Path` -/
def ShapeOK (g : C01.Reg α) : Prop :=
  g.methods.Nodup ∧ g.handlers ≠ [] ∧ (∀ h ∈ g.handlers, h.seam = false ∧ h.script = scr h.hid) ∧
  g.key = keyFn g.raw

theorem shapeOK_mk (ms : List Nat) (u : Bool) (raw : Bytes) (hs : List Nat) (eo : Bool)
    (hms : ms.Nodup) (hhs : hs ≠ []) :
    ShapeOK scr keyFn ({ methods := ms, use := u, raw := raw, key := keyFn raw, handlers := hs.map (hd scr),
                         eo := eo } : C01.Reg α) := by
  refine ⟨hms, ?_, ?_, rfl⟩
  · simpa using hhs
  · intro h hh
    obtain ⟨i, _, rfl⟩ := List.mem_map.mp hh
    exact ⟨rfl, rfl⟩

theorem wf_of_shape {regs : List (C01.Reg α)} (h : ∀ g ∈ regs, ShapeOK scr keyFn g) : C01.WF regs :=
  fun g hg => ⟨(h g hg).1, (h g hg).2.1, fun x hx => ((h g hg).2.2.1 x hx).1⟩

theorem noOv_of_shape {regs : List (C01.Reg α)} (h : ∀ g ∈ regs, ShapeOK scr keyFn g)
    (hscr : ∀ i, (scr i).isOverride = false) : C01.NoOverride regs := by
  intro g hg x hx
  rw [((h g hg).2.2.1 x hx).2]
  exact hscr _

theorem local_of_shape (E : C01.Env π α) {regs : List (C01.Reg α)} (h : ∀ g ∈ regs, ShapeOK scr keyFn g)
    (hloc : ∀ raw u p, keyFn raw ≠ 0 → E.M raw u p = true → keyFn raw = E.pkey p) : C01.LocalR E regs := by
  intro g hg p hk hm
  rw [(h g hg).2.2.2] at hk ⊢
  exact hloc g.raw g.use p hk hm

theorem shape_regsUpTo (T : Nat → List Route) (hT : ∀ k, ∀ r ∈ T k, r.handlers ≠ []) (n : Nat) :
    ∀ g ∈ regsUpTo scr keyFn T n, ShapeOK scr keyFn g := by
  induction n with
  | zero => intro g hg; cases hg
  | succ n ih =>
    intro g hg
    simp only [regsUpTo, List.mem_append] at hg
    rcases hg with hg | hg
    · exact ih g hg
    · obtain ⟨r, hr, rfl⟩ := List.mem_map.mp hg
      exact shapeOK_mk scr keyFn [n] r.use r.raw r.handlers _ (by simp) (hT n r hr)

theorem allMethods_nodup : allMethods.Nodup := List.nodup_range

mutual
theorem shape_regsItem : ∀ (i : Item) (c : Option Bytes), wfItem i = true → nodupMsItem i = true →
    ∀ g ∈ regsItem scr keyFn c i, ShapeOK scr keyFn g
  | .route ms p hs, c, hw, hn => by
    intro g hg
    simp only [regsItem, List.mem_singleton] at hg
    subst hg
    simp only [wfItem, Bool.not_eq_true', List.isEmpty_eq_false_iff] at hw
    simp only [nodupMsItem, decide_eq_true_eq] at hn
    exact shapeOK_mk scr keyFn ms false _ hs _ hn hw
  | .use p hs, c, hw, _ => by
    intro g hg
    simp only [regsItem, List.mem_singleton] at hg
    subst hg
    simp only [wfItem, Bool.not_eq_true', List.isEmpty_eq_false_iff] at hw
    exact shapeOK_mk scr keyFn allMethods true _ hs _ allMethods_nodup hw
  | .group p hs items, c, hw, hn => by
    intro g hg
    simp only [wfItem] at hw
    simp only [nodupMsItem] at hn
    simp only [regsItem, List.mem_append] at hg
    rcases hg with hg | hg
    · by_cases hh : hs = []
      · simp [hh] at hg
      · simp only [hh, if_false, List.mem_singleton] at hg
        subst hg
        exact shapeOK_mk scr keyFn allMethods true _ hs _ allMethods_nodup hh
    · exact shape_regsItems items _ hw hn g hg
  | .mount p scfg sub, c, hw, hn => by
    intro g hg
    simp only [wfItem] at hw
    simp only [nodupMsItem] at hn
    simp only [regsItem] at hg
    exact shape_regsItems sub _ hw hn g hg
theorem shape_regsItems : ∀ (is : List Item) (c : Option Bytes), wfItems is = true → nodupMs is = true →
    ∀ g ∈ regsItems scr keyFn c is, ShapeOK scr keyFn g
  | [], _, _, _ => by intro g hg; cases hg
  | i :: is, c, hw, hn => by
    intro g hg
    simp only [wfItems, Bool.and_eq_true] at hw
    simp only [nodupMs, Bool.and_eq_true] at hn
    simp only [regsItems, List.mem_append] at hg
    rcases hg with hg | hg
    · exact shape_regsItem i c hw.1 hn.1 g hg
    · exact shape_regsItems is c hw.2 hn.2 g hg
end

/-! ### the app with a mount is renumbered -/

mutual
theorem mounted_buildItem (cfg : Cfg) (po : Bytes → List Bytes) (c : Option Bytes) :
    ∀ (i : Item) (st : St), (st.mounted = true ∨ hasMountTopItem i = true) →
      (buildItem cfg po c i st).mounted = true
  | .route ms p hs, st, h => by
    simp only [buildItem, regMany_mounted]
    rcases h with h | h
    · exact h
    · simp [hasMountTopItem] at h
  | .use p hs, st, h => by
    simp only [buildItem, regMany_mounted]
    rcases h with h | h
    · exact h
    · simp [hasMountTopItem] at h
  | .group p hs items, st, h => by
    simp only [buildItem]
    apply mounted_buildItems cfg po _ items
    rcases h with h | h
    · left
      by_cases hh : hs = []
      · simp [hh, h]
      · simp [hh, regMany_mounted, h]
    · right; simpa [hasMountTopItem] using h
  | .mount p scfg sub, st, _ => by
    simp only [buildItem]; rfl
theorem mounted_buildItems (cfg : Cfg) (po : Bytes → List Bytes) (c : Option Bytes) :
    ∀ (is : List Item) (st : St), (st.mounted = true ∨ hasMountTop is = true) →
      (buildItems cfg po c is st).mounted = true
  | [], st, h => by
    simp only [buildItems]
    rcases h with h | h
    · exact h
    · simp [hasMountTop] at h
  | i :: is, st, h => by
    simp only [buildItems]
    apply mounted_buildItems cfg po c is
    rcases h with h | h
    · exact Or.inl (mounted_buildItem cfg po c i st (Or.inl h))
    · simp only [hasMountTop, Bool.or_eq_true] at h
      rcases h with h | h
      · exact Or.inl (mounted_buildItem cfg po c i st (Or.inr h))
      · exact Or.inr h
end

/-- the spliced stacks before renumbering -/
def spliced (cfg : Cfg) (po : Bytes → List Bytes) (items : List Item) (k : Nat) : List Route :=
  splice cfg po k ((buildItems cfg po none items St.init).stacks k).reverse

theorem flatten_mounted (cfg : Cfg) (po : Bytes → List Bytes) (items : List Item) (hm : hasMountTop items = true) :
    flatten cfg po items =
      fun k => renum (offset (spliced cfg po items) k) (spliced cfg po items k) := by
  unfold flatten finish
  rw [mounted_buildItems cfg po none items St.init (Or.inr hm)]
  rfl

/-- **Bridge 1 for the served table of an app with mounts**: the dispatcher state `stacksOfTable`
holds, in every method stack, exactly the routes of `flatten …` in their order at their positions
(and nothing in other stacks); `app.routesCount` is the number of served routes. -/
theorem stacks_of_flatten (cfg : Cfg) (po : Bytes → List Bytes) (items : List Item) (hm : hasMountTop items = true) :
    (stacksOfTable scr keyFn (flatten cfg po items) : C01.Stacks α).count = offset (spliced cfg po items) nMethods ∧
    ∀ k, ((stacksOfTable scr keyFn (flatten cfg po items) : C01.Stacks α).stack k).map viewR =
      if k < nMethods then (flatten cfg po items k).map (viewOf scr keyFn k) else [] := by
  exact stacks_of_table scr keyFn (spliced cfg po items) (flatten cfg po items) (flatten_mounted cfg po items hm)

/-! ### the composition -/

/-- **mount_dispatch_eq_group.** For every definition tree (any nesting of apps, groups, `Route`
registers and mounts, from app or group, any prefixes and paths, any routing configuration of the
root and the sub-apps), every matcher `E.M` with a local bucket key, every override-free handler
behaviour `scr`, every request method `m` and path state `p`: C01's dispatcher — bucket lookup in
the 3-byte index, numeric cursor, matched flag, 404/405 + Allow — run on the table the MOUNTED
composition serves produces exactly the reply C01's model of the GROUP composition (its `register`
calls through `build` with the duplicate merge, then the same dispatcher) produces: same handler
trace, same end. -/
theorem mount_dispatch_eq_group (E : C01.Env π α) (hn : E.nMethods = nMethods)
    (hscr : ∀ i, (scr i).isOverride = false)
    (hloc : ∀ raw u p, keyFn raw ≠ 0 → E.M raw u p = true → keyFn raw = E.pkey p)
    (cfg : Cfg) (po : Bytes → List Bytes) (items : List Item)
    (hwf : wfItems items = true) (hnd : nodupMs items = true) (m : Nat) (hm : m < nMethods) (p : π) :
    C01.dispatchS E (stacksOfTable scr keyFn (flatten cfg po items)) false
        (stacksOfTable scr keyFn (flatten cfg po items) : C01.Stacks α).fuel m p =
      C01.dispatch E (regsItems scr keyFn none items) m p ∧
    C01.dispatch E (regsItems scr keyFn none items) m p =
      .ok (C01.linear E (regsItems scr keyFn none items) m p) := by
  have hT : ∀ g ∈ regsOfTable scr keyFn (flatten cfg po items), ShapeOK scr keyFn g :=
    shape_regsUpTo scr keyFn _ (fun k => ne_flatten cfg po items hwf k) nMethods
  have hG : ∀ g ∈ regsItems scr keyFn none items, ShapeOK scr keyFn g :=
    shape_regsItems scr keyFn items none hwf hnd
  have e1 : C01.dispatchS E (C01.build false (regsOfTable scr keyFn (flatten cfg po items))) false
      (C01.build false (regsOfTable scr keyFn (flatten cfg po items))).fuel m p =
      .ok (C01.linear E (regsOfTable scr keyFn (flatten cfg po items)) m p) :=
    C01.dispatchS_refines_linear E false (regsOfTable scr keyFn (flatten cfg po items))
      (wf_of_shape scr keyFn hT) (local_of_shape scr keyFn E hT hloc) (noOv_of_shape scr keyFn hT hscr) m p
  have e2 : C01.dispatch E (regsItems scr keyFn none items) m p =
      .ok (C01.linear E (regsItems scr keyFn none items) m p) :=
    C01.dispatch_refines_linear E (regsItems scr keyFn none items) (wf_of_shape scr keyFn hG)
      (local_of_shape scr keyFn E hG hloc) (noOv_of_shape scr keyFn hG hscr) m p
  have e3 : C01.linear E (regsOfTable scr keyFn (flatten cfg po items)) m p =
      C01.linear E (regsItems scr keyFn none items) m p := by
    apply linear_eq_of_entries E _ _ (fun g hg => (hT g hg).2.1) (fun g hg => (hG g hg).2.1)
      (noOv_of_shape scr keyFn hT hscr) (noOv_of_shape scr keyFn hG hscr) _ m (by rw [hn]; exact hm) p
    intro i hi
    rw [hn] at hi
    rw [entriesAt_regsOfTable scr keyFn _ i hi, entriesAt_regsItems_flatten scr keyFn cfg po items hnd i hi]
  refine ⟨?_, e2⟩
  rw [e2, ← e3]
  exact e1

end Dispatch
/-! ## The single-route matcher: C02's model of `parseRoute` / `register` / `Route.match`

C04's model keeps the pattern parser opaque (`po`) and hands the matcher the fields `Route.match`
reads. Here both are instantiated with C02's model and the interfaces are shown to line up:

  * `register_bridge`: every route of a served table — registered directly, through groups, or
    cloned and re-prefixed out of a mounted app — is, field by field, the route C02's `register`
    builds from the route's `pathOrig` (`none` on both sides when the pattern does not parse: the
    real `register` panics);
  * `mtC02` is C02's `routeMatch` as a matcher in the shape `run` / `mount_answers_eq` expect;
  * `envC02` is C02's matcher in the shape C01's dispatcher expects (`Env.M`, a function of the
    route's `Path` and `use` flag), with the bucket key `keyC02` of router.go `buildTree`; its locality
    (`local_keyC02`, C01's hypothesis `LocalR`) is `C02.match_same_bucket`.
-/
section Match
open C02 (SLASH STAR)

/-- C04's routing configuration as C02's (`UnescapePath` only concerns the request side) -/
def cfg2 (cfg : Cfg) (unescape : Bool) : C02.Config :=
  { caseSensitive := cfg.caseSensitive, strictRouting := cfg.strict, unescapePath := unescape }

/-- the opaque parser instantiated: `parseRoute(Path).params` (`[]` where `register` panics) -/
def poC02 (raw : Bytes) : List Bytes := ((C02.parseRoute raw).map (·.params)).getD []

theorem rawPattern_eq (p : Bytes) : C02.rawPattern p = rawOf p := by
  cases p with
  | nil => rfl
  | cons x t =>
    by_cases h : x = 47
    · subst h; rfl
    · simp only [C02.rawPattern, List.isEmpty_cons, Bool.false_eq_true, if_false, List.headD_cons, rawOf]
      rw [ensureSlash_cons]
      simp [h]

theorem rawOf_idem (p : Bytes) : rawOf (rawOf p) = rawOf p := ensureSlash_idem p

theorem prettyPattern_eq (cfg : Cfg) (ue : Bool) (p : Bytes) :
    C02.prettyPattern (cfg2 cfg ue) p = prettyOf cfg (rawOf p) := by
  have h := rawPattern_eq p
  unfold C02.rawPattern at h
  unfold C02.prettyPattern prettyOf
  simp only at h ⊢
  rw [h]
  cases hcs : cfg.caseSensitive <;> cases hst : cfg.strict <;> simp [cfg2, hcs, hst]

theorem removeEscape_eq (s : Bytes) : C02.removeEscapeChar s = removeEscape s := rfl

/-- a served route as a route of C02's model (`none`: its pattern does not parse) -/
def toC02 (r : Route) : Option C02.Route :=
  match C02.parseRoute r.raw, C02.parseRouteW r.pretty r.written with
  | some pr, some pp =>
    some { pathRaw := r.raw, path := r.path, params := pr.params, parser := pp, use := r.use,
           star := r.star, root := r.root }
  | _, _ => none

/-- **register_bridge.** A route that carries the fields C04's model derives from its `Path`
(every route of every served table: `flatten_fields`) is the route C02's `register` builds from the
route's registration path — the same `Path`, clean path, parser (prettified pattern + the pattern as
written), `use`, root and star shortcuts; and its `Params` are the parser's parameter names. -/
theorem register_bridge (cfg : Cfg) (ue : Bool) (r : Route) (h : RouteOK cfg poC02 r) :
    C02.register (cfg2 cfg ue) r.use r.orig = toC02 r ∧
    ∀ r2, toC02 r = some r2 → r2.params = r.params := by
  obtain ⟨h1, h2, h3, h4, h5, h6, h7⟩ := h
  have hraw : C02.rawPattern r.orig = r.raw := by rw [rawPattern_eq, h6]
  have hpre : C02.prettyPattern (cfg2 cfg ue) r.orig = r.pretty := by rw [prettyPattern_eq, ← h6, h1]
  constructor
  · unfold C02.register toC02
    simp only [hraw, hpre]
    have hw : r.raw.take r.pretty.length = r.written := by rw [h7, writtenOf, h1]
    rw [hw]
    cases C02.parseRoute r.raw with
    | none => rfl
    | some pr =>
      cases C02.parseRouteW r.pretty r.written with
      | none => rfl
      | some pp =>
        simp only [Option.some.injEq]
        have e1 : C02.removeEscapeChar r.pretty = r.path := by rw [removeEscape_eq, h2, cleanOf, h1]
        have e2 : (r.pretty == [SLASH, STAR]) = r.star := by rw [h5, h1]
        have e3 : (r.path == [SLASH]) = r.root := by rw [h4, h2]
        rw [e1, e2, e3]
  · intro r2 hr2
    unfold toC02 at hr2
    cases hp : C02.parseRoute r.raw with
    | none => simp [hp] at hr2
    | some pr =>
      cases hq : C02.parseRouteW r.pretty r.written with
      | none => simp [hp, hq] at hr2
      | some pp =>
        simp only [hp, hq, Option.some.injEq] at hr2
        subst hr2
        simp only
        rw [h3, poC02, hp]
        rfl

/-- C02's `Route.match` in the shape of C04's abstract matcher: (use, prettified pattern, pattern as
written, clean path, Params) ↦ the values written on a match. The root / star shortcuts are the ones
`register` / `addPrefixToRoute` derive (`flatten_fields`). -/
def mtC02 (chk : C02.Constraint → Bytes → Bool) (det path : Bytes) :
    Bool → Bytes → Bytes → Bytes → List Bytes → Option (List Bytes) :=
  fun use pretty written clean params =>
    match C02.parseRouteW pretty written with
    | none => none
    | some pp =>
      C02.routeMatch chk { pathRaw := [], path := clean, params := params, parser := pp, use := use,
                           star := pretty == [SLASH, STAR], root := clean == [SLASH] } det path

theorem routeMatch_pathRaw (chk : C02.Constraint → Bytes → Bool) (r : C02.Route) (x det path : Bytes) :
    C02.routeMatch chk { r with pathRaw := x } det path = C02.routeMatch chk r det path := rfl

/-- on a served route, `mtC02` is C02's `routeMatch` of the route `register` builds -/
theorem mtC02_eq_routeMatch (chk : C02.Constraint → Bytes → Bool) (cfg : Cfg) (ue : Bool) (det path : Bytes)
    (r : Route) (h : RouteOK cfg poC02 r) (r2 : C02.Route)
    (hr : C02.register (cfg2 cfg ue) r.use r.orig = some r2) :
    mtC02 chk det path r.use r.pretty r.written r.path r.params = C02.routeMatch chk r2 det path := by
  obtain ⟨hb, hp⟩ := register_bridge cfg ue r h
  rw [hb] at hr
  have hpar := hp r2 hr
  unfold toC02 at hr
  cases hq : C02.parseRoute r.raw with
  | none => simp [hq] at hr
  | some pr =>
    cases hw : C02.parseRouteW r.pretty r.written with
    | none => simp [hq, hw] at hr
    | some pp =>
      simp only [hq, hw, Option.some.injEq] at hr
      subst hr
      simp only at hpar
      unfold mtC02
      simp only [hw]
      obtain ⟨h1, h2, _, h4, h5, _, _⟩ := h
      have e2 : (r.pretty == [SLASH, STAR]) = r.star := by rw [h5, h1]
      have e3 : (r.path == [SLASH]) = r.root := by rw [h4, h2]
      rw [e2, e3, ← hpar]
      rfl

/-! ### C02's matcher as the parameter of C01's dispatcher -/

/-- router.go `buildTree` / ctx.go `configDependentPaths`: the bucket hash of a ≤3-byte key (0 = the
global bucket) -/
def hash3 (k : Bytes) : Nat := k.foldl (fun acc x => acc * 256 + x) 0

/-- the bucket key of the route registered at `Path` raw (a function of the parser only) -/
def keyC02 (cfg : Cfg) (ue : Bool) (raw : Bytes) : Nat :=
  match C02.register (cfg2 cfg ue) false raw with
  | some r => hash3 (C02.routeTreeKey r)
  | none => 0

/-- C01's matcher / request-hash parameters instantiated with C02's model; a path state is the pair
(detectionPath, path) of `configDependentPaths` -/
def envC02 {α : Type} (chk : C02.Constraint → Bytes → Bool) (cfg : Cfg) (ue : Bool)
    (setp : Bytes × Bytes → α → Option (Bytes × Bytes)) : C01.Env (Bytes × Bytes) α :=
  { M := fun raw use p =>
      match C02.register (cfg2 cfg ue) use raw with
      | some r => (C02.routeMatch chk r p.1 p.2).isSome
      | none => false
    pkey := fun p => hash3 (C02.reqTreeKey p.1)
    setp := setp
    nMethods := nMethods }

theorem register_use_irrelevant (c : C02.Config) (u : Bool) (raw : Bytes) (r : C02.Route)
    (h : C02.register c u raw = some r) : C02.register c false raw = some { r with use := false } := by
  unfold C02.register at h ⊢
  simp only at h ⊢
  cases hp : C02.parseRoute (C02.rawPattern raw) with
  | none => simp [hp] at h
  | some pr =>
    cases hq : C02.parseRouteW (C02.prettyPattern c raw) ((C02.rawPattern raw).take (C02.prettyPattern c raw).length) with
    | none => simp [hp, hq] at h
    | some pp =>
      simp only [hp, hq, Option.some.injEq] at h ⊢
      subst h
      rfl

theorem routeTreeKey_use (r : C02.Route) : C02.routeTreeKey { r with use := false } = C02.routeTreeKey r := rfl

/-- **local_keyC02** (C01's `LocalR` for the real matcher and key rule): a route filed under a
non-global bucket only matches requests that are looked up in that bucket — `C02.match_same_bucket`. -/
theorem local_keyC02 {α : Type} (chk : C02.Constraint → Bytes → Bool) (cfg : Cfg) (ue : Bool)
    (setp : Bytes × Bytes → α → Option (Bytes × Bytes)) (raw : Bytes) (u : Bool) (p : Bytes × Bytes)
    (hk : keyC02 cfg ue raw ≠ 0) (hm : (envC02 chk cfg ue setp).M raw u p = true) :
    keyC02 cfg ue raw = (envC02 chk cfg ue setp).pkey p := by
  simp only [envC02] at hm ⊢
  cases hr : C02.register (cfg2 cfg ue) u raw with
  | none => simp [hr] at hm
  | some r =>
    simp only [hr] at hm
    have hf := register_use_irrelevant _ u raw r hr
    unfold keyC02 at hk ⊢
    rw [hf] at hk ⊢
    simp only [routeTreeKey_use] at hk ⊢
    obtain ⟨vs, hvs⟩ := Option.isSome_iff_exists.mp hm
    -- the key is not the global one: the first segment is a constant of ≥ 3 bytes
    have hne : C02.routeTreeKey r ≠ [] := by
      intro e; rw [e] at hk; exact hk rfl
    unfold C02.routeTreeKey at hne
    cases hs : r.parser.segs with
    | nil => simp [hs] at hne
    | cons s0 rest =>
      simp only [hs] at hne
      by_cases hc : (decide (s0.const.length ≥ 3) && (decide (s0.const.length > 3) || !s0.hasOptionalSlash)) = true
      · simp only [Bool.and_eq_true, Bool.or_eq_true, decide_eq_true_eq, Bool.not_eq_true'] at hc
        have hparam : s0.isParam = false := by
          cases hip : s0.isParam with
          | false => rfl
          | true =>
            exfalso
            -- a parameter segment has an empty constant
            unfold C02.register at hr
            simp only at hr
            split at hr
            · rename_i pr pp hpr hpp
              cases hr
              simp only at hs
              have := C02.parseRouteW_param_const hpp s0 (by rw [hs]; exact List.mem_cons_self ..) hip
              rw [this] at hc
              simp at hc
            · cases hr
        have hno : ¬ (s0.const.length = 3 ∧ s0.hasOptionalSlash = true) := by
          intro ⟨h3, ho⟩
          rcases hc.2 with h | h
          · omega
          · rw [ho] at h; cases h
        rw [C02.match_same_bucket hr hs hparam hc.1 hno hvs]
      · simp [hc] at hne

end Match

end C04
