import FiberModel.C04.StackLemmas
/-
C04 — the central induction: the entries a definition tree registers with its mounts spliced in are,
one by one, the entries the tree with every mount replaced by a group registers — up to a relation
`Q` on the Path that holds by reflexivity everywhere except at an empty in-app path.
-/
namespace C04
open B Known

/-- pointwise relation of two lists -/
def Rel2 {α β} (R : α → β → Prop) : List α → List β → Prop
  | [], [] => True
  | a :: as, b :: bs => R a b ∧ Rel2 R as bs
  | _, _ => False

theorem Rel2.nil {α β} (R : α → β → Prop) : Rel2 R [] [] := trivial

theorem Rel2.append {α β} {R : α → β → Prop} {a₁ a₂ : List α} {b₁ b₂ : List β}
    (h₁ : Rel2 R a₁ b₁) (h₂ : Rel2 R a₂ b₂) : Rel2 R (a₁ ++ a₂) (b₁ ++ b₂) := by
  induction a₁ generalizing b₁ with
  | nil => cases b₁ with
    | nil => exact h₂
    | cons _ _ => exact absurd h₁ (by simp [Rel2])
  | cons x xs ih => cases b₁ with
    | nil => exact absurd h₁ (by simp [Rel2])
    | cons y ys => exact ⟨h₁.1, ih h₁.2⟩

theorem Rel2.map_same {α β γ} {R : β → γ → Prop} (f : α → β) (g : α → γ) (l : List α)
    (h : ∀ x, R (f x) (g x)) : Rel2 R (l.map f) (l.map g) := by
  induction l with
  | nil => trivial
  | cons x t ih => exact ⟨h x, ih⟩

theorem Rel2.map_eq {α β γ} {R : α → β → Prop} {f : α → γ} {g : β → γ} {a : List α} {b : List β}
    (h : Rel2 R a b) (hfg : ∀ x y, R x y → f x = g y) : a.map f = b.map g := by
  induction a generalizing b with
  | nil => cases b with
    | nil => rfl
    | cons _ _ => exact absurd h (by simp [Rel2])
  | cons x xs ih => cases b with
    | nil => exact absurd h (by simp [Rel2])
    | cons y ys => simp [hfg x y h.1, ih h.2]

/-- two entries: same kind, same handler, Paths related by `Q` -/
def ERel (Q : Bytes → Bytes → Prop) (em eg : Entry) : Prop :=
  em.1 = eg.1 ∧ em.2.2 = eg.2.2 ∧ Q em.2.1 eg.2.1

/-- How a sub-tree of the mounted composition sits in the group composition: `T` turns a Path as
the (sub-)app stores it into the Path in the root table, `c` is the group prefix inside the
(sub-)app, `s` the group prefix the group composition is at. -/
structure CtxOK (T : Bytes → Bytes) (c s : Option Bytes) : Prop where
  nonempty : ∀ x, regPath c x ≠ [] → T (rawOf (regPath c x)) = rawOf (regPath s x)
  empty : regPath c [] = [] → T [47] = rawOf (trimR 47 (regPath s []) ++ [47])

theorem CtxOK.top : CtxOK id none none :=
  ⟨fun _ _ => rfl, fun _ => rfl⟩

theorem CtxOK.group {T : Bytes → Bytes} {c s : Option Bytes} (h : CtxOK T c s) (p : Bytes) :
    CtxOK T (some (regPath c p)) (some (regPath s p)) := by
  constructor
  · intro x hx
    have e1 : regPath (some (regPath c p)) x = regPath c (getGroupPath p x) := regPath_ggp c p x
    have e2 : regPath (some (regPath s p)) x = regPath s (getGroupPath p x) := regPath_ggp s p x
    rw [e1] at hx ⊢
    rw [e2]
    exact h.nonempty _ hx
  · intro he
    have e1 : regPath (some (regPath c p)) [] = regPath c p := ggp_nil_right _
    have e2 : regPath (some (regPath s p)) [] = regPath s p := ggp_nil_right _
    rw [e1] at he
    rw [e2]
    have hp : p = [] := regPath_eq_nil he
    subst hp
    exact h.empty he

theorem CtxOK.mount {T : Bytes → Bytes} {c s : Option Bytes} (h : CtxOK T c s) (p : Bytes) :
    CtxOK (fun r => T (getGroupPath (rawOf (mountPath (regPath c p))) r)) none (some (regPath s p)) := by
  have key : ∀ x, x ≠ [] →
      T (getGroupPath (rawOf (mountPath (regPath c p))) (rawOf x)) = rawOf (getGroupPath (regPath s p) x) := by
    intro x hx
    rw [mount_prefix_eq_group hx, regPath_ggp, regPath_ggp]
    apply h.nonempty
    intro e
    exact hx (ggp_eq_nil.mp (regPath_eq_nil e)).2
  constructor
  · intro x hx
    exact key x hx
  · intro _
    have h47 : rawOf ([47] : Bytes) = [47] := rfl
    have := key [47] (by simp)
    rw [h47, ggp_slash_right (regPath s p)] at this
    have e2 : regPath (some (regPath s p)) [] = regPath s p := ggp_nil_right _
    rw [e2]
    exact this

theorem mapRaw_map (T U : Bytes → Bytes) (l : List Entry) :
    (l.map (mapRaw U)).map (mapRaw T) = l.map (mapRaw fun r => T (U r)) := by
  simp [List.map_map, Function.comp_def, mapRaw]

theorem regEntries_map (T : Bytes → Bytes) (u : Bool) (raw : Bytes) (n : Nat) (hs : List Nat) :
    (regEntries u raw n hs).map (mapRaw T) = regEntries u (T raw) n hs := by
  simp [regEntries, List.map_map, Function.comp_def, mapRaw]

theorem regEntries_rel {Q : Bytes → Bytes → Prop} (u : Bool) (a b : Bytes) (n : Nat) (hs : List Nat)
    (h : Q a b) : Rel2 (ERel Q) (regEntries u a n hs) (regEntries u b n hs) := by
  unfold regEntries
  exact Rel2.map_same _ _ _ (fun _ => ⟨rfl, rfl, h⟩)

section
variable (Q : Bytes → Bytes → Prop) (bad : Bytes → Bool)
variable (hrefl : ∀ a, Q a a)
variable (hbad : ∀ S, bad S = false → Q (rawOf (trimR 47 S ++ [47])) (rawOf S))
include hrefl hbad

/-- a single registration: the Path in the mounted composition is related to the Path in the group
composition -/
theorem leaf_rel {T : Bytes → Bytes} {c s : Option Bytes} (h : CtxOK T c s) (p : Bytes)
    (hr : (regPath c p == [] && bad (regPath s p)) = false) :
    Q (T (rawOf (regPath c p))) (rawOf (regPath s p)) := by
  by_cases he : regPath c p = []
  · have hp : p = [] := regPath_eq_nil he
    subst hp
    simp only [he, beq_self_eq_true, Bool.true_and] at hr
    rw [he]
    have : rawOf ([] : Bytes) = [47] := rfl
    rw [this, h.empty he]
    exact hbad _ hr
  · rw [h.nonempty p he]
    exact hrefl _

mutual
theorem denItem_rel (k : Nat) (hk : k < nMethods) :
    ∀ (i : Item) (T : Bytes → Bytes) (c s : Option Bytes), CtxOK T c s → regionItem bad c s i = false →
      Rel2 (ERel Q) ((denItem c k i).map (mapRaw T)) (denItem s k (unmountItem i))
  | .route ms p hs, T, c, s, h, hr => by
    simp only [denItem, unmountItem, regionItem] at hr ⊢
    rw [regEntries_map]
    exact regEntries_rel _ _ _ _ _ (leaf_rel Q bad hrefl hbad h p hr)
  | .use p hs, T, c, s, h, hr => by
    simp only [denItem, unmountItem, regionItem] at hr ⊢
    rw [regEntries_map]
    exact regEntries_rel _ _ _ _ _ (leaf_rel Q bad hrefl hbad h p hr)
  | .group p hs items, T, c, s, h, hr => by
    simp only [denItem, unmountItem, regionItem, Bool.or_eq_false_iff] at hr ⊢
    rw [List.map_append, regEntries_map]
    apply Rel2.append
    · by_cases hh : hs = []
      · subst hh; rw [regEntries_nil, regEntries_nil]; trivial
      · have hne : hs.isEmpty = false := by cases hs <;> simp_all
        have hr1 := hr.1
        simp only [hne, Bool.not_false, Bool.true_and] at hr1
        exact regEntries_rel _ _ _ _ _ (leaf_rel Q bad hrefl hbad h p hr1)
    · exact denItems_rel k hk items T _ _ (h.group p) hr.2
  | .mount p scfg sub, T, c, s, h, hr => by
    simp only [denItem, unmountItem, regionItem, hk, if_true] at hr ⊢
    rw [mapRaw_map, regEntries_nil, List.nil_append]
    exact denItems_rel k hk sub _ none _ (h.mount p) hr
theorem denItems_rel (k : Nat) (hk : k < nMethods) :
    ∀ (is : List Item) (T : Bytes → Bytes) (c s : Option Bytes), CtxOK T c s → regionItems bad c s is = false →
      Rel2 (ERel Q) ((denItems c k is).map (mapRaw T)) (denItems s k (unmountItems is))
  | [], _, _, _, _, _ => by
    simp only [denItems, unmountItems, List.map_nil]
    exact Rel2.nil _
  | i :: is, T, c, s, h, hr => by
    simp only [denItems, unmountItems, regionItems, Bool.or_eq_false_iff] at hr ⊢
    rw [List.map_append]
    exact Rel2.append (denItem_rel k hk i T c s h hr.1) (denItems_rel k hk is T c s h hr.2)
end

/-- the two route tables, entry by entry -/
theorem flatten_rel (cfg : Cfg) (po : Bytes → List Bytes) (items : List Item) (k : Nat) (hk : k < nMethods)
    (hr : regionItems bad none none items = false) :
    Rel2 (ERel Q) (expand (flatten cfg po items k)) (expand (flattenSpec cfg po items k)) := by
  unfold flattenSpec
  rw [expand_flatten, expand_flatten]
  have := denItems_rel Q bad hrefl hbad k hk items id none none CtxOK.top hr
  have hid : (denItems none k items).map (mapRaw id) = denItems none k items := by
    have : mapRaw id = id := by funext e; rfl
    rw [this, List.map_id]
  rwa [hid] at this

end

/-! ### the two instances of `Q` -/

/-- Paths that the matcher cannot tell apart: equal, or (StrictRouting off) equal after trimming
trailing slashes with something left -/
def RawRel (cfg : Cfg) (a b : Bytes) : Prop :=
  a = b ∨ (cfg.strict = false ∧ trimR 47 a = trimR 47 b ∧ trimR 47 a ≠ [])

theorem emptyAgree_eq {S : Bytes} (h : emptyAgree S = true) : rawOf (trimR 47 S ++ [47]) = rawOf S := by
  unfold emptyAgree at h
  rw [trimRight_eq_trimR] at h
  exact eq_of_beq h

theorem rawRel_of_not_bad (cfg : Cfg) (S : Bytes) (h : badPrefix cfg S = false) :
    RawRel cfg (rawOf (trimR 47 S ++ [47])) (rawOf S) := by
  unfold badPrefix at h
  rw [trimRight_eq_trimR] at h
  by_cases ha : emptyAgree S = true
  · exact Or.inl (emptyAgree_eq ha)
  · simp only [ha, Bool.not_false, Bool.true_and, Bool.or_eq_false_iff] at h
    have hs : cfg.strict = false := h.1
    have ht : trimR 47 S ≠ [] := by
      intro e; rw [e] at h; simp at h
    refine Or.inr ⟨hs, ?_, ?_⟩
    · simp only [rawOf]
      rw [ensureSlash_append ht, trimR_append_single, trimR_ensureSlash (by rw [trimR_idem]; exact ht),
        trimR_idem, trimR_ensureSlash ht]
    · simp only [rawOf]
      rw [ensureSlash_append ht, trimR_append_single, trimR_ensureSlash (by rw [trimR_idem]; exact ht)]
      exact ensureSlash_ne_nil _

/-- the parser's parameter list does not depend on trailing slashes of the Path (assumption on the
opaque parser, checked on every case by the driver) -/
def TrailInv (po : Bytes → List Bytes) : Prop :=
  ∀ a b : Bytes, trimRight a 47 = trimRight b 47 → trimRight a 47 ≠ [] → po a = po b

theorem obsOf_eq_of_rawRel {cfg : Cfg} {po : Bytes → List Bytes} (hpo : TrailInv po) {em eg : Entry}
    (h : ERel (RawRel cfg) em eg) : obsOf cfg po em = obsOf cfg po eg := by
  obtain ⟨h1, h2, h3⟩ := h
  unfold obsOf
  rcases h3 with h3 | ⟨hs, ht, hne⟩
  · rw [h1, h2, h3]
  · have hp : prettyOf cfg em.2.1 = prettyOf cfg eg.2.1 := by
      rw [prettyOf_nonstrict hs hne, prettyOf_nonstrict hs (by rw [← ht]; exact hne), ht]
    have hpar : po em.2.1 = po eg.2.1 := by
      apply hpo
      · rw [trimRight_eq_trimR, trimRight_eq_trimR]; exact ht
      · rw [trimRight_eq_trimR]; exact hne
    simp only [cleanOf, hp, hpar, h1, h2]

/-! ### every route of the table carries the fields `register` derives from its Path -/

def RouteOK (cfg : Cfg) (po : Bytes → List Bytes) (r : Route) : Prop :=
  r.pretty = prettyOf cfg r.raw ∧ r.path = cleanOf cfg r.raw ∧ r.params = po r.raw ∧
  r.root = (cleanOf cfg r.raw == [47]) ∧ r.star = (prettyOf cfg r.raw == [47, 42])

def SlotsOK (cfg : Cfg) (po : Bytes → List Bytes) (l : List Slot) : Prop :=
  ∀ r, Slot.route r ∈ l → RouteOK cfg po r

theorem routeOK_mkRoute (cfg : Cfg) (po : Bytes → List Bytes) (u : Bool) (p : Bytes) (hs : List Nat) :
    RouteOK cfg po (mkRoute cfg po u p hs) := ⟨rfl, rfl, rfl, rfl, rfl⟩

theorem routeOK_addPrefix (cfg : Cfg) (po : Bytes → List Bytes) (raw : Bytes) (r : Route) :
    RouteOK cfg po (addPrefix cfg po raw r) := ⟨rfl, rfl, rfl, rfl, rfl⟩

theorem slotsOK_pushRoute {cfg : Cfg} {po : Bytes → List Bytes} {l : List Slot} {r : Route} (c : Nat)
    (hl : SlotsOK cfg po l) (hr : RouteOK cfg po r) : SlotsOK cfg po (pushRoute l r c).1 := by
  unfold pushRoute
  split
  · rename_i p t
    by_cases h : p.raw = r.raw ∧ p.use = r.use
    · rw [if_pos h]
      intro x hx
      rcases List.mem_cons.mp hx with hx | hx
      · have hp := hl p (by simp)
        injection hx with hx; subst hx
        exact hp
      · exact hl x (List.mem_cons_of_mem _ hx)
    · rw [if_neg h]
      intro x hx
      rcases List.mem_cons.mp hx with hx | hx
      · injection hx with hx; subst hx; exact hr
      · exact hl x hx
  · intro x hx
    rcases List.mem_cons.mp hx with hx | hx
    · injection hx with hx; subst hx; exact hr
    · exact hl x hx

def StOK (cfg : Cfg) (po : Bytes → List Bytes) (st : St) : Prop := ∀ k, SlotsOK cfg po (st.stacks k)

theorem stOK_addRoute {cfg : Cfg} {po : Bytes → List Bytes} {st : St} (m : Nat) {r : Route}
    (hs : StOK cfg po st) (hr : RouteOK cfg po r) : StOK cfg po (addRoute m r st) := by
  intro k
  unfold addRoute
  by_cases h : k = m
  · subst h; simp only [if_true]; exact slotsOK_pushRoute _ (hs k) hr
  · simp only [h, if_false]; exact hs k

theorem stOK_regMany {cfg : Cfg} {po : Bytes → List Bytes} (ms : List Nat) {r : Route} {st : St}
    (hs : StOK cfg po st) (hr : RouteOK cfg po r) : StOK cfg po (regMany ms r st) := by
  induction ms generalizing st with
  | nil => exact hs
  | cons m ms ih => exact ih (stOK_addRoute m hs hr)

theorem stOK_foldl_addMount {cfg : Cfg} {po : Bytes → List Bytes} (ms : List Nat) (raw : Bytes)
    (sub : Nat → List Route) {st : St} (hs : StOK cfg po st) :
    StOK cfg po (ms.foldl (fun st m => addMount m raw sub st) st) := by
  induction ms generalizing st with
  | nil => exact hs
  | cons m ms ih =>
    apply ih
    intro k
    unfold addMount
    by_cases h : k = m
    · subst h
      simp only [if_true]
      intro x hx
      rcases List.mem_cons.mp hx with hx | hx
      · cases hx
      · exact hs k x hx
    · simp only [h, if_false]; exact hs k

theorem stOK_regMount {cfg : Cfg} {po : Bytes → List Bytes} (raw : Bytes)
    (sub : Nat → List Route) {st : St} (hs : StOK cfg po st) : StOK cfg po (regMount raw sub st) := by
  intro k
  exact stOK_foldl_addMount allMethods raw sub hs k

mutual
theorem stOK_buildItem (cfg : Cfg) (po : Bytes → List Bytes) (c : Option Bytes) :
    ∀ (i : Item) (st : St), StOK cfg po st → StOK cfg po (buildItem cfg po c i st)
  | .route ms p hs, st, h => by
    simp only [buildItem]; exact stOK_regMany ms h (routeOK_mkRoute ..)
  | .use p hs, st, h => by
    simp only [buildItem]; exact stOK_regMany _ h (routeOK_mkRoute ..)
  | .group p hs items, st, h => by
    simp only [buildItem]
    apply stOK_buildItems cfg po _ items
    by_cases hh : hs = []
    · simp [hh]; exact h
    · simp only [hh, if_false]; exact stOK_regMany _ h (routeOK_mkRoute ..)
  | .mount p scfg sub, st, h => by
    simp only [buildItem]
    exact stOK_regMount _ _ h
theorem stOK_buildItems (cfg : Cfg) (po : Bytes → List Bytes) (c : Option Bytes) :
    ∀ (is : List Item) (st : St), StOK cfg po st → StOK cfg po (buildItems cfg po c is st)
  | [], st, h => by simpa [buildItems] using h
  | i :: is, st, h => by
    simp only [buildItems]
    exact stOK_buildItems cfg po c is _ (stOK_buildItem cfg po c i st h)
end

theorem routeOK_splice {cfg : Cfg} {po : Bytes → List Bytes} (k : Nat) {l : List Slot}
    (h : SlotsOK cfg po l) : ∀ r ∈ splice cfg po k l, RouteOK cfg po r := by
  induction l with
  | nil => intro r hr; cases hr
  | cons s t ih =>
    have ht : SlotsOK cfg po t := fun r hr => h r (List.mem_cons_of_mem _ hr)
    cases s with
    | route x =>
      intro r hr
      simp only [splice] at hr
      rcases List.mem_cons.mp hr with rfl | hr
      · exact h r (by simp)
      · exact ih ht r hr
    | mount raw sub =>
      intro r hr
      simp only [splice, List.mem_append, List.mem_map] at hr
      rcases hr with ⟨x, _, rfl⟩ | hr
      · exact routeOK_addPrefix ..
      · exact ih ht r hr

theorem routeOK_renum {cfg : Cfg} {po : Bytes → List Bytes} (c : Nat) {l : List Route}
    (h : ∀ r ∈ l, RouteOK cfg po r) : ∀ r ∈ renum c l, RouteOK cfg po r := by
  induction l generalizing c with
  | nil => intro r hr; cases hr
  | cons x t ih =>
    intro r hr
    simp only [renum] at hr
    rcases List.mem_cons.mp hr with rfl | hr
    · exact h x (by simp)
    · exact ih (c + 1) (fun r hr => h r (List.mem_cons_of_mem _ hr)) r hr

theorem routeOK_flatten (cfg : Cfg) (po : Bytes → List Bytes) (items : List Item) (k : Nat) :
    ∀ r ∈ flatten cfg po items k, RouteOK cfg po r := by
  have hst : StOK cfg po (buildItems cfg po none items St.init) :=
    stOK_buildItems cfg po none items St.init (fun _ r hr => by cases hr)
  have hsl : SlotsOK cfg po ((buildItems cfg po none items St.init).stacks k).reverse :=
    fun r hr => hst k r (List.mem_reverse.mp hr)
  unfold flatten finish
  by_cases hm : (buildItems cfg po none items St.init).mounted = true
  · simp only [hm, if_true]
    exact routeOK_renum _ (routeOK_splice k hsl)
  · simp only [hm, Bool.false_eq_true, if_false]
    exact routeOK_splice k hsl

theorem expandObs_eq {cfg : Cfg} {po : Bytes → List Bytes} {l : List Route}
    (h : ∀ r ∈ l, RouteOK cfg po r) : expandObs l = (expand l).map (obsOf cfg po) := by
  induction l with
  | nil => rfl
  | cons r t ih =>
    have hr := h r (by simp)
    have ht := ih (fun x hx => h x (List.mem_cons_of_mem _ hx))
    simp only [expandObs, expand, List.flatMap_cons, List.map_append] at ht ⊢
    rw [ht]
    congr 1
    simp [obsOf, hr.1, hr.2.1, hr.2.2.1]

end C04
