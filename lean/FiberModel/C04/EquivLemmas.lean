import FiberModel.C04.StackLemmas
/-
C04 — the central induction: the entries a definition tree registers with its mounts spliced in ARE
the entries the tree with every mount replaced by a group registers. A mounted app's registration
paths are prefixed with `getGroupPath` exactly as a group prefixes them (F5), so the two
denotations are equal by the associativity of `getGroupPath`.
-/
namespace C04
open B

/-- the group-side context of a sub-tree: the prefix `s` the sub-tree sits under in the group
composition, in front of the group prefix `c` inside the (sub-)app -/
def comp : Option Bytes → Option Bytes → Option Bytes
  | none, c => c
  | some g, c => some (match c with | none => g | some x => getGroupPath g x)

/-- what prefixing with `s` does to a canonical registration path -/
def prefixCtx : Option Bytes → Bytes → Bytes
  | none, κ => κ
  | some g, κ => prefixK g κ

theorem regPath_comp (s c : Option Bytes) (p : Bytes) :
    regPath (comp s c) p = regPath s (regPath c p) := by
  cases s with
  | none => rfl
  | some g =>
    cases c with
    | none => rfl
    | some x => exact getGroupPath_assoc g x p

theorem comp_some (s : Option Bytes) (y : Bytes) : comp s (some y) = some (regPath s y) := by
  cases s <;> rfl

theorem comp_none_right (g : Bytes) : comp (some g) none = some g := rfl

/-- a single registration -/
theorem leaf_eq (s c : Option Bytes) (p : Bytes) :
    canon (regPath (comp s c) p) = prefixCtx s (canon (regPath c p)) := by
  rw [regPath_comp]
  cases s with
  | none => rfl
  | some g =>
    show canon (getGroupPath g (regPath c p)) = canon (getGroupPath g (canon (regPath c p)))
    rw [ggp_canon]

/-- prefixing twice = prefixing with the composed prefix -/
theorem prefixCtx_prefixK (s c : Option Bytes) (p κ : Bytes) :
    prefixCtx s (prefixK (regPath c p) κ) = prefixK (regPath (comp s c) p) κ := by
  rw [regPath_comp]
  cases s with
  | none => rfl
  | some g =>
    show canon (getGroupPath g (canon (getGroupPath (regPath c p) κ))) =
      canon (getGroupPath (getGroupPath g (regPath c p)) κ)
    rw [ggp_canon, getGroupPath_assoc]

theorem mapRaw_map (T U : Bytes → Bytes) (l : List Entry) :
    (l.map (mapRaw U)).map (mapRaw T) = l.map (mapRaw fun r => T (U r)) := by
  simp [List.map_map, Function.comp_def, mapRaw]

theorem regEntries_map (T : Bytes → Bytes) (u : Bool) (raw : Bytes) (n : Nat) (hs : List Nat) :
    (regEntries u raw n hs).map (mapRaw T) = regEntries u (T raw) n hs := by
  simp [regEntries, List.map_map, Function.comp_def, mapRaw]

mutual
theorem denItem_unmount (k : Nat) (hk : k < nMethods) :
    ∀ (i : Item) (s c : Option Bytes),
      denItem (comp s c) k (unmountItem i) = (denItem c k i).map (mapRaw (prefixCtx s))
  | .route ms p hs, s, c => by
    simp only [denItem, unmountItem]
    rw [regEntries_map, leaf_eq]
  | .use p hs, s, c => by
    simp only [denItem, unmountItem]
    rw [regEntries_map, leaf_eq]
  | .group p hs items, s, c => by
    simp only [denItem, unmountItem]
    rw [List.map_append, regEntries_map, leaf_eq, ← denItems_unmount k hk items s (some (regPath c p)),
      comp_some, regPath_comp]
  | .mount p scfg sub, s, c => by
    simp only [denItem, unmountItem, hk, if_true]
    rw [regEntries_nil, List.nil_append, mapRaw_map]
    have h := denItems_unmount k hk sub (some (regPath (comp s c) p)) none
    rw [comp_none_right] at h
    rw [h]
    congr 1
    funext e
    show (e.1, prefixK (regPath (comp s c) p) e.2.1, e.2.2) =
      (e.1, prefixCtx s (prefixK (regPath c p) e.2.1), e.2.2)
    rw [prefixCtx_prefixK]
theorem denItems_unmount (k : Nat) (hk : k < nMethods) :
    ∀ (is : List Item) (s c : Option Bytes),
      denItems (comp s c) k (unmountItems is) = (denItems c k is).map (mapRaw (prefixCtx s))
  | [], _, _ => by simp only [denItems, unmountItems, List.map_nil]
  | i :: is, s, c => by
    simp only [denItems, unmountItems]
    rw [List.map_append, denItem_unmount k hk i s c, denItems_unmount k hk is s c]
end

/-- the two route tables register, per method and handler by handler, the same registration paths -/
theorem flatten_keys_eq (cfg : Cfg) (po : Bytes → List Bytes) (items : List Item) (k : Nat) (hk : k < nMethods) :
    expandK (flatten cfg po items k) = expandK (flattenSpec cfg po items k) := by
  unfold flattenSpec
  rw [expandK_flatten, expandK_flatten]
  have h := denItems_unmount k hk items none none
  have hid : mapRaw (prefixCtx none) = id := by funext e; rfl
  rw [hid, List.map_id] at h
  exact h.symm

/-- … hence the same Paths -/
theorem flatten_expand_eq (cfg : Cfg) (po : Bytes → List Bytes) (items : List Item) (k : Nat) (hk : k < nMethods) :
    expand (flatten cfg po items k) = expand (flattenSpec cfg po items k) := by
  rw [expand_eq_expandK (subOK_flatten cfg po items k), flatten_keys_eq cfg po items k hk]
  exact (expand_eq_expandK (subOK_flatten cfg po (unmountItems items) k)).symm

end C04
