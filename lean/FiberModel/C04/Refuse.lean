import FiberModel.C04.Spec
/-
"Refused at startup" (C04, boundary of `ctx.go maxParams`).

`router.go register` panics when the registered path has more than `maxParams` (= 30) parameters
(`len(parsedRaw.params) > maxParams`); `router.go addPrefixToRoute` — which only runs when a
sub-app's routes are spliced into the parent at startup (`app.Handler()` → `startupProcess` →
`mount.go processSubAppsRoutes`) — has the same guard on the PREFIXED path
(`len(route.Params) > maxParams`). So the group composition is refused while it is being registered,
the mounted composition when it is started, and the property ("the mounted app answers like the group
equivalent") requires that this happens for the same trees.

Like the pattern parser the guard is opaque to C04: `rf Path` = "a plain registration of `Path` is
refused" (the harness fills it per case from an independent registration on a scratch app, the
`=!` entries of the params table). A composition is refused iff one of the entries it would hold is.
-/
namespace C04
open B

/-- a table that would hold a route whose Path `register`/`addPrefixToRoute` refuse -/
def refusedAt (rf : Bytes → Bool) (l : List Route) : Bool :=
  (expand l).any fun e => rf e.2.1

/-- the composition whose per-method tables are `f` is refused at registration/startup -/
def refused (rf : Bytes → Bool) (f : Nat → List Route) : Bool :=
  (List.range nMethods).any fun k => refusedAt rf (f k)

theorem any_congr_mem {α : Type} (l : List α) (p q : α → Bool) (h : ∀ a ∈ l, p a = q a) :
    l.any p = l.any q := by
  induction l with
  | nil => rfl
  | cons a t ih =>
    simp only [List.any_cons]
    rw [h a (List.mem_cons_self ..), ih (fun b hb => h b (List.mem_cons_of_mem _ hb))]

/-- Oracle clause on the implementation's observation (`refM`, `refG`: the mounted resp. the group
composition panicked while being registered or started): refused together or served together. -/
def startupViolation (refM refG : Bool) : Option String :=
  if refM && !refG then
    some "mount-equals-group startup: the mounted composition is refused (panic at registration/startup) while the group composition starts and serves"
  else if !refM && refG then
    some "mount-equals-group startup: the group composition is refused (panic at registration) while the mounted composition starts and serves"
  else none

end C04
