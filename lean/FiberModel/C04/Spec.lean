import FiberModel.C04.Model
/-
C04 — the property as executable definitions.

"An application that mounts sub-applications … answers every request exactly as an application in
which the sub-applications' routes and middleware were registered directly under a group with the
mount prefix at the same position. The same holds for Group/Route prefixes versus spelling the
full path at registration."

* `unmount`     : the same definition tree with every mount replaced by a group with the mount
                  prefix at the same position; `flattenSpec` registers that tree.
* `spell`       : the same tree (sub-apps included) with every group removed and every path
                  spelled out in full.
* what a request can see of a route table: per method, in order, one entry per handler with the
  fields the matcher reads (`expandObs`); consecutive handlers of one route and the same handlers
  on consecutive identical routes are the same chain (`run_eq_runE` in Props).
* `specViolation`: the oracle on the implementation's observation (independent of the model): both
  real compositions must give the same answer to every request, and their `Stack()` tables must
  agree entry by entry on what the matcher reads.
-/
namespace C04
open B

mutual
def unmountItem : Item → Item
  | .route ms p hs => .route ms p hs
  | .use p hs => .use p hs
  | .group p hs items => .group p hs (unmountItems items)
  | .mount p _ sub => .group p [] (unmountItems sub)
def unmountItems : List Item → List Item
  | [] => []
  | i :: is => unmountItem i :: unmountItems is
end

/-- the group composition's route table -/
def flattenSpec (cfg : Cfg) (po : Bytes → List Bytes) (items : List Item) : Nat → List Route :=
  flatten cfg po (unmountItems items)

mutual
/-- groups removed, every path spelled in full (`gp` = prefix of the enclosing groups) -/
def spellItem (gp : Option Bytes) : Item → List Item
  | .route ms p hs => [.route ms (regPath gp p) hs]
  | .use p hs => [.use (regPath gp p) hs]
  | .group p hs items =>
    (if hs = [] then [] else [.use (regPath gp p) hs]) ++ spellItems (some (regPath gp p)) items
  | .mount p scfg sub => [.mount (regPath gp p) scfg (spellItems none sub)]
def spellItems (gp : Option Bytes) : List Item → List Item
  | [] => []
  | i :: is => spellItem gp i ++ spellItems gp is
end

mutual
def groupFreeItem : Item → Bool
  | .route _ _ _ => true
  | .use _ _ => true
  | .group _ _ _ => false
  | .mount _ _ sub => groupFree sub
def groupFree : List Item → Bool
  | [] => true
  | i :: is => groupFreeItem i && groupFree is
end

/-- (use, Path, handler id): one entry per handler, in stack order -/
abbrev Entry := Bool × Bytes × Nat

def expand (l : List Route) : List Entry :=
  l.flatMap fun r => r.handlers.map fun h => (r.use, r.raw, h)

/-- what the matcher reads of a route, per handler -/
structure Obs where
  use : Bool
  pretty : Bytes
  written : Bytes
  path : Bytes
  params : List Bytes
  hid : Nat
  deriving Repr, DecidableEq

def expandObs (l : List Route) : List Obs :=
  l.flatMap fun r => r.handlers.map fun h => ⟨r.use, r.pretty, r.written, r.path, r.params, h⟩

def obsOf (cfg : Cfg) (po : Bytes → List Bytes) (e : Entry) : Obs :=
  ⟨e.1, prettyOf cfg e.2.1, writtenOf cfg e.2.1, cleanOf cfg e.2.1, po e.2.1, e.2.2⟩

/-! ### oracle on the implementation's observation -/

/-- one `Stack()` row: Path, Params, number of handlers -/
structure Row where
  raw : Bytes
  params : List Bytes
  n : Nat
  deriving Repr, DecidableEq

/-- per-handler view of an observed stack, restricted to what `Stack()` exposes and the matcher reads -/
def expandRows (cfg : Cfg) (rows : List Row) : List (Bytes × Bytes × List Bytes) :=
  rows.flatMap fun r => List.replicate r.n (prettyOf cfg r.raw, cleanOf cfg r.raw, r.params)

def firstDiff : List String → List String → Nat → Option Nat
  | [], [], _ => none
  | a :: as, b :: bs, i => if a == b then firstDiff as bs (i + 1) else some i
  | _, _, i => some i

def tablesAgree (cfg : Cfg) : List (List Row) → List (List Row) → Bool
  | [], [] => true
  | a :: as, b :: bs => expandRows cfg a == expandRows cfg b && tablesAgree cfg as bs
  | _, _ => false

/-- `none` = the observation satisfies the property; `some clause` otherwise -/
def specViolation (cfg : Cfg) (tm tg : List (List Row)) (rm rg : List String) : Option String :=
  match firstDiff rm rg 0 with
  | some i => some s!"answer request#{i}: mounted and grouped composition answer differently"
  | none => if tablesAgree cfg tm tg then none else some "table: Stack() of the two compositions differ in what the matcher reads"

end C04
