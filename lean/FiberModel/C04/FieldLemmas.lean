import FiberModel.C04.Spec
import FiberModel.C04.PathLemmas
/-
C04 — every route of a table the model builds carries the fields `register` / `addPrefixToRoute`
derive from its Path, and its Path is its registration path (`pathOrig`) normalised.
-/
namespace C04
open B

/-! ### every route of the table carries the fields `register` derives from its Path -/

def RouteOK (cfg : Cfg) (po : Bytes → List Bytes) (r : Route) : Prop :=
  r.pretty = prettyOf cfg r.raw ∧ r.path = cleanOf cfg r.raw ∧ r.params = po r.raw ∧
  r.root = (cleanOf cfg r.raw == [47]) ∧ r.star = (prettyOf cfg r.raw == [47, 42]) ∧
  r.raw = rawOf r.orig ∧ r.written = writtenOf cfg r.raw

def SlotsOK (cfg : Cfg) (po : Bytes → List Bytes) (l : List Slot) : Prop :=
  ∀ r, Slot.route r ∈ l → RouteOK cfg po r

theorem routeOK_mkRoute (cfg : Cfg) (po : Bytes → List Bytes) (u : Bool) (p : Bytes) (hs : List Nat) :
    RouteOK cfg po (mkRoute cfg po u p hs) := ⟨rfl, rfl, rfl, rfl, rfl, rfl, rfl⟩

theorem routeOK_addPrefix (cfg : Cfg) (po : Bytes → List Bytes) (raw : Bytes) (r : Route) :
    RouteOK cfg po (addPrefix cfg po raw r) := ⟨rfl, rfl, rfl, rfl, rfl, rfl, rfl⟩

theorem slotsOK_pushRoute {cfg : Cfg} {po : Bytes → List Bytes} {l : List Slot} {r : Route} (c : Nat)
    (hl : SlotsOK cfg po l) (hr : RouteOK cfg po r) : SlotsOK cfg po (pushRoute l r c).1 := by
  unfold pushRoute
  split
  · rename_i p t
    by_cases h : p.raw = r.raw ∧ (p.orig == []) = (r.orig == []) ∧ p.use = r.use
    · rw [if_pos h]
      intro x hx
      rcases List.mem_cons.mp hx with hx | hx
      · have hp := hl p (by simp)
        injection hx with hx; subst hx
        exact hp
      · exact hl x (List.mem_cons_of_mem _ hx)
    · rw [if_neg h]
      intro x hx
      rcases List.mem_cons.mp hx with hx | hx
      · injection hx with hx; subst hx; exact hr
      · exact hl x hx
  · intro x hx
    rcases List.mem_cons.mp hx with hx | hx
    · injection hx with hx; subst hx; exact hr
    · exact hl x hx

def StOK (cfg : Cfg) (po : Bytes → List Bytes) (st : St) : Prop := ∀ k, SlotsOK cfg po (st.stacks k)

theorem stOK_addRoute {cfg : Cfg} {po : Bytes → List Bytes} {st : St} (m : Nat) {r : Route}
    (hs : StOK cfg po st) (hr : RouteOK cfg po r) : StOK cfg po (addRoute m r st) := by
  intro k
  unfold addRoute
  by_cases h : k = m
  · subst h; simp only [if_true]; exact slotsOK_pushRoute _ (hs k) hr
  · simp only [h, if_false]; exact hs k

theorem stOK_regMany {cfg : Cfg} {po : Bytes → List Bytes} (ms : List Nat) {r : Route} {st : St}
    (hs : StOK cfg po st) (hr : RouteOK cfg po r) : StOK cfg po (regMany ms r st) := by
  induction ms generalizing st with
  | nil => exact hs
  | cons m ms ih => exact ih (stOK_addRoute m hs hr)

theorem stOK_foldl_addMount {cfg : Cfg} {po : Bytes → List Bytes} (ms : List Nat) (raw pre : Bytes)
    (sub : Nat → List Route) {st : St} (hs : StOK cfg po st) :
    StOK cfg po (ms.foldl (fun st m => addMount m raw pre sub st) st) := by
  induction ms generalizing st with
  | nil => exact hs
  | cons m ms ih =>
    apply ih
    intro k
    unfold addMount
    by_cases h : k = m
    · subst h
      simp only [if_true]
      intro x hx
      rcases List.mem_cons.mp hx with hx | hx
      · cases hx
      · exact hs k x hx
    · simp only [h, if_false]; exact hs k

theorem stOK_regMount {cfg : Cfg} {po : Bytes → List Bytes} (raw pre : Bytes)
    (sub : Nat → List Route) {st : St} (hs : StOK cfg po st) : StOK cfg po (regMount raw pre sub st) := by
  intro k
  exact stOK_foldl_addMount allMethods raw pre sub hs k

mutual
theorem stOK_buildItem (cfg : Cfg) (po : Bytes → List Bytes) (c : Option Bytes) :
    ∀ (i : Item) (st : St), StOK cfg po st → StOK cfg po (buildItem cfg po c i st)
  | .route ms p hs, st, h => by
    simp only [buildItem]; exact stOK_regMany ms h (routeOK_mkRoute ..)
  | .use p hs, st, h => by
    simp only [buildItem]; exact stOK_regMany _ h (routeOK_mkRoute ..)
  | .group p hs items, st, h => by
    simp only [buildItem]
    apply stOK_buildItems cfg po _ items
    by_cases hh : hs = []
    · simp [hh]; exact h
    · simp only [hh, if_false]; exact stOK_regMany _ h (routeOK_mkRoute ..)
  | .mount p scfg sub, st, h => by
    simp only [buildItem]
    exact stOK_regMount _ _ _ h
theorem stOK_buildItems (cfg : Cfg) (po : Bytes → List Bytes) (c : Option Bytes) :
    ∀ (is : List Item) (st : St), StOK cfg po st → StOK cfg po (buildItems cfg po c is st)
  | [], st, h => by simpa [buildItems] using h
  | i :: is, st, h => by
    simp only [buildItems]
    exact stOK_buildItems cfg po c is _ (stOK_buildItem cfg po c i st h)
end

theorem routeOK_splice {cfg : Cfg} {po : Bytes → List Bytes} (k : Nat) {l : List Slot}
    (h : SlotsOK cfg po l) : ∀ r ∈ splice cfg po k l, RouteOK cfg po r := by
  induction l with
  | nil => intro r hr; cases hr
  | cons s t ih =>
    have ht : SlotsOK cfg po t := fun r hr => h r (List.mem_cons_of_mem _ hr)
    cases s with
    | route x =>
      intro r hr
      simp only [splice] at hr
      rcases List.mem_cons.mp hr with rfl | hr
      · exact h r (by simp)
      · exact ih ht r hr
    | mount raw pre sub =>
      intro r hr
      simp only [splice, List.mem_append, List.mem_map] at hr
      rcases hr with ⟨x, _, rfl⟩ | hr
      · exact routeOK_addPrefix ..
      · exact ih ht r hr

theorem routeOK_renum {cfg : Cfg} {po : Bytes → List Bytes} (c : Nat) {l : List Route}
    (h : ∀ r ∈ l, RouteOK cfg po r) : ∀ r ∈ renum c l, RouteOK cfg po r := by
  induction l generalizing c with
  | nil => intro r hr; cases hr
  | cons x t ih =>
    intro r hr
    simp only [renum] at hr
    rcases List.mem_cons.mp hr with rfl | hr
    · exact h x (by simp)
    · exact ih (c + 1) (fun r hr => h r (List.mem_cons_of_mem _ hr)) r hr

theorem routeOK_flatten (cfg : Cfg) (po : Bytes → List Bytes) (items : List Item) (k : Nat) :
    ∀ r ∈ flatten cfg po items k, RouteOK cfg po r := by
  have hst : StOK cfg po (buildItems cfg po none items St.init) :=
    stOK_buildItems cfg po none items St.init (fun _ r hr => by cases hr)
  have hsl : SlotsOK cfg po ((buildItems cfg po none items St.init).stacks k).reverse :=
    fun r hr => hst k r (List.mem_reverse.mp hr)
  unfold flatten finish
  by_cases hm : (buildItems cfg po none items St.init).mounted = true
  · simp only [hm, if_true]
    exact routeOK_renum _ (routeOK_splice k hsl)
  · simp only [hm, Bool.false_eq_true, if_false]
    exact routeOK_splice k hsl

theorem expandObs_eq {cfg : Cfg} {po : Bytes → List Bytes} {l : List Route}
    (h : ∀ r ∈ l, RouteOK cfg po r) : expandObs l = (expand l).map (obsOf cfg po) := by
  induction l with
  | nil => rfl
  | cons r t ih =>
    have hr := h r (by simp)
    have ht := ih (fun x hx => h x (List.mem_cons_of_mem _ hx))
    simp only [expandObs, expand, List.flatMap_cons, List.map_append] at ht ⊢
    rw [ht]
    congr 1
    simp [obsOf, hr.1, hr.2.1, hr.2.2.1, hr.2.2.2.2.2.2]

end C04
