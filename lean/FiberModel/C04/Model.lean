import FiberModel.Basic
/-
C04 — model of route registration through apps / groups / `Route(path)` registers and of mounting
(`app.Use(prefix, subApp)`), transcribed from the code that exists in /repo *after* the
`fix:` commits recorded in known/C04.json (F1–F5):

  helpers.go  getGroupPath                      ↔ getGroupPath
  router.go   register (path normalisation)     ↔ rawOf / prettyOf / cleanOf / mkRoute
  router.go   addRoute (merge with the previous route of the same Path, pos counter) ↔ pushRoute / addRoute
  router.go   copyRoute + addPrefixToRoute      ↔ addPrefix
  group.go    Group.Add/Use/Group/Route, app.go App.Add/Use/Group/Route ↔ buildItem (regPath)
  register.go Registering.Add/All/Route         ↔ a group whose items all have the empty path
                                                   (`Registering{path}` registers at exactly `path`;
                                                    `.Route(p)` nests with getGroupPath) — see Driver
  mount.go    App.mount / Group.mount           ↔ mountPath + regMount (placeholder per method; its
                                                   group keeps the prefix as given, untrimmed)
  mount.go    processSubAppsRoutes              ↔ splice (clone, prefix the clone's `pathOrig` with the
                                                   placeholder group's Prefix, put at the placeholder's
                                                   position) + renumber (pos)

`Route.pathOrig` (F5): the path as handed to `register`, before "" becomes "/" and the leading slash
is added. `addPrefixToRoute` prefixes from it, `addRoute` does not merge "" with "/".

The route-pattern parser belongs to C02/C03. Here it is opaque: `Params` is `po raw` for a
parameter `po : Bytes → List Bytes` (in the driver: the table the harness obtained from an
independent plain registration of the same path), and `routeParser` is represented by the string
it was parsed from: `parseRouteWritten(pathPretty, pathRaw[:len(pathPretty)])` (`Route.pretty`,
`Route.written`).

Stacks are kept newest-first while registering (`addRoute` looks at the last route of the stack)
and reversed by `finish`.
-/
namespace C04
open B

structure Cfg where
  caseSensitive : Bool
  strict : Bool
  deriving Repr, DecidableEq

/-- `len(app.config.RequestMethods)` for the default configuration -/
def nMethods : Nat := 9

/-- `if path[0] != '/' { path = "/" + path }` (also maps "" to "/") -/
def ensureSlash : Bytes → Bytes
  | 47 :: t => 47 :: t
  | p => 47 :: p

/-- helpers.go `getGroupPath` -/
def getGroupPath (pre path : Bytes) : Bytes :=
  if path = [] then pre else trimRight pre 47 ++ ensureSlash path

/-- path.go `RemoveEscapeChar` -/
def removeEscape (p : Bytes) : Bytes := p.filter (fun c => c != 92)

/-- router.go `register`: `pathRaw` ("" becomes "/", a leading slash is added) -/
def rawOf (p : Bytes) : Bytes := ensureSlash p

/-- router.go `register` / `addPrefixToRoute`: `pathPretty` (lower-cased unless CaseSensitive,
trailing slashes trimmed unless StrictRouting or the path is a single byte) -/
def prettyOf (cfg : Cfg) (raw : Bytes) : Bytes :=
  let l := if cfg.caseSensitive then raw else toLower raw
  if !cfg.strict && l.length > 1 then trimRight l 47 else l

/-- `pathRaw[:len(pathPretty)]`: the pattern as written, without the trailing slashes the
configuration makes insignificant (`register` / `addPrefixToRoute` hand it to `parseRouteWritten`,
which reads the text of the parameter constraints from it) -/
def writtenOf (cfg : Cfg) (raw : Bytes) : Bytes := raw.take (prettyOf cfg raw).length

/-- `pathClean = RemoveEscapeChar(pathPretty)` -/
def cleanOf (cfg : Cfg) (raw : Bytes) : Bytes := removeEscape (prettyOf cfg raw)

structure Route where
  use : Bool
  star : Bool
  root : Bool
  raw : Bytes            -- Route.Path
  orig : Bytes           -- Route.pathOrig (the path as handed to `register`)
  pretty : Bytes         -- the (prettified) pattern `routeParser` was parsed from …
  written : Bytes        -- … and the pattern as written, cut to its length: the text of the constraints
  path : Bytes           -- Route.path
  params : List Bytes    -- Route.Params
  handlers : List Nat    -- Route.Handlers (ids)
  pos : Nat
  deriving Repr, DecidableEq

/-- the `Route{…}` literal of `register` (`isStar := pathPretty == "/*"`, `isRoot := pathClean == "/"`) -/
def mkRoute (cfg : Cfg) (po : Bytes → List Bytes) (use : Bool) (p : Bytes) (hs : List Nat) : Route :=
  let raw := rawOf p
  { use := use, star := prettyOf cfg raw == [47, 42], root := cleanOf cfg raw == [47],
    raw := raw, orig := p, pretty := prettyOf cfg raw, written := writtenOf cfg raw, path := cleanOf cfg raw, params := po raw,
    handlers := hs, pos := 0 }

/-- router.go `copyRoute` + `addPrefixToRoute` (as repaired: the route's `pathOrig` is prefixed the
way a group prefixes a path — an empty path stays the prefix itself — and the result normalised as
`register` does; Params recomputed from the prefixed path, root/star derived from it; `pre` = the
placeholder group's `Prefix`, i.e. the mount prefix as given) -/
def addPrefix (cfg : Cfg) (po : Bytes → List Bytes) (pre : Bytes) (r : Route) : Route :=
  let o := getGroupPath pre r.orig
  let raw := rawOf o
  { r with raw := raw, orig := o, pretty := prettyOf cfg raw, written := writtenOf cfg raw, path := cleanOf cfg raw, params := po raw,
           root := cleanOf cfg raw == [47], star := prettyOf cfg raw == [47, 42] }

/-- an element of `app.stack[m]` before startup: a route, or the placeholder of a mounted app
(`Route.mount = true`; `raw` = its `Path`, `pre` = `Route.group.Prefix` = the mount prefix as given,
`Route.group.app` = the sub-app, here: its finished stacks) -/
inductive Slot where
  | route (r : Route)
  | mount (raw : Bytes) (pre : Bytes) (sub : Nat → List Route)

structure St where
  stacks : Nat → List Slot     -- newest first
  count : Nat                  -- app.routesCount
  mounted : Bool               -- hasMountedApps()

def St.init : St := { stacks := fun _ => [], count := 0, mounted := false }

/-- router.go `addRoute` on one stack: merge into the previous route when it has the same `Path`
and `use`, both or neither were registered with the empty path, and neither is a mount placeholder,
else take the next position and append -/
def pushRoute (l : List Slot) (r : Route) (count : Nat) : List Slot × Nat :=
  match l with
  | .route p :: t =>
    if p.raw = r.raw ∧ (p.orig == []) = (r.orig == []) ∧ p.use = r.use then (.route { p with handlers := p.handlers ++ r.handlers } :: t, count)
    else (.route { r with pos := count + 1 } :: l, count + 1)
  | _ => (.route { r with pos := count + 1 } :: l, count + 1)

def addRoute (m : Nat) (r : Route) (st : St) : St :=
  let x := pushRoute (st.stacks m) r st.count
  { st with stacks := fun k => if k = m then x.1 else st.stacks k, count := x.2 }

/-- `register` for a list of method indices (a `Use` registers on every method in order) -/
def regMany (ms : List Nat) (r : Route) (st : St) : St := ms.foldl (fun st m => addRoute m r st) st

def allMethods : List Nat := List.range nMethods

/-- the placeholder of `mount`: `register([USE], prefix, mountGroup)` — never merged -/
def addMount (m : Nat) (raw pre : Bytes) (sub : Nat → List Route) (st : St) : St :=
  { st with stacks := fun k => if k = m then .mount raw pre sub :: st.stacks m else st.stacks k,
            count := st.count + 1 }

def regMount (raw pre : Bytes) (sub : Nat → List Route) (st : St) : St :=
  { allMethods.foldl (fun st m => addMount m raw pre sub st) st with mounted := true }

/-- mount.go `mount`: `prefix = TrimRight(prefix,'/'); if prefix == "" { prefix = "/" }` (the
placeholder's path and the `appList` key; the placeholder's group keeps the untrimmed prefix) -/
def mountPath (full : Bytes) : Bytes :=
  let t := trimRight full 47
  if t = [] then [47] else t

/-- path handed to `register` by a router: the app itself (`none`) passes it on, a group
(`some Prefix`) prefixes it with `getGroupPath` -/
def regPath (gp : Option Bytes) (p : Bytes) : Bytes :=
  match gp with
  | none => p
  | some g => getGroupPath g p

/-- processSubAppsRoutes, one stack: placeholders are replaced, in place, by the sub-app's
routes of the same method, cloned and prefixed with the placeholder group's Prefix -/
def splice (cfg : Cfg) (po : Bytes → List Bytes) (m : Nat) : List Slot → List Route
  | [] => []
  | .route r :: t => r :: splice cfg po m t
  | .mount _ pre sub :: t => (sub m).map (addPrefix cfg po pre) ++ splice cfg po m t

/-- `routePos++; route.pos = routePos` -/
def renum : Nat → List Route → List Route
  | _, [] => []
  | c, r :: t => { r with pos := c + 1 } :: renum (c + 1) t

/-- number of routes in the stacks of the methods before `k` (where `routePos` stands) -/
def offset (f : Nat → List Route) : Nat → Nat
  | 0 => 0
  | k + 1 => offset f k + (f k).length

/-- startupProcess → mountStartupProcess: only an app with mounted apps is spliced and renumbered -/
def finish (cfg : Cfg) (po : Bytes → List Bytes) (st : St) : Nat → List Route :=
  let sp := fun k => splice cfg po k (st.stacks k).reverse
  if st.mounted then fun k => renum (offset sp k) (sp k) else sp

/-- The definition tree of an application. -/
inductive Item where
  | route (ms : List Nat) (path : Bytes) (hs : List Nat)      -- router.Add(methods, path, hs…)
  | use (pre : Bytes) (hs : List Nat)                         -- router.Use(prefix, hs…)
  | group (pre : Bytes) (hs : List Nat) (items : List Item)   -- router.Group(prefix, hs…) + its registrations
  | mount (pre : Bytes) (scfg : Cfg) (sub : List Item)        -- router.Use(prefix, subApp)

mutual
def buildItem (cfg : Cfg) (po : Bytes → List Bytes) (gp : Option Bytes) : Item → St → St
  | .route ms path hs, st => regMany ms (mkRoute cfg po false (regPath gp path) hs) st
  | .use pre hs, st => regMany allMethods (mkRoute cfg po true (regPath gp pre) hs) st
  | .group pre hs items, st =>
    let np := regPath gp pre
    let st := if hs = [] then st else regMany allMethods (mkRoute cfg po true np hs) st
    buildItems cfg po (some np) items st
  | .mount pre scfg sub, st =>
    let sst := buildItems scfg po none sub St.init
    regMount (rawOf (mountPath (regPath gp pre))) (regPath gp pre) (finish scfg po sst) st
def buildItems (cfg : Cfg) (po : Bytes → List Bytes) (gp : Option Bytes) : List Item → St → St
  | [], st => st
  | i :: is, st => buildItems cfg po gp is (buildItem cfg po gp i st)
end

/-- The route table the application serves from (per method index). -/
def flatten (cfg : Cfg) (po : Bytes → List Bytes) (items : List Item) : Nat → List Route :=
  finish cfg po (buildItems cfg po none items St.init)

end C04
