import FiberModel.C04.EquivLemmas
/-
C04 — positions (`pos`) are strictly increasing along every stack; groups vs spelled-out paths;
the chain a table runs depends only on its per-handler entries.
-/
namespace C04
open B

/-! ### pos -/

def posSorted (l : List Route) : Prop := (l.map (·.pos)).Pairwise (· < ·)

theorem renum_lower (c : Nat) (l : List Route) : ∀ r ∈ renum c l, c < r.pos := by
  induction l generalizing c with
  | nil => intro r hr; cases hr
  | cons x t ih =>
    intro r hr
    simp only [renum] at hr
    rcases List.mem_cons.mp hr with rfl | hr
    · simp
    · have := ih (c + 1) r hr; omega

theorem renum_sorted (c : Nat) (l : List Route) : posSorted (renum c l) := by
  induction l generalizing c with
  | nil => simp [posSorted, renum]
  | cons x t ih =>
    simp only [posSorted, renum, List.map_cons, List.pairwise_cons]
    refine ⟨?_, ih (c + 1)⟩
    intro p hp
    obtain ⟨r, hr, rfl⟩ := List.mem_map.mp hp
    have := renum_lower (c + 1) t r hr
    show c + 1 < r.pos
    exact this

/-- a stack of an app without mounts, newest first: routes only, positions strictly decreasing,
all ≤ the counter -/
def Desc : List Slot → Nat → Prop
  | [], _ => True
  | .route r :: t, c => r.pos ≤ c ∧ 1 ≤ r.pos ∧ Desc t (r.pos - 1)
  | .mount _ _ _ :: _, _ => False

theorem Desc.mono {l : List Slot} {c c' : Nat} (h : Desc l c) (hc : c ≤ c') : Desc l c' := by
  cases l with
  | nil => trivial
  | cons s t =>
    cases s with
    | route r => exact ⟨by have := h.1; omega, h.2.1, h.2.2⟩
    | mount _ _ _ => exact h.elim

theorem desc_pushRoute {l : List Slot} {c : Nat} (r : Route) (h : Desc l c) :
    Desc (pushRoute l r c).1 (pushRoute l r c).2 ∧ c ≤ (pushRoute l r c).2 := by
  unfold pushRoute
  split
  · rename_i p t
    by_cases hm : p.raw = r.raw ∧ (p.orig == []) = (r.orig == []) ∧ p.use = r.use
    · rw [if_pos hm]; exact ⟨h, Nat.le_refl _⟩
    · rw [if_neg hm]
      refine ⟨⟨Nat.le_refl _, by simp, ?_⟩, by simp⟩
      simpa using h
  · refine ⟨⟨Nat.le_refl _, by simp, ?_⟩, by simp⟩
    simpa using h

/-- either the app has mounts (it will be renumbered) or all stacks are `Desc` -/
def PosInv (st : St) : Prop := st.mounted = true ∨ ∀ k, Desc (st.stacks k) st.count

theorem posInv_addRoute (m : Nat) (r : Route) {st : St} (h : PosInv st) : PosInv (addRoute m r st) := by
  rcases h with h | h
  · exact Or.inl h
  · right
    intro k
    have hp := desc_pushRoute r (h m)
    unfold addRoute
    by_cases hk : k = m
    · subst hk; simp only [if_true]; exact hp.1
    · simp only [hk, if_false]; exact (h k).mono hp.2

theorem posInv_regMany (ms : List Nat) (r : Route) {st : St} (h : PosInv st) : PosInv (regMany ms r st) := by
  induction ms generalizing st with
  | nil => exact h
  | cons m ms ih => exact ih (posInv_addRoute m r h)

mutual
theorem posInv_buildItem (cfg : Cfg) (po : Bytes → List Bytes) (c : Option Bytes) :
    ∀ (i : Item) (st : St), PosInv st → PosInv (buildItem cfg po c i st)
  | .route ms p hs, st, h => by simp only [buildItem]; exact posInv_regMany _ _ h
  | .use p hs, st, h => by simp only [buildItem]; exact posInv_regMany _ _ h
  | .group p hs items, st, h => by
    simp only [buildItem]
    apply posInv_buildItems cfg po _ items
    by_cases hh : hs = []
    · simp [hh]; exact h
    · simp only [hh, if_false]; exact posInv_regMany _ _ h
  | .mount p scfg sub, st, _ => by
    simp only [buildItem]
    exact Or.inl rfl
theorem posInv_buildItems (cfg : Cfg) (po : Bytes → List Bytes) (c : Option Bytes) :
    ∀ (is : List Item) (st : St), PosInv st → PosInv (buildItems cfg po c is st)
  | [], st, h => by simpa [buildItems] using h
  | i :: is, st, h => by
    simp only [buildItems]
    exact posInv_buildItems cfg po c is _ (posInv_buildItem cfg po c i st h)
end

theorem desc_splice_sorted (cfg : Cfg) (po : Bytes → List Bytes) (k : Nat) {l : List Slot} {c : Nat}
    (h : Desc l c) :
    posSorted (splice cfg po k l.reverse) ∧ ∀ r ∈ splice cfg po k l.reverse, r.pos ≤ c := by
  induction l generalizing c with
  | nil => simp [posSorted, splice]
  | cons s t ih =>
    cases s with
    | mount _ _ _ => exact h.elim
    | route x =>
      obtain ⟨h1, h2, h3⟩ := h
      obtain ⟨ihs, ihb⟩ := ih h3
      rw [List.reverse_cons, splice_append]
      simp only [splice, List.append_nil]
      constructor
      · unfold posSorted at ihs ⊢
        rw [List.map_append, List.pairwise_append]
        refine ⟨ihs, by simp, ?_⟩
        intro a ha b hb
        obtain ⟨r, hr, rfl⟩ := List.mem_map.mp ha
        simp at hb; subst hb
        have := ihb r hr; omega
      · intro r hr
        rcases List.mem_append.mp hr with hr | hr
        · have := ihb r hr; omega
        · simp at hr; subst hr; exact h1

/-- positions are strictly increasing along every stack of the served table: the order in which
`buildTree`'s sort by `pos` leaves each bucket is the stack order -/
theorem flatten_pos_sorted' (cfg : Cfg) (po : Bytes → List Bytes) (items : List Item) (k : Nat) :
    posSorted (flatten cfg po items k) := by
  have hinv : PosInv (buildItems cfg po none items St.init) :=
    posInv_buildItems cfg po none items St.init (Or.inr fun _ => trivial)
  unfold flatten finish
  by_cases hm : (buildItems cfg po none items St.init).mounted = true
  · simp only [hm, if_true]; exact renum_sorted _ _
  · simp only [hm, Bool.false_eq_true, if_false]
    rcases hinv with h | h
    · exact absurd h hm
    · exact (desc_splice_sorted cfg po k (h k)).1

/-! ### groups vs spelled-out paths -/

theorem buildItems_append (cfg : Cfg) (po : Bytes → List Bytes) (c : Option Bytes) (a b : List Item) (st : St) :
    buildItems cfg po c (a ++ b) st = buildItems cfg po c b (buildItems cfg po c a st) := by
  induction a generalizing st with
  | nil => simp [buildItems]
  | cons i t ih => simp only [List.cons_append, buildItems]; exact ih _

mutual
theorem buildItem_spell (cfg : Cfg) (po : Bytes → List Bytes) (c : Option Bytes) :
    ∀ (i : Item) (st : St), buildItems cfg po none (spellItem c i) st = buildItem cfg po c i st
  | .route ms p hs, st => by simp [spellItem, buildItems, buildItem, regPath]
  | .use p hs, st => by simp [spellItem, buildItems, buildItem, regPath]
  | .group p hs items, st => by
    simp only [spellItem, buildItem]
    rw [buildItems_append, buildItems_spell cfg po (some (regPath c p)) items]
    by_cases hh : hs = []
    · simp [hh, buildItems]
    · simp [hh, buildItems, buildItem, regPath]
  | .mount p scfg sub, st => by
    simp only [spellItem, buildItems, buildItem]
    rw [buildItems_spell scfg po none sub]
    simp [regPath]
theorem buildItems_spell (cfg : Cfg) (po : Bytes → List Bytes) (c : Option Bytes) :
    ∀ (is : List Item) (st : St), buildItems cfg po none (spellItems c is) st = buildItems cfg po c is st
  | [], st => by simp [spellItems, buildItems]
  | i :: is, st => by
    simp only [spellItems, buildItems]
    rw [buildItems_append, buildItem_spell cfg po c i, buildItems_spell cfg po c is]
end

theorem groupFree_append (a b : List Item) : groupFree (a ++ b) = (groupFree a && groupFree b) := by
  induction a with
  | nil => simp [groupFree]
  | cons i t ih => simp [groupFree, ih, Bool.and_assoc]

mutual
theorem groupFree_spellItem (c : Option Bytes) : ∀ (i : Item), groupFree (spellItem c i) = true
  | .route ms p hs => by simp [spellItem, groupFree, groupFreeItem]
  | .use p hs => by simp [spellItem, groupFree, groupFreeItem]
  | .group p hs items => by
    simp only [spellItem]
    rw [groupFree_append, groupFree_spellItems (some (regPath c p)) items]
    by_cases hh : hs = [] <;> simp [hh, groupFree, groupFreeItem]
  | .mount p scfg sub => by
    simp [spellItem, groupFree, groupFreeItem, groupFree_spellItems none sub]
theorem groupFree_spellItems (c : Option Bytes) : ∀ (is : List Item), groupFree (spellItems c is) = true
  | [] => by simp [spellItems, groupFree]
  | i :: is => by
    simp only [spellItems]
    rw [groupFree_append, groupFree_spellItem c i, groupFree_spellItems c is]; rfl
end

/-! ### the chain a table runs -/

section
variable {V : Type} (mt : Bool → Bytes → Bytes → Bytes → List Bytes → Option V) (stops : Nat → Bool)

/-- `Ctx.Next` inside a matched route: the remaining handlers of the route, then on to the stack;
a handler that does not call Next ends the chain (ctx.go `Next`, router.go `next`) -/
def runH (v : V) : List Nat → List (Nat × V) → List (Nat × V)
  | [], _ => []
  | h :: hs, rest => (h, v) :: if stops h then [] else (if hs = [] then rest else runH v hs rest)

/-- router.go `next`: scan the stack in order, run the first matching route's handlers; `mt` is
what `Route.match` computes from the fields it reads (for one fixed request) -/
def run : List Route → List (Nat × V)
  | [] => []
  | r :: rs =>
    match mt r.use r.pretty r.written r.path r.params with
    | none => run rs
    | some v => runH stops v r.handlers (run rs)

/-- the same chain over per-handler entries -/
def runE : List Obs → List (Nat × V)
  | [] => []
  | e :: es =>
    match mt e.use e.pretty e.written e.path e.params with
    | none => runE es
    | some v => (e.hid, v) :: if stops e.hid then [] else runE es

theorem runE_route_none (r : Route) (hs : List Nat) (es : List Obs)
    (h : mt r.use r.pretty r.written r.path r.params = none) :
    runE mt stops (hs.map (fun x => (⟨r.use, r.pretty, r.written, r.path, r.params, x⟩ : Obs)) ++ es) = runE mt stops es := by
  induction hs with
  | nil => rfl
  | cons x t ih => simp only [List.map_cons, List.cons_append, runE, h]; exact ih

theorem runE_route_some (r : Route) (v : V) (hs : List Nat) (es : List Obs) (hne : hs ≠ [])
    (h : mt r.use r.pretty r.written r.path r.params = some v) :
    runE mt stops (hs.map (fun x => (⟨r.use, r.pretty, r.written, r.path, r.params, x⟩ : Obs)) ++ es)
      = runH stops v hs (runE mt stops es) := by
  induction hs with
  | nil => exact absurd rfl hne
  | cons x t ih =>
    simp only [List.map_cons, List.cons_append, runE, h, runH]
    by_cases ht : t = []
    · subst ht; simp
    · simp only [ht, if_false]; rw [ih ht]

/-- A table whose routes all have handlers runs the same chain as its per-handler entries: merged
routes and consecutive identical routes are indistinguishable. -/
theorem run_eq_runE (l : List Route) (hne : ∀ r ∈ l, r.handlers ≠ []) :
    run mt stops l = runE mt stops (expandObs l) := by
  induction l with
  | nil => rfl
  | cons r rs ih =>
    have ih' := ih (fun x hx => hne x (List.mem_cons_of_mem _ hx))
    have he : expandObs (r :: rs) =
        r.handlers.map (fun x => (⟨r.use, r.pretty, r.written, r.path, r.params, x⟩ : Obs)) ++ expandObs rs := by
      simp [expandObs]
    rw [he]
    simp only [run]
    cases hm : mt r.use r.pretty r.written r.path r.params with
    | none => rw [runE_route_none mt stops r _ _ hm]; exact ih'
    | some v => rw [runE_route_some mt stops r v _ _ (hne r (by simp)) hm, ih']

end


/-! ### every route has a handler when every registration has one -/

mutual
/-- every `Add`/`Use` of the tree passes at least one handler (the public API panics otherwise) -/
def wfItem : Item → Bool
  | .route _ _ hs => !hs.isEmpty
  | .use _ hs => !hs.isEmpty
  | .group _ _ items => wfItems items
  | .mount _ _ sub => wfItems sub
def wfItems : List Item → Bool
  | [] => true
  | i :: is => wfItem i && wfItems is
end

def SlotsNE (l : List Slot) : Prop :=
  (∀ r, Slot.route r ∈ l → r.handlers ≠ []) ∧
  (∀ raw pre sub, Slot.mount raw pre sub ∈ l → ∀ k, ∀ r ∈ sub k, r.handlers ≠ [])

def StNE (st : St) : Prop := ∀ k, SlotsNE (st.stacks k)

theorem slotsNE_pushRoute {l : List Slot} {r : Route} (c : Nat) (hl : SlotsNE l) (hr : r.handlers ≠ []) :
    SlotsNE (pushRoute l r c).1 := by
  unfold pushRoute
  split
  · rename_i p t
    by_cases h : p.raw = r.raw ∧ (p.orig == []) = (r.orig == []) ∧ p.use = r.use
    · rw [if_pos h]
      constructor
      · intro x hx
        rcases List.mem_cons.mp hx with hx | hx
        · injection hx with hx; subst hx
          intro e
          exact hr (List.append_eq_nil_iff.mp e).2
        · exact hl.1 x (List.mem_cons_of_mem _ hx)
      · intro raw pre sub hx
        rcases List.mem_cons.mp hx with hx | hx
        · cases hx
        · exact hl.2 raw pre sub (List.mem_cons_of_mem _ hx)
    · rw [if_neg h]
      constructor
      · intro x hx
        rcases List.mem_cons.mp hx with hx | hx
        · injection hx with hx; subst hx; exact hr
        · exact hl.1 x hx
      · intro raw pre sub hx
        rcases List.mem_cons.mp hx with hx | hx
        · cases hx
        · exact hl.2 raw pre sub hx
  · constructor
    · intro x hx
      rcases List.mem_cons.mp hx with hx | hx
      · injection hx with hx; subst hx; exact hr
      · exact hl.1 x hx
    · intro raw pre sub hx
      rcases List.mem_cons.mp hx with hx | hx
      · cases hx
      · exact hl.2 raw pre sub hx

theorem stNE_addRoute (m : Nat) {r : Route} {st : St} (hs : StNE st) (hr : r.handlers ≠ []) :
    StNE (addRoute m r st) := by
  intro k
  unfold addRoute
  by_cases h : k = m
  · subst h; simp only [if_true]; exact slotsNE_pushRoute _ (hs k) hr
  · simp only [h, if_false]; exact hs k

theorem stNE_regMany (ms : List Nat) {r : Route} {st : St} (hs : StNE st) (hr : r.handlers ≠ []) :
    StNE (regMany ms r st) := by
  induction ms generalizing st with
  | nil => exact hs
  | cons m ms ih => exact ih (stNE_addRoute m hs hr)

theorem stNE_foldl_addMount (ms : List Nat) (raw pre : Bytes) (sub : Nat → List Route) {st : St}
    (hs : StNE st) (hsub : ∀ k, ∀ r ∈ sub k, r.handlers ≠ []) :
    StNE (ms.foldl (fun st m => addMount m raw pre sub st) st) := by
  induction ms generalizing st with
  | nil => exact hs
  | cons m ms ih =>
    apply ih
    intro k
    unfold addMount
    by_cases h : k = m
    · subst h
      simp only [if_true]
      constructor
      · intro x hx
        rcases List.mem_cons.mp hx with hx | hx
        · cases hx
        · exact (hs k).1 x hx
      · intro raw' pre' sub' hx
        rcases List.mem_cons.mp hx with hx | hx
        · injection hx with h1 h2 h3; subst h3; exact hsub
        · exact (hs k).2 raw' pre' sub' hx
    · simp only [h, if_false]; exact hs k

theorem ne_splice (cfg : Cfg) (po : Bytes → List Bytes) (k : Nat) {l : List Slot} (h : SlotsNE l) :
    ∀ r ∈ splice cfg po k l, r.handlers ≠ [] := by
  induction l with
  | nil => intro r hr; cases hr
  | cons s t ih =>
    have ht : SlotsNE t := ⟨fun r hr => h.1 r (List.mem_cons_of_mem _ hr),
      fun raw pre sub hr => h.2 raw pre sub (List.mem_cons_of_mem _ hr)⟩
    cases s with
    | route x =>
      intro r hr
      simp only [splice] at hr
      rcases List.mem_cons.mp hr with rfl | hr
      · exact h.1 r (by simp)
      · exact ih ht r hr
    | mount raw pre sub =>
      intro r hr
      simp only [splice, List.mem_append, List.mem_map] at hr
      rcases hr with ⟨x, hx, rfl⟩ | hr
      · exact h.2 raw pre sub (by simp) k x hx
      · exact ih ht r hr

theorem ne_renum (c : Nat) {l : List Route} (h : ∀ r ∈ l, r.handlers ≠ []) :
    ∀ r ∈ renum c l, r.handlers ≠ [] := by
  induction l generalizing c with
  | nil => intro r hr; cases hr
  | cons x t ih =>
    intro r hr
    simp only [renum] at hr
    rcases List.mem_cons.mp hr with rfl | hr
    · exact h x (by simp)
    · exact ih (c + 1) (fun r hr => h r (List.mem_cons_of_mem _ hr)) r hr

theorem ne_finish (cfg : Cfg) (po : Bytes → List Bytes) {st : St} (h : StNE st) (k : Nat) :
    ∀ r ∈ finish cfg po st k, r.handlers ≠ [] := by
  have hsl : SlotsNE (st.stacks k).reverse :=
    ⟨fun r hr => (h k).1 r (List.mem_reverse.mp hr), fun raw pre sub hr => (h k).2 raw pre sub (List.mem_reverse.mp hr)⟩
  unfold finish
  by_cases hm : st.mounted = true
  · simp only [hm, if_true]; exact ne_renum _ (ne_splice cfg po k hsl)
  · simp only [hm, Bool.false_eq_true, if_false]; exact ne_splice cfg po k hsl

theorem stNE_init : StNE St.init := by
  intro k
  constructor
  · intro r h; cases h
  · intro raw pre sub h; cases h

mutual
theorem stNE_buildItem (cfg : Cfg) (po : Bytes → List Bytes) (c : Option Bytes) :
    ∀ (i : Item) (st : St), wfItem i = true → StNE st → StNE (buildItem cfg po c i st)
  | .route ms p hs, st, hw, h => by
    simp only [buildItem]
    apply stNE_regMany _ h
    simp only [wfItem, Bool.not_eq_true', List.isEmpty_eq_false_iff] at hw
    exact hw
  | .use p hs, st, hw, h => by
    simp only [buildItem]
    apply stNE_regMany _ h
    simp only [wfItem, Bool.not_eq_true', List.isEmpty_eq_false_iff] at hw
    exact hw
  | .group p hs items, st, hw, h => by
    simp only [buildItem]
    simp only [wfItem] at hw
    apply stNE_buildItems cfg po _ items _ hw
    by_cases hh : hs = []
    · simp [hh]; exact h
    · simp only [hh, if_false]; exact stNE_regMany _ h hh
  | .mount p scfg sub, st, hw, h => by
    simp only [buildItem]
    simp only [wfItem] at hw
    intro k
    exact stNE_foldl_addMount allMethods _ _ _ h
      (ne_finish scfg po (stNE_buildItems scfg po none sub St.init hw stNE_init)) k
theorem stNE_buildItems (cfg : Cfg) (po : Bytes → List Bytes) (c : Option Bytes) :
    ∀ (is : List Item) (st : St), wfItems is = true → StNE st → StNE (buildItems cfg po c is st)
  | [], st, _, h => by simpa [buildItems] using h
  | i :: is, st, hw, h => by
    simp only [buildItems]
    simp only [wfItems, Bool.and_eq_true] at hw
    exact stNE_buildItems cfg po c is _ hw.2 (stNE_buildItem cfg po c i st hw.1 h)
end

theorem ne_flatten (cfg : Cfg) (po : Bytes → List Bytes) (items : List Item) (hw : wfItems items = true) (k : Nat) :
    ∀ r ∈ flatten cfg po items k, r.handlers ≠ [] :=
  ne_finish cfg po (stNE_buildItems cfg po none items St.init hw stNE_init) k

mutual
theorem wf_unmountItem : ∀ (i : Item), wfItem i = true → wfItem (unmountItem i) = true
  | .route _ _ _, h => by simpa [unmountItem] using h
  | .use _ _, h => by simpa [unmountItem] using h
  | .group _ _ items, h => by
    simp only [unmountItem, wfItem] at h ⊢; exact wf_unmountItems items h
  | .mount _ _ sub, h => by
    simp only [unmountItem, wfItem] at h ⊢; exact wf_unmountItems sub h
theorem wf_unmountItems : ∀ (is : List Item), wfItems is = true → wfItems (unmountItems is) = true
  | [], _ => by simp [unmountItems, wfItems]
  | i :: is, h => by
    simp only [unmountItems, wfItems, Bool.and_eq_true] at h ⊢
    exact ⟨wf_unmountItem i h.1, wf_unmountItems is h.2⟩
end

end C04
