import FiberModel.C04.Model
/-
C04 — algebra of `trimRight`, `ensureSlash`, `getGroupPath`, `mountPath`, `rawOf`, `prettyOf`.
-/
namespace C04
open B

/-! ### `trimRight` by structural recursion -/

/-- `trimRight · c` by recursion on the list -/
def trimR (c : Nat) : Bytes → Bytes
  | [] => []
  | x :: t =>
    match trimR c t with
    | [] => if x == c then [] else [x]
    | r => x :: r

theorem trimRight_cons (x : Nat) (t : Bytes) (c : Nat) :
    trimRight (x :: t) c =
      if trimRight t c = [] then (if x == c then [] else [x]) else x :: trimRight t c := by
  unfold trimRight
  rw [List.reverse_cons, List.dropWhile_append]
  by_cases h : (List.dropWhile (fun y => y == c) t.reverse).isEmpty
  · have h' : List.dropWhile (fun y => y == c) t.reverse = [] := List.isEmpty_iff.mp h
    simp only [h, if_true, h', List.reverse_nil]
    by_cases hx : (x == c) = true
    · simp [hx]
    · simp [hx]
  · have h' : List.dropWhile (fun y => y == c) t.reverse ≠ [] := fun e => h (by simp [e])
    simp only [h, Bool.false_eq_true, if_false, List.reverse_append, List.reverse_cons, List.reverse_nil,
      List.nil_append, List.singleton_append]
    have : (List.dropWhile (fun y => y == c) t.reverse).reverse ≠ [] := by simpa using h'
    simp [this]

theorem trimRight_eq_trimR (s : Bytes) (c : Nat) : trimRight s c = trimR c s := by
  induction s with
  | nil => simp [trimRight, trimR]
  | cons x t ih =>
    rw [trimRight_cons, ih]
    simp only [trimR]
    cases h : trimR c t with
    | nil => simp
    | cons a r => simp

@[simp] theorem trimR_nil (c : Nat) : trimR c [] = [] := rfl

theorem trimR_cons (c x : Nat) (t : Bytes) :
    trimR c (x :: t) = if trimR c t = [] then (if x == c then [] else [x]) else x :: trimR c t := by
  simp only [trimR]
  cases h : trimR c t with
  | nil => simp
  | cons a r => simp

theorem trimR_eq_nil {c : Nat} {s : Bytes} : trimR c s = [] ↔ ∀ x ∈ s, x = c := by
  induction s with
  | nil => simp
  | cons x t ih =>
    rw [trimR_cons]
    by_cases ht : trimR c t = []
    · simp only [ht, if_true]
      by_cases hx : x = c
      · simp only [hx, beq_self_eq_true, if_true, true_iff]
        intro y hy
        rcases List.mem_cons.mp hy with rfl | hy
        · rfl
        · exact ih.mp ht y hy
      · simp [hx]
    · simp only [ht, if_false]
      constructor
      · intro h; cases h
      · intro h
        exact absurd (ih.mpr (fun y hy => h y (List.mem_cons_of_mem _ hy))) ht

theorem trimR_append (c : Nat) (s t : Bytes) :
    trimR c (s ++ t) = if trimR c t = [] then trimR c s else s ++ trimR c t := by
  induction s with
  | nil => by_cases h : trimR c t = [] <;> simp [h]
  | cons x s ih =>
    rw [List.cons_append, trimR_cons, ih]
    by_cases ht : trimR c t = []
    · simp only [ht, if_true]
      rw [trimR_cons]
    · simp only [ht, if_false]
      have : s ++ trimR c t ≠ [] := by
        intro h; exact ht (List.append_eq_nil_iff.mp h).2
      simp [this]

theorem trimR_idem (c : Nat) (s : Bytes) : trimR c (trimR c s) = trimR c s := by
  induction s with
  | nil => rfl
  | cons x t ih =>
    rw [trimR_cons]
    by_cases ht : trimR c t = []
    · simp only [ht, if_true]
      by_cases hx : (x == c) = true
      · simp [hx]
      · simp [hx, trimR_cons]
    · simp only [ht, if_false]
      rw [trimR_cons, ih]
      simp [ht]

theorem trimR_append_single (c : Nat) (s : Bytes) : trimR c (s ++ [c]) = trimR c s := by
  rw [trimR_append]; simp [trimR_cons]

/-- a non-empty trimmed string starts like the string -/
theorem trimR_head (c : Nat) (s : Bytes) (h : trimR c s ≠ []) : (trimR c s).head? = s.head? := by
  cases s with
  | nil => simp at h
  | cons x t =>
    rw [trimR_cons] at h ⊢
    by_cases ht : trimR c t = []
    · simp only [ht, if_true] at h ⊢
      by_cases hx : (x == c) = true
      · simp [hx] at h
      · simp [hx]
    · simp [ht]

theorem lowerByte_eq_slash (x : Nat) : (lowerByte x == 47) = (x == 47) := by
  unfold lowerByte isUpper
  by_cases h : (65 ≤ x && x ≤ 90) = true
  · simp only [h, if_true]
    simp only [Bool.and_eq_true, decide_eq_true_eq] at h
    have h1 : (x + 32 == 47) = false := by simp; omega
    have h2 : (x == 47) = false := by simp; omega
    rw [h1, h2]
  · simp [h]

theorem trimR_toLower (s : Bytes) : trimR 47 (toLower s) = toLower (trimR 47 s) := by
  induction s with
  | nil => rfl
  | cons x t ih =>
    have hc : toLower (x :: t) = lowerByte x :: toLower t := rfl
    rw [hc, trimR_cons, trimR_cons, ih]
    have hnil : (toLower (trimR 47 t) = []) ↔ (trimR 47 t = []) := by simp [toLower]
    by_cases ht : trimR 47 t = []
    · simp only [ht, if_true, lowerByte_eq_slash]
      have e0 : toLower ([] : Bytes) = [] := rfl
      simp only [e0, if_true]
      by_cases hx : (x == 47) = true
      · simp [hx, toLower]
      · simp [hx, toLower]
    · have : toLower (trimR 47 t) ≠ [] := fun e => ht (hnil.mp e)
      simp [ht, this, toLower]

/-! ### ensureSlash -/

theorem ensureSlash_nil : ensureSlash [] = [47] := rfl

theorem ensureSlash_cons (x : Nat) (t : Bytes) :
    ensureSlash (x :: t) = if x = 47 then x :: t else 47 :: x :: t := by
  by_cases h : x = 47
  · subst h; rfl
  · simp only [h, if_false]
    unfold ensureSlash
    split
    · rename_i heq; simp at heq; exact absurd heq.1 h
    · rfl

theorem ensureSlash_ne_nil (p : Bytes) : ensureSlash p ≠ [] := by
  cases p with
  | nil => simp [ensureSlash_nil]
  | cons x t => rw [ensureSlash_cons]; by_cases h : x = 47 <;> simp [h]

theorem ensureSlash_head (p : Bytes) : (ensureSlash p).head? = some 47 := by
  cases p with
  | nil => rfl
  | cons x t => rw [ensureSlash_cons]; by_cases h : x = 47 <;> simp [h]

theorem ensureSlash_of_head {p : Bytes} (h : p.head? = some 47) : ensureSlash p = p := by
  cases p with
  | nil => simp at h
  | cons x t => simp at h; subst h; rfl

theorem ensureSlash_idem (p : Bytes) : ensureSlash (ensureSlash p) = ensureSlash p :=
  ensureSlash_of_head (ensureSlash_head p)

theorem ensureSlash_append {a : Bytes} (h : a ≠ []) (b : Bytes) :
    ensureSlash (a ++ b) = ensureSlash a ++ b := by
  cases a with
  | nil => exact absurd rfl h
  | cons x t =>
    rw [List.cons_append, ensureSlash_cons, ensureSlash_cons]
    by_cases hx : x = 47 <;> simp [hx]

/-- trimming commutes with adding the leading slash, when something is left after trimming -/
theorem trimR_ensureSlash {p : Bytes} (h : trimR 47 p ≠ []) :
    trimR 47 (ensureSlash p) = ensureSlash (trimR 47 p) := by
  cases p with
  | nil => simp at h
  | cons x t =>
    rw [ensureSlash_cons]
    by_cases hx : x = 47
    · simp only [hx, if_true]
      have hh := trimR_head 47 (x :: t) h
      rw [hx] at hh
      exact (ensureSlash_of_head (by simpa using hh)).symm
    · simp only [hx, if_false]
      have hh := trimR_head 47 (x :: t) h
      rw [trimR_cons 47 47]
      simp only [h, if_false]
      cases hr : trimR 47 (x :: t) with
      | nil => exact absurd hr h
      | cons y r =>
        rw [hr] at hh
        simp at hh
        subst hh
        rw [ensureSlash_cons]; simp [hx]

/-! ### getGroupPath -/

theorem ggp_def (pre path : Bytes) :
    getGroupPath pre path = if path = [] then pre else trimR 47 pre ++ ensureSlash path := by
  unfold getGroupPath; rw [trimRight_eq_trimR]

@[simp] theorem ggp_nil_right (pre : Bytes) : getGroupPath pre [] = pre := by simp [ggp_def]

theorem ggp_of_ne {pre path : Bytes} (h : path ≠ []) :
    getGroupPath pre path = trimR 47 pre ++ ensureSlash path := by simp [ggp_def, h]

theorem ggp_eq_nil {pre path : Bytes} : getGroupPath pre path = [] ↔ pre = [] ∧ path = [] := by
  by_cases h : path = []
  · simp [h]
  · rw [ggp_of_ne h]
    simp [h, ensureSlash_ne_nil]

theorem ggp_nil_left {path : Bytes} (h : path ≠ []) : getGroupPath [] path = ensureSlash path := by
  rw [ggp_of_ne h]; simp

/-- `getGroupPath` is associative: nesting groups composes prefixes the way nesting the prefixed
paths does. (mount.go relies on it: `mount` computes `getGroupPath(k1, getGroupPath(k2, k3))`,
`appendSubAppLists` computes `getGroupPath(getGroupPath(k1, k2), k3)` for the same sub-app.) -/
theorem getGroupPath_assoc (a p c : Bytes) :
    getGroupPath (getGroupPath a p) c = getGroupPath a (getGroupPath p c) := by
  by_cases hc : c = []
  · simp [hc]
  · by_cases hp : p = []
    · subst hp
      rw [ggp_nil_right, ggp_nil_left hc, ggp_of_ne hc, ggp_of_ne (ensureSlash_ne_nil c), ensureSlash_idem]
    · have hpc : getGroupPath p c ≠ [] := fun e => hc (ggp_eq_nil.mp e).2
      rw [ggp_of_ne hc, ggp_of_ne hp, ggp_of_ne hpc, ggp_of_ne hc, trimR_append]
      by_cases ht : trimR 47 p = []
      · -- p consists of slashes only
        have hes : ensureSlash p = p := by
          cases p with
          | nil => exact absurd rfl hp
          | cons x t =>
            have := (trimR_eq_nil.mp ht) x (by simp)
            subst this; rfl
        rw [hes, ht]
        simp only [if_true, List.nil_append, trimR_idem, ensureSlash_idem]
      · have h1 : trimR 47 (ensureSlash p) = ensureSlash (trimR 47 p) := trimR_ensureSlash ht
        have h2 : trimR 47 (ensureSlash p) ≠ [] := by rw [h1]; exact ensureSlash_ne_nil _
        simp only [h2, if_false]
        rw [h1, ensureSlash_append ht, List.append_assoc]

example : getGroupPath (getGroupPath (b "/api/") (b "v1/")) (b "x") = b "/api/v1/x" ∧
    getGroupPath (b "/api/") (getGroupPath (b "v1/") (b "x")) = b "/api/v1/x" := by decide

theorem ggp_slash_right (pre : Bytes) : getGroupPath pre [47] = trimR 47 pre ++ [47] := by
  rw [ggp_of_ne (by simp)]; rfl

/-! ### regPath -/

theorem regPath_ggp (c : Option Bytes) (p x : Bytes) :
    getGroupPath (regPath c p) x = regPath c (getGroupPath p x) := by
  cases c with
  | none => rfl
  | some g => simp only [regPath]; exact getGroupPath_assoc g p x

theorem regPath_eq_nil {c : Option Bytes} {x : Bytes} (h : regPath c x = []) : x = [] := by
  cases c with
  | none => exact h
  | some g => exact (ggp_eq_nil.mp h).2

/-! ### mountPath / the placeholder's Path -/

theorem mountPath_def (f : Bytes) : mountPath f = if trimR 47 f = [] then [47] else trimR 47 f := by
  unfold mountPath; rw [trimRight_eq_trimR]

/-- `TrimRight` of the placeholder's Path (what `getGroupPath` keeps of it) -/
theorem trimR_placeholder (f : Bytes) :
    trimR 47 (rawOf (mountPath f)) = if trimR 47 f = [] then [] else ensureSlash (trimR 47 f) := by
  rw [mountPath_def]
  by_cases h : trimR 47 f = []
  · simp [h, rawOf, ensureSlash, trimR_cons]
  · simp only [h, if_false, rawOf]
    rw [trimR_ensureSlash (by rw [trimR_idem]; exact h), trimR_idem]

/-- Prefixing a sub-app route (Path `rawOf x`, `x` non-empty) with the placeholder's Path gives the
Path `register` computes for the same route under a group with the mount prefix. -/
theorem mount_prefix_eq_group {f x : Bytes} (hx : x ≠ []) :
    getGroupPath (rawOf (mountPath f)) (rawOf x) = rawOf (getGroupPath f x) := by
  have hx' : rawOf x ≠ [] := ensureSlash_ne_nil x
  rw [ggp_of_ne hx', trimR_placeholder, ggp_of_ne hx]
  simp only [rawOf, ensureSlash_idem]
  by_cases h : trimR 47 f = []
  · simp [h, ensureSlash_idem]
  · simp only [h, if_false]
    rw [ensureSlash_append h]

example : getGroupPath (rawOf (mountPath (b "/API/"))) (rawOf (b "x")) = b "/API/x" ∧
    rawOf (getGroupPath (b "/API/") (b "x")) = b "/API/x" := by decide

/-- the sub-app's "/" under the placeholder = the Path of `prefix + "/"` -/
theorem mount_prefix_root (f : Bytes) :
    getGroupPath (rawOf (mountPath f)) [47] = rawOf (getGroupPath f [47]) := by
  have := mount_prefix_eq_group (f := f) (x := [47]) (by simp)
  simpa [rawOf, ensureSlash] using this

/-! ### what the matcher reads depends on the Path only up to trailing slashes (non-strict) -/

theorem trimR_length_le (c : Nat) (s : Bytes) : (trimR c s).length ≤ s.length := by
  induction s with
  | nil => simp
  | cons x t ih =>
    rw [trimR_cons]
    by_cases ht : trimR c t = []
    · simp only [ht, if_true]
      by_cases hx : (x == c) = true <;> simp [hx]
    · simp [ht]; omega

/-- a string of length ≤ 1 with a non-empty trim is its own trim -/
theorem trimR_of_short {s : Bytes} (hl : s.length ≤ 1) (h : trimR 47 s ≠ []) : trimR 47 s = s := by
  cases s with
  | nil => simp at h
  | cons x t =>
    cases t with
    | nil =>
      rw [trimR_cons] at h ⊢
      simp only [trimR_nil, if_true] at h ⊢
      by_cases hx : (x == 47) = true
      · simp [hx] at h
      · simp [hx]
    | cons y u => simp at hl

theorem prettyOf_nonstrict {cfg : Cfg} (hs : cfg.strict = false) {raw : Bytes} (h : trimR 47 raw ≠ []) :
    prettyOf cfg raw = (if cfg.caseSensitive then trimR 47 raw else toLower (trimR 47 raw)) := by
  unfold prettyOf
  simp only [hs, Bool.not_false, Bool.true_and]
  by_cases hcs : cfg.caseSensitive = true
  · simp only [hcs, if_true]
    by_cases hl : raw.length > 1
    · simp [hl, trimRight_eq_trimR]
    · simp only [hl, decide_false, Bool.false_eq_true, if_false]
      exact (trimR_of_short (by omega) h).symm
  · simp only [hcs, Bool.false_eq_true, if_false]
    have hll : (toLower raw).length = raw.length := toLower_length raw
    by_cases hl : raw.length > 1
    · simp [hll, hl, trimRight_eq_trimR, trimR_toLower]
    · simp only [hll, hl, decide_false, Bool.false_eq_true, if_false]
      rw [trimR_of_short (by omega) h]


/-! ### the path as handed to `register`, up to what `getGroupPath` and `register` read of it -/

/-- canonical form of a registration path: `getGroupPath` and `register` only look at whether it is
empty and, if not, at the path with its leading slash -/
def canon (o : Bytes) : Bytes := if o = [] then [] else rawOf o

theorem canon_nil : canon [] = [] := rfl

theorem canon_of_ne {o : Bytes} (h : o ≠ []) : canon o = rawOf o := by simp [canon, h]

theorem canon_eq_nil {o : Bytes} : canon o = [] ↔ o = [] := by
  by_cases h : o = []
  · simp [h, canon]
  · simp [canon, h, rawOf, ensureSlash_ne_nil]

theorem rawOf_canon (o : Bytes) : rawOf (canon o) = rawOf o := by
  by_cases h : o = []
  · simp [h, canon]
  · rw [canon_of_ne h]; exact ensureSlash_idem o

theorem ggp_canon (pre o : Bytes) : getGroupPath pre (canon o) = getGroupPath pre o := by
  by_cases h : o = []
  · simp [h, canon]
  · have hr : rawOf o ≠ [] := ensureSlash_ne_nil o
    rw [canon_of_ne h, ggp_of_ne h, ggp_of_ne hr]
    simp only [rawOf, ensureSlash_idem]

theorem canon_idem (o : Bytes) : canon (canon o) = canon o := by
  by_cases h : o = []
  · simp [h, canon]
  · rw [canon_of_ne (fun e => h (canon_eq_nil.mp e)), rawOf_canon, canon_of_ne h]

example : canon (b "x") = b "/x" ∧ canon (b "") = b "" ∧ canon (b "/") = b "/" := by decide

end C04
