import FiberModel.C04.MoreLemmas
import FiberModel.C04.Compose
import FiberModel.C04.Refuse
/-
C04 — property theorems. `flatten` is the model of what the repaired code builds (register,
addRoute's merge, mount placeholders, processSubAppsRoutes' splice / addPrefixToRoute / renumbering);
`flattenSpec` registers the same definition tree with every mount replaced by a group with the mount
prefix at the same position. All statements are for every definition tree (any nesting of apps,
groups and mounts, mounts from groups, any prefixes and paths — empty ones included), every routing
configuration of the root and of the sub-apps, every opaque parser `po`, and every method index
`k < nMethods`.

THE PROPERTY AT TABLE LEVEL (full strength, no region excluded, no assumption on the parser):

    theorem mount_eq_group (cfg po items) (k) (hk : k < nMethods) :
        expandObs (flatten cfg po items k) = expandObs (flattenSpec cfg po items k)

Until the repair F5 (known/C04.json) this was `mount_eq_group_partial`, proved only outside the
known finding K1 (empty-path registration inside a mounted app under StrictRouting or a slashes-only
prefix) and under an assumption on the parser (`TrailInv`); `mount_eq_group_fixed_K1_witness` shows
the statement on K1's former witness. The composition with the real matcher / dispatcher models of
C01–C03 is in `Compose.lean`.
-/
namespace C04
open B Known

/-! ### getGroupPath algebra (the `friends` of `getGroupPath_assoc`, which is in PathLemmas) -/

/-- a group at the app's top level and the same prefix spelled into the path register the same Path -/
theorem getGroupPath_rawOf (g p : Bytes) (hp : p ≠ []) :
    rawOf (getGroupPath g p) = getGroupPath (rawOf (mountPath g)) (rawOf p) :=
  (mount_prefix_eq_group hp).symm

/-- nesting three levels either way -/
theorem getGroupPath_assoc₃ (a p c d : Bytes) :
    getGroupPath (getGroupPath (getGroupPath a p) c) d = getGroupPath a (getGroupPath p (getGroupPath c d)) := by
  rw [getGroupPath_assoc, getGroupPath_assoc]

example : getGroupPath (getGroupPath [] (b "api/")) (b "") = b "/api/" ∧
    getGroupPath (b "/") (b "x") = b "/x" ∧ getGroupPath (b "/a//") (b "/") = b "/a/" := by decide

/-! ### mounting = grouping -/

/-- Paths: the two compositions hold, per method and per handler, the very same (use, Path, handler)
entries in the same order. Full strength: every tree, no assumption on the configuration or the
parser. -/
theorem mount_eq_group_paths (cfg : Cfg) (po : Bytes → List Bytes) (items : List Item)
    (k : Nat) (hk : k < nMethods) :
    expand (flatten cfg po items k) = expand (flattenSpec cfg po items k) :=
  flatten_expand_eq cfg po items k hk

/-- The property at table level: for every method, the mounted composition and the group
composition hold — handler by handler, in order — routes that agree on everything `Route.match`
reads (use flag, parsed pattern and the text its constraints are read from, clean path, parameter keys). -/
theorem mount_eq_group (cfg : Cfg) (po : Bytes → List Bytes) (items : List Item)
    (k : Nat) (hk : k < nMethods) :
    expandObs (flatten cfg po items k) = expandObs (flattenSpec cfg po items k) := by
  rw [expandObs_eq (routeOK_flatten cfg po items k), mount_eq_group_paths cfg po items k hk]
  exact (expandObs_eq (routeOK_flatten cfg po (unmountItems items) k)).symm

/-- A sub-app's own routing configuration (CaseSensitive, StrictRouting — the model's `scfg`) is not
used for its routes once it is mounted: `addPrefixToRoute` re-prettifies and re-parses every clone
with the PARENT's configuration. Two trees that differ only in sub-app configurations (they unmount to
the same tree) serve tables that agree on everything the matcher reads. -/
theorem subapp_config_irrelevant (cfg : Cfg) (po : Bytes → List Bytes) (items items' : List Item)
    (h : unmountItems items = unmountItems items') (k : Nat) (hk : k < nMethods) :
    expandObs (flatten cfg po items k) = expandObs (flatten cfg po items' k) := by
  rw [mount_eq_group cfg po items k hk, mount_eq_group cfg po items' k hk]
  unfold flattenSpec
  rw [h]

example : unmountItems [.mount (b "/API") ⟨true, true⟩ [.route [0] (b "/X/") [1]]] =
    unmountItems [.mount (b "/API") ⟨false, false⟩ [.route [0] (b "/X/") [1]]] := rfl

/-- params of the witnesses below: no parameters anywhere -/
def noParams : Bytes → List Bytes := fun _ => []

/-- non-vacuity: a nested tree with a parameterised and an upper-case prefix, a mount from a group,
empty paths inside mounted apps, a StrictRouting root — inside the former K1 region -/
def sampleTree : List Item :=
  [.use [] [1],
   .group (b "/V1/") [2] [.mount (b ":tenant") ⟨true, true⟩
      [.use [] [3], .route [0] (b "x") [4, 5], .mount (b "/deep/") ⟨false, false⟩ [.route [0, 2] [] [6]]]],
   .route [0] (b "/v1/:tenant/x") [7]]

example : F5region ⟨false, true⟩ sampleTree = true := by decide

/-- the sub-app's path-less middleware (handler 3) sits at the mount prefix itself, and the
path-less route of the nested app (handler 6) at its prefix as given, trailing slash included -/
example : (expand (flatten ⟨false, true⟩ noParams sampleTree 0)).map (fun e => (e.2.1, e.2.2)) =
    [(b "/", 1), (b "/V1/", 2), (b "/V1/:tenant", 3), (b "/V1/:tenant/x", 4), (b "/V1/:tenant/x", 5),
     (b "/V1/:tenant/deep/", 6), (b "/v1/:tenant/x", 7)] := by decide

example : (expand (flattenSpec ⟨false, true⟩ noParams sampleTree 0)).map (fun e => (e.2.1, e.2.2)) =
    [(b "/", 1), (b "/V1/", 2), (b "/V1/:tenant", 3), (b "/V1/:tenant/x", 4), (b "/V1/:tenant/x", 5),
     (b "/V1/:tenant/deep/", 6), (b "/v1/:tenant/x", 7)] := by decide

/-- K1's former witness (known/C04.json, F5): StrictRouting, `root.Use("/api", sub)`, `sub.Get("", h1)` -/
def witnessK1 : List Item := [.mount (b "/api") ⟨false, false⟩ [.route [0] [] [1]]]

example : F5region ⟨false, true⟩ witnessK1 = true := by decide

/-- on the former witness both compositions now hold the one route "/api" (before F5 the mounted
one was "/api/") -/
theorem mount_eq_group_fixed_K1_witness :
    expandObs (flatten ⟨false, true⟩ noParams witnessK1 0) = [⟨false, b "/api", b "/api", b "/api", [], 1⟩] ∧
    expandObs (flattenSpec ⟨false, true⟩ noParams witnessK1 0) = [⟨false, b "/api", b "/api", b "/api", [], 1⟩] := by
  decide

/-- "" and "/" registered one after the other in a mounted app stay two routes (`addRoute` does not
merge them), as under a group: "/api" and "/api/" -/
example : (flatten ⟨false, true⟩ noParams [.mount (b "/api") ⟨false, false⟩ [.route [0] [] [1], .route [0] (b "/") [2]]] 0).map
      (fun r => (r.raw, r.handlers)) = [(b "/api", [1]), (b "/api/", [2])] ∧
    (flattenSpec ⟨false, true⟩ noParams [.mount (b "/api") ⟨false, false⟩ [.route [0] [] [1], .route [0] (b "/") [2]]] 0).map
      (fun r => (r.raw, r.handlers)) = [(b "/api", [1]), (b "/api/", [2])] := by decide

/-! ### groups / `Route(path)` = spelling the full path -/

/-- Registering through groups (and, read as groups with empty relative paths, through `Route(path)`
registers) builds exactly the same table — same routes, same merges, same positions — as the
group-free tree in which every path is spelled out in full; this holds inside mounted sub-apps too. -/
theorem group_eq_full_path (cfg : Cfg) (po : Bytes → List Bytes) (items : List Item) :
    flatten cfg po items = flatten cfg po (spellItems none items) ∧
    groupFree (spellItems none items) = true := by
  refine ⟨?_, groupFree_spellItems none items⟩
  unfold flatten
  rw [buildItems_spell]

example : spellItems none [.group (b "/api/") [1] [.group (b "v1") [] [.route [0] (b "x") [2]], .use [] [3]]] =
    [.use (b "/api/") [1], .route [0] (b "/api/v1/x") [2], .use (b "/api/") [3]] := by
  simp [spellItems, spellItem, regPath]; decide

/-! ### the table that is served -/

/-- positions are strictly increasing along every stack (after `processSubAppsRoutes`' renumbering
for an app with mounts, by registration order otherwise): `buildTree`'s sort by `pos` keeps the
stack order inside every bucket -/
theorem flatten_pos_sorted (cfg : Cfg) (po : Bytes → List Bytes) (items : List Item) (k : Nat) :
    ((flatten cfg po items k).map (·.pos)).Pairwise (· < ·) :=
  flatten_pos_sorted' cfg po items k

/-- every route of the table carries the fields `register` derives from its Path — in particular
the mounted routes' parameter keys, parser, and root/star shortcuts (the repaired defects F1–F3) —
and its Path is its registration path normalised as `register` normalises it (F5) -/
theorem flatten_fields (cfg : Cfg) (po : Bytes → List Bytes) (items : List Item) (k : Nat) :
    ∀ r ∈ flatten cfg po items k,
      r.pretty = prettyOf cfg r.raw ∧ r.path = cleanOf cfg r.raw ∧ r.params = po r.raw ∧
      r.root = (cleanOf cfg r.raw == [47]) ∧ r.star = (prettyOf cfg r.raw == [47, 42]) ∧
      r.raw = rawOf r.orig ∧ r.written = writtenOf cfg r.raw :=
  routeOK_flatten cfg po items k

/-- Equal answers for an abstract matcher: for any matcher that reads what `Route.match` reads and
any handler behaviour (which handlers call Next), both compositions run the same chain — the same
handlers with the same match results in the same order — for every request and method.
(`Compose.lean` instantiates the matcher with C02's model of `Route.match`.) -/
theorem mount_answers_eq {V : Type} (mt : Bool → Bytes → Bytes → Bytes → List Bytes → Option V) (stops : Nat → Bool)
    (cfg : Cfg) (po : Bytes → List Bytes) (items : List Item) (hwf : wfItems items = true)
    (k : Nat) (hk : k < nMethods) :
    run mt stops (flatten cfg po items k) = run mt stops (flattenSpec cfg po items k) := by
  have e1 := run_eq_runE mt stops _ (ne_flatten cfg po items hwf k)
  have e2 : run mt stops (flattenSpec cfg po items k) = runE mt stops (expandObs (flattenSpec cfg po items k)) :=
    run_eq_runE mt stops _ (ne_flatten cfg po (unmountItems items) (wf_unmountItems items hwf) k)
  rw [e1, e2, mount_eq_group cfg po items k hk]

example : wfItems sampleTree = true := by decide

/-! ### equal answers under the modelled matcher (C02) and dispatcher (C01) -/

/-- Equal answers under C02's model of `Route.match`: with the opaque parser instantiated by
C02's `parseRoute` and the abstract matcher by C02's `routeMatch` (on every served route it is
`routeMatch` of the route C02's `register` builds: `mtC02_eq_routeMatch`, `register_bridge`), both
compositions run the same handlers with the same parameter values, in the same order, for every
request `(det, path)`, every constraint checker and every handler behaviour. -/
theorem mount_answers_eq_C02 (chk : C02.Constraint → Bytes → Bool) (det path : Bytes) (stops : Nat → Bool)
    (cfg : Cfg) (items : List Item) (hwf : wfItems items = true) (k : Nat) (hk : k < nMethods) :
    run (mtC02 chk det path) stops (flatten cfg poC02 items k) =
      run (mtC02 chk det path) stops (flattenSpec cfg poC02 items k) :=
  mount_answers_eq (mtC02 chk det path) stops cfg poC02 items hwf k hk

/-- every route either composition serves is matched as C02's `register`ed route is matched -/
theorem served_route_is_registered (chk : C02.Constraint → Bytes → Bool) (cfg : Cfg) (ue : Bool) (det path : Bytes)
    (items : List Item) (k : Nat) (r : Route) (hr : r ∈ flatten cfg poC02 items k)
    (r2 : C02.Route) (h2 : C02.register (cfg2 cfg ue) r.use r.orig = some r2) :
    r2.pathRaw = r.raw ∧ r2.params = r.params ∧
    mtC02 chk det path r.use r.pretty r.written r.path r.params = C02.routeMatch chk r2 det path := by
  have hok := routeOK_flatten cfg poC02 items k r hr
  obtain ⟨hb, hp⟩ := register_bridge cfg ue r hok
  have h3 := h2
  rw [hb] at h3
  refine ⟨?_, hp r2 h3, mtC02_eq_routeMatch chk cfg ue det path r hok r2 h2⟩
  unfold toC02 at h3
  split at h3
  · cases h3; rfl
  · cases h3

/-- The property for the modelled router end to end: C01's dispatcher with C02's matcher and
`buildTree`'s bucket key, run on the table the mounted composition serves, answers every request
exactly as C01's model of the group composition — same handler trace, same end (reply, handler
error, 404, or 405 with the same Allow set) — and both meet C01's specification `linear`. No
locality hypothesis is left: it is `local_keyC02` (`C02.match_same_bucket`). Remaining hypotheses:
every registration has a handler and lists no method twice (the public API's own preconditions /
C01's `WFReg`), handlers do not override path or method (C01's `dispatch_refines_linear`). -/
theorem mount_dispatch_eq_group_C02 {α : Type} (chk : C02.Constraint → Bytes → Bool) (cfg : Cfg) (ue : Bool)
    (setp : Bytes × Bytes → α → Option (Bytes × Bytes)) (scr : Nat → C01.Script α)
    (hscr : ∀ i, (scr i).isOverride = false) (po : Bytes → List Bytes) (items : List Item)
    (hwf : wfItems items = true) (hnd : nodupMs items = true) (m : Nat) (hm : m < nMethods) (p : Bytes × Bytes) :
    C01.dispatchS (envC02 chk cfg ue setp) (stacksOfTable scr (keyC02 cfg ue) (flatten cfg po items)) false
        (stacksOfTable scr (keyC02 cfg ue) (flatten cfg po items) : C01.Stacks α).fuel m p =
      C01.dispatch (envC02 chk cfg ue setp) (regsItems scr (keyC02 cfg ue) none items) m p ∧
    C01.dispatch (envC02 chk cfg ue setp) (regsItems scr (keyC02 cfg ue) none items) m p =
      .ok (C01.linear (envC02 chk cfg ue setp) (regsItems scr (keyC02 cfg ue) none items) m p) :=
  mount_dispatch_eq_group scr (keyC02 cfg ue) (envC02 chk cfg ue setp) rfl hscr
    (local_keyC02 chk cfg ue setp) cfg po items hwf hnd m hm p

/-- non-vacuity: the hypotheses hold for the sample trees … -/
example : wfItems sampleTree = true ∧ nodupMs sampleTree = true ∧ hasMountTop sampleTree = true ∧
    wfItems witnessK1 = true ∧ nodupMs witnessK1 = true ∧ hasMountTop witnessK1 = true := by decide

/-- handler 1 replies, every other handler calls `Next` -/
def scrEx (i : Nat) : C01.Script Bytes := if i = 1 then .stop else .next

example : ∀ i, (scrEx i).isOverride = false := by
  intro i; unfold scrEx; split <;> rfl

/-- … and the two runs are what they should be on the former K1 witness (C01's example matcher:
literal routes match their own text): `GET /api` is answered by handler 1, `GET /api/` is a 404 -/
example :
    C01.dispatch C01.Ex.E (regsItems scrEx (fun _ => 0) none witnessK1) 0 (b "/api") = .ok ⟨[1], .stop⟩ ∧
    C01.dispatchS C01.Ex.E (stacksOfTable scrEx (fun _ => 0) (flatten ⟨false, true⟩ noParams witnessK1)) false 2 0
      (b "/api") = .ok ⟨[1], .stop⟩ ∧
    C01.dispatchS C01.Ex.E (stacksOfTable scrEx (fun _ => 0) (flatten ⟨false, true⟩ noParams witnessK1)) false 2 0
      (b "/api/") = .ok ⟨[], .notFound⟩ := by decide

/-- the locality hypothesis is not vacuous for the real key rule: a route in a 3-byte bucket -/
example : keyC02 ⟨false, false⟩ false (b "/api/x") = 47 * 65536 + 97 * 256 + 112 := by decide

/-- "Refused at startup" is part of answering alike: whatever paths `register` / `addPrefixToRoute`
refuse (`rf`: any predicate on the registered Path — in the code "more than `maxParams` parameters"),
the mounted composition would hold a refused route iff the group composition would. Full strength:
every tree, config, parser, guard. (From `mount_eq_group_paths`: identical Paths per handler.) -/
theorem refused_mount_iff_group (rf : Bytes → Bool) (cfg : Cfg) (po : Bytes → List Bytes) (items : List Item) :
    refused rf (flatten cfg po items) = refused rf (flattenSpec cfg po items) := by
  unfold refused refusedAt
  apply any_congr_mem
  intro k hk
  rw [mount_eq_group_paths cfg po items k (List.mem_range.mp hk)]

/-- the guard of the code as an instance: Paths with more than `n` parameters (code: n = 30) -/
theorem refused_mount_iff_group_maxParams (n : Nat) (cfg : Cfg) (po : Bytes → List Bytes) (items : List Item) :
    refused (fun p => decide ((po p).length > n)) (flatten cfg po items) =
      refused (fun p => decide ((po p).length > n)) (flattenSpec cfg po items) :=
  refused_mount_iff_group _ cfg po items

/-- non-vacuity: on the sample tree a guard that refuses one of its Paths refuses both compositions,
a guard that refuses nothing refuses neither -/
example : refused (fun p => p == ((flatten ⟨false, false⟩ noParams sampleTree 0).map (·.raw)).headD []) (flatten ⟨false, false⟩ noParams sampleTree) = true ∧
    refused (fun p => p == ((flatten ⟨false, false⟩ noParams sampleTree 0).map (·.raw)).headD []) (flattenSpec ⟨false, false⟩ noParams sampleTree) = true ∧
    refused (fun _ => false) (flatten ⟨false, false⟩ noParams sampleTree) = false := by decide

end C04
