import FiberModel.C04.MoreLemmas
/-
C04 — property theorems. `flatten` is the model of what the repaired code builds (register,
addRoute's merge, mount placeholders, processSubAppsRoutes' splice / addPrefixToRoute / renumbering);
`flattenSpec` registers the same definition tree with every mount replaced by a group with the mount
prefix at the same position. All statements are for every definition tree (any nesting of apps,
groups and mounts, mounts from groups, any prefixes and paths), every routing configuration of the
root and of the sub-apps, every opaque parser `po`, and every method index `k < nMethods`.

FULL STATEMENT (what the property sentence says; false on the code as it stands, see K1):

    theorem mount_eq_group (cfg po items) (k) (hk : k < nMethods) :
        expandObs (flatten cfg po items k) = expandObs (flattenSpec cfg po items k)

Proved:
  * `mount_eq_group_paths`    — full strength on Paths for every tree outside `emptyDisagrees`
                                 (no empty-path registration at a prefix not ending in one slash);
  * `mount_eq_group_partial`  — the full statement under `K1 cfg items = false` (+ the parser's
                                 indifference to trailing slashes);
  * `mount_eq_group_witness_K1` — the full statement is false on the recorded witness.
-/
namespace C04
open B Known

/-! ### getGroupPath algebra (the `friends` of `getGroupPath_assoc`, which is in PathLemmas) -/

/-- a group at the app's top level and the same prefix spelled into the path register the same Path -/
theorem getGroupPath_rawOf (g p : Bytes) (hp : p ≠ []) :
    rawOf (getGroupPath g p) = getGroupPath (rawOf (mountPath g)) (rawOf p) :=
  (mount_prefix_eq_group hp).symm

/-- nesting three levels either way -/
theorem getGroupPath_assoc₃ (a p c d : Bytes) :
    getGroupPath (getGroupPath (getGroupPath a p) c) d = getGroupPath a (getGroupPath p (getGroupPath c d)) := by
  rw [getGroupPath_assoc, getGroupPath_assoc]

example : getGroupPath (getGroupPath [] (b "api/")) (b "") = b "/api/" ∧
    getGroupPath (b "/") (b "x") = b "/x" ∧ getGroupPath (b "/a//") (b "/") = b "/a/" := by decide

/-! ### mounting = grouping -/

/-- Paths: outside the empty-path corner the two compositions hold, per method and per handler, the
very same (use, Path, handler) entries in the same order. Full strength on that domain: no
assumption on the configuration or the parser. -/
theorem mount_eq_group_paths (cfg : Cfg) (po : Bytes → List Bytes) (items : List Item)
    (hdom : emptyDisagrees items = false) (k : Nat) (hk : k < nMethods) :
    expand (flatten cfg po items k) = expand (flattenSpec cfg po items k) := by
  have h := flatten_rel (fun a b => a = b) (fun S => !emptyAgree S) (fun _ => rfl)
    (fun S hS => emptyAgree_eq (by simpa using hS)) cfg po items k hk hdom
  have := h.map_eq (f := id) (g := id) (fun x y hxy => by
    obtain ⟨h1, h2, h3⟩ := hxy
    exact Prod.ext h1 (Prod.ext h3 h2))
  simpa using this

/-- same, for everything the matcher reads (a corollary: those fields are functions of the Path) -/
theorem mount_eq_group_paths_obs (cfg : Cfg) (po : Bytes → List Bytes) (items : List Item)
    (hdom : emptyDisagrees items = false) (k : Nat) (hk : k < nMethods) :
    expandObs (flatten cfg po items k) = expandObs (flattenSpec cfg po items k) := by
  rw [expandObs_eq (routeOK_flatten cfg po items k), mount_eq_group_paths cfg po items hdom k hk]
  exact (expandObs_eq (routeOK_flatten cfg po (unmountItems items) k)).symm

/-- The property, outside the region of the known finding K1: for every method, the mounted
composition and the group composition hold — handler by handler, in order — routes that agree on
everything `Route.match` reads (use flag, parsed pattern, clean path, parameter keys). -/
theorem mount_eq_group_partial (cfg : Cfg) (po : Bytes → List Bytes) (items : List Item)
    (hpo : TrailInv po) (hK : K1 cfg items = false) (k : Nat) (hk : k < nMethods) :
    expandObs (flatten cfg po items k) = expandObs (flattenSpec cfg po items k) := by
  have h := flatten_rel (RawRel cfg) (badPrefix cfg) (fun _ => Or.inl rfl)
    (rawRel_of_not_bad cfg) cfg po items k hk hK
  rw [expandObs_eq (routeOK_flatten cfg po items k),
    show expandObs (flattenSpec cfg po items k) = (expand (flattenSpec cfg po items k)).map (obsOf cfg po) from
      expandObs_eq (routeOK_flatten cfg po (unmountItems items) k)]
  exact h.map_eq (fun _ _ hxy => obsOf_eq_of_rawRel hpo hxy)

/-- params of the witnesses below: no parameters anywhere -/
def noParams : Bytes → List Bytes := fun _ => []

theorem trailInv_noParams : TrailInv noParams := fun _ _ _ _ => rfl

/-- non-vacuity: a nested tree with a parameterised and an upper-case prefix, a mount from a group, an
empty path under a non-strict root — K1 does not fire, `emptyDisagrees` does -/
def sampleTree : List Item :=
  [.use [] [1],
   .group (b "/V1/") [2] [.mount (b ":tenant") ⟨true, true⟩
      [.use [] [3], .route [0] (b "x") [4, 5], .mount (b "/deep/") ⟨false, false⟩ [.route [0, 2] [] [6]]]],
   .route [0] (b "/v1/:tenant/x") [7]]

example : K1 ⟨false, false⟩ sampleTree = false ∧ emptyDisagrees sampleTree = true := by decide

example : (expand (flatten ⟨false, false⟩ noParams sampleTree 0)).map (fun e => (e.2.1, e.2.2)) =
    [(b "/", 1), (b "/V1/", 2), (b "/V1/:tenant/", 3), (b "/V1/:tenant/x", 4), (b "/V1/:tenant/x", 5),
     (b "/V1/:tenant/deep/", 6), (b "/v1/:tenant/x", 7)] := by decide

/-- in the group composition the sub-app's middleware is stored as "/V1/:tenant" (mounted:
"/V1/:tenant/"), yet both agree on what the matcher reads -/
example : (expand (flattenSpec ⟨false, false⟩ noParams sampleTree 0)).map (fun e => (e.2.1, e.2.2)) =
    [(b "/", 1), (b "/V1/", 2), (b "/V1/:tenant", 3), (b "/V1/:tenant/x", 4), (b "/V1/:tenant/x", 5),
     (b "/V1/:tenant/deep/", 6), (b "/v1/:tenant/x", 7)] := by decide

/-- K1's witness (known/C04.json): StrictRouting, `root.Use("/api", sub)`, `sub.Get("", h1)` -/
def witnessK1 : List Item := [.mount (b "/api") ⟨false, false⟩ [.route [0] [] [1]]]

example : K1 ⟨false, true⟩ witnessK1 = true := by decide

/-- the full statement fails on the witness: the mounted route is "/api/", the grouped one "/api" -/
theorem mount_eq_group_witness_K1 :
    ¬ (expandObs (flatten ⟨false, true⟩ noParams witnessK1 0) =
       expandObs (flattenSpec ⟨false, true⟩ noParams witnessK1 0)) := by decide

/-- the same tree without StrictRouting is outside K1 and the theorem applies -/
example : K1 ⟨false, false⟩ witnessK1 = false := by decide

/-! ### groups / `Route(path)` = spelling the full path -/

/-- Registering through groups (and, read as groups with empty relative paths, through `Route(path)`
registers) builds exactly the same table — same routes, same merges, same positions — as the
group-free tree in which every path is spelled out in full; this holds inside mounted sub-apps too. -/
theorem group_eq_full_path (cfg : Cfg) (po : Bytes → List Bytes) (items : List Item) :
    flatten cfg po items = flatten cfg po (spellItems none items) ∧
    groupFree (spellItems none items) = true := by
  refine ⟨?_, groupFree_spellItems none items⟩
  unfold flatten
  rw [buildItems_spell]

example : spellItems none [.group (b "/api/") [1] [.group (b "v1") [] [.route [0] (b "x") [2]], .use [] [3]]] =
    [.use (b "/api/") [1], .route [0] (b "/api/v1/x") [2], .use (b "/api/") [3]] := by
  simp [spellItems, spellItem, regPath]; decide

/-! ### the table that is served -/

/-- positions are strictly increasing along every stack (after `processSubAppsRoutes`' renumbering
for an app with mounts, by registration order otherwise): `buildTree`'s sort by `pos` keeps the
stack order inside every bucket -/
theorem flatten_pos_sorted (cfg : Cfg) (po : Bytes → List Bytes) (items : List Item) (k : Nat) :
    ((flatten cfg po items k).map (·.pos)).Pairwise (· < ·) :=
  flatten_pos_sorted' cfg po items k

/-- every route of the table carries the fields `register` derives from its Path — in particular
the mounted routes' parameter keys, parser, and root/star shortcuts (the three repaired defects) -/
theorem flatten_fields (cfg : Cfg) (po : Bytes → List Bytes) (items : List Item) (k : Nat) :
    ∀ r ∈ flatten cfg po items k,
      r.pretty = prettyOf cfg r.raw ∧ r.path = cleanOf cfg r.raw ∧ r.params = po r.raw ∧
      r.root = (cleanOf cfg r.raw == [47]) ∧ r.star = (prettyOf cfg r.raw == [47, 42]) :=
  routeOK_flatten cfg po items k

/-- Equal answers: for any matcher that reads what `Route.match` reads and any handler behaviour
(which handlers call Next), both compositions run the same chain — the same handlers with the same
match results in the same order — for every request and method, outside K1. -/
theorem mount_answers_eq {V : Type} (mt : Bool → Bytes → Bytes → List Bytes → Option V) (stops : Nat → Bool)
    (cfg : Cfg) (po : Bytes → List Bytes) (items : List Item) (hwf : wfItems items = true)
    (hpo : TrailInv po) (hK : K1 cfg items = false) (k : Nat) (hk : k < nMethods) :
    run mt stops (flatten cfg po items k) = run mt stops (flattenSpec cfg po items k) := by
  have e1 := run_eq_runE mt stops _ (ne_flatten cfg po items hwf k)
  have e2 : run mt stops (flattenSpec cfg po items k) = runE mt stops (expandObs (flattenSpec cfg po items k)) :=
    run_eq_runE mt stops _ (ne_flatten cfg po (unmountItems items) (wf_unmountItems items hwf) k)
  rw [e1, e2, mount_eq_group_partial cfg po items hpo hK k hk]

example : wfItems sampleTree = true := by decide

end C04
