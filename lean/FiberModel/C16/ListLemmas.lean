import FiberModel.C16.Model
/-
C16 — helper lemmas about byte lists: `indexOf` (strings.Index), `trim`, association lists
(`lookup`, `put`, `erase`).
-/
namespace C16
open B

/-! ## `indexOf` -/

theorem isPrefixOf_append_self (p s : Bytes) : p.isPrefixOf (p ++ s) = true := by
  rw [List.isPrefixOf_iff_prefix]; exact List.prefix_append p s

/-- `strings.Index` finds an occurrence: the string splits around the pattern at the returned offset. -/
theorem indexOf_split (s pat : Bytes) (i : Nat) (h : indexOf s pat = some i) :
    ∃ p r, s = p ++ pat ++ r ∧ p.length = i := by
  induction s generalizing i with
  | nil =>
    unfold indexOf at h
    split at h
    · rename_i he
      have : pat = [] := by simpa using he
      subst this
      refine ⟨[], [], by simp, ?_⟩
      simpa using h
    · simp at h
  | cons x xs ih =>
    unfold indexOf at h
    split at h
    · rename_i hp
      rw [List.isPrefixOf_iff_prefix] at hp
      obtain ⟨r, hr⟩ := hp
      refine ⟨[], r, by simp [hr], ?_⟩
      simpa using h
    · cases hx : indexOf xs pat with
      | none => simp [hx] at h
      | some j =>
        simp [hx] at h
        obtain ⟨p, r, hs, hl⟩ := ih j hx
        exact ⟨x :: p, r, by simp [hs], by simp [hl, h]⟩

/-- … and it is the first one. -/
theorem indexOf_le (pat : Bytes) (p r : Bytes) :
    ∃ j, indexOf (p ++ pat ++ r) pat = some j ∧ j ≤ p.length := by
  induction p with
  | nil =>
    simp only [List.nil_append, List.length_nil, Nat.le_zero_eq]
    cases h : pat ++ r with
    | nil =>
      have : pat = [] := by
        cases pat <;> simp_all
      subst this
      exact ⟨0, by simp [indexOf], rfl⟩
    | cons x xs =>
      refine ⟨0, ?_, rfl⟩
      unfold indexOf
      have : pat.isPrefixOf (x :: xs) = true := by rw [← h]; exact isPrefixOf_append_self pat r
      simp [this]
  | cons a p ih =>
    obtain ⟨j, hj, hle⟩ := ih
    simp only [List.cons_append, List.length_cons]
    unfold indexOf
    split
    · exact ⟨0, rfl, by omega⟩
    · refine ⟨j + 1, ?_, by omega⟩
      simp only [List.append_assoc] at hj
      simp [hj]

theorem indexOf_min (s pat p r : Bytes) (i : Nat) (h : indexOf s pat = some i) (hs : s = p ++ pat ++ r) :
    i ≤ p.length := by
  obtain ⟨j, hj, hle⟩ := indexOf_le pat p r
  rw [← hs, h] at hj
  cases hj
  exact hle

/-! ## splitting at the first occurrence of a byte -/

/-- Two decompositions `a ++ c :: x = s ++ c :: y` with `c` in neither `a` nor `s` coincide. -/
theorem split_at_first (c : Nat) (a s x y : Bytes) (ha : c ∉ a) (hs : c ∉ s)
    (h : a ++ c :: x = s ++ c :: y) : a = s ∧ x = y := by
  induction a generalizing s with
  | nil =>
    cases s with
    | nil => simpa using h
    | cons z zs =>
      simp at h
      exact absurd h.1 (by intro e; subst e; simp at hs)
  | cons w ws ih =>
    cases s with
    | nil =>
      simp at h
      exact absurd h.1 (by intro e; subst e; simp at ha)
    | cons z zs =>
      simp at h
      obtain ⟨h1, h2⟩ := h
      subst h1
      have := ih zs (by simp at ha; exact ha.2) (by simp at hs; exact hs.2) h2
      exact ⟨by rw [this.1], this.2⟩

/-! ## association lists -/

theorem erase_cons_eq {α} (s : List (Bytes × α)) (k : Bytes) (v : α) : erase ((k, v) :: s) k = erase s k := by
  simp [erase]

theorem erase_cons_ne {α} (s : List (Bytes × α)) (k k0 : Bytes) (v : α) (h : k0 ≠ k) :
    erase ((k0, v) :: s) k = (k0, v) :: erase s k := by
  simp [erase, h]

theorem lookup_erase_self {α} (s : List (Bytes × α)) (k : Bytes) : lookup (erase s k) k = none := by
  induction s with
  | nil => rfl
  | cons e s ih =>
    obtain ⟨k0, v⟩ := e
    by_cases h : k0 = k
    · subst h; rw [erase_cons_eq]; exact ih
    · rw [erase_cons_ne s k k0 v h]; simp [lookup, h, ih]

theorem lookup_erase_ne {α} (s : List (Bytes × α)) (k k' : Bytes) (h : k' ≠ k) :
    lookup (erase s k) k' = lookup s k' := by
  induction s with
  | nil => rfl
  | cons e s ih =>
    obtain ⟨k0, v⟩ := e
    by_cases h0 : k0 = k
    · subst h0
      rw [erase_cons_eq, ih]
      have : ¬ k0 = k' := fun e => h e.symm
      simp [lookup, this]
    · rw [erase_cons_ne s k k0 v h0]; simp [lookup, ih]

theorem lookup_put_self {α} (s : List (Bytes × α)) (k : Bytes) (v : α) : lookup (put s k v) k = some v := by
  simp [put, lookup]

theorem lookup_put_ne {α} (s : List (Bytes × α)) (k k' : Bytes) (v : α) (h : k' ≠ k) :
    lookup (put s k v) k' = lookup s k' := by
  simp only [put, lookup]
  have : (k = k') = False := by simp; exact fun e => h e.symm
  simp [this, lookup_erase_ne s k k' h]

theorem lookup_put {α} (s : List (Bytes × α)) (k k' : Bytes) (v : α) :
    lookup (put s k v) k' = if k' = k then some v else lookup s k' := by
  by_cases h : k' = k
  · subst h; simp [lookup_put_self]
  · simp [h, lookup_put_ne s k k' v h]

theorem lookup_erase {α} (s : List (Bytes × α)) (k k' : Bytes) :
    lookup (erase s k) k' = if k' = k then none else lookup s k' := by
  by_cases h : k' = k
  · subst h; simp [lookup_erase_self]
  · simp [h, lookup_erase_ne s k k' h]

theorem lookup_mem {α} (s : List (Bytes × α)) (k : Bytes) (v : α) (h : lookup s k = some v) : (k, v) ∈ s := by
  induction s with
  | nil => simp [lookup] at h
  | cons e s ih =>
    obtain ⟨k0, v0⟩ := e
    simp only [lookup] at h
    split at h
    · rename_i hk
      cases h; subst hk; simp
    · exact List.mem_cons_of_mem _ (ih h)

/-- keys of an association list built with `put`/`erase` are distinct -/
def keysNodup {α} (s : List (Bytes × α)) : Prop := (s.map (·.1)).Nodup

theorem keysNodup_erase {α} (s : List (Bytes × α)) (k : Bytes) (h : keysNodup s) : keysNodup (erase s k) := by
  unfold keysNodup erase at *
  induction s with
  | nil => simp
  | cons e s ih =>
    simp only [List.map_cons, List.nodup_cons] at h
    simp only [List.filter_cons]
    split
    · simp only [List.map_cons, List.nodup_cons]
      refine ⟨?_, ih h.2⟩
      intro hm
      apply h.1
      simp only [List.mem_map] at hm ⊢
      obtain ⟨a, ha, hae⟩ := hm
      exact ⟨a, (List.mem_filter.mp ha).1, hae⟩
    · exact ih h.2

theorem not_mem_keys_erase {α} (s : List (Bytes × α)) (k : Bytes) : k ∉ (erase s k).map (·.1) := by
  unfold erase
  simp only [List.mem_map, List.mem_filter]
  rintro ⟨a, ⟨_, ha⟩, hk⟩
  simp [hk] at ha

theorem keysNodup_put {α} (s : List (Bytes × α)) (k : Bytes) (v : α) (h : keysNodup s) : keysNodup (put s k v) := by
  unfold put keysNodup
  simp only [List.map_cons, List.nodup_cons]
  exact ⟨not_mem_keys_erase s k, keysNodup_erase s k h⟩

theorem mem_lookup {α} (s : List (Bytes × α)) (k : Bytes) (v : α) (hn : keysNodup s) (h : (k, v) ∈ s) :
    lookup s k = some v := by
  induction s with
  | nil => simp at h
  | cons e s ih =>
    obtain ⟨k0, v0⟩ := e
    unfold keysNodup at hn
    simp only [List.map_cons, List.nodup_cons] at hn
    simp only [lookup]
    rcases List.mem_cons.mp h with he | hm
    · cases he; simp
    · have : k0 ≠ k := by
        intro e; subst e
        exact hn.1 (List.mem_map.mpr ⟨(k0, v), hm, rfl⟩)
      simp [this, ih hn.2 hm]

end C16
