import FiberModel.C16.Sim
/-
C16 — what sits in front of / around the token logic: `Config.ErrorHandler` (the status the client
sees when the middleware turns a request away), `Config.Next`, the attributes of the csrf cookie.
-/
set_option linter.unusedVariables false

namespace C16
open B

/-- `finishTail` turns a request away only because the store failed -/
theorem tail_status (cfg : Cfg) (sgen : Nat → Bytes) (q : Req) (c : Ctx) (token : Bytes)
    (hp : (finishTail cfg sgen q c token).2.pass = false) :
    (finishTail cfg sgen q c token).2.status = cfg.eh .storage := by
  unfold finishTail at hp ⊢
  rcases hsr : setRaw cfg sgen q c token with ⟨c', err⟩
  rw [hsr] at hp
  simp only at hp ⊢
  by_cases h1 : (err && !isSafe q.method) = true
  · rw [if_pos h1]
  · rw [if_neg h1] at hp
    by_cases h2 : q.del = true
    · rw [if_pos h2] at hp
      by_cases h3 : q.ck = []
      · rw [if_pos h3] at hp; cases hp
      · rw [if_neg h3] at hp
        rcases hdr : delRaw cfg sgen q c' q.ck with ⟨c'', e⟩
        rw [hdr] at hp
        cases e <;> cases hp
    · rw [if_neg h2] at hp; cases hp

/-- a request the middleware turns away is answered by the ErrorHandler: the status is the one it
    produces for some error -/
theorem handleCore_reject_status (cfg : Cfg) (gen sgen : Nat → Bytes) (st : St) (q : Req)
    (hp : (handleCore cfg gen sgen st q).2.pass = false) :
    ∃ e, (handleCore cfg gen sgen st q).2.status = cfg.eh e := by
  rcases hd : decide' cfg sgen q (ctx0 cfg sgen st q) with ⟨c1, d⟩
  cases d with
  | reject e er =>
    rw [handle_reject cfg gen sgen st q c1 e er hd]
    exact ⟨er, rfl⟩
  | proceed tok =>
    rcases hf : finish cfg gen sgen q c1 tok with ⟨c2, r2⟩
    rw [handle_proceed cfg gen sgen st q c1 c2 tok r2 hd hf] at hp ⊢
    have hp' : r2.pass = false := hp
    refine ⟨.storage, ?_⟩
    show r2.status = _
    by_cases htok : tok = []
    · subst htok
      rw [finish_fresh] at hf
      have := tail_status cfg sgen q _ _ (by rw [hf]; exact hp')
      rw [hf] at this
      exact this
    · rw [finish_kept _ _ _ _ _ _ htok] at hf
      have := tail_status cfg sgen q _ _ (by rw [hf]; exact hp')
      rw [hf] at this
      exact this

theorem handleSkip_resp (cfg : Cfg) (sgen : Nat → Bytes) (st : St) (q : Req) :
    (handleSkip cfg sgen st q).2.pass = true ∧ (handleSkip cfg sgen st q).2.ck = none ∧
    (handleSkip cfg sgen st q).2.status = 200 := ⟨rfl, rfl, rfl⟩


/-- with the gate shut an unsafe request is turned away at once, whatever the state (token store,
    sessions, clock, earlier requests) -/
theorem handleCore_gate_shut (cfg : Cfg) (gen sgen : Nat → Bytes) (st : St) (q : Req)
    (hu : isSafe q.method = false) (hg : originGate cfg q = false) :
    (handleCore cfg gen sgen st q).2.pass = false ∧ (handleCore cfg gen sgen st q).2.status = cfg.eh (gateErr cfg q) ∧
    (handleCore cfg gen sgen st q).2.ck = none := by
  have hd : decide' cfg sgen q (ctx0 cfg sgen st q) = (ctx0 cfg sgen st q, .reject false (gateErr cfg q)) := by
    unfold decide'
    simp [hu, hg]
  rw [handle_reject cfg gen sgen st q _ false _ hd]
  exact ⟨rfl, rfl, rfl⟩

end C16
