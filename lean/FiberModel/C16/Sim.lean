import FiberModel.C16.OriginLemmas
/-
C16 — simulation: the invariant tying a model state to a specification state, and the lemmas the
per-request refinement proofs are assembled from.
-/
namespace C16
open B

/-- the specification's issued set is what the key generator handed out so far -/
def IssuedOK (gen : Nat → Bytes) (ntok : Nat) (issued : List Bytes) : Prop :=
  ∀ t, t ∈ issued ↔ ∃ i, i < ntok ∧ gen i = t

/-- storage back-end: every stored token was issued and is live in the specification at least as
    long -/
def StoreOK (gen : Nat → Bytes) (idle ntok now : Nat) (store : List (Bytes × Nat))
    (live : List (Bytes × LiveTok)) : Prop :=
  ∀ k d, lookup store k = some d →
    (∃ i, i < ntok ∧ gen i = k) ∧ d ≤ now + idle ∧ ∃ l, lookup live k = some l ∧ d ≤ l.deadline

theorem issuedOK_append (gen : Nat → Bytes) (n : Nat) (issued : List Bytes) (h : IssuedOK gen n issued) :
    IssuedOK gen (n + 1) (issued ++ [gen n]) := by
  intro t
  simp only [List.mem_append, List.mem_singleton]
  constructor
  · rintro (h' | h')
    · obtain ⟨i, hi, he⟩ := (h t).mp h'
      exact ⟨i, by omega, he⟩
    · exact ⟨n, by omega, h'.symm⟩
  · rintro ⟨i, hi, he⟩
    by_cases hin : i < n
    · exact Or.inl ((h t).mpr ⟨i, hin, he⟩)
    · have : i = n := by omega
      subst this
      exact Or.inr he.symm

theorem storeOK_mono (gen : Nat → Bytes) (idle n n' now now' : Nat) (store live)
    (h : StoreOK gen idle n now store live) (hn : n ≤ n') (hnow : now ≤ now') :
    StoreOK gen idle n' now' store live := by
  intro k d hk
  obtain ⟨⟨i, hi, he⟩, hd, hl⟩ := h k d hk
  exact ⟨⟨i, by omega, he⟩, by omega, hl⟩

theorem storeOK_put (gen : Nat → Bytes) (idle n now : Nat) (store live) (k : Bytes) (h : Option Bytes)
    (hs : StoreOK gen idle n now store live) (hk : ∃ i, i < n ∧ gen i = k) :
    StoreOK gen idle n now (put store k (now + idle)) (put live k { deadline := now + idle, holder := h }) := by
  intro k' d hl
  rw [lookup_put] at hl
  rw [lookup_put]
  by_cases e : k' = k
  · simp only [e, if_true, Option.some.injEq] at hl ⊢
    subst hl
    exact ⟨hk, Nat.le_refl _, _, rfl, Nat.le_refl _⟩
  · simp only [e, if_false] at hl ⊢
    exact hs k' d hl

/-- the specification (re)starts a token's lifetime, the store does not change -/
theorem storeOK_put_live (gen : Nat → Bytes) (idle n now : Nat) (store live) (k : Bytes) (h : Option Bytes)
    (hs : StoreOK gen idle n now store live) :
    StoreOK gen idle n now store (put live k { deadline := now + idle, holder := h }) := by
  intro k' d hl
  obtain ⟨hi, hd, l, hll, hdl⟩ := hs k' d hl
  refine ⟨hi, hd, ?_⟩
  rw [lookup_put]
  by_cases e : k' = k
  · simp only [e, if_true]
    exact ⟨_, rfl, hd⟩
  · simp only [e, if_false]
    exact ⟨l, hll, hdl⟩

theorem storeOK_erase (gen : Nat → Bytes) (idle n now : Nat) (store live) (k : Bytes)
    (hs : StoreOK gen idle n now store live) :
    StoreOK gen idle n now (erase store k) (erase live k) := by
  intro k' d hl
  rw [lookup_erase] at hl
  rw [lookup_erase]
  by_cases e : k' = k
  · simp [e] at hl
  · simp only [e, if_false] at hl ⊢
    exact hs k' d hl

/-- the store forgets a token, the specification keeps it -/
theorem storeOK_erase_store (gen : Nat → Bytes) (idle n now : Nat) (store live) (k : Bytes)
    (hs : StoreOK gen idle n now store live) :
    StoreOK gen idle n now (C16.erase store k) live := by
  intro k' d hl
  rw [lookup_erase] at hl
  by_cases e : k' = k
  · simp [e] at hl
  · simp only [e, if_false] at hl
    exact hs k' d hl

end C16

namespace C16
open B

/-! ## `finish` = key generation, then the rest -/

theorem finish_kept (cfg : Cfg) (gen sgen : Nat → Bytes) (q : Req) (c : Ctx) (tok : Bytes) (h : tok ≠ []) :
    finish cfg gen sgen q c tok = finishTail cfg sgen q c tok := by
  unfold finish
  simp [h]

theorem finish_fresh (cfg : Cfg) (gen sgen : Nat → Bytes) (q : Req) (c : Ctx) :
    finish cfg gen sgen q c [] =
      finishTail cfg sgen q { c with st := { c.st with ntok := c.st.ntok + 1 }, gens := c.gens ++ [gen c.st.ntok] }
        (gen c.st.ntok) := by
  unfold finish
  simp

/-- the response as `handleCore` assembles it -/
def assemble (c : Ctx) (r : Resp) : Resp :=
  { r with sc := c.sc, gens := c.gens, sgens := c.sgens, fg := c.fg, fs := c.fs, fd := c.fd }

/-- nothing in `c'` that the token bookkeeping looks at differs from `c` -/
def Frame (c c' : Ctx) : Prop := c'.gens = c.gens ∧ c'.st.now = c.st.now ∧ c'.st.ntok = c.st.ntok

theorem Frame.refl (c : Ctx) : Frame c c := ⟨rfl, rfl, rfl⟩
theorem Frame.trans {a b c : Ctx} (h1 : Frame a b) (h2 : Frame b c) : Frame a c :=
  ⟨h2.1.trans h1.1, h2.2.1.trans h1.2.1, h2.2.2.trans h1.2.2⟩

theorem storeGet_frame (sgen : Nat → Bytes) (q : Req) (c : Ctx) : Frame c (storeGet sgen q c).1 := by
  unfold storeGet freshSess
  by_cases h0 : reqSid q c ≠ []
  · rw [if_pos h0]
    by_cases hf : q.failGet = true
    · rw [if_pos hf]; exact ⟨rfl, rfl, rfl⟩
    · rw [if_neg hf]
      cases lookup c.st.sess (reqSid q c) <;> exact ⟨rfl, rfl, rfl⟩
  · rw [if_neg h0]; exact ⟨rfl, rfl, rfl⟩

theorem sessSave_frame (q : Req) (c : Ctx) (id : Bytes) (slot : Option Tok) : Frame c (sessSave q c id slot) := by
  unfold sessSave
  simp only
  split <;> exact ⟨rfl, rfl, rfl⟩

theorem setRaw_frame (cfg : Cfg) (sgen : Nat → Bytes) (q : Req) (c : Ctx) (key : Bytes) :
    Frame c (setRaw cfg sgen q c key).1 := by
  unfold setRaw
  cases cfg.backend <;> simp only
  · split <;> exact ⟨rfl, rfl, rfl⟩
  · have := storeGet_frame sgen q c
    rcases hsg : storeGet sgen q c with ⟨c', r⟩
    rw [hsg] at this
    cases r with
    | none => exact this
    | some p => exact this.trans (sessSave_frame _ _ _ _)
  · split <;> exact ⟨rfl, rfl, rfl⟩

theorem delRaw_frame (cfg : Cfg) (sgen : Nat → Bytes) (q : Req) (c : Ctx) (key : Bytes) :
    Frame c (delRaw cfg sgen q c key).1 := by
  unfold delRaw
  cases cfg.backend <;> simp only
  · split <;> exact ⟨rfl, rfl, rfl⟩
  · have := storeGet_frame sgen q c
    rcases hsg : storeGet sgen q c with ⟨c', r⟩
    rw [hsg] at this
    cases r with
    | none => exact this
    | some p => exact this.trans (sessSave_frame _ _ _ _)
  · split <;> exact ⟨rfl, rfl, rfl⟩

theorem getRaw_frame (cfg : Cfg) (sgen : Nat → Bytes) (q : Req) (c : Ctx) (key : Bytes) :
    Frame c (getRaw cfg sgen q c key).1 := by
  unfold getRaw
  cases cfg.backend <;> simp only
  · split <;> exact ⟨rfl, rfl, rfl⟩
  · have := storeGet_frame sgen q c
    rcases hsg : storeGet sgen q c with ⟨c', r⟩
    rw [hsg] at this
    cases r with
    | none => exact this
    | some p => exact this
  · exact ⟨rfl, rfl, rfl⟩

/-- `finishTail` neither generates tokens nor touches the clock -/
theorem tail_frame (cfg : Cfg) (sgen : Nat → Bytes) (q : Req) (c : Ctx) (token : Bytes) :
    Frame c (finishTail cfg sgen q c token).1 := by
  unfold finishTail
  have h1 := setRaw_frame cfg sgen q c token
  rcases hs : setRaw cfg sgen q c token with ⟨c', err⟩
  rw [hs] at h1
  simp only
  split
  · exact h1
  · split
    · split
      · exact h1
      · have h2 := delRaw_frame cfg sgen q c' q.ck
        rcases hd : delRaw cfg sgen q c' q.ck with ⟨c'', e2⟩
        rw [hd] at h2
        cases e2 <;> exact h1.trans h2
    · exact h1

/-- the request context `handleCore` starts from -/
def ctx0 (cfg : Cfg) (sgen : Nat → Bytes) (st : St) (q : Req) : Ctx :=
  if cfg.backend = .sessMw then mwLoad sgen q { st := st } else { st := st }

/-- … and the one it ends with -/
def ctxEnd (cfg : Cfg) (c : Ctx) : Ctx := if cfg.backend = .sessMw then mwSave c else c

theorem handle_reject (cfg : Cfg) (gen sgen : Nat → Bytes) (st : St) (q : Req) (c1 : Ctx) (e : Bool) (er : Err)
    (hd : decide' cfg sgen q (ctx0 cfg sgen st q) = (c1, .reject e er)) :
    handleCore cfg gen sgen st q =
      ((ctxEnd cfg c1).st, assemble (ctxEnd cfg c1)
        { pass := false, status := cfg.eh er, ck := if e then some [] else none, early := c1.fg || c1.fs || c1.fd }) := by
  unfold handleCore
  unfold ctx0 at hd
  simp only [hd]
  rfl

theorem handle_proceed (cfg : Cfg) (gen sgen : Nat → Bytes) (st : St) (q : Req) (c1 c2 : Ctx) (t : Bytes)
    (r2 : Resp) (hd : decide' cfg sgen q (ctx0 cfg sgen st q) = (c1, .proceed t))
    (hf : finish cfg gen sgen q c1 t = (c2, r2)) :
    handleCore cfg gen sgen st q = ((ctxEnd cfg c2).st, assemble (ctxEnd cfg c2) r2) := by
  unfold handleCore
  unfold ctx0 at hd
  simp only [hd, hf]
  rfl

/-! ## specification-side lemmas -/

theorem specReq_intro (scfg : SpecCfg) (s0 : SpecSt) (q : Req) (o : Obs) (live1 live2 : List (Bytes × LiveTok))
    (h1 : reachClause scfg { s0 with issued := s0.issued ++ o.gens } q o = .ok live1)
    (h2 : (if o.pass then cookieClause scfg { s0 with issued := s0.issued ++ o.gens } q o
              (afterDel scfg q o (afterGens scfg { s0 with issued := s0.issued ++ o.gens } o live1))
           else rejectClause o live1) = .ok live2)
    (h3 : probeSound { now := s0.now, live := live2, issued := s0.issued ++ o.gens } o = true) :
    specReqCore scfg s0 q o = .ok { now := s0.now, live := live2, issued := s0.issued ++ o.gens } := by
  unfold specReqCore
  simp only [h1, h2, h3]
  rfl

/-- the raw value the configured extractor reads -/
def extractV (e : Ext) (q : Req) : Bytes :=
  match e with
  | .header => q.hdr
  | .form => if q.qry ≠ [] then q.qry else q.form
  | .query => q.qry
  | .param => q.param
  | .cookie => q.ck
  | .custom => if q.custom = b "err" then [] else q.custom

theorem extract_eq (e : Ext) (q : Req) :
    extract e q = if extractV e q = [] then none else some (extractV e q) := rfl

theorem extract_some (e : Ext) (q : Req) (t : Bytes) (h : extract e q = some t) : t ≠ [] ∧ extractV e q = t := by
  rw [extract_eq] at h
  split at h
  · simp at h
  · rename_i hne
    simp only [Option.some.injEq] at h
    exact ⟨h ▸ hne, h⟩

theorem accepted_of (scfg : SpecCfg) (s : SpecSt) (q : Req) (t : Bytes)
    (hext : extract scfg.ext q = some t) (hck : t = q.ck) (hl : s.liveAt t = true)
    (hi : s.issued.contains t = true) : acceptedToken scfg s q = some t := by
  obtain ⟨hne, hv⟩ := extract_some _ _ _ hext
  have hck' : q.ck ≠ [] := hck ▸ hne
  have hl' : s.liveAt q.ck = true := hck ▸ hl
  have hi' : s.issued.contains q.ck = true := hck ▸ hi
  unfold acceptedToken presented
  unfold extractV at hv
  cases he : scfg.ext <;> simp only [he] at hv ⊢
  case form =>
    by_cases hq : q.qry = []
    · simp only [hq, ne_eq, not_true_eq_false, if_false] at hv
      subst hv
      simp only [List.find?, hq]
      simp only [List.contains_eq_mem, decide_eq_true_eq] at hi hi'
      simp [hck, hck', hl', hi']
    · simp only [ne_eq, hq, not_false_eq_true, if_true] at hv
      subst hv
      simp only [List.find?]
      simp only [List.contains_eq_mem, decide_eq_true_eq] at hi hi'
      simp [hck, hck', hl', hi']
  case custom =>
    split at hv
    · exact absurd hv.symm hne
    · subst hv
      simp only [List.find?]
      simp only [List.contains_eq_mem, decide_eq_true_eq] at hi hi'
      simp [hck, hck', hl', hi']
  all_goals
    subst hv
    simp only [List.find?]
    simp only [List.contains_eq_mem, decide_eq_true_eq] at hi hi'
    simp [hck, hck', hl', hi']

end C16

namespace C16
open B

/-! ## the token-store probe, storage back-end -/

theorem probeSound_storage (cfg : Cfg) (gen : Nat → Bytes) (st : St) (s : SpecSt) (r : Resp)
    (hb : cfg.backend = .storage) (hi : IssuedOK gen st.ntok s.issued)
    (hs : StoreOK gen cfg.idle st.ntok st.now st.store s.live) (hn : keysNodup st.store) :
    probeSound s (obsOf cfg st r) = true := by
  unfold probeSound obsOf probe
  simp only [hb, List.all_map, List.all_eq_true, Function.comp]
  intro e he
  obtain ⟨k, d⟩ := e
  have hmem : (k, d) ∈ st.store := (List.mem_filter.mp he).1
  have hl := mem_lookup st.store k d hn hmem
  obtain ⟨hiss, _, l, hll, hdl⟩ := hs k d hl
  have : k ∈ s.issued := (hi k).mpr hiss
  simp [this, hll, hdl]

theorem probeHas_storage (cfg : Cfg) (st : St) (r : Resp) (t : Bytes) (d m : Nat)
    (hb : cfg.backend = .storage) (hl : lookup st.store t = some d) (hlive : st.now < d) (hm : m ≤ d) :
    probeHas (obsOf cfg st r) t m = true := by
  unfold probeHas obsOf probe
  simp only [hb, List.any_map, List.any_eq_true, Function.comp]
  refine ⟨(t, d), List.mem_filter.mpr ⟨lookup_mem _ _ _ hl, by simpa using hlive⟩, ?_⟩
  simp [hm]

end C16

namespace C16
open B

/-! ## the cookie clause, by shape of the reply -/

theorem cookie_some (scfg : SpecCfg) (s1 : SpecSt) (q : Req) (o : Obs) (live : List (Bytes × LiveTok))
    (token : Bytes) (hck : o.ck = some token) (hne : token ≠ [])
    (hiss : s1.issued.contains token = true)
    (hkeep : ((token = q.ck && s1.liveAt token) || o.gens.contains token) = true)
    (hsu : scfg.single = true → isSafe q.method = false → o.gens.contains token = true)
    (hprobe : isSafe q.method = true → o.fired = false → probeHas o token (s1.now + scfg.idle) = true) :
    cookieClause scfg s1 q o live =
      .ok (put live token { deadline := s1.now + scfg.idle, holder := o.sc }) := by
  unfold cookieClause
  have hsu' : (scfg.single && !isSafe q.method && decide (token = q.ck) && !o.gens.contains token) = false := by
    cases h1 : scfg.single
    · simp
    · cases h2 : isSafe q.method
      · have := hsu h1 h2
        simp only [List.contains_eq_mem, decide_eq_true_eq] at this
        simp [this]
      · simp
  simp only [hck, hne, if_false, hiss, Bool.not_true, Bool.false_eq_true, hkeep, hsu']
  by_cases h1 : isSafe q.method = true
  · by_cases h2 : o.fired = false
    · simp [h1, h2, hprobe h1 h2]
    · simp only [Bool.not_eq_false] at h2; simp [h2]
  · simp only [Bool.not_eq_true] at h1; simp [h1]

theorem cookie_exp (scfg : SpecCfg) (s1 : SpecSt) (q : Req) (o : Obs) (live : List (Bytes × LiveTok))
    (hck : o.ck = some []) (hdel : q.del = true) :
    cookieClause scfg s1 q o live = .ok live := by
  unfold cookieClause
  simp [hck, hdel]

theorem afterDel_id (scfg : SpecCfg) (q : Req) (o : Obs) (live : List (Bytes × LiveTok))
    (h : q.del = false ∨ q.ck = [] ∨ o.fired = true) : afterDel scfg q o live = live := by
  unfold afterDel
  rcases h with h | h | h <;> simp [h]

end C16
