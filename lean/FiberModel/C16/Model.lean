import FiberModel.Basic
import FiberModel.C19.Url
/-
C16 — model of middleware/csrf (csrf.go `New` and the returned handler, `DeleteToken`,
`originMatchesHost`, `refererMatchesHost`; helpers.go `normalizeOrigin`, `subdomain.match`;
extractors.go; storage_manager.go and session_manager.go `getRaw/setRaw/delRaw`) together with the
little of middleware/session that the session back-ends go through (store.go `getSession` id
resolution, session.go `Save`, middleware.go auto-save).

`net/url.Parse` — inside `normalizeOrigin` and on the lower-cased Origin / Referer header — is the
transcription `C19.Url.parse` of Go 1.23.5 url.go (Url.lean of C19, core Lean only); the harness ships
the real `url.Parse` answers for every string the middleware hands to it and the driver compares them
with the transcription on every case. `strings.ToLower` is Go's ASCII fast path (`B.toLower`): the
driver refuses cases in which a lower-cased text is not ASCII.

Parameters (not modelled): the two `KeyGenerator`s (`gen n`, `sgen n` = the n-th key handed out), gob
(the session blob is the token slot itself), fasthttp header/cookie/arg storage. Time is in whole
seconds.
-/
namespace C16
open B

/-! ## Configuration (csrf.go `New`, helpers.go) -/

structure Sub where
  pre : Bytes      -- helpers.go subdomain.prefix, e.g. "https://"
  suf : Bytes      -- subdomain.suffix, e.g. ".example.com"
  deriving Repr, DecidableEq

/-- helpers.go `subdomain.match` -/
def Sub.match (s : Sub) (o : Bytes) : Bool :=
  decide (o.length ≥ s.pre.length + s.suf.length) && hasPrefix o s.pre && hasSuffix o s.suf

/-- helpers.go `normalizeOrigin`: `url.Parse`, scheme `http`/`https` only (net/url has lower-cased
    it), no `*` in the host, a host, nothing behind it but an optional root path. `none` = invalid. -/
def normalizeOrigin (o : Bytes) : Option Bytes :=
  match C19.Url.parse o with
  | none => none
  | some u =>
    if u.scheme ≠ b "http" ∧ u.scheme ≠ b "https" then none
    else if u.host.contains 42 then none
    else if u.host = [] || (u.path ≠ [] && u.path ≠ b "/") || u.rawQuery ≠ [] || u.fragment ≠ [] then none
    else some (toLower u.scheme ++ b "://" ++ toLower u.host)

/-- csrf.go `New`, wildcard entry, behind `normalizeOrigin`: the normalised origin is split behind ITS
    OWN `://`, and what follows must still start with the dot (else panic). -/
def wildcardSplit (n : Bytes) : Option Sub :=
  match indexOf n (b "://") with
  | none => none
  | some j =>
    if (n.drop (j + 3)).head? = some 46 then some { pre := n.take (j + 3), suf := n.drop (j + 3) } else none

/-- The loop over `cfg.TrustedOrigins` in `New` (each origin is trimmed first; in a `…://*.…` entry the
    `*` is cut out before normalising). `none` = the constructor panics. -/
def buildLoop : List Bytes → List Bytes → List Sub → Option (List Bytes × List Sub)
  | [], os, ss => some (os, ss)
  | o :: rest, os, ss =>
    let o := trim o 32
    match indexOf o (b "://*.") with
    | some i =>
      match normalizeOrigin (o.take (i + 3) ++ o.drop (i + 4)) with
      | none => none
      | some n =>
        match wildcardSplit n with
        | none => none
        | some sd => buildLoop rest os (ss ++ [sd])
    | none =>
      match normalizeOrigin o with
      | none => none
      | some n => buildLoop rest (os ++ [n]) ss

inductive Ext where
  | header | form | query | param | cookie | custom
  deriving Repr, DecidableEq

/-- token back-end: `Config.Storage` (injected or the built-in memory), or `Config.Session` without
    (`sessStore`) / behind (`sessMw`) the session middleware -/
inductive Backend where
  | storage | sessStore | sessMw
  deriving Repr, DecidableEq

/-! ## Requests and state -/

/-- what the handler reads off `url.Parse(strings.ToLower(header))`: error or not, `Scheme`, `Host` -/
structure UrlInfo where
  ok : Bool
  scheme : Bytes
  host : Bytes
  deriving Repr, DecidableEq

/-- `url.Parse` of an (already lower-cased) header value -/
def urlInfoOf (t : Bytes) : UrlInfo :=
  match C19.Url.parse t with
  | none => { ok := false, scheme := [], host := [] }
  | some u => { ok := true, scheme := u.scheme, host := u.host }

structure Req where
  method : Bytes
  ck : Bytes        -- request cookie `csrf_`
  sc : Bytes        -- request cookie `session_id`
  hdr : Bytes       -- X-Csrf-Token
  qry : Bytes       -- query `_csrf`
  form : Bytes      -- urlencoded body `_csrf`
  param : Bytes     -- route parameter
  custom : Bytes    -- header read by the custom extractor
  origin : Bytes    -- Origin header
  referer : Bytes   -- Referer header
  host : Bytes      -- Host header
  https : Bool      -- TLS connection
  del : Bool        -- the protected handler calls `DeleteToken`
  failGet : Bool    -- injected storage faults during this request
  failSet : Bool
  failDel : Bool
  skip : Bool := false   -- the request carries what the harness' `Next` looks for (`X-Skip: 1`)

/-- `url.Parse(strings.ToLower(c.Get("Origin")))` in `originMatchesHost` -/
def Req.ourl (q : Req) : UrlInfo := urlInfoOf (toLower q.origin)
/-- `url.Parse(strings.ToLower(c.Get("Referer")))` in `refererMatchesHost` -/
def Req.rurl (q : Req) : UrlInfo := urlInfoOf (toLower q.referer)

/-- the error the middleware hands to `cfg.ErrorHandler` -/
inductive Err where
  | originInvalid | originNoMatch                      -- ErrOriginInvalid, ErrOriginNoMatch
  | refererNotFound | refererInvalid | refererNoMatch  -- ErrRefererNotFound / Invalid / NoMatch
  | missing                                            -- extractors.go ErrMissingHeader/Query/Param/Form/Cookie
  | extractor                                          -- the error a custom extractor returned
  | tokenNotFound | tokenInvalid                       -- ErrTokenNotFound, ErrTokenInvalid
  | storage                                            -- the error of a failing storage / session-store call
  deriving Repr, DecidableEq

/-- the cookie fields of csrf.Config -/
structure CookieCfg where
  domain : Bytes := []        -- CookieDomain
  path : Bytes := []          -- CookiePath
  sameSite : Bytes := []      -- CookieSameSite as written ("" = not set: config.go puts "Lax")
  secure : Bool := false      -- CookieSecure
  httpOnly : Bool := false    -- CookieHTTPOnly
  sessionOnly : Bool := false -- CookieSessionOnly
  deriving Repr, DecidableEq

structure Cfg where
  backend : Backend
  ext : Ext
  single : Bool            -- SingleUseToken
  idle : Nat               -- IdleTimeout in seconds (> 0)
  origins : List Bytes     -- trustedOrigins
  subs : List Sub          -- trustedSubOrigins
  /-- `Config.ErrorHandler`, as far as the client sees it: the status of the reply it produces for an
      error (default handler: `fiber.ErrForbidden` for every error). It is a function of the error
      only and does not call `c.Next()`. -/
  eh : Err → Nat := fun _ => 403
  /-- `Config.Next`: `none` = nil; else the predicate on the request -/
  next : Option (Req → Bool) := none
  cookie : CookieCfg := {}

/-- csrf.Token as kept in the session (`Raw` is the constant dummy value) -/
structure Tok where
  key : Bytes
  exp : Nat
  deriving Repr, DecidableEq

structure St where
  now : Nat := 0
  store : List (Bytes × Nat) := []          -- storage back-end: token ↦ deadline
  sess : List (Bytes × Option Tok) := []    -- session storage: id ↦ token slot of the saved session
  ntok : Nat := 0                           -- KeyGenerator calls so far
  nsid : Nat := 0                           -- session KeyGenerator calls so far

/-- what the property talks about in the response (+ the generator calls, for the issued set) -/
structure Resp where
  pass : Bool := false               -- the protected handler ran
  status : Nat := 403
  ck : Option Bytes := none          -- Set-Cookie csrf_ (`some []` = expired)
  sc : Option Bytes := none          -- Set-Cookie session_id
  gens : List Bytes := []
  sgens : List Bytes := []
  fg : Bool := false                 -- a storage Get / Set / Delete actually failed
  fs : Bool := false
  fd : Bool := false
  early : Bool := false              -- … and it failed before the protected handler was entered
  deriving Repr, DecidableEq

/-- request-scoped state -/
structure Ctx where
  st : St
  sid : Option Bytes := none                   -- Locals(sessionIDContextKey)
  mw : Option (Bytes × Option Tok) := none     -- session held by the session middleware (id, slot)
  sc : Option Bytes := none
  gens : List Bytes := []
  sgens : List Bytes := []
  fg : Bool := false
  fs : Bool := false
  fd : Bool := false

/-! ## Storage back-end (storage_manager.go over fiber.Storage / internal/memory) -/

def lookup (s : List (Bytes × α)) (k : Bytes) : Option α :=
  match s with
  | [] => none
  | (k', v) :: rest => if k' = k then some v else lookup rest k

def erase (s : List (Bytes × α)) (k : Bytes) : List (Bytes × α) := s.filter (fun e => e.1 ≠ k)

def put (s : List (Bytes × α)) (k : Bytes) (v : α) : List (Bytes × α) := (k, v) :: erase s k

/-- `Storage.Get` ≠ nil: present and `now < deadline` (memory.go: `e <= Timestamp()` = expired) -/
def storeLive (st : St) (k : Bytes) : Bool :=
  match lookup st.store k with
  | some d => decide (st.now < d)
  | none => false

/-! ## Session back-end -/

/-- the session id a request resolves to: `Locals(sessionIDContextKey)` or else the cookie -/
def reqSid (q : Req) (c : Ctx) : Bytes :=
  match c.sid with
  | some i => i
  | none => q.sc

/-- store.go `getSession`, unknown id: a new session with a generated id, remembered in Locals -/
def freshSess (sgen : Nat → Bytes) (c : Ctx) : Ctx × Option (Bytes × Option Tok) :=
  let id := sgen c.st.nsid
  ({ c with st := { c.st with nsid := c.st.nsid + 1 }, sid := some id, sgens := c.sgens ++ [id] }, some (id, none))

/-- store.go `getSession` as reached through `Store.Get` (cookie source, no absolute timeout):
    id from Locals or the cookie; unknown → new id, stored in Locals. `none` = storage error. -/
-- (the first component carries the fired-fault flag and the generator calls)
def storeGet (sgen : Nat → Bytes) (q : Req) (c : Ctx) : Ctx × Option (Bytes × Option Tok) :=
  if reqSid q c ≠ [] then
    if q.failGet then ({ c with fg := true }, none)
    else match lookup c.st.sess (reqSid q c) with
      | some slot => (c, some (reqSid q c, slot))
      | none => freshSess sgen c
  else freshSess sgen c

/-- session.go `Save` on a store session: cookie first, then `Storage.Set` -/
def sessSave (q : Req) (c : Ctx) (id : Bytes) (slot : Option Tok) : Ctx :=
  let c := { c with sc := some id }
  if q.failSet then { c with fs := true } else { c with st := { c.st with sess := put c.st.sess id slot } }

/-- session_manager.go `getRaw`: the stored token, unexpired (`Expiration.Before(now)` = expired) and
    with the presented key -/
def slotOK (now : Nat) (slot : Option Tok) (key : Bytes) : Bool :=
  match slot with
  | some t => !(decide (t.exp < now)) && key = t.key
  | none => false

/-! ## The three manager operations, per back-end (`none` / `false` flag = the call reports an error) -/

/-- `getRawFromStorage`: `none` = store error, `some ok` = token (not) found -/
def getRaw (cfg : Cfg) (sgen : Nat → Bytes) (q : Req) (c : Ctx) (key : Bytes) : Ctx × Option Bool :=
  match cfg.backend with
  | .storage => if q.failGet then ({ c with fg := true }, none) else (c, some (storeLive c.st key))
  | .sessMw => (c, some (match c.mw with | some (_, slot) => slotOK c.st.now slot key | none => false))
  | .sessStore =>
    match storeGet sgen q c with
    | (c', none) => (c', none)
    | (c', some (_, slot)) => (c', some (slotOK c'.st.now slot key))

/-- `createOrExtendTokenInStorage`: the flag is `true` when the store reported an error -/
def setRaw (cfg : Cfg) (sgen : Nat → Bytes) (q : Req) (c : Ctx) (key : Bytes) : Ctx × Bool :=
  let d := c.st.now + cfg.idle
  match cfg.backend with
  | .storage =>
    if q.failSet then ({ c with fs := true }, true)
    else ({ c with st := { c.st with store := put c.st.store key d } }, false)
  | .sessMw => match c.mw with
    | some (id, _) => ({ c with mw := some (id, some { key := key, exp := d }) }, false)
    | none => (c, false)
  | .sessStore =>
    match storeGet sgen q c with
    | (c', none) => (c', true)
    | (c', some (id, _)) => (sessSave q c' id (some { key := key, exp := d }), q.failSet)

/-- `deleteTokenFromStorage` -/
def delRaw (cfg : Cfg) (sgen : Nat → Bytes) (q : Req) (c : Ctx) (key : Bytes) : Ctx × Bool :=
  match cfg.backend with
  | .storage =>
    if q.failDel then ({ c with fd := true }, true)
    else ({ c with st := { c.st with store := erase c.st.store key } }, false)
  | .sessMw => match c.mw with
    | some (id, _) => ({ c with mw := some (id, none) }, false)
    | none => (c, false)
  | .sessStore =>
    match storeGet sgen q c with
    | (c', none) => (c', true)
    | (c', some (id, _)) => (sessSave q c' id none, q.failSet)

/-! ## Extractors (extractors.go) -/

/-- `none` = the extractor reports an error or an empty token (both end in the error handler) -/
def extract (e : Ext) (q : Req) : Option Bytes :=
  let v := match e with
    | .header => q.hdr
    | .form => if q.qry ≠ [] then q.qry else q.form     -- fasthttp FormValue: query first
    | .query => q.qry
    | .param => q.param
    | .cookie => q.ck
    | .custom => if q.custom = b "err" then [] else q.custom
  if v = [] then none else some v

/-! ## Origin / Referer (csrf.go) -/

def reqScheme (q : Req) : Bytes := if q.https then b "https" else b "http"
/-- `c.Host()`: fasthttp lower-cases the URI host -/
def reqHost (q : Req) : Bytes := toLower q.host

def trusted (cfg : Cfg) (n : Bytes) : Bool := cfg.origins.contains n || cfg.subs.any (·.match n)

inductive OErr where
  | notFound | invalid | noMatch
  deriving Repr, DecidableEq

/-- `originMatchesHost`; `none` = nil error -/
def originCheck (cfg : Cfg) (q : Req) : Option OErr :=
  let o := toLower q.origin
  if o = [] ∨ o = b "null" then some .notFound
  else if !q.ourl.ok then some .invalid
  else if q.ourl.scheme = reqScheme q ∧ q.ourl.host = reqHost q then none
  else if trusted cfg (q.ourl.scheme ++ b "://" ++ q.ourl.host) then none
  else some .noMatch

/-- `refererMatchesHost` -/
def refererCheck (cfg : Cfg) (q : Req) : Option OErr :=
  let r := toLower q.referer
  if r = [] then some .notFound
  else if !q.rurl.ok then some .invalid
  else if q.rurl.scheme = reqScheme q ∧ q.rurl.host = reqHost q then none
  else if trusted cfg (q.rurl.scheme ++ b "://" ++ q.rurl.host) then none
  else some .noMatch

/-- the error the gate reports when it is shut (`originMatchesHost`, and on https after
    `errOriginNotFound` `refererMatchesHost`) -/
def gateErr (cfg : Cfg) (q : Req) : Err :=
  match originCheck cfg q with
  | some .invalid => .originInvalid
  | some .notFound =>
    (match refererCheck cfg q with
     | some .notFound => .refererNotFound
     | some .invalid => .refererInvalid
     | _ => .refererNoMatch)
  | _ => .originNoMatch

/-- the error behind `extract … = none`: a built-in extractor that finds nothing reports its
    `ErrMissing…`; the custom one reports its own error, and an empty value without error ends in
    `ErrTokenNotFound` -/
def extractErr (e : Ext) (q : Req) : Err :=
  match e with
  | .custom => if q.custom = b "err" then .extractor else .tokenNotFound
  | _ => .missing

/-- the origin gate of the `default:` branch: `true` = the request may proceed -/
def originGate (cfg : Cfg) (q : Req) : Bool :=
  match originCheck cfg q with
  | none => true
  | some .notFound => if q.https then (refererCheck cfg q).isNone else true
  | some _ => false

/-! ## The handler -/

def isSafe (m : Bytes) : Bool := m = b "GET" || m = b "HEAD" || m = b "OPTIONS" || m = b "TRACE"

/-- what the middleware decided: rejected (optionally expiring the cookie) or the token to keep -/
inductive Decision where
  | reject (expire : Bool) (err : Err)
  | proceed (token : Bytes)     -- `[]` = generate a new one

/-- the `switch c.Method()` of the handler -/
def decide' (cfg : Cfg) (sgen : Nat → Bytes) (q : Req) (c : Ctx) : Ctx × Decision :=
  if isSafe q.method then
    if q.ck ≠ [] then
      -- a store error counts as "not found": safe methods always pass
      let (c, ok) := getRaw cfg sgen q c q.ck
      (c, .proceed (if ok = some true then q.ck else []))
    else (c, .proceed [])
  else if !originGate cfg q then (c, .reject false (gateErr cfg q))
  else match extract cfg.ext q with
    | none => (c, .reject false (extractErr cfg.ext q))
    | some t =>
      -- `isFromCookie` never holds (it compares the closure with its constructor), so the cookie
      -- comparison always runs; with the cookie extractor it compares the cookie with itself
      if t ≠ q.ck then (c, .reject false .tokenInvalid)
      else
        match getRaw cfg sgen q c t with
        | (c, none) => (c, .reject false .storage)            -- store error
        | (c, some false) => (c, .reject true .tokenNotFound) -- not in the store: expire the cookie
        | (c, some true) =>
          if cfg.single then
            match delRaw cfg sgen q c t with
            | (c, true) => (c, .reject false .storage) -- could not be consumed
            | (c, false) => (c, .proceed [])
          else (c, .proceed t)

/-- after the switch, once the token is fixed: create-or-extend, set the cookie, run the protected
    handler (which may call `DeleteToken`) -/
def finishTail (cfg : Cfg) (sgen : Nat → Bytes) (q : Req) (c : Ctx) (token : Bytes) : Ctx × Resp :=
  match setRaw cfg sgen q c token with
  | (c, err) =>
    -- faults up to here hit the middleware itself; later ones hit the handler's `DeleteToken`
    let early := c.fg || c.fs || c.fd
    if err && !isSafe q.method then (c, { pass := false, status := cfg.eh .storage, ck := none, early := early })
    else if q.del then
      -- `DeleteToken` hands its errors to the ErrorHandler too; the protected handler returns the result
      if q.ck = [] then (c, { pass := true, status := cfg.eh .tokenNotFound, ck := some token, early := early })
      else match delRaw cfg sgen q c q.ck with
        | (c, true) => (c, { pass := true, status := cfg.eh .storage, ck := some token, early := early })
        | (c, false) => (c, { pass := true, status := 200, ck := some [], early := early })
    else (c, { pass := true, status := 200, ck := some token, early := early })

/-- after the switch: generate a token if needed (`KeyGenerator`), then `finishTail` -/
def finish (cfg : Cfg) (gen sgen : Nat → Bytes) (q : Req) (c : Ctx) (token : Bytes) : Ctx × Resp :=
  if token = [] then
    let t := gen c.st.ntok
    finishTail cfg sgen q { c with st := { c.st with ntok := c.st.ntok + 1 }, gens := c.gens ++ [t] } t
  else finishTail cfg sgen q c token

/-- session middleware: `initialize` (`getSession` by cookie) -/
def mwLoad (sgen : Nat → Bytes) (q : Req) (c : Ctx) : Ctx :=
  match (if q.sc ≠ [] then lookup c.st.sess q.sc else none) with
  | some slot => { c with mw := some (q.sc, slot) }
  | none =>
    let id := sgen c.st.nsid
    { c with st := { c.st with nsid := c.st.nsid + 1 }, sid := some id, sgens := c.sgens ++ [id],
             mw := some (id, none) }

/-- session middleware: auto-save after the stack returned -/
def mwSave (c : Ctx) : Ctx :=
  match c.mw with
  | some (id, slot) => { c with st := { c.st with sess := put c.st.sess id slot }, sc := some id }
  | none => c

/-- one request through (session middleware,) csrf middleware and protected handler, `Config.Next`
    not telling the middleware to step aside -/
def handleCore (cfg : Cfg) (gen sgen : Nat → Bytes) (st : St) (q : Req) : St × Resp :=
  let c : Ctx := { st := st }
  let c := if cfg.backend = .sessMw then mwLoad sgen q c else c
  let (c, d) := decide' cfg sgen q c
  let (c, r) : Ctx × Resp := match d with
    | .reject expire er => (c, { pass := false, status := cfg.eh er, ck := (if expire then some [] else none),
                                 early := c.fg || c.fs || c.fd })
    | .proceed t => finish cfg gen sgen q c t
  let c := if cfg.backend = .sessMw then mwSave c else c
  (c.st, { r with sc := c.sc, gens := c.gens, sgens := c.sgens, fg := c.fg, fs := c.fs, fd := c.fd })

/-- `cfg.Next != nil && cfg.Next(c)` -/
def skipped (cfg : Cfg) (q : Req) : Bool :=
  match cfg.next with
  | some f => f q
  | none => false

/-- `Next` said true: `return c.Next()` — the csrf middleware does nothing at all (no handler in the
    context, so the protected handler's `DeleteToken` has nothing to call either); a session
    middleware in front still loads and saves its session -/
def handleSkip (cfg : Cfg) (sgen : Nat → Bytes) (st : St) (q : Req) : St × Resp :=
  let c : Ctx := { st := st }
  let c := if cfg.backend = .sessMw then mwLoad sgen q c else c
  let c := if cfg.backend = .sessMw then mwSave c else c
  (c.st, { pass := true, status := 200, ck := none, early := false,
           sc := c.sc, gens := c.gens, sgens := c.sgens, fg := c.fg, fs := c.fs, fd := c.fd })

/-- one request through (session middleware,) csrf middleware and protected handler -/
def handle (cfg : Cfg) (gen sgen : Nat → Bytes) (st : St) (q : Req) : St × Resp :=
  if skipped cfg q then handleSkip cfg sgen st q else handleCore cfg gen sgen st q

/-! ## The attributes of the csrf cookie (csrf.go `setCSRFCookie`, ctx.go `Cookie`, fasthttp) -/

inductive SameSite where
  | lax | strict | none | disabled     -- `disabled`: no SameSite attribute at all
  deriving Repr, DecidableEq

/-- what the `Set-Cookie` line of the csrf cookie carries besides name and value -/
structure CookieAttrs where
  domain : Bytes
  path : Bytes
  secure : Bool
  httpOnly : Bool
  sameSite : SameSite
  expires : Option Int       -- seconds on the model clock; `none` = no Expires attribute (session cookie)
  deriving Repr, DecidableEq

/-- ctx.go `Cookie`: the switch on `utils.ToLower(cookie.SameSite)`; config.go has replaced "" by "Lax" -/
def sameSiteOf (v : Bytes) : SameSite :=
  if toLower v = b "strict" then .strict
  else if toLower v = b "none" then .none
  else if toLower v = b "disabled" then .disabled
  else .lax

/-- `setCSRFCookie` → `c.Cookie` → fasthttp: domain as configured; the path gets a leading slash
    (fasthttp `normalizePath`; the driver keeps to paths it leaves alone otherwise); `SameSite=None`
    switches `Secure` on (fasthttp `SetSameSite`); `Expires` = now + expiry unless `SessionOnly`
    (`expiry` = IdleTimeout, or −1 h when the cookie is being expired); no Max-Age. -/
def attrsOf (cc : CookieCfg) (idle now : Nat) (expire : Bool) : CookieAttrs :=
  { domain := cc.domain,
    path := if cc.path.head? = some 47 then cc.path else 47 :: cc.path,
    secure := cc.secure || sameSiteOf cc.sameSite = .none,
    httpOnly := cc.httpOnly,
    sameSite := sameSiteOf cc.sameSite,
    expires := if cc.sessionOnly then none
               else some (if expire then (now : Int) - 3600 else (now : Int) + idle) }

/-- the attributes of the csrf cookie a response sets, if it sets one -/
def respAttrs (cfg : Cfg) (now : Nat) (r : Resp) : Option CookieAttrs :=
  r.ck.map fun t => attrsOf cfg.cookie cfg.idle now (t = [])

/-! ## Histories -/

inductive Op where
  | adv (secs : Nat)
  | req (q : Req)

def step (cfg : Cfg) (gen sgen : Nat → Bytes) (st : St) : Op → St × Option Resp
  | .adv d => ({ st with now := st.now + d }, none)
  | .req q => let (st', r) := handle cfg gen sgen st q; (st', some r)

/-- run a history from a state; the list of responses (one per `req`, `none` per `adv`) -/
def run (cfg : Cfg) (gen sgen : Nat → Bytes) : St → List Op → St × List (Option Resp)
  | st, [] => (st, [])
  | st, o :: os =>
    let (st', r) := step cfg gen sgen st o
    let (st'', rs) := run cfg gen sgen st' os
    (st'', r :: rs)

end C16
