import FiberModel.Basic
/-
C16 — model of middleware/csrf (csrf.go `New` and the returned handler, `DeleteToken`,
`originMatchesHost`, `refererMatchesHost`; helpers.go `normalizeOrigin`, `subdomain.match`;
extractors.go; storage_manager.go and session_manager.go `getRaw/setRaw/delRaw`) together with the
little of middleware/session that the session back-ends go through (store.go `getSession` id
resolution, session.go `Save`, middleware.go auto-save).

Parameters (not modelled): `net/url.Parse` (the harness ships `(ok, scheme, host)` of the lower-cased
Origin / Referer header; configuration origins are modelled for the shapes `scheme://host[:port][/]`),
the two `KeyGenerator`s (`gen n`, `sgen n` = the n-th key handed out), gob (the session blob is the
token slot itself), fasthttp header/cookie/arg storage. Time is in whole seconds.
-/
namespace C16
open B

/-! ## Configuration (csrf.go `New`, helpers.go) -/

structure Sub where
  pre : Bytes      -- helpers.go subdomain.prefix, e.g. "https://"
  suf : Bytes      -- subdomain.suffix, e.g. ".example.com"
  deriving Repr, DecidableEq

/-- helpers.go `subdomain.match` -/
def Sub.match (s : Sub) (o : Bytes) : Bool :=
  decide (o.length ≥ s.pre.length + s.suf.length) && hasPrefix o s.pre && hasSuffix o s.suf

/-- helpers.go `normalizeOrigin` for inputs of shape `scheme://host[:port][/]` (anything with a path,
    query, fragment, wildcard or a non-http(s) scheme is invalid). `none` = invalid. -/
def normalizeOrigin (o : Bytes) : Option Bytes :=
  match indexOf o (b "://") with
  | none => none
  | some i =>
    let scheme := toLower (o.take i)
    let rest := o.drop (i + 3)
    let host := if rest.getLast? = some 47 then rest.dropLast else rest
    if (scheme ≠ b "http" ∧ scheme ≠ b "https") || host.isEmpty || host.contains 47 || host.contains 42
       || host.contains 63 || host.contains 35 || host.contains 32 then none
    else some (scheme ++ b "://" ++ toLower host)

/-- The loop over `cfg.TrustedOrigins` in `New` (each origin is trimmed first). `none` = the
    constructor panics. -/
def buildLoop : List Bytes → List Bytes → List Sub → Option (List Bytes × List Sub)
  | [], os, ss => some (os, ss)
  | o :: rest, os, ss =>
    let o := trim o 32
    match indexOf o (b "://*.") with
    | some i =>
      match normalizeOrigin (o.take (i + 3) ++ o.drop (i + 4)) with
      | none => none
      | some n => buildLoop rest os (ss ++ [{ pre := n.take (i + 3), suf := n.drop (i + 3) }])
    | none =>
      match normalizeOrigin o with
      | none => none
      | some n => buildLoop rest (os ++ [n]) ss

inductive Ext where
  | header | form | query | param | cookie | custom
  deriving Repr, DecidableEq

/-- token back-end: `Config.Storage` (injected or the built-in memory), or `Config.Session` without
    (`sessStore`) / behind (`sessMw`) the session middleware -/
inductive Backend where
  | storage | sessStore | sessMw
  deriving Repr, DecidableEq

structure Cfg where
  backend : Backend
  ext : Ext
  single : Bool            -- SingleUseToken
  idle : Nat               -- IdleTimeout in seconds (> 0)
  origins : List Bytes     -- trustedOrigins
  subs : List Sub          -- trustedSubOrigins

/-! ## Requests and state -/

/-- `url.Parse(strings.ToLower(header))`: parameter -/
structure UrlInfo where
  ok : Bool
  scheme : Bytes
  host : Bytes
  deriving Repr, DecidableEq

structure Req where
  method : Bytes
  ck : Bytes        -- request cookie `csrf_`
  sc : Bytes        -- request cookie `session_id`
  hdr : Bytes       -- X-Csrf-Token
  qry : Bytes       -- query `_csrf`
  form : Bytes      -- urlencoded body `_csrf`
  param : Bytes     -- route parameter
  custom : Bytes    -- header read by the custom extractor
  origin : Bytes
  ourl : UrlInfo
  referer : Bytes
  rurl : UrlInfo
  host : Bytes      -- Host header
  https : Bool      -- TLS connection
  del : Bool        -- the protected handler calls `DeleteToken`
  failGet : Bool    -- injected storage faults during this request
  failSet : Bool
  failDel : Bool

/-- csrf.Token as kept in the session (`Raw` is the constant dummy value) -/
structure Tok where
  key : Bytes
  exp : Nat
  deriving Repr, DecidableEq

structure St where
  now : Nat := 0
  store : List (Bytes × Nat) := []          -- storage back-end: token ↦ deadline
  sess : List (Bytes × Option Tok) := []    -- session storage: id ↦ token slot of the saved session
  ntok : Nat := 0                           -- KeyGenerator calls so far
  nsid : Nat := 0                           -- session KeyGenerator calls so far

/-- what the property talks about in the response (+ the generator calls, for the issued set) -/
structure Resp where
  pass : Bool := false               -- the protected handler ran
  status : Nat := 403
  ck : Option Bytes := none          -- Set-Cookie csrf_ (`some []` = expired)
  sc : Option Bytes := none          -- Set-Cookie session_id
  gens : List Bytes := []
  sgens : List Bytes := []
  fg : Bool := false                 -- a storage Get / Set / Delete actually failed
  fs : Bool := false
  fd : Bool := false
  early : Bool := false              -- … and it failed before the protected handler was entered
  deriving Repr, DecidableEq

/-- request-scoped state -/
structure Ctx where
  st : St
  sid : Option Bytes := none                   -- Locals(sessionIDContextKey)
  mw : Option (Bytes × Option Tok) := none     -- session held by the session middleware (id, slot)
  sc : Option Bytes := none
  gens : List Bytes := []
  sgens : List Bytes := []
  fg : Bool := false
  fs : Bool := false
  fd : Bool := false

/-! ## Storage back-end (storage_manager.go over fiber.Storage / internal/memory) -/

def lookup (s : List (Bytes × α)) (k : Bytes) : Option α :=
  match s with
  | [] => none
  | (k', v) :: rest => if k' = k then some v else lookup rest k

def erase (s : List (Bytes × α)) (k : Bytes) : List (Bytes × α) := s.filter (fun e => e.1 ≠ k)

def put (s : List (Bytes × α)) (k : Bytes) (v : α) : List (Bytes × α) := (k, v) :: erase s k

/-- `Storage.Get` ≠ nil: present and `now < deadline` (memory.go: `e <= Timestamp()` = expired) -/
def storeLive (st : St) (k : Bytes) : Bool :=
  match lookup st.store k with
  | some d => decide (st.now < d)
  | none => false

/-! ## Session back-end -/

/-- the session id a request resolves to: `Locals(sessionIDContextKey)` or else the cookie -/
def reqSid (q : Req) (c : Ctx) : Bytes :=
  match c.sid with
  | some i => i
  | none => q.sc

/-- store.go `getSession`, unknown id: a new session with a generated id, remembered in Locals -/
def freshSess (sgen : Nat → Bytes) (c : Ctx) : Ctx × Option (Bytes × Option Tok) :=
  let id := sgen c.st.nsid
  ({ c with st := { c.st with nsid := c.st.nsid + 1 }, sid := some id, sgens := c.sgens ++ [id] }, some (id, none))

/-- store.go `getSession` as reached through `Store.Get` (cookie source, no absolute timeout):
    id from Locals or the cookie; unknown → new id, stored in Locals. `none` = storage error. -/
-- (the first component carries the fired-fault flag and the generator calls)
def storeGet (sgen : Nat → Bytes) (q : Req) (c : Ctx) : Ctx × Option (Bytes × Option Tok) :=
  if reqSid q c ≠ [] then
    if q.failGet then ({ c with fg := true }, none)
    else match lookup c.st.sess (reqSid q c) with
      | some slot => (c, some (reqSid q c, slot))
      | none => freshSess sgen c
  else freshSess sgen c

/-- session.go `Save` on a store session: cookie first, then `Storage.Set` -/
def sessSave (q : Req) (c : Ctx) (id : Bytes) (slot : Option Tok) : Ctx :=
  let c := { c with sc := some id }
  if q.failSet then { c with fs := true } else { c with st := { c.st with sess := put c.st.sess id slot } }

/-- session_manager.go `getRaw`: the stored token, unexpired (`Expiration.Before(now)` = expired) and
    with the presented key -/
def slotOK (now : Nat) (slot : Option Tok) (key : Bytes) : Bool :=
  match slot with
  | some t => !(decide (t.exp < now)) && key = t.key
  | none => false

/-! ## The three manager operations, per back-end (`none` / `false` flag = the call reports an error) -/

/-- `getRawFromStorage`: `none` = store error, `some ok` = token (not) found -/
def getRaw (cfg : Cfg) (sgen : Nat → Bytes) (q : Req) (c : Ctx) (key : Bytes) : Ctx × Option Bool :=
  match cfg.backend with
  | .storage => if q.failGet then ({ c with fg := true }, none) else (c, some (storeLive c.st key))
  | .sessMw => (c, some (match c.mw with | some (_, slot) => slotOK c.st.now slot key | none => false))
  | .sessStore =>
    match storeGet sgen q c with
    | (c', none) => (c', none)
    | (c', some (_, slot)) => (c', some (slotOK c'.st.now slot key))

/-- `createOrExtendTokenInStorage`: the flag is `true` when the store reported an error -/
def setRaw (cfg : Cfg) (sgen : Nat → Bytes) (q : Req) (c : Ctx) (key : Bytes) : Ctx × Bool :=
  let d := c.st.now + cfg.idle
  match cfg.backend with
  | .storage =>
    if q.failSet then ({ c with fs := true }, true)
    else ({ c with st := { c.st with store := put c.st.store key d } }, false)
  | .sessMw => match c.mw with
    | some (id, _) => ({ c with mw := some (id, some { key := key, exp := d }) }, false)
    | none => (c, false)
  | .sessStore =>
    match storeGet sgen q c with
    | (c', none) => (c', true)
    | (c', some (id, _)) => (sessSave q c' id (some { key := key, exp := d }), q.failSet)

/-- `deleteTokenFromStorage` -/
def delRaw (cfg : Cfg) (sgen : Nat → Bytes) (q : Req) (c : Ctx) (key : Bytes) : Ctx × Bool :=
  match cfg.backend with
  | .storage =>
    if q.failDel then ({ c with fd := true }, true)
    else ({ c with st := { c.st with store := erase c.st.store key } }, false)
  | .sessMw => match c.mw with
    | some (id, _) => ({ c with mw := some (id, none) }, false)
    | none => (c, false)
  | .sessStore =>
    match storeGet sgen q c with
    | (c', none) => (c', true)
    | (c', some (id, _)) => (sessSave q c' id none, q.failSet)

/-! ## Extractors (extractors.go) -/

/-- `none` = the extractor reports an error or an empty token (both end in the error handler) -/
def extract (e : Ext) (q : Req) : Option Bytes :=
  let v := match e with
    | .header => q.hdr
    | .form => if q.qry ≠ [] then q.qry else q.form     -- fasthttp FormValue: query first
    | .query => q.qry
    | .param => q.param
    | .cookie => q.ck
    | .custom => if q.custom = b "err" then [] else q.custom
  if v = [] then none else some v

/-! ## Origin / Referer (csrf.go) -/

def reqScheme (q : Req) : Bytes := if q.https then b "https" else b "http"
/-- `c.Host()`: fasthttp lower-cases the URI host -/
def reqHost (q : Req) : Bytes := toLower q.host

def trusted (cfg : Cfg) (n : Bytes) : Bool := cfg.origins.contains n || cfg.subs.any (·.match n)

inductive OErr where
  | notFound | invalid | noMatch
  deriving Repr, DecidableEq

/-- `originMatchesHost`; `none` = nil error -/
def originCheck (cfg : Cfg) (q : Req) : Option OErr :=
  let o := toLower q.origin
  if o = [] ∨ o = b "null" then some .notFound
  else if !q.ourl.ok then some .invalid
  else if q.ourl.scheme = reqScheme q ∧ q.ourl.host = reqHost q then none
  else if trusted cfg (q.ourl.scheme ++ b "://" ++ q.ourl.host) then none
  else some .noMatch

/-- `refererMatchesHost` -/
def refererCheck (cfg : Cfg) (q : Req) : Option OErr :=
  let r := toLower q.referer
  if r = [] then some .notFound
  else if !q.rurl.ok then some .invalid
  else if q.rurl.scheme = reqScheme q ∧ q.rurl.host = reqHost q then none
  else if trusted cfg (q.rurl.scheme ++ b "://" ++ q.rurl.host) then none
  else some .noMatch

/-- the origin gate of the `default:` branch: `true` = the request may proceed -/
def originGate (cfg : Cfg) (q : Req) : Bool :=
  match originCheck cfg q with
  | none => true
  | some .notFound => if q.https then (refererCheck cfg q).isNone else true
  | some _ => false

/-! ## The handler -/

def isSafe (m : Bytes) : Bool := m = b "GET" || m = b "HEAD" || m = b "OPTIONS" || m = b "TRACE"

/-- what the middleware decided: rejected (optionally expiring the cookie) or the token to keep -/
inductive Decision where
  | reject (expire : Bool)
  | proceed (token : Bytes)     -- `[]` = generate a new one

/-- the `switch c.Method()` of the handler -/
def decide' (cfg : Cfg) (sgen : Nat → Bytes) (q : Req) (c : Ctx) : Ctx × Decision :=
  if isSafe q.method then
    if q.ck ≠ [] then
      -- a store error counts as "not found": safe methods always pass
      let (c, ok) := getRaw cfg sgen q c q.ck
      (c, .proceed (if ok = some true then q.ck else []))
    else (c, .proceed [])
  else if !originGate cfg q then (c, .reject false)
  else match extract cfg.ext q with
    | none => (c, .reject false)
    | some t =>
      -- `isFromCookie` never holds (it compares the closure with its constructor), so the cookie
      -- comparison always runs; with the cookie extractor it compares the cookie with itself
      if t ≠ q.ck then (c, .reject false)
      else
        match getRaw cfg sgen q c t with
        | (c, none) => (c, .reject false)            -- store error
        | (c, some false) => (c, .reject true)       -- not in the store: expire the cookie
        | (c, some true) =>
          if cfg.single then
            match delRaw cfg sgen q c t with
            | (c, true) => (c, .reject false)        -- could not be consumed
            | (c, false) => (c, .proceed [])
          else (c, .proceed t)

/-- after the switch, once the token is fixed: create-or-extend, set the cookie, run the protected
    handler (which may call `DeleteToken`) -/
def finishTail (cfg : Cfg) (sgen : Nat → Bytes) (q : Req) (c : Ctx) (token : Bytes) : Ctx × Resp :=
  match setRaw cfg sgen q c token with
  | (c, err) =>
    -- faults up to here hit the middleware itself; later ones hit the handler's `DeleteToken`
    let early := c.fg || c.fs || c.fd
    if err && !isSafe q.method then (c, { pass := false, status := 403, ck := none, early := early })
    else if q.del then
      if q.ck = [] then (c, { pass := true, status := 403, ck := some token, early := early })
      else match delRaw cfg sgen q c q.ck with
        | (c, true) => (c, { pass := true, status := 403, ck := some token, early := early })
        | (c, false) => (c, { pass := true, status := 200, ck := some [], early := early })
    else (c, { pass := true, status := 200, ck := some token, early := early })

/-- after the switch: generate a token if needed (`KeyGenerator`), then `finishTail` -/
def finish (cfg : Cfg) (gen sgen : Nat → Bytes) (q : Req) (c : Ctx) (token : Bytes) : Ctx × Resp :=
  if token = [] then
    let t := gen c.st.ntok
    finishTail cfg sgen q { c with st := { c.st with ntok := c.st.ntok + 1 }, gens := c.gens ++ [t] } t
  else finishTail cfg sgen q c token

/-- session middleware: `initialize` (`getSession` by cookie) -/
def mwLoad (sgen : Nat → Bytes) (q : Req) (c : Ctx) : Ctx :=
  match (if q.sc ≠ [] then lookup c.st.sess q.sc else none) with
  | some slot => { c with mw := some (q.sc, slot) }
  | none =>
    let id := sgen c.st.nsid
    { c with st := { c.st with nsid := c.st.nsid + 1 }, sid := some id, sgens := c.sgens ++ [id],
             mw := some (id, none) }

/-- session middleware: auto-save after the stack returned -/
def mwSave (c : Ctx) : Ctx :=
  match c.mw with
  | some (id, slot) => { c with st := { c.st with sess := put c.st.sess id slot }, sc := some id }
  | none => c

/-- one request through (session middleware,) csrf middleware and protected handler -/
def handle (cfg : Cfg) (gen sgen : Nat → Bytes) (st : St) (q : Req) : St × Resp :=
  let c : Ctx := { st := st }
  let c := if cfg.backend = .sessMw then mwLoad sgen q c else c
  let (c, d) := decide' cfg sgen q c
  let (c, r) : Ctx × Resp := match d with
    | .reject expire => (c, { pass := false, status := 403, ck := if expire then some [] else none,
                              early := c.fg || c.fs || c.fd })
    | .proceed t => finish cfg gen sgen q c t
  let c := if cfg.backend = .sessMw then mwSave c else c
  (c.st, { r with sc := c.sc, gens := c.gens, sgens := c.sgens, fg := c.fg, fs := c.fs, fd := c.fd })

/-! ## Histories -/

inductive Op where
  | adv (secs : Nat)
  | req (q : Req)

def step (cfg : Cfg) (gen sgen : Nat → Bytes) (st : St) : Op → St × Option Resp
  | .adv d => ({ st with now := st.now + d }, none)
  | .req q => let (st', r) := handle cfg gen sgen st q; (st', some r)

/-- run a history from a state; the list of responses (one per `req`, `none` per `adv`) -/
def run (cfg : Cfg) (gen sgen : Nat → Bytes) : St → List Op → St × List (Option Resp)
  | st, [] => (st, [])
  | st, o :: os =>
    let (st', r) := step cfg gen sgen st o
    let (st'', rs) := run cfg gen sgen st' os
    (st'', r :: rs)

end C16
