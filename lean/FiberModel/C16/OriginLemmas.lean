import FiberModel.C16.Spec
import FiberModel.C16.ListLemmas
/-
C16 — the constructor's trusted-origin tables (`buildLoop`, `normalizeOrigin`, `Sub.match`) against
the specification's independent reading of the configuration strings (`specEntry`,
`TrustEntry.admits`): everything the model trusts, the specification admits.
-/
namespace C16
open B

def stripSlash (r : Bytes) : Bytes := if r.getLast? = some 47 then r.dropLast else r

/-- what a successful `normalizeOrigin` tells -/
theorem normalizeOrigin_some (o n : Bytes) (h : normalizeOrigin o = some n) :
    ∃ i, indexOf o (b "://") = some i ∧
      (toLower (o.take i) = b "http" ∨ toLower (o.take i) = b "https") ∧
      47 ∉ stripSlash (o.drop (i + 3)) ∧ 42 ∉ stripSlash (o.drop (i + 3)) ∧
      n = toLower (o.take i) ++ b "://" ++ toLower (stripSlash (o.drop (i + 3))) := by
  unfold normalizeOrigin at h
  split at h
  · simp at h
  · rename_i i hi
    refine ⟨i, hi, ?_⟩
    have hs : (if (o.drop (i + 3)).getLast? = some 47 then (o.drop (i + 3)).dropLast else o.drop (i + 3))
        = stripSlash (o.drop (i + 3)) := rfl
    simp only [hs] at h
    generalize stripSlash (o.drop (i + 3)) = host at h ⊢
    generalize toLower (o.take i) = scheme at h ⊢
    split at h
    · simp at h
    · rename_i hc
      simp only [Option.some.injEq] at h
      simp only [Bool.or_eq_true, decide_eq_true_eq, not_or, Bool.not_eq_true] at hc
      obtain ⟨⟨⟨⟨⟨⟨h1, _⟩, h47⟩, h42⟩, _⟩, _⟩, _⟩ := hc
      refine ⟨?_, ?_, ?_, h.symm⟩
      · by_cases e : scheme = b "http"
        · exact Or.inl e
        · by_cases e' : scheme = b "https"
          · exact Or.inr e'
          · exact absurd ⟨e, e'⟩ h1
      · simpa using h47
      · simpa using h42

theorem colon_not_in_scheme (s : Bytes) (h : s = b "http" ∨ s = b "https") : 58 ∉ s := by
  rcases h with h | h <;> subst h <;> decide

theorem stripSlash_cons (c : Nat) (r : Bytes) (hc : c ≠ 47) : stripSlash (c :: r) = c :: stripSlash r := by
  unfold stripSlash
  cases r with
  | nil => simp [hc]
  | cons x xs => simp only [List.getLast?_cons_cons, List.dropLast]; split <;> rfl

theorem mem_stripSlash_mid (A t : Bytes) (c : Nat) (ht : t ≠ []) : c ∈ stripSlash (A ++ c :: t) := by
  unfold stripSlash
  split
  · have : (A ++ c :: t).dropLast = A ++ c :: t.dropLast := by
      rw [List.dropLast_append_of_ne_nil (by simp)]
      cases t with
      | nil => exact absurd rfl ht
      | cons x xs => simp [List.dropLast]
    rw [this]; simp
  · simp

theorem toLower_cons_dot (r : Bytes) : toLower (46 :: r) = 46 :: toLower r := by
  simp [toLower, lowerByte, isUpper]

/-- An entry without `://*.` that the constructor accepts: the specification reads it as the same
    exact `scheme://host`. -/
theorem entry_exact (raw n : Bytes)
    (hn : normalizeOrigin (trim raw 32) = some n) :
    ∃ s h, specEntry raw = some (.exact s h) ∧ n = s ++ b "://" ++ h ∧ 58 ∉ s := by
  obtain ⟨i, hi, hsch, _, h42, hnn⟩ := normalizeOrigin_some _ _ hn
  refine ⟨toLower ((trim raw 32).take i), toLower (stripSlash ((trim raw 32).drop (i + 3))), ?_, hnn,
    colon_not_in_scheme _ hsch⟩
  unfold specEntry
  simp only [hi]
  have hs : (if ((trim raw 32).drop (i + 3)).getLast? = some 47 then ((trim raw 32).drop (i + 3)).dropLast
      else (trim raw 32).drop (i + 3)) = stripSlash ((trim raw 32).drop (i + 3)) := rfl
  simp only [hs]
  generalize stripSlash ((trim raw 32).drop (i + 3)) = host at h42 ⊢
  have : hasPrefix host (b "*.") = false := by
    cases host with
    | nil => rfl
    | cons x xs =>
      have hx : x ≠ 42 := by intro e; subst e; simp at h42
      have hx' : ¬ 42 = x := fun e => hx e.symm
      simp [hasPrefix, b, List.isPrefixOf, hx']
  simp [this]

/-- A wildcard entry `…://*.…` that the constructor accepts: the scheme ends where the wildcard
    marker starts, the stored pair is (`scheme://`, `.domain`), and the specification reads the entry
    as `wild scheme domain`. -/
theorem entry_wild (raw n : Bytes) (i : Nat) (hi : indexOf (trim raw 32) (b "://*.") = some i)
    (hn : normalizeOrigin ((trim raw 32).take (i + 3) ++ (trim raw 32).drop (i + 4)) = some n) :
    ∃ s d, specEntry raw = some (.wild s d) ∧ n.take (i + 3) = s ++ b "://" ∧ n.drop (i + 3) = 46 :: d ∧
      58 ∉ s := by
  generalize hto : trim raw 32 = o at hi hn
  obtain ⟨p, r, ho, hp⟩ := indexOf_split _ _ _ hi
  -- the entry with the `*` cut out
  have hcut : o.take (i + 3) ++ o.drop (i + 4) = p ++ b "://" ++ 46 :: r := by
    subst ho hp
    have e1 : p ++ b "://*." ++ r = (p ++ b "://") ++ (42 :: 46 :: r) := by simp [b]
    have l1 : (p ++ b "://").length = p.length + 3 := by simp [b]
    have e2 : p ++ b "://*." ++ r = (p ++ b "://" ++ [42]) ++ (46 :: r) := by simp [b]
    have l2 : (p ++ b "://" ++ [42]).length = p.length + 4 := by simp [b]
    have t : (p ++ b "://*." ++ r).take (p.length + 3) = p ++ b "://" := by
      rw [e1]; exact List.take_left' l1
    have d : (p ++ b "://*." ++ r).drop (p.length + 4) = 46 :: r := by
      rw [e2]; exact List.drop_left' l2
    rw [t, d]
  rw [hcut] at hn
  obtain ⟨j, hj, hsch, h47, _, hnn⟩ := normalizeOrigin_some _ _ hn
  have hji : j ≤ i := by
    have := indexOf_min _ _ p (46 :: r) j hj rfl
    omega
  -- the first `://` of the cut entry is the one in front of the wildcard
  have hij : j = i := by
    by_cases hlt : j < i
    · exfalso
      apply h47
      have e : p ++ b "://" ++ 46 :: r = (p ++ [58, 47]) ++ 47 :: 46 :: r := by simp [b]
      have l : j + 3 ≤ (p ++ [58, 47]).length := by simp; omega
      rw [e, List.drop_append_of_le_length l]
      exact mem_stripSlash_mid _ _ 47 (by simp)
    · omega
  subst hij
  have htake : (p ++ b "://" ++ 46 :: r).take j = p := by
    rw [List.append_assoc, ← hp]; simp
  have hdrop : (p ++ b "://" ++ 46 :: r).drop (j + 3) = 46 :: r := by
    have l1 : (p ++ b "://").length = j + 3 := by simp [b, hp]
    rw [← l1]; simp
  rw [htake, hdrop, stripSlash_cons 46 r (by decide), toLower_cons_dot] at hnn
  rw [htake] at hsch
  refine ⟨toLower p, toLower (stripSlash r), ?_, ?_, ?_, colon_not_in_scheme _ hsch⟩
  · -- the specification's reading
    have hj' : ∃ j', indexOf o (b "://") = some j' ∧ j' ≤ j := by
      have e : o = p ++ b "://" ++ (42 :: 46 :: r) := by rw [ho]; simp [b]
      obtain ⟨j', h1, h2⟩ := indexOf_le (b "://") p (42 :: 46 :: r)
      exact ⟨j', by rw [e]; exact h1, by omega⟩
    obtain ⟨j', hj', hle⟩ := hj'
    have hjj : j' = j := by
      by_cases hlt : j' < j
      · exfalso
        obtain ⟨p', r', ho', hp'⟩ := indexOf_split _ _ _ hj'
        -- `p' ++ "://"` is a prefix of `p ++ "://"`, hence of the cut entry as well
        have pre1 : (p' ++ b "://") <+: o := ⟨r', by rw [ho']⟩
        have pre2 : (p ++ b "://") <+: o := ⟨42 :: 46 :: r, by rw [ho]; simp [b]⟩
        have hlen : (p' ++ b "://").length ≤ (p ++ b "://").length := by simp [b]; omega
        obtain ⟨t, ht⟩ := List.prefix_of_prefix_length_le pre1 pre2 hlen
        have : p ++ b "://" ++ 46 :: r = p' ++ b "://" ++ (t ++ 46 :: r) := by
          rw [← ht]; simp
        have := indexOf_min _ _ p' (t ++ 46 :: r) j hj this
        omega
      · omega
    subst hjj
    have htake' : o.take j' = p := by rw [ho, List.append_assoc, ← hp]; simp
    have hdrop' : o.drop (j' + 3) = 42 :: 46 :: r := by
      have e : o = (p ++ b "://") ++ (42 :: 46 :: r) := by rw [ho]; simp [b]
      have l1 : (p ++ b "://").length = j' + 3 := by simp [b, hp]
      rw [e, ← l1]; simp
    unfold specEntry
    simp only [hto, hj', htake', hdrop']
    have hs : (if (42 :: 46 :: r).getLast? = some 47 then (42 :: 46 :: r).dropLast else 42 :: 46 :: r)
        = stripSlash (42 :: 46 :: r) := rfl
    rw [hs, stripSlash_cons 42 _ (by decide), stripSlash_cons 46 _ (by decide)]
    simp [hasPrefix, b, List.isPrefixOf]
  · have l : (toLower p ++ b "://").length = j + 3 := by simp [toLower_length, b, hp]
    rw [hnn]; exact List.take_left' l
  · have l : (toLower p ++ b "://").length = j + 3 := by simp [toLower_length, b, hp]
    rw [hnn]; exact List.drop_left' l

/-- the stored exact origin `n` stands for the specification entry `e` -/
def ExactRel (n : Bytes) (e : TrustEntry) : Prop :=
  ∃ s h, e = .exact s h ∧ n = s ++ b "://" ++ h ∧ 58 ∉ s

/-- the stored wildcard pair `sd` stands for the specification entry `e` -/
def WildRel (sd : Sub) (e : TrustEntry) : Prop :=
  ∃ s d, e = .wild s d ∧ sd.pre = s ++ b "://" ∧ sd.suf = 46 :: d ∧ 58 ∉ s

/-- Everything the constructor loop stores stands for the specification's reading of one of the
    configured strings. -/
theorem buildLoop_sound (raw : List Bytes) (os : List Bytes) (ss : List Sub) (os' : List Bytes) (ss' : List Sub)
    (h : buildLoop raw os ss = some (os', ss')) :
    (∀ n ∈ os', n ∈ os ∨ ∃ r ∈ raw, ∃ e, specEntry r = some e ∧ ExactRel n e) ∧
    (∀ sd ∈ ss', sd ∈ ss ∨ ∃ r ∈ raw, ∃ e, specEntry r = some e ∧ WildRel sd e) := by
  induction raw generalizing os ss with
  | nil =>
    simp only [buildLoop, Option.some.injEq, Prod.mk.injEq] at h
    obtain ⟨h1, h2⟩ := h
    subst h1 h2
    exact ⟨fun n hn => Or.inl hn, fun sd hsd => Or.inl hsd⟩
  | cons o rest ih =>
    unfold buildLoop at h
    simp only at h
    split at h
    · rename_i i hi
      split at h
      · simp at h
      · rename_i n hn
        obtain ⟨s, d, hspec, hpre, hsuf, hcol⟩ := entry_wild o n i hi hn
        obtain ⟨ih1, ih2⟩ := ih _ _ h
        refine ⟨fun m hm => ?_, fun sd hsd => ?_⟩
        · rcases ih1 m hm with h' | ⟨r, hr, e, he, hrel⟩
          · exact Or.inl h'
          · exact Or.inr ⟨r, List.mem_cons_of_mem _ hr, e, he, hrel⟩
        · rcases ih2 sd hsd with h' | ⟨r, hr, e, he, hrel⟩
          · rcases List.mem_append.mp h' with h'' | h''
            · exact Or.inl h''
            · simp only [List.mem_singleton] at h''
              subst h''
              exact Or.inr ⟨o, by simp, _, hspec, s, d, rfl, hpre, hsuf, hcol⟩
          · exact Or.inr ⟨r, List.mem_cons_of_mem _ hr, e, he, hrel⟩
    · split at h
      · simp at h
      · rename_i n hn
        obtain ⟨s, hh, hspec, hnn, hcol⟩ := entry_exact o n hn
        obtain ⟨ih1, ih2⟩ := ih _ _ h
        refine ⟨fun m hm => ?_, fun sd hsd => ?_⟩
        · rcases ih1 m hm with h' | ⟨r, hr, e, he, hrel⟩
          · rcases List.mem_append.mp h' with h'' | h''
            · exact Or.inl h''
            · simp only [List.mem_singleton] at h''
              subst h''
              exact Or.inr ⟨o, by simp, _, hspec, s, hh, rfl, hnn, hcol⟩
          · exact Or.inr ⟨r, List.mem_cons_of_mem _ hr, e, he, hrel⟩
        · rcases ih2 sd hsd with h' | ⟨r, hr, e, he, hrel⟩
          · exact Or.inl h'
          · exact Or.inr ⟨r, List.mem_cons_of_mem _ hr, e, he, hrel⟩

theorem exactRel_admits (n : Bytes) (e : TrustEntry) (sch host : Bytes) (hrel : ExactRel n e)
    (hc : 58 ∉ sch) (heq : sch ++ b "://" ++ host = n) : e.admits sch host = true := by
  obtain ⟨s, h, he, hn, hs⟩ := hrel
  subst he
  rw [hn] at heq
  have e1 : sch ++ b "://" ++ host = sch ++ 58 :: (47 :: 47 :: host) := by simp [b]
  have e2 : s ++ b "://" ++ h = s ++ 58 :: (47 :: 47 :: h) := by simp [b]
  rw [e1, e2] at heq
  obtain ⟨h1, h2⟩ := split_at_first 58 _ _ _ _ hc hs heq
  simp only [List.cons.injEq, true_and] at h2
  simp [TrustEntry.admits, h1, h2]

theorem wildRel_admits (sd : Sub) (e : TrustEntry) (sch host : Bytes) (hrel : WildRel sd e)
    (hc : 58 ∉ sch) (hm : sd.match (sch ++ b "://" ++ host) = true) : e.admits sch host = true := by
  obtain ⟨s, d, he, hpre, hsuf, hs⟩ := hrel
  subst he
  unfold Sub.match hasPrefix hasSuffix at hm
  simp only [Bool.and_eq_true, decide_eq_true_eq] at hm
  obtain ⟨⟨hl, hp⟩, hsf⟩ := hm
  rw [List.isPrefixOf_iff_prefix] at hp
  rw [List.isSuffixOf_iff_suffix] at hsf
  rw [hpre] at hp hl
  rw [hsuf] at hsf hl
  obtain ⟨t, ht⟩ := hp
  have e1 : sch ++ b "://" ++ host = sch ++ 58 :: (47 :: 47 :: host) := by simp [b]
  have e2 : s ++ b "://" ++ t = s ++ 58 :: (47 :: 47 :: t) := by simp [b]
  rw [e1, e2] at ht
  obtain ⟨h1, h2⟩ := split_at_first 58 _ _ _ _ hs hc ht
  simp only [List.cons.injEq, true_and] at h2
  subst h1
  have hlen : (46 :: d).length ≤ host.length := by
    simp [b] at hl ⊢; omega
  have hsuf' : (46 :: d) <:+ host :=
    List.suffix_of_suffix_length_le hsf (List.suffix_append _ _) hlen
  simp only [TrustEntry.admits, hasSuffix, b, Bool.and_eq_true, decide_eq_true_eq, true_and]
  rw [List.isSuffixOf_iff_suffix]
  exact hsuf'

/-- **The trust decision is sound.** For a configuration the constructor accepted, every
    `scheme://host` the handler trusts (exact list or wildcard pair) is admitted by the
    specification's reading of the configured strings: same scheme and same host, or same scheme and
    a host ending in `.domain`. (`scheme` is what `net/url` returns: it has no colon.) -/
theorem trusted_sound (raw : List Bytes) (cfg : Cfg)
    (hb : buildLoop raw [] [] = some (cfg.origins, cfg.subs)) (sch host : Bytes) (hc : 58 ∉ sch)
    (ht : trusted cfg (sch ++ b "://" ++ host) = true) :
    (raw.filterMap specEntry).any (·.admits sch host) = true := by
  obtain ⟨h1, h2⟩ := buildLoop_sound raw [] [] _ _ hb
  unfold trusted at ht
  simp only [Bool.or_eq_true, List.any_eq_true] at ht ⊢
  rcases ht with ht | ⟨sd, hsd, hm⟩
  · have hmem : (sch ++ b "://" ++ host) ∈ cfg.origins := by simpa using ht
    rcases h1 _ hmem with h' | ⟨r, hr, e, he, hrel⟩
    · simp at h'
    · exact ⟨e, List.mem_filterMap.mpr ⟨r, hr, he⟩, exactRel_admits _ e sch host hrel hc rfl⟩
  · rcases h2 sd hsd with h' | ⟨r, hr, e, he, hrel⟩
    · simp at h'
    · exact ⟨e, List.mem_filterMap.mpr ⟨r, hr, he⟩, wildRel_admits sd e sch host hrel hc hm⟩

/-- `net/url` schemes contain no colon (assumption on the URL parser parameter; the driver checks it
    on every case) -/
def UrlInfo.wf (u : UrlInfo) : Prop := 58 ∉ u.scheme

/-- **Origin gate.** When the handler lets an unsafe request past the Origin/Referer checks, the
    specification's origin clause holds: a present Origin (or, on https without Origin, a present
    Referer) parses and is the request's own scheme and host, or is admitted by a configured entry
    (exact, or wildcard on a dot boundary); never the path, query or fragment. -/
theorem gate_sound (raw : List Bytes) (cfg : Cfg)
    (hb : buildLoop raw [] [] = some (cfg.origins, cfg.subs)) (q : Req)
    (ho : q.ourl.wf) (hr : q.rurl.wf) (hg : originGate cfg q = true) :
    originClause (specConfig cfg.backend cfg.ext cfg.single cfg.idle raw) q = true := by
  have key : ∀ u : UrlInfo, u.wf → u.ok = true →
      ((u.scheme = reqScheme q ∧ u.host = reqHost q) ∨ trusted cfg (u.scheme ++ b "://" ++ u.host) = true) →
      originAllowed (specConfig cfg.backend cfg.ext cfg.single cfg.idle raw) q u = true := by
    intro u hu hok hcase
    unfold originAllowed
    simp only [hok, Bool.true_and, Bool.or_eq_true]
    rcases hcase with ⟨h1, h2⟩ | h
    · left; simp [sameOrigin, h1, h2, reqHost]
    · right; exact trusted_sound raw cfg hb _ _ hu h
  unfold originGate at hg
  unfold originClause originPresent
  unfold originCheck at hg
  simp only at hg
  by_cases h0 : toLower q.origin = [] ∨ toLower q.origin = b "null"
  · -- no Origin: the Referer decides on https
    have hnp : (toLower q.origin ≠ [] && toLower q.origin ≠ b "null") = false := by
      rcases h0 with h | h <;> simp [h]
    simp only [h0, if_true] at hg
    simp only [hnp]
    cases hs : q.https
    · simp
    · simp only [hs, if_true] at hg
      unfold refererCheck at hg
      simp only at hg
      by_cases hr0 : toLower q.referer = []
      · simp [hr0] at hg
      · simp only [hr0, if_false] at hg
        have hne : (toLower q.referer ≠ []) := hr0
        simp only [Bool.true_and, ne_eq, hne, not_false_eq_true, decide_true, if_true, Bool.false_eq_true, if_false]
        cases hok : q.rurl.ok
        · simp [hok] at hg
        · simp only [hok, Bool.not_true, Bool.false_eq_true, if_false] at hg
          apply key q.rurl hr hok
          by_cases hsame : q.rurl.scheme = reqScheme q ∧ q.rurl.host = reqHost q
          · exact Or.inl hsame
          · right
            simp only [hsame, if_false] at hg
            by_cases ht : trusted cfg (q.rurl.scheme ++ b "://" ++ q.rurl.host) = true
            · exact ht
            · rw [List.append_assoc] at ht; simp [ht] at hg
  · have hp : (toLower q.origin ≠ [] && toLower q.origin ≠ b "null") = true := by
      simp only [not_or] at h0
      simp [h0.1, h0.2]
    simp only [h0, if_false] at hg
    simp only [hp, if_true]
    cases hok : q.ourl.ok
    · simp [hok] at hg
    · simp only [hok, Bool.not_true, Bool.false_eq_true, if_false] at hg
      apply key q.ourl ho hok
      by_cases hsame : q.ourl.scheme = reqScheme q ∧ q.ourl.host = reqHost q
      · exact Or.inl hsame
      · right
        simp only [hsame, if_false] at hg
        by_cases ht : trusted cfg (q.ourl.scheme ++ b "://" ++ q.ourl.host) = true
        · exact ht
        · rw [List.append_assoc] at ht; simp [ht] at hg

end C16
