import FiberModel.C16.Spec
import FiberModel.C16.ListLemmas
import FiberModel.C19.Origin
/-
C16 — the constructor's trusted-origin tables (`buildLoop`, `normalizeOrigin`, `Sub.match`) against
the specification's independent reading of the configuration strings (`specEntry`,
`TrustEntry.admits`): everything the model trusts, the specification admits.
-/
namespace C16
open B

/-! ### the URL reader: schemes hold no colon -/

/-- the scheme `net/url` reports holds no colon (consequence of the transcription, `C19.parse_scheme_no_colon`) -/
def UrlInfo.wf (u : UrlInfo) : Prop := 58 ∉ u.scheme

theorem urlInfoOf_wf (t : Bytes) : (urlInfoOf t).wf := by
  unfold UrlInfo.wf urlInfoOf
  cases h : C19.Url.parse t with
  | none => simp
  | some u => exact fun m => C19.parse_scheme_no_colon t u h 58 m rfl

theorem Req.ourl_wf (q : Req) : q.ourl.wf := urlInfoOf_wf _
theorem Req.rurl_wf (q : Req) : q.rurl.wf := urlInfoOf_wf _

theorem scheme_http (s : Bytes) (h : s = b "http" ∨ s = b "https") : 58 ∉ s ∧ toLower s = s := by
  rcases h with h | h <;> subst h <;> exact ⟨by decide, by decide⟩

/-! ### `normalizeOrigin` is the specification's reading of a URL text -/

/-- helpers.go `normalizeOrigin` accepts exactly the texts that denote an origin, and answers that
    origin written as `scheme://host`. -/
theorem normalizeOrigin_eq (o : Bytes) :
    normalizeOrigin o = (originOfText o).map fun p => p.1 ++ b "://" ++ p.2 := by
  unfold normalizeOrigin originOfText
  cases hp : C19.Url.parse o with
  | none => rfl
  | some u =>
    simp only
    by_cases hs : u.scheme = b "http" ∨ u.scheme = b "https"
    · have hl := (scheme_http _ hs).2
      have hs' : ¬ (u.scheme ≠ b "http" ∧ u.scheme ≠ b "https") := by
        rcases hs with e | e <;> simp [e]
      rw [if_neg hs']
      by_cases h1 : 42 ∈ u.host
      · simp [h1]
      · by_cases h2 : u.host = [] <;> by_cases h3 : u.path = [] <;> by_cases h4 : u.path = b "/" <;>
          by_cases h5 : u.rawQuery = [] <;> by_cases h6 : u.fragment = [] <;>
          simp [hs, h1, h2, h3, h4, h5, h6, hl]
    · have hs' : u.scheme ≠ b "http" ∧ u.scheme ≠ b "https" := by
        constructor <;> intro e <;> exact hs (by simp [e])
      rw [if_pos hs']
      simp [hs]

theorem originOfText_scheme (o s h : Bytes) (hh : originOfText o = some (s, h)) : 58 ∉ s ∧ h ≠ [] := by
  unfold originOfText at hh
  cases hp : C19.Url.parse o with
  | none => simp [hp] at hh
  | some u =>
    simp only [hp] at hh
    split at hh
    · rename_i hc
      simp only [Option.some.injEq, Prod.mk.injEq] at hh
      obtain ⟨e1, e2⟩ := hh
      subst e1
      refine ⟨(scheme_http _ hc.1).1, ?_⟩
      intro e
      rw [← e2] at e
      have := congrArg List.length e
      simp [toLower_length] at this
      exact hc.2.1 this
    · simp at hh

/-- what a successful `normalizeOrigin` tells -/
theorem normalizeOrigin_some (o n : Bytes) (h : normalizeOrigin o = some n) :
    ∃ s h', originOfText o = some (s, h') ∧ n = s ++ b "://" ++ h' ∧ 58 ∉ s := by
  rw [normalizeOrigin_eq] at h
  cases ho : originOfText o with
  | none => simp [ho] at h
  | some p =>
    obtain ⟨s, h'⟩ := p
    simp only [ho, Option.map_some, Option.some.injEq] at h
    exact ⟨s, h', rfl, h.symm, (originOfText_scheme o s h' ho).1⟩

/-- the split of a normalised origin behind its own `://` -/
theorem wildcardSplit_eq (s h : Bytes) (hs : 58 ∉ s) :
    wildcardSplit (s ++ b "://" ++ h) =
      if h.head? = some 46 then some { pre := s ++ b "://", suf := h } else none := by
  unfold wildcardSplit
  have hidx : indexOf (s ++ b "://" ++ h) (b "://") = some s.length :=
    C19.indexOf_after_free s (b "://") h 58 [47, 47] (by decide) (fun x hx e => hs (e ▸ hx))
  have hlen : s.length + 3 = (s ++ b "://").length := by simp [b]
  have htake : (s ++ b "://" ++ h).take (s.length + 3) = s ++ b "://" := by
    rw [hlen]; exact List.take_left' rfl
  have hdrop : (s ++ b "://" ++ h).drop (s.length + 3) = h := by
    rw [hlen]; exact List.drop_left' rfl
  simp only [hidx, htake, hdrop]

/-- An entry without `://*.` that the constructor accepts: the specification reads it as the same
    exact `scheme://host`. -/
theorem entry_exact (raw n : Bytes) (hi : indexOf (trim raw 32) (b "://*.") = none)
    (hn : normalizeOrigin (trim raw 32) = some n) :
    ∃ s h, specEntry raw = some (.exact s h) ∧ n = s ++ b "://" ++ h ∧ 58 ∉ s := by
  obtain ⟨s, h, ho, hnn, hc⟩ := normalizeOrigin_some _ _ hn
  refine ⟨s, h, ?_, hnn, hc⟩
  unfold specEntry
  simp only [hi, ho]

/-- … and conversely: an entry without `://*.` that denotes an origin is accepted and stored as that
    origin. -/
theorem entry_exact_conv (raw s h : Bytes) (hi : indexOf (trim raw 32) (b "://*.") = none)
    (hs : specEntry raw = some (.exact s h)) :
    normalizeOrigin (trim raw 32) = some (s ++ b "://" ++ h) ∧ 58 ∉ s := by
  unfold specEntry at hs
  simp only [hi] at hs
  cases ho : originOfText (trim raw 32) with
  | none => simp [ho] at hs
  | some p =>
    obtain ⟨s', h'⟩ := p
    simp only [ho, Option.some.injEq, TrustEntry.exact.injEq] at hs
    obtain ⟨e1, e2⟩ := hs
    subst e1 e2
    exact ⟨by rw [normalizeOrigin_eq, ho]; rfl, (originOfText_scheme _ _ _ ho).1⟩

/-- A wildcard entry `…://*.…` that the constructor accepts: the stored pair is (`scheme://`,
    `.domain`), and the specification reads the entry as `wild scheme domain`. -/
theorem entry_wild (raw n : Bytes) (i : Nat) (sd : Sub) (hi : indexOf (trim raw 32) (b "://*.") = some i)
    (hn : normalizeOrigin ((trim raw 32).take (i + 3) ++ (trim raw 32).drop (i + 4)) = some n)
    (hw : wildcardSplit n = some sd) :
    ∃ s d, specEntry raw = some (.wild s d) ∧ sd.pre = s ++ b "://" ∧ sd.suf = 46 :: d ∧ 58 ∉ s := by
  obtain ⟨s, h, ho, hnn, hc⟩ := normalizeOrigin_some _ _ hn
  subst hnn
  rw [wildcardSplit_eq s h hc] at hw
  split at hw
  · rename_i hd
    simp only [Option.some.injEq] at hw
    subst hw
    cases h with
    | nil => simp at hd
    | cons x d =>
      simp only [List.head?_cons, Option.some.injEq] at hd
      subst hd
      refine ⟨s, d, ?_, rfl, rfl, hc⟩
      unfold specEntry
      simp only [hi, ho, List.head?_cons, if_true, List.drop_succ_cons, List.drop_zero]
  · simp at hw

/-- … and conversely: a wildcard entry that denotes `wild scheme domain` is accepted and stored as
    (`scheme://`, `.domain`). -/
theorem entry_wild_conv (raw s d : Bytes) (i : Nat) (hi : indexOf (trim raw 32) (b "://*.") = some i)
    (hs : specEntry raw = some (.wild s d)) :
    normalizeOrigin ((trim raw 32).take (i + 3) ++ (trim raw 32).drop (i + 4)) = some (s ++ b "://" ++ 46 :: d) ∧
    wildcardSplit (s ++ b "://" ++ 46 :: d) = some { pre := s ++ b "://", suf := 46 :: d } ∧ 58 ∉ s := by
  unfold specEntry at hs
  simp only [hi] at hs
  cases ho : originOfText ((trim raw 32).take (i + 3) ++ (trim raw 32).drop (i + 4)) with
  | none => simp [ho] at hs
  | some p =>
    obtain ⟨s', h'⟩ := p
    simp only [ho] at hs
    split at hs
    · rename_i hd
      simp only [Option.some.injEq, TrustEntry.wild.injEq] at hs
      obtain ⟨e1, e2⟩ := hs
      subst e1
      cases h' with
      | nil => simp at hd
      | cons x t =>
        simp only [List.head?_cons, Option.some.injEq] at hd
        subst hd
        simp only [List.drop_succ_cons, List.drop_zero] at e2
        subst e2
        have hc := (originOfText_scheme _ _ _ ho).1
        refine ⟨by rw [normalizeOrigin_eq, ho]; rfl, ?_, hc⟩
        rw [wildcardSplit_eq _ _ hc]
        simp
    · simp at hs

/-- the stored exact origin `n` stands for the specification entry `e` -/
def ExactRel (n : Bytes) (e : TrustEntry) : Prop :=
  ∃ s h, e = .exact s h ∧ n = s ++ b "://" ++ h ∧ 58 ∉ s

/-- the stored wildcard pair `sd` stands for the specification entry `e` -/
def WildRel (sd : Sub) (e : TrustEntry) : Prop :=
  ∃ s d, e = .wild s d ∧ sd.pre = s ++ b "://" ∧ sd.suf = 46 :: d ∧ 58 ∉ s

/-- Everything the constructor loop stores stands for the specification's reading of one of the
    configured strings. -/
theorem buildLoop_sound (raw : List Bytes) (os : List Bytes) (ss : List Sub) (os' : List Bytes) (ss' : List Sub)
    (h : buildLoop raw os ss = some (os', ss')) :
    (∀ n ∈ os', n ∈ os ∨ ∃ r ∈ raw, ∃ e, specEntry r = some e ∧ ExactRel n e) ∧
    (∀ sd ∈ ss', sd ∈ ss ∨ ∃ r ∈ raw, ∃ e, specEntry r = some e ∧ WildRel sd e) := by
  induction raw generalizing os ss with
  | nil =>
    simp only [buildLoop, Option.some.injEq, Prod.mk.injEq] at h
    obtain ⟨h1, h2⟩ := h
    subst h1 h2
    exact ⟨fun n hn => Or.inl hn, fun sd hsd => Or.inl hsd⟩
  | cons o rest ih =>
    unfold buildLoop at h
    simp only at h
    split at h
    · rename_i i hi
      split at h
      · simp at h
      · rename_i n hn
        split at h
        · simp at h
        rename_i sd0 hw
        obtain ⟨s, d, hspec, hpre, hsuf, hcol⟩ := entry_wild o n i sd0 hi hn hw
        obtain ⟨ih1, ih2⟩ := ih _ _ h
        refine ⟨fun m hm => ?_, fun sd hsd => ?_⟩
        · rcases ih1 m hm with h' | ⟨r, hr, e, he, hrel⟩
          · exact Or.inl h'
          · exact Or.inr ⟨r, List.mem_cons_of_mem _ hr, e, he, hrel⟩
        · rcases ih2 sd hsd with h' | ⟨r, hr, e, he, hrel⟩
          · rcases List.mem_append.mp h' with h'' | h''
            · exact Or.inl h''
            · simp only [List.mem_singleton] at h''
              subst h''
              exact Or.inr ⟨o, by simp, _, hspec, s, d, rfl, hpre, hsuf, hcol⟩
          · exact Or.inr ⟨r, List.mem_cons_of_mem _ hr, e, he, hrel⟩
    · rename_i hi
      split at h
      · simp at h
      · rename_i n hn
        obtain ⟨s, hh, hspec, hnn, hcol⟩ := entry_exact o n hi hn
        obtain ⟨ih1, ih2⟩ := ih _ _ h
        refine ⟨fun m hm => ?_, fun sd hsd => ?_⟩
        · rcases ih1 m hm with h' | ⟨r, hr, e, he, hrel⟩
          · rcases List.mem_append.mp h' with h'' | h''
            · exact Or.inl h''
            · simp only [List.mem_singleton] at h''
              subst h''
              exact Or.inr ⟨o, by simp, _, hspec, s, hh, rfl, hnn, hcol⟩
          · exact Or.inr ⟨r, List.mem_cons_of_mem _ hr, e, he, hrel⟩
        · rcases ih2 sd hsd with h' | ⟨r, hr, e, he, hrel⟩
          · exact Or.inl h'
          · exact Or.inr ⟨r, List.mem_cons_of_mem _ hr, e, he, hrel⟩

theorem exactRel_admits (n : Bytes) (e : TrustEntry) (sch host : Bytes) (hrel : ExactRel n e)
    (hc : 58 ∉ sch) (heq : sch ++ b "://" ++ host = n) : e.admits sch host = true := by
  obtain ⟨s, h, he, hn, hs⟩ := hrel
  subst he
  rw [hn] at heq
  have e1 : sch ++ b "://" ++ host = sch ++ 58 :: (47 :: 47 :: host) := by simp [b]
  have e2 : s ++ b "://" ++ h = s ++ 58 :: (47 :: 47 :: h) := by simp [b]
  rw [e1, e2] at heq
  obtain ⟨h1, h2⟩ := split_at_first 58 _ _ _ _ hc hs heq
  simp only [List.cons.injEq, true_and] at h2
  simp [TrustEntry.admits, h1, h2]

theorem wildRel_admits (sd : Sub) (e : TrustEntry) (sch host : Bytes) (hrel : WildRel sd e)
    (hc : 58 ∉ sch) (hm : sd.match (sch ++ b "://" ++ host) = true) : e.admits sch host = true := by
  obtain ⟨s, d, he, hpre, hsuf, hs⟩ := hrel
  subst he
  unfold Sub.match hasPrefix hasSuffix at hm
  simp only [Bool.and_eq_true, decide_eq_true_eq] at hm
  obtain ⟨⟨hl, hp⟩, hsf⟩ := hm
  rw [List.isPrefixOf_iff_prefix] at hp
  rw [List.isSuffixOf_iff_suffix] at hsf
  rw [hpre] at hp hl
  rw [hsuf] at hsf hl
  obtain ⟨t, ht⟩ := hp
  have e1 : sch ++ b "://" ++ host = sch ++ 58 :: (47 :: 47 :: host) := by simp [b]
  have e2 : s ++ b "://" ++ t = s ++ 58 :: (47 :: 47 :: t) := by simp [b]
  rw [e1, e2] at ht
  obtain ⟨h1, h2⟩ := split_at_first 58 _ _ _ _ hs hc ht
  simp only [List.cons.injEq, true_and] at h2
  subst h1
  have hlen : (46 :: d).length ≤ host.length := by
    simp [b] at hl ⊢; omega
  have hsuf' : (46 :: d) <:+ host :=
    List.suffix_of_suffix_length_le hsf (List.suffix_append _ _) hlen
  simp only [TrustEntry.admits, hasSuffix, b, Bool.and_eq_true, decide_eq_true_eq, true_and]
  rw [List.isSuffixOf_iff_suffix]
  exact hsuf'

/-- **The trust decision is sound.** For a configuration the constructor accepted, every
    `scheme://host` the handler trusts (exact list or wildcard pair) is admitted by the
    specification's reading of the configured strings: same scheme and same host, or same scheme and
    a host ending in `.domain`. (`scheme` is what `net/url` returns: it has no colon.) -/
theorem trusted_sound (raw : List Bytes) (cfg : Cfg)
    (hb : buildLoop raw [] [] = some (cfg.origins, cfg.subs)) (sch host : Bytes) (hc : 58 ∉ sch)
    (ht : trusted cfg (sch ++ b "://" ++ host) = true) :
    (raw.filterMap specEntry).any (·.admits sch host) = true := by
  obtain ⟨h1, h2⟩ := buildLoop_sound raw [] [] _ _ hb
  unfold trusted at ht
  simp only [Bool.or_eq_true, List.any_eq_true] at ht ⊢
  rcases ht with ht | ⟨sd, hsd, hm⟩
  · have hmem : (sch ++ b "://" ++ host) ∈ cfg.origins := by simpa using ht
    rcases h1 _ hmem with h' | ⟨r, hr, e, he, hrel⟩
    · simp at h'
    · exact ⟨e, List.mem_filterMap.mpr ⟨r, hr, he⟩, exactRel_admits _ e sch host hrel hc rfl⟩
  · rcases h2 sd hsd with h' | ⟨r, hr, e, he, hrel⟩
    · simp at h'
    · exact ⟨e, List.mem_filterMap.mpr ⟨r, hr, he⟩, wildRel_admits sd e sch host hrel hc hm⟩

/-! ### … and conversely: everything the configured strings admit, the handler trusts -/

theorem specEntry_shape (r : Bytes) (e : TrustEntry) (h : specEntry r = some e) :
    (indexOf (trim r 32) (b "://*.") = none ∧ ∃ s h', e = .exact s h') ∨
    (∃ i, indexOf (trim r 32) (b "://*.") = some i ∧ ∃ s d, e = .wild s d) := by
  unfold specEntry at h
  simp only at h
  split at h
  · rename_i i hi
    right
    refine ⟨i, hi, ?_⟩
    split at h
    · split at h
      · simp only [Option.some.injEq] at h; exact ⟨_, _, h.symm⟩
      · simp at h
    · simp at h
  · rename_i hi
    left
    refine ⟨hi, ?_⟩
    split at h
    · simp only [Option.some.injEq] at h; exact ⟨_, _, h.symm⟩
    · simp at h

/-- the loop only appends -/
theorem buildLoop_mono (raw : List Bytes) (os : List Bytes) (ss : List Sub) (os' : List Bytes) (ss' : List Sub)
    (h : buildLoop raw os ss = some (os', ss')) : (∀ n ∈ os, n ∈ os') ∧ (∀ sd ∈ ss, sd ∈ ss') := by
  induction raw generalizing os ss with
  | nil =>
    simp only [buildLoop, Option.some.injEq, Prod.mk.injEq] at h
    obtain ⟨h1, h2⟩ := h
    subst h1 h2
    exact ⟨fun n hn => hn, fun sd hsd => hsd⟩
  | cons o rest ih =>
    unfold buildLoop at h
    simp only at h
    split at h
    · split at h
      · simp at h
      · split at h
        · simp at h
        · obtain ⟨i1, i2⟩ := ih _ _ h
          exact ⟨i1, fun sd hsd => i2 sd (List.mem_append_left _ hsd)⟩
    · split at h
      · simp at h
      · obtain ⟨i1, i2⟩ := ih _ _ h
        exact ⟨fun n hn => i1 n (List.mem_append_left _ hn), i2⟩

/-- Every configured string that denotes something is stored by the constructor loop. -/
theorem buildLoop_complete (raw : List Bytes) (os : List Bytes) (ss : List Sub) (os' : List Bytes) (ss' : List Sub)
    (h : buildLoop raw os ss = some (os', ss')) :
    ∀ r ∈ raw, ∀ e, specEntry r = some e → (∃ n ∈ os', ExactRel n e) ∨ (∃ sd ∈ ss', WildRel sd e) := by
  induction raw generalizing os ss with
  | nil => intro r hr; simp at hr
  | cons o rest ih =>
    intro r hr e he
    unfold buildLoop at h
    simp only at h
    rcases List.mem_cons.mp hr with hro | hrr
    · subst hro
      rcases specEntry_shape r e he with ⟨hi, s, h', rfl⟩ | ⟨i, hi, s, d, rfl⟩
      · obtain ⟨hn, hc⟩ := entry_exact_conv r s h' hi he
        simp only [hi, hn] at h
        left
        exact ⟨s ++ b "://" ++ h', (buildLoop_mono _ _ _ _ _ h).1 _ (by simp), s, h', rfl, rfl, hc⟩
      · obtain ⟨hn, hw, hc⟩ := entry_wild_conv r s d i hi he
        simp only [hi, hn, hw] at h
        right
        exact ⟨{ pre := s ++ b "://", suf := 46 :: d }, (buildLoop_mono _ _ _ _ _ h).2 _ (by simp), s, d, rfl, rfl, rfl, hc⟩
    · split at h
      · split at h
        · simp at h
        · split at h
          · simp at h
          · exact ih _ _ h r hrr e he
      · split at h
        · simp at h
        · exact ih _ _ h r hrr e he

theorem admits_exactRel (n : Bytes) (e : TrustEntry) (sch host : Bytes) (hrel : ExactRel n e)
    (ha : e.admits sch host = true) : sch ++ b "://" ++ host = n := by
  obtain ⟨s, h, he, hn, _⟩ := hrel
  subst he
  simp only [TrustEntry.admits, Bool.and_eq_true, decide_eq_true_eq] at ha
  rw [hn, ha.1, ha.2]

theorem admits_wildRel (sd : Sub) (e : TrustEntry) (sch host : Bytes) (hrel : WildRel sd e)
    (ha : e.admits sch host = true) : sd.match (sch ++ b "://" ++ host) = true := by
  obtain ⟨s, d, he, hpre, hsuf, _⟩ := hrel
  subst he
  simp only [TrustEntry.admits, Bool.and_eq_true, decide_eq_true_eq, hasSuffix, b] at ha
  obtain ⟨hs, hsf⟩ := ha
  subst hs
  rw [List.isSuffixOf_iff_suffix] at hsf
  have hsf' : (46 :: d) <:+ host := by simpa using hsf
  unfold Sub.match hasPrefix hasSuffix
  rw [hpre, hsuf]
  simp only [Bool.and_eq_true, decide_eq_true_eq]
  refine ⟨⟨?_, ?_⟩, ?_⟩
  · have := hsf'.length_le
    simp only [List.length_append, List.length_cons] at this ⊢
    omega
  · rw [List.isPrefixOf_iff_prefix]; exact List.prefix_append _ _
  · rw [List.isSuffixOf_iff_suffix]
    exact hsf'.trans (List.suffix_append _ _)

/-- **The trust decision is complete**: whatever scheme and host a configured string admits, the
    handler trusts (written `scheme://host`). -/
theorem trusted_complete (raw : List Bytes) (cfg : Cfg)
    (hb : buildLoop raw [] [] = some (cfg.origins, cfg.subs)) (sch host : Bytes)
    (ha : (raw.filterMap specEntry).any (·.admits sch host) = true) :
    trusted cfg (sch ++ b "://" ++ host) = true := by
  simp only [List.any_eq_true] at ha
  obtain ⟨e, hmem, hadm⟩ := ha
  obtain ⟨r, hr, he⟩ := List.mem_filterMap.mp hmem
  unfold trusted
  simp only [Bool.or_eq_true, List.any_eq_true]
  rcases buildLoop_complete raw [] [] _ _ hb r hr e he with ⟨n, hn, hrel⟩ | ⟨sd, hsd, hrel⟩
  · left
    rw [admits_exactRel n e sch host hrel hadm]
    simpa using hn
  · right
    exact ⟨sd, hsd, admits_wildRel sd e sch host hrel hadm⟩

/-- **The trust decision is exact**: the handler trusts `scheme://host` iff a configured string admits
    that scheme and host. -/
theorem trusted_iff (raw : List Bytes) (cfg : Cfg)
    (hb : buildLoop raw [] [] = some (cfg.origins, cfg.subs)) (sch host : Bytes) (hc : 58 ∉ sch) :
    trusted cfg (sch ++ b "://" ++ host) = (raw.filterMap specEntry).any (·.admits sch host) := by
  rw [Bool.eq_iff_iff]
  exact ⟨trusted_sound raw cfg hb sch host hc, trusted_complete raw cfg hb sch host⟩

/-- the decision of `originMatchesHost` / `refererMatchesHost` on a parsed header is the
    specification's `originAllowed` -/
theorem allowed_eq (raw : List Bytes) (cfg : Cfg)
    (hb : buildLoop raw [] [] = some (cfg.origins, cfg.subs)) (q : Req) (u : UrlInfo) (hu : u.wf) :
    originAllowed (specConfig cfg.backend cfg.ext cfg.single cfg.idle raw) q u =
      (u.ok && (decide (u.scheme = reqScheme q ∧ u.host = reqHost q) || trusted cfg (u.scheme ++ b "://" ++ u.host))) := by
  unfold originAllowed sameOrigin reqHost
  rw [trusted_iff raw cfg hb _ _ hu]
  simp only [specConfig]
  cases u.ok <;> simp [Bool.decide_and]

/-- `originMatchesHost` returns nil exactly when the Origin is allowed (an Origin being present) -/
theorem originCheck_none_iff (raw : List Bytes) (cfg : Cfg)
    (hb : buildLoop raw [] [] = some (cfg.origins, cfg.subs)) (q : Req) (hp : originPresent q = true) :
    originCheck cfg q = none ↔ originAllowed (specConfig cfg.backend cfg.ext cfg.single cfg.idle raw) q q.ourl = true := by
  rw [allowed_eq raw cfg hb q q.ourl q.ourl_wf]
  unfold originPresent at hp
  simp only [Bool.and_eq_true, decide_eq_true_eq, ne_eq] at hp
  have h0 : ¬ (toLower q.origin = [] ∨ toLower q.origin = b "null") := by
    intro h; rcases h with h | h
    · exact hp.1 h
    · exact hp.2 h
  unfold originCheck
  simp only [h0, if_false]
  cases hok : q.ourl.ok
  · simp
  · simp only [Bool.not_true, Bool.false_eq_true, if_false, Bool.true_and, Bool.or_eq_true, decide_eq_true_eq]
    by_cases hs : q.ourl.scheme = reqScheme q ∧ q.ourl.host = reqHost q
    · simp [hs]
    · simp only [hs, if_false, false_or]
      simp

/-- `refererMatchesHost` returns nil exactly when the Referer is allowed (a Referer being present) -/
theorem refererCheck_none_iff (raw : List Bytes) (cfg : Cfg)
    (hb : buildLoop raw [] [] = some (cfg.origins, cfg.subs)) (q : Req) (hp : toLower q.referer ≠ []) :
    refererCheck cfg q = none ↔ originAllowed (specConfig cfg.backend cfg.ext cfg.single cfg.idle raw) q q.rurl = true := by
  rw [allowed_eq raw cfg hb q q.rurl q.rurl_wf]
  unfold refererCheck
  simp only [hp, if_false]
  cases hok : q.rurl.ok
  · simp
  · simp only [Bool.not_true, Bool.false_eq_true, if_false, Bool.true_and, Bool.or_eq_true, decide_eq_true_eq]
    by_cases hs : q.rurl.scheme = reqScheme q ∧ q.rurl.host = reqHost q
    · simp [hs]
    · simp only [hs, if_false, false_or]
      simp

/-- **The gate decides exactly as the specification reads the headers**: with an Origin present the
    gate opens iff that origin is allowed; without one, on https with a Referer present, iff the
    referer's origin is allowed; on https with neither header it stays shut (strict referer
    checking, stricter than the property asks); on plain http without Origin it opens. -/
theorem gate_exact (raw : List Bytes) (cfg : Cfg)
    (hb : buildLoop raw [] [] = some (cfg.origins, cfg.subs)) (q : Req) :
    originGate cfg q =
      if originPresent q then originAllowed (specConfig cfg.backend cfg.ext cfg.single cfg.idle raw) q q.ourl
      else if q.https then
        (if toLower q.referer ≠ [] then originAllowed (specConfig cfg.backend cfg.ext cfg.single cfg.idle raw) q q.rurl
         else false)
      else true := by
  by_cases hp : originPresent q = true
  · rw [if_pos hp]
    have h1 := originCheck_none_iff raw cfg hb q hp
    unfold originGate
    cases hc : originCheck cfg q with
    | none => simp only; exact (h1.mp hc).symm
    | some e =>
      have hne : originAllowed (specConfig cfg.backend cfg.ext cfg.single cfg.idle raw) q q.ourl = false := by
        cases ha : originAllowed (specConfig cfg.backend cfg.ext cfg.single cfg.idle raw) q q.ourl
        · rfl
        · have := h1.mpr ha; rw [hc] at this; cases this
      rw [hne]
      -- a present Origin never yields `notFound`
      have hnf : e ≠ .notFound := by
        intro he; subst he
        unfold originPresent at hp
        simp only [Bool.and_eq_true, decide_eq_true_eq, ne_eq] at hp
        unfold originCheck at hc
        have h0 : ¬ (toLower q.origin = [] ∨ toLower q.origin = b "null") := by
          intro h; rcases h with h | h
          · exact hp.1 h
          · exact hp.2 h
        simp only [h0, if_false] at hc
        split at hc
        · cases hc
        · split at hc
          · cases hc
          · split at hc <;> cases hc
      cases e <;> simp at hnf ⊢
  · rw [if_neg hp]
    have hp' : toLower q.origin = [] ∨ toLower q.origin = b "null" := by
      unfold originPresent at hp
      simp only [Bool.and_eq_true, decide_eq_true_eq, ne_eq, not_and, Decidable.not_not] at hp
      by_cases h : toLower q.origin = []
      · exact Or.inl h
      · exact Or.inr (hp h)
    have hc : originCheck cfg q = some .notFound := by
      unfold originCheck; simp only [hp', if_true]
    unfold originGate
    rw [hc]
    simp only
    cases hs : q.https
    · simp
    · simp only [if_true]
      by_cases hr : toLower q.referer = []
      · have : refererCheck cfg q = some .notFound := by unfold refererCheck; simp only [hr, if_true]
        simp [this, hr]
      · have h2 := refererCheck_none_iff raw cfg hb q hr
        simp only [ne_eq, hr, not_false_eq_true, if_true]
        cases hc2 : refererCheck cfg q with
        | none => simp only [Option.isNone_none]; exact (h2.mp hc2).symm
        | some e =>
          simp only [Option.isNone_some]
          cases ha : originAllowed (specConfig cfg.backend cfg.ext cfg.single cfg.idle raw) q q.rurl
          · rfl
          · have := h2.mpr ha; rw [hc2] at this; cases this

/-- **Origin gate.** When the handler lets an unsafe request past the Origin/Referer checks, the
    specification's origin clause holds: a present Origin (or, on https without Origin, a present
    Referer) parses and is the request's own scheme and host, or is admitted by a configured entry
    (exact, or wildcard on a dot boundary); never the path, query or fragment. -/
theorem gate_sound (raw : List Bytes) (cfg : Cfg)
    (hb : buildLoop raw [] [] = some (cfg.origins, cfg.subs)) (q : Req) (hg : originGate cfg q = true) :
    originClause (specConfig cfg.backend cfg.ext cfg.single cfg.idle raw) q = true := by
  have ho : q.ourl.wf := q.ourl_wf
  have hr : q.rurl.wf := q.rurl_wf
  have key : ∀ u : UrlInfo, u.wf → u.ok = true →
      ((u.scheme = reqScheme q ∧ u.host = reqHost q) ∨ trusted cfg (u.scheme ++ b "://" ++ u.host) = true) →
      originAllowed (specConfig cfg.backend cfg.ext cfg.single cfg.idle raw) q u = true := by
    intro u hu hok hcase
    unfold originAllowed
    simp only [hok, Bool.true_and, Bool.or_eq_true]
    rcases hcase with ⟨h1, h2⟩ | h
    · left; simp [sameOrigin, h1, h2, reqHost]
    · right; exact trusted_sound raw cfg hb _ _ hu h
  unfold originGate at hg
  unfold originClause originPresent
  unfold originCheck at hg
  simp only at hg
  by_cases h0 : toLower q.origin = [] ∨ toLower q.origin = b "null"
  · -- no Origin: the Referer decides on https
    have hnp : (toLower q.origin ≠ [] && toLower q.origin ≠ b "null") = false := by
      rcases h0 with h | h <;> simp [h]
    simp only [h0, if_true] at hg
    simp only [hnp]
    cases hs : q.https
    · simp
    · simp only [hs, if_true] at hg
      unfold refererCheck at hg
      simp only at hg
      by_cases hr0 : toLower q.referer = []
      · simp [hr0] at hg
      · simp only [hr0, if_false] at hg
        have hne : (toLower q.referer ≠ []) := hr0
        simp only [Bool.true_and, ne_eq, hne, not_false_eq_true, decide_true, if_true, Bool.false_eq_true, if_false]
        cases hok : q.rurl.ok
        · simp [hok] at hg
        · simp only [hok, Bool.not_true, Bool.false_eq_true, if_false] at hg
          apply key q.rurl hr hok
          by_cases hsame : q.rurl.scheme = reqScheme q ∧ q.rurl.host = reqHost q
          · exact Or.inl hsame
          · right
            simp only [hsame, if_false] at hg
            by_cases ht : trusted cfg (q.rurl.scheme ++ b "://" ++ q.rurl.host) = true
            · exact ht
            · rw [List.append_assoc] at ht; simp [ht] at hg
  · have hp : (toLower q.origin ≠ [] && toLower q.origin ≠ b "null") = true := by
      simp only [not_or] at h0
      simp [h0.1, h0.2]
    simp only [h0, if_false] at hg
    simp only [hp, if_true]
    cases hok : q.ourl.ok
    · simp [hok] at hg
    · simp only [hok, Bool.not_true, Bool.false_eq_true, if_false] at hg
      apply key q.ourl ho hok
      by_cases hsame : q.ourl.scheme = reqScheme q ∧ q.ourl.host = reqHost q
      · exact Or.inl hsame
      · right
        simp only [hsame, if_false] at hg
        by_cases ht : trusted cfg (q.ourl.scheme ++ b "://" ++ q.ourl.host) = true
        · exact ht
        · rw [List.append_assoc] at ht; simp [ht] at hg

end C16
