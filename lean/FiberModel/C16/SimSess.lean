import FiberModel.C16.Sim
/-
C16 — session back-ends: the invariant over the session store and the lemmas shared by the two
session variants (`Config.Session` with and without the session middleware).
-/
set_option linter.unusedSimpArgs false
set_option linter.unusedVariables false

namespace C16
open B

/-- session back-ends: the token of every stored session was issued, is live in the specification at
    least as long, and the specification knows it as handed to exactly that session -/
def SessOK (gen : Nat → Bytes) (idle ntok now : Nat) (sess : List (Bytes × Option Tok))
    (live : List (Bytes × LiveTok)) : Prop :=
  ∀ id k d, lookup sess id = some (some ⟨k, d⟩) →
    id ≠ [] ∧ (∃ i, i < ntok ∧ gen i = k) ∧ d ≤ now + idle ∧
      ∃ l, lookup live k = some l ∧ d ≤ l.deadline ∧ l.holder = some id

theorem sessOK_mono (gen : Nat → Bytes) (idle n n' now now' : Nat) (sess live)
    (h : SessOK gen idle n now sess live) (hn : n ≤ n') (hnow : now ≤ now') :
    SessOK gen idle n' now' sess live := by
  intro id k d hk
  obtain ⟨h0, ⟨i, hi, he⟩, hd, hl⟩ := h id k d hk
  exact ⟨h0, ⟨i, by omega, he⟩, by omega, hl⟩

/-- a token is held by at most one session -/
theorem sessOK_unique (gen : Nat → Bytes) (idle n now : Nat) (sess live)
    (h : SessOK gen idle n now sess live) (id id' k : Bytes) (d d' : Nat)
    (h1 : lookup sess id = some (some ⟨k, d⟩)) (h2 : lookup sess id' = some (some ⟨k, d'⟩)) : id = id' := by
  obtain ⟨_, _, _, l, hl, _, hh⟩ := h id k d h1
  obtain ⟨_, _, _, l', hl', _, hh'⟩ := h id' k d' h2
  rw [hl] at hl'
  cases hl'
  rw [hh] at hh'
  exact Option.some.inj hh'

/-- The invariant after a request that (re)wrote at most the slot of one session `W`: it suffices to
    check the new slot and that the tokens of all other sessions are still known, with the same
    holder, in the new live set. -/
theorem sessOK_step (gen : Nat → Bytes) (idle n n' now : Nat) (sess sess' : List (Bytes × Option Tok))
    (live live' : List (Bytes × LiveTok)) (W : Bytes) (slotF : Option Tok)
    (hS : SessOK gen idle n now sess live) (hn : n ≤ n')
    (hlook : ∀ id, lookup sess' id = if id = W then some slotF else lookup sess id)
    (hW : W ≠ [])
    (hslot : ∀ k d, slotF = some ⟨k, d⟩ → (∃ i, i < n' ∧ gen i = k) ∧ d ≤ now + idle ∧
      ∃ l, lookup live' k = some l ∧ d ≤ l.deadline ∧ l.holder = some W)
    (hkeep : ∀ id k d, id ≠ W → lookup sess id = some (some ⟨k, d⟩) →
      ∃ l, lookup live' k = some l ∧ d ≤ l.deadline ∧ l.holder = some id) :
    SessOK gen idle n' now sess' live' := by
  intro id k d hk
  rw [hlook] at hk
  by_cases hid : id = W
  · simp only [hid, if_true, Option.some.injEq] at hk
    obtain ⟨h1, h2, h3⟩ := hslot k d hk
    exact ⟨hid ▸ hW, h1, h2, hid ▸ h3⟩
  · simp only [hid, if_false] at hk
    obtain ⟨h0, ⟨i, hi, he⟩, hd, _⟩ := hS id k d hk
    exact ⟨h0, ⟨i, by omega, he⟩, hd, hkeep id k d hid hk⟩

/-- same, when the session store did not change -/
theorem sessOK_same (gen : Nat → Bytes) (idle n n' now : Nat) (sess sess' : List (Bytes × Option Tok))
    (live live' : List (Bytes × LiveTok))
    (hS : SessOK gen idle n now sess live) (hn : n ≤ n')
    (hlook : ∀ id, lookup sess' id = lookup sess id)
    (hkeep : ∀ id k d, lookup sess id = some (some ⟨k, d⟩) →
      ∃ l, lookup live' k = some l ∧ d ≤ l.deadline ∧ l.holder = some id) :
    SessOK gen idle n' now sess' live' := by
  intro id k d hk
  rw [hlook] at hk
  obtain ⟨h0, ⟨i, hi, he⟩, hd, _⟩ := hS id k d hk
  exact ⟨h0, ⟨i, by omega, he⟩, hd, hkeep id k d hk⟩

/-! ## the probe -/

theorem probeSound_sess (cfg : Cfg) (gen : Nat → Bytes) (st : St) (s : SpecSt) (r : Resp)
    (hb : cfg.backend ≠ .storage) (hi : IssuedOK gen st.ntok s.issued)
    (hs : SessOK gen cfg.idle st.ntok st.now st.sess s.live) (hn : keysNodup st.sess) :
    probeSound s (obsOf cfg st r) = true := by
  unfold probeSound obsOf probe
  have hp : (match cfg.backend with
      | .storage => (st.store.filter fun e => st.now < e.2).map fun e =>
          ({ sid := [], tok := some e.1, deadline := e.2 } : LiveItem)
      | _ => st.sess.map fun e => match e.2 with
          | some t => ({ sid := e.1, tok := some t.key, deadline := t.exp } : LiveItem)
          | none => { sid := e.1, tok := none, deadline := 0 }) =
      st.sess.map fun e => match e.2 with
          | some t => ({ sid := e.1, tok := some t.key, deadline := t.exp } : LiveItem)
          | none => { sid := e.1, tok := none, deadline := 0 } := by
    cases hbk : cfg.backend <;> simp_all
  simp only [hp, List.all_map, List.all_eq_true, Function.comp]
  intro e he
  obtain ⟨id, slot⟩ := e
  cases slot with
  | none => simp
  | some t =>
    obtain ⟨k, d⟩ := t
    have hl := mem_lookup st.sess id _ hn he
    obtain ⟨_, hiss, _, l, hll, hdl, _⟩ := hs id k d hl
    have : k ∈ s.issued := (hi k).mpr hiss
    simp [this, hll, hdl]

theorem probeHas_sess (cfg : Cfg) (st : St) (r : Resp) (id t : Bytes) (d m : Nat)
    (hb : cfg.backend ≠ .storage) (hl : lookup st.sess id = some (some ⟨t, d⟩)) (hm : m ≤ d) :
    probeHas (obsOf cfg st r) t m = true := by
  unfold probeHas obsOf probe
  have hp : (match cfg.backend with
      | .storage => (st.store.filter fun e => st.now < e.2).map fun e =>
          ({ sid := [], tok := some e.1, deadline := e.2 } : LiveItem)
      | _ => st.sess.map fun e => match e.2 with
          | some t => ({ sid := e.1, tok := some t.key, deadline := t.exp } : LiveItem)
          | none => { sid := e.1, tok := none, deadline := 0 }) =
      st.sess.map fun e => match e.2 with
          | some t => ({ sid := e.1, tok := some t.key, deadline := t.exp } : LiveItem)
          | none => { sid := e.1, tok := none, deadline := 0 } := by
    cases hbk : cfg.backend <;> simp_all
  simp only [hp, List.any_map, List.any_eq_true, Function.comp]
  exact ⟨(id, some ⟨t, d⟩), lookup_mem _ _ _ hl, by simp [hm]⟩

/-! ## the specification step for the session back-ends, by shape of the outcome -/

theorem sessOK_sub (gen : Nat → Bytes) (idle n n' now : Nat) (sess sess' : List (Bytes × Option Tok))
    (live : List (Bytes × LiveTok)) (hS : SessOK gen idle n now sess live) (hn : n ≤ n')
    (hsub : ∀ id k d, lookup sess' id = some (some ⟨k, d⟩) → lookup sess id = some (some ⟨k, d⟩)) :
    SessOK gen idle n' now sess' live := by
  intro id k d hk
  obtain ⟨h0, ⟨i, hi, he⟩, hd, hl⟩ := hS id k d (hsub id k d hk)
  exact ⟨h0, ⟨i, by omega, he⟩, hd, hl⟩

/-- tokens of the sessions other than `W` are untouched by what the specification does to the live
    set before the cookie is looked at: consuming a single-use token held by `W`, adding a fresh one -/
theorem other_sessions_kept (gen : Nat → Bytes) (hinj : Function.Injective gen) (idle ntok now : Nat)
    (scfg : SpecCfg) (s : SpecSt) (sess : List (Bytes × Option Tok))
    (hS : SessOK gen idle ntok now sess s.live) (q : Req) (o : Obs) (W : Bytes)
    (live1 : List (Bytes × LiveTok))
    (hL1 : live1 = s.live ∨ (live1 = erase s.live q.ck ∧ ∃ d0, lookup sess W = some (some ⟨q.ck, d0⟩)))
    (hG : o.gens = [] ∨ o.gens = [gen ntok])
    (id k : Bytes) (d : Nat) (hid : id ≠ W) (hk : lookup sess id = some (some ⟨k, d⟩)) :
    k ≠ gen ntok ∧
    ∃ l, lookup (afterGens scfg { s with issued := s.issued ++ o.gens } o live1) k = some l ∧
      d ≤ l.deadline ∧ l.holder = some id := by
  obtain ⟨_, ⟨i, hi, he⟩, _, l, hl, hdl, hh⟩ := hS id k d hk
  have hkg : k ≠ gen ntok := by
    intro e
    rw [← he] at e
    have := hinj e
    omega
  refine ⟨hkg, l, ?_, hdl, hh⟩
  have h1 : lookup live1 k = some l := by
    rcases hL1 with h | ⟨h, d0, hd0⟩
    · rw [h]; exact hl
    · rw [h, lookup_erase]
      have : k ≠ q.ck := by
        intro e
        rw [e] at hk
        exact hid (sessOK_unique gen idle ntok now sess s.live hS id W q.ck d d0 hk hd0)
      simp [this, hl]
  unfold afterGens
  rcases hG with h | h
  · rw [h]; exact h1
  · rw [h]
    simp only [List.foldl]
    rw [lookup_put]
    simp [hkg, h1]

/-- how the token of the reply relates to the request: kept (the presented cookie, found live in the
    session `R`) or fresh (the next key of the generator) -/
def TokenOrigin (gen : Nat → Bytes) (ntok ntok' : Nat) (s : SpecSt) (sess : List (Bytes × Option Tok))
    (q : Req) (o : Obs) (token R : Bytes) : Prop :=
  (o.gens = [] ∧ ntok' = ntok ∧ token = q.ck ∧ s.liveAt token = true ∧
      ∃ d0, lookup sess R = some (some ⟨token, d0⟩)) ∨
  (o.gens = [token] ∧ ntok' = ntok + 1 ∧ token = gen ntok)

theorem TokenOrigin.gens {gen ntok ntok' s sess q o token R}
    (h : TokenOrigin gen ntok ntok' s sess q o token R) : o.gens = [] ∨ o.gens = [gen ntok] := by
  rcases h with ⟨h, _⟩ | ⟨h, _, e⟩
  · exact Or.inl h
  · exact Or.inr (e ▸ h)

theorem TokenOrigin.issued {gen ntok ntok' s sess q o token R} {idle now : Nat}
    (h : TokenOrigin gen ntok ntok' s sess q o token R) (hS : SessOK gen idle ntok now sess s.live) :
    ∃ i, i < ntok' ∧ gen i = token := by
  rcases h with ⟨_, hn, _, _, d0, hd0⟩ | ⟨_, hn, e⟩
  · obtain ⟨_, hi, _⟩ := hS R token d0 hd0
    rw [hn]; exact hi
  · exact ⟨ntok, by omega, e.symm⟩

theorem TokenOrigin.keep {gen ntok ntok' s sess q o token R}
    (h : TokenOrigin gen ntok ntok' s sess q o token R) :
    ((token = q.ck && s.liveAt token) || o.gens.contains token) = true := by
  rcases h with ⟨_, _, h1, h2, _⟩ | ⟨h1, _⟩
  · simp [h1.symm, h2]
  · simp [h1]

/-- **Shape A**: the reply's cookie carries the token and session `W` now holds it. -/
theorem sess_shapeA (gen : Nat → Bytes) (hinj : Function.Injective gen) (idle ntok ntok' now : Nat)
    (scfg : SpecCfg) (hidle : scfg.idle = idle) (s : SpecSt) (hnow : s.now = now)
    (sess sess' : List (Bytes × Option Tok)) (hS : SessOK gen idle ntok now sess s.live)
    (q : Req) (o : Obs) (token W : Bytes) (live1 : List (Bytes × LiveTok))
    (hI' : IssuedOK gen ntok' (s.issued ++ o.gens))
    (hlook : ∀ id, lookup sess' id = if id = W then some (some ⟨token, now + idle⟩) else lookup sess id)
    (hW : W ≠ []) (hsc : o.sc = some W) (hck : o.ck = some token) (hne : token ≠ [])
    (hL1 : live1 = s.live ∨ (live1 = erase s.live q.ck ∧ ∃ d0, lookup sess W = some (some ⟨q.ck, d0⟩)))
    (hT : TokenOrigin gen ntok ntok' s sess q o token W)
    (hnodel : q.del = false ∨ q.ck = [] ∨ o.fired = true)
    (hsu : scfg.single = true → isSafe q.method = false → o.gens = [token])
    (hprobe : isSafe q.method = true → o.fired = false → probeHas o token (s.now + scfg.idle) = true) :
    ∃ live2, cookieClause scfg { s with issued := s.issued ++ o.gens } q o
        (afterDel scfg q o (afterGens scfg { s with issued := s.issued ++ o.gens } o live1)) = .ok live2 ∧
      SessOK gen idle ntok' now sess' live2 := by
  have hTi := hT.issued hS
  have hiss : (s.issued ++ o.gens).contains token = true := by
    simp only [List.contains_eq_mem, decide_eq_true_eq]
    exact (hI' token).mpr hTi
  have hnn : ntok ≤ ntok' := by rcases hT with ⟨_, h, _⟩ | ⟨_, h, _⟩ <;> omega
  refine Exists.intro ?wA ⟨?hA1, ?hA2⟩
  case hA1 =>
    rw [afterDel_id _ _ _ _ hnodel]
    exact cookie_some scfg { s with issued := s.issued ++ o.gens } q o _ token hck hne hiss hT.keep
      (fun h1 h2 => by rw [hsu h1 h2]; simp) hprobe
  case hA2 =>
    refine sessOK_step gen idle ntok ntok' now sess sess' s.live _ W (some ⟨token, now + idle⟩) hS hnn hlook hW ?_ ?_
    · intro k d hkd
      cases hkd
      refine ⟨hTi, Nat.le_refl _, _, lookup_put_self _ _ _, ?_, hsc⟩
      show now + idle ≤ s.now + scfg.idle
      rw [hnow, hidle]; exact Nat.le_refl _
    · intro id k d hid hk
      obtain ⟨hkg, l, hl, hdl, hh⟩ := other_sessions_kept gen hinj idle ntok now scfg s sess hS q o W live1 hL1 hT.gens id k d hid hk
      refine ⟨l, ?_, hdl, hh⟩
      rw [lookup_put]
      have hkt : k ≠ token := by
        rcases hT with ⟨_, _, _, _, d0, hd0⟩ | ⟨_, _, e⟩
        · intro e
          rw [e] at hk
          exact hid (sessOK_unique gen idle ntok now sess s.live hS id W token d d0 hk hd0)
        · rw [e]; exact hkg
      simp [hkt, hl]

/-- **Shape A′**: the reply's cookie carries the token but the session store did not change (a
    storage fault hit the request). -/
theorem sess_shapeA' (gen : Nat → Bytes) (hinj : Function.Injective gen) (idle ntok ntok' now : Nat)
    (scfg : SpecCfg) (hidle : scfg.idle = idle) (s : SpecSt) (hnow : s.now = now)
    (sess sess' : List (Bytes × Option Tok)) (hS : SessOK gen idle ntok now sess s.live)
    (q : Req) (o : Obs) (token R : Bytes)
    (hI' : IssuedOK gen ntok' (s.issued ++ o.gens))
    (hsub : ∀ id k d, lookup sess' id = some (some ⟨k, d⟩) → lookup sess id = some (some ⟨k, d⟩))
    (hck : o.ck = some token) (hne : token ≠ [])
    (hT : TokenOrigin gen ntok ntok' s sess q o token R)
    (hsc : o.gens = [] → o.sc = some R)
    (hsu : scfg.single = true → isSafe q.method = false → o.gens = [token])
    (hfired : o.fired = true) :
    ∃ live2, cookieClause scfg { s with issued := s.issued ++ o.gens } q o
        (afterDel scfg q o (afterGens scfg { s with issued := s.issued ++ o.gens } o s.live)) = .ok live2 ∧
      SessOK gen idle ntok' now sess' live2 := by
  have hTi := hT.issued hS
  have hiss : (s.issued ++ o.gens).contains token = true := by
    simp only [List.contains_eq_mem, decide_eq_true_eq]
    exact (hI' token).mpr hTi
  have hnn : ntok ≤ ntok' := by rcases hT with ⟨_, h, _⟩ | ⟨_, h, _⟩ <;> omega
  refine Exists.intro ?wA ⟨?hA1, ?hA2⟩
  case hA1 =>
    rw [afterDel_id _ _ _ _ (Or.inr (Or.inr hfired))]
    exact cookie_some scfg { s with issued := s.issued ++ o.gens } q o _ token hck hne hiss hT.keep
      (fun h1 h2 => by rw [hsu h1 h2]; simp)
      (fun _ h => by rw [hfired] at h; cases h)
  case hA2 =>
    apply sessOK_sub gen idle ntok ntok' now sess sess' _ _ hnn hsub
    intro id k d hk
    obtain ⟨h0, hi, hd, l, hl, hdl, hh⟩ := hS id k d hk
    refine ⟨h0, hi, hd, ?_⟩
    rw [lookup_put]
    by_cases hkt : k = token
    · simp only [hkt, if_true]
      rcases hT with ⟨hg, _, _, _, d0, hd0⟩ | ⟨_, _, e⟩
      · -- kept: the only session holding it is `R`
        rw [hkt] at hk
        have : id = R := sessOK_unique gen idle ntok now sess s.live hS id R token d d0 hk hd0
        refine ⟨_, rfl, ?_, ?_⟩
        · show d ≤ s.now + scfg.idle
          rw [hnow, hidle]; exact hd
        · show o.sc = some id
          rw [hsc hg, this]
      · -- fresh: nobody holds it
        exfalso
        obtain ⟨i, hi', he⟩ := hi
        rw [hkt, e] at he
        have := hinj he
        omega
    · simp only [hkt, if_false]
      unfold afterGens
      rcases hT.gens with h | h
      · rw [h]; exact ⟨l, hl, hdl, hh⟩
      · rw [h]
        simp only [List.foldl]
        rw [lookup_put]
        have : k ≠ gen ntok := by
          intro e
          obtain ⟨i, hi', he⟩ := hi
          rw [e] at he
          have := hinj he
          omega
        simp only [this, if_false]
        exact ⟨l, hl, hdl, hh⟩

/-- **Shape B**: the handler's `DeleteToken` went through: the cookie is expired and the slot of
    session `W` is empty. -/
theorem sess_shapeB (gen : Nat → Bytes) (hinj : Function.Injective gen) (idle ntok ntok' now : Nat)
    (scfg : SpecCfg) (hsb : scfg.sessionBacked = true) (s : SpecSt)
    (sess sess' : List (Bytes × Option Tok)) (hS : SessOK gen idle ntok now sess s.live)
    (q : Req) (o : Obs) (W : Bytes) (live1 : List (Bytes × LiveTok)) (hnn : ntok ≤ ntok')
    (hlook : ∀ id, lookup sess' id = if id = W then some none else lookup sess id)
    (hW : W ≠ []) (hsc : o.sc = some W) (hck : o.ck = some []) (hdel : q.del = true)
    (hbind : ∀ slot, q.sc ≠ [] → lookup sess q.sc = some slot → W = q.sc)
    (hL1 : live1 = s.live ∨ (live1 = erase s.live q.ck ∧ ∃ d0, lookup sess W = some (some ⟨q.ck, d0⟩)))
    (hG : o.gens = [] ∨ o.gens = [gen ntok]) :
    ∃ live2, cookieClause scfg { s with issued := s.issued ++ o.gens } q o
        (afterDel scfg q o (afterGens scfg { s with issued := s.issued ++ o.gens } o live1)) = .ok live2 ∧
      SessOK gen idle ntok' now sess' live2 := by
  refine Exists.intro ?wB ⟨?hB1, ?hB2⟩
  case hB1 => exact cookie_exp scfg _ q o _ hck hdel
  case hB2 =>
    refine sessOK_step gen idle ntok ntok' now sess sess' s.live _ W none hS hnn hlook hW ?_ ?_
    · intro k d hkd; cases hkd
    · intro id k d hid hk
      obtain ⟨hkg, l, hl, hdl, hh⟩ := other_sessions_kept gen hinj idle ntok now scfg s sess hS q o W live1 hL1 hG id k d hid hk
      refine ⟨l, ?_, hdl, hh⟩
      unfold afterDel
      split
      · rename_i hcond
        simp only [Bool.and_eq_true, decide_eq_true_eq] at hcond
        obtain ⟨_, hmine⟩ := hcond
        rw [lookup_erase]
        have hkc : k ≠ q.ck := by
          intro e
          rw [e] at hl hk
          unfold delMine at hmine
          rw [hl] at hmine
          simp only [hsb, Bool.not_true, Bool.false_or, Bool.or_eq_true, decide_eq_true_eq] at hmine
          rw [hh, hsc] at hmine
          rcases hmine with h | h
          · have e1 : id = q.sc := Option.some.inj h
            obtain ⟨hne, _⟩ := hS id q.ck d hk
            rw [e1] at hk hne
            exact hid (e1.trans (hbind _ hne hk).symm)
          · exact hid (Option.some.inj h)
        simp [hkc, hl]
      · exact hl

theorem slotOK_spec (now : Nat) (slot : Option Tok) (key : Bytes) (h : slotOK now slot key = true) :
    ∃ d0, slot = some ⟨key, d0⟩ ∧ now ≤ d0 := by
  unfold slotOK at h
  cases slot with
  | none => cases h
  | some t =>
    obtain ⟨k, d⟩ := t
    simp only [Bool.and_eq_true, Bool.not_eq_true', decide_eq_false_iff_not, decide_eq_true_eq] at h
    exact ⟨d, by rw [h.2], by omega⟩

/-- a token a session holds unexpired is live and issued in the specification -/
theorem held_spec (gen : Nat → Bytes) (idle : Nat) (ntok now : Nat) (sess : List (Bytes × Option Tok))
    (s : SpecSt) (hnow : s.now = now) (hI : IssuedOK gen ntok s.issued)
    (hS : SessOK gen idle ntok now sess s.live) (id t : Bytes) (d0 : Nat)
    (hl : lookup sess id = some (some ⟨t, d0⟩)) (hd : now ≤ d0) :
    s.liveAt t = true ∧ t ∈ s.issued := by
  obtain ⟨_, hi, _, l, hll, hdl, _⟩ := hS id t d0 hl
  refine ⟨?_, (hI t).mpr hi⟩
  unfold SpecSt.liveAt
  simp only [hll, decide_eq_true_eq]
  omega

/-- **Shape C**: the cookie is expired although a storage fault hit the request; no session gained a
    token. -/
theorem sess_shapeC (gen : Nat → Bytes) (hinj : Function.Injective gen) (idle ntok ntok' now : Nat)
    (scfg : SpecCfg) (s : SpecSt)
    (sess sess' : List (Bytes × Option Tok)) (hS : SessOK gen idle ntok now sess s.live)
    (q : Req) (o : Obs) (hnn : ntok ≤ ntok')
    (hsub : ∀ id k d, lookup sess' id = some (some ⟨k, d⟩) → lookup sess id = some (some ⟨k, d⟩))
    (hck : o.ck = some []) (hdel : q.del = true) (hfired : o.fired = true)
    (hG : o.gens = [] ∨ o.gens = [gen ntok]) :
    ∃ live2, cookieClause scfg { s with issued := s.issued ++ o.gens } q o
        (afterDel scfg q o (afterGens scfg { s with issued := s.issued ++ o.gens } o s.live)) = .ok live2 ∧
      SessOK gen idle ntok' now sess' live2 := by
  refine Exists.intro ?wC ⟨?hC1, ?hC2⟩
  case hC1 =>
    rw [afterDel_id _ _ _ _ (Or.inr (Or.inr hfired))]
    exact cookie_exp scfg _ q o _ hck hdel
  case hC2 =>
    apply sessOK_sub gen idle ntok ntok' now sess sess' _ _ hnn hsub
    intro id k d hk
    obtain ⟨h0, hi, hd, l, hl, hdl, hh⟩ := hS id k d hk
    refine ⟨h0, hi, hd, l, ?_, hdl, hh⟩
    unfold afterGens
    rcases hG with h | h
    · rw [h]; exact hl
    · rw [h]
      simp only [List.foldl]
      rw [lookup_put]
      have : k ≠ gen ntok := by
        intro e
        obtain ⟨i, hi', he⟩ := hi
        rw [e] at he
        have := hinj he
        omega
      simp [this, hl]

end C16
