import FiberModel.C16.SimSess
/-
C16 — one request against `Config.Session` without the session middleware: every manager operation
resolves the session itself (`Store.Get`) and saves it (`Session.Save`), each of which may fail.
-/
set_option linter.unusedSimpArgs false
set_option linter.unusedVariables false

namespace C16
open B

/-- the request is bound to the stored session `R`: it resolves to `R` and `R` is in the store -/
def Bound (q : Req) (c : Ctx) (R : Bytes) : Prop :=
  reqSid q c = R ∧ R ≠ [] ∧ ∃ slot, lookup c.st.sess R = some slot

/-- everything but the session-resolution bookkeeping (`sid`, `nsid`, `sgens`) and the fault flags -/
def Same (c c' : Ctx) : Prop :=
  c'.st.sess = c.st.sess ∧ c'.st.now = c.st.now ∧ c'.st.ntok = c.st.ntok ∧ c'.gens = c.gens ∧
  c'.mw = c.mw ∧ c'.sc = c.sc ∧ c'.fs = c.fs ∧ c'.fd = c.fd

/-- `Store.Get`, by outcome -/
theorem storeGet_spec (sgen : Nat → Bytes) (hsgen : ∀ n, sgen n ≠ []) (q : Req) (c c' : Ctx)
    (res : Option (Bytes × Option Tok)) (h : storeGet sgen q c = (c', res)) :
    Same c c' ∧ (∀ R, Bound q c R → Bound q c' R) ∧
    ((res = none ∧ c'.fg = true ∧ q.failGet = true) ∨
     (∃ id slot, res = some (id, slot) ∧ id ≠ [] ∧ c'.fg = c.fg ∧ reqSid q c' = id ∧
        (slot ≠ none → lookup c.st.sess id = some slot ∧ Bound q c id) ∧
        (∀ R, Bound q c R → id = R ∧ q.failGet = false))) := by
  unfold storeGet at h
  have hfresh : ∀ c'' res'', freshSess sgen c = (c'', res'') → (∀ R, ¬ Bound q c R) →
      Same c c'' ∧ (∀ R, Bound q c R → Bound q c'' R) ∧
      ((res'' = none ∧ c''.fg = true ∧ q.failGet = true) ∨
       (∃ id slot, res'' = some (id, slot) ∧ id ≠ [] ∧ c''.fg = c.fg ∧ reqSid q c'' = id ∧
          (slot ≠ none → lookup c.st.sess id = some slot ∧ Bound q c id) ∧
          (∀ R, Bound q c R → id = R ∧ q.failGet = false))) := by
    intro c'' res'' hf hnb
    unfold freshSess at hf
    cases hf
    refine ⟨⟨rfl, rfl, rfl, rfl, rfl, rfl, rfl, rfl⟩, fun R hR => absurd hR (hnb R), Or.inr ⟨_, none, rfl, hsgen _, rfl, rfl, ?_, ?_⟩⟩
    · intro h; exact absurd rfl h
    · intro R hR; exact absurd hR (hnb R)
  by_cases h0 : reqSid q c ≠ []
  · rw [if_pos h0] at h
    by_cases hf : q.failGet = true
    · rw [if_pos hf] at h
      cases h
      exact ⟨⟨rfl, rfl, rfl, rfl, rfl, rfl, rfl, rfl⟩, fun R hR => hR, Or.inl ⟨rfl, rfl, hf⟩⟩
    · rw [if_neg hf] at h
      cases hl : lookup c.st.sess (reqSid q c) with
      | some slot =>
        rw [hl] at h
        cases h
        refine ⟨⟨rfl, rfl, rfl, rfl, rfl, rfl, rfl, rfl⟩, fun R hR => hR, Or.inr ⟨_, slot, rfl, h0, rfl, rfl, fun _ => ⟨hl, rfl, h0, slot, hl⟩, ?_⟩⟩
        intro R hR
        exact ⟨hR.1, by simpa using hf⟩
      | none =>
        rw [hl] at h
        apply hfresh c' res h
        intro R hR
        obtain ⟨h1, _, slot, h3⟩ := hR
        rw [← h1, hl] at h3
        cases h3
  · rw [if_neg h0] at h
    apply hfresh c' res h
    intro R hR
    obtain ⟨h1, h2, _⟩ := hR
    exact h0 (h1 ▸ h2)

/-- one write to the session of the request: resolve it, set the token slot, save -/
def sessOp (sgen : Nat → Bytes) (q : Req) (c : Ctx) (slot : Option Tok) : Ctx × Bool :=
  match storeGet sgen q c with
  | (c', none) => (c', true)
  | (c', some (id, _)) => (sessSave q c' id slot, q.failSet)

theorem setRaw_ss (cfg : Cfg) (sgen : Nat → Bytes) (q : Req) (c : Ctx) (key : Bytes)
    (hb : cfg.backend = .sessStore) :
    setRaw cfg sgen q c key = sessOp sgen q c (some { key := key, exp := c.st.now + cfg.idle }) := by
  unfold setRaw sessOp
  simp only [hb]
  rcases storeGet sgen q c with ⟨c', _ | ⟨id, s⟩⟩ <;> rfl

theorem delRaw_ss (cfg : Cfg) (sgen : Nat → Bytes) (q : Req) (c : Ctx) (key : Bytes)
    (hb : cfg.backend = .sessStore) : delRaw cfg sgen q c key = sessOp sgen q c none := by
  unfold delRaw sessOp
  simp only [hb]
  rcases storeGet sgen q c with ⟨c', _ | ⟨id, s⟩⟩ <;> rfl

/-- one session write, by outcome -/
theorem sessOp_spec (sgen : Nat → Bytes) (hsgen : ∀ n, sgen n ≠ []) (q : Req) (c c' : Ctx)
    (slot : Option Tok) (err : Bool) (h : sessOp sgen q c slot = (c', err)) :
    c'.st.now = c.st.now ∧ c'.st.ntok = c.st.ntok ∧ c'.gens = c.gens ∧ c'.mw = c.mw ∧ c'.fd = c.fd ∧
    (err = true →
      c'.st.sess = c.st.sess ∧ (c'.fg || c'.fs) = true ∧ (∀ R, Bound q c R → Bound q c' R) ∧
      ((q.failGet = true ∧ c'.sc = c.sc) ∨ (∃ id, c'.sc = some id ∧ ∀ R, Bound q c R → id = R))) ∧
    (err = false →
      ∃ W, W ≠ [] ∧ c'.st.sess = put c.st.sess W slot ∧ c'.sc = some W ∧ Bound q c' W ∧
        (∀ R, Bound q c R → W = R) ∧ c'.fg = c.fg ∧ c'.fs = c.fs) := by
  unfold sessOp at h
  rcases hsg : storeGet sgen q c with ⟨c1, res⟩
  rw [hsg] at h
  obtain ⟨⟨hs1, hs2, hs3, hs4, hs5, hs6, hs7, hs8⟩, hbd, hcase⟩ := storeGet_spec sgen hsgen q c c1 res hsg
  rcases hcase with ⟨hres, hfg, hfail⟩ | ⟨id, sl, hres, hid, hfg, hrs, _, hb⟩
  · subst hres
    simp only at h
    cases h
    refine ⟨hs2, hs3, hs4, hs5, hs8, fun _ => ⟨hs1, by simp [hfg], hbd, Or.inl ⟨hfail, hs6⟩⟩, fun h => by cases h⟩
  · subst hres
    simp only at h
    unfold sessSave at h
    by_cases hfs : q.failSet = true
    · simp only [hfs, if_true] at h
      cases h
      refine ⟨hs2, hs3, hs4, hs5, hs8, fun _ => ⟨hs1, by simp, ?_, Or.inr ⟨id, rfl, fun R hR => (hb R hR).1⟩⟩,
        fun h => by cases h⟩
      intro R hR
      obtain ⟨h1, h2, h3⟩ := hbd R hR
      exact ⟨h1, h2, h3⟩
    · simp only [hfs, Bool.false_eq_true, if_false] at h
      cases h
      refine ⟨hs2, hs3, hs4, hs5, hs8, (fun h => by cases h), fun _ => ⟨id, hid, ?_, rfl, ⟨hrs, hid, slot, ?_⟩,
        fun R hR => (hb R hR).1, hfg, hs7⟩⟩
      · show put c1.st.sess id slot = put c.st.sess id slot
        rw [hs1]
      · show lookup (put c1.st.sess id slot) id = some slot
        exact lookup_put_self _ _ _

/-- `getRaw` without the session middleware, by outcome -/
theorem getRaw_ss_spec (cfg : Cfg) (sgen : Nat → Bytes) (hsgen : ∀ n, sgen n ≠ []) (hb : cfg.backend = .sessStore)
    (q : Req) (c c' : Ctx) (key : Bytes) (res : Option Bool) (h : getRaw cfg sgen q c key = (c', res)) :
    Same c c' ∧ (∀ R, Bound q c R → Bound q c' R) ∧
    (res = none → c'.fg = true) ∧ (res ≠ none → c'.fg = c.fg) ∧
    (res = some true → ∃ R d0, Bound q c' R ∧ lookup c.st.sess R = some (some ⟨key, d0⟩) ∧
      c.st.now ≤ d0 ∧ q.failGet = false ∧ reqSid q c = R) := by
  unfold getRaw at h
  simp only [hb] at h
  rcases hsg : storeGet sgen q c with ⟨c1, r1⟩
  rw [hsg] at h
  obtain ⟨hsame, hbd, hcase⟩ := storeGet_spec sgen hsgen q c c1 r1 hsg
  rcases hcase with ⟨hres, hfg, hfail⟩ | ⟨id, sl, hres, hid, hfg, hrs, hsl, hbb⟩
  · subst hres
    simp only at h
    cases h
    exact ⟨hsame, hbd, fun _ => hfg, fun h => absurd rfl h, fun h => by cases h⟩
  · subst hres
    simp only at h
    cases h
    refine ⟨hsame, hbd, (fun h => by cases h), fun _ => hfg, fun hok => ?_⟩
    simp only [Option.some.injEq] at hok
    rw [hsame.2.1] at hok
    obtain ⟨d0, hd0, hle⟩ := slotOK_spec _ _ _ hok
    have hne : sl ≠ none := by rw [hd0]; simp
    obtain ⟨hl, hbc⟩ := hsl hne
    refine ⟨id, d0, hbd id hbc, by rw [hl, hd0], hle, (hbb id hbc).2, hbc.1⟩

/-- what the method switch leaves behind, session back-end without the middleware -/
def DecSS (cfg : Cfg) (q : Req) (st : St) (c1 : Ctx) : Decision → Prop
  | .reject _ _ => isSafe q.method = false ∧ c1.st.sess = st.sess
  | .proceed tok =>
    if isSafe q.method then
      c1.st.sess = st.sess ∧ c1.fs = false ∧ c1.fd = false ∧ c1.sc = none ∧
      (tok ≠ [] → tok = q.ck ∧ c1.fg = false ∧ q.failGet = false ∧
        ∃ R d0, Bound q c1 R ∧ lookup st.sess R = some (some ⟨tok, d0⟩) ∧ st.now ≤ d0)
    else
      originGate cfg q = true ∧ extract cfg.ext q = some q.ck ∧
      c1.fg = false ∧ c1.fs = false ∧ c1.fd = false ∧ q.failGet = false ∧
      ∃ R d0, Bound q c1 R ∧ lookup st.sess R = some (some ⟨q.ck, d0⟩) ∧ st.now ≤ d0 ∧ R = q.sc ∧
        (if cfg.single then tok = [] ∧ c1.st.sess = put st.sess R none ∧ c1.sc = some R
         else tok = q.ck ∧ c1.st.sess = st.sess ∧ c1.sc = none)

theorem decide_ss (cfg : Cfg) (sgen : Nat → Bytes) (hsgen : ∀ n, sgen n ≠ []) (hb : cfg.backend = .sessStore)
    (q : Req) (st : St) (c1 : Ctx) (d : Decision) (hd : decide' cfg sgen q { st := st } = (c1, d)) :
    c1.st.now = st.now ∧ c1.st.ntok = st.ntok ∧ c1.gens = [] ∧ c1.mw = none ∧
    (∀ R, Bound q { st := st } R → Bound q c1 R) ∧ DecSS cfg q st c1 d := by
  unfold decide' at hd
  by_cases hs : isSafe q.method = true
  · simp only [hs, if_true] at hd
    by_cases hck : q.ck = []
    · simp only [hck, ne_eq, not_true_eq_false, if_false] at hd
      cases hd
      refine ⟨rfl, rfl, rfl, rfl, fun R h => h, ?_⟩
      dsimp only [DecSS]
      rw [if_pos hs]
      exact ⟨rfl, rfl, rfl, rfl, fun h => absurd rfl h⟩
    · simp only [ne_eq, hck, not_false_eq_true, if_true] at hd
      rcases hg : getRaw cfg sgen q { st := st } q.ck with ⟨cg, res⟩
      rw [hg] at hd
      simp only at hd
      cases hd
      obtain ⟨⟨h1, h2, h3, h4, h5, h6, h7, h8⟩, hbd, hnone, hsome, hok⟩ :=
        getRaw_ss_spec cfg sgen hsgen hb q _ c1 q.ck res hg
      refine ⟨h2, h3, h4, h5, hbd, ?_⟩
      simp only [DecSS, hs, if_true]
      refine ⟨h1, h7, h8, h6, fun htok => ?_⟩
      by_cases hr : res = some true
      · simp only [hr, if_true] at htok ⊢
        obtain ⟨R, d0, hB, hl, hle, hfg, _⟩ := hok hr
        refine ⟨trivial, ?_, hfg, R, d0, hB, hl, hle⟩
        rw [hsome (by rw [hr]; simp)]
      · simp only [hr, if_false] at htok
        exact absurd rfl htok
  · simp only [hs, Bool.false_eq_true, if_false] at hd
    simp only [Bool.not_eq_true] at hs
    have hrej : ∀ (c : Ctx) (e : Bool) (er : Err), c.st.sess = st.sess → DecSS cfg q st c (.reject e er) := by
      intro c e er h; exact ⟨hs, h⟩
    cases hg : originGate cfg q
    · simp only [hg, Bool.not_false, if_true] at hd
      cases hd
      exact ⟨rfl, rfl, rfl, rfl, fun R h => h, hrej _ _ _ rfl⟩
    · simp only [hg, Bool.not_true, Bool.false_eq_true, if_false] at hd
      cases he : extract cfg.ext q with
      | none =>
        rw [he] at hd
        simp only at hd
        cases hd
        exact ⟨rfl, rfl, rfl, rfl, fun R h => h, hrej _ _ _ rfl⟩
      | some t =>
        rw [he] at hd
        simp only at hd
        by_cases htc : t = q.ck
        · subst htc
          simp only [ne_eq, not_true_eq_false, if_false] at hd
          rcases hgr : getRaw cfg sgen q { st := st } q.ck with ⟨cg, res⟩
          rw [hgr] at hd
          obtain ⟨⟨h1, h2, h3, h4, h5, h6, h7, h8⟩, hbd, hnone, hsome, hok⟩ :=
            getRaw_ss_spec cfg sgen hsgen hb q _ cg q.ck res hgr
          cases res with
          | none =>
            simp only at hd
            cases hd
            exact ⟨h2, h3, h4, h5, hbd, hrej _ _ _ h1⟩
          | some ok =>
            cases ok with
            | false =>
              simp only at hd
              cases hd
              exact ⟨h2, h3, h4, h5, hbd, hrej _ _ _ h1⟩
            | true =>
              simp only at hd
              obtain ⟨R, d0, hB, hl, hle, hfg, hRsid⟩ := hok rfl
              have hRsc : R = q.sc := hRsid.symm
              have hcgfg : cg.fg = false := hsome (by simp)
              by_cases hsg : cfg.single = true
              · simp only [hsg, if_true] at hd
                rw [delRaw_ss cfg sgen q cg q.ck hb] at hd
                rcases hop : sessOp sgen q cg none with ⟨cd, err⟩
                rw [hop] at hd
                obtain ⟨g1, g2, g3, g4, g5, gerr, gok⟩ := sessOp_spec sgen hsgen q cg cd none err hop
                cases err with
                | true =>
                  simp only at hd
                  cases hd
                  obtain ⟨gs, _, gb, _⟩ := gerr rfl
                  exact ⟨g1.trans h2, g2.trans h3, g3.trans h4, g4.trans h5, fun R h => gb R (hbd R h),
                    hrej _ _ _ (gs.trans h1)⟩
                | false =>
                  simp only at hd
                  cases hd
                  obtain ⟨W, hW, gs, gsc, gB, gWR, gfg, gfs⟩ := gok rfl
                  have hWR : W = R := gWR R hB
                  subst hWR
                  refine ⟨g1.trans h2, g2.trans h3, g3.trans h4, g4.trans h5, fun R' h => ?_, ?_⟩
                  · have hb' := hbd R' h
                    have : W = R' := gWR R' hb'
                    rw [← this]; exact gB
                  · simp only [DecSS, hs, Bool.false_eq_true, if_false, hsg, if_true]
                    refine ⟨hg, he, by rw [gfg]; exact hcgfg, by rw [gfs]; exact h7, by rw [g5]; exact h8, hfg, W, d0, gB, hl, hle, hRsc,
                      trivial, by rw [gs, h1], gsc⟩
              · simp only [hsg, Bool.false_eq_true, if_false] at hd
                cases hd
                refine ⟨h2, h3, h4, h5, hbd, ?_⟩
                simp only [DecSS, hs, Bool.false_eq_true, if_false, hsg]
                exact ⟨hg, he, hcgfg, h7, h8, hfg, R, d0, hB, hl, hle, hRsc, trivial, h1, h6⟩
        · simp only [ne_eq, htc, not_false_eq_true, if_true] at hd
          cases hd
          exact ⟨rfl, rfl, rfl, rfl, fun R h => h, hrej _ _ _ rfl⟩

/-- the ways `finishTail` can end without the session middleware -/
inductive TailSS (cfg : Cfg) (q : Req) (c : Ctx) (token : Bytes) (c2 : Ctx) (r2 : Resp) : Prop
  /-- an unsafe request is turned away: the session could not be written -/
  | away (hp : r2.pass = false) (hu : isSafe q.method = false) (hck : r2.ck = none)
      (hs : c2.st.sess = c.st.sess)
  /-- safe request, cookie set, nothing written (a fault) -/
  | unwritten (hp : r2.pass = true) (hsafe : isSafe q.method = true) (hck : r2.ck = some token)
      (hs : c2.st.sess = c.st.sess) (hf : (c2.fg || c2.fs) = true)
      (hsc : q.failGet = true ∨ ∃ id, c2.sc = some id ∧ ∀ R, Bound q c R → id = R)
  /-- safe request, a fault, and still the handler's DeleteToken emptied some session -/
  | faultCleared (hp : r2.pass = true) (hsafe : isSafe q.method = true) (hck : r2.ck = some [])
      (hdel : q.del = true) (hf : (c2.fg || c2.fs) = true) (W : Bytes)
      (hs : c2.st.sess = put c.st.sess W none)
  /-- the token was written to session `W` and the cookie carries it -/
  | written (hp : r2.pass = true) (hck : r2.ck = some token) (he : r2.early = (c.fg || c.fs || c.fd))
      (W : Bytes) (hW : W ≠ [])
      (hs : c2.st.sess = put c.st.sess W (some { key := token, exp := c.st.now + cfg.idle }))
      (hsc : c2.sc = some W) (hb : ∀ R, Bound q c R → W = R)
      (hnd : q.del = false ∨ q.ck = [] ∨ (c2.fg || c2.fs) = true)
  /-- the token was written to session `W` and the handler's DeleteToken emptied it again -/
  | cleared (hp : r2.pass = true) (hck : r2.ck = some []) (hdel : q.del = true)
      (he : r2.early = (c.fg || c.fs || c.fd)) (W : Bytes) (hW : W ≠ [])
      (hs : ∀ id, lookup c2.st.sess id = if id = W then some none else lookup c.st.sess id)
      (hsc : c2.sc = some W) (hb : ∀ R, Bound q c R → W = R)
      (hfl : c2.fg = c.fg ∧ c2.fs = c.fs ∧ c2.fd = c.fd)

theorem tail_ss (cfg : Cfg) (sgen : Nat → Bytes) (hsgen : ∀ n, sgen n ≠ []) (hb : cfg.backend = .sessStore)
    (q : Req) (c : Ctx) (token : Bytes) (c2 : Ctx) (r2 : Resp)
    (hft : finishTail cfg sgen q c token = (c2, r2)) :
    (keysNodup c.st.sess → keysNodup c2.st.sess) ∧ TailSS cfg q c token c2 r2 := by
  unfold finishTail at hft
  rw [setRaw_ss cfg sgen q c token hb] at hft
  rcases hop1 : sessOp sgen q c (some { key := token, exp := c.st.now + cfg.idle }) with ⟨ca, err1⟩
  rw [hop1] at hft
  obtain ⟨a1, a2, a3, a4, a5, aerr, aok⟩ := sessOp_spec sgen hsgen q c ca _ err1 hop1
  simp only at hft
  cases err1 with
  | true =>
    obtain ⟨as, af, ab, asc⟩ := aerr rfl
    by_cases hsafe : isSafe q.method = true
    · simp only [hsafe, Bool.not_true, Bool.and_false, Bool.false_eq_true, if_false] at hft
      have hsc1 : q.failGet = true ∨ ∃ id, ca.sc = some id ∧ ∀ R, Bound q c R → id = R := by
        rcases asc with ⟨h, _⟩ | h
        · exact Or.inl h
        · exact Or.inr h
      by_cases hdel : q.del = true
      · simp only [hdel, if_true] at hft
        by_cases hck0 : q.ck = []
        · simp only [hck0, if_true] at hft
          cases hft
          exact ⟨fun h => by rw [as]; exact h, .unwritten rfl hsafe rfl as af hsc1⟩
        · simp only [hck0, if_false] at hft
          rw [delRaw_ss cfg sgen q ca q.ck hb] at hft
          rcases hop2 : sessOp sgen q ca none with ⟨cb, err2⟩
          rw [hop2] at hft
          obtain ⟨b1, b2, b3, b4, b5, berr, bok⟩ := sessOp_spec sgen hsgen q ca cb _ err2 hop2
          cases err2 with
          | true =>
            simp only at hft
            cases hft
            obtain ⟨bs, bf, bb, bsc⟩ := berr rfl
            refine ⟨fun h => by rw [bs, as]; exact h, .unwritten rfl hsafe rfl (bs.trans as) bf ?_⟩
            rcases bsc with ⟨h, _⟩ | ⟨id, h1, h2⟩
            · exact Or.inl h
            · exact Or.inr ⟨id, h1, fun R hR => h2 R (ab R hR)⟩
          | false =>
            simp only at hft
            cases hft
            obtain ⟨W, hW, bs, bsc, bB, bWR, bfg, bfs⟩ := bok rfl
            refine ⟨fun h => by rw [bs, as]; exact keysNodup_put _ _ _ h,
              .faultCleared rfl hsafe rfl hdel (by rw [bfg, bfs]; exact af) W (by rw [bs, as])⟩
      · simp only [hdel, Bool.false_eq_true, if_false] at hft
        cases hft
        exact ⟨fun h => by rw [as]; exact h, .unwritten rfl hsafe rfl as af hsc1⟩
    · simp only [Bool.not_eq_true] at hsafe
      simp only [hsafe, Bool.not_false, Bool.and_true, if_true] at hft
      cases hft
      exact ⟨fun h => by rw [as]; exact h, .away rfl hsafe rfl as⟩
  | false =>
    obtain ⟨W, hW, as, asc, aB, aWR, afg, afs⟩ := aok rfl
    simp only [Bool.false_and, Bool.false_eq_true, if_false] at hft
    have hear : (ca.fg || ca.fs || ca.fd) = (c.fg || c.fs || c.fd) := by rw [afg, afs, a5]
    by_cases hdel : q.del = true
    · simp only [hdel, if_true] at hft
      by_cases hck0 : q.ck = []
      · simp only [hck0, if_true] at hft
        cases hft
        exact ⟨fun h => by rw [as]; exact keysNodup_put _ _ _ h,
          .written rfl rfl hear W hW as asc aWR (Or.inr (Or.inl hck0))⟩
      · simp only [hck0, if_false] at hft
        rw [delRaw_ss cfg sgen q ca q.ck hb] at hft
        rcases hop2 : sessOp sgen q ca none with ⟨cb, err2⟩
        rw [hop2] at hft
        obtain ⟨b1, b2, b3, b4, b5, berr, bok⟩ := sessOp_spec sgen hsgen q ca cb _ err2 hop2
        cases err2 with
        | true =>
          simp only at hft
          cases hft
          obtain ⟨bs, bf, bb, bsc⟩ := berr rfl
          refine ⟨fun h => by rw [bs, as]; exact keysNodup_put _ _ _ h,
            .written rfl rfl hear W hW (bs.trans as) ?_ aWR (Or.inr (Or.inr bf))⟩
          rcases bsc with ⟨_, h⟩ | ⟨id, h1, h2⟩
          · rw [h]; exact asc
          · rw [h1, h2 W aB]
        | false =>
          simp only at hft
          cases hft
          obtain ⟨W2, hW2, bs, bsc, bB, bWR, bfg, bfs⟩ := bok rfl
          have e : W2 = W := bWR W aB
          subst e
          refine ⟨fun h => by rw [bs, as]; exact keysNodup_put _ _ _ (keysNodup_put _ _ _ h),
            .cleared rfl rfl hdel hear W2 hW ?_ bsc aWR ⟨bfg.trans afg, bfs.trans afs, b5.trans a5⟩⟩
          intro id
          rw [bs, as, lookup_put, lookup_put]
          by_cases hid : id = W2 <;> simp [hid]
    · simp only [hdel, Bool.false_eq_true, if_false] at hft
      cases hft
      exact ⟨fun h => by rw [as]; exact keysNodup_put _ _ _ h,
        .written rfl rfl hear W hW as asc aWR (Or.inl (by simpa using hdel))⟩

/-- **One request, session back-end without the session middleware.** -/
theorem sim_ss (raw : List Bytes) (cfg : Cfg)
    (hbuild : buildLoop raw [] [] = some (cfg.origins, cfg.subs))
    (gen sgen : Nat → Bytes) (hgen : ∀ n, gen n ≠ []) (hinj : Function.Injective gen)
    (hsgen : ∀ n, sgen n ≠ []) (hpos : 0 < cfg.idle) (hb : cfg.backend = .sessStore)
    (st : St) (s : SpecSt) (q : Req)
    (hnow : s.now = st.now) (hI : IssuedOK gen st.ntok s.issued)
    (hS : SessOK gen cfg.idle st.ntok st.now st.sess s.live) (hN : keysNodup st.sess)
    (st' : St) (r : Resp) (hh : handleCore cfg gen sgen st q = (st', r)) :
    ∃ s', specReqCore (specConfig cfg.backend cfg.ext cfg.single cfg.idle raw) s q (obsOf cfg st' r) = .ok s' ∧
      s'.now = st'.now ∧ IssuedOK gen st'.ntok s'.issued ∧
      SessOK gen cfg.idle st'.ntok st'.now st'.sess s'.live ∧ keysNodup st'.sess := by
  have hbs : cfg.backend ≠ .storage := by rw [hb]; decide
  have hnm : ¬ (Backend.sessStore = Backend.sessMw) := by decide
  have hc0 : ctx0 cfg sgen st q = { st := st } := by simp [ctx0, hb]
  have hce : ∀ c, ctxEnd cfg c = c := by intro c; simp [ctxEnd, hb]
  rcases hd : decide' cfg sgen q { st := st } with ⟨c1, d⟩
  obtain ⟨hc1now, hc1ntok, hc1gens, hc1mw, hbd1, hdec⟩ := decide_ss cfg sgen hsgen hb q st c1 d hd
  have hsb : (specConfig cfg.backend cfg.ext cfg.single cfg.idle raw).sessionBacked = true := by
    simp [specConfig, hb]
  -- a session cookie naming a stored session binds the request to it
  have hbind0 : ∀ slot, q.sc ≠ [] → lookup st.sess q.sc = some slot → Bound q c1 q.sc := by
    intro slot h1 h2
    exact hbd1 q.sc ⟨rfl, h1, slot, h2⟩
  cases d with
  | reject e er =>
    rw [handle_reject cfg gen sgen st q c1 e er (by rw [hc0]; exact hd), hce] at hh
    cases hh
    obtain ⟨hunsafe, hsess⟩ := hdec
    have hI' : IssuedOK gen c1.st.ntok (s.issued ++ c1.gens) := by
      rw [hc1gens, hc1ntok, List.append_nil]; exact hI
    have hS' : SessOK gen cfg.idle c1.st.ntok c1.st.now c1.st.sess s.live := by
      rw [hc1ntok, hc1now, hsess]; exact hS
    have hN' : keysNodup c1.st.sess := by rw [hsess]; exact hN
    refine ⟨_, specReq_intro _ s q _ s.live s.live ?_ ?_ ?_, ?_, hI', hS', hN'⟩
    · simp [reachClause, hunsafe, obsOf, assemble]
    · cases e <;> simp [rejectClause, obsOf, assemble]
    · exact probeSound_sess cfg gen c1.st _ _ hbs hI' hS' hN'
    · exact hnow.trans hc1now.symm
  | proceed tok =>
    rcases hf : finish cfg gen sgen q c1 tok with ⟨c2, r2⟩
    rw [handle_proceed cfg gen sgen st q c1 c2 tok r2 (by rw [hc0]; exact hd) hf, hce] at hh
    cases hh
    -- what the switch established, in the terms the outcome shapes need
    have hU : ∃ live1,
        (∀ W, (∀ R, Bound q c1 R → W = R) →
          (∀ id, id ≠ W → lookup c1.st.sess id = lookup st.sess id) ∧
          (live1 = s.live ∨ (live1 = erase s.live q.ck ∧ ∃ d0, lookup st.sess W = some (some ⟨q.ck, d0⟩)))) ∧
        (∀ id k d, lookup c1.st.sess id = some (some ⟨k, d⟩) → lookup st.sess id = some (some ⟨k, d⟩)) ∧
        (isSafe q.method = true → live1 = s.live ∧ c1.st.sess = st.sess) ∧
        (isSafe q.method = false → c1.fg = false ∧ c1.fs = false ∧ c1.fd = false ∧
          originGate cfg q = true ∧ extract cfg.ext q = some q.ck ∧
          (∃ d0, lookup st.sess q.sc = some (some ⟨q.ck, d0⟩) ∧ st.now ≤ d0) ∧
          live1 = (if cfg.single then erase s.live q.ck else s.live)) ∧
        (tok ≠ [] → tok = q.ck ∧ q.failGet = false ∧
          ∃ R d0, Bound q c1 R ∧ lookup st.sess R = some (some ⟨q.ck, d0⟩) ∧ st.now ≤ d0) := by
      dsimp only [DecSS] at hdec
      by_cases hsafe : isSafe q.method = true
      · rw [if_pos hsafe] at hdec
        obtain ⟨hs1, _, _, _, hk⟩ := hdec
        refine ⟨s.live, fun W _ => ⟨fun id _ => by rw [hs1], Or.inl rfl⟩, fun id k d h => by rw [hs1] at h; exact h,
          fun _ => ⟨rfl, hs1⟩, fun h => absurd (h.symm.trans hsafe) (by decide), fun htok => ?_⟩
        obtain ⟨h1, _, h3, R, d0, hB, hl, hle⟩ := hk htok
        exact ⟨h1, h3, R, d0, hB, h1 ▸ hl, hle⟩
      · rw [if_neg hsafe] at hdec
        simp only [Bool.not_eq_true] at hsafe
        obtain ⟨hgate, hext, hfg, hfs, hfd, hnfg, R, d0, hB, hl, hle, hRsc, hsm⟩ := hdec
        by_cases hsg : cfg.single = true
        · rw [if_pos hsg] at hsm
          obtain ⟨htk, hs1, _⟩ := hsm
          refine ⟨erase s.live q.ck, fun W hW => ?_, fun id k d h => ?_,
            fun h => absurd (hsafe.symm.trans h) (by decide),
            fun _ => ⟨hfg, hfs, hfd, hgate, hext, ⟨d0, hRsc ▸ hl, hle⟩, by rw [if_pos hsg]⟩,
            fun htok => absurd htk htok⟩
          · have hWR : W = R := hW R hB
            subst hWR
            refine ⟨fun id hid => ?_, Or.inr ⟨rfl, d0, hl⟩⟩
            rw [hs1, lookup_put]; simp [hid]
          · rw [hs1, lookup_put] at h
            by_cases hid : id = R
            · simp [hid] at h
            · simp only [hid, if_false] at h; exact h
        · rw [if_neg hsg] at hsm
          obtain ⟨htk, hs1, _⟩ := hsm
          refine ⟨s.live, fun W _ => ⟨fun id _ => by rw [hs1], Or.inl rfl⟩, fun id k d h => by rw [hs1] at h; exact h,
            fun h => absurd (hsafe.symm.trans h) (by decide),
            fun _ => ⟨hfg, hfs, hfd, hgate, hext, ⟨d0, hRsc ▸ hl, hle⟩, by rw [if_neg hsg]⟩,
            fun _ => ⟨htk, hnfg, R, d0, hB, hl, hle⟩⟩
    obtain ⟨live1, hUW, hUsub, hUsafe, hUunsafe, hUkept⟩ := hU
    suffices H : ∀ (c1' : Ctx) (token : Bytes), finishTail cfg sgen q c1' token = (c2, r2) →
        c1'.st.now = st.now → c1'.st.sess = c1.st.sess → (∀ R, Bound q c1 R → Bound q c1' R) →
        c1'.fg = c1.fg → c1'.fs = c1.fs → c1'.fd = c1.fd →
        IssuedOK gen c1'.st.ntok (s.issued ++ c1'.gens) → token ≠ [] →
        ((c1'.gens = [] ∧ c1'.st.ntok = st.ntok ∧ token = q.ck ∧ s.liveAt token = true ∧ q.failGet = false ∧
            ∃ R d0, Bound q c1 R ∧ lookup st.sess R = some (some ⟨token, d0⟩)) ∨
         (c1'.gens = [token] ∧ c1'.st.ntok = st.ntok + 1 ∧ token = gen st.ntok)) →
        (cfg.single = true → isSafe q.method = false → c1'.gens = [token]) →
        ∃ s', specReqCore (specConfig cfg.backend cfg.ext cfg.single cfg.idle raw) s q
            (obsOf cfg c2.st (assemble c2 r2)) = .ok s' ∧
          s'.now = c2.st.now ∧ IssuedOK gen c2.st.ntok s'.issued ∧
          SessOK gen cfg.idle c2.st.ntok c2.st.now c2.st.sess s'.live ∧ keysNodup c2.st.sess by
      by_cases htok : tok = []
      · subst htok
        rw [finish_fresh] at hf
        refine H _ _ hf hc1now rfl (fun R h => h) rfl rfl rfl ?_ (hgen _)
          (Or.inr ⟨by simp [hc1gens], by simp [hc1ntok], by rw [hc1ntok]⟩) (fun _ _ => by simp [hc1gens])
        show IssuedOK gen (c1.st.ntok + 1) (s.issued ++ (c1.gens ++ [gen c1.st.ntok]))
        rw [hc1gens, hc1ntok]
        exact issuedOK_append gen _ _ hI
      · rw [finish_kept _ _ _ _ _ _ htok] at hf
        obtain ⟨hk1, hnfg, R, d0, hB, hheld, hle⟩ := hUkept htok
        obtain ⟨hl1, hl2⟩ := held_spec gen cfg.idle st.ntok st.now st.sess s hnow hI hS R q.ck d0 hheld hle
        refine H _ _ hf hc1now rfl (fun R h => h) rfl rfl rfl ?_ htok
          (Or.inl ⟨hc1gens, hc1ntok, hk1, by rw [hk1]; exact hl1, hnfg, R, d0, hB, by rw [hk1]; exact hheld⟩) ?_
        · rw [hc1gens, hc1ntok, List.append_nil]; exact hI
        · intro hsg hu
          exfalso
          dsimp only [DecSS] at hdec
          rw [if_neg (by simp [hu])] at hdec
          obtain ⟨_, _, _, _, _, _, R', d', _, _, _, _, hsm⟩ := hdec
          rw [if_pos hsg] at hsm
          exact htok hsm.1
    intro c1' token hft hn1 hss1 hB1 hfg1 hfs1 hfd1 hI1 hne hT hSU
    obtain ⟨hg2, hn2, hnt2⟩ : Frame c1' c2 := by
      have := tail_frame cfg sgen q c1' token; rw [hft] at this; exact this
    obtain ⟨hnd2, hshape⟩ := tail_ss cfg sgen hsgen hb q c1' token c2 r2 hft
    have hN2 : keysNodup c2.st.sess := by
      apply hnd2
      rw [hss1]
      -- the session store after the switch: unchanged, or one slot emptied
      dsimp only [DecSS] at hdec
      by_cases hsafe : isSafe q.method = true
      · rw [(hUsafe hsafe).2]; exact hN
      · rw [if_neg hsafe] at hdec
        obtain ⟨_, _, _, _, _, _, R, d0, _, _, _, _, hsm⟩ := hdec
        by_cases hsg : cfg.single = true
        · rw [if_pos hsg] at hsm; rw [hsm.2.1]; exact keysNodup_put _ _ _ hN
        · rw [if_neg hsg] at hsm; rw [hsm.2.1]; exact hN
    generalize hoeq : obsOf cfg c2.st (assemble c2 r2) = o
    have hog : o.gens = c1'.gens := by rw [← hoeq]; exact hg2
    have hosc : o.sc = c2.sc := by rw [← hoeq]; rfl
    have hock : o.ck = r2.ck := by rw [← hoeq]; rfl
    have hopass : o.pass = r2.pass := by rw [← hoeq]; rfl
    have hoearly : o.early = r2.early := by rw [← hoeq]; rfl
    have hofired : o.fired = (c2.fg || c2.fs || c2.fd) := by rw [← hoeq]; rfl
    have hnow' : c2.st.now = st.now := hn2.trans hn1
    have hnn : st.ntok ≤ c1'.st.ntok := by rcases hT with ⟨_, h, _⟩ | ⟨_, h, _⟩ <;> omega
    have hI' : IssuedOK gen c1'.st.ntok (s.issued ++ o.gens) := by rw [hog]; exact hI1
    have hG : o.gens = [] ∨ o.gens = [gen st.ntok] := by
      rcases hT with ⟨h, _⟩ | ⟨h, _, e⟩
      · exact Or.inl (hog.trans h)
      · exact Or.inr (hog.trans (e ▸ h))
    -- closing the proof once the two clauses and the invariant are there
    have hclose : ∀ live0 live2,
        reachClause (specConfig cfg.backend cfg.ext cfg.single cfg.idle raw)
          { s with issued := s.issued ++ o.gens } q o = .ok live0 →
        (if o.pass then cookieClause (specConfig cfg.backend cfg.ext cfg.single cfg.idle raw)
            { s with issued := s.issued ++ o.gens } q o
            (afterDel (specConfig cfg.backend cfg.ext cfg.single cfg.idle raw) q o
              (afterGens (specConfig cfg.backend cfg.ext cfg.single cfg.idle raw)
                { s with issued := s.issued ++ o.gens } o live0))
          else rejectClause o live0) = .ok live2 →
        SessOK gen cfg.idle c1'.st.ntok st.now c2.st.sess live2 →
        ∃ s', specReqCore (specConfig cfg.backend cfg.ext cfg.single cfg.idle raw) s q o = .ok s' ∧
          s'.now = c2.st.now ∧ IssuedOK gen c2.st.ntok s'.issued ∧
          SessOK gen cfg.idle c2.st.ntok c2.st.now c2.st.sess s'.live ∧ keysNodup c2.st.sess := by
      intro live0 live2 h1 h2 h3
      have hS2 : SessOK gen cfg.idle c2.st.ntok c2.st.now c2.st.sess live2 := by rw [hnt2, hnow']; exact h3
      have hI2 : IssuedOK gen c2.st.ntok (s.issued ++ o.gens) := by rw [hnt2]; exact hI'
      refine ⟨_, specReq_intro _ s q o live0 live2 h1 h2 ?_, ?_, hI2, hS2, hN2⟩
      · rw [← hoeq]
        refine probeSound_sess cfg gen c2.st _ _ hbs ?_ hS2 hN2
        rw [hoeq]; exact hI2
      · show s.now = c2.st.now
        rw [hnow']; exact hnow
    -- the reach clause when the handler ran
    have hreach : o.pass = true → (isSafe q.method = false → o.early = false) →
        reachClause (specConfig cfg.backend cfg.ext cfg.single cfg.idle raw)
          { s with issued := s.issued ++ o.gens } q o = .ok live1 := by
      intro hp hearly
      by_cases hsafe : isSafe q.method = true
      · rw [(hUsafe hsafe).1]
        simp [reachClause, hsafe, hp]
      · simp only [Bool.not_eq_true] at hsafe
        obtain ⟨_, _, _, hgate, hext, ⟨d0, hheld, hle⟩, hl1⟩ := hUunsafe hsafe
        obtain ⟨hla, hli⟩ := held_spec gen cfg.idle st.ntok st.now st.sess s hnow hI hS q.sc q.ck d0 hheld hle
        have hby : heldBy { s with issued := s.issued ++ o.gens } q.ck q.sc = true := by
          obtain ⟨_, _, _, l, hll, _, hh⟩ := hS q.sc q.ck d0 hheld
          unfold heldBy
          simp only [hll, hh, decide_true]
        have horig := gate_sound raw cfg hbuild q hgate
        have hacc : acceptedToken (specConfig cfg.backend cfg.ext cfg.single cfg.idle raw)
            { s with issued := s.issued ++ o.gens } q = some q.ck := by
          refine accepted_of (specConfig cfg.backend cfg.ext cfg.single cfg.idle raw)
            { s with issued := s.issued ++ o.gens } q q.ck hext rfl hla ?_
          simp only [List.contains_eq_mem, List.mem_append, decide_eq_true_eq]
          exact Or.inl hli
        unfold reachClause
        simp only [hsafe, Bool.not_false, if_true, hp, hearly hsafe, Bool.false_eq_true, if_false, horig,
          Bool.not_true, hacc, hby, Bool.and_false]
        rw [hl1]; rfl
    have hflags1 : isSafe q.method = false → (c1'.fg || c1'.fs || c1'.fd) = false := by
      intro hu
      obtain ⟨h1, h2, h3, _⟩ := hUunsafe hu
      rw [hfg1, hfs1, hfd1, h1, h2, h3]; rfl
    cases hshape with
    | away hp hu hck hs =>
      have hop : o.pass = false := hopass.trans hp
      refine hclose s.live s.live ?_ ?_ ?_
      · simp [reachClause, hu, hop]
      · simp only [hop, Bool.false_eq_true, if_false]
        simp [rejectClause, hock, hck]
      · apply sessOK_sub gen cfg.idle st.ntok c1'.st.ntok st.now st.sess _ s.live hS hnn
        intro id k d h
        rw [hs, hss1] at h
        exact hUsub id k d h
    | unwritten hp hsafe hck hs hf hsc =>
      have hop : o.pass = true := hopass.trans hp
      have hl1 : live1 = s.live := (hUsafe hsafe).1
      have hofd : o.fired = true := by
        rw [hofired]
        cases hfg : c2.fg <;> cases hfs' : c2.fs <;> simp_all
      have hsub : ∀ id k d, lookup c2.st.sess id = some (some ⟨k, d⟩) → lookup st.sess id = some (some ⟨k, d⟩) := by
        intro id k d h
        rw [hs, hss1] at h
        exact hUsub id k d h
      have hTO : ∃ R, TokenOrigin gen st.ntok c1'.st.ntok s st.sess q o token R ∧ (o.gens = [] → o.sc = some R) := by
        rcases hT with ⟨h1, h2, h3, h4, h5, R, d0, hB, hheld⟩ | ⟨h1, h2, h3⟩
        · refine ⟨R, Or.inl ⟨hog.trans h1, h2, h3, h4, d0, hheld⟩, fun _ => ?_⟩
          rcases hsc with h | ⟨id, hid, hall⟩
          · rw [h5] at h; cases h
          · rw [hosc, hid, hall R (hB1 R hB)]
        · refine ⟨[], Or.inr ⟨hog.trans h1, h2, h3⟩, fun h => ?_⟩
          rw [hog, h1] at h; cases h
      obtain ⟨R, hTO, hscR⟩ := hTO
      obtain ⟨live2, hcc, hS2⟩ := sess_shapeA' gen hinj cfg.idle st.ntok c1'.st.ntok st.now
        (specConfig cfg.backend cfg.ext cfg.single cfg.idle raw) rfl s hnow st.sess c2.st.sess hS q o token R
        hI' hsub (hock.trans hck) hne hTO hscR (fun h1 h2 => hog.trans (hSU (by simpa [specConfig] using h1) h2)) hofd
      refine hclose live1 live2 (hreach hop (fun h => absurd (h.symm.trans hsafe) (by decide))) ?_ hS2
      simp only [hop, if_true]
      rw [hl1]; exact hcc
    | faultCleared hp hsafe hck hdel hf W hs =>
      have hop : o.pass = true := hopass.trans hp
      have hl1 : live1 = s.live := (hUsafe hsafe).1
      have hofd : o.fired = true := by
        rw [hofired]
        cases hfg : c2.fg <;> cases hfs' : c2.fs <;> simp_all
      have hsub : ∀ id k d, lookup c2.st.sess id = some (some ⟨k, d⟩) → lookup st.sess id = some (some ⟨k, d⟩) := by
        intro id k d h
        rw [hs, hss1, (hUsafe hsafe).2, lookup_put] at h
        by_cases hid : id = W
        · simp [hid] at h
        · simp only [hid, if_false] at h; exact h
      obtain ⟨live2, hcc, hS2⟩ := sess_shapeC gen hinj cfg.idle st.ntok c1'.st.ntok st.now
        (specConfig cfg.backend cfg.ext cfg.single cfg.idle raw) s st.sess c2.st.sess hS q o hnn hsub
        (hock.trans hck) hdel hofd hG
      refine hclose live1 live2 (hreach hop (fun h => absurd (h.symm.trans hsafe) (by decide))) ?_ hS2
      simp only [hop, if_true]
      rw [hl1]; exact hcc
    | written hp hck he W hW hs hsc hbW hnd =>
      have hop : o.pass = true := hopass.trans hp
      have hWR : ∀ R, Bound q c1 R → W = R := fun R h => hbW R (hB1 R h)
      obtain ⟨hU1, hL1⟩ := hUW W hWR
      have hlook : ∀ id, lookup c2.st.sess id =
          if id = W then some (some ⟨token, st.now + cfg.idle⟩) else lookup st.sess id := by
        intro id
        rw [hs, lookup_put, hn1]
        by_cases hid : id = W
        · simp [hid]
        · simp only [hid, if_false]; rw [hss1]; exact hU1 id hid
      have hTO : TokenOrigin gen st.ntok c1'.st.ntok s st.sess q o token W := by
        rcases hT with ⟨h1, h2, h3, h4, h5, R, d0, hB, hheld⟩ | ⟨h1, h2, h3⟩
        · have : W = R := hWR R hB
          exact Or.inl ⟨hog.trans h1, h2, h3, h4, d0, this ▸ hheld⟩
        · exact Or.inr ⟨hog.trans h1, h2, h3⟩
      have hnodel : q.del = false ∨ q.ck = [] ∨ o.fired = true := by
        rcases hnd with h | h | h
        · exact Or.inl h
        · exact Or.inr (Or.inl h)
        · refine Or.inr (Or.inr ?_)
          rw [hofired]
          cases hfg : c2.fg <;> cases hfs' : c2.fs <;> simp_all
      obtain ⟨live2, hcc, hS2⟩ := sess_shapeA gen hinj cfg.idle st.ntok c1'.st.ntok st.now
        (specConfig cfg.backend cfg.ext cfg.single cfg.idle raw) rfl s hnow st.sess c2.st.sess hS q o token W live1
        hI' hlook hW (hosc.trans hsc) (hock.trans hck) hne hL1 hTO hnodel
        (fun h1 h2 => hog.trans (hSU (by simpa [specConfig] using h1) h2))
        (fun _ _ => by
          rw [← hoeq]
          refine probeHas_sess cfg _ _ W token (st.now + cfg.idle) _ hbs ?_ ?_
          · rw [hlook]; simp
          · rw [hnow]; exact Nat.le_refl _)
      refine hclose live1 live2 (hreach hop (fun hu => ?_)) ?_ hS2
      · rw [hoearly, he]; exact hflags1 hu
      · simp only [hop, if_true]; exact hcc
    | cleared hp hck hdel he W hW hs hsc hbW hfl =>
      have hop : o.pass = true := hopass.trans hp
      have hWR : ∀ R, Bound q c1 R → W = R := fun R h => hbW R (hB1 R h)
      obtain ⟨hU1, hL1⟩ := hUW W hWR
      have hlook : ∀ id, lookup c2.st.sess id = if id = W then some none else lookup st.sess id := by
        intro id
        rw [hs]
        by_cases hid : id = W
        · simp [hid]
        · simp only [hid, if_false]; rw [hss1]; exact hU1 id hid
      have hbind : ∀ slot, q.sc ≠ [] → lookup st.sess q.sc = some slot → W = q.sc :=
        fun slot h1 h2 => hWR q.sc (hbind0 slot h1 h2)
      obtain ⟨live2, hcc, hS2⟩ := sess_shapeB gen hinj cfg.idle st.ntok c1'.st.ntok st.now
        (specConfig cfg.backend cfg.ext cfg.single cfg.idle raw) hsb s st.sess c2.st.sess hS q o W live1 hnn
        hlook hW (hosc.trans hsc) (hock.trans hck) hdel hbind hL1 hG
      refine hclose live1 live2 (hreach hop (fun hu => ?_)) ?_ hS2
      · rw [hoearly, he]; exact hflags1 hu
      · simp only [hop, if_true]; exact hcc

end C16
