import FiberModel.C16.Spec
/-
C16 — property theorems (work in progress: see props/C16.json "partial").
-/
namespace C16
open B

/-- Safe methods always reach the protected handler, whatever the state, headers and faults. -/
theorem safe_methods_pass (cfg : Cfg) (gen sgen : Nat → Bytes) (st : St) (q : Req)
    (h : isSafe q.method = true) : (handle cfg gen sgen st q).2.pass = true := by
  unfold handle decide'
  simp only [h, if_true]
  by_cases hck : q.ck = [] <;> simp [hck, finish] <;> repeat' split
  all_goals simp_all

end C16
