import FiberModel.C16.Refine
import FiberModel.C16.Dead
import FiberModel.C16.Front
/-
C16 — property theorems.

"A request with an unsafe method reaches the protected handler only if it presents, through the
configured extractor and matching the CSRF cookie, a token that the server issued and that is
unexpired, not consumed (single-use) and not deleted, and — when an Origin header (or on https a
Referer) is present — comes from the same origin or a configured trusted origin. Safe methods always
pass and leave a valid token cookie, and if the token store fails the request is rejected."

Quantification: every configuration the constructor accepts (any list of trusted-origin strings, any
extractor, single-use or not, any idle timeout > 0, each of the three back-ends), every key
generator and session-id generator (see `GenOK`), every history of requests and clock advances of any
length, every request (all header / cookie / token values, every pattern of injected storage
faults). Helper lemmas live in ListLemmas / OriginLemmas / Sim* / SpecLemmas / Refine.
-/
set_option linter.unusedVariables false

namespace C16
open B

/-- What is assumed of the two generators: keys and session ids are never empty, and (needed for the
    session back-ends only, where one key must not sit in two sessions) keys are never repeated. -/
structure GenOK (cfg : Cfg) (gen sgen : Nat → Bytes) : Prop where
  key_nonempty : ∀ n, gen n ≠ []
  key_fresh : cfg.backend ≠ .storage → Function.Injective gen
  sid_nonempty : ∀ n, sgen n ≠ []

/-- the specification's view of a configuration built from the trusted-origin strings `raw` -/
abbrev specOf (cfg : Cfg) (raw : List Bytes) : SpecCfg :=
  specConfig cfg.backend cfg.ext cfg.single cfg.idle raw cfg.next cfg.cookie cfg.eh


/-! ## Concrete generators, a concrete configuration and concrete requests, used by the non-vacuity
    examples that follow each theorem -/

/-- example generators: keys `t0, t1, …`, session ids `s0, s1, …` -/
def genT (n : Nat) : Bytes := [116, 48 + n]
def sgenT (n : Nat) : Bytes := [115, 48 + n]

/-- trusted origins as a user may write them: wildcard; blanks, upper case, userinfo, root path -/
def rawT : List Bytes := [b "https://*.example.com", b " HTTP://user:pw@Partner.io:8080/ "]

def cfgT (be : Backend) (single : Bool) : Cfg :=
  { backend := be, ext := .header, single := single, idle := 10,
    origins := [b "http://partner.io:8080"], subs := [{ pre := b "https://", suf := b ".example.com" }] }

/-- the constructor accepts the example configuration and stores exactly these tables -/
example (be : Backend) (single : Bool) :
    buildLoop rawT [] [] = some ((cfgT be single).origins, (cfgT be single).subs) := by
  show buildLoop rawT [] [] = some ([b "http://partner.io:8080"], [{ pre := b "https://", suf := b ".example.com" }])
  decide +kernel

example (be : Backend) (single : Bool) : GenOK (cfgT be single) genT sgenT :=
  ⟨fun n => by simp [genT], fun _ n m h => by simp [genT] at h; exact h, fun n => by simp [sgenT]⟩

def get (ck sc : Bytes) : Req :=
  { method := b "GET", ck := ck, sc := sc, hdr := [], qry := [], form := [], param := [], custom := [],
    origin := [], referer := [], host := b "api.site.io", https := false,
    del := false, failGet := false, failSet := false, failDel := false }
def post (ck sc hdr : Bytes) : Req := { get ck sc with method := b "POST", hdr := hdr }
def postFrom (ck hdr : Bytes) (origin : String) : Req := { post ck [] hdr with origin := b origin }

def passes (cfg : Cfg) (ops : List Op) : List (Option Bool) :=
  (run cfg genT sgenT {} ops).2.map (·.map (·.pass))

/-! ## The main theorem -/

/-- **Model ⊑ specification, over all histories.** Run any history on the model from the empty state;
    feed the observations (reached / status / cookies / generator calls / faults / store probe) to the
    specification oracle: no clause is ever violated. The clauses are exactly those the oracle
    evaluates on the real middleware's observations on every check run. -/
theorem history_meets_spec (raw : List Bytes) (cfg : Cfg)
    (hbuild : buildLoop raw [] [] = some (cfg.origins, cfg.subs)) (hidle : 0 < cfg.idle)
    (gen sgen : Nat → Bytes) (hgen : GenOK cfg gen sgen) (ops : List Op) :
    specRun (specOf cfg raw) specInit ops (runObs cfg gen sgen {} ops) = none :=
  run_refines raw cfg hbuild gen sgen hgen.key_nonempty hgen.key_fresh hgen.sid_nonempty hidle ops
    {} specInit (inv_init cfg gen)

/-- non-vacuity: the oracle accepts the model's observations of a history with a forged token and
    flags the same observations once the forged request is reported as having reached the handler -/
example :
    let ops := [Op.req (get [] []), Op.req (post (b "zz") [] (b "zz"))]
    let obs := runObs (cfgT .storage false) genT sgenT {} ops
    let forged := obs.map fun o => o.map fun o => if o.gens = [] then { o with pass := true } else o
    (specRun (specOf (cfgT .storage false) rawT) specInit ops obs).isNone = true ∧
    (specRun (specOf (cfgT .storage false) rawT) specInit ops forged).isSome = true := by decide +kernel

/-! ## The clauses, read off for one more request after an arbitrary history -/

/-- the state of the model after a history -/
abbrev after (cfg : Cfg) (gen sgen : Nat → Bytes) (ops : List Op) : St := (run cfg gen sgen {} ops).1

/-- After any history the specification's bookkeeping exists (no clause was violated on the way), is
    tied to the model state by the invariant, and lists only issued tokens as live. -/
theorem history_state (raw : List Bytes) (cfg : Cfg)
    (hbuild : buildLoop raw [] [] = some (cfg.origins, cfg.subs)) (hidle : 0 < cfg.idle)
    (gen sgen : Nat → Bytes) (hgen : GenOK cfg gen sgen) (ops : List Op) :
    ∃ s, specEnd (specOf cfg raw) specInit ops (runObs cfg gen sgen {} ops) = some s ∧
      Inv cfg gen (after cfg gen sgen ops) s ∧ LiveIssued s :=
  run_refines_end raw cfg hbuild gen sgen hgen.key_nonempty hgen.key_fresh hgen.sid_nonempty hidle ops
    {} specInit (inv_init cfg gen) liveIssued_init

/-- **An unsafe request reaches the handler only if …** After any history, if a request with an
    unsafe method reaches the protected handler then, `s` being the specification state the history
    led to: some value `t` presented through the configured extractor is non-empty, equals the CSRF
    cookie, is live in `s` (issued or extended at most an idle period ago; not consumed by a
    single-use acceptance; not deleted) and was issued by the server's key generator before this
    request; the origin clause holds; and no storage call failed before the handler was entered. -/
theorem unsafe_pass_requires_live_token (raw : List Bytes) (cfg : Cfg)
    (hbuild : buildLoop raw [] [] = some (cfg.origins, cfg.subs)) (hidle : 0 < cfg.idle)
    (gen sgen : Nat → Bytes) (hgen : GenOK cfg gen sgen) (ops : List Op)
    (q : Req) (hnext : skipped cfg q = false) (hunsafe : isSafe q.method = false)
    (hpass : (handle cfg gen sgen (after cfg gen sgen ops) q).2.pass = true) :
    ∃ s, specEnd (specOf cfg raw) specInit ops (runObs cfg gen sgen {} ops) = some s ∧
      (∃ t, t ∈ presented cfg.ext q ∧ t ≠ [] ∧ t = q.ck ∧ s.liveAt t = true ∧
        (∃ i, i < (after cfg gen sgen ops).ntok ∧ gen i = t) ∧
        (cfg.backend ≠ .storage → heldBy s t q.sc = true)) ∧
      originClause (specOf cfg raw) q = true ∧
      (handle cfg gen sgen (after cfg gen sgen ops) q).2.early = false := by
  obtain ⟨s, hend, hinv, hli⟩ := history_state raw cfg hbuild hidle gen sgen hgen ops
  obtain ⟨s', hs, _⟩ := handle_refines raw cfg hbuild gen sgen hgen.key_nonempty hgen.key_fresh
    hgen.sid_nonempty hidle _ s q hinv
  obtain ⟨he, ho, t, h1, h2, h3, h4, _, h6⟩ := specReq_ok_unsafe_pass _ s q _ s' hs hnext hunsafe hpass
  refine ⟨s, hend, ⟨t, h1, h2, h3, h4, ?_, fun hb => h6 (by simp [specConfig, hb])⟩, ho, he⟩
  -- live in `s`, hence issued before this request
  unfold SpecSt.liveAt at h4
  split at h4
  · rename_i l hl
    exact (hinv.issued t).mp (hli t l hl)
  · cases h4

/-- non-vacuity: issue → use → replay of a single-use token: the hypothesis "an unsafe request reaches
    the handler" is met by the second request and refuted for the third -/
example : passes (cfgT .storage true)
    [.req (get [] []), .req (post (genT 0) [] (genT 0)), .req (post (genT 0) [] (genT 0))]
    = [some true, some true, some false] := by decide +kernel

/-- **Expired, consumed, deleted or forged tokens are refused**: an unsafe request whose cookie token
    is not live in the specification's bookkeeping does not reach the handler. -/
theorem dead_token_rejected (raw : List Bytes) (cfg : Cfg)
    (hbuild : buildLoop raw [] [] = some (cfg.origins, cfg.subs)) (hidle : 0 < cfg.idle)
    (gen sgen : Nat → Bytes) (hgen : GenOK cfg gen sgen) (ops : List Op)
    (q : Req) (hnext : skipped cfg q = false) (hunsafe : isSafe q.method = false)
    (s : SpecSt) (hs : specEnd (specOf cfg raw) specInit ops (runObs cfg gen sgen {} ops) = some s)
    (hdead : s.liveAt q.ck = false) :
    (handle cfg gen sgen (after cfg gen sgen ops) q).2.pass = false := by
  cases hp : (handle cfg gen sgen (after cfg gen sgen ops) q).2.pass
  · rfl
  · obtain ⟨s', hs', ⟨t, _, _, h3, h4, _, _⟩, _⟩ :=
      unsafe_pass_requires_live_token raw cfg hbuild hidle gen sgen hgen ops q hnext hunsafe hp
    rw [hs] at hs'
    cases hs'
    rw [h3, hdead] at h4
    cases h4

/-- non-vacuity: a multi-use token is extended on use and refused once the idle period has passed;
    forged and cookie/header mismatching tokens are refused -/
example : passes (cfgT .storage false)
    [.req (get [] []), .adv 9, .req (post (genT 0) [] (genT 0)), .adv 9, .req (post (genT 0) [] (genT 0)),
     .adv 10, .req (post (genT 0) [] (genT 0)), .req (post (b "zz") [] (b "zz")),
     .req (get [] []), .req (post (genT 1) [] (genT 0))]
    = [some true, none, some true, none, some true, none, some false, some false, some true, some false] := by
  decide +kernel

/-- **Cookie and presented token must be the same byte string.** An unsafe request (not exempted by
    `Next`) none of whose values presented through the configured extractor equals the CSRF cookie —
    equality of byte strings: same length, same bytes; a proper prefix or an extension of the cookie,
    of whatever length, or a value against no cookie at all, is a mismatch — does not reach the
    handler, however live the presented token is. -/
theorem cookie_token_mismatch_rejected (raw : List Bytes) (cfg : Cfg)
    (hbuild : buildLoop raw [] [] = some (cfg.origins, cfg.subs)) (hidle : 0 < cfg.idle)
    (gen sgen : Nat → Bytes) (hgen : GenOK cfg gen sgen) (ops : List Op)
    (q : Req) (hnext : skipped cfg q = false) (hunsafe : isSafe q.method = false)
    (hmis : ∀ t ∈ presented cfg.ext q, t ≠ q.ck) :
    (handle cfg gen sgen (after cfg gen sgen ops) q).2.pass = false := by
  cases hp : (handle cfg gen sgen (after cfg gen sgen ops) q).2.pass
  · rfl
  · obtain ⟨_, _, ⟨t, h1, _, h3, _⟩, _⟩ :=
      unsafe_pass_requires_live_token raw cfg hbuild hidle gen sgen hgen ops q hnext hunsafe hp
    exact absurd h3 (hmis t h1)

/-- a generator of 256-byte keys: `t<n>` followed by 254 `x` -/
def genL (n : Nat) : Bytes := genT n ++ List.replicate 254 120

/-- non-vacuity: a live token against a cookie that is the token followed by 256 (or 512, 255) more
    bytes, against a proper prefix of it, and — with 256-byte tokens — against no cookie at all: all
    refused; the token with its own cookie passes -/
example : passes (cfgT .storage false)
    [.req (get [] []),
     .req (post (genT 0 ++ List.replicate 256 120) [] (genT 0)),
     .req (post (genT 0 ++ List.replicate 512 120) [] (genT 0)),
     .req (post (genT 0 ++ List.replicate 255 120) [] (genT 0)),
     .req (post (genT 0) [] (genT 0 ++ List.replicate 256 120)),
     .req (post [116] [] (genT 0)),
     .req (post (genT 0) [] (genT 0))]
    = [some true, some false, some false, some false, some false, some false, some true] ∧
    (genL 0).length = 256 ∧
    (run (cfgT .storage false) genL sgenT {}
      [.req (get [] []), .req (post [] [] (genL 0)), .req (post (genL 0) [] (genL 0))]).2.map (·.map (·.pass))
    = [some true, some false, some true] := by decide +kernel

/-- **If the token store fails the request is rejected**: an unsafe request during which a storage
    call failed before the handler could be entered does not reach it. -/
theorem store_failure_rejects (raw : List Bytes) (cfg : Cfg)
    (hbuild : buildLoop raw [] [] = some (cfg.origins, cfg.subs)) (hidle : 0 < cfg.idle)
    (gen sgen : Nat → Bytes) (hgen : GenOK cfg gen sgen) (ops : List Op)
    (q : Req) (hnext : skipped cfg q = false) (hunsafe : isSafe q.method = false)
    (hfail : (handle cfg gen sgen (after cfg gen sgen ops) q).2.early = true) :
    (handle cfg gen sgen (after cfg gen sgen ops) q).2.pass = false := by
  cases hp : (handle cfg gen sgen (after cfg gen sgen ops) q).2.pass
  · rfl
  · obtain ⟨_, _, _, _, he⟩ :=
      unsafe_pass_requires_live_token raw cfg hbuild hidle gen sgen hgen ops q hnext hunsafe hp
    rw [hfail] at he
    cases he

/-- non-vacuity: with a failing store the hypothesis (`early`) is met and the request is turned away;
    the same request without the fault passes -/
example : ((run (cfgT .storage false) genT sgenT {}
      [.req (get [] []), .req { post (genT 0) [] (genT 0) with failSet := true },
       .req { post (genT 0) [] (genT 0) with failGet := true }, .req (post (genT 0) [] (genT 0))]).2.map
    (·.map fun r => (r.pass, r.early))) =
    [some (true, false), some (false, true), some (false, true), some (true, false)] := by decide +kernel

/-- **Tokens of different clients never mix** (session back-ends): an unsafe request presenting a
    token that the specification knows as handed to another session than the one named by the
    request's session cookie does not reach the handler. -/
theorem foreign_session_token_rejected (raw : List Bytes) (cfg : Cfg)
    (hbuild : buildLoop raw [] [] = some (cfg.origins, cfg.subs)) (hidle : 0 < cfg.idle)
    (gen sgen : Nat → Bytes) (hgen : GenOK cfg gen sgen) (ops : List Op)
    (q : Req) (hnext : skipped cfg q = false) (hunsafe : isSafe q.method = false)
    (hb : cfg.backend ≠ .storage)
    (s : SpecSt) (hs : specEnd (specOf cfg raw) specInit ops (runObs cfg gen sgen {} ops) = some s)
    (hother : heldBy s q.ck q.sc = false) :
    (handle cfg gen sgen (after cfg gen sgen ops) q).2.pass = false := by
  cases hp : (handle cfg gen sgen (after cfg gen sgen ops) q).2.pass
  · rfl
  · obtain ⟨s', hs', ⟨t, _, _, h3, _, _, h6⟩, _⟩ :=
      unsafe_pass_requires_live_token raw cfg hbuild hidle gen sgen hgen ops q hnext hunsafe hp
    rw [hs] at hs'
    cases hs'
    have := h6 hb
    rw [h3, hother] at this
    cases this

/-- non-vacuity: two clients behind the session middleware: each one's token works with its own
    session only -/
example : passes (cfgT .sessMw false)
    [.req (get [] []), .req (get [] []),
     .req (post (genT 0) (sgenT 0) (genT 0)), .req (post (genT 1) (sgenT 1) (genT 1)),
     .req (post (genT 0) (sgenT 1) (genT 0)), .req (post (genT 1) (sgenT 0) (genT 1))]
    = [some true, some true, some true, some true, some false, some false] := by decide +kernel

/-- … and without the session middleware; `DeleteToken` (a safe request with `del`) kills the token -/
example : passes (cfgT .sessStore false)
    [.req (get [] []), .req (post (genT 0) (sgenT 0) (genT 0)), .req (post (genT 0) [] (genT 0)),
     .req { get (genT 0) (sgenT 0) with del := true }, .req (post (genT 0) (sgenT 0) (genT 0))]
    = [some true, some true, some false, some true, some false] := by decide +kernel

/-- **Requests from a foreign origin are refused**: an unsafe request whose Origin (or, on https
    without Origin, Referer) is present but neither the request's own origin nor admitted by a
    configured entry does not reach the handler, whatever token it carries. -/
theorem foreign_origin_rejected (raw : List Bytes) (cfg : Cfg)
    (hbuild : buildLoop raw [] [] = some (cfg.origins, cfg.subs)) (hidle : 0 < cfg.idle)
    (gen sgen : Nat → Bytes) (hgen : GenOK cfg gen sgen) (ops : List Op)
    (q : Req) (hnext : skipped cfg q = false) (hunsafe : isSafe q.method = false)
    (hforeign : originClause (specOf cfg raw) q = false) :
    (handle cfg gen sgen (after cfg gen sgen ops) q).2.pass = false := by
  cases hp : (handle cfg gen sgen (after cfg gen sgen ops) q).2.pass
  · rfl
  · obtain ⟨_, _, _, ho, _⟩ :=
      unsafe_pass_requires_live_token raw cfg hbuild hidle gen sgen hgen ops q hnext hunsafe hp
    rw [hforeign] at ho
    cases ho

/-- non-vacuity: a trusted subdomain (upper case, userinfo, a path: only scheme and host count) and the
    exact entry pass; a look-alike host, the bare domain, the wrong scheme, another port, a suffix only
    in the path, an unparsable Origin do not, whatever the token -/
example : passes (cfgT .storage false)
    [.req (get [] []),
     .req (postFrom (genT 0) (genT 0) "https://a.example.com"),
     .req (postFrom (genT 0) (genT 0) "HTTPS://user@A.B.Example.com/x?y#z"),
     .req (postFrom (genT 0) (genT 0) "http://partner.io:8080"),
     .req (postFrom (genT 0) (genT 0) "https://evilexample.com"),
     .req (postFrom (genT 0) (genT 0) "https://example.com"),
     .req (postFrom (genT 0) (genT 0) "http://a.example.com"),
     .req (postFrom (genT 0) (genT 0) "http://partner.io"),
     .req (postFrom (genT 0) (genT 0) "https://evil.com/x.example.com"),
     .req (postFrom (genT 0) (genT 0) "https://a.example.com:x")]
    = [some true, some true, some true, some true, some false, some false, some false, some false, some false,
       some false] := by decide +kernel

/-- **Safe methods always pass and leave a valid token cookie.** After any history a safe request
    reaches the handler; unless the handler itself calls `DeleteToken`, the reply sets the CSRF cookie
    to a non-empty token that the server issued — the presented cookie if that was live, otherwise a
    freshly generated one — and, no storage fault provided, the store holds that token for a full
    idle period from now. -/
theorem safe_methods_pass_and_leave_cookie (raw : List Bytes) (cfg : Cfg)
    (hbuild : buildLoop raw [] [] = some (cfg.origins, cfg.subs)) (hidle : 0 < cfg.idle)
    (gen sgen : Nat → Bytes) (hgen : GenOK cfg gen sgen) (ops : List Op)
    (q : Req) (hsafe : isSafe q.method = true) :
    let st' := (handle cfg gen sgen (after cfg gen sgen ops) q).1
    let r := (handle cfg gen sgen (after cfg gen sgen ops) q).2
    r.pass = true ∧
    (skipped cfg q = false → q.del = false →
      ∃ s t, specEnd (specOf cfg raw) specInit ops (runObs cfg gen sgen {} ops) = some s ∧
      r.ck = some t ∧ t ≠ [] ∧ (∃ i, i < st'.ntok ∧ gen i = t) ∧
      ((t = q.ck ∧ s.liveAt t = true) ∨ t ∈ r.gens) ∧
      ((r.fg || r.fs || r.fd) = false →
        probeHas (obsOf cfg st' r) t ((after cfg gen sgen ops).now + cfg.idle) = true)) := by
  intro st' r
  obtain ⟨s, hend, hinv, hli⟩ := history_state raw cfg hbuild hidle gen sgen hgen ops
  obtain ⟨s', hs, hinv'⟩ := handle_refines raw cfg hbuild gen sgen hgen.key_nonempty hgen.key_fresh
    hgen.sid_nonempty hidle _ s q hinv
  have hp : r.pass = true := by
    cases hsk : skipped cfg q
    · exact (specReq_ok_safe (specOf cfg raw) s q _ s' hs hsk hsafe).1
    · exact (specReq_skip (specOf cfg raw) s q _ hsk s' hs).2.1
  refine ⟨hp, fun hnext hnd => ?_⟩
  obtain ⟨_, hrest⟩ := specReq_ok_safe _ s q _ s' hs hnext hsafe
  obtain ⟨t, h1, h2, h3, h4, h5⟩ := hrest hnd
  refine ⟨s, t, hend, h1, h2, ?_, h4, fun hf => ?_⟩
  · -- issued: the successor specification state is `s` with the generated keys added
    have hiss := hinv'.issued
    have hs'iss : s'.issued = s.issued ++ r.gens := (specReq_issued _ s q _ s' hs).1
    rw [hs'iss] at hiss
    exact (hiss t).mp h3
  · have := h5 hf
    rw [hinv.now] at this
    exact this

/-- non-vacuity: safe requests pass and get a cookie: a fresh token, the presented live one, a fresh
    one again for a forged cookie -/
example : ((run (cfgT .storage false) genT sgenT {}
      [.req (get [] []), .req (get (genT 0) []), .req (get (b "zz") [])]).2.map (·.map fun r => (r.pass, r.ck))) =
    [some (true, some (genT 0)), some (true, some (genT 0)), some (true, some (genT 1))] := by decide +kernel

/-- **Only issued tokens are ever stored**: after any history every token the store probe finds is a
    key the generator handed out. -/
theorem token_was_issued (raw : List Bytes) (cfg : Cfg)
    (hbuild : buildLoop raw [] [] = some (cfg.origins, cfg.subs)) (hidle : 0 < cfg.idle)
    (gen sgen : Nat → Bytes) (hgen : GenOK cfg gen sgen) (ops : List Op)
    (it : LiveItem) (hit : it ∈ probe cfg (after cfg gen sgen ops)) (t : Bytes) (ht : it.tok = some t) :
    ∃ i, i < (after cfg gen sgen ops).ntok ∧ gen i = t := by
  obtain ⟨s, _, hinv, _⟩ := history_state raw cfg hbuild hidle gen sgen hgen ops
  have htok := hinv.tokens
  unfold probe at hit
  have key : cfg.backend = .storage ∨ cfg.backend = .sessStore ∨ cfg.backend = .sessMw := by
    cases cfg.backend <;> simp
  rcases key with hb | hb | hb <;> simp only [hb] at htok hit
  · obtain ⟨e, he, rfl⟩ := List.mem_map.mp hit
    simp only [Option.some.injEq] at ht
    have hm := (List.mem_filter.mp he).1
    obtain ⟨k, d⟩ := e
    have := (htok.1 k d (mem_lookup _ k d htok.2 hm)).1
    rw [← ht]; exact this
  all_goals
    obtain ⟨e, he, rfl⟩ := List.mem_map.mp hit
    obtain ⟨id, slot⟩ := e
    cases slot with
    | none => simp at ht
    | some tk =>
      obtain ⟨k, d⟩ := tk
      simp only [Option.some.injEq] at ht
      have := (htok.1 id k d (mem_lookup _ id _ htok.2 he)).2.1
      rw [← ht]; exact this

/-- non-vacuity: after a history the probe does find tokens -/
example : (probe (cfgT .storage false) (after (cfgT .storage false) genT sgenT [.req (get [] []), .req (get [] [])])).map (·.tok)
    = [some (genT 1), some (genT 0)] := by decide +kernel

/-! ## Dead tokens stay dead; single use -/

/-- **Dead stays dead.** With a key generator that never repeats: a token that was issued and is not
    live after some history (expired, consumed by a single-use acceptance, deleted) is not live after
    any continuation of that history either. -/
theorem dead_token_stays_dead (raw : List Bytes) (cfg : Cfg)
    (hbuild : buildLoop raw [] [] = some (cfg.origins, cfg.subs)) (hidle : 0 < cfg.idle)
    (gen sgen : Nat → Bytes) (hgen : GenOK cfg gen sgen) (hinj : Function.Injective gen)
    (ops1 ops2 : List Op) (t : Bytes) (s1 : SpecSt)
    (hs1 : specEnd (specOf cfg raw) specInit ops1 (runObs cfg gen sgen {} ops1) = some s1)
    (hiss : t ∈ s1.issued) (hdead : s1.liveAt t = false) :
    ∃ s2, specEnd (specOf cfg raw) specInit (ops1 ++ ops2) (runObs cfg gen sgen {} (ops1 ++ ops2)) = some s2 ∧
      t ∈ s2.issued ∧ s2.liveAt t = false := by
  obtain ⟨s, hend, hinv, hli⟩ := history_state raw cfg hbuild hidle gen sgen hgen ops1
  rw [hs1] at hend
  cases hend
  obtain ⟨s2, hs2, _, _, hi2, hd2⟩ := run_dead_stays raw cfg hbuild gen sgen hgen.key_nonempty hinj
    hgen.sid_nonempty hidle ops2 _ s1 hinv hli t hiss hdead
  refine ⟨s2, ?_, hi2, hd2⟩
  rw [specEnd_append, hs1]
  exact hs2

/-- non-vacuity: the extra hypothesis (a generator that never repeats) holds for the example generator -/
example : Function.Injective genT := fun n m h => by simp [genT] at h; exact h

/-- non-vacuity: a token that expired is issued and dead in the specification state, and stays so -/
example :
    let cfg := cfgT .storage false
    let ops1 := [Op.req (get [] []), Op.adv 11]
    let ops2 := [Op.req (get [] []), Op.adv 3]
    ((specEnd (specOf cfg rawT) specInit ops1 (runObs cfg genT sgenT {} ops1)).map
        fun s => (decide (genT 0 ∈ s.issued), s.liveAt (genT 0))) = some (true, false) ∧
    ((specEnd (specOf cfg rawT) specInit (ops1 ++ ops2) (runObs cfg genT sgenT {} (ops1 ++ ops2))).map
        fun s => (decide (genT 0 ∈ s.issued), s.liveAt (genT 0))) = some (true, false) := by decide +kernel

/-- … hence an unsafe request presenting it is refused, however the history continues. -/
theorem dead_token_never_accepted_again (raw : List Bytes) (cfg : Cfg)
    (hbuild : buildLoop raw [] [] = some (cfg.origins, cfg.subs)) (hidle : 0 < cfg.idle)
    (gen sgen : Nat → Bytes) (hgen : GenOK cfg gen sgen) (hinj : Function.Injective gen)
    (ops1 ops2 : List Op) (s1 : SpecSt)
    (hs1 : specEnd (specOf cfg raw) specInit ops1 (runObs cfg gen sgen {} ops1) = some s1)
    (q : Req) (hnext : skipped cfg q = false) (hunsafe : isSafe q.method = false)
    (hiss : q.ck ∈ s1.issued) (hdead : s1.liveAt q.ck = false) :
    (handle cfg gen sgen (after cfg gen sgen (ops1 ++ ops2)) q).2.pass = false := by
  obtain ⟨s2, hs2, _, hd2⟩ := dead_token_stays_dead raw cfg hbuild hidle gen sgen hgen hinj ops1 ops2
    q.ck s1 hs1 hiss hdead
  exact dead_token_rejected raw cfg hbuild hidle gen sgen hgen (ops1 ++ ops2)
    q hnext hunsafe s2 hs2 hd2

/-- non-vacuity: the expired token is refused later on -/
example : passes (cfgT .storage false)
    [.req (get [] []), .adv 11, .req (get [] []), .adv 3, .req (post (genT 0) [] (genT 0))]
    = [some true, none, some true, none, some false] := by decide +kernel

/-- **Single use.** With `SingleUseToken` and a generator that never repeats: once an unsafe request
    has reached the handler, the token it presented is issued but no longer live … -/
theorem single_use_consumed (raw : List Bytes) (cfg : Cfg)
    (hbuild : buildLoop raw [] [] = some (cfg.origins, cfg.subs)) (hidle : 0 < cfg.idle)
    (gen sgen : Nat → Bytes) (hgen : GenOK cfg gen sgen) (hinj : Function.Injective gen)
    (ops : List Op) (q : Req) (hnext : skipped cfg q = false)
    (hunsafe : isSafe q.method = false) (hsingle : cfg.single = true)
    (hpass : (handle cfg gen sgen (after cfg gen sgen ops) q).2.pass = true) :
    ∃ s', specEnd (specOf cfg raw) specInit (ops ++ [.req q]) (runObs cfg gen sgen {} (ops ++ [.req q])) = some s' ∧
      q.ck ∈ s'.issued ∧ s'.liveAt q.ck = false := by
  obtain ⟨s, hend, hinv, hli⟩ := history_state raw cfg hbuild hidle gen sgen hgen ops
  obtain ⟨s', hs, _⟩ := handle_refines raw cfg hbuild gen sgen hgen.key_nonempty hgen.key_fresh
    hgen.sid_nonempty hidle _ s q hinv
  obtain ⟨_, _, t, _, hne, htq, hlive, _, _⟩ := specReq_ok_unsafe_pass _ s q _ s' hs hnext hunsafe hpass
  have hq : q.ck ∈ s.issued := by
    rw [← htq]
    unfold SpecSt.liveAt at hlive
    split at hlive
    · rename_i l hl; exact hli t l hl
    · cases hlive
  have hnew := gens_new cfg gen sgen hinj _ s q hinv
  have hck : ∀ t', (obsOf cfg (handle cfg gen sgen (after cfg gen sgen ops) q).1
      (handle cfg gen sgen (after cfg gen sgen ops) q).2).ck = some t' → t' ≠ q.ck := by
    intro t' ht'
    have ht'' : (handle cfg gen sgen (after cfg gen sgen ops) q).2.ck = some t' := ht'
    rcases handle_single_ck cfg gen sgen _ q hnext hunsafe hsingle hpass with h | h
    · rw [h] at ht''
      cases ht''
      intro e
      obtain ⟨i, hi, he⟩ := (hinv.issued q.ck).mp hq
      rw [← e] at he
      have := hinj he
      omega
    · rw [h] at ht''
      cases ht''
      intro e
      exact hne (htq.trans e.symm)
  obtain ⟨hd', hi'⟩ := specReq_single_consumes _ s q _ s' hs hnext hunsafe hpass (by simp [specConfig, hsingle]) hq hnew hck
  refine ⟨s', ?_, hi', hd'⟩
  rw [specEnd_append, hend]
  exact specEnd_one _ cfg gen sgen _ s s' q hs

/-- non-vacuity: under `SingleUseToken` an accepted unsafe request leaves its token issued and dead -/
example :
    let cfg := cfgT .storage true
    let ops := [Op.req (get [] []), Op.req (post (genT 0) [] (genT 0))]
    (passes cfg ops = [some true, some true]) ∧
    ((specEnd (specOf cfg rawT) specInit ops (runObs cfg genT sgenT {} ops)).map
        fun s => (decide (genT 0 ∈ s.issued), s.liveAt (genT 0))) = some (true, false) := by decide +kernel

/-- … and is never accepted again: any later unsafe request presenting that token is refused. -/
theorem single_use_never_replayed (raw : List Bytes) (cfg : Cfg)
    (hbuild : buildLoop raw [] [] = some (cfg.origins, cfg.subs)) (hidle : 0 < cfg.idle)
    (gen sgen : Nat → Bytes) (hgen : GenOK cfg gen sgen) (hinj : Function.Injective gen)
    (ops later : List Op) (q : Req) (hnext : skipped cfg q = false)
    (hunsafe : isSafe q.method = false) (hsingle : cfg.single = true)
    (hpass : (handle cfg gen sgen (after cfg gen sgen ops) q).2.pass = true)
    (q' : Req) (hnext' : skipped cfg q' = false) (hunsafe' : isSafe q'.method = false)
    (hsame : q'.ck = q.ck) :
    (handle cfg gen sgen (after cfg gen sgen ((ops ++ [.req q]) ++ later)) q').2.pass = false := by
  obtain ⟨s', hs', hi', hd'⟩ := single_use_consumed raw cfg hbuild hidle gen sgen hgen hinj ops q
    hnext hunsafe hsingle hpass
  have hi'' : q'.ck ∈ s'.issued := by rw [hsame]; exact hi'
  have hd'' : s'.liveAt q'.ck = false := by rw [hsame]; exact hd'
  have h := dead_token_never_accepted_again raw cfg hbuild hidle gen sgen hgen hinj (ops ++ [.req q]) later
    s' hs' q' hnext' hunsafe' hi'' hd''
  exact h

/-- non-vacuity: … and the replay is refused, also after other requests -/
example : passes (cfgT .storage true)
    [.req (get [] []), .req (post (genT 0) [] (genT 0)), .req (get [] []), .adv 1, .req (post (genT 0) [] (genT 0))]
    = [some true, some true, some true, none, some false] := by decide +kernel

/-! ## The origin checks -/

/-- **Origin / Referer checks are sound.** For any configuration the constructor accepted, whenever
    the handler's origin gate lets an unsafe request through, the specification's origin clause holds:
    an Origin that is present (or, on https without Origin, a Referer) parsed, and its scheme and host
    are the request's own or are admitted by one of the configured strings read as `scheme://host` or
    `scheme://*.domain`. The path, query and fragment of the header play no role (they are not part
    of `UrlInfo`). -/
theorem origin_gate (raw : List Bytes) (cfg : Cfg)
    (hbuild : buildLoop raw [] [] = some (cfg.origins, cfg.subs)) (q : Req)
    (hgate : originGate cfg q = true) :
    originClause (specOf cfg raw) q = true :=
  gate_sound raw cfg hbuild q hgate

/-- non-vacuity: the gate does open (trusted subdomain; same origin by Referer on https) and close -/
example : [postFrom [] [] "https://a.example.com", postFrom [] [] "https://evilexample.com",
           { post [] [] [] with https := true, referer := b "https://API.site.io/page?x=1" },
           { post [] [] [] with https := true, referer := b "https://evil.io/api.site.io" },
           { post [] [] [] with https := true }].map (originGate (cfgT .storage false))
    = [true, false, true, false, false] := by decide +kernel

/-- **Wildcard entries match on a dot boundary only**: `scheme://*.domain` admits exactly the origins
    with that scheme whose host ends in `.domain`. -/
theorem wildcard_admits_iff (s d scheme host : Bytes) :
    (TrustEntry.wild s d).admits scheme host = true ↔ scheme = s ∧ ∃ pre, host = pre ++ (46 :: d) := by
  unfold TrustEntry.admits hasSuffix
  simp only [Bool.and_eq_true, decide_eq_true_eq, b]
  constructor
  · rintro ⟨h1, h2⟩
    rw [List.isSuffixOf_iff_suffix] at h2
    obtain ⟨pre, hp⟩ := h2
    exact ⟨h1, pre, hp.symm⟩
  · rintro ⟨h1, pre, hp⟩
    refine ⟨h1, ?_⟩
    rw [List.isSuffixOf_iff_suffix]
    exact ⟨pre, hp.symm⟩

/-- non-vacuity: what the example wildcard entry denotes, and what it admits -/
example : specEntry (b "https://*.example.com") = some (.wild (b "https") (b "example.com")) ∧
    (TrustEntry.wild (b "https") (b "example.com")).admits (b "https") (b "a.b.example.com") = true ∧
    (TrustEntry.wild (b "https") (b "example.com")).admits (b "https") (b "evilexample.com") = false ∧
    (TrustEntry.wild (b "https") (b "example.com")).admits (b "https") (b "example.com") = false ∧
    (TrustEntry.wild (b "https") (b "example.com")).admits (b "http") (b "a.example.com") = false := by
  decide +kernel

/-- the constructor-level statement behind `origin_gate`: everything the handler trusts, the
    configured strings admit -/
theorem trusted_only_if_configured (raw : List Bytes) (cfg : Cfg)
    (hbuild : buildLoop raw [] [] = some (cfg.origins, cfg.subs)) (scheme host : Bytes)
    (hc : 58 ∉ scheme) (ht : trusted cfg (scheme ++ b "://" ++ host) = true) :
    (raw.filterMap specEntry).any (·.admits scheme host) = true :=
  trusted_sound raw cfg hbuild scheme host hc ht

/-- non-vacuity of "the constructor accepted": it does refuse — a wildcard in front of a userinfo (the
    defect fixed by 02d1af6: the stored suffix lost its dot), a second wildcard, a path, another
    scheme, no host -/
example : [b "https://*.user@example.com", b "https://*.*.com", b "https://example.com/path", b "ftp://example.com",
           b "https://", b "example.com", b "https://*.[::1]"].map (fun e => (buildLoop [e] [] []).isSome)
    = [false, false, false, false, false, false, false] := by decide +kernel

/-- non-vacuity: the example tables do trust something -/
example : trusted (cfgT .storage false) (b "https" ++ b "://" ++ b "a.example.com") = true ∧
    trusted (cfgT .storage false) (b "http" ++ b "://" ++ b "partner.io:8080") = true := by decide +kernel

/-- **The trust decision is exact** (both directions): for a configuration the constructor accepted,
    the handler trusts `scheme://host` — by equality with a stored exact origin or by
    `subdomain.match` on a stored prefix/suffix pair — if and only if one of the configured strings,
    read as `net/url` reads it (blanks, userinfo, letter case, a root path, empty `?`/`#` dropped),
    admits that scheme and host: the same scheme and host, or for `scheme://*.domain` the same scheme
    and a host ending in `.domain`. (`scheme` is colon-free, as every scheme `net/url` reports.) -/
theorem trusted_iff_configured (raw : List Bytes) (cfg : Cfg)
    (hbuild : buildLoop raw [] [] = some (cfg.origins, cfg.subs)) (scheme host : Bytes) (hc : 58 ∉ scheme) :
    trusted cfg (scheme ++ b "://" ++ host) = (raw.filterMap specEntry).any (·.admits scheme host) :=
  trusted_iff raw cfg hbuild scheme host hc

/-- non-vacuity: both sides are `true` for a subdomain of the example wildcard entry and `false` for
    the look-alike -/
example : (rawT.filterMap specEntry).any (·.admits (b "https") (b "a.example.com")) = true ∧
    (rawT.filterMap specEntry).any (·.admits (b "https") (b "evilexample.com")) = false ∧
    (rawT.filterMap specEntry).any (·.admits (b "http") (b "partner.io:8080")) = true := by decide +kernel

/-- **The gate decides exactly as the specification reads the headers.** With an Origin present
    (not empty, not `null`) the gate opens iff that origin is allowed (parses; same scheme and host as
    the request, or admitted by a configured string); without one, on https with a Referer present,
    iff the referer's origin is allowed; on https with neither header the gate stays shut (strict
    referer checking: stricter than the property asks); on plain http without Origin it opens. So no
    foreign origin gets in, and no legitimate origin is kept out. -/
theorem origin_gate_exact (raw : List Bytes) (cfg : Cfg)
    (hbuild : buildLoop raw [] [] = some (cfg.origins, cfg.subs)) (q : Req) :
    originGate cfg q =
      if originPresent q then originAllowed (specOf cfg raw) q q.ourl
      else if q.https then
        (if toLower q.referer ≠ [] then originAllowed (specOf cfg raw) q q.rurl else false)
      else true :=
  gate_exact raw cfg hbuild q

/-- non-vacuity: each of the four branches occurs -/
example : [postFrom [] [] "https://a.example.com",
           { post [] [] [] with https := true, referer := b "https://API.site.io/page?x=1" },
           { post [] [] [] with https := true }, post [] [] []].map
      (fun q => (originPresent q, q.https, decide (toLower q.referer ≠ []), originGate (cfgT .storage false) q))
    = [(true, false, false, true), (false, true, true, true), (false, true, false, false), (false, false, false, true)] := by
  decide +kernel

/-- **The origin decision has no memory.** `originGate cfg q` is a function of the configuration and
    the request alone (by `origin_gate_exact`: of the configured strings, the request's scheme, Host,
    Origin and Referer), and it is all that decides: in ANY state — whatever requests came before, to
    whatever Host, with whatever Origin, accepted or not — an unsafe request (not exempted by `Next`)
    for which the gate is shut is turned away, with the gate's error and without a cookie. So an
    origin that an earlier request to another Host presented as its own gains nothing later. -/
theorem origin_decision_stateless (cfg : Cfg) (gen sgen : Nat → Bytes) (st : St) (q : Req)
    (hnext : skipped cfg q = false) (hunsafe : isSafe q.method = false) (hgate : originGate cfg q = false) :
    (handle cfg gen sgen st q).2.pass = false ∧ (handle cfg gen sgen st q).2.status = cfg.eh (gateErr cfg q) ∧
    (handle cfg gen sgen st q).2.ck = none := by
  rw [handle_of_not_skipped cfg gen sgen st q hnext]
  exact handleCore_gate_shut cfg gen sgen st q hunsafe hgate

/-- non-vacuity: a request to `Host: evil.test` presenting `http://evil.test` as its own origin passes
    the gate (and fails for want of a token); the same Origin with a valid token to another Host stays
    refused afterwards, as it was before; likewise over https by Referer -/
example :
    let own : Req := { post [] [] [] with host := b "evil.test", origin := b "http://evil.test" }
    let ownRef : Req := { post [] [] [] with host := b "evil.test", https := true, referer := b "https://evil.test/x" }
    let viaRef : Req := { post (genT 0) [] (genT 0) with https := true, referer := b "https://evil.test/x" }
    originGate (cfgT .storage false) own = true ∧ originGate (cfgT .storage false) ownRef = true ∧
    passes (cfgT .storage false)
      [.req (get [] []), .req (postFrom (genT 0) (genT 0) "http://evil.test"), .req own, .req own,
       .req (postFrom (genT 0) (genT 0) "http://evil.test"), .req ownRef, .req viaRef,
       .req (post (genT 0) [] (genT 0))]
    = [some true, some false, some false, some false, some false, some false, some false, some true] := by
  decide +kernel

/-- **The URL reader is the transcription of `net/url`**: the scheme it reports for any header text
    holds no colon (formerly an assumption on a parameter, checked per case by the driver). -/
theorem url_scheme_no_colon (q : Req) : 58 ∉ q.ourl.scheme ∧ 58 ∉ q.rurl.scheme :=
  ⟨q.ourl_wf, q.rurl_wf⟩

/-- non-vacuity: what the reader reports for a header with userinfo, upper case, port, path -/
example : (postFrom [] [] "HTTPS://user:pw@A.Example.com:8443/x?y#z").ourl
    = { ok := true, scheme := b "https", host := b "a.example.com:8443" } ∧
    (postFrom [] [] "https://[::1]:3000").ourl = { ok := true, scheme := b "https", host := b "[::1]:3000" } ∧
    (postFrom [] [] "https://a.example.com:x").ourl.ok = false := by decide +kernel

/-! ## In front of the token logic: `Next`, `ErrorHandler`, the cookie attributes -/

/-- a `Next` that exempts requests carrying the header it looks for, a custom ErrorHandler answering each error with its own status, and cookie fields -/
def cfgF : Cfg :=
  { cfgT .storage false with
    next := some (fun q => q.skip),
    eh := fun e => match e with
      | .tokenInvalid => 461 | .tokenNotFound => 462 | .originNoMatch => 463 | .missing => 464 | _ => 469,
    cookie := { domain := b "example.com", path := b "app", sameSite := b "NONE", httpOnly := true } }

/-- **`Next` makes the middleware step aside.** After any history, a request that `Config.Next`
    exempts reaches the protected handler, gets no csrf cookie and no token, and leaves the
    specification's bookkeeping (issued and live tokens) exactly as it was: nothing a skipped request
    carries can issue, extend, consume or delete a token. -/
theorem next_skips_middleware (raw : List Bytes) (cfg : Cfg)
    (hbuild : buildLoop raw [] [] = some (cfg.origins, cfg.subs)) (hidle : 0 < cfg.idle)
    (gen sgen : Nat → Bytes) (hgen : GenOK cfg gen sgen) (ops : List Op)
    (q : Req) (hskip : skipped cfg q = true) :
    let r := (handle cfg gen sgen (after cfg gen sgen ops) q).2
    r.pass = true ∧ r.ck = none ∧ r.gens = [] ∧
    ∃ s, specEnd (specOf cfg raw) specInit ops (runObs cfg gen sgen {} ops) = some s ∧
      specEnd (specOf cfg raw) specInit (ops ++ [.req q]) (runObs cfg gen sgen {} (ops ++ [.req q])) = some s := by
  intro r
  obtain ⟨s, hend, hinv, hli⟩ := history_state raw cfg hbuild hidle gen sgen hgen ops
  obtain ⟨s', hs, _⟩ := handle_refines raw cfg hbuild gen sgen hgen.key_nonempty hgen.key_fresh
    hgen.sid_nonempty hidle _ s q hinv
  obtain ⟨e, hp, hck, hg, _⟩ := specReq_skip (specOf cfg raw) s q _ hskip s' hs
  refine ⟨hp, hck, hg, s, hend, ?_⟩
  rw [specEnd_append, hend]
  rw [e] at hs
  exact specEnd_one _ cfg gen sgen _ s s q hs

/-- non-vacuity: an unsafe request without any token passes when `Next` exempts it, and is refused
    (with the ErrorHandler's status for a missing token) when it does not -/
example : ((run cfgF genT sgenT {}
      [.req { post [] [] [] with skip := true }, .req (post [] [] [])]).2.map
    (·.map fun r => (r.pass, r.status, r.ck, r.gens.length))) =
    [some (true, 200, none, 0), some (false, 464, none, 0)] := by decide +kernel

/-- **The client sees the ErrorHandler's answer, the handler still does not run.** A request the
    middleware is in charge of and turns away is answered with the status `Config.ErrorHandler`
    produces for one of the errors — whatever that handler is (the theorems above hold for every
    `cfg.eh`: what it answers never lets the protected handler run). -/
theorem rejected_gets_error_handler_answer (cfg : Cfg) (gen sgen : Nat → Bytes) (st : St) (q : Req)
    (hnext : skipped cfg q = false) (hrej : (handle cfg gen sgen st q).2.pass = false) :
    ∃ e, (handle cfg gen sgen st q).2.status = cfg.eh e := by
  rw [handle_of_not_skipped cfg gen sgen st q hnext] at hrej ⊢
  exact handleCore_reject_status cfg gen sgen st q hrej

/-- non-vacuity: each refusal carries the status of its error — token missing, token ≠ cookie, token
    not in the store (cookie expired), foreign origin — and the handler did not run -/
example : ((run cfgF genT sgenT {}
      [.req (get [] []), .req (post (genT 0) [] []), .req (post (genT 0) [] (b "zz")), .req (post (b "zz") [] (b "zz")),
       .req (postFrom (genT 0) (genT 0) "https://evilexample.com"), .req (post (genT 0) [] (genT 0))]).2.map
    (·.map fun r => (r.pass, r.status, r.ck))) =
    [some (true, 200, some (genT 0)), some (false, 464, none), some (false, 461, none),
     some (false, 462, some []), some (false, 463, none), some (true, 200, some (genT 0))] := by decide +kernel

/-- **The csrf cookie carries the configured attributes**: whenever a reply sets the csrf cookie (a
    token, or the empty value that expires it), its attributes are the configured Domain, Path (with a
    leading slash), HttpOnly, SameSite (letter case ignored; `Lax` unless `Strict`/`None`/`Disabled`),
    Secure (also switched on by `SameSite=None`), and — unless `CookieSessionOnly` — an `Expires` one
    idle period ahead for a token and in the past for an expiring cookie. (The same clause is part of
    `history_meets_spec` and is evaluated on the real `Set-Cookie` line on every run.) -/
theorem cookie_attributes_as_configured (cfg : Cfg) (hidle : 0 < cfg.idle) (now : Nat) (r : Resp) (t : Bytes)
    (hck : r.ck = some t) :
    ∃ a, respAttrs cfg now r = some a ∧ attrsOK cfg.cookie cfg.idle now t a = true := by
  refine ⟨attrsOf cfg.cookie cfg.idle now (t = []), ?_, attrsOf_ok cfg.cookie cfg.idle now t hidle⟩
  unfold respAttrs
  rw [hck]; rfl

/-- non-vacuity: the attributes of a token cookie and of an expiring one under the example fields
    (`SameSite=NONE` switches Secure on; the path gets its slash) -/
example : ((run cfgF genT sgenT {} [.adv 5, .req (get [] []), .req (post (b "zz") [] (b "zz"))]).2.map
    (·.map fun r => respAttrs cfgF 5 r)) =
    [none,
     some (some { domain := b "example.com", path := b "/app", secure := true, httpOnly := true, sameSite := .none,
                  expires := some 15 }),
     some (some { domain := b "example.com", path := b "/app", secure := true, httpOnly := true, sameSite := .none,
                  expires := some (-3595) })] := by decide +kernel

end C16
