import FiberModel.C16.Sim
/-
C16 — one request against the storage back-end (`Config.Storage` / built-in memory): the model's
`handleCore` refines the specification step and keeps the invariant.
-/
set_option linter.unusedSimpArgs false
set_option linter.unusedVariables false

namespace C16
open B

/-- what the method switch leaves behind, storage back-end -/
def DecStorage (cfg : Cfg) (q : Req) (st : St) (c1 : Ctx) : Decision → Prop
  | .reject _ _ => isSafe q.method = false ∧ c1.st.store = st.store
  | .proceed tok =>
    if isSafe q.method then
      c1.st.store = st.store ∧ c1.fs = false ∧ c1.fd = false ∧
      (tok ≠ [] → tok = q.ck ∧ storeLive st tok = true)
    else
      originGate cfg q = true ∧ extract cfg.ext q = some q.ck ∧ storeLive st q.ck = true ∧
      c1.fg = false ∧ c1.fs = false ∧ c1.fd = false ∧
      (if cfg.single then tok = [] ∧ c1.st.store = erase st.store q.ck
       else tok = q.ck ∧ c1.st.store = st.store)

/-- outcome of the method switch for the storage back-end -/
theorem decide_storage (cfg : Cfg) (sgen : Nat → Bytes) (q : Req) (st : St) (hb : cfg.backend = .storage) :
    (decide' cfg sgen q { st := st }).1.st.now = st.now ∧
    (decide' cfg sgen q { st := st }).1.st.ntok = st.ntok ∧
    (decide' cfg sgen q { st := st }).1.gens = [] ∧
    DecStorage cfg q st (decide' cfg sgen q { st := st }).1 (decide' cfg sgen q { st := st }).2 := by
  unfold DecStorage
  unfold decide'
  by_cases hs : isSafe q.method = true
  · simp only [hs, if_true]
    by_cases hck : q.ck = []
    · simp [hck]
    · simp only [ne_eq, hck, not_false_eq_true, if_true, getRaw, hb]
      by_cases hf : q.failGet = true
      · simp [hf]
      · simp only [hf]
        cases hl : storeLive st q.ck <;> simp [hl]
  · simp only [hs]
    simp only [Bool.not_eq_true] at hs
    cases hg : originGate cfg q
    · simp [hs]
    · simp only [Bool.not_true, Bool.false_eq_true, if_false]
      cases he : extract cfg.ext q with
      | none => simp [hs]
      | some t =>
        simp only
        by_cases htc : t = q.ck
        · subst htc
          simp only [ne_eq, not_true_eq_false, if_false, getRaw, hb]
          by_cases hf : q.failGet = true
          · simp [hf, hs]
          · simp only [hf]
            cases hl : storeLive st q.ck
            · simp [hs]
            · simp only [Bool.false_eq_true, if_false]
              cases hsg : cfg.single
              · simp [hs]
              · simp only [if_true, delRaw, hb]
                by_cases hd : q.failDel = true
                · simp [hd, hs]
                · simp [hd, hs]
        · simp [htc, hs]

theorem decide_storage' (cfg : Cfg) (sgen : Nat → Bytes) (q : Req) (st : St) (hb : cfg.backend = .storage)
    (c1 : Ctx) (d : Decision) (hd : decide' cfg sgen q { st := st } = (c1, d)) :
    c1.st.now = st.now ∧ c1.st.ntok = st.ntok ∧ c1.gens = [] ∧ DecStorage cfg q st c1 d := by
  have := decide_storage cfg sgen q st hb
  rw [hd] at this
  exact this

/-- a token the store holds live is live and issued in the specification -/
theorem storeLive_spec (gen : Nat → Bytes) (idle : Nat) (st : St) (s : SpecSt) (t : Bytes)
    (hnow : s.now = st.now) (hI : IssuedOK gen st.ntok s.issued)
    (hS : StoreOK gen idle st.ntok st.now st.store s.live) (hl : storeLive st t = true) :
    s.liveAt t = true ∧ t ∈ s.issued ∧ ∃ i, i < st.ntok ∧ gen i = t := by
  unfold storeLive at hl
  split at hl
  · rename_i d hd
    simp only [decide_eq_true_eq] at hl
    obtain ⟨hi, _, l, hll, hdl⟩ := hS t d hd
    refine ⟨?_, (hI t).mpr hi, hi⟩
    unfold SpecSt.liveAt
    simp only [hll, decide_eq_true_eq]
    omega
  · cases hl

/-- `finishTail` for the storage back-end: either an unsafe request is turned away because the store
    could not be written, or the handler runs and the cookie clause of the specification holds, the
    invariant being kept. -/
theorem tail_storage (cfg : Cfg) (gen sgen : Nat → Bytes) (q : Req) (c : Ctx) (token : Bytes)
    (scfg : SpecCfg) (s1 : SpecSt) (live1 : List (Bytes × LiveTok))
    (hb : cfg.backend = .storage) (hsb : scfg.sessionBacked = false) (hidle : scfg.idle = cfg.idle)
    (hpos : 0 < cfg.idle) (hnow : s1.now = c.st.now)
    (hI : IssuedOK gen c.st.ntok s1.issued)
    (hS : StoreOK gen cfg.idle c.st.ntok c.st.now c.st.store live1) (hN : keysNodup c.st.store)
    (hne : token ≠ [])
    (hT : (c.gens = [] ∧ token = q.ck ∧ s1.liveAt token = true) ∨ c.gens = [token])
    (hTi : ∃ i, i < c.st.ntok ∧ gen i = token)
    (hSU : scfg.single = true → isSafe q.method = false → c.gens = [token])
    (c2 : Ctx) (r : Resp) (hr : finishTail cfg sgen q c token = (c2, r)) :
    c2.st.now = c.st.now ∧ c2.st.ntok = c.st.ntok ∧ c2.gens = c.gens ∧
    ((r.pass = false ∧ isSafe q.method = false ∧ c2.st.store = c.st.store ∧ r.ck = none) ∨
     (r.pass = true ∧ (isSafe q.method = false → r.early = (c.fg || c.fs || c.fd)) ∧
       ∃ live2, cookieClause scfg s1 q (obsOf cfg c2.st (assemble c2 r))
           (afterDel scfg q (obsOf cfg c2.st (assemble c2 r))
             (afterGens scfg s1 (obsOf cfg c2.st (assemble c2 r)) live1)) = .ok live2 ∧
         StoreOK gen cfg.idle c.st.ntok c.st.now c2.st.store live2 ∧ keysNodup c2.st.store)) := by
  have hiss : s1.issued.contains token = true := by
    simp only [List.contains_eq_mem, decide_eq_true_eq]
    exact (hI token).mpr hTi
  -- the live set after the generated tokens were added
  have hAG : ∀ o : Obs, o.gens = c.gens →
      StoreOK gen cfg.idle c.st.ntok c.st.now c.st.store (afterGens scfg s1 o live1) ∧
      (c.gens = [token] → lookup (afterGens scfg s1 o live1) token =
          some { deadline := c.st.now + cfg.idle, holder := o.sc }) := by
    intro o hg
    unfold afterGens
    rw [hg, hnow, hidle]
    rcases hT with ⟨h0, _, _⟩ | h1
    · rw [h0]; exact ⟨hS, fun h => by simp at h⟩
    · rw [h1]
      simp only [List.foldl]
      exact ⟨storeOK_put_live _ _ _ _ _ _ _ _ hS, fun _ => lookup_put_self _ _ _⟩
  have hkeep : ∀ o : Obs, o.gens = c.gens → ((token = q.ck && s1.liveAt token) || o.gens.contains token) = true := by
    intro o hg
    rw [hg]
    rcases hT with ⟨_, h1, h2⟩ | h1
    · simp [h1.symm, h2]
    · simp [h1]
  -- shape 1: the cookie carries the token, the store was not written (this request saw a fault)
  have shape1 : ∀ (c' : Ctx) (r : Resp), c'.st = c.st → c'.gens = c.gens → r.ck = some token →
      (c'.fg || c'.fs || c'.fd) = true →
      ∃ live2, cookieClause scfg s1 q (obsOf cfg c'.st (assemble c' r)) (afterDel scfg q (obsOf cfg c'.st (assemble c' r))
          (afterGens scfg s1 (obsOf cfg c'.st (assemble c' r)) live1)) = .ok live2 ∧
        StoreOK gen cfg.idle c.st.ntok c.st.now c'.st.store live2 ∧ keysNodup c'.st.store := by
    intro c' r hst hg hck hfired
    have hof : (obsOf cfg c'.st (assemble c' r)).fired = true := hfired
    refine Exists.intro ?w1 ⟨?h11, ?h12, ?h13⟩
    case h11 =>
      rw [afterDel_id _ _ _ _ (Or.inr (Or.inr hof))]
      exact cookie_some scfg s1 q _ _ token hck hne hiss (hkeep (obsOf cfg c'.st (assemble c' r)) hg)
        (fun h1 h2 => by
          show (c'.gens).contains token = true
          rw [hg, hSU h1 h2]; simp)
        (fun _ h => by rw [hof] at h; cases h)
    case h12 =>
      rw [hst, hnow, hidle]
      exact storeOK_put_live _ _ _ _ _ _ _ _ (hAG (obsOf cfg c'.st (assemble c' r)) hg).1
    case h13 => rw [hst]; exact hN
  -- shape 3: the cookie carries the token and the store holds it with a fresh lifetime
  have shape3 : ∀ (c' : Ctx) (r : Resp), c'.st = { c.st with store := put c.st.store token (c.st.now + cfg.idle) } →
      c'.gens = c.gens → r.ck = some token →
      (q.del = false ∨ q.ck = [] ∨ (c'.fg || c'.fs || c'.fd) = true) →
      ∃ live2, cookieClause scfg s1 q (obsOf cfg c'.st (assemble c' r)) (afterDel scfg q (obsOf cfg c'.st (assemble c' r))
          (afterGens scfg s1 (obsOf cfg c'.st (assemble c' r)) live1)) = .ok live2 ∧
        StoreOK gen cfg.idle c.st.ntok c.st.now c'.st.store live2 ∧ keysNodup c'.st.store := by
    intro c' r hst hg hck hnd
    refine Exists.intro ?w3 ⟨?h31, ?h32, ?h33⟩
    case h31 =>
      rw [afterDel_id _ _ _ _ hnd]
      refine cookie_some scfg s1 q _ _ token hck hne hiss (hkeep (obsOf cfg c'.st (assemble c' r)) hg)
        (fun h1 h2 => by
          show (c'.gens).contains token = true
          rw [hg, hSU h1 h2]; simp) (fun _ _ => ?_)
      apply probeHas_storage cfg _ _ token (c.st.now + cfg.idle) _ hb
      · rw [hst]; exact lookup_put_self _ _ _
      · rw [hst]; show c.st.now < c.st.now + cfg.idle; omega
      · rw [hnow, hidle]; exact Nat.le_refl _
    case h32 =>
      rw [hst, hnow, hidle]
      exact storeOK_put _ _ _ _ _ _ _ _ (hAG (obsOf cfg c'.st (assemble c' r)) hg).1 hTi
    case h33 => rw [hst]; exact keysNodup_put _ _ _ hN
  -- shape 4: the handler's DeleteToken went through after the write
  have shape4 : ∀ (c' : Ctx) (r : Resp),
      c'.st = { c.st with store := erase (put c.st.store token (c.st.now + cfg.idle)) q.ck } →
      c'.gens = c.gens → r.ck = some [] → q.del = true →
      ∃ live2, cookieClause scfg s1 q (obsOf cfg c'.st (assemble c' r)) (afterDel scfg q (obsOf cfg c'.st (assemble c' r))
          (afterGens scfg s1 (obsOf cfg c'.st (assemble c' r)) live1)) = .ok live2 ∧
        StoreOK gen cfg.idle c.st.ntok c.st.now c'.st.store live2 ∧ keysNodup c'.st.store := by
    intro c' r hst hg hck hdel
    refine Exists.intro ?w4 ⟨?h41, ?h42, ?h43⟩
    case h41 =>
      refine cookie_exp scfg s1 q _ _ ?_ hdel
      exact hck
    case h43 => rw [hst]; exact keysNodup_erase _ _ (keysNodup_put _ _ _ hN)
    case h42 =>
      obtain ⟨hL, hLt⟩ := hAG (obsOf cfg c'.st (assemble c' r)) hg
      generalize afterGens scfg s1 (obsOf cfg c'.st (assemble c' r)) live1 = L at hL hLt
      have hX : ∀ k, k ≠ q.ck → lookup (afterDel scfg q (obsOf cfg c'.st (assemble c' r)) L) k = lookup L k := by
        intro k hk
        unfold afterDel
        split
        · exact lookup_erase_ne _ _ _ hk
        · rfl
      intro k dd hl
      rw [hst] at hl
      simp only [lookup_erase, lookup_put] at hl
      by_cases hkc : k = q.ck
      · simp [hkc] at hl
      · simp only [hkc, if_false] at hl
        rw [hX k hkc]
        by_cases hkt : k = token
        · simp only [hkt, if_true, Option.some.injEq] at hl
          subst hkt
          have hfresh : c.gens = [k] := by
            rcases hT with ⟨_, h1, _⟩ | h1
            · exact absurd h1 hkc
            · exact h1
          exact ⟨hTi, by omega, _, hLt hfresh, by simp [← hl]⟩
        · simp only [hkt, if_false] at hl
          exact hL k dd hl
  unfold finishTail at hr
  simp only [setRaw, delRaw, hb] at hr
  by_cases hfs : q.failSet = true
  · -- the store refuses the write
    simp only [hfs, if_true] at hr
    by_cases hsafe : isSafe q.method = true
    · have hns : ¬ isSafe q.method = false := by simp [hsafe]
      simp only [hsafe, Bool.not_true, Bool.and_false, Bool.false_eq_true, if_false] at hr
      by_cases hdel : q.del = true
      · simp only [hdel, if_true] at hr
        by_cases hck0 : q.ck = []
        · simp only [hck0, if_true] at hr
          cases hr
          exact ⟨rfl, rfl, rfl, Or.inr ⟨rfl, fun h => absurd h hns, shape1 _ _ rfl rfl rfl (by simp)⟩⟩
        · simp only [hck0, if_false] at hr
          by_cases hfd : q.failDel = true
          · simp only [hfd, if_true] at hr
            cases hr
            exact ⟨rfl, rfl, rfl, Or.inr ⟨rfl, fun h => absurd h hns, shape1 _ _ rfl rfl rfl (by simp)⟩⟩
          · simp only [hfd, if_false] at hr
            cases hr
            -- the handler's DeleteToken went through: cookie expired, token gone from the store
            refine ⟨rfl, rfl, rfl, Or.inr ⟨rfl, fun h => absurd h hns, Exists.intro ?w2 ⟨?h21, ?h22, ?h23⟩⟩⟩
            case h21 =>
              rw [afterDel_id _ _ _ _ (Or.inr (Or.inr (by simp [obsOf, assemble])))]
              refine cookie_exp scfg s1 q _ _ ?_ hdel
              rfl
            case h22 => exact storeOK_erase_store _ _ _ _ _ _ _ (hAG _ rfl).1
            case h23 => exact keysNodup_erase _ _ hN
      · simp only [hdel, Bool.false_eq_true, if_false] at hr
        cases hr
        exact ⟨rfl, rfl, rfl, Or.inr ⟨rfl, fun h => absurd h hns, shape1 _ _ rfl rfl rfl (by simp)⟩⟩
    · simp only [Bool.not_eq_true] at hsafe
      simp only [hsafe, Bool.not_false, Bool.and_true, if_true] at hr
      cases hr
      exact ⟨rfl, rfl, rfl, Or.inl ⟨rfl, hsafe, rfl, rfl⟩⟩
  · -- the write went through
    simp only [hfs, Bool.false_eq_true, if_false, Bool.false_and] at hr
    have hearly : (c.fg || c.fs || c.fd) = (c.fg || c.fs || c.fd) := rfl
    by_cases hdel : q.del = true
    · simp only [hdel, if_true] at hr
      by_cases hck0 : q.ck = []
      · simp only [hck0, if_true] at hr
        cases hr
        exact ⟨rfl, rfl, rfl, Or.inr ⟨rfl, fun _ => rfl, shape3 _ _ rfl rfl rfl (Or.inr (Or.inl hck0))⟩⟩
      · simp only [hck0, if_false] at hr
        by_cases hfd : q.failDel = true
        · simp only [hfd, if_true] at hr
          cases hr
          exact ⟨rfl, rfl, rfl, Or.inr ⟨rfl, fun _ => rfl, shape3 _ _ rfl rfl rfl (Or.inr (Or.inr (by simp)))⟩⟩
        · simp only [hfd, if_false] at hr
          cases hr
          exact ⟨rfl, rfl, rfl, Or.inr ⟨rfl, fun _ => rfl, shape4 _ _ rfl rfl rfl hdel⟩⟩
    · simp only [hdel, Bool.false_eq_true, if_false] at hr
      cases hr
      exact ⟨rfl, rfl, rfl, Or.inr ⟨rfl, fun _ => rfl, shape3 _ _ rfl rfl rfl (Or.inl (by simpa using hdel))⟩⟩

/-- **One request, storage back-end.** From related states the model's answer satisfies every clause
    of the specification step, and the states stay related. -/
theorem sim_storage (raw : List Bytes) (cfg : Cfg)
    (hbuild : buildLoop raw [] [] = some (cfg.origins, cfg.subs))
    (gen sgen : Nat → Bytes) (hgen : ∀ n, gen n ≠ []) (hpos : 0 < cfg.idle) (hb : cfg.backend = .storage)
    (st : St) (s : SpecSt) (q : Req)
    (hnow : s.now = st.now) (hI : IssuedOK gen st.ntok s.issued)
    (hS : StoreOK gen cfg.idle st.ntok st.now st.store s.live) (hN : keysNodup st.store)
    (st' : St) (r : Resp) (hh : handleCore cfg gen sgen st q = (st', r)) :
    ∃ s', specReqCore (specConfig cfg.backend cfg.ext cfg.single cfg.idle raw) s q (obsOf cfg st' r) = .ok s' ∧
      s'.now = st'.now ∧ IssuedOK gen st'.ntok s'.issued ∧
      StoreOK gen cfg.idle st'.ntok st'.now st'.store s'.live ∧ keysNodup st'.store := by
  have hnm : ¬ (Backend.storage = Backend.sessMw) := by decide
  have hc0 : ctx0 cfg sgen st q = { st := st } := by simp [ctx0, hb]
  have hce : ∀ c, ctxEnd cfg c = c := by intro c; simp [ctxEnd, hb]
  rcases hd : decide' cfg sgen q { st := st } with ⟨c1, d⟩
  obtain ⟨hc1now, hc1ntok, hc1gens, hdec⟩ := decide_storage' cfg sgen q st hb c1 d hd
  -- the specification configuration
  have hsb : (specConfig cfg.backend cfg.ext cfg.single cfg.idle raw).sessionBacked = false := by
    simp [specConfig, hb]
  cases d with
  | reject e er =>
    rw [handle_reject cfg gen sgen st q c1 e er (by rw [hc0]; exact hd), hce] at hh
    cases hh
    obtain ⟨hunsafe, hstore⟩ := hdec
    refine ⟨_, specReq_intro _ s q _ s.live s.live ?_ ?_ ?_, ?_, ?_, ?_, ?_⟩
    · simp [reachClause, hunsafe, obsOf, assemble]
    · cases e <;> simp [rejectClause, obsOf, assemble]
    · apply probeSound_storage cfg gen c1.st _ _ hb
      · show IssuedOK gen c1.st.ntok (s.issued ++ c1.gens)
        rw [hc1gens, hc1ntok, List.append_nil]; exact hI
      · show StoreOK gen cfg.idle c1.st.ntok c1.st.now c1.st.store s.live
        rw [hc1ntok, hc1now, hstore]; exact hS
      · rw [hstore]; exact hN
    · exact hnow.trans hc1now.symm
    · show IssuedOK gen c1.st.ntok (s.issued ++ c1.gens)
      rw [hc1gens, hc1ntok, List.append_nil]; exact hI
    · show StoreOK gen cfg.idle c1.st.ntok c1.st.now c1.st.store s.live
      rw [hc1ntok, hc1now, hstore]; exact hS
    · rw [hstore]; exact hN
  | proceed tok =>
    rcases hf : finish cfg gen sgen q c1 tok with ⟨c2, r2⟩
    rw [handle_proceed cfg gen sgen st q c1 c2 tok r2 (by rw [hc0]; exact hd) hf, hce] at hh
    cases hh
    -- the two ways `finish` fixes the token (kept / freshly generated) share the rest
    suffices H : ∀ (c1' : Ctx) (token : Bytes), finishTail cfg sgen q c1' token = (c2, r2) →
        c1'.st.now = st.now → c1'.st.store = c1.st.store →
        c1'.fg = c1.fg → c1'.fs = c1.fs → c1'.fd = c1.fd →
        IssuedOK gen c1'.st.ntok (s.issued ++ c1'.gens) → st.ntok ≤ c1'.st.ntok → token ≠ [] →
        ((c1'.gens = [] ∧ token = q.ck ∧ s.liveAt token = true) ∨ c1'.gens = [token]) →
        (∃ i, i < c1'.st.ntok ∧ gen i = token) →
        (cfg.single = true → isSafe q.method = false → c1'.gens = [token]) →
        ∃ s', specReqCore (specConfig cfg.backend cfg.ext cfg.single cfg.idle raw) s q (obsOf cfg c2.st (assemble c2 r2)) = .ok s' ∧
          s'.now = c2.st.now ∧ IssuedOK gen c2.st.ntok s'.issued ∧
          StoreOK gen cfg.idle c2.st.ntok c2.st.now c2.st.store s'.live ∧ keysNodup c2.st.store by
      by_cases htok : tok = []
      · subst htok
        rw [finish_fresh] at hf
        refine H _ _ hf hc1now rfl rfl rfl rfl ?_ (by simp [hc1ntok]) (hgen _) (Or.inr (by simp [hc1gens])) ⟨c1.st.ntok, by simp, rfl⟩
          (fun _ _ => by simp [hc1gens])
        show IssuedOK gen (c1.st.ntok + 1) (s.issued ++ (c1.gens ++ [gen c1.st.ntok]))
        rw [hc1gens, hc1ntok]
        exact issuedOK_append gen _ _ hI
      · rw [finish_kept _ _ _ _ _ _ htok] at hf
        have hkept : tok = q.ck ∧ storeLive st tok = true := by
          unfold DecStorage at hdec
          by_cases hsafe : isSafe q.method = true
          · simp only [hsafe, if_true] at hdec
            exact hdec.2.2.2 htok
          · simp only [hsafe, Bool.false_eq_true, if_false] at hdec
            obtain ⟨_, _, hl, _, _, _, hsm⟩ := hdec
            by_cases hsg : cfg.single = true
            · simp only [hsg, if_true] at hsm; exact absurd hsm.1 htok
            · simp only [hsg, Bool.false_eq_true, if_false] at hsm
              rw [hsm.1]; exact ⟨rfl, hl⟩
        obtain ⟨hl1, hl2, hl3⟩ := storeLive_spec gen cfg.idle st s tok hnow hI hS hkept.2
        refine H _ _ hf hc1now rfl rfl rfl rfl ?_ (by simp [hc1ntok]) htok (Or.inl ⟨hc1gens, hkept.1, hl1⟩) ?_ ?_
        · rw [hc1gens, hc1ntok, List.append_nil]; exact hI
        · rw [hc1ntok]; exact hl3
        · -- single use: the switch never keeps the token of an unsafe request
          intro hsg hu
          exfalso
          unfold DecStorage at hdec
          simp only [hu, Bool.false_eq_true, if_false, hsg, if_true] at hdec
          exact htok hdec.2.2.2.2.2.2.1
    intro c1' token hft hn1 hst1 hfg1 hfs1 hfd1 hI1 hnt1 hne hT hTi hSU
    have hfr : Frame c1' c2 := by have := tail_frame cfg sgen q c1' token; rw [hft] at this; exact this
    obtain ⟨hg2, hn2, hnt2⟩ := hfr
    -- the specification state with the issued set brought up to date
    have hS1 : StoreOK gen cfg.idle c1'.st.ntok c1'.st.now st.store s.live := by
      rw [hn1]; exact storeOK_mono _ _ _ _ _ _ _ _ hS hnt1 (Nat.le_refl _)
    have hI2 : IssuedOK gen c1'.st.ntok (s.issued ++ c2.gens) := by rw [hg2]; exact hI1
    have hfin : ∀ live2, StoreOK gen cfg.idle c1'.st.ntok c1'.st.now c2.st.store live2 →
        keysNodup c2.st.store →
        probeSound { now := s.now, live := live2, issued := s.issued ++ (obsOf cfg c2.st (assemble c2 r2)).gens }
            (obsOf cfg c2.st (assemble c2 r2)) = true ∧
          s.now = c2.st.now ∧ IssuedOK gen c2.st.ntok (s.issued ++ (obsOf cfg c2.st (assemble c2 r2)).gens) ∧
          StoreOK gen cfg.idle c2.st.ntok c2.st.now c2.st.store live2 ∧ keysNodup c2.st.store := by
      intro live2 h1 h2
      have hI3 : IssuedOK gen c2.st.ntok (s.issued ++ c2.gens) := by rw [hnt2]; exact hI2
      have h1' : StoreOK gen cfg.idle c2.st.ntok c2.st.now c2.st.store live2 := by rw [hnt2, hn2]; exact h1
      exact ⟨probeSound_storage cfg gen c2.st _ _ hb hI3 h1' h2, by rw [hn2, hn1]; exact hnow, hI3, h1', h2⟩
    unfold DecStorage at hdec
    by_cases hsafe : isSafe q.method = true
    · -- safe method
      simp only [hsafe, if_true] at hdec
      obtain ⟨hst, _, _, _⟩ := hdec
      have hSc : StoreOK gen cfg.idle c1'.st.ntok c1'.st.now c1'.st.store s.live := by
        rw [hst1, hst]; exact hS1
      have hNc : keysNodup c1'.st.store := by rw [hst1, hst]; exact hN
      obtain ⟨_, _, _, hcase⟩ := tail_storage cfg gen sgen q c1' token _
        ({ s with issued := s.issued ++ c2.gens } : SpecSt) s.live hb hsb rfl hpos (by rw [hn1]; exact hnow) hI2 hSc hNc hne hT hTi
        hSU c2 r2 hft
      rcases hcase with ⟨_, hu, _, _⟩ | ⟨hp, _, live2, hcc, hS2, hN2⟩
      · rw [hsafe] at hu; cases hu
      · obtain ⟨hps, hrest⟩ := hfin live2 hS2 hN2
        refine ⟨_, specReq_intro _ s q _ s.live live2 ?_ ?_ hps, hrest⟩
        · simp [reachClause, hsafe, obsOf, assemble, hp]
        · have : (obsOf cfg c2.st (assemble c2 r2)).pass = true := hp
          simp only [this, if_true]
          exact hcc
    · -- unsafe method
      simp only [hsafe, Bool.false_eq_true, if_false] at hdec
      simp only [Bool.not_eq_true] at hsafe
      obtain ⟨hgate, hext, hlive, hfg, hfs, hfd, hsm⟩ := hdec
      obtain ⟨hl1, hl2, hl3⟩ := storeLive_spec gen cfg.idle st s q.ck hnow hI hS hlive
      -- the live set once a single-use token is consumed
      have hlive1 : ∃ live1, live1 = (if cfg.single then erase s.live q.ck else s.live) ∧
          StoreOK gen cfg.idle c1'.st.ntok c1'.st.now c1'.st.store live1 ∧ keysNodup c1'.st.store ∧
          StoreOK gen cfg.idle c1'.st.ntok c1'.st.now c1'.st.store s.live := by
        by_cases hsg : cfg.single = true
        · simp only [hsg, if_true] at hsm ⊢
          refine ⟨_, rfl, ?_, ?_, ?_⟩
          · rw [hst1, hsm.2]; exact storeOK_erase _ _ _ _ _ _ _ hS1
          · rw [hst1, hsm.2]; exact keysNodup_erase _ _ hN
          · rw [hst1, hsm.2]; exact storeOK_erase_store _ _ _ _ _ _ _ hS1
        · simp only [hsg, Bool.false_eq_true, if_false] at hsm ⊢
          refine ⟨_, rfl, ?_, ?_, ?_⟩
          · rw [hst1, hsm.2]; exact hS1
          · rw [hst1, hsm.2]; exact hN
          · rw [hst1, hsm.2]; exact hS1
      obtain ⟨live1, hl1eq, hSc, hNc, hSc'⟩ := hlive1
      obtain ⟨_, _, _, hcase⟩ := tail_storage cfg gen sgen q c1' token _
        ({ s with issued := s.issued ++ c2.gens } : SpecSt) live1 hb hsb rfl hpos (by rw [hn1]; exact hnow) hI2 hSc hNc hne hT hTi
        hSU c2 r2 hft
      rcases hcase with ⟨hp, _, hst2, hck2⟩ | ⟨hp, hearly, live2, hcc, hS2, hN2⟩
      · -- the store could not be written: turned away
        have hS2 : StoreOK gen cfg.idle c1'.st.ntok c1'.st.now c2.st.store s.live := by rw [hst2]; exact hSc'
        have hN2 : keysNodup c2.st.store := by rw [hst2]; exact hNc
        obtain ⟨hps, hrest⟩ := hfin s.live hS2 hN2
        refine ⟨_, specReq_intro _ s q _ s.live s.live ?_ ?_ hps, hrest⟩
        · simp [reachClause, hsafe, obsOf, assemble, hp]
        · have : (obsOf cfg c2.st (assemble c2 r2)).pass = false := hp
          simp only [this, Bool.false_eq_true, if_false]
          simp [rejectClause, obsOf, assemble, hck2]
      · obtain ⟨hps, hrest⟩ := hfin live2 hS2 hN2
        refine ⟨_, specReq_intro _ s q _ live1 live2 ?_ ?_ hps, hrest⟩
        · have hpass : (obsOf cfg c2.st (assemble c2 r2)).pass = true := hp
          have hear : (obsOf cfg c2.st (assemble c2 r2)).early = false := by
            show r2.early = false
            rw [hearly hsafe, hfg1, hfs1, hfd1, hfg, hfs, hfd]; rfl
          have horig := gate_sound raw cfg hbuild q hgate
          have hacc : acceptedToken (specConfig cfg.backend cfg.ext cfg.single cfg.idle raw)
              { s with issued := s.issued ++ (obsOf cfg c2.st (assemble c2 r2)).gens } q = some q.ck := by
            refine accepted_of (specConfig cfg.backend cfg.ext cfg.single cfg.idle raw)
              { s with issued := s.issued ++ (obsOf cfg c2.st (assemble c2 r2)).gens } q q.ck hext rfl hl1 ?_
            simp only [List.contains_eq_mem, List.mem_append, decide_eq_true_eq]
            exact Or.inl hl2
          unfold reachClause
          simp only [hsafe, Bool.not_false, if_true, hpass, hear, Bool.false_eq_true, if_false, horig,
            Bool.not_true, hacc, hsb, Bool.false_and]
          rw [hl1eq]; rfl
        · have : (obsOf cfg c2.st (assemble c2 r2)).pass = true := hp
          simp only [this, if_true]
          exact hcc

end C16
