import FiberModel.C16.Model
/-
C16 — the property as an executable oracle over a request history and the observations made at the
server (by the harness on the real code, or by the model).

Spec state: the set of live tokens with their deadline (and, for bookkeeping only, the session the
token was handed to), and the set of tokens the server's key generator ever produced. The oracle is
one-directional where the sentence is ("an unsafe request reaches the handler ONLY IF …"), so the live
set is kept as an over-approximation of what the server may still accept; it shrinks exactly when the
sentence says a token dies: deadline passed, single use, `DeleteToken`.

Reading of the sentence fixed here (documented in docs/C16.md):
* "unexpired": `now ≤ deadline`, deadline = last issue/extension + IdleTimeout (inclusive bound, the
  weaker of the two conventions found in the back-ends);
* an `Origin: null` header carries no origin and counts as "no Origin present";
* "comes from the same origin or a configured trusted origin" is decided on the `(scheme, host)` that
  `net/url` assigns to the lower-cased header, against the configured list read — again as `net/url`
  reads a URL text — as: exact `scheme://host[:port]` (userinfo, a root path, an empty `?`/`#` marker
  and letter case do not count), or `scheme://*.domain` = same scheme and host ending in `.domain`;
* with a session back-end a token belongs to the session in whose reply it was handed out, and is
  accepted only together with that session's cookie ("swap between clients");
* "if the token store fails": a storage call the middleware made for the request, before handing it to
  the protected handler, returned an error (a failure of the handler's own later `DeleteToken` call
  cannot un-reach the handler).
-/
namespace C16
open B

inductive TrustEntry where
  | exact (scheme host : Bytes)
  | wild (scheme domain : Bytes)
  deriving Repr, DecidableEq

/-- The origin a URL text stands for, as `net/url` reads it (transcription `C19.Url.parse`, compared
    with the real `url.Parse` on every case): an absolute `http`/`https` URL with a host that holds no
    `*`, nothing behind the host but an optional root path (an empty `?` or `#` marker counts as
    nothing); the origin is the scheme and the host (port included, userinfo not) in lower case.
    `none`: the text denotes no origin. -/
def originOfText (t : Bytes) : Option (Bytes × Bytes) :=
  match C19.Url.parse t with
  | none => none
  | some u =>
    if (u.scheme = b "http" ∨ u.scheme = b "https") ∧ u.host ≠ [] ∧ ¬ u.host.contains 42 ∧
       (u.path = [] ∨ u.path = b "/") ∧ u.rawQuery = [] ∧ u.fragment = []
    then some (u.scheme, toLower u.host) else none

/-- A configured trusted origin, read off the configuration string (blanks around it dropped). An
    entry holding `://*.` is a wildcard entry: with the `*` taken out it must denote an origin whose
    host starts with the dot that followed the `*`; it stands for `wild scheme domain`. Any other
    entry stands for exactly the origin it denotes. `none`: the entry denotes nothing. -/
def specEntry (raw : Bytes) : Option TrustEntry :=
  let o := trim raw 32
  match indexOf o (b "://*.") with
  | some i =>
    match originOfText (o.take (i + 3) ++ o.drop (i + 4)) with
    | some (s, h) => if h.head? = some 46 then some (.wild s (h.drop 1)) else none
    | none => none
  | none =>
    match originOfText o with
    | some (s, h) => some (.exact s h)
    | none => none

def TrustEntry.admits (e : TrustEntry) (scheme host : Bytes) : Bool :=
  match e with
  | .exact s h => scheme = s && host = h
  | .wild s d => scheme = s && hasSuffix host (b "." ++ d)

structure SpecCfg where
  ext : Ext
  single : Bool
  idle : Nat
  entries : List TrustEntry
  sessionBacked : Bool
  next : Option (Req → Bool) := none     -- Config.Next
  cookie : CookieCfg := {}               -- the cookie fields of the configuration
  eh : Err → Nat := fun _ => 403         -- Config.ErrorHandler: the status it answers an error with

def specConfig (backend : Backend) (ext : Ext) (single : Bool) (idle : Nat) (raw : List Bytes)
    (next : Option (Req → Bool) := none) (cookie : CookieCfg := {}) (eh : Err → Nat := fun _ => 403) : SpecCfg :=
  { ext := ext, single := single, idle := idle, entries := raw.filterMap specEntry,
    sessionBacked := backend ≠ .storage, next := next, cookie := cookie, eh := eh }

/-- one entry of the harness' token-store probe -/
structure LiveItem where
  sid : Bytes
  tok : Option Bytes
  deadline : Nat
  deriving Repr, DecidableEq

/-- what is observed at the server for one request -/
structure Obs where
  pass : Bool
  status : Nat
  ck : Option Bytes
  sc : Option Bytes
  gens : List Bytes
  sgens : List Bytes
  fired : Bool                          -- some storage call of this request failed
  early : Bool                          -- … before the protected handler was entered (or it never was)
  live : Option (List LiveItem)         -- probe of the token store after the request, if available
  attrs : Option CookieAttrs := none    -- attributes of the csrf cookie the reply sets, if it sets one
  deriving Repr, DecidableEq

/-- the token-store probe of a model state (what the harness reads out of the real store) -/
def probe (cfg : Cfg) (st : St) : List LiveItem :=
  match cfg.backend with
  | .storage => (st.store.filter fun e => st.now < e.2).map fun e => { sid := [], tok := some e.1, deadline := e.2 }
  | _ => st.sess.map fun e => match e.2 with
      | some t => { sid := e.1, tok := some t.key, deadline := t.exp }
      | none => { sid := e.1, tok := none, deadline := 0 }

/-- the observation the harness makes of a response `r` and the state `st` after it -/
def obsOf (cfg : Cfg) (st : St) (r : Resp) : Obs :=
  { pass := r.pass, status := r.status, ck := r.ck, sc := r.sc, gens := r.gens, sgens := r.sgens,
    fired := r.fg || r.fs || r.fd, early := r.early, live := some (probe cfg st),
    attrs := respAttrs cfg st.now r }

/-- the observations of a whole history run on the model (`none` for a clock advance) -/
def runObs (cfg : Cfg) (gen sgen : Nat → Bytes) : St → List Op → List (Option Obs)
  | _, [] => []
  | st, o :: os =>
    let (st', r) := step cfg gen sgen st o
    r.map (obsOf cfg st') :: runObs cfg gen sgen st' os

def panicObs : Obs :=
  { pass := false, status := 0, ck := none, sc := none, gens := [], sgens := [], fired := false, early := false,
    live := none, attrs := none }

structure LiveTok where
  deadline : Nat
  holder : Option Bytes      -- session the token was handed to (session back-ends)
  deriving Repr, DecidableEq

structure SpecSt where
  now : Nat := 0
  live : List (Bytes × LiveTok) := []
  issued : List Bytes := []

def specInit : SpecSt := {}

def SpecSt.liveAt (s : SpecSt) (t : Bytes) : Bool :=
  match lookup s.live t with
  | some l => decide (s.now ≤ l.deadline)
  | none => false

/-- tokens "presented through the configured extractor" -/
def presented (e : Ext) (q : Req) : List Bytes :=
  match e with
  | .header => [q.hdr]
  | .form => [q.qry, q.form]        -- a form value may travel in the query string or the body
  | .query => [q.qry]
  | .param => [q.param]
  | .cookie => [q.ck]
  | .custom => [q.custom]

def sameOrigin (q : Req) (u : UrlInfo) : Bool := u.scheme = reqScheme q && u.host = toLower q.host

def originAllowed (cfg : SpecCfg) (q : Req) (u : UrlInfo) : Bool :=
  u.ok && (sameOrigin q u || cfg.entries.any (·.admits u.scheme u.host))

def originPresent (q : Req) : Bool := toLower q.origin ≠ [] && toLower q.origin ≠ b "null"

/-- the origin clause: when an Origin (or, on https without one, a Referer) is present it must be
    the same origin or a trusted one -/
def originClause (cfg : SpecCfg) (q : Req) : Bool :=
  if originPresent q then originAllowed cfg q q.ourl
  else if q.https && toLower q.referer ≠ [] then originAllowed cfg q q.rurl
  else true

/-- the token an accepted unsafe request went through on -/
def acceptedToken (cfg : SpecCfg) (s : SpecSt) (q : Req) : Option Bytes :=
  (presented cfg.ext q).find? fun t => t ≠ [] && t = q.ck && s.liveAt t && s.issued.contains t

def probeHas (o : Obs) (t : Bytes) (minDeadline : Nat) : Bool :=
  match o.live with
  | none => true
  | some items => items.any fun it => it.tok = some t && decide (minDeadline ≤ it.deadline)

/-- every token the store holds was issued and is live in the spec (state-level reading of
    "a token that the server issued and that is unexpired, not consumed and not deleted") -/
def probeSound (s : SpecSt) (o : Obs) : Bool :=
  match o.live with
  | none => true
  | some items => items.all fun it =>
    match it.tok with
    | none => true
    | some t => decide (it.deadline < s.now) ||
        (s.issued.contains t && (match lookup s.live t with
                                 | some l => decide (it.deadline ≤ l.deadline)
                                 | none => false))

/-- session back-ends: the token was handed to the session the request presents -/
def heldBy (s : SpecSt) (t sc : Bytes) : Bool :=
  match lookup s.live t with
  | some l => decide (l.holder = some sc)
  | none => false

/-- clauses about reaching the handler; yields the live set after a single-use token was consumed -/
def reachClause (cfg : SpecCfg) (s : SpecSt) (q : Req) (o : Obs) : Except String (List (Bytes × LiveTok)) :=
  if !isSafe q.method then
    if o.pass then
      if o.early then .error "store-failure-must-reject"
      else if !originClause cfg q then .error "origin-gate"
      else match acceptedToken cfg s q with
        | none => .error "unsafe-pass-requires-live-issued-token-matching-cookie"
        | some t =>
          -- tokens of different clients never mix: a session-bound token only works with its session
          if cfg.sessionBacked && !heldBy s t q.sc then .error "token-of-another-session"
          else .ok (if cfg.single then erase s.live t else s.live)
    else .ok s.live
  else if !o.pass then .error "safe-methods-pass"
  else .ok s.live

/-- every token generated for this request is live from now on, handed out or not -/
def afterGens (cfg : SpecCfg) (s : SpecSt) (o : Obs) (live : List (Bytes × LiveTok)) : List (Bytes × LiveTok) :=
  o.gens.foldl (fun l g => put l g { deadline := s.now + cfg.idle, holder := o.sc }) live

/-- the token `DeleteToken` is called on belongs to the caller (session back-ends: to its session) -/
def delMine (cfg : SpecCfg) (q : Req) (o : Obs) (live : List (Bytes × LiveTok)) : Bool :=
  match lookup live q.ck with
  | some l => !cfg.sessionBacked || l.holder = some q.sc || l.holder = o.sc
  | none => false

/-- `DeleteToken` called by the handler -/
def afterDel (cfg : SpecCfg) (q : Req) (o : Obs) (live : List (Bytes × LiveTok)) : List (Bytes × LiveTok) :=
  if q.del && q.ck ≠ [] && !o.fired && delMine cfg q o live then erase live q.ck else live

/-- the handler ran: what the reply hands out (`s` = the state before the request, issued set updated) -/
def cookieClause (cfg : SpecCfg) (s : SpecSt) (q : Req) (o : Obs) (live : List (Bytes × LiveTok)) :
    Except String (List (Bytes × LiveTok)) :=
  let noValid : Except String (List (Bytes × LiveTok)) :=
    if isSafe q.method && !q.del then .error "safe-leaves-valid-token-cookie" else .ok live
  match o.ck with
  | none => noValid
  | some t =>
    if t = [] then noValid
    else if !(s.issued.contains t) then .error "cookie-token-was-not-issued"
    else if cfg.single && !isSafe q.method && t = q.ck && !o.gens.contains t then
      .error "single-use-token-handed-out-again"
    else if !((t = q.ck && s.liveAt t) || o.gens.contains t) then .error "cookie-token-neither-presented-live-nor-fresh"
    else if isSafe q.method && !o.fired && !probeHas o t (s.now + cfg.idle) then .error "safe-leaves-valid-token-cookie"
    else .ok (put live t { deadline := s.now + cfg.idle, holder := o.sc })

/-- the handler did not run: nothing is handed out -/
def rejectClause (o : Obs) (live : List (Bytes × LiveTok)) : Except String (List (Bytes × LiveTok)) :=
  match o.ck with
  | some t => if t ≠ [] then .error "rejected-request-handed-out-token" else .ok live
  | none => .ok live

/-- one request the middleware is in charge of (`Next` did not tell it to step aside): the first
    violated clause, or the next spec state -/
def specReqCore (cfg : SpecCfg) (s0 : SpecSt) (q : Req) (o : Obs) : Except String SpecSt :=
  let s := { s0 with issued := s0.issued ++ o.gens }
  match reachClause cfg s q o with
  | .error e => .error e
  | .ok live1 =>
    match (if o.pass then cookieClause cfg s q o (afterDel cfg q o (afterGens cfg s o live1))
           else rejectClause o live1) with
    | .error e => .error e
    | .ok live2 =>
      let s' := { s with live := live2 }
      if !probeSound s' o then .error "store-holds-unissued-or-dead-token" else .ok s'

/-- "Next defines a function to skip this middleware when returned true" -/
def skippedS (cfg : SpecCfg) (q : Req) : Bool :=
  match cfg.next with
  | some f => f q
  | none => false

/-- a request `Next` exempts: the middleware steps aside — the handler is reached, no csrf cookie is
    set, no token is issued, the token store still holds nothing it should not; the bookkeeping does
    not move -/
def specSkip (s0 : SpecSt) (o : Obs) : Except String SpecSt :=
  if !o.pass || o.ck.isSome || !o.gens.isEmpty then .error "next-skips-middleware"
  else if !probeSound s0 o then .error "store-holds-unissued-or-dead-token"
  else .ok s0

/-- "leave a valid token cookie": the cookie carries the configured attributes. Domain, Path (with
    the leading slash a cookie path has) and HttpOnly as configured; Secure when configured, and
    always together with `SameSite=None`; SameSite as configured, read without regard to letter case
    (`Strict`, `None`, `Disabled` = no attribute), `Lax` otherwise; unless `CookieSessionOnly`, an
    `Expires` one idle period ahead for a token cookie and in the past for a cookie being expired;
    with `CookieSessionOnly` no `Expires`. -/
def attrsOK (cc : CookieCfg) (idle now : Nat) (t : Bytes) (a : CookieAttrs) : Bool :=
  a.domain = cc.domain &&
  (a.path = cc.path || a.path = 47 :: cc.path) && a.path.head? = some 47 &&
  a.httpOnly = cc.httpOnly &&
  decide (a.sameSite = (if toLower cc.sameSite = b "strict" then SameSite.strict
                else if toLower cc.sameSite = b "none" then SameSite.none
                else if toLower cc.sameSite = b "disabled" then SameSite.disabled else SameSite.lax)) &&
  a.secure = (cc.secure || a.sameSite = .none) &&
  (match a.expires with
   | none => cc.sessionOnly
   | some e => !cc.sessionOnly && (if t = [] then decide (e < now) else e = (now : Int) + idle))

/-- the attribute clause for one observation -/
def attrsClause (cfg : SpecCfg) (now : Nat) (o : Obs) : Bool :=
  match o.ck, o.attrs with
  | none, _ => true
  | some t, some a => attrsOK cfg.cookie cfg.idle now t a
  | some _, none => false

def allErrs : List Err :=
  [.originInvalid, .originNoMatch, .refererNotFound, .refererInvalid, .refererNoMatch, .missing, .extractor,
   .tokenNotFound, .tokenInvalid, .storage]

/-- a request turned away is answered by the configured ErrorHandler: the client sees the status it
    produces for one of the middleware's errors -/
def ehClause (cfg : SpecCfg) (o : Obs) : Bool := o.pass || allErrs.any fun e => cfg.eh e == o.status

/-- one request: the first violated clause, or the next spec state -/
def specReq (cfg : SpecCfg) (s0 : SpecSt) (q : Req) (o : Obs) : Except String SpecSt :=
  if skippedS cfg q then specSkip s0 o
  else if !attrsClause cfg s0.now o then .error "cookie-attributes-as-configured"
  else if !ehClause cfg o then .error "rejected-request-answered-by-error-handler"
  else specReqCore cfg s0 q o

def specRun (cfg : SpecCfg) : SpecSt → List Op → List (Option Obs) → Option String
  | _, [], _ => none
  | s, .adv d :: ops, _ :: obs => specRun cfg { s with now := s.now + d } ops obs
  | s, .req q :: ops, some o :: obs =>
    match specReq cfg s q o with
    | .error e => some e
    | .ok s' => specRun cfg s' ops obs
  | _, _, _ => some "observation-shape"

/-- the specification state a history ends in (`none` once a clause is violated) -/
def specEnd (cfg : SpecCfg) : SpecSt → List Op → List (Option Obs) → Option SpecSt
  | s, [], _ => some s
  | s, .adv d :: ops, _ :: obs => specEnd cfg { s with now := s.now + d } ops obs
  | s, .req q :: ops, some o :: obs =>
    match specReq cfg s q o with
    | .error _ => none
    | .ok s' => specEnd cfg s' ops obs
  | _, _, _ => none

/-- branch tags for the distribution report -/
def specTags (cfg : Cfg) (ops : List Op) (obs : List (Option Obs)) : List String :=
  let reqs := ops.filterMap fun o => match o with | .req q => some q | _ => none
  let os := obs.filterMap id
  let unsafePass := (reqs.zip os).any fun (q, o) => !skipped cfg q && !isSafe q.method && o.pass
  let unsafeRej := (reqs.zip os).any fun (q, o) => !isSafe q.method && !o.pass
  let gate := (reqs.zip os).any fun (q, o) => !skipped cfg q && !isSafe q.method && originPresent q && o.pass
  let skips := reqs.any (skipped cfg ·)
  let faults := os.any (·.fired)
  let expiry := os.any fun o => o.ck = some []
  (if unsafePass then ["nt-unsafe-pass"] else []) ++ (if unsafeRej then ["unsafe-reject"] else []) ++
  (if gate then ["nt-origin-pass"] else []) ++ (if faults then ["fault-fired"] else []) ++
  (if skips then ["next-skipped"] else []) ++
  (if expiry then ["cookie-expired"] else []) ++ (if cfg.single then ["single"] else ["multi"])

end C16
