import FiberModel.C16.Model
/-
C16 — the property as an executable oracle over a request history and the observations made at the
server (by the harness on the real code, or by the model).

Spec state: the set of live tokens with their deadline (and, for bookkeeping only, the session the
token was handed to), and the set of tokens the server's key generator ever produced. The oracle is
one-directional where the sentence is ("an unsafe request reaches the handler ONLY IF …"), so the live
set is kept as an over-approximation of what the server may still accept; it shrinks exactly when the
sentence says a token dies: deadline passed, single use, `DeleteToken`.

Reading of the sentence fixed here (documented in docs/C16.md):
* "unexpired": `now ≤ deadline`, deadline = last issue/extension + IdleTimeout (inclusive bound, the
  weaker of the two conventions found in the back-ends);
* an `Origin: null` header carries no origin and counts as "no Origin present";
* "comes from the same origin or a configured trusted origin" is decided on the `(scheme, host)` that
  `net/url` assigns to the header (parameter), against the configured list read as: exact
  `scheme://host[:port]`, or `scheme://*.domain` = same scheme and host ending in `.domain`;
* "if the token store fails": a storage call made for the request returned an error.
-/
namespace C16
open B

inductive TrustEntry where
  | exact (scheme host : Bytes)
  | wild (scheme domain : Bytes)
  deriving Repr, DecidableEq

/-- a configured trusted origin, read off the configuration string -/
def specEntry (raw : Bytes) : Option TrustEntry :=
  let o := trim raw 32
  match indexOf o (b "://") with
  | none => none
  | some i =>
    let scheme := toLower (o.take i)
    let rest := o.drop (i + 3)
    let rest := if rest.getLast? = some 47 then rest.dropLast else rest
    if hasPrefix rest (b "*.") then some (.wild scheme (toLower (rest.drop 2)))
    else some (.exact scheme (toLower rest))

def TrustEntry.admits (e : TrustEntry) (scheme host : Bytes) : Bool :=
  match e with
  | .exact s h => scheme = s && host = h
  | .wild s d => scheme = s && hasSuffix host (b "." ++ d)

structure SpecCfg where
  ext : Ext
  single : Bool
  idle : Nat
  entries : List TrustEntry
  sessionBacked : Bool

def specConfig (backend : Backend) (ext : Ext) (single : Bool) (idle : Nat) (raw : List Bytes) : SpecCfg :=
  { ext := ext, single := single, idle := idle, entries := raw.filterMap specEntry,
    sessionBacked := backend ≠ .storage }

/-- one entry of the harness' token-store probe -/
structure LiveItem where
  sid : Bytes
  tok : Option Bytes
  deadline : Nat
  deriving Repr, DecidableEq

/-- what is observed at the server for one request -/
structure Obs where
  pass : Bool
  status : Nat
  ck : Option Bytes
  sc : Option Bytes
  gens : List Bytes
  sgens : List Bytes
  fired : Bool                          -- some storage call of this request failed
  live : Option (List LiveItem)         -- probe of the token store after the request, if available
  deriving Repr, DecidableEq

def panicObs : Obs :=
  { pass := false, status := 0, ck := none, sc := none, gens := [], sgens := [], fired := false, live := none }

structure LiveTok where
  deadline : Nat
  holder : Option Bytes      -- session the token was handed to (session back-ends)
  deriving Repr, DecidableEq

structure SpecSt where
  now : Nat := 0
  live : List (Bytes × LiveTok) := []
  issued : List Bytes := []

def specInit : SpecSt := {}

def SpecSt.liveAt (s : SpecSt) (t : Bytes) : Bool :=
  match lookup s.live t with
  | some l => decide (s.now ≤ l.deadline)
  | none => false

/-- tokens "presented through the configured extractor" -/
def presented (e : Ext) (q : Req) : List Bytes :=
  match e with
  | .header => [q.hdr]
  | .form => [q.qry, q.form]        -- a form value may travel in the query string or the body
  | .query => [q.qry]
  | .param => [q.param]
  | .cookie => [q.ck]
  | .custom => [q.custom]

def sameOrigin (q : Req) (u : UrlInfo) : Bool := u.scheme = reqScheme q && u.host = toLower q.host

def originAllowed (cfg : SpecCfg) (q : Req) (u : UrlInfo) : Bool :=
  u.ok && (sameOrigin q u || cfg.entries.any (·.admits u.scheme u.host))

def originPresent (q : Req) : Bool := toLower q.origin ≠ [] && toLower q.origin ≠ b "null"

/-- the origin clause: when an Origin (or, on https without one, a Referer) is present it must be
    the same origin or a trusted one -/
def originClause (cfg : SpecCfg) (q : Req) : Bool :=
  if originPresent q then originAllowed cfg q q.ourl
  else if q.https && toLower q.referer ≠ [] then originAllowed cfg q q.rurl
  else true

/-- the token an accepted unsafe request went through on -/
def acceptedToken (cfg : SpecCfg) (s : SpecSt) (q : Req) : Option Bytes :=
  (presented cfg.ext q).find? fun t => t ≠ [] && t = q.ck && s.liveAt t && s.issued.contains t

def probeHas (o : Obs) (t : Bytes) (minDeadline : Nat) : Bool :=
  match o.live with
  | none => true
  | some items => items.any fun it => it.tok = some t && decide (minDeadline ≤ it.deadline)

/-- every token the store holds was issued and is live in the spec (state-level reading of
    "a token that the server issued and that is unexpired, not consumed and not deleted") -/
def probeSound (s : SpecSt) (o : Obs) : Bool :=
  match o.live with
  | none => true
  | some items => items.all fun it =>
    match it.tok with
    | none => true
    | some t => decide (it.deadline < s.now) ||
        (s.issued.contains t && (match lookup s.live t with
                                 | some l => decide (it.deadline ≤ l.deadline)
                                 | none => false))

/-- one request: the first violated clause, or the next spec state -/
def specReq (cfg : SpecCfg) (s : SpecSt) (q : Req) (o : Obs) : Except String SpecSt := do
  let s := { s with issued := s.issued ++ o.gens }
  let unsafeM := !isSafe q.method
  -- clauses about reaching the handler
  let mut live := s.live
  if unsafeM then
    if o.pass then
      if o.fired then throw "store-failure-must-reject"
      if !originClause cfg q then throw "origin-gate"
      match acceptedToken cfg s q with
      | none => throw "unsafe-pass-requires-live-issued-token-matching-cookie"
      | some t =>
        if cfg.single then live := erase live t
  else
    if !o.pass then throw "safe-methods-pass"
  -- the handler ran: what the reply hands out
  if o.pass then
    -- every token generated for this request is live from now on, handed out or not
    for g in o.gens do
      live := put live g { deadline := s.now + cfg.idle, holder := o.sc }
    -- DeleteToken called by the handler
    if q.del && q.ck ≠ [] && !o.fired then
      let mine := match lookup live q.ck with
        | some l => !cfg.sessionBacked || l.holder = some q.sc || l.holder = o.sc
        | none => false
      if mine then live := erase live q.ck
    match o.ck with
    | some t =>
      if t ≠ [] then
        if !(s.issued.contains t) then throw "cookie-token-was-not-issued"
        let keeps := t = q.ck && s.liveAt t
        if !(keeps || o.gens.contains t) then throw "cookie-token-neither-presented-live-nor-fresh"
        live := put live t { deadline := s.now + cfg.idle, holder := o.sc }
        if !unsafeM && !o.fired && !probeHas o t (s.now + cfg.idle) then throw "safe-leaves-valid-token-cookie"
    | none =>
      if !unsafeM && !q.del then throw "safe-leaves-valid-token-cookie"
    if !unsafeM && !q.del && o.ck = some [] then throw "safe-leaves-valid-token-cookie"
  else
    match o.ck with
    | some t => if t ≠ [] then throw "rejected-request-handed-out-token"
    | none => pure ()
  let s' := { s with live := live }
  if !probeSound s' o then throw "store-holds-unissued-or-dead-token"
  return s'

def specRun (cfg : SpecCfg) : SpecSt → List Op → List (Option Obs) → Option String
  | _, [], _ => none
  | s, .adv d :: ops, _ :: obs => specRun cfg { s with now := s.now + d } ops obs
  | s, .req q :: ops, some o :: obs =>
    match specReq cfg s q o with
    | .error e => some e
    | .ok s' => specRun cfg s' ops obs
  | _, _, _ => some "observation-shape"

/-- branch tags for the distribution report -/
def specTags (cfg : Cfg) (ops : List Op) (obs : List (Option Obs)) : List String :=
  let reqs := ops.filterMap fun o => match o with | .req q => some q | _ => none
  let os := obs.filterMap id
  let unsafePass := (reqs.zip os).any fun (q, o) => !isSafe q.method && o.pass
  let unsafeRej := (reqs.zip os).any fun (q, o) => !isSafe q.method && !o.pass
  let gate := (reqs.zip os).any fun (q, o) => !isSafe q.method && originPresent q && o.pass
  let faults := os.any (·.fired)
  let expiry := os.any fun o => o.ck = some []
  (if unsafePass then ["nt-unsafe-pass"] else []) ++ (if unsafeRej then ["unsafe-reject"] else []) ++
  (if gate then ["nt-origin-pass"] else []) ++ (if faults then ["fault-fired"] else []) ++
  (if expiry then ["cookie-expired"] else []) ++ (if cfg.single then ["single"] else ["multi"])

end C16
