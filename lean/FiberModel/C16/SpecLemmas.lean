import FiberModel.C16.Sim
/-
C16 — facts about the specification alone: every live token was issued; reading off what an accepted
step says.
-/
set_option linter.unusedVariables false
set_option linter.unusedSimpArgs false

namespace C16
open B

/-- all keys of an association list satisfy `P` -/
def KeysIn {α} (l : List (Bytes × α)) (P : Bytes → Prop) : Prop := ∀ k v, lookup l k = some v → P k

theorem keysIn_erase {α} (l : List (Bytes × α)) (P : Bytes → Prop) (k : Bytes) (h : KeysIn l P) :
    KeysIn (erase l k) P := by
  intro k' v hl
  rw [lookup_erase] at hl
  by_cases e : k' = k
  · simp [e] at hl
  · simp only [e, if_false] at hl; exact h k' v hl

theorem keysIn_put {α} (l : List (Bytes × α)) (P : Bytes → Prop) (k : Bytes) (v : α) (h : KeysIn l P)
    (hk : P k) : KeysIn (put l k v) P := by
  intro k' v' hl
  rw [lookup_put] at hl
  by_cases e : k' = k
  · rw [e]; exact hk
  · simp only [e, if_false] at hl; exact h k' v' hl

theorem keysIn_mono {α} (l : List (Bytes × α)) (P Q : Bytes → Prop) (h : KeysIn l P) (hpq : ∀ k, P k → Q k) :
    KeysIn l Q := fun k v hl => hpq k (h k v hl)

/-- every live token of the specification state was issued -/
def LiveIssued (s : SpecSt) : Prop := KeysIn s.live (· ∈ s.issued)

theorem liveIssued_init : LiveIssued specInit := by
  intro k v h; simp [specInit, lookup] at h

theorem keysIn_afterGens (scfg : SpecCfg) (s : SpecSt) (o : Obs) (live : List (Bytes × LiveTok))
    (P : Bytes → Prop) (h : KeysIn live P) (hg : ∀ g ∈ o.gens, P g) : KeysIn (afterGens scfg s o live) P := by
  unfold afterGens
  generalize o.gens = gs at hg
  induction gs generalizing live with
  | nil => exact h
  | cons g gs ih =>
    simp only [List.foldl]
    exact ih _ (keysIn_put _ _ _ _ h (hg g (by simp))) (fun g' hg' => hg g' (by simp [hg']))

theorem keysIn_afterDel (scfg : SpecCfg) (q : Req) (o : Obs) (live : List (Bytes × LiveTok))
    (P : Bytes → Prop) (h : KeysIn live P) : KeysIn (afterDel scfg q o live) P := by
  unfold afterDel
  split
  · exact keysIn_erase _ _ _ h
  · exact h

/-- an accepted step keeps "live ⊆ issued" -/
theorem specReqCore_liveIssued (scfg : SpecCfg) (s : SpecSt) (q : Req) (o : Obs) (s' : SpecSt)
    (h : specReqCore scfg s q o = .ok s') (hl : LiveIssued s) : LiveIssued s' := by
  unfold specReqCore at h
  simp only at h
  have hP : KeysIn s.live (· ∈ s.issued ++ o.gens) :=
    keysIn_mono _ _ _ hl (fun k hk => List.mem_append_left _ hk)
  split at h
  · cases h
  · rename_i live1 hr
    have h1 : KeysIn live1 (· ∈ s.issued ++ o.gens) := by
      unfold reachClause at hr
      simp only at hr
      repeat' split at hr
      all_goals try (cases hr; done)
      all_goals cases hr
      all_goals first | exact hP | exact keysIn_erase _ _ _ hP
    split at h
    · cases h
    · rename_i live2 hc
      have h2 : KeysIn live2 (· ∈ s.issued ++ o.gens) := by
        split at hc
        · have hX := keysIn_afterDel scfg q o _ _
            (keysIn_afterGens scfg { s with issued := s.issued ++ o.gens } o live1 _ h1
              (fun g hg => List.mem_append_right _ hg))
          unfold cookieClause at hc
          simp only at hc
          repeat' split at hc
          all_goals try (cases hc; done)
          all_goals cases hc
          all_goals first | exact hX | skip
          -- the cookie's token was checked against the issued set
          rename_i hiss _ _ _
          apply keysIn_put _ _ _ _ hX
          simp only [Bool.not_eq_true', Bool.not_eq_false, List.contains_eq_mem, decide_eq_true_eq] at hiss
          exact hiss
        · unfold rejectClause at hc
          repeat' split at hc
          all_goals try (cases hc; done)
          all_goals cases hc
          all_goals exact h1
      split at h
      · cases h
      · simp only [Except.ok.injEq] at h
        rw [← h]
        exact h2

/-! ## reading an accepted step -/

theorem specReqCore_issued (scfg : SpecCfg) (s : SpecSt) (q : Req) (o : Obs) (s' : SpecSt)
    (h : specReqCore scfg s q o = .ok s') : s'.issued = s.issued ++ o.gens ∧ s'.now = s.now := by
  unfold specReqCore at h
  simp only at h
  repeat' split at h
  all_goals try (cases h; done)
  all_goals cases h
  all_goals exact ⟨rfl, rfl⟩

theorem accepted_spec (scfg : SpecCfg) (s : SpecSt) (q : Req) (t : Bytes)
    (h : acceptedToken scfg s q = some t) :
    t ∈ presented scfg.ext q ∧ t ≠ [] ∧ t = q.ck ∧ s.liveAt t = true ∧ t ∈ s.issued := by
  unfold acceptedToken at h
  have hm := List.mem_of_find?_eq_some h
  have hp := List.find?_some h
  simp only [Bool.and_eq_true, decide_eq_true_eq, List.contains_eq_mem] at hp
  exact ⟨hm, hp.1.1.1, hp.1.1.2, hp.1.2, hp.2⟩

/-- an accepted step in which an unsafe request reached the handler: no storage fault before the
    handler, the origin clause holds, and the token that let it through was presented through the
    configured extractor, equals the cookie, is live and was issued; with a session back-end it was
    handed to the session whose cookie the request carries -/
theorem specReqCore_ok_unsafe_pass (scfg : SpecCfg) (s : SpecSt) (q : Req) (o : Obs) (s' : SpecSt)
    (h : specReqCore scfg s q o = .ok s') (hu : isSafe q.method = false) (hp : o.pass = true) :
    o.early = false ∧ originClause scfg q = true ∧
    ∃ t, t ∈ presented scfg.ext q ∧ t ≠ [] ∧ t = q.ck ∧ s.liveAt t = true ∧ t ∈ s.issued ++ o.gens ∧
      (scfg.sessionBacked = true → heldBy s t q.sc = true) := by
  unfold specReqCore at h
  simp only at h
  split at h
  · cases h
  · rename_i live1 hr
    unfold reachClause at hr
    simp only [hu, Bool.not_false, if_true, hp] at hr
    split at hr
    · cases hr
    · rename_i he
      split at hr
      · cases hr
      · rename_i ho
        split at hr
        · cases hr
        · rename_i t ht
          split at hr
          · cases hr
          · rename_i hby
            obtain ⟨h1, h2, h3, h4, h5⟩ := accepted_spec scfg _ q t ht
            refine ⟨by simpa using he, by simpa using ho, t, h1, h2, h3, h4, h5, fun hsb => ?_⟩
            simp only [hsb, Bool.true_and, Bool.not_eq_true', Bool.not_eq_false] at hby
            exact hby

/-- an accepted step for a safe request: the handler ran, and unless the handler itself deleted the
    token the reply carries an issued, non-empty token — the presented one if it was live, else a
    fresh one — which, no storage fault provided, the store holds for a full idle period -/
theorem specReqCore_ok_safe (scfg : SpecCfg) (s : SpecSt) (q : Req) (o : Obs) (s' : SpecSt)
    (h : specReqCore scfg s q o = .ok s') (hs : isSafe q.method = true) :
    o.pass = true ∧
    (q.del = false → ∃ t, o.ck = some t ∧ t ≠ [] ∧ t ∈ s.issued ++ o.gens ∧
      ((t = q.ck ∧ s.liveAt t = true) ∨ t ∈ o.gens) ∧
      (o.fired = false → probeHas o t (s.now + scfg.idle) = true)) := by
  unfold specReqCore at h
  simp only at h
  split at h
  · cases h
  · rename_i live1 hr
    have hpass : o.pass = true := by
      unfold reachClause at hr
      simp only [hs, Bool.not_true, Bool.false_eq_true, if_false] at hr
      split at hr
      · cases hr
      · rename_i hp; simpa using hp
    refine ⟨hpass, fun hnd => ?_⟩
    simp only [hpass, if_true] at h
    split at h
    · cases h
    · rename_i live2 hc
      unfold cookieClause at hc
      simp only [hs, hnd, Bool.not_false, Bool.and_true, Bool.true_and, if_true] at hc
      split at hc
      · cases hc
      · rename_i t hck
        split at hc
        · cases hc
        · rename_i hne
          split at hc
          · cases hc
          · rename_i hiss
            split at hc
            · cases hc
            · split at hc
              · cases hc
              · rename_i hkeep
                split at hc
                · cases hc
                · rename_i hprobe
                  refine ⟨t, hck, hne, ?_, ?_, ?_⟩
                  · simp only [Bool.not_eq_true', Bool.not_eq_false, List.contains_eq_mem, decide_eq_true_eq] at hiss
                    exact hiss
                  · simp only [Bool.not_eq_true', Bool.not_eq_false, Bool.or_eq_true, Bool.and_eq_true,
                      decide_eq_true_eq, List.contains_eq_mem] at hkeep
                    exact hkeep
                  · intro hf
                    simp only [hf, Bool.not_false, Bool.true_and, Bool.not_eq_true', Bool.not_eq_false] at hprobe
                    exact hprobe


/-! ## the full step: `Next`, the attribute clause, then the core -/

theorem specReq_core (scfg : SpecCfg) (s : SpecSt) (q : Req) (o : Obs) (hs : skippedS scfg q = false)
    (s' : SpecSt) (h : specReq scfg s q o = .ok s') :
    attrsClause scfg s.now o = true ∧ specReqCore scfg s q o = .ok s' := by
  unfold specReq at h
  simp only [hs, Bool.false_eq_true, if_false] at h
  split at h
  · cases h
  · rename_i ha
    split at h
    · cases h
    · exact ⟨by simpa using ha, h⟩

theorem specReq_skip (scfg : SpecCfg) (s : SpecSt) (q : Req) (o : Obs) (hs : skippedS scfg q = true)
    (s' : SpecSt) (h : specReq scfg s q o = .ok s') :
    s' = s ∧ o.pass = true ∧ o.ck = none ∧ o.gens = [] ∧ probeSound s o = true := by
  unfold specReq at h
  simp only [hs, if_true] at h
  unfold specSkip at h
  split at h
  · cases h
  · rename_i h1
    split at h
    · cases h
    · rename_i h2
      simp only [Except.ok.injEq] at h
      simp only [Bool.or_eq_true, Bool.not_eq_true', not_or, Bool.not_eq_true, Bool.not_eq_false',
        Option.isSome_eq_false_iff, Option.isNone_iff_eq_none, List.isEmpty_iff, Bool.not_eq_false] at h1
      refine ⟨h.symm, by simpa using h1.1.1, h1.1.2, h1.2, by simpa using h2⟩

/-- an accepted step keeps "live ⊆ issued" -/
theorem specReq_liveIssued (scfg : SpecCfg) (s : SpecSt) (q : Req) (o : Obs) (s' : SpecSt)
    (h : specReq scfg s q o = .ok s') (hl : LiveIssued s) : LiveIssued s' := by
  cases hs : skippedS scfg q
  · exact specReqCore_liveIssued scfg s q o s' (specReq_core scfg s q o hs s' h).2 hl
  · rw [(specReq_skip scfg s q o hs s' h).1]; exact hl

theorem specReq_issued (scfg : SpecCfg) (s : SpecSt) (q : Req) (o : Obs) (s' : SpecSt)
    (h : specReq scfg s q o = .ok s') : s'.issued = s.issued ++ o.gens ∧ s'.now = s.now := by
  cases hs : skippedS scfg q
  · exact specReqCore_issued scfg s q o s' (specReq_core scfg s q o hs s' h).2
  · obtain ⟨e, _, _, hg, _⟩ := specReq_skip scfg s q o hs s' h
    rw [e, hg]; simp

theorem specReq_ok_unsafe_pass (scfg : SpecCfg) (s : SpecSt) (q : Req) (o : Obs) (s' : SpecSt)
    (h : specReq scfg s q o = .ok s') (hns : skippedS scfg q = false)
    (hu : isSafe q.method = false) (hp : o.pass = true) :
    o.early = false ∧ originClause scfg q = true ∧
    ∃ t, t ∈ presented scfg.ext q ∧ t ≠ [] ∧ t = q.ck ∧ s.liveAt t = true ∧ t ∈ s.issued ++ o.gens ∧
      (scfg.sessionBacked = true → heldBy s t q.sc = true) :=
  specReqCore_ok_unsafe_pass scfg s q o s' (specReq_core scfg s q o hns s' h).2 hu hp

theorem specReq_ok_safe (scfg : SpecCfg) (s : SpecSt) (q : Req) (o : Obs) (s' : SpecSt)
    (h : specReq scfg s q o = .ok s') (hns : skippedS scfg q = false) (hs : isSafe q.method = true) :
    o.pass = true ∧
    (q.del = false → ∃ t, o.ck = some t ∧ t ≠ [] ∧ t ∈ s.issued ++ o.gens ∧
      ((t = q.ck ∧ s.liveAt t = true) ∨ t ∈ o.gens) ∧
      (o.fired = false → probeHas o t (s.now + scfg.idle) = true)) :=
  specReqCore_ok_safe scfg s q o s' (specReq_core scfg s q o hns s' h).2 hs

/-- the clauses of the core step do not read `Next` nor the cookie fields -/
theorem specReqCore_front (scfg : SpecCfg) (n : Option (Req → Bool)) (cc : CookieCfg) (eh : Err → Nat)
    (s : SpecSt) (q : Req) (o : Obs) :
    specReqCore { scfg with next := n, cookie := cc, eh := eh } s q o = specReqCore scfg s q o := rfl

end C16
