import FiberModel.C16.Refine
/-
C16 — once a token is dead (expired, consumed, deleted) it stays dead: the specification never
revives it, provided the generator never repeats a key.
-/
set_option linter.unusedVariables false
set_option linter.unusedSimpArgs false

namespace C16
open B

/-! ## which keys a request generates (all back-ends) -/

theorem mwLoad_frame (sgen : Nat → Bytes) (q : Req) (c : Ctx) : Frame c (mwLoad sgen q c) := by
  unfold mwLoad
  split <;> exact ⟨rfl, rfl, rfl⟩

theorem mwSave_frame (c : Ctx) : Frame c (mwSave c) := by
  unfold mwSave
  split <;> exact ⟨rfl, rfl, rfl⟩

theorem decide_frame (cfg : Cfg) (sgen : Nat → Bytes) (q : Req) (c : Ctx) :
    Frame c (decide' cfg sgen q c).1 := by
  unfold decide'
  split
  · split
    · have h := getRaw_frame cfg sgen q c q.ck
      rcases hg : getRaw cfg sgen q c q.ck with ⟨cg, ok⟩
      rw [hg] at h
      exact h
    · exact Frame.refl c
  · split
    · exact Frame.refl c
    · split
      · exact Frame.refl c
      · rename_i t _
        split
        · exact Frame.refl c
        · have h := getRaw_frame cfg sgen q c t
          rcases hg : getRaw cfg sgen q c t with ⟨cg, res⟩
          rw [hg] at h
          cases res with
          | none => exact h
          | some ok =>
            cases ok with
            | false => exact h
            | true =>
              simp only
              split
              · have h2 := delRaw_frame cfg sgen q cg t
                rcases hd : delRaw cfg sgen q cg t with ⟨cd, e⟩
                rw [hd] at h2
                cases e <;> exact h.trans h2
              · exact h

/-- a request generates no key, or exactly the next one -/
theorem handleCore_gens (cfg : Cfg) (gen sgen : Nat → Bytes) (st : St) (q : Req) :
    (handleCore cfg gen sgen st q).2.gens = [] ∨ (handleCore cfg gen sgen st q).2.gens = [gen st.ntok] := by
  have h0 : Frame { st := st } (ctx0 cfg sgen st q) := by
    unfold ctx0; split
    · exact mwLoad_frame sgen q _
    · exact Frame.refl _
  have hend : ∀ c, Frame c (ctxEnd cfg c) := by
    intro c; unfold ctxEnd; split
    · exact mwSave_frame c
    · exact Frame.refl c
  rcases hd : decide' cfg sgen q (ctx0 cfg sgen st q) with ⟨c1, d⟩
  have h1 : Frame (ctx0 cfg sgen st q) c1 := by
    have := decide_frame cfg sgen q (ctx0 cfg sgen st q); rw [hd] at this; exact this
  have h01 := h0.trans h1
  cases d with
  | reject e er =>
    rw [handle_reject cfg gen sgen st q c1 e er hd]
    left
    show (ctxEnd cfg c1).gens = []
    rw [(hend c1).1, h01.1]
  | proceed tok =>
    rcases hf : finish cfg gen sgen q c1 tok with ⟨c2, r2⟩
    rw [handle_proceed cfg gen sgen st q c1 c2 tok r2 hd hf]
    show (ctxEnd cfg c2).gens = [] ∨ (ctxEnd cfg c2).gens = [gen st.ntok]
    rw [(hend c2).1]
    by_cases htok : tok = []
    · subst htok
      rw [finish_fresh] at hf
      have := tail_frame cfg sgen q { c1 with st := { c1.st with ntok := c1.st.ntok + 1 }, gens := c1.gens ++ [gen c1.st.ntok] } (gen c1.st.ntok)
      rw [hf] at this
      right
      rw [this.1]
      show c1.gens ++ [gen c1.st.ntok] = [gen st.ntok]
      rw [h01.1, h01.2.2]; rfl
    · rw [finish_kept _ _ _ _ _ _ htok] at hf
      have := tail_frame cfg sgen q c1 tok
      rw [hf] at this
      left
      rw [this.1, h01.1]

/-! ## the specification never revives a dead token -/

/-- `liveAt` on a bare live list -/
def liveAtL (now : Nat) (live : List (Bytes × LiveTok)) (t : Bytes) : Bool :=
  match lookup live t with
  | some l => decide (now ≤ l.deadline)
  | none => false

theorem liveAt_eq (s : SpecSt) (t : Bytes) : s.liveAt t = liveAtL s.now s.live t := rfl

theorem dead_erase (now : Nat) (live : List (Bytes × LiveTok)) (t k : Bytes) (h : liveAtL now live t = false) :
    liveAtL now (erase live k) t = false := by
  unfold liveAtL at h ⊢
  rw [lookup_erase]
  by_cases e : t = k
  · simp [e]
  · simp only [e, if_false]; exact h

theorem dead_put (now : Nat) (live : List (Bytes × LiveTok)) (t k : Bytes) (v : LiveTok) (hk : k ≠ t)
    (h : liveAtL now live t = false) : liveAtL now (put live k v) t = false := by
  unfold liveAtL at h ⊢
  rw [lookup_put]
  have : ¬ t = k := fun e => hk e.symm
  simp only [this, if_false]; exact h

theorem dead_afterGens (scfg : SpecCfg) (s : SpecSt) (o : Obs) (live : List (Bytes × LiveTok)) (t : Bytes)
    (hg : ∀ g ∈ o.gens, g ≠ t) (h : liveAtL s.now live t = false) :
    liveAtL s.now (afterGens scfg s o live) t = false := by
  unfold afterGens
  generalize o.gens = gs at hg
  induction gs generalizing live with
  | nil => exact h
  | cons g gs ih =>
    simp only [List.foldl]
    exact ih _ (dead_put _ _ _ _ _ (hg g (by simp)) h) (fun g' hg' => hg g' (by simp [hg']))

theorem dead_afterDel (scfg : SpecCfg) (q : Req) (o : Obs) (now : Nat) (live : List (Bytes × LiveTok)) (t : Bytes)
    (h : liveAtL now live t = false) : liveAtL now (afterDel scfg q o live) t = false := by
  unfold afterDel
  split
  · exact dead_erase _ _ _ _ h
  · exact h

/-- One accepted step: a token that was issued before and is not live does not become live, provided
    the keys generated in this step are new. -/
theorem specReqCore_dead_stays (scfg : SpecCfg) (s : SpecSt) (q : Req) (o : Obs) (s' : SpecSt) (t : Bytes)
    (h : specReqCore scfg s q o = .ok s') (hiss : t ∈ s.issued) (hnew : ∀ g ∈ o.gens, g ∉ s.issued)
    (hdead : s.liveAt t = false) : s'.liveAt t = false ∧ t ∈ s'.issued := by
  obtain ⟨hi', hn'⟩ := specReqCore_issued scfg s q o s' h
  refine ⟨?_, by rw [hi']; exact List.mem_append_left _ hiss⟩
  have hgt : ∀ g ∈ o.gens, g ≠ t := fun g hg e => hnew g hg (e ▸ hiss)
  rw [liveAt_eq] at hdead
  rw [liveAt_eq, hn']
  unfold specReqCore at h
  simp only at h
  split at h
  · cases h
  · rename_i live1 hr
    have h1 : liveAtL s.now live1 t = false := by
      unfold reachClause at hr
      simp only at hr
      repeat' split at hr
      all_goals try (cases hr; done)
      all_goals cases hr
      all_goals first | exact hdead | exact dead_erase _ _ _ _ hdead
    split at h
    · cases h
    · rename_i live2 hc
      have h2 : liveAtL s.now live2 t = false := by
        split at hc
        · have hX := dead_afterDel scfg q o s.now _ t
            (dead_afterGens scfg { s with issued := s.issued ++ o.gens } o live1 t hgt h1)
          unfold cookieClause at hc
          simp only at hc
          repeat' split at hc
          all_goals try (cases hc; done)
          all_goals cases hc
          all_goals first | exact hX | skip
          -- the cookie's token is the presented live one or a fresh one: not `t`
          rename_i t' _ _ _ _ hkeep _
          apply dead_put _ _ _ _ _ _ hX
          intro e
          subst e
          simp only [Bool.not_eq_true', Bool.not_eq_false, Bool.or_eq_true, Bool.and_eq_true,
            decide_eq_true_eq, List.contains_eq_mem] at hkeep
          rcases hkeep with ⟨_, hl⟩ | hg
          · have : liveAtL s.now s.live t' = true := hl
            rw [hdead] at this; cases this
          · exact hgt t' hg rfl
        · unfold rejectClause at hc
          repeat' split at hc
          all_goals try (cases hc; done)
          all_goals cases hc
          all_goals exact h1
      split at h
      · cases h
      · cases h
        exact h2

/-- One accepted step in which a single-use token let an unsafe request through: afterwards the token
    is not live, provided the generated keys are new and the reply's cookie is another token. -/
theorem specReqCore_single_consumes (scfg : SpecCfg) (s : SpecSt) (q : Req) (o : Obs) (s' : SpecSt)
    (h : specReqCore scfg s q o = .ok s') (hu : isSafe q.method = false) (hp : o.pass = true)
    (hsingle : scfg.single = true) (hq : q.ck ∈ s.issued) (hnew : ∀ g ∈ o.gens, g ∉ s.issued)
    (hck : ∀ t', o.ck = some t' → t' ≠ q.ck) :
    s'.liveAt q.ck = false ∧ q.ck ∈ s'.issued := by
  obtain ⟨hi', hn'⟩ := specReqCore_issued scfg s q o s' h
  obtain ⟨_, _, t, _, _, htq, _, hti, _⟩ := specReqCore_ok_unsafe_pass scfg s q o s' h hu hp
  -- issued before this request: live tokens are … we only know `t ∈ issued ++ gens`; both are in `s'.issued`
  refine ⟨?_, by rw [hi', ← htq]; exact hti⟩
  rw [liveAt_eq, hn']
  unfold specReqCore at h
  simp only at h
  split at h
  · cases h
  · rename_i live1 hr
    have h1 : liveAtL s.now live1 q.ck = false := by
      unfold reachClause at hr
      simp only [hu, Bool.not_false, if_true, hp, hsingle] at hr
      repeat' split at hr
      all_goals try (cases hr; done)
      all_goals cases hr
      rename_i t' ht' _
      have := (accepted_spec scfg _ q t' ht').2.2.1
      rw [this]
      unfold liveAtL
      rw [lookup_erase_self]
    have hgt : ∀ g ∈ o.gens, g ≠ q.ck := fun g hg e => hnew g hg (e ▸ hq)
    split at h
    · cases h
    · rename_i live2 hc
      have h2 : liveAtL s.now live2 q.ck = false := by
        simp only [hp, if_true] at hc
        have hX := dead_afterDel scfg q o s.now _ q.ck
          (dead_afterGens scfg { s with issued := s.issued ++ o.gens } o live1 q.ck hgt h1)
        unfold cookieClause at hc
        simp only at hc
        repeat' split at hc
        all_goals try (cases hc; done)
        all_goals cases hc
        all_goals first | exact hX | skip
        rename_i t' hck' _ _ _ _ _
        exact dead_put _ _ _ _ _ (hck t' hck') hX
      split at h
      · cases h
      · cases h
        exact h2

/-! ## model facts: a single-use acceptance hands out a fresh token -/

theorem decide_single (cfg : Cfg) (sgen : Nat → Bytes) (q : Req) (c : Ctx) (tok : Bytes)
    (hu : isSafe q.method = false) (hs : cfg.single = true)
    (h : (decide' cfg sgen q c).2 = .proceed tok) : tok = [] := by
  unfold decide' at h
  simp only [hu, Bool.false_eq_true, if_false, hs, if_true] at h
  repeat' split at h
  all_goals first | cases h | skip
  all_goals simp_all

theorem tail_ck (cfg : Cfg) (sgen : Nat → Bytes) (q : Req) (c : Ctx) (token : Bytes)
    (hp : (finishTail cfg sgen q c token).2.pass = true) :
    (finishTail cfg sgen q c token).2.ck = some token ∨ (finishTail cfg sgen q c token).2.ck = some [] := by
  unfold finishTail at hp ⊢
  rcases hsr : setRaw cfg sgen q c token with ⟨c', err⟩
  rw [hsr] at hp
  simp only at hp ⊢
  by_cases h1 : (err && !isSafe q.method) = true
  · rw [if_pos h1] at hp; cases hp
  · rw [if_neg h1]
    by_cases h2 : q.del = true
    · rw [if_pos h2]
      by_cases h3 : q.ck = []
      · rw [if_pos h3]; exact Or.inl rfl
      · rw [if_neg h3]
        rcases delRaw cfg sgen q c' q.ck with ⟨c'', e⟩
        cases e
        · exact Or.inr rfl
        · exact Or.inl rfl
    · rw [if_neg h2]; exact Or.inl rfl

theorem handleCore_single_ck (cfg : Cfg) (gen sgen : Nat → Bytes) (st : St) (q : Req)
    (hu : isSafe q.method = false) (hs : cfg.single = true)
    (hp : (handleCore cfg gen sgen st q).2.pass = true) :
    (handleCore cfg gen sgen st q).2.ck = some (gen st.ntok) ∨ (handleCore cfg gen sgen st q).2.ck = some [] := by
  have h0 : Frame { st := st } (ctx0 cfg sgen st q) := by
    unfold ctx0; split
    · exact mwLoad_frame sgen q _
    · exact Frame.refl _
  rcases hd : decide' cfg sgen q (ctx0 cfg sgen st q) with ⟨c1, d⟩
  have h1 : Frame (ctx0 cfg sgen st q) c1 := by
    have := decide_frame cfg sgen q (ctx0 cfg sgen st q); rw [hd] at this; exact this
  have h01 := h0.trans h1
  cases d with
  | reject e er =>
    rw [handle_reject cfg gen sgen st q c1 e er hd] at hp
    cases hp
  | proceed tok =>
    have htok : tok = [] := decide_single cfg sgen q _ tok hu hs (by rw [hd])
    subst htok
    rcases hf : finish cfg gen sgen q c1 [] with ⟨c2, r2⟩
    rw [handle_proceed cfg gen sgen st q c1 c2 [] r2 hd hf] at hp ⊢
    rw [finish_fresh] at hf
    have hp' : r2.pass = true := hp
    have := tail_ck cfg sgen q { c1 with st := { c1.st with ntok := c1.st.ntok + 1 }, gens := c1.gens ++ [gen c1.st.ntok] } (gen c1.st.ntok)
      (by rw [hf]; exact hp')
    rw [hf] at this
    show r2.ck = _ ∨ r2.ck = _
    rw [← h01.2.2]
    exact this

/-! ## the same facts for the full step (`Next`, attribute clause) -/

theorem handleSkip_gens (cfg : Cfg) (sgen : Nat → Bytes) (st : St) (q : Req) :
    (handleSkip cfg sgen st q).2.gens = [] := by
  unfold handleSkip
  simp only
  by_cases hb : cfg.backend = .sessMw
  · simp only [hb, if_true]
    rw [(mwSave_frame _).1, (mwLoad_frame sgen q _).1]
  · simp only [hb, if_false]

/-- a request generates no key, or exactly the next one -/
theorem handle_gens (cfg : Cfg) (gen sgen : Nat → Bytes) (st : St) (q : Req) :
    (handle cfg gen sgen st q).2.gens = [] ∨ (handle cfg gen sgen st q).2.gens = [gen st.ntok] := by
  cases hs : skipped cfg q
  · rw [handle_of_not_skipped cfg gen sgen st q hs]; exact handleCore_gens cfg gen sgen st q
  · rw [handle_of_skipped cfg gen sgen st q hs]; exact Or.inl (handleSkip_gens cfg sgen st q)

/-- One accepted step: a token that was issued before and is not live does not become live, provided
    the keys generated in this step are new. -/
theorem specReq_dead_stays (scfg : SpecCfg) (s : SpecSt) (q : Req) (o : Obs) (s' : SpecSt) (t : Bytes)
    (h : specReq scfg s q o = .ok s') (hiss : t ∈ s.issued) (hnew : ∀ g ∈ o.gens, g ∉ s.issued)
    (hdead : s.liveAt t = false) : s'.liveAt t = false ∧ t ∈ s'.issued := by
  cases hs : skippedS scfg q
  · exact specReqCore_dead_stays scfg s q o s' t (specReq_core scfg s q o hs s' h).2 hiss hnew hdead
  · rw [(specReq_skip scfg s q o hs s' h).1]; exact ⟨hdead, hiss⟩

/-- One accepted step in which a single-use token let an unsafe request through (`Next` not exempting
    it): afterwards the token is not live. -/
theorem specReq_single_consumes (scfg : SpecCfg) (s : SpecSt) (q : Req) (o : Obs) (s' : SpecSt)
    (h : specReq scfg s q o = .ok s') (hns : skippedS scfg q = false)
    (hu : isSafe q.method = false) (hp : o.pass = true)
    (hsingle : scfg.single = true) (hq : q.ck ∈ s.issued) (hnew : ∀ g ∈ o.gens, g ∉ s.issued)
    (hck : ∀ t', o.ck = some t' → t' ≠ q.ck) :
    s'.liveAt q.ck = false ∧ q.ck ∈ s'.issued :=
  specReqCore_single_consumes scfg s q o s' (specReq_core scfg s q o hns s' h).2 hu hp hsingle hq hnew hck

theorem handle_single_ck (cfg : Cfg) (gen sgen : Nat → Bytes) (st : St) (q : Req)
    (hns : skipped cfg q = false) (hu : isSafe q.method = false) (hs : cfg.single = true)
    (hp : (handle cfg gen sgen st q).2.pass = true) :
    (handle cfg gen sgen st q).2.ck = some (gen st.ntok) ∨ (handle cfg gen sgen st q).2.ck = some [] := by
  rw [handle_of_not_skipped cfg gen sgen st q hns] at hp ⊢
  exact handleCore_single_ck cfg gen sgen st q hu hs hp

/-! ## histories -/

theorem liveAt_adv (s : SpecSt) (t : Bytes) (d : Nat) (h : s.liveAt t = false) :
    ({ s with now := s.now + d } : SpecSt).liveAt t = false := by
  unfold SpecSt.liveAt at h ⊢
  simp only
  split
  · rename_i l hl
    rw [hl] at h
    simp only [decide_eq_false_iff_not] at h ⊢
    omega
  · rfl

/-- the keys a request generates are new, when the generator never repeats -/
theorem gens_new (cfg : Cfg) (gen sgen : Nat → Bytes) (hinj : Function.Injective gen) (st : St) (s : SpecSt)
    (q : Req) (hinv : Inv cfg gen st s) : ∀ g ∈ (handle cfg gen sgen st q).2.gens, g ∉ s.issued := by
  intro g hg hmem
  rcases handle_gens cfg gen sgen st q with h | h
  · rw [h] at hg; cases hg
  · rw [h] at hg
    simp only [List.mem_singleton] at hg
    obtain ⟨i, hi, he⟩ := (hinv.issued g).mp hmem
    rw [hg] at he
    have := hinj he
    omega

/-- **Dead stays dead**, from any related pair of states, along any history. -/
theorem run_dead_stays (raw : List Bytes) (cfg : Cfg)
    (hbuild : buildLoop raw [] [] = some (cfg.origins, cfg.subs))
    (gen sgen : Nat → Bytes) (hgen : ∀ n, gen n ≠ []) (hinj : Function.Injective gen)
    (hsgen : ∀ n, sgen n ≠ []) (hpos : 0 < cfg.idle)
    (ops : List Op) (st : St) (s : SpecSt) (hinv : Inv cfg gen st s) (hli : LiveIssued s)
    (t : Bytes) (hiss : t ∈ s.issued) (hdead : s.liveAt t = false) :
    ∃ s', specEnd (specConfig cfg.backend cfg.ext cfg.single cfg.idle raw cfg.next cfg.cookie cfg.eh) s ops (runObs cfg gen sgen st ops) = some s' ∧
      Inv cfg gen (run cfg gen sgen st ops).1 s' ∧ LiveIssued s' ∧ t ∈ s'.issued ∧ s'.liveAt t = false := by
  induction ops generalizing st s with
  | nil => exact ⟨s, rfl, hinv, hli, hiss, hdead⟩
  | cons o os ih =>
    rw [run_cons]
    cases o with
    | adv d =>
      simp only [runObs, step, specEnd]
      exact ih _ _ (inv_adv cfg gen st s d hinv) hli hiss (liveAt_adv s t d hdead)
    | req q =>
      obtain ⟨s', hs, hinv'⟩ := handle_refines raw cfg hbuild gen sgen hgen (fun _ => hinj) hsgen hpos st s q hinv
      obtain ⟨hd', hi'⟩ := specReq_dead_stays _ s q _ s' t hs hiss
        (gens_new cfg gen sgen hinj st s q hinv) hdead
      simp only [runObs, step, Option.map, specEnd, hs]
      exact ih _ _ hinv' (specReq_liveIssued _ s q _ s' hs hli) hi' hd'

/-- a history and its continuation -/
theorem run_append (cfg : Cfg) (gen sgen : Nat → Bytes) (st : St) (a b : List Op) :
    (run cfg gen sgen st (a ++ b)).1 = (run cfg gen sgen (run cfg gen sgen st a).1 b).1 := by
  induction a generalizing st with
  | nil => rfl
  | cons o os ih => simp only [List.cons_append, run_cons]; exact ih _

theorem specEnd_append (scfg : SpecCfg) (cfg : Cfg) (gen sgen : Nat → Bytes) (st : St) (s : SpecSt)
    (a b : List Op) :
    specEnd scfg s (a ++ b) (runObs cfg gen sgen st (a ++ b)) =
      (specEnd scfg s a (runObs cfg gen sgen st a)).bind fun s1 =>
        specEnd scfg s1 b (runObs cfg gen sgen (run cfg gen sgen st a).1 b) := by
  induction a generalizing st s with
  | nil => rfl
  | cons o os ih =>
    simp only [List.cons_append, run_cons]
    cases o with
    | adv d =>
      simp only [runObs, step, specEnd]
      exact ih _ _
    | req q =>
      simp only [runObs, step, Option.map, specEnd]
      cases specReq scfg s q (obsOf cfg (handle cfg gen sgen st q).1 (handle cfg gen sgen st q).2) with
      | error e => rfl
      | ok s' => exact ih _ _

theorem specEnd_one (scfg : SpecCfg) (cfg : Cfg) (gen sgen : Nat → Bytes) (st : St) (s s' : SpecSt) (q : Req)
    (h : specReq scfg s q (obsOf cfg (handle cfg gen sgen st q).1 (handle cfg gen sgen st q).2) = .ok s') :
    specEnd scfg s [.req q] (runObs cfg gen sgen st [.req q]) = some s' := by
  simp only [runObs, step, Option.map, specEnd, h]

end C16
