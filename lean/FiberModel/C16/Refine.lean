import FiberModel.C16.SimStorage
import FiberModel.C16.SimMw
import FiberModel.C16.SimSS
import FiberModel.C16.SpecLemmas
import FiberModel.C16.Front
/-
C16 — the refinement: the invariant between model and specification states, one request, and whole
histories by induction.
-/
set_option linter.unusedVariables false

namespace C16
open B

/-- **The invariant.** The specification's clock and issued set are the model's, and every token the
    back-end holds was issued and is live in the specification at least as long (for the session
    back-ends: and known there as handed to that very session). -/
structure Inv (cfg : Cfg) (gen : Nat → Bytes) (st : St) (s : SpecSt) : Prop where
  now : s.now = st.now
  issued : IssuedOK gen st.ntok s.issued
  tokens : match cfg.backend with
    | .storage => StoreOK gen cfg.idle st.ntok st.now st.store s.live ∧ keysNodup st.store
    | _ => SessOK gen cfg.idle st.ntok st.now st.sess s.live ∧ keysNodup st.sess

theorem inv_init (cfg : Cfg) (gen : Nat → Bytes) : Inv cfg gen {} specInit := by
  refine ⟨rfl, ?_, ?_⟩
  · intro t
    simp [specInit]
  · cases cfg.backend <;> simp only
    · exact ⟨fun k d h => by simp [lookup] at h, by simp [keysNodup]⟩
    · exact ⟨fun id k d h => by simp [lookup] at h, by simp [keysNodup]⟩
    · exact ⟨fun id k d h => by simp [lookup] at h, by simp [keysNodup]⟩

/-- the clock moves on: nothing to do -/
theorem inv_adv (cfg : Cfg) (gen : Nat → Bytes) (st : St) (s : SpecSt) (d : Nat) (h : Inv cfg gen st s) :
    Inv cfg gen { st with now := st.now + d } { s with now := s.now + d } := by
  obtain ⟨h1, h2, h3⟩ := h
  refine ⟨by simp [h1], h2, ?_⟩
  cases hb : cfg.backend <;> simp only [hb] at h3 ⊢
  · exact ⟨storeOK_mono _ _ _ _ _ _ _ _ h3.1 (Nat.le_refl _) (Nat.le_add_right _ _), h3.2⟩
  · exact ⟨sessOK_mono _ _ _ _ _ _ _ _ h3.1 (Nat.le_refl _) (Nat.le_add_right _ _), h3.2⟩
  · exact ⟨sessOK_mono _ _ _ _ _ _ _ _ h3.1 (Nat.le_refl _) (Nat.le_add_right _ _), h3.2⟩

/-- One request that `Next` does not exempt: from related states, the model's answer passes every
    clause of the core specification step and the successor states are related again. -/
theorem handleCore_refines (raw : List Bytes) (cfg : Cfg)
    (hbuild : buildLoop raw [] [] = some (cfg.origins, cfg.subs))
    (gen sgen : Nat → Bytes) (hgen : ∀ n, gen n ≠ [])
    (hinj : cfg.backend ≠ .storage → Function.Injective gen)
    (hsgen : ∀ n, sgen n ≠ []) (hpos : 0 < cfg.idle)
    (st : St) (s : SpecSt) (q : Req) (hinv : Inv cfg gen st s) :
    ∃ s', specReqCore (specConfig cfg.backend cfg.ext cfg.single cfg.idle raw) s q
        (obsOf cfg (handleCore cfg gen sgen st q).1 (handleCore cfg gen sgen st q).2) = .ok s' ∧
      Inv cfg gen (handleCore cfg gen sgen st q).1 s' := by
  obtain ⟨h1, h2, h3⟩ := hinv
  rcases hh : handleCore cfg gen sgen st q with ⟨st', r⟩
  have key : cfg.backend = .storage ∨ cfg.backend = .sessStore ∨ cfg.backend = .sessMw := by
    cases cfg.backend <;> simp
  rcases key with hb | hb | hb
  · simp only [hb] at h3
    obtain ⟨s', hs, g1, g2, g3, g4⟩ := sim_storage raw cfg hbuild gen sgen hgen hpos hb st s q h1 h2 h3.1 h3.2 st' r hh
    exact ⟨s', hs, g1, g2, by simp only [hb]; exact ⟨g3, g4⟩⟩
  · simp only [hb] at h3
    obtain ⟨s', hs, g1, g2, g3, g4⟩ := sim_ss raw cfg hbuild gen sgen hgen (hinj (by rw [hb]; decide)) hsgen hpos hb st s q h1 h2 h3.1 h3.2 st' r hh
    exact ⟨s', hs, g1, g2, by simp only [hb]; exact ⟨g3, g4⟩⟩
  · simp only [hb] at h3
    obtain ⟨s', hs, g1, g2, g3, g4⟩ := sim_mw raw cfg hbuild gen sgen hgen (hinj (by rw [hb]; decide)) hsgen hpos hb st s q h1 h2 h3.1 h3.2 st' r hh
    exact ⟨s', hs, g1, g2, by simp only [hb]; exact ⟨g3, g4⟩⟩

/-! ### `Next`, and the cookie attributes -/

theorem skippedS_eq (cfg : Cfg) (raw : List Bytes) (q : Req) :
    skippedS (specConfig cfg.backend cfg.ext cfg.single cfg.idle raw cfg.next cfg.cookie cfg.eh) q = skipped cfg q := rfl

theorem handle_of_not_skipped (cfg : Cfg) (gen sgen : Nat → Bytes) (st : St) (q : Req) (h : skipped cfg q = false) :
    handle cfg gen sgen st q = handleCore cfg gen sgen st q := by
  unfold handle; simp [h]

theorem handle_of_skipped (cfg : Cfg) (gen sgen : Nat → Bytes) (st : St) (q : Req) (h : skipped cfg q = true) :
    handle cfg gen sgen st q = handleSkip cfg sgen st q := by
  unfold handle; simp [h]

/-- the model's cookie attributes are the configured ones, as the specification reads them -/
theorem attrsOf_ok (cc : CookieCfg) (idle now : Nat) (t : Bytes) (hpos : 0 < idle) :
    attrsOK cc idle now t (attrsOf cc idle now (t = [])) = true := by
  have hp1 : ((if cc.path.head? = some 47 then cc.path else 47 :: cc.path) = cc.path ∨
      (if cc.path.head? = some 47 then cc.path else 47 :: cc.path) = 47 :: cc.path) := by
    by_cases h : cc.path.head? = some 47 <;> simp [h]
  have hp2 : (if cc.path.head? = some 47 then cc.path else 47 :: cc.path).head? = some 47 := by
    by_cases h : cc.path.head? = some 47 <;> simp [h]
  unfold attrsOK attrsOf sameSiteOf
  simp only [Bool.and_eq_true, decide_eq_true_eq, Bool.or_eq_true]
  refine ⟨⟨⟨⟨⟨⟨trivial, hp1⟩, hp2⟩, trivial⟩, trivial⟩, trivial⟩, ?_⟩
  by_cases hs : cc.sessionOnly = true
  · simp [hs]
  · by_cases ht : t = []
    · simp [hs, ht]; omega
    · simp [hs, ht]

theorem attrsClause_obsOf (cfg : Cfg) (raw : List Bytes) (st' : St) (r : Resp) (now : Nat) (hnow : st'.now = now)
    (hpos : 0 < cfg.idle) :
    attrsClause (specConfig cfg.backend cfg.ext cfg.single cfg.idle raw cfg.next cfg.cookie cfg.eh) now (obsOf cfg st' r) = true := by
  unfold attrsClause obsOf respAttrs
  simp only
  cases r.ck with
  | none => rfl
  | some t =>
    simp only [Option.map_some, specConfig]
    rw [hnow]
    exact attrsOf_ok cfg.cookie cfg.idle now t hpos

/-- the session middleware alone (load, save): the session table keeps its tokens -/
theorem skip_mw (gen sgen : Nat → Bytes) (hsgen : ∀ n, sgen n ≠ []) (idle : Nat) (st : St) (q : Req)
    (live : List (Bytes × LiveTok)) (hS : SessOK gen idle st.ntok st.now st.sess live) (hN : keysNodup st.sess) :
    let c := mwSave (mwLoad sgen q { st := st })
    c.gens = [] ∧ c.st.now = st.now ∧ c.st.ntok = st.ntok ∧
      SessOK gen idle c.st.ntok c.st.now c.st.sess live ∧ keysNodup c.st.sess := by
  intro c
  obtain ⟨W, slot0, hmw0, hW, hsess0, hnow0, hntok0, hgens0, _, _, _, hcase0⟩ := mwLoad_cases sgen q st hsgen
  show (mwSave (mwLoad sgen q { st := st })).gens = [] ∧ (mwSave (mwLoad sgen q { st := st })).st.now = st.now ∧
    (mwSave (mwLoad sgen q { st := st })).st.ntok = st.ntok ∧
    SessOK gen idle (mwSave (mwLoad sgen q { st := st })).st.ntok (mwSave (mwLoad sgen q { st := st })).st.now
      (mwSave (mwLoad sgen q { st := st })).st.sess live ∧ keysNodup (mwSave (mwLoad sgen q { st := st })).st.sess
  generalize mwLoad sgen q { st := st } = c0 at *
  have e : mwSave c0 = { c0 with st := { c0.st with sess := put c0.st.sess W slot0 }, sc := some W } := by
    unfold mwSave; rw [hmw0]
  rw [e]
  refine ⟨hgens0, hnow0, hntok0, ?_, ?_⟩
  · show SessOK gen idle c0.st.ntok c0.st.now (put c0.st.sess W slot0) live
    rw [hntok0, hnow0, hsess0]
    apply sessOK_sub gen idle st.ntok st.ntok st.now st.sess _ live hS (Nat.le_refl _)
    intro id k d hk
    rw [lookup_put] at hk
    by_cases hid : id = W
    · simp only [hid, if_true, Option.some.injEq] at hk
      rcases hcase0 with ⟨_, hl⟩ | ⟨h0, _⟩
      · rw [hid, hl, hk]
      · rw [h0] at hk; cases hk
    · simp only [hid, if_false] at hk; exact hk
  · show keysNodup (put c0.st.sess W slot0)
    rw [hsess0]; exact keysNodup_put _ _ _ hN

/-- **One request that `Next` exempts**: the handler is reached, nothing is issued or set, the store
    still holds nothing it should not, and the states stay related. -/
theorem handleSkip_refines (cfg : Cfg) (gen sgen : Nat → Bytes) (hsgen : ∀ n, sgen n ≠ [])
    (st : St) (s : SpecSt) (q : Req) (hinv : Inv cfg gen st s) :
    specSkip s (obsOf cfg (handleSkip cfg sgen st q).1 (handleSkip cfg sgen st q).2) = .ok s ∧
      Inv cfg gen (handleSkip cfg sgen st q).1 s := by
  obtain ⟨h1, h2, h3⟩ := hinv
  have key : cfg.backend = .storage ∨ cfg.backend = .sessStore ∨ cfg.backend = .sessMw := by
    cases cfg.backend <;> simp
  -- the three facts the clause needs, and the invariant, per back-end
  suffices H : (handleSkip cfg sgen st q).2.pass = true ∧ (handleSkip cfg sgen st q).2.ck = none ∧
      (handleSkip cfg sgen st q).2.gens = [] ∧
      probeSound s (obsOf cfg (handleSkip cfg sgen st q).1 (handleSkip cfg sgen st q).2) = true ∧
      Inv cfg gen (handleSkip cfg sgen st q).1 s by
    obtain ⟨hp, hck, hg, hpr, hi⟩ := H
    refine ⟨?_, hi⟩
    unfold specSkip
    have e1 : (obsOf cfg (handleSkip cfg sgen st q).1 (handleSkip cfg sgen st q).2).pass = true := hp
    have e2 : (obsOf cfg (handleSkip cfg sgen st q).1 (handleSkip cfg sgen st q).2).ck = none := hck
    have e3 : (obsOf cfg (handleSkip cfg sgen st q).1 (handleSkip cfg sgen st q).2).gens = [] := hg
    simp [e1, e2, e3, hpr]
  rcases key with hb | hb | hb
  · have e : handleSkip cfg sgen st q = (st, { pass := true, status := 200, ck := none, early := false }) := by
      unfold handleSkip; simp [hb]
    rw [e]
    simp only [hb] at h3
    exact ⟨rfl, rfl, rfl, probeSound_storage cfg gen st s _ hb h2 h3.1 h3.2, ⟨h1, h2, by simp only [hb]; exact h3⟩⟩
  · have e : handleSkip cfg sgen st q = (st, { pass := true, status := 200, ck := none, early := false }) := by
      unfold handleSkip; simp [hb]
    rw [e]
    simp only [hb] at h3
    exact ⟨rfl, rfl, rfl, probeSound_sess cfg gen st s _ (by rw [hb]; decide) h2 h3.1 h3.2,
      ⟨h1, h2, by simp only [hb]; exact h3⟩⟩
  · simp only [hb] at h3
    obtain ⟨g1, g2, g3, g4, g5⟩ := skip_mw gen sgen hsgen cfg.idle st q s.live h3.1 h3.2
    have e : handleSkip cfg sgen st q =
        ((mwSave (mwLoad sgen q { st := st })).st,
         { pass := true, status := 200, ck := none, early := false,
           sc := (mwSave (mwLoad sgen q { st := st })).sc, gens := (mwSave (mwLoad sgen q { st := st })).gens,
           sgens := (mwSave (mwLoad sgen q { st := st })).sgens, fg := (mwSave (mwLoad sgen q { st := st })).fg,
           fs := (mwSave (mwLoad sgen q { st := st })).fs, fd := (mwSave (mwLoad sgen q { st := st })).fd }) := by
      unfold handleSkip; simp [hb]
    rw [e]
    have hI : IssuedOK gen (mwSave (mwLoad sgen q { st := st })).st.ntok s.issued := by rw [g3]; exact h2
    refine ⟨rfl, rfl, g1, probeSound_sess cfg gen _ s _ (by rw [hb]; decide) hI g4 g5, ⟨?_, hI, ?_⟩⟩
    · rw [g2]; exact h1
    · simp only [hb]; exact ⟨g4, g5⟩

/-- **One request.** From related states, the model's answer passes every clause of the
    specification step and the successor states are related again. -/
theorem handle_refines (raw : List Bytes) (cfg : Cfg)
    (hbuild : buildLoop raw [] [] = some (cfg.origins, cfg.subs))
    (gen sgen : Nat → Bytes) (hgen : ∀ n, gen n ≠ [])
    (hinj : cfg.backend ≠ .storage → Function.Injective gen)
    (hsgen : ∀ n, sgen n ≠ []) (hpos : 0 < cfg.idle)
    (st : St) (s : SpecSt) (q : Req) (hinv : Inv cfg gen st s) :
    ∃ s', specReq (specConfig cfg.backend cfg.ext cfg.single cfg.idle raw cfg.next cfg.cookie cfg.eh) s q
        (obsOf cfg (handle cfg gen sgen st q).1 (handle cfg gen sgen st q).2) = .ok s' ∧
      Inv cfg gen (handle cfg gen sgen st q).1 s' := by
  cases hs : skipped cfg q
  · rw [handle_of_not_skipped cfg gen sgen st q hs]
    obtain ⟨s', hs', hinv'⟩ := handleCore_refines raw cfg hbuild gen sgen hgen hinj hsgen hpos st s q hinv
    refine ⟨s', ?_, hinv'⟩
    have hnow : (handleCore cfg gen sgen st q).1.now = s.now := by
      rw [← hinv'.now, (specReqCore_issued _ s q _ s' hs').2]
    have heh : ehClause (specConfig cfg.backend cfg.ext cfg.single cfg.idle raw cfg.next cfg.cookie cfg.eh)
        (obsOf cfg (handleCore cfg gen sgen st q).1 (handleCore cfg gen sgen st q).2) = true := by
      unfold ehClause
      cases hp : (handleCore cfg gen sgen st q).2.pass
      · obtain ⟨e, he⟩ := handleCore_reject_status cfg gen sgen st q hp
        have hm : e ∈ allErrs := by cases e <;> simp [allErrs]
        simp only [obsOf, hp, Bool.false_or, List.any_eq_true, beq_iff_eq]
        exact ⟨e, hm, he.symm⟩
      · simp [obsOf, hp]
    unfold specReq
    rw [skippedS_eq, hs, attrsClause_obsOf cfg raw _ _ s.now hnow hpos, heh]
    simp only [Bool.false_eq_true, if_false, Bool.not_true]
    exact hs'
  · rw [handle_of_skipped cfg gen sgen st q hs]
    obtain ⟨h1, h2⟩ := handleSkip_refines cfg gen sgen hsgen st s q hinv
    refine ⟨s, ?_, h2⟩
    unfold specReq
    rw [skippedS_eq, hs]
    simp only [if_true]
    exact h1

/-- **Whole histories**, from any related pair of states. -/
theorem run_refines (raw : List Bytes) (cfg : Cfg)
    (hbuild : buildLoop raw [] [] = some (cfg.origins, cfg.subs))
    (gen sgen : Nat → Bytes) (hgen : ∀ n, gen n ≠ [])
    (hinj : cfg.backend ≠ .storage → Function.Injective gen)
    (hsgen : ∀ n, sgen n ≠ []) (hpos : 0 < cfg.idle)
    (ops : List Op) (st : St) (s : SpecSt) (hinv : Inv cfg gen st s) :
    specRun (specConfig cfg.backend cfg.ext cfg.single cfg.idle raw cfg.next cfg.cookie cfg.eh) s ops (runObs cfg gen sgen st ops) = none := by
  induction ops generalizing st s with
  | nil => rfl
  | cons o os ih =>
    cases o with
    | adv d =>
      simp only [runObs, step, specRun]
      exact ih _ _ (inv_adv cfg gen st s d hinv)
    | req q =>
      obtain ⟨s', hs, hinv'⟩ := handle_refines raw cfg hbuild gen sgen hgen hinj hsgen hpos st s q hinv
      simp only [runObs, step, Option.map, specRun, hs]
      exact ih _ _ hinv'

/-- `runObs` observes exactly the responses of `run` -/
theorem runObs_resp (cfg : Cfg) (gen sgen : Nat → Bytes) (st : St) (ops : List Op) :
    (runObs cfg gen sgen st ops).map (Option.map fun o => (o.pass, o.status, o.ck, o.sc, o.gens, o.sgens, o.fired, o.early)) =
    (run cfg gen sgen st ops).2.map
      (Option.map fun r => (r.pass, r.status, r.ck, r.sc, r.gens, r.sgens, r.fg || r.fs || r.fd, r.early)) := by
  induction ops generalizing st with
  | nil => rfl
  | cons o os ih =>
    simp only [runObs, run, List.map_cons]
    rw [ih]
    cases o <;> simp [step, obsOf]

theorem run_cons (cfg : Cfg) (gen sgen : Nat → Bytes) (st : St) (o : Op) (os : List Op) :
    (run cfg gen sgen st (o :: os)).1 = (run cfg gen sgen (step cfg gen sgen st o).1 os).1 := by
  simp [run]

/-- **Whole histories**, with the state the specification ends in: it is related to the model's, and
    all its live tokens were issued. -/
theorem run_refines_end (raw : List Bytes) (cfg : Cfg)
    (hbuild : buildLoop raw [] [] = some (cfg.origins, cfg.subs))
    (gen sgen : Nat → Bytes) (hgen : ∀ n, gen n ≠ [])
    (hinj : cfg.backend ≠ .storage → Function.Injective gen)
    (hsgen : ∀ n, sgen n ≠ []) (hpos : 0 < cfg.idle)
    (ops : List Op) (st : St) (s : SpecSt) (hinv : Inv cfg gen st s) (hli : LiveIssued s) :
    ∃ s', specEnd (specConfig cfg.backend cfg.ext cfg.single cfg.idle raw cfg.next cfg.cookie cfg.eh) s ops (runObs cfg gen sgen st ops) = some s' ∧
      Inv cfg gen (run cfg gen sgen st ops).1 s' ∧ LiveIssued s' := by
  induction ops generalizing st s with
  | nil => exact ⟨s, rfl, hinv, hli⟩
  | cons o os ih =>
    rw [run_cons]
    cases o with
    | adv d =>
      simp only [runObs, step, specEnd]
      exact ih _ _ (inv_adv cfg gen st s d hinv) hli
    | req q =>
      obtain ⟨s', hs, hinv'⟩ := handle_refines raw cfg hbuild gen sgen hgen hinj hsgen hpos st s q hinv
      simp only [runObs, step, Option.map, specEnd, hs]
      exact ih _ _ hinv' (specReq_liveIssued _ s q _ s' hs hli)

end C16
