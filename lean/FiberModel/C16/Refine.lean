import FiberModel.C16.SimStorage
import FiberModel.C16.SimMw
import FiberModel.C16.SimSS
import FiberModel.C16.SpecLemmas
/-
C16 — the refinement: the invariant between model and specification states, one request, and whole
histories by induction.
-/
set_option linter.unusedVariables false

namespace C16
open B

/-- **The invariant.** The specification's clock and issued set are the model's, and every token the
    back-end holds was issued and is live in the specification at least as long (for the session
    back-ends: and known there as handed to that very session). -/
structure Inv (cfg : Cfg) (gen : Nat → Bytes) (st : St) (s : SpecSt) : Prop where
  now : s.now = st.now
  issued : IssuedOK gen st.ntok s.issued
  tokens : match cfg.backend with
    | .storage => StoreOK gen cfg.idle st.ntok st.now st.store s.live ∧ keysNodup st.store
    | _ => SessOK gen cfg.idle st.ntok st.now st.sess s.live ∧ keysNodup st.sess

theorem inv_init (cfg : Cfg) (gen : Nat → Bytes) : Inv cfg gen {} specInit := by
  refine ⟨rfl, ?_, ?_⟩
  · intro t
    simp [specInit]
  · cases cfg.backend <;> simp only
    · exact ⟨fun k d h => by simp [lookup] at h, by simp [keysNodup]⟩
    · exact ⟨fun id k d h => by simp [lookup] at h, by simp [keysNodup]⟩
    · exact ⟨fun id k d h => by simp [lookup] at h, by simp [keysNodup]⟩

/-- the clock moves on: nothing to do -/
theorem inv_adv (cfg : Cfg) (gen : Nat → Bytes) (st : St) (s : SpecSt) (d : Nat) (h : Inv cfg gen st s) :
    Inv cfg gen { st with now := st.now + d } { s with now := s.now + d } := by
  obtain ⟨h1, h2, h3⟩ := h
  refine ⟨by simp [h1], h2, ?_⟩
  cases hb : cfg.backend <;> simp only [hb] at h3 ⊢
  · exact ⟨storeOK_mono _ _ _ _ _ _ _ _ h3.1 (Nat.le_refl _) (Nat.le_add_right _ _), h3.2⟩
  · exact ⟨sessOK_mono _ _ _ _ _ _ _ _ h3.1 (Nat.le_refl _) (Nat.le_add_right _ _), h3.2⟩
  · exact ⟨sessOK_mono _ _ _ _ _ _ _ _ h3.1 (Nat.le_refl _) (Nat.le_add_right _ _), h3.2⟩

/-- **One request.** From related states, the model's answer passes every clause of the
    specification step and the successor states are related again. -/
theorem handle_refines (raw : List Bytes) (cfg : Cfg)
    (hbuild : buildLoop raw [] [] = some (cfg.origins, cfg.subs))
    (gen sgen : Nat → Bytes) (hgen : ∀ n, gen n ≠ [])
    (hinj : cfg.backend ≠ .storage → Function.Injective gen)
    (hsgen : ∀ n, sgen n ≠ []) (hpos : 0 < cfg.idle)
    (st : St) (s : SpecSt) (q : Req) (hwo : q.ourl.wf) (hwr : q.rurl.wf) (hinv : Inv cfg gen st s) :
    ∃ s', specReq (specConfig cfg.backend cfg.ext cfg.single cfg.idle raw) s q
        (obsOf cfg (handle cfg gen sgen st q).1 (handle cfg gen sgen st q).2) = .ok s' ∧
      Inv cfg gen (handle cfg gen sgen st q).1 s' := by
  obtain ⟨h1, h2, h3⟩ := hinv
  rcases hh : handle cfg gen sgen st q with ⟨st', r⟩
  have key : cfg.backend = .storage ∨ cfg.backend = .sessStore ∨ cfg.backend = .sessMw := by
    cases cfg.backend <;> simp
  rcases key with hb | hb | hb
  · simp only [hb] at h3
    obtain ⟨s', hs, g1, g2, g3, g4⟩ := sim_storage raw cfg hbuild gen sgen hgen hpos hb st s q hwo hwr h1 h2 h3.1 h3.2 st' r hh
    exact ⟨s', hs, g1, g2, by simp only [hb]; exact ⟨g3, g4⟩⟩
  · simp only [hb] at h3
    obtain ⟨s', hs, g1, g2, g3, g4⟩ := sim_ss raw cfg hbuild gen sgen hgen (hinj (by rw [hb]; decide)) hsgen hpos hb st s q hwo hwr h1 h2 h3.1 h3.2 st' r hh
    exact ⟨s', hs, g1, g2, by simp only [hb]; exact ⟨g3, g4⟩⟩
  · simp only [hb] at h3
    obtain ⟨s', hs, g1, g2, g3, g4⟩ := sim_mw raw cfg hbuild gen sgen hgen (hinj (by rw [hb]; decide)) hsgen hpos hb st s q hwo hwr h1 h2 h3.1 h3.2 st' r hh
    exact ⟨s', hs, g1, g2, by simp only [hb]; exact ⟨g3, g4⟩⟩

/-- every request of the history carries URL-parser results with colon-free schemes -/
def OpsWf (ops : List Op) : Prop := ∀ q, Op.req q ∈ ops → q.ourl.wf ∧ q.rurl.wf

/-- **Whole histories**, from any related pair of states. -/
theorem run_refines (raw : List Bytes) (cfg : Cfg)
    (hbuild : buildLoop raw [] [] = some (cfg.origins, cfg.subs))
    (gen sgen : Nat → Bytes) (hgen : ∀ n, gen n ≠ [])
    (hinj : cfg.backend ≠ .storage → Function.Injective gen)
    (hsgen : ∀ n, sgen n ≠ []) (hpos : 0 < cfg.idle)
    (ops : List Op) (hwf : OpsWf ops) (st : St) (s : SpecSt) (hinv : Inv cfg gen st s) :
    specRun (specConfig cfg.backend cfg.ext cfg.single cfg.idle raw) s ops (runObs cfg gen sgen st ops) = none := by
  induction ops generalizing st s with
  | nil => rfl
  | cons o os ih =>
    have hwf' : OpsWf os := fun q hq => hwf q (List.mem_cons_of_mem _ hq)
    cases o with
    | adv d =>
      simp only [runObs, step, specRun]
      exact ih hwf' _ _ (inv_adv cfg gen st s d hinv)
    | req q =>
      obtain ⟨hwo, hwr⟩ := hwf q (by simp)
      obtain ⟨s', hs, hinv'⟩ := handle_refines raw cfg hbuild gen sgen hgen hinj hsgen hpos st s q hwo hwr hinv
      simp only [runObs, step, Option.map, specRun, hs]
      exact ih hwf' _ _ hinv'

/-- `runObs` observes exactly the responses of `run` -/
theorem runObs_resp (cfg : Cfg) (gen sgen : Nat → Bytes) (st : St) (ops : List Op) :
    (runObs cfg gen sgen st ops).map (Option.map fun o => (o.pass, o.status, o.ck, o.sc, o.gens, o.sgens, o.fired, o.early)) =
    (run cfg gen sgen st ops).2.map
      (Option.map fun r => (r.pass, r.status, r.ck, r.sc, r.gens, r.sgens, r.fg || r.fs || r.fd, r.early)) := by
  induction ops generalizing st with
  | nil => rfl
  | cons o os ih =>
    simp only [runObs, run, List.map_cons]
    rw [ih]
    cases o <;> simp [step, obsOf]

theorem run_cons (cfg : Cfg) (gen sgen : Nat → Bytes) (st : St) (o : Op) (os : List Op) :
    (run cfg gen sgen st (o :: os)).1 = (run cfg gen sgen (step cfg gen sgen st o).1 os).1 := by
  simp [run]

/-- **Whole histories**, with the state the specification ends in: it is related to the model's, and
    all its live tokens were issued. -/
theorem run_refines_end (raw : List Bytes) (cfg : Cfg)
    (hbuild : buildLoop raw [] [] = some (cfg.origins, cfg.subs))
    (gen sgen : Nat → Bytes) (hgen : ∀ n, gen n ≠ [])
    (hinj : cfg.backend ≠ .storage → Function.Injective gen)
    (hsgen : ∀ n, sgen n ≠ []) (hpos : 0 < cfg.idle)
    (ops : List Op) (hwf : OpsWf ops) (st : St) (s : SpecSt) (hinv : Inv cfg gen st s) (hli : LiveIssued s) :
    ∃ s', specEnd (specConfig cfg.backend cfg.ext cfg.single cfg.idle raw) s ops (runObs cfg gen sgen st ops) = some s' ∧
      Inv cfg gen (run cfg gen sgen st ops).1 s' ∧ LiveIssued s' := by
  induction ops generalizing st s with
  | nil => exact ⟨s, rfl, hinv, hli⟩
  | cons o os ih =>
    have hwf' : OpsWf os := fun q hq => hwf q (List.mem_cons_of_mem _ hq)
    rw [run_cons]
    cases o with
    | adv d =>
      simp only [runObs, step, specEnd]
      exact ih hwf' _ _ (inv_adv cfg gen st s d hinv) hli
    | req q =>
      obtain ⟨hwo, hwr⟩ := hwf q (by simp)
      obtain ⟨s', hs, hinv'⟩ := handle_refines raw cfg hbuild gen sgen hgen hinj hsgen hpos st s q hwo hwr hinv
      simp only [runObs, step, Option.map, specEnd, hs]
      exact ih hwf' _ _ hinv' (specReq_liveIssued _ s q _ s' hs hli)

end C16
