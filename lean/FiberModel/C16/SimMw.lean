import FiberModel.C16.SimSess
/-
C16 — one request against `Config.Session` behind the session middleware (the middleware loads the
session before, and saves it after, the csrf handler).
-/
set_option linter.unusedSimpArgs false
set_option linter.unusedVariables false

namespace C16
open B

/-- what the session middleware hands to the csrf handler -/
theorem mwLoad_cases (sgen : Nat → Bytes) (q : Req) (st : St) (hsgen : ∀ n, sgen n ≠ []) :
    ∃ W slot0, (mwLoad sgen q { st := st }).mw = some (W, slot0) ∧ W ≠ [] ∧
      (mwLoad sgen q { st := st }).st.sess = st.sess ∧ (mwLoad sgen q { st := st }).st.now = st.now ∧
      (mwLoad sgen q { st := st }).st.ntok = st.ntok ∧ (mwLoad sgen q { st := st }).gens = [] ∧
      (mwLoad sgen q { st := st }).fg = false ∧ (mwLoad sgen q { st := st }).fs = false ∧
      (mwLoad sgen q { st := st }).fd = false ∧
      ((W = q.sc ∧ lookup st.sess W = some slot0) ∨
       (slot0 = none ∧ (q.sc = [] ∨ lookup st.sess q.sc = none))) := by
  unfold mwLoad
  split
  · rename_i slot heq
    have h0 : q.sc ≠ [] := by
      intro h; simp [h] at heq
    rw [if_pos h0] at heq
    exact ⟨_, _, rfl, h0, rfl, rfl, rfl, rfl, rfl, rfl, rfl, Or.inl ⟨rfl, heq⟩⟩
  · rename_i heq
    refine ⟨_, _, rfl, hsgen _, rfl, rfl, rfl, rfl, rfl, rfl, rfl, Or.inr ⟨rfl, ?_⟩⟩
    by_cases h0 : q.sc = []
    · exact Or.inl h0
    · have h0' : q.sc ≠ [] := h0
      rw [if_pos h0'] at heq
      exact Or.inr heq

/-- what the method switch leaves behind, session-middleware back-end -/
def DecMw (cfg : Cfg) (q : Req) (now : Nat) (W : Bytes) (slot0 : Option Tok) (c1 : Ctx) : Decision → Prop
  | .reject _ _ => isSafe q.method = false ∧ c1.mw = some (W, slot0)
  | .proceed tok =>
    if isSafe q.method then
      c1.mw = some (W, slot0) ∧ (tok ≠ [] → tok = q.ck ∧ slotOK now slot0 tok = true)
    else
      originGate cfg q = true ∧ extract cfg.ext q = some q.ck ∧ slotOK now slot0 q.ck = true ∧
      (if cfg.single then tok = [] ∧ c1.mw = some (W, none) else tok = q.ck ∧ c1.mw = some (W, slot0))

theorem decide_mw (cfg : Cfg) (sgen : Nat → Bytes) (q : Req) (c : Ctx) (W : Bytes) (slot0 : Option Tok)
    (hb : cfg.backend = .sessMw) (hmw : c.mw = some (W, slot0)) :
    (decide' cfg sgen q c).1.st = c.st ∧ (decide' cfg sgen q c).1.gens = c.gens ∧
    (decide' cfg sgen q c).1.fg = c.fg ∧ (decide' cfg sgen q c).1.fs = c.fs ∧
    (decide' cfg sgen q c).1.fd = c.fd ∧
    DecMw cfg q c.st.now W slot0 (decide' cfg sgen q c).1 (decide' cfg sgen q c).2 := by
  unfold DecMw decide'
  by_cases hs : isSafe q.method = true
  · simp only [hs, if_true]
    by_cases hck : q.ck = []
    · simp [hck, hmw]
    · simp only [ne_eq, hck, not_false_eq_true, if_true, getRaw, hb, hmw]
      cases hl : slotOK c.st.now slot0 q.ck <;> simp [hl, hmw]
  · simp only [hs]
    simp only [Bool.not_eq_true] at hs
    cases hg : originGate cfg q
    · simp [hs, hmw]
    · simp only [Bool.not_true, Bool.false_eq_true, if_false]
      cases he : extract cfg.ext q with
      | none => simp [hs, hmw]
      | some t =>
        simp only
        by_cases htc : t = q.ck
        · subst htc
          simp only [ne_eq, not_true_eq_false, if_false, getRaw, hb, hmw]
          cases hl : slotOK c.st.now slot0 q.ck
          · simp [hs, hmw]
          · simp only [Bool.false_eq_true, if_false]
            cases hsg : cfg.single
            · simp [hs, hmw]
            · simp [delRaw, hb, hmw, hs]
        · simp [htc, hs, hmw]

/-- `finishTail` behind the session middleware: nothing can fail -/
theorem tail_mw (cfg : Cfg) (sgen : Nat → Bytes) (q : Req) (c : Ctx) (W : Bytes) (slot1 : Option Tok)
    (token : Bytes) (hb : cfg.backend = .sessMw) (hmw : c.mw = some (W, slot1)) (c2 : Ctx) (r2 : Resp)
    (hft : finishTail cfg sgen q c token = (c2, r2)) :
    c2.st = c.st ∧ c2.gens = c.gens ∧ c2.fg = c.fg ∧ c2.fs = c.fs ∧ c2.fd = c.fd ∧
    r2.pass = true ∧ r2.early = (c.fg || c.fs || c.fd) ∧
    ((q.del = true ∧ q.ck ≠ [] ∧ c2.mw = some (W, none) ∧ r2.ck = some []) ∨
     ((q.del = false ∨ q.ck = []) ∧ c2.mw = some (W, some ⟨token, c.st.now + cfg.idle⟩) ∧ r2.ck = some token)) := by
  unfold finishTail at hft
  simp only [setRaw, delRaw, hb, hmw, Bool.false_and, Bool.false_eq_true, if_false] at hft
  by_cases hdel : q.del = true
  · simp only [hdel, if_true] at hft
    by_cases hck : q.ck = []
    · simp only [hck, if_true] at hft
      cases hft
      exact ⟨rfl, rfl, rfl, rfl, rfl, rfl, rfl, Or.inr ⟨Or.inr hck, rfl, rfl⟩⟩
    · simp only [hck, if_false] at hft
      cases hft
      exact ⟨rfl, rfl, rfl, rfl, rfl, rfl, rfl, Or.inl ⟨hdel, hck, rfl, rfl⟩⟩
  · simp only [hdel, Bool.false_eq_true, if_false] at hft
    cases hft
    exact ⟨rfl, rfl, rfl, rfl, rfl, rfl, rfl, Or.inr ⟨Or.inl (by simpa using hdel), rfl, rfl⟩⟩

theorem decide_mw' (cfg : Cfg) (sgen : Nat → Bytes) (q : Req) (c : Ctx) (W : Bytes) (slot0 : Option Tok)
    (hb : cfg.backend = .sessMw) (hmw : c.mw = some (W, slot0)) (c1 : Ctx) (d : Decision)
    (hd : decide' cfg sgen q c = (c1, d)) :
    c1.st = c.st ∧ c1.gens = c.gens ∧ c1.fg = c.fg ∧ c1.fs = c.fs ∧ c1.fd = c.fd ∧
    DecMw cfg q c.st.now W slot0 c1 d := by
  have := decide_mw cfg sgen q c W slot0 hb hmw
  rw [hd] at this
  exact this

/-- **One request, session back-end behind the session middleware.** -/
theorem sim_mw (raw : List Bytes) (cfg : Cfg)
    (hbuild : buildLoop raw [] [] = some (cfg.origins, cfg.subs))
    (gen sgen : Nat → Bytes) (hgen : ∀ n, gen n ≠ []) (hinj : Function.Injective gen)
    (hsgen : ∀ n, sgen n ≠ []) (hpos : 0 < cfg.idle) (hb : cfg.backend = .sessMw)
    (st : St) (s : SpecSt) (q : Req)
    (hnow : s.now = st.now) (hI : IssuedOK gen st.ntok s.issued)
    (hS : SessOK gen cfg.idle st.ntok st.now st.sess s.live) (hN : keysNodup st.sess)
    (st' : St) (r : Resp) (hh : handleCore cfg gen sgen st q = (st', r)) :
    ∃ s', specReqCore (specConfig cfg.backend cfg.ext cfg.single cfg.idle raw) s q (obsOf cfg st' r) = .ok s' ∧
      s'.now = st'.now ∧ IssuedOK gen st'.ntok s'.issued ∧
      SessOK gen cfg.idle st'.ntok st'.now st'.sess s'.live ∧ keysNodup st'.sess := by
  have hbs : cfg.backend ≠ .storage := by rw [hb]; decide
  have hc0 : ctx0 cfg sgen st q = mwLoad sgen q { st := st } := by simp [ctx0, hb]
  have hce : ∀ c, ctxEnd cfg c = mwSave c := by intro c; simp [ctxEnd, hb]
  obtain ⟨W, slot0, hmw0, hW, hsess0, hnow0, hntok0, hgens0, hfg0, hfs0, hfd0, hcase0⟩ :=
    mwLoad_cases sgen q st hsgen
  generalize mwLoad sgen q { st := st } = c0 at *
  -- what session `W` holds in the store
  have hslot0 : ∀ k d, slot0 = some ⟨k, d⟩ → lookup st.sess W = some (some ⟨k, d⟩) := by
    intro k d h
    rcases hcase0 with ⟨_, hl⟩ | ⟨h0, _⟩
    · rw [hl, h]
    · rw [h0] at h; cases h
  have hWq : ∀ k d, slot0 = some ⟨k, d⟩ → W = q.sc := by
    intro k d h
    rcases hcase0 with ⟨hw, _⟩ | ⟨h0, _⟩
    · exact hw
    · rw [h0] at h; cases h
  have hbind : ∀ slot, q.sc ≠ [] → lookup st.sess q.sc = some slot → W = q.sc := by
    intro slot h1 h2
    rcases hcase0 with ⟨hw, _⟩ | ⟨_, h | h⟩
    · exact hw
    · exact absurd h h1
    · rw [h] at h2; cases h2
  rcases hd : decide' cfg sgen q c0 with ⟨c1, d⟩
  obtain ⟨hc1st, hc1gens, hc1fg, hc1fs, hc1fd, hdec⟩ := decide_mw' cfg sgen q c0 W slot0 hb hmw0 c1 d hd
  have hsb : (specConfig cfg.backend cfg.ext cfg.single cfg.idle raw).sessionBacked = true := by
    simp [specConfig, hb]
  -- the state the session middleware saves, given the slot it ends with
  have hsave : ∀ (c : Ctx) (slotF : Option Tok), c.mw = some (W, slotF) → c.st.sess = st.sess →
      (mwSave c).sc = some W ∧ (mwSave c).gens = c.gens ∧ (mwSave c).st.now = c.st.now ∧
      (mwSave c).st.ntok = c.st.ntok ∧ (mwSave c).fg = c.fg ∧ (mwSave c).fs = c.fs ∧ (mwSave c).fd = c.fd ∧
      (∀ id, lookup (mwSave c).st.sess id = if id = W then some slotF else lookup st.sess id) ∧
      keysNodup (mwSave c).st.sess := by
    intro c slotF hmw hs
    have e : mwSave c = { c with st := { c.st with sess := put c.st.sess W slotF }, sc := some W } := by
      unfold mwSave; rw [hmw]
    rw [e]
    refine ⟨rfl, rfl, rfl, rfl, rfl, rfl, rfl, fun id => ?_, ?_⟩
    · show lookup (put c.st.sess W slotF) id = _
      rw [hs]; exact lookup_put _ _ _ _
    · show keysNodup (put c.st.sess W slotF)
      rw [hs]; exact keysNodup_put _ _ _ hN
  cases d with
  | reject e er =>
    rw [handle_reject cfg gen sgen st q c1 e er (by rw [hc0]; exact hd), hce] at hh
    cases hh
    obtain ⟨hunsafe, hmw1⟩ := hdec
    obtain ⟨hsc, hg, hn, hnt, _, _, _, hlook, hnd⟩ := hsave c1 slot0 hmw1 (by rw [hc1st]; exact hsess0)
    have hI' : IssuedOK gen (mwSave c1).st.ntok (s.issued ++ (mwSave c1).gens) := by
      rw [hg, hc1gens, hgens0, hnt, hc1st, hntok0, List.append_nil]; exact hI
    have hS' : SessOK gen cfg.idle (mwSave c1).st.ntok (mwSave c1).st.now (mwSave c1).st.sess s.live := by
      rw [hnt, hn, hc1st, hntok0, hnow0]
      apply sessOK_sub gen cfg.idle st.ntok st.ntok st.now st.sess _ s.live hS (Nat.le_refl _)
      intro id k d hk
      rw [hlook] at hk
      by_cases hid : id = W
      · simp only [hid, if_true, Option.some.injEq] at hk
        rw [hid]; exact hslot0 k d hk
      · simp only [hid, if_false] at hk; exact hk
    refine ⟨_, specReq_intro _ s q _ s.live s.live ?_ ?_ ?_, ?_, hI', hS', hnd⟩
    · simp [reachClause, hunsafe, obsOf, assemble]
    · cases e <;> simp [rejectClause, obsOf, assemble]
    · exact probeSound_sess cfg gen (mwSave c1).st _ _ hbs hI' hS' hnd
    · show s.now = (mwSave c1).st.now
      rw [hn, hc1st, hnow0]; exact hnow
  | proceed tok =>
    rcases hf : finish cfg gen sgen q c1 tok with ⟨c2, r2⟩
    rw [handle_proceed cfg gen sgen st q c1 c2 tok r2 (by rw [hc0]; exact hd) hf, hce] at hh
    cases hh
    have hc1now : c1.st.now = st.now := by rw [hc1st]; exact hnow0
    have hc1ntok : c1.st.ntok = st.ntok := by rw [hc1st]; exact hntok0
    have hc1g : c1.gens = [] := by rw [hc1gens]; exact hgens0
    have hc1sess : c1.st.sess = st.sess := by rw [hc1st]; exact hsess0
    -- the slot the switch leaves, and what it means for the live set
    have hphase1 : ∃ slot1 live1, c1.mw = some (W, slot1) ∧
        (live1 = s.live ∨ (live1 = erase s.live q.ck ∧ ∃ d0, lookup st.sess W = some (some ⟨q.ck, d0⟩))) ∧
        (isSafe q.method = true → live1 = s.live) ∧
        (isSafe q.method = false → originGate cfg q = true ∧ extract cfg.ext q = some q.ck ∧
          (∃ d0, lookup st.sess W = some (some ⟨q.ck, d0⟩) ∧ st.now ≤ d0) ∧ W = q.sc ∧
          live1 = (if cfg.single then erase s.live q.ck else s.live)) ∧
        (tok ≠ [] → tok = q.ck ∧ ∃ d0, lookup st.sess W = some (some ⟨q.ck, d0⟩) ∧ st.now ≤ d0) := by
      unfold DecMw at hdec
      have hc0now : c0.st.now = st.now := hnow0
      rw [hc0now] at hdec
      by_cases hsafe : isSafe q.method = true
      · simp only [hsafe, if_true] at hdec
        refine ⟨slot0, s.live, hdec.1, Or.inl rfl, fun _ => rfl, (fun h => by rw [hsafe] at h; cases h), fun h => ?_⟩
        obtain ⟨h1, h2⟩ := hdec.2 h
        obtain ⟨d0, hd0, hle⟩ := slotOK_spec _ _ _ h2
        rw [h1] at hd0
        exact ⟨h1, d0, hslot0 _ _ hd0, hle⟩
      · simp only [hsafe, Bool.false_eq_true, if_false] at hdec
        simp only [Bool.not_eq_true] at hsafe
        obtain ⟨hgate, hext, hso, hsm⟩ := hdec
        obtain ⟨d0, hd0, hle⟩ := slotOK_spec _ _ _ hso
        have hheld := hslot0 _ _ hd0
        by_cases hsg : cfg.single = true
        · simp only [hsg, if_true] at hsm ⊢
          exact ⟨none, _, hsm.2, Or.inr ⟨rfl, d0, hheld⟩, (fun h => absurd (hsafe.symm.trans h) (by decide)),
            fun _ => ⟨hgate, hext, ⟨d0, hheld, hle⟩, hWq _ _ hd0, rfl⟩, fun h => absurd hsm.1 h⟩
        · simp only [hsg, Bool.false_eq_true, if_false] at hsm ⊢
          exact ⟨slot0, _, hsm.2, Or.inl rfl, (fun h => absurd (hsafe.symm.trans h) (by decide)),
            fun _ => ⟨hgate, hext, ⟨d0, hheld, hle⟩, hWq _ _ hd0, rfl⟩, fun _ => ⟨hsm.1, d0, hheld, hle⟩⟩
    obtain ⟨slot1, live1, hmw1, hL1, hL1safe, hL1unsafe, hkeptfact⟩ := hphase1
    suffices H : ∀ (c1' : Ctx) (token : Bytes), finishTail cfg sgen q c1' token = (c2, r2) →
        c1'.st.now = st.now → c1'.st.sess = st.sess → c1'.mw = some (W, slot1) →
        c1'.fg = false → c1'.fs = false → c1'.fd = false →
        IssuedOK gen c1'.st.ntok (s.issued ++ c1'.gens) → token ≠ [] →
        ((c1'.gens = [] ∧ c1'.st.ntok = st.ntok ∧ token = q.ck ∧ s.liveAt token = true ∧
            ∃ d0, lookup st.sess W = some (some ⟨token, d0⟩)) ∨
         (c1'.gens = [token] ∧ c1'.st.ntok = st.ntok + 1 ∧ token = gen st.ntok)) →
        (cfg.single = true → isSafe q.method = false → c1'.gens = [token]) →
        ∃ s', specReqCore (specConfig cfg.backend cfg.ext cfg.single cfg.idle raw) s q
            (obsOf cfg (mwSave c2).st (assemble (mwSave c2) r2)) = .ok s' ∧
          s'.now = (mwSave c2).st.now ∧ IssuedOK gen (mwSave c2).st.ntok s'.issued ∧
          SessOK gen cfg.idle (mwSave c2).st.ntok (mwSave c2).st.now (mwSave c2).st.sess s'.live ∧
          keysNodup (mwSave c2).st.sess by
      by_cases htok : tok = []
      · subst htok
        rw [finish_fresh] at hf
        refine H _ _ hf hc1now hc1sess hmw1 (by rw [hc1fg, hfg0]) (by rw [hc1fs, hfs0]) (by rw [hc1fd, hfd0]) ?_ (hgen _)
          (Or.inr ⟨by simp [hc1g], by simp [hc1ntok], by rw [hc1ntok]⟩) (fun _ _ => by simp [hc1g])
        show IssuedOK gen (c1.st.ntok + 1) (s.issued ++ (c1.gens ++ [gen c1.st.ntok]))
        rw [hc1g, hc1ntok]
        exact issuedOK_append gen _ _ hI
      · rw [finish_kept _ _ _ _ _ _ htok] at hf
        obtain ⟨hk1, d0, hheld, hle⟩ := hkeptfact htok
        obtain ⟨hl1, hl2⟩ := held_spec gen cfg.idle st.ntok st.now st.sess s hnow hI hS W q.ck d0 hheld hle
        refine H _ _ hf hc1now hc1sess hmw1 (by rw [hc1fg, hfg0]) (by rw [hc1fs, hfs0]) (by rw [hc1fd, hfd0]) ?_ htok
          (Or.inl ⟨hc1g, hc1ntok, hk1, by rw [hk1]; exact hl1, d0, by rw [hk1]; exact hheld⟩) ?_
        · rw [hc1g, hc1ntok, List.append_nil]; exact hI
        · intro hsg hu
          exfalso
          dsimp only [DecMw] at hdec
          simp only [hu, Bool.false_eq_true, if_false, hsg, if_true] at hdec
          exact htok hdec.2.2.2.1
    intro c1' token hft hn1 hss1 hmw1' hfg1 hfs1 hfd1 hI1 hne hT hSU
    obtain ⟨hc2st, hc2g, hc2fg, hc2fs, hc2fd, hpass, hearly, hshape⟩ :=
      tail_mw cfg sgen q c1' W slot1 token hb hmw1' c2 r2 hft
    -- the slot the request ends with
    have hslotF : ∃ slotF, c2.mw = some (W, slotF) := by
      rcases hshape with ⟨_, _, h, _⟩ | ⟨_, h, _⟩ <;> exact ⟨_, h⟩
    obtain ⟨slotF, hmw2⟩ := hslotF
    obtain ⟨hsc, hg, hn, hnt, hfg, hfs, hfd, hlook, hnd⟩ := hsave c2 slotF hmw2 (by rw [hc2st]; exact hss1)
    generalize hoeq : obsOf cfg (mwSave c2).st (assemble (mwSave c2) r2) = o
    have hog : o.gens = c1'.gens := by rw [← hoeq]; show (mwSave c2).gens = _; rw [hg, hc2g]
    have hosc : o.sc = some W := by rw [← hoeq]; exact hsc
    have hock : o.ck = r2.ck := by rw [← hoeq]; rfl
    have hopass : o.pass = true := by rw [← hoeq]; exact hpass
    have hofired : o.fired = false := by
      rw [← hoeq]; show ((mwSave c2).fg || (mwSave c2).fs || (mwSave c2).fd) = false
      rw [hfg, hfs, hfd, hc2fg, hc2fs, hc2fd, hfg1, hfs1, hfd1]; rfl
    have hoearly : o.early = false := by
      rw [← hoeq]; show r2.early = false
      rw [hearly, hfg1, hfs1, hfd1]; rfl
    have hntok' : (mwSave c2).st.ntok = c1'.st.ntok := by rw [hnt, hc2st]
    have hnow' : (mwSave c2).st.now = st.now := by rw [hn, hc2st, hn1]
    have hTO : TokenOrigin gen st.ntok c1'.st.ntok s st.sess q o token W := by
      rcases hT with ⟨h1, h2, h3, h4, h5⟩ | ⟨h1, h2, h3⟩
      · exact Or.inl ⟨hog.trans h1, h2, h3, h4, h5⟩
      · exact Or.inr ⟨hog.trans h1, h2, h3⟩
    have hI' : IssuedOK gen c1'.st.ntok (s.issued ++ o.gens) := by rw [hog]; exact hI1
    have hnn : st.ntok ≤ c1'.st.ntok := by rcases hT with ⟨_, h, _⟩ | ⟨_, h, _⟩ <;> omega
    -- the reach clause
    have hreach : reachClause (specConfig cfg.backend cfg.ext cfg.single cfg.idle raw)
        { s with issued := s.issued ++ o.gens } q o = .ok live1 := by
      by_cases hsafe : isSafe q.method = true
      · rw [hL1safe hsafe]
        simp [reachClause, hsafe, hopass]
      · simp only [Bool.not_eq_true] at hsafe
        obtain ⟨hgate, hext, ⟨d0, hheld, hle⟩, hWsc, hl1⟩ := hL1unsafe hsafe
        obtain ⟨hla, hli⟩ := held_spec gen cfg.idle st.ntok st.now st.sess s hnow hI hS W q.ck d0 hheld hle
        have hby : heldBy { s with issued := s.issued ++ o.gens } q.ck q.sc = true := by
          obtain ⟨_, _, _, l, hll, _, hh⟩ := hS W q.ck d0 hheld
          unfold heldBy
          simp only [hll, hh, hWsc, decide_true]
        have horig := gate_sound raw cfg hbuild q hgate
        have hacc : acceptedToken (specConfig cfg.backend cfg.ext cfg.single cfg.idle raw)
            { s with issued := s.issued ++ o.gens } q = some q.ck := by
          refine accepted_of (specConfig cfg.backend cfg.ext cfg.single cfg.idle raw)
            { s with issued := s.issued ++ o.gens } q q.ck hext rfl hla ?_
          simp only [List.contains_eq_mem, List.mem_append, decide_eq_true_eq]
          exact Or.inl hli
        unfold reachClause
        simp only [hsafe, Bool.not_false, if_true, hopass, hoearly, Bool.false_eq_true, if_false, horig,
          Bool.not_true, hacc, hby, Bool.and_false]
        rw [hl1]; rfl
    -- the cookie clause and the invariant, by shape
    have hcookie : ∃ live2, cookieClause (specConfig cfg.backend cfg.ext cfg.single cfg.idle raw)
          { s with issued := s.issued ++ o.gens } q o
          (afterDel (specConfig cfg.backend cfg.ext cfg.single cfg.idle raw) q o
            (afterGens (specConfig cfg.backend cfg.ext cfg.single cfg.idle raw)
              { s with issued := s.issued ++ o.gens } o live1)) = .ok live2 ∧
        SessOK gen cfg.idle c1'.st.ntok st.now (mwSave c2).st.sess live2 := by
      rcases hshape with ⟨hdel, hckne, hm, hrck⟩ | ⟨hnodel, hm, hrck⟩
      · have hsF : slotF = none := by rw [hmw2] at hm; cases hm; rfl
        subst hsF
        exact sess_shapeB gen hinj cfg.idle st.ntok c1'.st.ntok st.now _ hsb s st.sess _ hS q o W live1 hnn
          hlook hW hosc (hock.trans hrck) hdel hbind hL1 hTO.gens
      · have hsF : slotF = some ⟨token, st.now + cfg.idle⟩ := by
          rw [hmw2, hn1] at hm; cases hm; rfl
        subst hsF
        refine sess_shapeA gen hinj cfg.idle st.ntok c1'.st.ntok st.now _ rfl s hnow st.sess _ hS q o token W live1
          hI' hlook hW hosc (hock.trans hrck) hne hL1 hTO (hnodel.elim Or.inl (fun h => Or.inr (Or.inl h)))
          (fun h1 h2 => hog.trans (hSU (by simpa [specConfig] using h1) h2)) ?_
        intro _ _
        rw [← hoeq]
        refine probeHas_sess cfg _ _ W token (st.now + cfg.idle) _ hbs ?_ ?_
        · rw [hlook]; simp
        · rw [hnow]; exact Nat.le_refl _
    obtain ⟨live2, hcc, hS2⟩ := hcookie
    have hS2' : SessOK gen cfg.idle (mwSave c2).st.ntok (mwSave c2).st.now (mwSave c2).st.sess live2 := by
      rw [hntok', hnow']; exact hS2
    have hI2 : IssuedOK gen (mwSave c2).st.ntok (s.issued ++ o.gens) := by rw [hntok']; exact hI'
    refine ⟨_, specReq_intro _ s q o live1 live2 hreach ?_ ?_, ?_, hI2, hS2', hnd⟩
    · simp only [hopass, if_true]; exact hcc
    · rw [← hoeq]
      refine probeSound_sess cfg gen (mwSave c2).st _ _ hbs ?_ hS2' hnd
      rw [hoeq]; exact hI2
    · show s.now = (mwSave c2).st.now
      rw [hnow']; exact hnow

end C16
