import FiberModel.C09.MediaLemmas
/-
C09 — lemmas about `getOffer` on ARBITRARY header bytes and arbitrary `ParseFloat` tables (NaN/Inf
included), where the sort need not produce a sorted list:

* the nested search is sound and complete over whatever list it is given;
* the sort is driven by the comparison `after` alone, so it treats two lists alike whose elements
  agree in everything but their positions and whose positions are ordered alike — which is what
  removing list elements with weight 0 does to the parsed ranges.
-/
namespace C09
open B

/-! ### the nested search -/

theorem findOffer_sound (acc : Bytes → Bytes → Params → Bool) (L : List Range) (offers : List Bytes) (o : Bytes)
    (h : findOffer acc L offers = o) (ho : o ≠ []) :
    ∃ r ∈ L, o ∈ offers ∧ acc r.spec o r.params = true := by
  induction L with
  | nil => simp only [findOffer] at h; exact absurd h.symm ho
  | cons r rs ih =>
    unfold findOffer at h
    split at h
    · rename_i o' hf
      subst h
      have h1 := List.find?_some hf
      simp only [Bool.and_eq_true] at h1
      exact ⟨r, by simp, List.mem_of_find?_eq_some hf, h1.2⟩
    · obtain ⟨r', hr', h2⟩ := ih h
      exact ⟨r', by simp [hr'], h2⟩

theorem findOffer_complete (acc : Bytes → Bytes → Params → Bool) (L : List Range) (offers : List Bytes)
    (h : ∃ r ∈ L, ∃ o ∈ offers, o ≠ [] ∧ acc r.spec o r.params = true) :
    findOffer acc L offers ≠ [] := by
  induction L with
  | nil => obtain ⟨r, hr, _⟩ := h; simp at hr
  | cons r rs ih =>
    unfold findOffer
    split
    · rename_i o' hf
      have h1 := List.find?_some hf
      simp only [Bool.and_eq_true, bne_iff_ne, ne_eq] at h1
      exact h1.1
    · rename_i hnone
      apply ih
      obtain ⟨r', hr', o, ho, hne, hacc⟩ := h
      rcases List.mem_cons.1 hr' with rfl | hr'
      · exfalso
        rw [List.find?_eq_none] at hnone
        have := hnone o ho
        simp [hne, hacc] at this
      · exact ⟨r', hr', o, ho, hne, hacc⟩

/-- what `getOffer` searches: the parsed ranges, sorted when there are at least two -/
def candidates (tab : Bytes → Option Qual) (header : Bytes) : List Range :=
  if (parseRanges tab header).length > 1 then sortAccepted (parseRanges tab header) else parseRanges tab header

theorem mem_candidates {tab : Bytes → Option Qual} {header : Bytes} {r : Range} :
    r ∈ candidates tab header ↔ r ∈ parseRanges tab header := by
  unfold candidates
  split
  · exact (sortAccepted_perm _).mem_iff
  · exact Iff.rfl

theorem getOffer_eq_findOffer (tab : Bytes → Option Qual) (acc : Bytes → Bytes → Params → Bool) (header : Bytes)
    (o0 : Bytes) (os : List Bytes) (hh : header ≠ []) :
    getOffer tab acc header (o0 :: os) = findOffer acc (candidates tab header) (o0 :: os) := by
  unfold getOffer candidates
  simp [hh]

theorem candidates_eq_sorted (tab : Bytes → Option Qual) (header : Bytes) :
    candidates tab header = sortAccepted (parseRanges tab header) := by
  unfold candidates
  split
  · rfl
  · rename_i h; exact (sortAccepted_short _ h).symm

/-! ### the parsed ranges, element by element -/

/-- `parseElem` depends on the position only through the `order` field -/
theorem parseElem_order (tab : Bytes → Option Qual) (a : Bytes) (n m : Nat) :
    parseElem tab a m = (parseElem tab a n).map fun r => { r with order := m } := by
  unfold parseElem
  split
  · rfl
  · simp only
    split <;> rfl

/-- the list element does not carry the weight 0 -/
def live (tab : Bytes → Option Qual) (a : Bytes) : Bool := (parseElem tab a 0).isSome

theorem live_iff (tab : Bytes → Option Qual) (a : Bytes) (n : Nat) : live tab a = (parseElem tab a n).isSome := by
  unfold live
  rw [parseElem_order tab a n 0]
  cases parseElem tab a n <;> rfl

theorem mem_parseRangesFrom {tab : Bytes → Option Qual} {as : List Bytes} {n : Nat} {r : Range}
    (h : r ∈ parseRangesFrom tab as n) : ∃ a ∈ as, ∃ m, parseElem tab a m = some r := by
  induction as generalizing n with
  | nil => simp [parseRangesFrom] at h
  | cons a as ih =>
    simp only [parseRangesFrom] at h
    cases hp : parseElem tab a (n + 1) with
    | none =>
      rw [hp] at h
      obtain ⟨a', ha', m, hm⟩ := ih h
      exact ⟨a', by simp [ha'], m, hm⟩
    | some r0 =>
      rw [hp] at h
      rcases List.mem_cons.1 h with rfl | h
      · exact ⟨a, by simp, n + 1, hp⟩
      · obtain ⟨a', ha', m, hm⟩ := ih h
        exact ⟨a', by simp [ha'], m, hm⟩

/-! ### two lists that differ in their positions only -/

/-- the parsed ranges of `as` paired with the parsed ranges of `as` without its weight-0 elements -/
def pairFrom (tab : Bytes → Option Qual) : List Bytes → Nat → Nat → List (Range × Range)
  | [], _, _ => []
  | a :: as, n, n' =>
    match parseElem tab a (n + 1) with
    | none => pairFrom tab as (n + 1) n'
    | some r => (r, { r with order := n' + 1 }) :: pairFrom tab as (n + 1) (n' + 1)

theorem pairFrom_fst (tab : Bytes → Option Qual) (as : List Bytes) (n n' : Nat) :
    (pairFrom tab as n n').map (·.1) = parseRangesFrom tab as n := by
  induction as generalizing n n' with
  | nil => rfl
  | cons a as ih =>
    simp only [pairFrom, parseRangesFrom]
    cases parseElem tab a (n + 1) with
    | none => exact ih _ _
    | some r => simp only [List.map_cons]; rw [ih]

theorem pairFrom_snd (tab : Bytes → Option Qual) (as : List Bytes) (n n' : Nat) :
    (pairFrom tab as n n').map (·.2) = parseRangesFrom tab (as.filter (live tab)) n' := by
  induction as generalizing n n' with
  | nil => rfl
  | cons a as ih =>
    simp only [pairFrom]
    have hl := live_iff tab a (n + 1)
    cases hp : parseElem tab a (n + 1) with
    | none =>
      rw [hp] at hl
      simp only [Option.isSome_none] at hl
      simp only [List.filter_cons, hl, Bool.false_eq_true, if_false]
      exact ih _ _
    | some r =>
      rw [hp] at hl
      simp only [Option.isSome_some] at hl
      simp only [List.filter_cons, hl, if_true, List.map_cons, parseRangesFrom]
      rw [parseElem_order tab a (n + 1) (n' + 1), hp]
      simp only [Option.map_some]
      rw [ih]

/-- the two components of a pair agree in everything but the position -/
def samePair (p : Range × Range) : Prop := p.2 = { p.1 with order := p.2.order }

theorem pairFrom_props (tab : Bytes → Option Qual) (as : List Bytes) (n n' : Nat) :
    (∀ p ∈ pairFrom tab as n n', samePair p ∧ n < p.1.order ∧ n' < p.2.order) ∧
    (pairFrom tab as n n').Pairwise (fun p p2 => p.1.order < p2.1.order ∧ p.2.order < p2.2.order) := by
  induction as generalizing n n' with
  | nil => simp [pairFrom]
  | cons a as ih =>
    simp only [pairFrom]
    cases hp : parseElem tab a (n + 1) with
    | none =>
      obtain ⟨ih1, ih2⟩ := ih (n + 1) n'
      exact ⟨fun p hp' => by have := ih1 p hp'; exact ⟨this.1, by omega, this.2.2⟩, ih2⟩
    | some r =>
      obtain ⟨ih1, ih2⟩ := ih (n + 1) (n' + 1)
      have hord : r.order = n + 1 := by
        have h0 := parseElem_order tab a (n + 1) (n + 1)
        rw [hp] at h0
        simp only [Option.map_some, Option.some.injEq] at h0
        rw [h0]
      refine ⟨?_, ?_⟩
      · intro p hp'
        rcases List.mem_cons.1 hp' with rfl | hp'
        · exact ⟨rfl, by simp [hord], by simp⟩
        · have := ih1 p hp'; exact ⟨this.1, by omega, by omega⟩
      · rw [List.pairwise_cons]
        refine ⟨?_, ih2⟩
        intro p hp'
        have := ih1 p hp'
        simp only [hord]
        omega

/-- the comparison of the sort cannot tell the two components apart -/
def Compat (Z : List (Range × Range)) : Prop :=
  ∀ p ∈ Z, ∀ p2 ∈ Z, after p.1 p2.1 = after p.2 p2.2

theorem after_samePair {p p2 : Range × Range} (hp : samePair p) (hp2 : samePair p2)
    (ho : (p.1.order > p2.1.order) ↔ (p.2.order > p2.2.order)) : after p.1 p2.1 = after p.2 p2.2 := by
  unfold samePair at hp hp2
  rw [hp, hp2]
  unfold after
  simp only
  have : decide (p.1.order > p2.1.order) = decide (p.2.order > p2.2.order) := by
    by_cases h : p.1.order > p2.1.order
    · simp [h, ho.1 h]
    · have h' : ¬ p.2.order > p2.2.order := fun h2 => h (ho.2 h2)
      simp [h, h']
  rw [this]

theorem pairFrom_compat (tab : Bytes → Option Qual) (as : List Bytes) (n n' : Nat) : Compat (pairFrom tab as n n') := by
  obtain ⟨h1, h2⟩ := pairFrom_props tab as n n'
  intro p hp p2 hp2
  apply after_samePair (h1 p hp).1 (h1 p2 hp2).1
  rcases List.mem_iff_getElem.1 hp with ⟨i, hi, rfl⟩
  rcases List.mem_iff_getElem.1 hp2 with ⟨j, hj, rfl⟩
  rcases Nat.lt_trichotomy i j with hlt | heq | hgt
  · have := List.pairwise_iff_getElem.1 h2 i j hi hj hlt
    omega
  · subst heq; omega
  · have := List.pairwise_iff_getElem.1 h2 j i hj hi hgt
    omega

/-! ### the sort on pairs -/

theorem bsearch_congr (pre pre' : List Range) (x x' : Range) (hlen : pre.length = pre'.length)
    (h : ∀ (i : Nat) (m m' : Range), pre[i]? = some m → pre'[i]? = some m' → after x m = after x' m') :
    ∀ fuel lo hiX, bsearch pre x fuel lo hiX = bsearch pre' x' fuel lo hiX := by
  intro fuel
  induction fuel with
  | zero => intro lo hiX; rfl
  | succ f ih =>
    intro lo hiX
    simp only [bsearch]
    split
    · cases h1 : pre[(lo + (hiX - 1)) / 2]? with
      | none =>
        cases h2 : pre'[(lo + (hiX - 1)) / 2]? with
        | none => rfl
        | some m' =>
          exfalso
          have a1 := List.getElem?_eq_none_iff.1 h1
          have a2 := (List.getElem?_eq_some_iff.1 h2).1
          omega
      | some m =>
        cases h2 : pre'[(lo + (hiX - 1)) / 2]? with
        | none =>
          exfalso
          have a1 := List.getElem?_eq_none_iff.1 h2
          have a2 := (List.getElem?_eq_some_iff.1 h1).1
          omega
        | some m' =>
          simp only
          rw [h _ m m' h1 h2, ih, ih]
    · rfl

/-- `insertSorted` on a list of pairs, steered by the first components -/
def insertP (P : List (Range × Range)) (z : Range × Range) : List (Range × Range) :=
  let lo := bsearch (P.map (·.1)) z.1 (P.length + 1) 0 P.length
  P.take lo ++ z :: P.drop lo

theorem insertP_fst (P : List (Range × Range)) (z : Range × Range) :
    (insertP P z).map (·.1) = insertSorted (P.map (·.1)) z.1 := by
  simp [insertP, insertSorted, insertAt, List.map_take, List.map_drop]

theorem insertP_snd (P : List (Range × Range)) (z : Range × Range)
    (hc : ∀ p ∈ P, after z.1 p.1 = after z.2 p.2) :
    (insertP P z).map (·.2) = insertSorted (P.map (·.2)) z.2 := by
  have hb : bsearch (P.map (·.1)) z.1 (P.length + 1) 0 P.length = bsearch (P.map (·.2)) z.2 (P.length + 1) 0 P.length := by
    apply bsearch_congr _ _ _ _ (by simp)
    intro i m m' hm hm'
    simp only [List.getElem?_map] at hm hm'
    cases hpi : P[i]? with
    | none => rw [hpi] at hm; simp at hm
    | some p =>
      rw [hpi] at hm hm'
      simp only [Option.map_some, Option.some.injEq] at hm hm'
      rw [← hm, ← hm']
      exact hc p (List.mem_of_getElem? hpi)
  simp only [insertP, insertSorted, insertAt, List.length_map, List.map_append, List.map_take, List.map_cons, List.map_drop]
  rw [hb]

theorem insertP_mem {P : List (Range × Range)} {z p : Range × Range} (h : p ∈ insertP P z) : p = z ∨ p ∈ P := by
  simp only [insertP, List.mem_append, List.mem_cons] at h
  rcases h with h | h | h
  · exact Or.inr (List.mem_of_mem_take h)
  · exact Or.inl h
  · exact Or.inr (List.mem_of_mem_drop h)

theorem foldl_insertP (Z0 Z P : List (Range × Range)) (hc : Compat Z0) (hZ : ∀ p ∈ Z, p ∈ Z0) (hP : ∀ p ∈ P, p ∈ Z0) :
    (Z.foldl insertP P).map (·.1) = (Z.map (·.1)).foldl insertSorted (P.map (·.1)) ∧
    (Z.foldl insertP P).map (·.2) = (Z.map (·.2)).foldl insertSorted (P.map (·.2)) ∧
    ∀ p ∈ Z.foldl insertP P, p ∈ Z0 := by
  induction Z generalizing P with
  | nil => exact ⟨rfl, rfl, hP⟩
  | cons z Z ih =>
    have hz : z ∈ Z0 := hZ z (by simp)
    have hP' : ∀ p ∈ insertP P z, p ∈ Z0 := by
      intro p hp
      rcases insertP_mem hp with rfl | hp
      · exact hz
      · exact hP p hp
    obtain ⟨h1, h2, h3⟩ := ih (insertP P z) (fun p hp => hZ p (by simp [hp])) hP'
    simp only [List.foldl_cons, List.map_cons]
    rw [← insertP_fst, ← insertP_snd P z (fun p hp => hc z hz p (hP p hp))]
    exact ⟨h1, h2, h3⟩

/-- both components are sorted by one and the same list of pairs -/
theorem sort_pairs (Z : List (Range × Range)) (hc : Compat Z) :
    ∃ Zs : List (Range × Range), (∀ p ∈ Zs, p ∈ Z) ∧
      sortAccepted (Z.map (·.1)) = Zs.map (·.1) ∧ sortAccepted (Z.map (·.2)) = Zs.map (·.2) := by
  obtain ⟨h1, h2, h3⟩ := foldl_insertP Z Z [] hc (fun _ h => h) (by simp)
  exact ⟨Z.foldl insertP [], h3, h1.symm, h2.symm⟩

theorem findOffer_pairs (acc : Bytes → Bytes → Params → Bool) (Zs : List (Range × Range)) (offers : List Bytes)
    (h : ∀ p ∈ Zs, samePair p) : findOffer acc (Zs.map (·.1)) offers = findOffer acc (Zs.map (·.2)) offers := by
  induction Zs with
  | nil => rfl
  | cons p ps ih =>
    have hp := h p (by simp)
    unfold samePair at hp
    have e1 : p.2.spec = p.1.spec := by rw [hp]
    have e2 : p.2.params = p.1.params := by rw [hp]
    simp only [List.map_cons, findOffer, e1, e2]
    rw [ih fun q hq => h q (by simp [hq])]

/-- the search over the sorted parsed ranges does not see the list elements with weight 0 -/
theorem findOffer_sorted_filter_live (tab : Bytes → Option Qual) (acc : Bytes → Bytes → Params → Bool)
    (as : List Bytes) (offers : List Bytes) :
    findOffer acc (sortAccepted (parseRangesFrom tab as 0)) offers =
      findOffer acc (sortAccepted (parseRangesFrom tab (as.filter (live tab)) 0)) offers := by
  obtain ⟨Zs, hmem, hs1, hs2⟩ := sort_pairs (pairFrom tab as 0 0) (pairFrom_compat tab as 0 0)
  rw [← pairFrom_fst tab as 0 0, ← pairFrom_snd tab as 0 0, hs1, hs2]
  exact findOffer_pairs acc Zs offers fun p hp => ((pairFrom_props tab as 0 0).1 p (hmem p hp)).1

/-! ### cutting a list element off the front of a header -/

/-- a list element as `forEachMediaRange` sees it: it does not start with optional whitespace, its
    quoted-strings are closed and no comma stands outside them -/
def balanced (e : Bytes) : Bool :=
  match e with
  | [] => false
  | c :: _ => !isOWSb c && bodyRun e false false == some (false, false)

theorem mediaRanges_cons (e h : Bytes) (he : balanced e = true) :
    mediaRanges (e ++ 44 :: h) = e :: mediaRanges h := by
  cases e with
  | nil => simp [balanced] at he
  | cons c cs =>
    simp only [balanced, Bool.and_eq_true, Bool.not_eq_true', beq_iff_eq] at he
    obtain ⟨hc, hrun⟩ := he
    simp only [bodyRun] at hrun
    unfold mediaRanges
    simp only [List.cons_append, rangesGo, hc, Bool.false_eq_true, if_false]
    cases hb : bodyStep c false false with
    | emit => rw [hb] at hrun; cases hrun
    | cont o e1 =>
      rw [hb] at hrun
      simp only at hrun ⊢
      rw [rangesGo_body cs (44 :: h) [c] o e1 false false hrun]
      simp [rangesGo, bodyStep]

end C09
