import FiberModel.C09.Model
/-
C09 — the property as an executable specification.

"Syntactically valid Accept-style headers from the RFC grammar" are given by an abstract syntax
(`Elem`, `Param`) with a renderer (`render`): RFC 9110 §12.5.1 / §5.6.1 / §5.6.6

    header     = #element                      ; comma separated, empty elements allowed
    element    = OWS range *( OWS ";" OWS [ parameter ] ) OWS
    parameter  = name "=" ( token / quoted-string )
    weight     = the first parameter named "q" / "Q", its value a qvalue
    OWS        = *( SP / HTAB )

The meaning of a header (`denote`) is read off the syntax tree, not parsed from bytes. The selection
rule of the property sentence is `select`: among the ranges with q ≠ 0 that accept some offer take
the greatest under (q, specificity, number of parameters, position) and return the first offer it
accepts.
-/
namespace C09
open B

/-! ### abstract syntax and its rendering -/

structure Param where
  ows1 : Bytes            -- OWS before the `;`
  ows2 : Bytes            -- OWS after the `;`
  name : Bytes            -- `[]` = empty parameter (only the `;`)
  quoted : Bool
  value : Bytes           -- token, or the content of the quoted-string as written
  deriving Repr, DecidableEq

structure Elem where
  lead : Bytes            -- OWS before the range
  rng : Bytes             -- `[]` = empty list element
  params : List Param
  trail : Bytes           -- OWS before the `,` / the end
  deriving Repr, DecidableEq

def renderParam (p : Param) : Bytes :=
  p.ows1 ++ [59] ++ p.ows2 ++
    (if p.name == [] then [] else p.name ++ [61] ++ (if p.quoted then [34] ++ p.value ++ [34] else p.value))

def renderParams (ps : List Param) : Bytes := (ps.map renderParam).flatten

def renderElem (e : Elem) : Bytes := e.lead ++ e.rng ++ renderParams e.params ++ e.trail

def render (es : List Elem) : Bytes := join (es.map renderElem) [44]

/-! ### well-formedness (the RFC grammar) -/

def isOWS (s : Bytes) : Bool := s.all fun c => c == 32 || c == 9
def isToken (s : Bytes) : Bool := s != [] && s.all tchar
/-- range: `type "/" subtype`, `type "/*"`, `"*/*"`, or a single token (charset, coding, language);
    `/` is not a token byte, so the part after the first `/` contains no further one -/
def isRange (s : Bytes) : Bool :=
  let t := s.takeWhile (· != 47)
  match s.drop t.length with
  | [] => isToken t
  | _ :: u => isToken t && isToken u

/-- `qdtext` -/
def qdtext (c : Nat) : Bool := c == 9 || c == 32 || c == 33 || (35 ≤ c && c ≤ 91) || (93 ≤ c && c ≤ 126) || (128 ≤ c && c ≤ 255)
/-- second byte of a `quoted-pair` -/
def qpchar (c : Nat) : Bool := c == 9 || (32 ≤ c && c ≤ 126) || (128 ≤ c && c ≤ 255)

/-- content of a quoted-string: `*( qdtext / quoted-pair )` -/
def isQuotedContent : Bytes → Bool
  | [] => true
  | 92 :: c :: rest => qpchar c && isQuotedContent rest
  | c :: rest => qdtext c && isQuotedContent rest

/-- `qvalue = ( "0" [ "." 0*3DIGIT ] ) / ( "1" [ "." 0*3("0") ] )` and its value -/
def qvalue? : Bytes → Option Qual
  | [48] => some (.fin 0 0)
  | [49] => some (.fin 1 0)
  | 48 :: 46 :: ds => if ds.length ≤ 3 && ds.all isDigit then some (.fin (digitsVal ds) ds.length) else none
  | 49 :: 46 :: ds => if ds.length ≤ 3 && ds.all (· == 48) then some (.fin (10 ^ ds.length) ds.length) else none
  | _ => none

def isWeight (p : Param) : Bool := toLower p.name == [113]

def wfParam (p : Param) : Bool :=
  isOWS p.ows1 && isOWS p.ows2 &&
  (if p.name == [] then !p.quoted && p.value == []
   else isToken p.name &&
     (if isWeight p then !p.quoted && (qvalue? p.value).isSome
      else if p.quoted then isQuotedContent p.value else isToken p.value))

/-- media parameters: the non-empty parameters before the weight -/
def mediaParams : List Param → List Param
  | [] => []
  | p :: ps => if isWeight p then [] else if p.name == [] then mediaParams ps else p :: mediaParams ps

def weightOf (ps : List Param) : Option Param := ps.find? isWeight

def wfElem (e : Elem) : Bool :=
  isOWS e.lead && isOWS e.trail &&
  (if e.rng == [] then e.params == [] else isRange e.rng) &&
  e.params.all wfParam

/-- the header is in the RFC grammar -/
def wf (es : List Elem) : Bool := es.all wfElem

/-! ### meaning of a header -/

/-- a range of the header with everything the selection rule looks at -/
structure SRange where
  spec : Bytes
  q : Qual
  params : Params        -- (lower-cased name, value as written)
  pos : Nat
  deriving Repr, DecidableEq

/-- the media parameters of a range as a map from lower-cased names to values: the grammar does not
    forbid a repeated name; then the name keeps its first place, takes its last value and counts once
    (fiber documents this for `paramsMatch`, following Express' `res.format`) -/
def paramMap (ps : List Param) : Params :=
  ps.foldl (fun m p => mapInsert m (toLower p.name) p.value) []

def denoteElem (e : Elem) (pos : Nat) : Option SRange :=
  if e.rng == [] then none else
  let q := match weightOf e.params with
    | some w => (qvalue? w.value).getD .one
    | none => .one
  if q.isZero then none
  else some { spec := e.rng, q := q, params := paramMap (mediaParams e.params), pos := pos }

def denoteFrom : List Elem → Nat → List SRange
  | [], _ => []
  | e :: es, n => match denoteElem e n with
    | none => denoteFrom es (n + 1)
    | some r => r :: denoteFrom es (n + 1)

/-- the ranges of the header that can select an offer (q = 0 removed), in header order; `pos` is the
    1-based index of the list element -/
def denote (es : List Elem) : List SRange := denoteFrom es 1

/-! ### the selection rule -/

/-- `a` is strictly preferred to `b`: quality, then specificity, then number of parameters, then
    position -/
def pref (a b : SRange) : Bool :=
  b.q.lt a.q ||
  (a.q.eq b.q &&
    (specificity b.spec < specificity a.spec ||
     (specificity a.spec == specificity b.spec &&
       (b.params.length < a.params.length ||
        (a.params.length == b.params.length && a.pos < b.pos)))))

/-- the first offer acceptable to range `r` -/
def firstAcceptable (acc : SRange → Bytes → Bool) (r : SRange) (offers : List Bytes) : Option Bytes :=
  offers.find? fun o => o != [] && acc r o

/-- greatest element under `pref` by a linear scan -/
def best : List SRange → Option SRange
  | [] => none
  | r :: rs => match best rs with
    | none => some r
    | some m => if pref m r then some m else some r

/-- the property's selection rule -/
def select (acc : SRange → Bytes → Bool) (ranges : List SRange) (offers : List Bytes) : Bytes :=
  match best (ranges.filter fun r => (firstAcceptable acc r offers).isSome) with
  | none => []
  | some r => (firstAcceptable acc r offers).getD []

/-- every parameter of the range is present in the offer (case-insensitive names and values) -/
def paramsPresent (rp : Params) (offerParams : Params) : Bool :=
  rp.all fun (k, v) => offerParams.any fun (k', v') => equalFold k k' && equalFold v v'

/-- media type of an offer: the offer itself, or `utils.GetMIME` of an extension -/
def offerMime (mime : Bytes → Bytes) (offer : Bytes) : Bytes :=
  let m := (splitOffer offer).1
  if m.contains 47 then m else mime m

/-- a range names a media type: `*/*`, equality, or a `type/*` wildcard on either side -/
def typeMatches (spec mt : Bytes) : Bool :=
  spec == b "*/*" || spec == mt ||
  match indexByte mt 47 with
  | none => false
  | some s => hasPrefix spec (mt.take s) && (spec.drop s == b "/*" || mt.drop s == b "/*")

/-- acceptability for `Accept` -/
def accMedia (mime : Bytes → Bytes) (r : SRange) (offer : Bytes) : Bool :=
  typeMatches r.spec (offerMime mime offer) && paramsPresent r.params (visitParams (splitOffer offer).2)

/-- acceptability for `Accept-Charset / -Encoding / -Language`: `*`, or the offer is a prefix of the
    range (`en-US` accepts the offer `en`) -/
def accToken (r : SRange) (offer : Bytes) : Bool :=
  r.spec.getLast? == some 42 || hasPrefix r.spec offer

/-! ### the oracle evaluated on an observation -/

inductive Kind where
  | accept | token
  deriving DecidableEq, Repr

def accOf (mime : Bytes → Bytes) : Kind → SRange → Bytes → Bool
  | .accept => accMedia mime
  | .token => accToken

/-- what `Accepts*` must return for a header in the grammar -/
def expected (mime : Bytes → Bytes) (k : Kind) (es : List Elem) (offers : List Bytes) : Bytes :=
  match offers with
  | [] => []
  | o0 :: _ => if render es == [] then o0 else select (accOf mime k) (denote es) offers

/-- "returns one of the offers or nothing" -/
def memberOK (offers : List Bytes) (r : Bytes) : Bool := r == [] || offers.contains r

/-- the property for `Accepts*` on one observation: first failing clause, or `none`.
    `ast = none`: the header is not from the grammar (totality and membership only). -/
def specViolationAccepts (mime : Bytes → Bytes) (k : Kind) (ast : Option (List Elem)) (header : Bytes)
    (offers : List Bytes) (result : Option Bytes) : Option String :=
  match result with
  | none => some "totality"
  | some r =>
    if !memberOK offers r then some "result-is-offer-or-empty"
    else if header == [] then (if r == offers.headD [] then none else some "absent-header-first-offer")
    else match ast with
      | none => none
      | some es => if r == expected mime k es offers then none else some "selection"

/-- the property for `Format` -/
def specViolationFormat (mime : Bytes → Bytes) (ast : Option (List Elem)) (header : Bytes)
    (types : List Bytes) (o : Option FormatObs) : Option String :=
  match o with
  | none => some "totality"
  | some o =>
    if types == [] then none
    else if header == [] then
      (if o.handler == some 0 && o.status == 200 && o.ctype == ctOf (types.headD []) then none
       else some "absent-header-first-offer")
    else
      match o.handler with
      | none => if o.status == 406 && !types.contains sDefault then
                  (match ast with
                   | some es => if expected mime .accept es (types.filter (· != sDefault)) == [] then none else some "format-406"
                   | none => none)
                else some "format-406"
      | some i =>
        match types[i]? with
        | none => some "result-is-offer-or-empty"
        | some t =>
          if o.status != 200 then some "format-status"
          else match ast with
            | none => none
            | some es =>
              let sel := expected mime .accept es (types.filter (· != sDefault))
              if sel == [] then (if t == sDefault then none else some "selection")
              else if t == sel && types.findIdx? (· == sel) == some i && o.ctype == sel then none
              else some "selection"

end C09
