import FiberModel.C09.Spec
namespace C09
open B

theorem findOffer_mem (acc : Bytes → Bytes → Params → Bool) (rs : List Range) (offers : List Bytes) :
    findOffer acc rs offers = [] ∨ findOffer acc rs offers ∈ offers := by
  induction rs with
  | nil => simp [findOffer]
  | cons r rs ih =>
    unfold findOffer
    split
    · rename_i o h; right; exact List.mem_of_find?_eq_some h
    · exact ih

/-- `Accepts*` return one of the offers or nothing. -/
theorem result_is_offer_or_empty (tab : Bytes → Option Qual) (acc : Bytes → Bytes → Params → Bool)
    (header : Bytes) (offers : List Bytes) :
    getOffer tab acc header offers = [] ∨ getOffer tab acc header offers ∈ offers := by
  unfold getOffer
  cases offers with
  | nil => simp
  | cons o0 os =>
    simp only
    split
    · right; simp
    · exact findOffer_mem _ _ _

end C09
