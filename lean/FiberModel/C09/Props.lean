import FiberModel.C09.RawLemmas
/-
C09 — property theorems (only). Helper lemmas: SortLemmas, SelectLemmas, ParseLemmas, SplitLemmas,
VisitLemmas, ElemLemmas, RoundTrip, MediaLemmas, RawLemmas.

Quantifiers: every header (`Bytes`, a superset of byte strings), every offer list, every
acceptability predicate `acc` (Go's `isAccepted` argument), every `ParseFloat` table `tab` and
`GetMIME` table `mime`.
-/
namespace C09
open B

/-! ### the sort -/

/-- `sortAcceptedTypes` (binary insertion as written) returns a permutation of its input that is
    sorted by the strict 4-key order (quality desc, specificity desc, #params desc, position asc):
    every element is strictly preferred to every later one. Hypotheses: qualities are finite
    (no NaN/Inf) and positions are pairwise distinct — both hold for what `getOffer` builds. -/
theorem sort_is_sorted_perm {E : Nat} (l : List Range) (hok : AllOk E l)
    (hd : l.Pairwise fun a c => a.order ≠ c.order) :
    (sortAccepted l).Perm l ∧ (sortAccepted l).Pairwise (fun a c => after c a = true) := by
  refine ⟨sortAccepted_perm l, ?_⟩
  have := foldl_sorted (E := E) l [] (by intro r hr; simp at hr) hok (by simp [Sorted]) (by simpa using hd)
  simpa [sortAccepted, Sorted] using this

/-- the binary search returns the insertion point on a sorted prefix: everything before it is
    preferred to `x`, nothing from it on is -/
theorem bsearch_is_insertion_point {E : Nat} (pre : List Range) (x : Range) (hok : AllOk E pre) (hx : x.ok E)
    (hs : pre.Pairwise fun a c => after c a = true) :
    (∀ m ∈ pre.take (bsearch pre x (pre.length + 1) 0 pre.length), after x m = true) ∧
    (∀ m ∈ pre.drop (bsearch pre x (pre.length + 1) 0 pre.length), after x m = false) := by
  obtain ⟨_, h1, h2⟩ := bsearch_spec pre x hok hx hs
  refine ⟨fun m hm => (after_iff hx (hok m (List.mem_of_mem_take hm))).2 (h1 m hm), fun m hm => ?_⟩
  have := h2 m hm
  rw [← after_iff hx (hok m (List.mem_of_mem_drop hm))] at this
  simpa using this

-- non-vacuity: three ranges, equal quality 0.5 twice (written 0.5 and 0.50), distinct positions
example :
    let r1 : Range := { spec := b "text/*", q := .fin 5 1, spcf := 2, params := [], order := 1 }
    let r2 : Range := { spec := b "text/html", q := .fin 50 2, spcf := 3, params := [], order := 2 }
    let r3 : Range := { spec := b "*/*", q := .fin 1 0, spcf := 1, params := [], order := 3 }
    AllOk 2 [r1, r2, r3] ∧ ([r1, r2, r3].Pairwise fun a c => a.order ≠ c.order) ∧
    sortAccepted [r1, r2, r3] = [r3, r2, r1] := by
  refine ⟨?_, by decide, by decide⟩
  intro r hr
  simp only [List.mem_cons, List.not_mem_nil, or_false] at hr
  rcases hr with rfl | rfl | rfl <;> exact ⟨rfl, by decide⟩

/-! ### selection -/

/-- `getOffer_eq_select`, stated with what it really needs: the parsed qualities are finite -/
theorem getOffer_eq_select_fin (tab : Bytes → Option Qual) (acc : Bytes → Bytes → Params → Bool)
    (header : Bytes) (offers : List Bytes) (hh : header ≠ []) (ho : offers ≠ [])
    (hfin : ∀ r ∈ parseRanges tab header, r.q.isFin = true) :
    getOffer tab acc header offers = select (accS acc) ((parseRanges tab header).map toS) offers := by
  obtain ⟨o0, os, rfl⟩ := List.exists_cons_of_ne_nil ho
  have hprops := parseRangesFrom_props tab (mediaRanges header) 0
  let rs := parseRanges tab header
  let E := (rs.map fun r => expOf r.q).sum
  have hok : AllOk E rs := fun r hr => ⟨hfin r hr, expOf_le_sum hr⟩
  have hsp : ∀ r ∈ rs, r.spcfOK := fun r hr => (hprops.1 r hr).2.1
  have hd : rs.Pairwise fun a c => a.order ≠ c.order := hprops.2.imp fun h => Nat.ne_of_lt h
  have key := findOffer_sorted_eq_select acc rs (o0 :: os) hok hsp hd
  unfold getOffer
  simp only [beq_iff_eq, hh, if_false]
  show findOffer acc (if rs.length > 1 then sortAccepted rs else rs) (o0 :: os) = _
  by_cases hlen : rs.length > 1
  · simp only [hlen, if_true]; exact key
  · simp only [hlen, if_false]
    rw [sortAccepted_short rs hlen] at key
    exact key

/-- Level A of `getOffer_eq_spec`: for every non-empty header (arbitrary bytes) and offer list,
    `getOffer` (parse, binary-insertion sort, nested search) returns what the property's rule `select`
    (greatest accepting range under the 4-key order, its first acceptable offer) returns on the
    parsed ranges. `tabFinite`: `ParseFloat` yields no NaN/Inf on this header's q texts. -/
theorem getOffer_eq_select (tab : Bytes → Option Qual) (ht : tabFinite tab) (acc : Bytes → Bytes → Params → Bool)
    (header : Bytes) (offers : List Bytes) (hh : header ≠ []) (ho : offers ≠ []) :
    getOffer tab acc header offers = select (accS acc) ((parseRanges tab header).map toS) offers :=
  getOffer_eq_select_fin tab acc header offers hh ho
    (fun r hr => ((parseRangesFrom_props tab (mediaRanges header) 0).1 r hr).2.2.2 ht)

/-- what the property demands of `Accepts*` for a header of the grammar, with Go's `isAccepted` -/
def expectedWith (acc : Bytes → Bytes → Params → Bool) (es : List Elem) (offers : List Bytes) : Bytes :=
  match offers with
  | [] => []
  | o0 :: _ => if render es == [] then o0 else select (accS acc) (denote es) offers

/-- **`getOffer_eq_spec`** (header level, full strength): for EVERY header of the RFC 9110 grammar
    (`wf`: any ranges, parameters with token or quoted-string values incl. quoted-pairs / commas /
    semicolons, repeated parameter names, weights `q`/`Q`, accept-ext, empty list elements, empty
    parameters `;;` anywhere, optional whitespace SP / HTAB wherever the grammar allows it), every offer list and every
    `ParseFloat` table, `getOffer` on the rendered bytes returns the first offer acceptable to the
    most preferred range of the header's *meaning* (`denote`, read off the syntax tree; ranges with
    q = 0 removed) under (q desc, specificity desc, #params desc, position asc); an absent header
    selects the first offer. `hEmpty`: the predicate lets the empty range accept nothing. -/
theorem getOffer_eq_spec (tab : Bytes → Option Qual) (acc : Bytes → Bytes → Params → Bool)
    (es : List Elem) (offers : List Bytes)
    (hwf : wf es = true)
    (hEmpty : ∀ o ∈ offers, ∀ ps, o ≠ [] → acc [] o ps = false) :
    getOffer tab acc (render es) offers = expectedWith acc es offers := by
  unfold expectedWith
  cases offers with
  | nil => simp [getOffer]
  | cons o0 os =>
    by_cases hnil : render es = []
    · simp [hnil, getOffer]
    · have hnil' : (render es == []) = false := by simpa using hnil
      simp only [hnil', Bool.false_eq_true, if_false]
      have hs := strict_of_wf hwf
      obtain ⟨hp1, hp2⟩ := parse_render tab es hs false 0
      have hfin : ∀ r ∈ parseRanges tab (render es), r.q.isFin = true := by
        intro r hr
        by_cases hsp : r.spec = []
        · rw [hp2 r hr hsp]; rfl
        · have : r ∈ (parseRanges tab (render es)).filter (fun r => r.spec != []) := by
            rw [List.mem_filter]; exact ⟨hr, by simpa using hsp⟩
          have hp1' : (parseRanges tab (render es)).filter (fun r => r.spec != []) = (denoteFrom es 1).map fromS := hp1
          rw [hp1'] at this
          obtain ⟨d, hd, rfl⟩ := List.mem_map.1 this
          exact denoteFrom_fin es 1 d hd
      rw [getOffer_eq_select_fin tab acc (render es) (o0 :: os) hnil (by simp) hfin]
      unfold select
      have hbridge := filter_bridge (fun r => (firstAcceptable (accS acc) r (o0 :: os)).isSome)
        (parseRanges tab (render es)) (denoteFrom es 1) hp1 (by
          intro r hr hsp
          simp only [firstAcceptable, accS, toS, hsp]
          rw [Option.isSome_eq_false_iff, Option.isNone_iff_eq_none, List.find?_eq_none]
          intro o ho
          by_cases hoe : o = []
          · simp [hoe]
          · simp [hoe, hEmpty o ho r.params hoe])
      rw [hbridge]
      rfl

/-- the empty range accepts no offer under `acceptsOffer` -/
theorem acceptsOffer_empty (o : Bytes) (ps : Params) (ho : o ≠ []) : acceptsOffer [] o ps = false := by
  cases o with
  | nil => exact absurd rfl ho
  | cons c cs => simp [acceptsOffer, hasPrefix, List.isPrefixOf]

/-- `AcceptsCharsets / AcceptsEncodings / AcceptsLanguages` = the specification's `expected` -/
theorem accepts_token_eq_spec (tab : Bytes → Option Qual) (mime : Bytes → Bytes) (es : List Elem) (offers : List Bytes)
    (hwf : wf es = true) :
    getOffer tab acceptsOffer (render es) offers = expected mime .token es offers := by
  rw [getOffer_eq_spec tab acceptsOffer es offers hwf (fun o _ ps ho => acceptsOffer_empty o ps ho)]
  rfl

/-- acceptability for `Accept-Charset / -Encoding / -Language` as fiber defines it: the range ends in
    `*` (the wildcard `*`, but also `fr-*`), or the offer is a prefix of the range, compared byte by
    byte (case-sensitive). So the language range `en-US` accepts the offer `en`; the range `en` does
    not accept the offer `en-US`; `UTF-8` does not accept `utf-8`. The parameters of the range play no
    part. -/
theorem acceptsOffer_iff (spec offer : Bytes) (ps : Params) :
    acceptsOffer spec offer ps = true ↔ (spec.getLast? = some 42 ∨ ∃ t, offer ++ t = spec) := by
  unfold acceptsOffer hasPrefix
  simp only [Bool.or_eq_true, beq_iff_eq, List.isPrefixOf_iff_prefix]
  exact Iff.rfl

example : acceptsOffer (b "en-US") (b "en") [] = true ∧ acceptsOffer (b "en") (b "en-US") [] = false ∧
    acceptsOffer (b "UTF-8") (b "utf-8") [] = false ∧ acceptsOffer (b "*") (b "gzip") [] = true ∧
    acceptsOffer (b "fr-*") (b "de") [] = true ∧ acceptsOffer (b "gzip") (b "gzip") [(b "a", b "1")] = true := by decide

-- `Accept-Language: en-US , de;<HT>q=0.8, *;;q=0.1`: `da` is acceptable to the wildcard only, `de` to the
-- second range, `en` to the first; position in the offer list matters only within one range
example :
    let h := b "en-US , de;\tq=0.8, *;;q=0.1"
    getOffer (fun _ => none) acceptsOffer h [b "da", b "de", b "en"] = b "en" ∧
    getOffer (fun _ => none) acceptsOffer h [b "da", b "de"] = b "de" ∧
    getOffer (fun _ => none) acceptsOffer h [b "da", b "fr"] = b "da" ∧
    getOffer (fun _ => none) acceptsOffer (b "en;q=0, *;q=0") [b "da", b "en"] = [] := by decide

theorem firstAcceptable_congr (acc1 acc2 : SRange → Bytes → Bool) (offers : List Bytes)
    (h : ∀ r o, o ∈ offers → o ≠ [] → acc1 r o = acc2 r o) (r : SRange) :
    firstAcceptable acc1 r offers = firstAcceptable acc2 r offers := by
  unfold firstAcceptable
  induction offers with
  | nil => rfl
  | cons o os ih =>
    have hrec := ih (fun r o ho hne => h r o (by simp [ho]) hne)
    by_cases hoe : o = []
    · simp only [List.find?_cons, hoe, bne_self_eq_false, Bool.false_and]
      exact hrec
    · have := h r o (by simp) hoe
      simp only [List.find?_cons, this]
      rw [hrec]

theorem select_congr (acc1 acc2 : SRange → Bytes → Bool) (rs : List SRange) (offers : List Bytes)
    (h : ∀ r o, o ∈ offers → o ≠ [] → acc1 r o = acc2 r o) : select acc1 rs offers = select acc2 rs offers := by
  unfold select
  have := firstAcceptable_congr acc1 acc2 offers h
  simp only [this]

/-- `Accepts` (and `Format`'s negotiation) = the specification's `expected`, on offers whose media
    type is not empty / does not start with `/` and whose parameter names are not repeated -/
theorem accepts_media_eq_spec (tab : Bytes → Option Qual) (mime : Bytes → Bytes) (es : List Elem) (offers : List Bytes)
    (hwf : wf es = true)
    (hoff : ∀ o ∈ offers, o ≠ [] → offerSane mime o = true ∧ offerParamsDistinct o) :
    getOffer tab (acceptsOfferType mime) (render es) offers = expected mime .accept es offers := by
  rw [getOffer_eq_spec tab (acceptsOfferType mime) es offers hwf
    (fun o ho ps hne => acceptsOfferType_empty mime o ps (hoff o ho hne).1)]
  unfold expectedWith expected
  cases offers with
  | nil => rfl
  | cons o0 os =>
    simp only
    split
    · rfl
    · exact select_congr _ _ _ _ (fun r o ho hne => acceptsOfferType_eq_accMedia mime r o (hoff o ho hne).2)

-- the two former known findings (K1 HTAB as optional whitespace, K2 empty parameter), repaired in
-- /repo (F4, F5): their witnesses now meet the statement
example :
    getOffer (fun _ => none) (acceptsOfferType fun _ => [])
        (render [⟨[], b "text/html", [⟨[], [9], b "q", false, b "0"⟩], []⟩, ⟨[32], b "text/plain", [], []⟩])
        [b "text/html", b "text/plain"] = b "text/plain" := by decide

example :
    getOffer (fun _ => none) (acceptsOfferType fun _ => [])
        (render [⟨[], b "text/html", [⟨[], [], [], false, []⟩, ⟨[], [], b "q", false, b "0"⟩], []⟩, ⟨[32], b "text/plain", [], []⟩])
        [b "text/html", b "text/plain"] = b "text/plain" := by decide

-- non-vacuity of `getOffer_eq_spec`: `text/html<HT>;;<HT>q=0 , text/plain; ;a="x\\"y", */*;q=0.1` is in the
-- grammar (HTAB as OWS, empty parameters before the weight and before a media parameter, a quoted-pair);
-- text/html is refused by its own range but `*/*` accepts it (the property's rule), image/png comes second
example :
    let es : List Elem := [⟨[], b "text/html", [⟨[9], [], [], false, []⟩, ⟨[], [9], b "q", false, b "0"⟩], [32]⟩,
      ⟨[32], b "text/plain", [⟨[], [32], [], false, []⟩, ⟨[], [], b "a", true, [120, 92, 34, 121]⟩], []⟩,
      ⟨[32], b "*/*", [⟨[], [], b "q", false, b "0.1"⟩], []⟩]
    wf es = true ∧
    getOffer (fun _ => none) (acceptsOfferType fun _ => []) (render es) [b "image/png", b "text/html"] = b "image/png" ∧
    getOffer (fun _ => none) (acceptsOfferType fun _ => []) (render (es.take 2)) [b "text/html", b "image/png"] = [] ∧
    getOffer (fun _ => none) (acceptsOfferType fun _ => []) (render (es.take 2)) [b "text/plain;a=\"x\\\"y\""] =
      b "text/plain;a=\"x\\\"y\"" := by
  decide

-- repeated parameter names are in the grammar: the last value counts, once. `text/plain;a=1;A=2` is the
-- range `text/plain` with the one parameter a=2: it accepts `text/plain;a=2`, not `text/plain;a=1`, and
-- ties with `text/html;b=1` on the number of parameters (so position decides)
example :
    let es : List Elem := [⟨[], b "text/plain", [⟨[], [], b "a", false, b "1"⟩, ⟨[], [], b "A", false, b "2"⟩], []⟩,
      ⟨[], b "text/html", [⟨[], [], b "b", false, b "1"⟩], []⟩]
    wf es = true ∧ (denote es).map (·.params) = [[(b "a", b "2")], [(b "b", b "1")]] ∧
    getOffer (fun _ => none) (acceptsOfferType fun _ => []) (render es) [b "text/plain;a=1"] = [] ∧
    getOffer (fun _ => none) (acceptsOfferType fun _ => []) (render es) [b "text/html;b=1", b "text/plain;a=2"] =
      b "text/plain;a=2" := by
  decide

theorem best_mem {l : List SRange} {m : SRange} (h : best l = some m) : m ∈ l := by
  induction l generalizing m with
  | nil => simp [best] at h
  | cons r rs ih =>
    simp only [best] at h
    cases hb : best rs with
    | none => rw [hb] at h; cases h; simp
    | some m' =>
      rw [hb] at h
      simp only at h
      split at h
      · cases h; exact List.mem_cons_of_mem _ (ih hb)
      · cases h; simp

/-- whatever `select` returns was accepted by one of the ranges it was given -/
theorem select_sound (acc : SRange → Bytes → Bool) (rs : List SRange) (offers : List Bytes) (o : Bytes)
    (h : select acc rs offers = o) (ho : o ≠ []) : ∃ r ∈ rs, o ∈ offers ∧ acc r o = true := by
  unfold select at h
  cases hb : best (rs.filter fun r => (firstAcceptable acc r offers).isSome) with
  | none => rw [hb] at h; exact absurd h.symm ho
  | some r =>
    rw [hb] at h
    simp only at h
    have hm := best_mem hb
    rw [List.mem_filter] at hm
    obtain ⟨o', ho'⟩ := Option.isSome_iff_exists.1 hm.2
    rw [ho'] at h
    simp only [Option.getD_some] at h
    subst h
    unfold firstAcceptable at ho'
    have h1 := List.find?_some ho'
    simp only [Bool.and_eq_true] at h1
    exact ⟨r, hm.1, List.mem_of_find?_eq_some ho', h1.2⟩

theorem denoteFrom_nonzero (es : List Elem) (n : Nat) : ∀ s ∈ denoteFrom es n, s.q.isZero = false := by
  induction es generalizing n with
  | nil => intro s h; simp [denoteFrom] at h
  | cons e es ih =>
    intro s h
    simp only [denoteFrom] at h
    cases hd : denoteElem e n with
    | none => rw [hd] at h; exact ih _ s h
    | some d =>
      rw [hd] at h
      rcases List.mem_cons.1 h with rfl | h
      · unfold denoteElem at hd
        by_cases hr : e.rng = []
        · simp [hr] at hd
        · have hr' : (e.rng == []) = false := by simpa using hr
          simp only [hr', Bool.false_eq_true, if_false, Option.ite_none_left_eq_some, Option.some.injEq] at hd
          obtain ⟨hz, hs⟩ := hd
          rw [← hs]; simpa using hz
      · exact ih _ s h

/-- **`q0_never_selected`** (header level): on every header of the grammar, whatever
    `getOffer` selects is an offer accepted by a range of the header whose weight is not 0 — a
    range sent with `q=0` (in any of the spellings `0`, `0.0`, `0.00`, `0.000`, with `q`/`Q`, with any
    optional whitespace around `;` and before the comma) never selects an offer. -/
theorem q0_never_selected (tab : Bytes → Option Qual) (acc : Bytes → Bytes → Params → Bool)
    (es : List Elem) (offers : List Bytes) (o : Bytes)
    (hwf : wf es = true)
    (hEmpty : ∀ o ∈ offers, ∀ ps, o ≠ [] → acc [] o ps = false)
    (hne : render es ≠ []) (ho : o ≠ []) (h : getOffer tab acc (render es) offers = o) :
    ∃ r ∈ denote es, r.q.isZero = false ∧ o ∈ offers ∧ acc r.spec o r.params = true := by
  rw [getOffer_eq_spec tab acc es offers hwf hEmpty] at h
  unfold expectedWith at h
  cases offers with
  | nil => exact absurd h.symm ho
  | cons o0 os =>
    have hne' : (render es == []) = false := by simpa using hne
    simp only [hne', Bool.false_eq_true, if_false] at h
    obtain ⟨r, hr, hmem, hacc⟩ := select_sound _ _ _ _ h ho
    exact ⟨r, hr, denoteFrom_nonzero es 1 r hr, hmem, hacc⟩

-- the repaired defect F1 as an instance: `text/html;q=0 , text/plain` no longer selects text/html
example : getOffer (fun _ => none) (acceptsOfferType fun _ => []) (b "text/html;q=0 , text/plain")
    [b "text/html", b "text/plain"] = b "text/plain" := by decide

/-- `Accepts*` return one of the offers or nothing — for arbitrary bytes, any tables. -/
theorem result_is_offer_or_empty (tab : Bytes → Option Qual) (acc : Bytes → Bytes → Params → Bool)
    (header : Bytes) (offers : List Bytes) :
    getOffer tab acc header offers = [] ∨ getOffer tab acc header offers ∈ offers := by
  unfold getOffer
  cases offers with
  | nil => simp
  | cons o0 os =>
    simp only
    split
    · right; simp
    · generalize (if (parseRanges tab header).length > 1 then sortAccepted (parseRanges tab header)
        else parseRanges tab header) = L
      induction L with
      | nil => simp [findOffer]
      | cons r rs ih =>
        unfold findOffer
        split
        · rename_i o h; right; exact List.mem_of_find?_eq_some h
        · exact ih

/-- a range whose quality parses to zero never reaches the sort or the search -/
theorem q0_never_candidate (tab : Bytes → Option Qual) (header : Bytes) :
    ∀ r ∈ parseRanges tab header, r.q.isZero = false :=
  fun r hr => ((parseRangesFrom_props tab (mediaRanges header) 0).1 r hr).2.2.1

/-! ### arbitrary header bytes, arbitrary `ParseFloat` verdicts (NaN and Inf included) -/

/-- whatever `getOffer` returns for a present header — ANY bytes, ANY `ParseFloat` table — was
    accepted by a range that was parsed from a list element of the header and whose weight is not 0 -/
theorem result_accepted_by_live_range (tab : Bytes → Option Qual) (acc : Bytes → Bytes → Params → Bool)
    (header : Bytes) (offers : List Bytes) (o : Bytes) (hh : header ≠ []) (ho : o ≠ [])
    (h : getOffer tab acc header offers = o) :
    ∃ r ∈ parseRanges tab header, (∃ a ∈ mediaRanges header, ∃ n, parseElem tab a n = some r) ∧
      r.q.isZero = false ∧ o ∈ offers ∧ acc r.spec o r.params = true := by
  cases offers with
  | nil => exact absurd (by simpa [getOffer] using h.symm) ho
  | cons o0 os =>
    rw [getOffer_eq_findOffer tab acc header o0 os hh] at h
    obtain ⟨r, hr, hmem, hacc⟩ := findOffer_sound acc _ _ o h ho
    have hr' := mem_candidates.1 hr
    exact ⟨r, hr', mem_parseRangesFrom hr', q0_never_candidate tab header r hr', hmem, hacc⟩

/-- **an offer matched only by ranges with weight 0 is never returned** — any bytes, any table: if
    every list element of the header either carries the weight 0 (`parseElem = none`) or does not accept
    the offer `o`, then `getOffer` does not return `o` -/
theorem offer_matched_only_by_q0_never_returned (tab : Bytes → Option Qual) (acc : Bytes → Bytes → Params → Bool)
    (header : Bytes) (offers : List Bytes) (o : Bytes) (hh : header ≠ []) (ho : o ≠ [])
    (hq : ∀ a ∈ mediaRanges header, ∀ n r, parseElem tab a n = some r → acc r.spec o r.params = false) :
    getOffer tab acc header offers ≠ o := by
  intro h
  obtain ⟨r, _, ⟨a, ha, n, hp⟩, _, _, hacc⟩ := result_accepted_by_live_range tab acc header offers o hh ho h
  rw [hq a ha n r hp] at hacc
  cases hacc

-- non-vacuity: the only range that accepts text/html carries q=0 (spelled `Q=0.000`, after an empty
-- parameter and a HTAB); raw bytes follow that are not in the grammar
example : getOffer (fun _ => none) (acceptsOfferType fun _ => []) (b "text/html;;\tQ=0.000, text/plain;q=\"x, =;;")
    [b "text/html", b "text/plain"] = b "text/plain" := by decide

/-- completeness of the search — any bytes, any table: if some parsed range (weight not 0) accepts some
    non-empty offer, `getOffer` selects an offer (it never answers "nothing acceptable" wrongly) -/
theorem some_offer_when_a_live_range_accepts (tab : Bytes → Option Qual) (acc : Bytes → Bytes → Params → Bool)
    (header : Bytes) (offers : List Bytes) (hh : header ≠ [])
    (h : ∃ r ∈ parseRanges tab header, ∃ o ∈ offers, o ≠ [] ∧ acc r.spec o r.params = true) :
    getOffer tab acc header offers ≠ [] := by
  cases offers with
  | nil => obtain ⟨_, _, o, ho, _⟩ := h; simp at ho
  | cons o0 os =>
    rw [getOffer_eq_findOffer tab acc header o0 os hh]
    apply findOffer_complete
    obtain ⟨r, hr, rest⟩ := h
    exact ⟨r, mem_candidates.2 hr, rest⟩

/-- **monotonicity in the weight-0 ranges** — any bytes, any table (the sort need not even produce a
    sorted list when NaN is around): the result depends only on the sequence of list elements that do
    not carry the weight 0. Two present headers whose list elements agree after the weight-0 ones are
    removed select the same offer; so removing (or adding) a range with q=0 anywhere never changes the
    result. -/
theorem getOffer_ignores_q0_elements (tab : Bytes → Option Qual) (acc : Bytes → Bytes → Params → Bool)
    (h h' : Bytes) (offers : List Bytes) (hh : h ≠ []) (hh' : h' ≠ [])
    (heq : (mediaRanges h).filter (live tab) = (mediaRanges h').filter (live tab)) :
    getOffer tab acc h offers = getOffer tab acc h' offers := by
  cases offers with
  | nil => simp [getOffer]
  | cons o0 os =>
    rw [getOffer_eq_findOffer tab acc h o0 os hh, getOffer_eq_findOffer tab acc h' o0 os hh',
      candidates_eq_sorted, candidates_eq_sorted]
    unfold parseRanges
    rw [findOffer_sorted_filter_live tab acc (mediaRanges h), findOffer_sorted_filter_live tab acc (mediaRanges h'), heq]

/-- byte-level instance: a list element with weight 0 in front of a present header is irrelevant.
    `balanced e`: `e` does not start with optional whitespace, its quoted-strings are closed and it has
    no comma outside them (so `forEachMediaRange` cuts right behind it) -/
theorem q0_range_in_front_irrelevant (tab : Bytes → Option Qual) (acc : Bytes → Bytes → Params → Bool)
    (e h : Bytes) (offers : List Bytes) (he : balanced e = true) (hq : live tab e = false) (hh : h ≠ []) :
    getOffer tab acc (e ++ 44 :: h) offers = getOffer tab acc h offers := by
  apply getOffer_ignores_q0_elements tab acc _ _ offers (by simp) hh
  rw [mediaRanges_cons e h he]
  simp [hq]

-- non-vacuity: `text/html;a="x,y";q=0` is balanced and carries the weight 0
example : balanced (b "text/html;a=\"x,y\";q=0") = true ∧ live (fun _ => none) (b "text/html;a=\"x,y\";q=0") = false := by
  decide

/-- an absent (or empty) header selects the first offer -/
theorem absent_header_first_offer (tab : Bytes → Option Qual) (acc : Bytes → Bytes → Params → Bool)
    (o0 : Bytes) (os : List Bytes) : getOffer tab acc [] (o0 :: os) = o0 := by
  simp [getOffer]

/-! ### parameters -/

theorem paramsMatch_present (sp : Params) (op : Bytes) (h : paramsMatch sp op = true) :
    paramsPresent sp (visitParams op) = true := by
  unfold paramsMatch at h
  unfold paramsPresent
  simp only [List.all_eq_true] at h ⊢
  intro kv hkv
  have := h kv hkv
  obtain ⟨k, v⟩ := kv
  simp only at this ⊢
  split at this
  · rename_i p hp
    rw [List.any_eq_true]
    refine ⟨p, List.mem_of_find?_eq_some hp, ?_⟩
    have hk := List.find?_some hp
    simp [hk, this]
  · cases this

/-- media-type parameters of an accepting range are all present in the offer
    (names and values compared ASCII case-insensitively) -/
theorem range_params_subset_of_offer (mime : Bytes → Bytes) (spec offer : Bytes) (sp : Params)
    (h : acceptsOfferType mime spec offer sp = true) :
    paramsPresent sp (visitParams (splitOffer offer).2) = true := by
  unfold acceptsOfferType at h
  simp only at h
  apply paramsMatch_present
  repeat' split at h
  all_goals first | exact h | exact Bool.noConfusion h

-- non-vacuity: `text/plain;a=1` accepts the offer `text/plain;b=2;A=1`, not `text/plain;b=2`
example : acceptsOfferType (fun _ => []) (b "text/plain") (b "text/plain;b=2;A=1") [(b "a", b "1")] = true := by decide
example : acceptsOfferType (fun _ => []) (b "text/plain") (b "text/plain;b=2") [(b "a", b "1")] = false := by decide

/-! ### Format -/

/-- `Format` answers 406 exactly when there are handlers, the header is present, no handler is a
    "default" and negotiation over the handlers' media types selects nothing; and then no handler runs -/
theorem format_406 (tab : Bytes → Option Qual) (mime : Bytes → Bytes) (header : Bytes) (types : List Bytes) :
    (format tab mime header types).status = 406 ↔
      (types ≠ [] ∧ header ≠ [] ∧ ¬ sDefault ∈ types ∧
       getOffer tab (acceptsOfferType mime) header (types.filter (· != sDefault)) = []) := by
  unfold format
  cases types with
  | nil => simp
  | cons t0 ts =>
    simp only
    by_cases hh : header = []
    · simp [hh]
    · by_cases ha : getOffer tab (acceptsOfferType mime) header (List.filter (· != sDefault) (t0 :: ts)) = []
      · cases hl : lastIndexOf (t0 :: ts) sDefault with
        | none =>
          have := (lastIndexOf_none_iff _ _).1 hl
          simp [hh, ha, this]
        | some i =>
          have : sDefault ∈ (t0 :: ts) := by
            have h2 := lastIndexOf_none_iff (t0 :: ts) sDefault
            rw [hl] at h2
            by_cases hm : sDefault ∈ (t0 :: ts)
            · exact hm
            · exact absurd (h2.2 hm) (by simp)
          simp [hh, ha, this]
      · simp only [beq_iff_eq, hh, ha, if_false]
        constructor
        · intro h; split at h <;> simp at h
        · intro h; exact h.2.2.2.elim

/-- no handler runs when `Format` answers 406 -/
theorem format_406_no_handler (tab : Bytes → Option Qual) (mime : Bytes → Bytes) (header : Bytes) (types : List Bytes)
    (h : (format tab mime header types).status = 406) : (format tab mime header types).handler = none := by
  unfold format at h ⊢
  cases types with
  | nil => rfl
  | cons t0 ts =>
    simp only at h ⊢
    repeat' split at h
    all_goals first | (simp at h; done) | skip
    all_goals (repeat' split) <;> simp_all

/-- `Format` for ARBITRARY header bytes and tables, at least one handler: it never reports an error, and
    either answers 406 without running a handler, or runs exactly the handler with a listed index and
    answers 200 -/
theorem format_runs_listed_handler_or_406 (tab : Bytes → Option Qual) (mime : Bytes → Bytes) (header : Bytes)
    (types : List Bytes) (hne : types ≠ []) :
    (format tab mime header types).err = false ∧
    (((format tab mime header types).status = 406 ∧ (format tab mime header types).handler = none) ∨
     ((format tab mime header types).status = 200 ∧
        ∃ i, (format tab mime header types).handler = some i ∧ i < types.length)) := by
  cases types with
  | nil => exact absurd rfl hne
  | cons t0 ts =>
    unfold format
    simp only
    by_cases hh : header = []
    · simp [hh]
    · simp only [beq_iff_eq, hh, if_false]
      by_cases ha : getOffer tab (acceptsOfferType mime) header (List.filter (· != sDefault) (t0 :: ts)) = []
      · simp only [ha, if_true]
        cases hl : lastIndexOf (t0 :: ts) sDefault with
        | none => simp
        | some i =>
          have hg := lastIndexOf_get hl
          have hlt : i < (t0 :: ts).length := (List.getElem?_eq_some_iff.1 hg).1
          exact ⟨rfl, Or.inr ⟨rfl, i, rfl, hlt⟩⟩
      · simp only [ha, if_false]
        have hmem : getOffer tab (acceptsOfferType mime) header (List.filter (· != sDefault) (t0 :: ts)) ∈ t0 :: ts := by
          rcases result_is_offer_or_empty tab (acceptsOfferType mime) header (List.filter (· != sDefault) (t0 :: ts)) with h | h
          · exact absurd h ha
          · exact (List.mem_filter.1 h).1
        cases hf : List.findIdx? (· == getOffer tab (acceptsOfferType mime) header (List.filter (· != sDefault) (t0 :: ts))) (t0 :: ts) with
        | none =>
          exfalso
          rw [List.findIdx?_eq_none_iff] at hf
          have := hf _ hmem
          simp at this
        | some i =>
          obtain ⟨hlt, _, _⟩ := List.findIdx?_eq_some_iff_getElem.1 hf
          exact ⟨rfl, Or.inr ⟨rfl, i, rfl, hlt⟩⟩

/-- `Format` on a header of the grammar dispatches as the property demands: the handler whose media
    type is the negotiated one (and that Content-Type), else a "default" handler, else 406 -/
theorem format_meets_spec (tab : Bytes → Option Qual) (mime : Bytes → Bytes) (es : List Elem) (types : List Bytes)
    (hwf : wf es = true)
    (hoff : ∀ o ∈ types, o ≠ [] → offerSane mime o = true ∧ offerParamsDistinct o) :
    specViolationFormat mime (some es) (render es) types (some (format tab mime (render es) types)) = none := by
  have hoff' : ∀ o ∈ types.filter (· != sDefault), o ≠ [] → offerSane mime o = true ∧ offerParamsDistinct o :=
    fun o ho hne => hoff o (List.mem_filter.1 ho).1 hne
  have hsel := accepts_media_eq_spec tab mime es (types.filter (· != sDefault)) hwf hoff'
  unfold specViolationFormat format
  cases types with
  | nil => simp
  | cons t0 ts =>
    simp only
    by_cases hh : render es = []
    · simp [hh]
    · have hh' : (render es == []) = false := by simpa using hh
      simp only [hh', Bool.false_eq_true, if_false, hsel]
      have hcons : (t0 :: ts == ([] : List Bytes)) = false := by simp
      simp only [hcons, Bool.false_eq_true, if_false]
      by_cases ha : expected mime .accept es (List.filter (· != sDefault) (t0 :: ts)) = []
      · simp only [ha, beq_self_eq_true, if_true]
        cases hl : lastIndexOf (t0 :: ts) sDefault with
        | none =>
          have hnot := (lastIndexOf_none_iff _ _).1 hl
          have : (t0 :: ts).contains sDefault = false := by
            rw [Bool.eq_false_iff]; intro hc; exact hnot (List.contains_iff_mem.1 hc)
          simp only [List.contains_cons, List.mem_cons, not_or] at hnot ⊢
          simp [hnot.1, hnot.2]
        | some i =>
          have hg := lastIndexOf_get hl
          simp [hg]
      · have ha' : (expected mime .accept es (List.filter (· != sDefault) (t0 :: ts)) == []) = false := by simpa using ha
        simp only [ha', Bool.false_eq_true, if_false]
        -- the negotiated type is one of the handlers' types
        have hmem : expected mime .accept es (List.filter (· != sDefault) (t0 :: ts)) ∈ t0 :: ts := by
          rw [← hsel]
          rcases result_is_offer_or_empty tab (acceptsOfferType mime) (render es) (List.filter (· != sDefault) (t0 :: ts)) with h | h
          · rw [hsel] at h; exact absurd h ha
          · exact (List.mem_filter.1 h).1
        cases hf : List.findIdx? (· == expected mime .accept es (List.filter (· != sDefault) (t0 :: ts))) (t0 :: ts) with
        | none =>
          exfalso
          rw [List.findIdx?_eq_none_iff] at hf
          have := hf _ hmem
          simp at this
        | some i =>
          obtain ⟨hlt, hi, _⟩ := List.findIdx?_eq_some_iff_getElem.1 hf
          simp only [beq_iff_eq] at hi
          simp [List.getElem?_eq_getElem hlt, hi, ha, hf]
-- non-vacuity of `format_406`
example : (format (fun _ => none) (fun _ => []) (b "image/png") [b "text/html", b "application/json"]).status = 406 := by decide
example : (format (fun _ => none) (fun _ => []) (b "image/png") [b "text/html", b "default"]).status = 200 := by decide

end C09
