import FiberModel.C09.SplitLemmas
/-
C09 — `forEachParameter` (`scanParams`) on rendered parameters: it visits the (name, value) pairs of
all non-empty parameters in order, whatever optional whitespace (SP / HTAB) and empty parameters
stand between them.
-/
namespace C09
open B

/-! ### generic list facts -/

theorem takeWhile_prefix {p : Nat → Bool} (a r : Bytes) (ha : a.all p = true) (hr : r.head?.all (fun c => !p c) = true) :
    (a ++ r).takeWhile p = a := by
  induction a with
  | nil =>
    cases r with
    | nil => rfl
    | cons c cs =>
      simp only [List.head?_cons, Option.all_some, Bool.not_eq_true'] at hr
      simp [List.takeWhile_cons, hr]
  | cons x xs ih =>
    simp only [List.all_cons, Bool.and_eq_true] at ha
    simp [List.takeWhile_cons, ha.1, ih ha.2]

theorem dropWhile_prefix {p : Nat → Bool} (a r : Bytes) (ha : a.all p = true) :
    (a ++ r).dropWhile p = r.dropWhile p := by
  induction a with
  | nil => rfl
  | cons x xs ih =>
    simp only [List.all_cons, Bool.and_eq_true] at ha
    simp [List.dropWhile_cons, ha.1, ih ha.2]

theorem dropWhile_head {p : Nat → Bool} (r : Bytes) (hr : r.head?.all (fun c => !p c) = true) : r.dropWhile p = r := by
  cases r with
  | nil => rfl
  | cons c cs =>
    simp only [List.head?_cons, Option.all_some, Bool.not_eq_true'] at hr
    simp [List.dropWhile_cons, hr]

theorem afterSemi_spaces (sp rest : Bytes) (h : owsOnly sp = true) : afterSemi (sp ++ 59 :: rest) = some rest := by
  induction sp with
  | nil => simp [afterSemi]
  | cons c cs ih =>
    obtain ⟨hc, hcs⟩ := owsOnly_cons h
    have h59 : (c == 59) = false := by rcases hc with rfl | rfl <;> decide
    simp only [List.cons_append, afterSemi, h59, Bool.false_eq_true, if_false]
    exact ih hcs

theorem afterSemi_none (sp : Bytes) (h : owsOnly sp = true) : afterSemi sp = none := by
  induction sp with
  | nil => rfl
  | cons c cs ih =>
    obtain ⟨hc, hcs⟩ := owsOnly_cons h
    have h59 : (c == 59) = false := by rcases hc with rfl | rfl <;> decide
    simp only [afterSemi, h59, Bool.false_eq_true, if_false]
    exact ih hcs

theorem owsOnly_all {s : Bytes} (h : owsOnly s = true) : s.all isOWSb = true := h

/-- the scan for the next `;` does not see leading optional whitespace -/
theorem afterSemi_dropOWS (x : Bytes) : afterSemi (x.dropWhile isOWSb) = afterSemi x := by
  induction x with
  | nil => rfl
  | cons c cs ih =>
    by_cases hc : isOWSb c = true
    · have h59 : (c == 59) = false := by rcases isOWSb_iff.1 hc with rfl | rfl <;> decide
      simp only [List.dropWhile_cons, hc, if_true, afterSemi, h59, Bool.false_eq_true, if_false]
      exact ih
    · simp [List.dropWhile_cons, hc]

theorem scanStep_dropOWS (x : Bytes) : scanStep (x.dropWhile isOWSb) = scanStep x := by
  unfold scanStep; rw [afterSemi_dropOWS]

theorem scanFuel_dropOWS (f : Nat) (x : Bytes) : scanFuel f (x.dropWhile isOWSb) = scanFuel f x := by
  cases f with
  | zero => rfl
  | succ f => simp only [scanFuel, scanStep_dropOWS]

/-! ### quoted values -/

theorem quotedValue_content (s more acc : Bytes) (h : isQuotedContent s = true) :
    quotedValue (s ++ 34 :: more) false acc = some (acc.reverse ++ s, more) := by
  induction s using isQuotedContent.induct generalizing acc with
  | case1 => simp [quotedValue]
  | case2 c rest ih =>
    simp only [isQuotedContent, Bool.and_eq_true] at h
    simp only [List.cons_append, quotedValue, show ((92 : Nat) == 34) = false by decide, Bool.false_and,
      Bool.false_eq_true, if_false, beq_self_eq_true, Bool.not_false, Bool.and_self, Bool.not_true, Bool.and_false]
    rw [ih _ h.2]
    simp
  | case3 c rest hne ih =>
    simp only [isQuotedContent, Bool.and_eq_true] at h
    have hq := h.1
    have e2 : (c == 34) = false := by
      have : c ≠ 34 := by intro e; subst e; simp [qdtext] at hq
      simpa using this
    have e3 : (c == 92) = false := by
      have : c ≠ 92 := by intro e; subst e; simp [qdtext] at hq
      simpa using this
    simp only [List.cons_append, quotedValue, e2, e3, Bool.false_and, Bool.false_eq_true, if_false]
    rw [ih _ h.2]
    simp

/-! ### the scanner over rendered parameters -/

/-- the pairs the scanner reports: all non-empty parameters, in order -/
def visitedPairs : List Param → Params
  | [] => []
  | p :: ps => if p.name == [] then visitedPairs ps else (p.name, p.value) :: visitedPairs ps

theorem renderParams_cons (p : Param) (ps : List Param) : renderParams (p :: ps) = renderParam p ++ renderParams ps := by
  simp [renderParams]

/-- what follows a parameter starts with optional whitespace or `;`, or is empty: never a token byte -/
theorem more_head (ps : List Param) (trail : Bytes) (hps : ∀ p ∈ ps, p.strict) (ht : owsOnly trail = true) :
    (renderParams ps ++ trail).head?.all (fun c => !tchar c && !(c == 61)) = true := by
  have hsp : ∀ (sp r : Bytes), owsOnly sp = true → r.head?.all (fun c => !tchar c && !(c == 61)) = true →
      (sp ++ r).head?.all (fun c => !tchar c && !(c == 61)) = true := by
    intro sp r h hr
    cases sp with
    | nil => simpa using hr
    | cons c cs =>
      obtain ⟨hc, _⟩ := owsOnly_cons h
      simp only [List.cons_append, List.head?_cons, Option.all_some]
      rcases hc with rfl | rfl <;> decide
  cases ps with
  | nil =>
    simp only [renderParams, List.map_nil, List.flatten_nil, List.nil_append]
    have := hsp trail [] ht (by simp)
    simpa using this
  | cons p ps =>
    rw [renderParams_cons]
    unfold renderParam
    simp only [List.append_assoc]
    apply hsp _ _ (hps p (by simp)).2.1
    simp
    decide

theorem token_all {s : Bytes} (h : isToken s = true) : s ≠ [] ∧ s.all tchar = true := by
  unfold isToken at h
  simp only [Bool.and_eq_true, bne_iff_ne, ne_eq] at h
  exact h

theorem qvalue_token {v : Bytes} {q : Qual} (h : qvalue? v = some q) : isToken v = true := by
  have hc := qvalue_chars h
  unfold isToken
  simp only [Bool.and_eq_true, bne_iff_ne, ne_eq]
  refine ⟨?_, ?_⟩
  · intro e; subst e; simp [qvalue?] at h
  · rw [List.all_eq_true] at hc ⊢
    intro x hx
    have := hc x hx
    simp only [Bool.or_eq_true, beq_iff_eq] at this
    rcases this with hd | rfl
    · simp [tchar, hd]
    · decide

/-- value of a well-formed non-empty parameter is a token, or (quoted) well-formed content -/
theorem strict_value {p : Param} (h : p.strict) (hn : p.name ≠ []) :
    isToken p.name = true ∧ (if p.quoted then isQuotedContent p.value = true else isToken p.value = true) := by
  have hwf := h.1
  unfold wfParam at hwf
  simp only [Bool.and_eq_true] at hwf
  have hn' : (p.name == []) = false := by simpa using hn
  obtain ⟨_, hbody⟩ := hwf
  simp only [hn', Bool.false_eq_true, if_false, Bool.and_eq_true] at hbody
  refine ⟨hbody.1, ?_⟩
  have hv := hbody.2
  by_cases hq : p.quoted = true
  · simp only [hq, if_true] at hv ⊢
    split at hv
    · simp at hv
    · exact hv
  · have hq' : p.quoted = false := by simpa using hq
    simp only [hq', Bool.false_eq_true, if_false] at hv ⊢
    split at hv
    · simp only [Bool.not_false, Bool.true_and] at hv
      obtain ⟨q, hq⟩ := Option.isSome_iff_exists.1 hv
      exact qvalue_token hq
    · exact hv

/-- one loop iteration on `OWS ";" OWS body` looks at `body` -/
theorem scanStep_at (o1 o2 body : Bytes) (h1 : owsOnly o1 = true) (h2 : owsOnly o2 = true) :
    scanStep (o1 ++ 59 :: (o2 ++ body)) = scanBody (body.dropWhile isOWSb) := by
  unfold scanStep
  rw [afterSemi_spaces _ _ h1]
  simp only
  rw [dropWhile_prefix _ _ (owsOnly_all h2)]

/-- an empty parameter followed by another `;` (after optional whitespace): the scan goes on there -/
theorem scanStep_empty_more (p : Param) (more : Bytes) (hp : p.strict) (hn : p.name = [])
    (hmore : (more.dropWhile isOWSb).head? = some 59) :
    scanStep (renderParam p ++ more) = some (none, more.dropWhile isOWSb) := by
  have e : renderParam p ++ more = p.ows1 ++ 59 :: (p.ows2 ++ more) := by
    simp [renderParam, hn, List.append_assoc]
  rw [e, scanStep_at _ _ _ hp.2.1 hp.2.2]
  unfold scanBody
  simp [hmore]

/-- an empty parameter followed by optional whitespace only: the scan ends -/
theorem scanStep_empty_last (p : Param) (more : Bytes) (hp : p.strict) (hn : p.name = [])
    (hmore : more.dropWhile isOWSb = []) :
    scanStep (renderParam p ++ more) = none := by
  have e : renderParam p ++ more = p.ows1 ++ 59 :: (p.ows2 ++ more) := by
    simp [renderParam, hn, List.append_assoc]
  rw [e, scanStep_at _ _ _ hp.2.1 hp.2.2, hmore]
  rfl

/-- a token starts with a byte that is neither optional whitespace nor `;` -/
theorem token_start {s : Bytes} (hne : s ≠ []) (hall : s.all tchar = true) (r : Bytes) :
    (s ++ r).dropWhile isOWSb = s ++ r ∧ ((s ++ r).head? == some 59) = false := by
  obtain ⟨c, cs, hcs⟩ := List.exists_cons_of_ne_nil hne
  have hc : tchar c = true := List.all_eq_true.1 hall c (by simp [hcs])
  have hn := tchar_ne hc
  have hows : isOWSb c = false := by simp [isOWSb, hn.1, hn.2.2.2.2.2.2]
  subst hcs
  refine ⟨by simp [List.dropWhile_cons, hows], ?_⟩
  simp [hn.2.1]

theorem scanStep_param (p : Param) (more : Bytes) (hp : p.strict) (hn : p.name ≠ [])
    (hmore : more.head?.all (fun c => !tchar c && !(c == 61)) = true) :
    scanStep (renderParam p ++ more) = some (some (p.name, p.value), more) := by
  obtain ⟨hname, hval⟩ := strict_value hp hn
  obtain ⟨hnne, hnall⟩ := token_all hname
  have hn' : (p.name == []) = false := by simpa using hn
  have hne2 : p.name.isEmpty = false := by simpa using hnne
  have hnotT : more.head?.all (fun c => !tchar c) = true := by
    cases hh : more.head? with
    | none => simp
    | some x => rw [hh] at hmore; simp at hmore ⊢; exact hmore.1
  by_cases hq : p.quoted = true
  · -- quoted-string value
    simp only [hq, if_true] at hval
    have e : renderParam p ++ more = p.ows1 ++ 59 :: (p.ows2 ++ (p.name ++ (61 :: 34 :: (p.value ++ 34 :: more)))) := by
      simp [renderParam, hn', hq, List.append_assoc]
    rw [e, scanStep_at _ _ _ hp.2.1 hp.2.2]
    obtain ⟨hstart, hsemi⟩ := token_start hnne hnall (61 :: 34 :: (p.value ++ 34 :: more))
    rw [hstart]
    unfold scanBody
    have hkey : (p.name ++ (61 :: 34 :: (p.value ++ 34 :: more))).takeWhile tchar = p.name :=
      takeWhile_prefix _ _ hnall (by simp; decide)
    simp only [hsemi, Bool.false_eq_true, if_false, hkey, hne2, List.drop_left, show tchar 34 = false by decide,
      beq_self_eq_true, if_true]
    rw [quotedValue_content _ _ _ hval]
    simp
  · -- token value
    have hq' : p.quoted = false := by simpa using hq
    simp only [hq', Bool.false_eq_true, if_false] at hval
    obtain ⟨hvne, hvall⟩ := token_all hval
    obtain ⟨c, cs, hcs⟩ := List.exists_cons_of_ne_nil hvne
    have hc : tchar c = true := List.all_eq_true.1 hvall c (by simp [hcs])
    have e : renderParam p ++ more = p.ows1 ++ 59 :: (p.ows2 ++ (p.name ++ (61 :: c :: (cs ++ more)))) := by
      simp [renderParam, hn', hq', hcs, List.append_assoc]
    rw [e, scanStep_at _ _ _ hp.2.1 hp.2.2]
    obtain ⟨hstart, hsemi⟩ := token_start hnne hnall (61 :: c :: (cs ++ more))
    rw [hstart]
    unfold scanBody
    have hkey : (p.name ++ (61 :: c :: (cs ++ more))).takeWhile tchar = p.name :=
      takeWhile_prefix _ _ hnall (by simp; decide)
    have htw : (c :: (cs ++ more)).takeWhile tchar = c :: cs := by
      have := takeWhile_prefix (p := tchar) (c :: cs) more (by rw [← hcs]; exact hvall) hnotT
      simpa using this
    simp only [hsemi, Bool.false_eq_true, if_false, hkey, hne2, List.drop_left, hc, if_true, htw]
    simp [hcs]

theorem dropWhile_all {p : Nat → Bool} (s : Bytes) (h : s.all p = true) : s.dropWhile p = [] := by
  have := dropWhile_prefix (p := p) s [] h
  simpa using this

/-- after optional whitespace, a non-empty parameter list starts with its `;` -/
theorem more_semi (p2 : Param) (ps2 : List Param) (trail : Bytes) (hp2 : p2.strict) :
    ((renderParams (p2 :: ps2) ++ trail).dropWhile isOWSb).head? = some 59 := by
  rw [renderParams_cons]
  unfold renderParam
  simp only [List.append_assoc]
  rw [dropWhile_prefix _ _ (owsOnly_all hp2.2.1)]
  simp [List.dropWhile_cons, show isOWSb 59 = false by decide]

theorem visit_rendered (ps : List Param) (trail : Bytes) (hps : ∀ p ∈ ps, p.strict) (ht : owsOnly trail = true) :
    ∀ fuel, (renderParams ps ++ trail).length < fuel → scanFuel fuel (renderParams ps ++ trail) = visitedPairs ps := by
  induction ps with
  | nil =>
    intro fuel hf
    cases fuel with
    | zero => omega
    | succ f => simp [renderParams, scanFuel, scanStep, afterSemi_none _ ht, visitedPairs]
  | cons p ps ih =>
    intro fuel hf
    have hp := hps p (by simp)
    have hps' : ∀ q ∈ ps, q.strict := fun q hq => hps q (by simp [hq])
    cases fuel with
    | zero => omega
    | succ f =>
      rw [renderParams_cons, List.append_assoc] at hf ⊢
      have hpos : 1 ≤ (renderParam p).length := by
        unfold renderParam; simp only [List.length_append, List.length_cons, List.length_nil]; omega
      have hf' : (renderParams ps ++ trail).length < f := by
        simp only [List.length_append] at hf ⊢; omega
      simp only [scanFuel, visitedPairs]
      by_cases hn : p.name = []
      · have hn' : (p.name == []) = true := by simp [hn]
        simp only [hn', if_true]
        cases hpsc : ps with
        | nil =>
          have hmore : (renderParams [] ++ trail).dropWhile isOWSb = [] := by
            simpa [renderParams] using dropWhile_all trail (owsOnly_all ht)
          rw [scanStep_empty_last p _ hp hn hmore]
          simp [visitedPairs]
        | cons p2 ps2 =>
          have hp2 : p2.strict := hps' p2 (by rw [hpsc]; simp)
          rw [scanStep_empty_more p _ hp hn (more_semi p2 ps2 trail hp2)]
          simp only
          rw [scanFuel_dropOWS, ← hpsc]
          exact ih hps' f hf'
      · have hn' : (p.name == []) = false := by simpa using hn
        rw [scanStep_param p _ hp hn (more_head ps trail hps' ht)]
        simp only [hn', Bool.false_eq_true, if_false]
        rw [ih hps' f hf']

theorem scanParams_rendered (ps : List Param) (trail : Bytes) (hps : ∀ p ∈ ps, p.strict) (ht : owsOnly trail = true) :
    scanParams (renderParams ps ++ trail) = visitedPairs ps :=
  visit_rendered ps trail hps ht _ (Nat.lt_succ_self _)

end C09
